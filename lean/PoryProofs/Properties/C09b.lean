import PoryProofs.LexString
/-
C09 (lexer half) — "a (multi-part) literal lexes to its parts joined by a newline, a
newline+indentation inside a part becoming one space".

All statements are about the model functions `strBody`, `readString`, `readStringToken`,
`nextToken` of `PoryModel/Lexer.lean`, for arbitrary counters.

Vocabulary (`PoryProofs/LexString.lean`):
* `Part src txt` — the source `src` of one part (the characters between the quotes) denotes the
  text `txt`: a character other than `"`, NUL, `\n`, `\r` denotes itself, a `\n`/`\r` together
  with all whitespace after it denotes one space;
* `addPart sb t`, `joinParts txts` — the Go accumulation `if sb.Len() > 0 { '\n' }; part`;
* `partsSrc ps` — the source `"src₁"ws₁"src₂"ws₂…` of the parts `ps` (`wsᵢ` whitespace only).
-/
namespace Pory.C09b
open Pory Pory.Lexer Pory.LexPos Pory.LexLayout Pory.LexString Pory.C19b

/-- One part in general: started just after the opening quote on `src"t`, with enough fuel
(`readString` gives `length + 1`), `strBody` returns the text `src` denotes and stops at the
closing quote. -/
theorem strBody_part (src txt t : List Char) (p : Pos) (n : Nat) (h : Part src txt)
    (hn : (src ++ '"' :: t).length < n) :
    (strBody n ⟨src ++ '"' :: t, p⟩).1 = txt ∧ (strBody n ⟨src ++ '"' :: t, p⟩).2.inp = '"' :: t := by
  have e := strBody_e n ⟨src ++ '"' :: t, p⟩
  have f := strBodyF_part h t
  rw [strBodyF, ← strBodyE_fuel n _ _ hn (Nat.lt_succ_self _)] at f
  simp only at e
  rw [f] at e
  exact e

/-- A part `"c₁…cₙ"` whose characters contain no `"`, NUL, `\n`, `\r`: `strBody` returns exactly
`c₁…cₙ` and stops at the closing quote. -/
theorem strBody_plain (cs t : List Char) (p : Pos) (n : Nat)
    (h : ∀ c ∈ cs, c ≠ '"' ∧ c ≠ NUL ∧ c ≠ '\n' ∧ c ≠ '\r') (hn : (cs ++ '"' :: t).length < n) :
    (strBody n ⟨cs ++ '"' :: t, p⟩).1 = cs ∧ (strBody n ⟨cs ++ '"' :: t, p⟩).2.inp = '"' :: t :=
  strBody_part cs cs t p n (Part.plain cs h) hn

/-- A run that starts with `\n` or `\r` and continues with whitespace `ws`, between plain text
`l0` and text `src` that does not start with whitespace, contributes exactly one `' '`. -/
theorem strBody_linebreak (l0 ws src txt t : List Char) (c : Char) (p : Pos) (n : Nat)
    (h0 : ∀ c ∈ l0, c ≠ '"' ∧ c ≠ NUL ∧ c ≠ '\n' ∧ c ≠ '\r') (hc : c = '\n' ∨ c = '\r')
    (hws : ∀ x ∈ ws, isWs x = true) (hsrc : ∀ x ∈ src.head?, isWs x = false) (h : Part src txt)
    (hn : ((l0 ++ c :: (ws ++ src)) ++ '"' :: t).length < n) :
    (strBody n ⟨(l0 ++ c :: (ws ++ src)) ++ '"' :: t, p⟩).1 = l0 ++ ' ' :: txt ∧
      (strBody n ⟨(l0 ++ c :: (ws ++ src)) ++ '"' :: t, p⟩).2.inp = '"' :: t :=
  strBody_part _ _ t p n
    (Part.plain_append l0 h0 (.brk c ws src txt (by rcases hc with rfl | rfl <;> decide) hws hsrc h)) hn

/-- The closing quote directly after a line break (`src = []`): the break still gives one space
and the part ends (a repaired defect). -/
theorem strBody_linebreak_then_quote (l0 ws t : List Char) (c : Char) (p : Pos) (n : Nat)
    (h0 : ∀ c ∈ l0, c ≠ '"' ∧ c ≠ NUL ∧ c ≠ '\n' ∧ c ≠ '\r') (hc : c = '\n' ∨ c = '\r')
    (hws : ∀ x ∈ ws, isWs x = true) (hn : ((l0 ++ c :: ws) ++ '"' :: t).length < n) :
    (strBody n ⟨(l0 ++ c :: ws) ++ '"' :: t, p⟩).1 = l0 ++ [' '] ∧
      (strBody n ⟨(l0 ++ c :: ws) ++ '"' :: t, p⟩).2.inp = '"' :: t := by
  have := strBody_linebreak l0 ws [] [] t c p n h0 hc hws (by simp) .nil (by simpa using hn)
  simpa using this

/-- Parts separated by whitespace only: `readString`, started on the opening quote of the first
part with accumulated text `sb`, accumulates the part texts — each preceded by `'\n'` exactly
when the text so far is non-empty — and stops at `tail` (which is neither whitespace nor a
quote); `n` is the fuel, one unit per part. -/
theorem readString_parts (ps : List PartSrc) (hok : PartsOK ps) (tail : List Char)
    (hw : ∀ x ∈ tail.head?, isWs x = false) (hq : ch tail ≠ '"') (n : Nat) (hn : ps.length < n)
    (sb : List Char) (e : Nat × Nat × Nat) (p : Pos) :
    (readString n ⟨partsSrc ps ++ tail, p⟩ sb e).1 = (ps.map (·.txt)).foldl addPart sb ∧
      (readString n ⟨partsSrc ps ++ tail, p⟩ sb e).2.2.inp = tail := by
  have h1 := readString_e n ⟨partsSrc ps ++ tail, p⟩ sb e
  rw [readStringE_parts ps hok tail hw hq n hn sb] at h1
  exact h1

/-- The token: its type is `STRING`, its literal is `String.ofList` of the joined part texts, and
the lexer continues at `tail`. -/
theorem readStringToken_parts (ps : List PartSrc) (hok : PartsOK ps) (tail : List Char)
    (hw : ∀ x ∈ tail.head?, isWs x = false) (hq : ch tail ≠ '"') (p : Pos) :
    (readStringToken ⟨partsSrc ps ++ tail, p⟩).1.type = .STRING ∧
      (readStringToken ⟨partsSrc ps ++ tail, p⟩).1.lit = String.ofList (joinParts (ps.map (·.txt))) ∧
      (readStringToken ⟨partsSrc ps ++ tail, p⟩).2.inp = tail := by
  have h := readStringToken_e ⟨partsSrc ps ++ tail, p⟩
  obtain ⟨h1, h2⟩ := strLit_parts ps hok tail hw hq
  simp only [erase, Prod.mk.injEq] at h
  rw [h1] at h
  exact ⟨h.1.1, h.1.2, h.2.trans h2⟩

/-- `nextToken` on a (multi-part) literal: one `STRING` token whose literal is the part texts
joined (`joinParts`), the rest of the input is `tail`. -/
theorem string_token (q : PartSrc) (ps : List PartSrc) (hok : PartsOK (q :: ps)) (tail : List Char)
    (hw : ∀ x ∈ tail.head?, isWs x = false) (hq : ch tail ≠ '"') (p : Pos) :
    (nextToken ⟨partsSrc (q :: ps) ++ tail, p⟩).1.map erase =
        [(.STRING, String.ofList (joinParts ((q :: ps).map (·.txt))))] ∧
      (nextToken ⟨partsSrc (q :: ps) ++ tail, p⟩).2.1.inp = tail := by
  have h := nextToken_erased (partsSrc (q :: ps) ++ tail) p
  obtain ⟨h1, h2⟩ := strLit_parts (q :: ps) hok tail hw hq
  have hn : nextE (partsSrc (q :: ps) ++ tail) = strE (partsSrc (q :: ps) ++ tail) := by
    simp only [partsSrc, List.cons_append]
    rw [nextE_stop _ _ (by decide) (by simp [isCommentStart, ch])]
    simp [tokenAtE]
  rw [hn, strE, h1, h2] at h
  exact ⟨congrArg (·.1) h, congrArg (·.2.1) h⟩

/-- With a non-empty first part the literal is the part texts joined by single newlines. -/
theorem joined_by_newlines (t : List Char) (ht : t ≠ []) (ts : List (List Char)) :
    joinParts (t :: ts) = t ++ (ts.map fun x => '\n' :: x).flatten := joinParts_cons t ht ts

/-! ### Checked examples -/

/-- tokens of a source as (type, literal) -/
def lits (src : String) : List (TT × String) := (lexAll src.toList).map erase

-- two parts on two lines are joined by a newline
example : lits "\"Hello\"\n  \"World\" x" = [(.STRING, "Hello\nWorld"), (.IDENT, "x"), (.EOF, "")] := by
  decide +kernel
-- a newline + indentation inside a part becomes one space
example : lits "\"Hello\n      World\"" = [(.STRING, "Hello World"), (.EOF, "")] := by decide +kernel
-- `\r\n` and blank lines inside a part are still one space
example : lits "\"a\r\n\r\n \t b\"" = [(.STRING, "a b"), (.EOF, "")] := by decide +kernel
-- closing quote directly after a line break: one space, then the literal ends (repaired defect)
example : lits "\"Hello\n\" y" = [(.STRING, "Hello "), (.IDENT, "y"), (.EOF, "")] := by decide +kernel
example : lits "\"Hello\n   \"\n\"World\"" = [(.STRING, "Hello \nWorld"), (.EOF, "")] := by
  decide +kernel
-- an empty first part leaves no newline (`sb.Len() > 0`)
example : lits "\"\" \"b\"" = [(.STRING, "b"), (.EOF, "")] := by decide +kernel
-- an empty later part leaves a newline
example : lits "\"a\" \"\" \"b\"" = [(.STRING, "a\n\nb"), (.EOF, "")] := by decide +kernel
-- a comment between two literals separates them into two tokens
example : lits "\"a\" # c\n\"b\"" = [(.STRING, "a"), (.STRING, "b"), (.EOF, "")] := by decide +kernel
/-- The hypotheses of `string_token` on a concrete two-part literal with a line break inside the
first part and a closing quote directly after a line break in the second. -/
example :
    let q1 : PartSrc := ⟨"Hi\n  there".toList, "Hi there".toList, "\n\t".toList⟩
    let q2 : PartSrc := ⟨"you\n".toList, "you ".toList, " ".toList⟩
    PartsOK [q1, q2] ∧ partsSrc [q1, q2] ++ ")".toList = "\"Hi\n  there\"\n\t\"you\n\" )".toList ∧
      joinParts ([q1, q2].map (·.txt)) = "Hi there\nyou ".toList := by
  intro q1 q2
  refine ⟨?_, by decide, by decide⟩
  intro q hq
  simp only [List.mem_cons, List.not_mem_nil, or_false] at hq
  rcases hq with rfl | rfl
  · refine ⟨?_, by decide⟩
    exact Part.plain_append "Hi".toList (by decide)
      (.brk '\n' "  ".toList _ _ (by decide) (by decide) (by decide) (Part.plain _ (by decide)))
  · refine ⟨?_, by decide⟩
    exact Part.plain_append "you".toList (by decide)
      (.brk '\n' [] [] [] (by decide) (by decide) (by decide) .nil)

end Pory.C09b
