import PoryProofs.LexPrintBool
import PoryProofs.Properties.C02P
/-
L1 — "lex ∘ print = id": a token list, written as text in the obvious way, lexes back to the same
token types and literals.  This ties the grammar theorems, which are stated about TOKEN LISTS
(`parse… (print… tree ++ …)`), to SOURCE TEXT.

All statements are about the model lexer `Lexer.lexAll : List Char → List Tok`
(PoryModel/Lexer.lean).  Helpers: PoryProofs/LexPrint.lean (token classes, one call reads one
spelling back — built on the `LexemeAt` lemmas of LexLayout.lean / LexString.lean) and
PoryProofs/LexPrintLoop.lean (renderings, the loop).

DEFINITIONS
* `TokOK t` (decidable; LexPrint.lean): the token is one the lexer produces from its own literal —
    - a punctuation / operator type with its fixed literal: `* ( ) [ ] , : { } = ! < > == != <= >= && ||`
      (`fixedToks`);
    - a literal of the lexer's identifier class (Unicode letter or `_`, then letters / Unicode digits) whose
      type is the one `getIdentType` assigns: `IDENT` if the literal is not a keyword, the keyword's type if it
      is one of the 30 keywords of `Facts.keywords` (`tokOK_ident`, `tokOK_keyword`); or whose type is
      `STRINGTYPE` (the `ascii` of `ascii"…"`);
    - `INT` with a literal of (Unicode) digits, `-` + digits, or `0x` + hexadecimal digits (also none);
    - `STRING` whose literal contains no `"`, NUL, `\n`, `\r` — every other character, the backslash included,
      stands for itself in the model lexer (there is no escape processing in `readString`);
    - `RAWSTRING` whose literal contains no back-quote, no NUL and does not end in Unicode white space.
  Not covered: `ILLEGAL`, `EOF` (not printable), `STRING` literals containing a newline (they can only be
  written as multi-part literals `"a" "b"`), `\r` / NUL / `"` inside a literal (not writable at all).
* `text t`: the spelling — `"lit"` for `STRING`, `` `lit` `` for `RAWSTRING`, the literal otherwise.
* `renderWith sep ts` / `render ts = renderWith " " ts`: the spellings joined by the separator, EXCEPT that a
  `STRINGTYPE` token is written directly in front of the token that follows it (`render_plain`: without
  `STRINGTYPE` tokens it is literally `sep.intercalate (ts.map text)`).
* `AdjOK ts` (decidable; LexPrintLoop.lean): every `STRINGTYPE` token is directly followed by a `STRING` token,
  and no `STRING` token is directly followed by a `STRING` token.

PROVED (nothing partial)
* `lex_render`       : `(∀ t ∈ ts, TokOK t) → AdjOK ts →
                        (lexAll (render ts).toList).map (type, lit) = ts.map (type, lit) ++ [(EOF, "")]`.
* `lex_render_sep`   : the same for any separator that is a non-empty run of `' ' '\t' '\n' '\r'` (`SepOK`), e.g.
                        one token per line (`lex_render_lines`).
* `lex_render_records` : the records form used by the bridge — `lexAll (render ts).toList = ts' ++ [eof]` with
                        `ts'` the same text as `ts` (`C02P.SameText`) and `eof.type = EOF`.
* `lex_render_nostr` : for token lists without `STRING` / `STRINGTYPE` tokens the per-token condition suffices.
* THE STATEMENT WITH THE PER-TOKEN HYPOTHESIS ALONE IS FALSE OF THE MODEL (and of the Go lexer):
  `lex_render_needs_adj` — the two `TokOK` tokens `STRING "a"`, `STRING "b"` render to `"a" "b"`, which the lexer
  reads as ONE token `STRING "a⏎b"` (adjacent literals are parts of one literal; `adjacent_strings_fuse`).
  Hence the list-level side condition `AdjOK`.  Likewise a `STRINGTYPE` must touch its literal: `ascii "x"`
  lexes to `IDENT ascii`, `STRING x` (`stringtype_needs_glue`).
* `parse_of_source`  : the bridge, instantiated on `C02P.parse_bool_correct_tokens`: for every expression `g` of the
                        reference grammar `SOr`, the SOURCE TEXT `render (pre :: printOr g ++ rparen :: rest)` — lexed by
                        `lexAll`, the lexer's own records and positions — is parsed by `parseBooleanExpression` into
                        a tree with the value of the written expression, stopping at the `)`.  Hypotheses: the
                        printed tokens are `TokOK` and `AdjOK`.
* `parse_of_source_names` : the same with the hypotheses on the NAMES occurring in `g` (`okOr g`, decidable,
                        PoryProofs/LexPrintBool.lean: operand names are non-keyword identifiers, comparison values
                        renderable `INT` / `IDENT` tokens); `printOr_good` shows that then all printed tokens are
                        renderable, whatever the positions in `g`.
  Other token-level theorems that quantify over arbitrary token records (P1, P1b, C10b …) apply to the lexer's
  records in the same way once the lexed list is exhibited as the print of a re-decorated tree; for `SOr` this
  re-decoration is `C02P.or_retok` (inside `parse_bool_correct_tokens`).  No such lemma exists yet for the
  statement grammar `StmtG.SStmt`, so the bridge is instantiated on the boolean grammar only
  (`lex_render_records` is the form such a lemma would consume).
* side results: `digit_not_letter` (LexPrintChars.lean; no character of the Unicode digit table is in the letter
  table or `_`, so a decimal `INT` literal needs no side condition), `tokOK_ident`, `tokOK_keyword`, `tokOK_fixed`,
  `tokOK_decimal`, `render_plain`.

EVALUATION NOTE.  `decide +kernel` cannot evaluate the model's `isLetter` / `isDigit` on a character that is NOT
in the table (`Array.any` over 623 ranges: ≈ 30 s per character), so `TokOK` is decided through the list form of
the tables (`tokOKfast`, `isLetterL_eq`) and whole-lexer sanity checks are `#guard`s (as in P1.lean).

Positions are not mentioned: they are what `C19.lexAll_positions` says about `lexAll` on any input.
-/
namespace Pory.L1
open Pory Pory.Lexer Pory.LexLayout

/-- the text of a token list with separator `sep` -/
def renderWith (sep : String) (ts : List Tok) : String := String.ofList (renderL sep.toList ts)

/-- **render**: the spellings joined by single spaces (a string type touches its literal). -/
def render (ts : List Tok) : String := renderWith " " ts

/-- Without `STRINGTYPE` tokens a rendering is literally the spellings joined by the separator. -/
theorem renderL_plain (sep : List Char) (ts : List Tok) (h : ∀ t ∈ ts, t.type ≠ .STRINGTYPE) :
    renderL sep ts = List.intercalate sep (ts.map text) := by
  induction ts with
  | nil => rfl
  | cons t r ih =>
    have ihr := ih fun x hx => h x (List.mem_cons_of_mem _ hx)
    cases r with
    | nil => simp [renderL, List.intercalate]
    | cons u r =>
      rw [renderL, ihr]
      simp [glue, h t (List.mem_cons_self ..), List.intercalate]

theorem render_plain (ts : List Tok) (h : ∀ t ∈ ts, t.type ≠ .STRINGTYPE) :
    (render ts).toList = List.intercalate [' '] (ts.map text) := by
  simp only [render, renderWith, String.toList_ofList]
  exact renderL_plain _ ts h

/-! ### What `TokOK` contains -/

/-- An `IDENT` token is `TokOK` iff its literal is of the identifier class and is not a keyword. -/
theorem tokOK_ident (t : Tok) (h : t.type = .IDENT) :
    TokOK t ↔ identLit t.lit.toList = true ∧ getIdentType t.lit = .IDENT := by
  unfold TokOK tokOK tokOKw identLit
  have hf : ((TT.IDENT, t.lit) ∈ fixedToks) = False := by
    rw [fixedToks_eq]
    simp
  simp only [h, hf, decide_false, Bool.false_or, Bool.or_eq_true, Bool.and_eq_true, beq_iff_eq]
  constructor
  · rintro ((((⟨h2 | h2, h1⟩) | ⟨h2, -⟩) | ⟨h2, -⟩) | ⟨h2, -⟩)
    · exact ⟨h1, h2.symm⟩
    all_goals cases h2
  · rintro ⟨h1, h2⟩
    exact Or.inl (Or.inl (Or.inl ⟨Or.inl h2.symm, h1⟩))

/-- Every keyword token with its keyword literal is `TokOK`. -/
theorem tokOK_keyword : ∀ p ∈ Facts.keywords, ∀ t : Tok, t.type = p.2 → t.lit = p.1 → TokOK t := by
  have key : ∀ p ∈ Facts.keywords, tokOKfast { type := p.2, lit := p.1 } = true := by decide +kernel
  intro p hp t h1 h2
  exact (tokOK_congr (t' := { type := p.2, lit := p.1 }) h1 h2).2 (TokOK.of_fast (key p hp))

/-- Every punctuation / operator token with its literal is `TokOK`. -/
theorem tokOK_fixed : ∀ p ∈ fixedToks, ∀ t : Tok, t.type = p.1 → t.lit = p.2 → TokOK t := by
  intro p hp t h1 h2
  unfold TokOK tokOK tokOKw
  rw [h1, h2]
  simp [hp]

/-- A decimal `INT` token: any non-empty run of (Unicode) digits — no character is both a digit and
a letter (`digit_not_letter`), so the lexer never takes it for an identifier. -/
theorem tokOK_decimal (t : Tok) (h : t.type = .INT) (hl : decLit t.lit.toList = true) : TokOK t := by
  unfold TokOK tokOK tokOKw
  unfold decLit at hl
  simp [h, hl]

/-! ### lex ∘ render = id -/

theorem sepOK_of_string (sep : String) (h1 : sep ≠ "") (h2 : ∀ c ∈ sep.toList, isWs c = true) :
    SepOK sep.toList := by
  refine ⟨fun h => h1 ?_, h2⟩
  rw [← String.ofList_toList (s := sep), h]

/-- **L1 for any whitespace separator.** -/
theorem lex_render_sep (sep : String) (h1 : sep ≠ "") (h2 : ∀ c ∈ sep.toList, isWs c = true)
    (ts : List Tok) (hok : ∀ t ∈ ts, TokOK t) (hadj : AdjOK ts) :
    (Lexer.lexAll (renderWith sep ts).toList).map (fun t => (t.type, t.lit)) =
      ts.map (fun t => (t.type, t.lit)) ++ [(.EOF, "")] := by
  have := lexAllE_render sep.toList (sepOK_of_string sep h1 h2) ts hok hadj
  rw [← lexAll_erased] at this
  simp only [renderWith, String.toList_ofList]
  exact this

/-- **L1, lex ∘ print = id.**  If every token is one the lexer can produce from its own literal
(`TokOK`) and the list satisfies the two adjacency conditions (`AdjOK`), the text `render ts` lexes to
tokens with exactly the types and literals of `ts`, followed by the `EOF` token. -/
theorem lex_render (ts : List Tok) (hok : ∀ t ∈ ts, TokOK t) (hadj : AdjOK ts) :
    (Lexer.lexAll (render ts).toList).map (fun t => (t.type, t.lit)) =
      ts.map (fun t => (t.type, t.lit)) ++ [(.EOF, "")] :=
  lex_render_sep " " (by decide) (by decide) ts hok hadj

/-- One token per line. -/
theorem lex_render_lines (ts : List Tok) (hok : ∀ t ∈ ts, TokOK t) (hadj : AdjOK ts) :
    (Lexer.lexAll (renderWith "\n" ts).toList).map (fun t => (t.type, t.lit)) =
      ts.map (fun t => (t.type, t.lit)) ++ [(.EOF, "")] :=
  lex_render_sep "\n" (by decide) (by decide) ts hok hadj

/-- Without string and string-type tokens the adjacency conditions hold trivially. -/
theorem adjOK_of_nostr (ts : List Tok) (h : ∀ t ∈ ts, t.type ≠ .STRING ∧ t.type ≠ .STRINGTYPE) :
    AdjOK ts := by
  induction ts with
  | nil => rfl
  | cons t r ih =>
    have ht := h t (List.mem_cons_self ..)
    have ihr := ih fun x hx => h x (List.mem_cons_of_mem _ hx)
    cases r with
    | nil => simp [AdjOK, adjOK, ht.2]
    | cons u r =>
      unfold AdjOK adjOK
      unfold AdjOK at ihr
      simp [ht.1, ht.2, ihr]

/-- L1 with per-token hypotheses only, for token lists without string literals. -/
theorem lex_render_nostr (ts : List Tok)
    (hok : ∀ t ∈ ts, TokOK t ∧ t.type ≠ .STRING ∧ t.type ≠ .STRINGTYPE) :
    (Lexer.lexAll (render ts).toList).map (fun t => (t.type, t.lit)) =
      ts.map (fun t => (t.type, t.lit)) ++ [(.EOF, "")] :=
  lex_render ts (fun t ht => (hok t ht).1) (adjOK_of_nostr ts fun t ht => (hok t ht).2)

/-! ### The per-token hypothesis alone is not enough -/

theorem fuse_parts_ok : LexString.PartsOK [⟨"a".toList, "a".toList, " ".toList⟩] := by
  intro q hq
  simp only [List.mem_singleton] at hq
  subst hq
  exact ⟨LexString.Part.plain _ (by decide), by decide⟩

/-- the two-part literal `"a" "b"` as one lexeme -/
def fuseL : Lexeme :=
  ⟨_, _, LexString.okStr, LexString.lexemeAt_string [⟨"a".toList, "a".toList, " ".toList⟩]
    fuse_parts_ok "b".toList "b".toList (LexString.Part.plain _ (by decide))⟩

/-- Two string literals separated by whitespace are ONE literal for the lexer (proved from
`LexString.lexemeAt_string` through `LexLayout.lexAllE_layout`, not by evaluation). -/
theorem adjacent_strings_fuse :
    (∀ t ∈ [C02P.tk .STRING "a", C02P.tk .STRING "b"], TokOK t) ∧
    render [C02P.tk .STRING "a", C02P.tk .STRING "b"] = "\"a\" \"b\"" ∧
    (Lexer.lexAll (render [C02P.tk .STRING "a", C02P.tk .STRING "b"]).toList).map
      (fun t => (t.type, t.lit)) = [(.STRING, "a\nb"), (.EOF, "")] := by
  refine ⟨by decide +kernel, by decide +kernel, ?_⟩
  have h := lexAllE_layout [] [(fuseL, [])] (.done _)
    ⟨.done _, by show LexString.okStr _; show ch _ ≠ '"'; decide, trivial⟩
  rw [← lexAll_erased] at h
  have e : LexLayout.render [] [(fuseL, [])] =
      (render [C02P.tk .STRING "a", C02P.tk .STRING "b"]).toList := by decide +kernel
  rw [e] at h
  rw [show (fun t : Tok => (t.type, t.lit)) = C19b.erase from rfl, h]
  decide +kernel

/-- **The statement of L1 with `∀ t ∈ ts, TokOK t` as its only hypothesis is false.** -/
theorem lex_render_needs_adj :
    ¬ ∀ ts : List Tok, (∀ t ∈ ts, TokOK t) →
      (Lexer.lexAll (render ts).toList).map (fun t => (t.type, t.lit)) =
        ts.map (fun t => (t.type, t.lit)) ++ [(.EOF, "")] := by
  intro h
  have h1 := h _ adjacent_strings_fuse.1
  rw [adjacent_strings_fuse.2.2] at h1
  exact absurd h1 (by decide)

/-- A string type separated from its literal is an identifier: this is why `render` glues them
(both halves by `lex_render`). -/
theorem stringtype_needs_glue :
    (Lexer.lexAll "ascii \"x\"".toList).map (fun t => (t.type, t.lit)) =
      [(.IDENT, "ascii"), (.STRING, "x"), (.EOF, "")] ∧
    (Lexer.lexAll "ascii\"x\"".toList).map (fun t => (t.type, t.lit)) =
      [(.STRINGTYPE, "ascii"), (.STRING, "x"), (.EOF, "")] := by
  have h1 := lex_render [C02P.tk .IDENT "ascii", C02P.tk .STRING "x"] (by decide +kernel) (by decide)
  have h2 := lex_render [C02P.tk .STRINGTYPE "ascii", C02P.tk .STRING "x"] (by decide +kernel) (by decide)
  have e1 : render [C02P.tk .IDENT "ascii", C02P.tk .STRING "x"] = "ascii \"x\"" := by decide +kernel
  have e2 : render [C02P.tk .STRINGTYPE "ascii", C02P.tk .STRING "x"] = "ascii\"x\"" := by decide +kernel
  rw [e1] at h1
  rw [e2] at h2
  exact ⟨h1, h2⟩

/-! ### Records form -/

theorem sameText_of_erase {ts us : List Tok}
    (h : ts.map (fun t => (t.type, t.lit)) = us.map (fun t => (t.type, t.lit))) :
    C02P.SameText ts us := by
  have e : C02P.erase = fun t => C02P.tk t.type t.lit := rfl
  have := congrArg (List.map fun p : TT × String => C02P.tk p.1 p.2) h
  simpa [C02P.SameText, List.map_map, Function.comp_def, e] using this

/-- **L1 on records**: the lexer's output on `render ts` is a list `ts'` with the text of `ts`
(same types and literals, the lexer's positions) followed by one `EOF` token. -/
theorem lex_render_records (ts : List Tok) (hok : ∀ t ∈ ts, TokOK t) (hadj : AdjOK ts) :
    ∃ ts' eof, Lexer.lexAll (render ts).toList = ts' ++ [eof] ∧ C02P.SameText ts' ts ∧
      ts'.map (fun t => (t.type, t.lit)) = ts.map (fun t => (t.type, t.lit)) ∧
      eof.type = .EOF ∧ eof.lit = "" := by
  have h := lex_render ts hok hadj
  obtain ⟨l1, l2, h1, h2, h3⟩ := List.map_eq_append_iff.1 h
  obtain ⟨eof, l3, h4, h5, h6⟩ := List.map_eq_cons_iff.1 h3
  have : l3 = [] := by simpa using h6
  subst this
  simp only [Prod.mk.injEq] at h5
  exact ⟨l1, eof, by rw [h1, h4], sameText_of_erase h2, h2, h5.1, h5.2⟩

/-! ### The bridge: a grammar theorem about token lists, on source text -/

open Pory.Parser Pory.Spec Pory.C02P in
/-- **parse_of_source.**  `C02P.parse_bool_correct_tokens` on source text: write `pre`, the expression
`g` of the reference grammar, a closing parenthesis and anything else (`rest`) as text; lex the text
with the model lexer; run `parseBooleanExpression` on the lexer's records.  It returns a tree whose
value is the value of the written expression and stops at the record of the `)`; what remains is the
lexer's records for `)`, `rest` and `EOF`. -/
theorem parse_of_source (env : Env) (scriptName : String) (g : SOr) (negated : Bool)
    (pre rparen : Tok) (rest : List Tok) (hrp : rparen.type = .RPAREN)
    (hok : ∀ t ∈ pre :: (printOr g ++ rparen :: rest), TokOK t)
    (hadj : AdjOK (pre :: (printOr g ++ rparen :: rest)))
    (s : PState)
    (hs : s.toks = Lexer.lexAll (render (pre :: (printOr g ++ rparen :: rest))).toList)
    (hconst : s.constants = [])
    (fuel : Nat) (hfuel : 2 * (printOr g).length + 1 ≤ fuel) :
    ∃ t rp' rest',
      (parseBooleanExpression env scriptName false negated fuel).run s =
        .ok ((t, {}), { s with toks := rp' :: rest' }) ∧
      (rp' :: rest').map (fun t => (t.type, t.lit)) =
        (rparen :: rest).map (fun t => (t.type, t.lit)) ++ [(.EOF, "")] ∧
      ∀ w h, evalTree w h t = (evalOr id w h g != negated) := by
  have h := lex_render _ hok hadj
  rw [← hs] at h
  simp only [List.map_cons, List.map_append, List.cons_append, List.append_assoc] at h
  obtain ⟨pre', l1, e1, -, h1⟩ := List.map_eq_cons_iff.1 h
  obtain ⟨ts, l2, e2, h2, h3⟩ := List.map_eq_append_iff.1 h1
  obtain ⟨rp', rest', e3, h4, h5⟩ := List.map_eq_cons_iff.1 h3
  simp only [Prod.mk.injEq] at h4
  have hlen : ts.length = (printOr g).length := by
    simpa using congrArg List.length h2
  obtain ⟨t, ht, hv⟩ := parse_bool_correct_tokens env scriptName g negated ts (sameText_of_erase h2)
    pre' rp' rest' (h4.1.trans hrp) s (by rw [e1, e2, e3]) hconst fuel (by omega)
  refine ⟨t, rp', rest', ht, ?_, hv⟩
  simp only [List.map_cons, h5, List.cons_append]
  rw [h4.1, h4.2]

open Pory.Parser Pory.Spec Pory.C02P in
/-- **parse_of_source, with the side conditions on the NAMES in `g`** (`okOr g`: every operand name
is an identifier that is not a keyword, every comparison value a renderable `INT` / `IDENT` token —
`LexPrintBool.lean`): for EVERY such expression of the reference grammar, and every renderable
continuation `) rest`, the source text parses to a tree with the value of the written expression. -/
theorem parse_of_source_names (env : Env) (scriptName : String) (g : SOr) (negated : Bool)
    (pre rparen : Tok) (rest : List Tok) (hrp : rparen.type = .RPAREN)
    (hg : okOr g = true) (hpre : Good pre)
    (hrest : ∀ t ∈ rparen :: rest, TokOK t) (hadj : AdjOK (rparen :: rest))
    (s : PState)
    (hs : s.toks = Lexer.lexAll (render (pre :: (printOr g ++ rparen :: rest))).toList)
    (hconst : s.constants = [])
    (fuel : Nat) (hfuel : 2 * (printOr g).length + 1 ≤ fuel) :
    ∃ t rp' rest',
      (parseBooleanExpression env scriptName false negated fuel).run s =
        .ok ((t, {}), { s with toks := rp' :: rest' }) ∧
      (rp' :: rest').map (fun t => (t.type, t.lit)) =
        (rparen :: rest).map (fun t => (t.type, t.lit)) ++ [(.EOF, "")] ∧
      ∀ w h, evalTree w h t = (evalOr id w h g != negated) := by
  have hgood : ∀ t ∈ pre :: printOr g, Good t := by
    intro t ht
    rcases List.mem_cons.1 ht with rfl | ht
    · exact hpre
    · exact printOr_good g hg t ht
  refine parse_of_source env scriptName g negated pre rparen rest hrp ?_ ?_ s hs hconst fuel hfuel
  · intro t ht
    rw [← List.cons_append] at ht
    rcases List.mem_append.1 ht with ht | ht
    · exact (hgood t ht).1
    · exact hrest t ht
  · rw [← List.cons_append]
    exact adjOK_append_good _ _ hgood hadj

/-! ### Non-vacuity -/

section Example
open Pory.C02P

/-- the tokens of `script S { if (flag(A) && !var(B) == 0x1F) { msgbox("hi") } }` -/
def exToks : List Tok :=
  [tk .SCRIPT "script", tk .IDENT "S", tk .LBRACE "{", tk .IF "if", tk .LPAREN "(", tk .FLAG "flag",
   tk .LPAREN "(", tk .IDENT "A", tk .RPAREN ")", tk .AND "&&", tk .NOT "!", tk .VAR "var", tk .LPAREN "(",
   tk .IDENT "B", tk .RPAREN ")", tk .EQ "==", tk .INT "0x1F", tk .RPAREN ")", tk .LBRACE "{",
   tk .IDENT "msgbox", tk .LPAREN "(", tk .STRING "hi", tk .RPAREN ")", tk .RBRACE "}", tk .RBRACE "}"]

def exSrc : String :=
  "script S { if ( flag ( A ) && ! var ( B ) == 0x1F ) { msgbox ( \"hi\" ) } }"

theorem exToks_ok : ∀ t ∈ exToks, TokOK t := by decide +kernel
theorem exToks_adj : AdjOK exToks := by decide
theorem exSrc_eq : render exToks = exSrc := by decide +kernel

/-- The rendering lexes back — by the theorem. -/
theorem ex_lex : (Lexer.lexAll exSrc.toList).map (fun t => (t.type, t.lit)) =
    exToks.map (fun t => (t.type, t.lit)) ++ [(.EOF, "")] := by
  rw [← exSrc_eq]
  exact lex_render exToks exToks_ok exToks_adj

-- sanity checks by evaluation (as in P1.lean; not proofs — the kernel cannot run the model's `Array.any`
-- over the Unicode tables in reasonable time): the rendering, and the source as one would write it by hand
-- (by C19b, layout independence, the spacing does not matter)
#guard (Lexer.lexAll exSrc.toList).map (fun t => (t.type, t.lit)) ==
  exToks.map (fun t => (t.type, t.lit)) ++ [(.EOF, "")]
#guard (Lexer.lexAll "script S { if (flag(A) && !var(B) == 0x1F) { msgbox(\"hi\") } }".toList).map
  (fun t => (t.type, t.lit)) == exToks.map (fun t => (t.type, t.lit)) ++ [(.EOF, "")]

/-- records form on the example: the lexer's 25 records and its `EOF` record -/
example : ∃ ts' eof, Lexer.lexAll exSrc.toList = ts' ++ [eof] ∧ SameText ts' exToks ∧ eof.type = .EOF := by
  obtain ⟨ts', eof, h1, h2, -, h3, -⟩ := lex_render_records exToks exToks_ok exToks_adj
  rw [exSrc_eq] at h1
  exact ⟨ts', eof, h1, h2, h3⟩

/-- per-token hypotheses only: `while ( var ( X ) >= -3 )` -/
example : (Lexer.lexAll "while ( var ( X ) >= -3 )".toList).map (fun t => (t.type, t.lit)) =
    [(.WHILE, "while"), (.LPAREN, "("), (.VAR, "var"), (.LPAREN, "("), (.IDENT, "X"), (.RPAREN, ")"),
      (.GTE, ">="), (.INT, "-3"), (.RPAREN, ")"), (.EOF, "")] := by
  have h := lex_render_nostr [tk .WHILE "while", tk .LPAREN "(", tk .VAR "var", tk .LPAREN "(", tk .IDENT "X",
    tk .RPAREN ")", tk .GTE ">=", tk .INT "-3", tk .RPAREN ")"] (by decide +kernel)
  have e : render [tk .WHILE "while", tk .LPAREN "(", tk .VAR "var", tk .LPAREN "(", tk .IDENT "X",
    tk .RPAREN ")", tk .GTE ">=", tk .INT "-3", tk .RPAREN ")"] = "while ( var ( X ) >= -3 )" := by
    decide +kernel
  rw [e] at h
  exact h

/-- A rendering with a string type, a raw string, a negative number, a backslash inside a literal
and two literals kept apart by a comma; one token per line. -/
def exToks2 : List Tok :=
  [tk .TEXT "text", tk .IDENT "T", tk .LBRACE "{", tk .STRINGTYPE "ascii", tk .STRING "a\\nb c", tk .COMMA ",",
   tk .STRING "", tk .RBRACE "}", tk .RAW "raw", tk .RAWSTRING "\n  .byte 1", tk .INT "-12", tk .INT "007",
   tk .INT "0x", tk .LTE "<=", tk .ASSIGN "=", tk .ASSIGN "="]

example : render exToks2 =
    "text T { ascii\"a\\nb c\" , \"\" } raw `\n  .byte 1` -12 007 0x <= = =" := by decide +kernel

example : (Lexer.lexAll (renderWith "\n" exToks2).toList).map (fun t => (t.type, t.lit)) =
    exToks2.map (fun t => (t.type, t.lit)) ++ [(.EOF, "")] :=
  lex_render_lines exToks2 (by decide +kernel) (by decide)

/-- `flag(A) && !var(B) || var(C) == 0x1F` -/
def exG : SOr :=
  .more (.more (.leaf (.flagBare (fun _ => {}) false "A")) {} (.one (.leaf (.varNot (fun _ => {}) "B")))) {}
    (.one (.one (.leaf (.varCmp (fun _ => {}) "C" .eq ⟨true, "0x1F"⟩))))

def exCondSrc : String := "( flag ( A ) && ! var ( B ) || var ( C ) == 0x1F ) {"

theorem exCondSrc_eq :
    render (tk .LPAREN "(" :: (printOr exG ++ tk .RPAREN ")" :: [tk .LBRACE "{"])) = exCondSrc := by decide +kernel

/-- **The bridge on a concrete source text**: the parser, run on the lexer's records for
`( flag ( A ) && ! var ( B ) || var ( C ) == 0x1F ) {`, returns a tree whose value is
`(flag A ∧ ¬ var B) ∨ var C = 0x1F` and stops at the `)`. -/
example (env : Parser.Env) (sn : String) (s : Parser.PState) (hs : s.toks = Lexer.lexAll exCondSrc.toList)
    (hc : s.constants = []) :
    ∃ t rp' rest',
      (Parser.parseBooleanExpression env sn false false 60).run s =
        .ok ((t, {}), { s with toks := rp' :: rest' }) ∧
      (rp' :: rest').map (fun t => (t.type, t.lit)) = [(.RPAREN, ")"), (.LBRACE, "{"), (.EOF, "")] ∧
      ∀ w h, evalTree w h t = evalOr id w h exG := by
  obtain ⟨t, rp', rest', h1, h2, h3⟩ := parse_of_source env sn exG false (tk .LPAREN "(") (tk .RPAREN ")")
    [tk .LBRACE "{"] rfl (by decide +kernel) (by decide) s (by rw [exCondSrc_eq]; exact hs) hc 60 (by decide)
  exact ⟨t, rp', rest', h1, h2, fun w h => by simpa using h3 w h⟩

/-- the same through `parse_of_source_names`: the conditions are on `exG`'s names (`okOr`, decidable), and
what follows the `)` may contain string literals -/
example (env : Parser.Env) (sn : String) (s : Parser.PState)
    (hs : s.toks = Lexer.lexAll (render (tk .LPAREN "(" :: (printOr exG ++ tk .RPAREN ")" ::
      [tk .LBRACE "{", tk .IDENT "msgbox", tk .LPAREN "(", tk .STRINGTYPE "ascii", tk .STRING "hi", tk .RPAREN ")",
        tk .RBRACE "}"]))).toList)
    (hc : s.constants = []) :
    ∃ t rp' rest',
      (Parser.parseBooleanExpression env sn false false 60).run s =
        .ok ((t, {}), { s with toks := rp' :: rest' }) ∧
      ∀ w h, evalTree w h t = evalOr id w h exG := by
  obtain ⟨t, rp', rest', h1, -, h3⟩ := parse_of_source_names env sn exG false (tk .LPAREN "(") (tk .RPAREN ")")
    _ rfl (by decide +kernel) ⟨by decide +kernel, by decide, by decide⟩ (by decide +kernel) (by decide) s hs hc 60
    (by decide)
  exact ⟨t, rp', rest', h1, fun w h => by simpa using h3 w h⟩

end Example

#print axioms lex_render
#print axioms lex_render_sep
#print axioms lex_render_records
#print axioms lex_render_nostr
#print axioms lex_render_needs_adj
#print axioms parse_of_source
#print axioms parse_of_source_names
#print axioms tokOK_ident
#print axioms tokOK_keyword

end Pory.L1
