import PoryProofs.StmtParseErr
import PoryProofs.Properties.C15b
/-
P1 (statement grammar) — "parse ∘ print = elaborate" for script bodies: the parser model accepts the
documented statement grammar and builds exactly the documented tree (and implicit data); for the documented
violations it reports the documented located error.

About the model `Pory.Parser.parseBlockStatement` and ALL 13 functions of the mutually recursive statement
block (`parseStatement`, `parseBlockStatement`, `parseSwitchBlockStatement`, `parseConditionExpression`,
`parseElifs`, `parseIfStatement`, `parseWhileStatement`, `parseDoWhileStatement`, `parseSwitchCases`,
`parseSwitchStatement`, `parsePoryswitchStatement`, `parsePoryswitchStatementCases`,
`parsePoryswitchStatements`; PoryModel/ParserStmts.lean = the statement parser of /repo/parser/parser.go).

COVERED GRAMMAR (`StmtG.SStmt`, PoryProofs/StmtGrammar.lean; every constructor carries the tokens it is
printed with — arbitrary records, any positions / literals, `SWF` fixes the token types only):
    command      `name ( a0 , a1 , … )` — arguments of plain tokens and balanced parentheses (`cmd`,
                 `C10b.ArgOK`), or additionally string literals, typed strings `ascii"…"` and
                 `moves( step [* N] … )` (`cmdI`, `C10c.argEOK`); `name ( )`; `name`
    label        `name :`, `name ( global ) :`, `name ( local ) :`
    if           `if ( c ) { … } [elif ( c ) { … }]* [else { … }]`
    while        `while ( c ) { … }`, `while { … }`
    do-while     `do { … } while ( c )`
    break, continue
    switch       `switch ( var ( operand… ) ) { [case v… : …]* [default : …]* }`,
                 `switch ( name ( a0 , … ) ) { … }` on a configured auto-var command
    poryswitch   `poryswitch ( X ) { [key : stmt | key { … }]* }`
  nested to any depth, with conditions `c : StmtG.SCond`: an expression `C02P.SOr` (`||` / `&&` / `!( )` /
  parentheses over all non-autovar leaves `[!]flag(X)`, `flag(X) ==|!= TRUE|FALSE`, the same for `defeated`,
  `[!]var(X)`, `var(X) op N`), or a single auto-var leaf `[!] name ( a0 , … ) [op N]` (C11b).
NOT COVERED (nothing below says anything about them): auto-var leaves inside `&&` / `||` / parentheses,
`value(…)` and multi-token comparison values / operands, `format( … )` arguments, string / `moves` arguments
inside the command of an auto-var condition or switch operand and the bare / `name()` forms of such a
command, a poryswitch case `key :` without a statement.

REFERENCE ELABORATION (`StmtG.elabL`, packaged as `StmtG.elabE` / `StmtG.elaborate env sn` on a `StmtG.Ctx` =
constants, nextSid, nextCmdId, breakStack, continueStack; `elab` is a Lean keyword): command ids and scope
ids in source order (a loop / switch takes its scope id before anything inside it; the command of an auto-var
condition takes its id where the condition stands; ALL cases of a poryswitch take ids, the selected case —
newest entry for the `-s` value, else `_` — is spliced in place), `break` ↦ innermost enclosing loop or
switch, `continue` ↦ innermost enclosing loop, conditions ↦ `C02P.treeOr` / `C11b.autoLeafT`, case values ↦
the space-joined substituted literals, string / `moves` arguments ↦ EMPTY argument + an `ImpText` /
`ImpMovement` (command id, argument position, terminated text / expanded steps, script name) in source
order; `.error` = the located error of the first violation in source order, and these are exactly
(`StmtG.Violation`, `violations_documented`): `break` outside, `continue` outside, `continue` not directly
followed by `}`, duplicate `case`, second `default`, `switch` without cases; auto-var command not configured
(as condition / as switch operand), configured argument position addressing no argument; `poryswitch`
without any `-s`, with an undefined switch, without a matching case (the last three only with environment
errors on).

PROVED (every `env`, script name, start token, surrounding state `s`, tail `rest`, fuel ≥ `needL b`, and
`needL b ≤ 2 * tokens + 1`):
* `parse_block_elab`   : `parseBlockStatement … [] {}` on `printStmts b ++ rb :: rest` (`SWF b`, `rb` a `}`)
                         = the reference elaboration: `.ok ((stmts, imp), s with window `rb :: rest` and the
                         two counters of the elaboration)` — stacks, constants, texts, … untouched — or
                         `.error e` with the elaboration's located error;
* `parse_block_print`  : the acceptance half as asked in the task (`elaborate … = some (stmts, imp, ctx')`);
* `parse_block_reject` : the rejection half (`elabE … = .error e`); `violations_documented`: `e` is one of
                         the documented errors; `break_outside_rejected`, `continue_outside_rejected`,
                         `continue_not_last_rejected`, `duplicate_case`, `second_default`, `empty_switch`;
* `parse_block_print_tokens` : the same with the fuel bound in tokens (`2 * tokens + 1 ≤ fuel`; the model's
                         `ParseProgram` starts with `4 * tokens + 50`);
* `parse_script_print` : a whole `script [(global|local)] Name { … }` statement through
                         `parseScriptStatement` (implicit data recorded under the script's name).
Nothing is partial for the covered grammar.

BEHAVIOUR WORTH KNOWING (model = Go, checked against /repo/parser/parser.go):
* `continue` must be followed by `}`: as the last statement of a switch case that is followed by another
  `case` / `default` (or of a `key :` poryswitch case followed by another key) it is rejected ("'continue'
  must be the last statement in block scope") although it is the last statement of its case
  (`continue_in_nonfinal_case` below).
* Every case of a `poryswitch` statement is parsed completely: the cases that are not selected consume command
  ids / scope ids, and a violation inside them is reported; their implicit data is dropped.
* In `switch (cmd(…))` the scope id of the switch is taken BEFORE the command is read, the command id after.
* The token between the `)` of `var( … )` and `{` in `switch (var(X)) {` is skipped unchecked
  (`SwitchParse.OperandAt.var`); the grammar here requires it to be `)`.
* A case value may be empty (`case :`); the stored token is then the `:` with an empty literal.
-/
namespace Pory.P1
open Pory Pory.Parser Pory.C02P Pory.C10b Pory.StmtG

/-- **P1, both halves in one equation.** -/
theorem parse_block_elab (env : Env) (sn : String) (startTok : Tok) (b : List SStmt) (rb : Tok)
    (rest : List Tok) (hwf : SWF b) (hrb : rb.type = .RBRACE) (s : PState)
    (htoks : s.toks = printStmts b ++ rb :: rest) (fuel : Nat) (hfuel : needL b ≤ fuel) :
    (parseBlockStatement env sn startTok fuel [] {}).run s =
      match elabE env sn (ctxOf s) b with
      | .ok (stmts, imp, c') =>
        .ok ((stmts, imp), { s with toks := rb :: rest, nextSid := c'.nextSid, nextCmdId := c'.nextCmdId })
      | .error e => .error e :=
  StmtG.parse_block_elab env sn startTok b rb rest hwf hrb s htoks fuel hfuel

/-- **P1, acceptance: parse ∘ print = elaborate.** The parser returns the elaborated statements and their
implicit data (the texts / movements of command arguments, in source order), stops on the closing `}`,
advances the two counters as the elaboration does; the stacks of the resulting context are those at entry and
nothing else in the state changes. -/
theorem parse_block_print (env : Env) (sn : String) (startTok : Tok) (b : List SStmt) (rb : Tok)
    (rest : List Tok) (hwf : SWF b) (hrb : rb.type = .RBRACE) (s : PState)
    (htoks : s.toks = printStmts b ++ rb :: rest) (fuel : Nat) (hfuel : needL b ≤ fuel)
    (stmts : List Stmt) (imp : ImpData) (c' : Ctx)
    (helab : elaborate env sn (ctxOf s) b = some (stmts, imp, c')) :
    (parseBlockStatement env sn startTok fuel [] {}).run s =
      .ok ((stmts, imp), { s with toks := rb :: rest, nextSid := c'.nextSid, nextCmdId := c'.nextCmdId }) ∧
    c'.breakStack = s.breakStack ∧ c'.continueStack = s.continueStack :=
  StmtG.parse_block_print env sn startTok b rb rest hwf hrb s htoks fuel hfuel stmts imp c' helab

/-- … with the fuel bound stated in tokens. -/
theorem parse_block_print_tokens (env : Env) (sn : String) (startTok : Tok) (b : List SStmt) (rb : Tok)
    (rest : List Tok) (hwf : SWF b) (hrb : rb.type = .RBRACE) (s : PState)
    (htoks : s.toks = printStmts b ++ rb :: rest) (fuel : Nat)
    (hfuel : 2 * (printStmts b).length + 1 ≤ fuel)
    (stmts : List Stmt) (imp : ImpData) (c' : Ctx)
    (helab : elaborate env sn (ctxOf s) b = some (stmts, imp, c')) :
    (parseBlockStatement env sn startTok fuel [] {}).run s =
      .ok ((stmts, imp), { s with toks := rb :: rest, nextSid := c'.nextSid, nextCmdId := c'.nextCmdId }) :=
  (StmtG.parse_block_print env sn startTok b rb rest hwf hrb s htoks fuel (fuel_of_tokens b fuel hfuel)
    stmts imp c' helab).1

/-- **P1, rejection.** The parser fails with the located error of the first violation. -/
theorem parse_block_reject (env : Env) (sn : String) (startTok : Tok) (b : List SStmt) (rb : Tok)
    (rest : List Tok) (hwf : SWF b) (hrb : rb.type = .RBRACE) (s : PState)
    (htoks : s.toks = printStmts b ++ rb :: rest) (fuel : Nat) (hfuel : needL b ≤ fuel)
    (e : PFail) (helab : elabE env sn (ctxOf s) b = .error e) :
    (parseBlockStatement env sn startTok fuel [] {}).run s = .error e :=
  StmtG.parse_block_reject env sn startTok b rb rest hwf hrb s htoks fuel hfuel e helab

/-- `elaborate = none` ⇒ the parser fails, with one of the documented located errors. -/
theorem parse_block_reject_none (env : Env) (sn : String) (startTok : Tok) (b : List SStmt) (rb : Tok)
    (rest : List Tok) (hwf : SWF b) (hrb : rb.type = .RBRACE) (s : PState)
    (htoks : s.toks = printStmts b ++ rb :: rest) (fuel : Nat) (hfuel : needL b ≤ fuel)
    (helab : elaborate env sn (ctxOf s) b = none) :
    ∃ e, Violation e ∧ (parseBlockStatement env sn startTok fuel [] {}).run s = .error e := by
  obtain ⟨e, he, hr⟩ :=
    StmtG.parse_block_reject_none env sn startTok b rb rest hwf hrb s htoks fuel hfuel helab
  refine ⟨e, ?_, hr⟩
  unfold elabE at he
  split at he
  · rename_i e' h1
    cases err_inj he
    exact elabL_error env _ b _ _ _ _ _ _ _ h1
  · cases he

/-- Every error of the reference elaboration is one of the documented violations. -/
theorem violations_documented (env : Env) (sn : String) (c : Ctx) (b : List SStmt) (e : PFail)
    (h : elabE env sn c b = .error e) :
    Violation e := by
  unfold elabE at h
  split at h
  · rename_i e' h1
    cases err_inj h
    exact elabL_error env _ b _ _ _ _ _ _ _ h1
  · cases h

/-- A whole `script [(global|local)] Name { body }` statement. -/
theorem parse_script_print (env : Env) (fuel : Nat) (s : PState) (kw : Tok) (md : TopParse.Mod)
    (name lb : Tok) (b : List SStmt) (rb : Tok) (rest : List Tok) (hmd : md.WF)
    (hname : name.type = .IDENT) (hlb : lb.type = .LBRACE) (hwf : SWF b) (hrb : rb.type = .RBRACE)
    (hfuel : needL b ≤ fuel) (stmts : List Stmt) (imp : ImpData) (c' : Ctx)
    (helab : elaborate env name.lit (ctxOf s) b = some (stmts, imp, c')) :
    (parseScriptStatement env fuel).run
        (st s (kw :: (md.toks ++ name :: lb :: (printStmts b ++ rb :: rest)))) =
      .ok (({ tok := kw, name := name.lit, body := stmts,
              scope := md.scope (defaultScopeOf "parseScriptStatement") }, imp),
           { s with toks := rb :: rest, nextSid := c'.nextSid, nextCmdId := c'.nextCmdId }) := by
  have h := (StmtG.parse_block_print env name.lit lb b rb rest hwf hrb
    (st s (printStmts b ++ rb :: rest)) rfl fuel hfuel stmts imp c' helab).1
  exact C15b.parse_script_statement_gen env fuel s kw md name lb _ hmd hname hlb _ _ h

/-! ### the six violations of the statement grammar -/

/-- `break` at the top level of a block outside every loop / switch (what precedes it being fine). -/
theorem break_outside_rejected (env : Env) (sn : String) (startTok : Tok) (pre post : List SStmt)
    (t rb : Tok) (rest : List Tok) (s : PState) (fuel : Nat) (a : List Stmt) (m1 : ImpData) (i1 j1 : Nat)
    (hwf : SWF (pre ++ .brk t :: post)) (hrb : rb.type = .RBRACE)
    (htoks : s.toks = printStmts (pre ++ .brk t :: post) ++ rb :: rest)
    (hfuel : needL (pre ++ .brk t :: post) ≤ fuel) (hB : s.breakStack = [])
    (hpre : elabL env sn (substC s.constants) [] s.continueStack false pre s.nextSid s.nextCmdId = .ok (a, m1, i1, j1)) :
    (parseBlockStatement env sn startTok fuel [] {}).run s =
      .error (newParseError t "'break' statement outside of any break-able scope") :=
  StmtG.break_outside_rejected env sn startTok pre post t rb rest s fuel a m1 i1 j1 hwf hrb htoks hfuel hB hpre

theorem continue_outside_rejected (env : Env) (sn : String) (startTok : Tok) (pre post : List SStmt)
    (t rb : Tok) (rest : List Tok) (s : PState) (fuel : Nat) (a : List Stmt) (m1 : ImpData) (i1 j1 : Nat)
    (hwf : SWF (pre ++ .cont t :: post)) (hrb : rb.type = .RBRACE)
    (htoks : s.toks = printStmts (pre ++ .cont t :: post) ++ rb :: rest)
    (hfuel : needL (pre ++ .cont t :: post) ≤ fuel) (hC : s.continueStack = [])
    (hpre : elabL env sn (substC s.constants) s.breakStack [] false pre s.nextSid s.nextCmdId = .ok (a, m1, i1, j1)) :
    (parseBlockStatement env sn startTok fuel [] {}).run s =
      .error (newParseError t "'continue' statement outside of any continue-able scope") :=
  StmtG.continue_outside_rejected env sn startTok pre post t rb rest s fuel a m1 i1 j1 hwf hrb htoks hfuel hC hpre

theorem continue_not_last_rejected (env : Env) (sn : String) (startTok : Tok) (pre post : List SStmt)
    (t rb : Tok) (rest : List Tok) (s : PState) (fuel : Nat) (a : List Stmt) (m1 : ImpData) (i1 j1 : Nat) (x : SStmt)
    (hwf : SWF (pre ++ .cont t :: x :: post)) (hrb : rb.type = .RBRACE)
    (htoks : s.toks = printStmts (pre ++ .cont t :: x :: post) ++ rb :: rest)
    (hfuel : needL (pre ++ .cont t :: x :: post) ≤ fuel) (k : Nat) (C' : List Nat)
    (hC : s.continueStack = k :: C')
    (hpre : elabL env sn (substC s.constants) s.breakStack (k :: C') false pre s.nextSid s.nextCmdId =
      .ok (a, m1, i1, j1)) :
    (parseBlockStatement env sn startTok fuel [] {}).run s =
      .error (newParseError t "'continue' must be the last statement in block scope") :=
  StmtG.continue_not_last_rejected env sn startTok pre post t rb rest s fuel a m1 i1 j1 x hwf hrb htoks hfuel
    k C' hC hpre

/-- A `case` whose value was met before in the same switch: range error from the `case` token to its `:`. -/
theorem duplicate_case (env : Env) (sn : String) (σ : String → String) (B C : List Nat) (c : Tok) (vs : List Tok) (colon : Tok)
    (body : List SStmt) (r : List SCase) (seen : List String) (hd : Bool) (i j : Nat)
    (h : caseValue σ vs ∈ seen) :
    elabCases env sn σ B C (.case c vs colon body :: r) seen hd i j =
      .error (newRangeParseError c colon
        s!"duplicate switch cases detected for case '{caseValue σ vs}'") :=
  elabCases_dup env sn σ B C c vs colon body r seen hd i j h

/-- A second `default`: located on the `default` token. -/
theorem second_default (env : Env) (sn : String) (σ : String → String) (B C : List Nat) (d colon : Tok)
    (body : List SStmt) (r : List SCase) (seen : List String) (i j : Nat) :
    elabCases env sn σ B C (.dflt d colon body :: r) seen true i j =
      .error (newParseError d
        "multiple `default` cases found in switch statement. Only one `default` case is allowed") :=
  elabCases_second_default env sn σ B C d colon body r seen i j

/-- A `switch` without cases: range error from the `switch` token to the closing `}`. -/
theorem empty_switch (env : Env) (sn : String) (σ : String → String) (B C : List Nat) (nx : Bool) (sw lp v lp2 : Tok)
    (ops : List Tok) (rp2 rp lb rb : Tok) (i j : Nat) :
    elabS env sn σ B C nx (.switch_ sw lp v lp2 ops rp2 rp lb [] rb) i j =
      .error (newRangeParseError sw rb "switch statement has no cases or default case") :=
  elabS_empty_switch env sn σ B C nx sw lp v lp2 ops rp2 rp lb rb i j

/-! ### non-vacuity -/
section Example

private def lp : Tok := tk .LPAREN "("
private def rp : Tok := tk .RPAREN ")"
private def lb : Tok := tk .LBRACE "{"
private def rb : Tok := tk .RBRACE "}"
private def colon : Tok := tk .COLON ":"
private def z : Nat → TPos := fun _ => {}
private def cond (lf : Leaf) : SCond := .plain (.one (.one (.leaf lf)))

/-- `if (flag(A)) { foo } elif (var(X) == 1) { bar(1, N) } else { baz() }` -/
def exIf : SStmt :=
  .ite (tk .IF "if") lp (cond (.flagBare z false "A")) rp lb [.cmd0 (tk .IDENT "foo")] rb
    [.mk (tk .ELSEIF "elif") lp (cond (.varCmp z "X" .eq ⟨true, "1"⟩)) rp lb
      [.cmd (tk .IDENT "bar") lp [tk .INT "1"] [(tk .COMMA ",", [tk .IDENT "N"])] rp] rb]
    (.some (tk .ELSE "else") lb [.cmdE (tk .IDENT "baz") lp rp] rb)

/-- `while (!defeated(T)) { switch (var(V)) { case 1: break  case N: do { step continue } while (flag(B))
default: lbl: } }` -/
def exWhile : SStmt :=
  .while_ (tk .WHILE "while") lp (cond (.flagNot z true "T")) rp lb
    [.switch_ (tk .SWITCH "switch") lp (tk .VAR "var") lp [tk .IDENT "V"] rp rp lb
      [.case (tk .CASE "case") [tk .INT "1"] colon [.brk (tk .BREAK "break")],
       .case (tk .CASE "case") [tk .IDENT "N"] colon
         [.doWhile (tk .DO "do") lb [.cmd0 (tk .IDENT "step"), .cont (tk .CONTINUE "continue")] rb
           (tk .WHILE "while") lp (cond (.flagBare z false "B")) rp],
       .dflt (tk .DEFAULT "default") colon [.label (tk .IDENT "lbl") colon]] rb] rb

def exBody : List SStmt := [exIf, exWhile]

def exSrc : String :=
  "if (flag(A)) { foo } elif (var(X) == 1) { bar(1, N) } else { baz() } " ++
  "while (!defeated(T)) { switch (var(V)) { case 1: break case N: do { step continue } while (flag(B)) " ++
  "default: lbl: } } }"

-- sanity check (evaluation, not a proof): the printed tokens are what the model lexer produces for the
-- source text (types and literals; the theorem holds for every assignment of positions)
#guard (Lexer.lexAll exSrc.toList).map (fun t => (t.type, t.lit)) ==
  (printStmts exBody ++ [rb, tk .EOF ""]).map (fun t => (t.type, t.lit))

/-- the state at the `{` of a script body: `const N = 5`, three scope ids and ten command ids used -/
def exState : PState :=
  { toks := printStmts exBody ++ [rb], eof := tk .EOF "", constants := [("N", "5")], nextSid := 3,
    nextCmdId := 10 }

private def flagLeaf (ty : TT) (x v : String) : BoolExpr :=
  .leaf { type := ty, operand := tk .IDENT x, operator := .EQ, cmpValue := v }
private def cmdS (id : Nat) (name : String) (args : List String) : Stmt :=
  .cmd { id := id, tok := tk .IDENT name, name := name, args := args }

/-- the documented tree -/
def exAst : List Stmt :=
  [.ite (tk .IF "if") (flagLeaf .FLAG "A" "TRUE") [cmdS 10 "foo" []]
     [(.leaf { type := .VAR, operand := tk .IDENT "X", operator := .EQ, cmpValue := "1" },
       [cmdS 11 "bar" ["1", "5"]])]
     (some [cmdS 12 "baz" []]),
   .while_ (tk .WHILE "while") 3 (some (flagLeaf .DEFEATED "T" "FALSE"))
     [.switch_ (tk .SWITCH "switch") 4 (tk .IDENT "V")
       [(tk .INT "1", false, [.brk (tk .BREAK "break") 4]),
        (tk .IDENT "5", false,
          [.doWhile (tk .DO "do") 5 (flagLeaf .FLAG "B" "TRUE")
            [cmdS 13 "step" [], .cont (tk .CONTINUE "continue") 5]]),
        (({} : Tok), true, [.label (tk .IDENT "lbl") "lbl" false])]]]

theorem exBody_wf : SWF exBody := by decide

theorem exBody_elab (env : Env) (sn : String) :
    elaborate env sn (ctxOf exState) exBody =
      some (exAst, {}, { ctxOf exState with nextSid := 6, nextCmdId := 14 }) := by
  rfl

/-- On the example the parser returns the documented tree, stops on the `}`, has handed out the scope ids
3, 4, 5 and the command ids 10 … 13. -/
example (env : Env) (sn : String) (startTok : Tok) (fuel : Nat) (hf : 200 ≤ fuel) :
    (parseBlockStatement env sn startTok fuel [] {}).run exState =
      .ok ((exAst, {}), { exState with toks := [rb], nextSid := 6, nextCmdId := 14 }) :=
  (parse_block_print env sn startTok exBody rb [] exBody_wf rfl exState rfl fuel
    (Nat.le_trans (by decide) hf) exAst {} _ (exBody_elab env sn)).1

/-- The same body inside `script Main { … }`. -/
example (env : Env) (fuel : Nat) (hf : 200 ≤ fuel) :
    (parseScriptStatement env fuel).run
        (st exState (tk .SCRIPT "script" :: tk .IDENT "Main" :: lb :: (printStmts exBody ++ [rb]))) =
      .ok (({ tok := tk .SCRIPT "script", name := "Main", body := exAst, scope := .GLOBAL }, {}),
           { exState with toks := [rb], nextSid := 6, nextCmdId := 14 }) :=
  parse_script_print env fuel exState (tk .SCRIPT "script") .absent (tk .IDENT "Main") lb exBody rb []
    trivial rfl rfl exBody_wf rfl (Nat.le_trans (by decide) hf) exAst {} _ (exBody_elab env _)

/-- `foo  break` at the top level of a script body: "'break' statement outside of any break-able scope",
located on the `break` token. -/
example (env : Env) (sn : String) (startTok : Tok) (fuel : Nat) (hf : 10 ≤ fuel) :
    (parseBlockStatement env sn startTok fuel [] {}).run
        { toks := [tk .IDENT "foo", tkp ⟨2, 4, 4, 2, 9, 9⟩ .BREAK "break", rb], eof := tk .EOF "" } =
      .error (.err { lineStart := 2, lineEnd := 2, charStart := 4, utf8Start := 4, charEnd := 9, utf8End := 9,
                     msg := "'break' statement outside of any break-able scope" }) :=
  break_outside_rejected env sn startTok [.cmd0 (tk .IDENT "foo")] [] (tkp ⟨2, 4, 4, 2, 9, 9⟩ .BREAK "break")
    rb [] _ fuel _ _ _ _ (by decide) rfl rfl (Nat.le_trans (by decide) hf) rfl rfl

/-- `continue` as the last statement of a switch case that is followed by another case is rejected
(model = Go): `while { switch (var(V)) { case 1: continue  case 2: foo } }`. -/
def exContinueCase : List SStmt :=
  [.whileInf (tk .WHILE "while") lb
    [.switch_ (tk .SWITCH "switch") lp (tk .VAR "var") lp [tk .IDENT "V"] rp rp lb
      [.case (tk .CASE "case") [tk .INT "1"] colon [.cont (tk .CONTINUE "continue")],
       .case (tk .CASE "case") [tk .INT "2"] colon [.cmd0 (tk .IDENT "foo")]] rb] rb]

theorem continue_in_nonfinal_case (env : Env) (sn : String) (startTok : Tok) (fuel : Nat) (hf : 60 ≤ fuel) :
    (parseBlockStatement env sn startTok fuel [] {}).run
        { toks := printStmts exContinueCase ++ [rb], eof := tk .EOF "" } =
      .error (newParseError (tk .CONTINUE "continue") "'continue' must be the last statement in block scope") :=
  parse_block_reject env sn startTok exContinueCase rb [] (by decide) rfl _ rfl fuel
    (Nat.le_trans (by decide) hf) _ rfl

/-- … while in the final case it is accepted. -/
example : ∃ r, elaborate {} "S" {} [.whileInf (tk .WHILE "while") lb
    [.switch_ (tk .SWITCH "switch") lp (tk .VAR "var") lp [tk .IDENT "V"] rp rp lb
      [.case (tk .CASE "case") [tk .INT "2"] colon [.cmd0 (tk .IDENT "foo")],
       .case (tk .CASE "case") [tk .INT "1"] colon [.cont (tk .CONTINUE "continue")]] rb] rb] = some r :=
  ⟨_, rfl⟩

/-- duplicate case / second default / empty switch through the parser -/
example (env : Env) (sn : String) (startTok : Tok) :
    (parseBlockStatement env sn startTok 60 [] {}).run
        { toks := printStmts [.switch_ (tk .SWITCH "switch") lp (tk .VAR "var") lp [tk .IDENT "V"] rp rp lb
            [.case (tk .CASE "case") [tk .IDENT "N"] colon [], .case (tk .CASE "case") [tk .INT "5"] colon []]
            rb] ++ [rb],
          eof := tk .EOF "", constants := [("N", "5")] } =
      .error (newRangeParseError (tk .CASE "case") colon "duplicate switch cases detected for case '5'") :=
  parse_block_reject env sn startTok _ rb [] (by decide) rfl _ rfl 60 (by decide) _ rfl

example (env : Env) (sn : String) (startTok : Tok) :
    (parseBlockStatement env sn startTok 60 [] {}).run
        { toks := printStmts [.switch_ (tk .SWITCH "switch") lp (tk .VAR "var") lp [tk .IDENT "V"] rp rp lb
            [.dflt (tk .DEFAULT "default") colon [], .dflt (tkp ⟨7, 0, 0, 7, 7, 7⟩ .DEFAULT "default") colon []]
            rb] ++ [rb],
          eof := tk .EOF "" } =
      .error (newParseError (tkp ⟨7, 0, 0, 7, 7, 7⟩ .DEFAULT "default")
        "multiple `default` cases found in switch statement. Only one `default` case is allowed") :=
  parse_block_reject env sn startTok _ rb [] (by decide) rfl _ rfl 60 (by decide) _ rfl

example (env : Env) (sn : String) (startTok : Tok) :
    (parseBlockStatement env sn startTok 60 [] {}).run
        { toks := printStmts [.switch_ (tk .SWITCH "switch") lp (tk .VAR "var") lp [tk .IDENT "V"] rp rp lb []
            rb] ++ [rb],
          eof := tk .EOF "" } =
      .error (newRangeParseError (tk .SWITCH "switch") rb "switch statement has no cases or default case") :=
  parse_block_reject env sn startTok _ rb [] (by decide) rfl _ rfl 60 (by decide) _ rfl

/-! poryswitch: `poryswitch (GAME) { RUBY: foo  SAPPHIRE { bar baz }  _: qux }` compiled with `-s GAME=SAPPHIRE` -/

def exPory : List SStmt :=
  [.pory (tk .PORYSWITCH "poryswitch") lp (tk .IDENT "GAME") rp lb
    [.colon (tk .IDENT "RUBY") colon (.cmd0 (tk .IDENT "foo")),
     .brace (tk .IDENT "SAPPHIRE") lb [.cmd0 (tk .IDENT "bar"), .cmd0 (tk .IDENT "baz")] rb,
     .colon (tk .IDENT "_") colon (.cmd0 (tk .IDENT "qux"))] rb]

def exEnv : Env := { switches := [("GAME", "SAPPHIRE")] }

#guard (Lexer.lexAll "poryswitch (GAME) { RUBY: foo SAPPHIRE { bar baz } _: qux } }".toList).map
    (fun t => (t.type, t.lit)) == (printStmts exPory ++ [rb, tk .EOF ""]).map (fun t => (t.type, t.lit))

/-- The statements of the selected case are spliced in place; the commands of ALL cases got an id
(`foo` 0, `bar` 1, `baz` 2, `qux` 3). -/
example (sn : String) (startTok : Tok) (fuel : Nat) (hf : 40 ≤ fuel) :
    (parseBlockStatement exEnv sn startTok fuel [] {}).run
        { toks := printStmts exPory ++ [rb], eof := tk .EOF "" } =
      .ok (([cmdS 1 "bar" [], cmdS 2 "baz" []], {}),
        { toks := [rb], eof := tk .EOF "", nextCmdId := 4 }) :=
  (parse_block_print exEnv sn startTok exPory rb [] (by decide) rfl _ rfl fuel
    (Nat.le_trans (by decide) hf) _ {} { nextCmdId := 4 } rfl).1

/-- A violation in a case that is NOT selected is reported all the same:
`poryswitch (GAME) { RUBY: break  _: foo }` with `GAME=SAPPHIRE`. -/
example (sn : String) (startTok : Tok) :
    (parseBlockStatement exEnv sn startTok 40 [] {}).run
        { toks := printStmts [.pory (tk .PORYSWITCH "poryswitch") lp (tk .IDENT "GAME") rp lb
            [.colon (tk .IDENT "RUBY") colon (.brk (tk .BREAK "break")),
             .colon (tk .IDENT "_") colon (.cmd0 (tk .IDENT "foo"))] rb] ++ [rb],
          eof := tk .EOF "" } =
      .error (newParseError (tk .BREAK "break") "'break' statement outside of any break-able scope") :=
  parse_block_reject exEnv sn startTok _ rb [] (by decide) rfl _ rfl 40 (by decide) _ rfl

/-- The three environment errors of `poryswitch`. -/
example (sn : String) (startTok : Tok) :
    (parseBlockStatement {} sn startTok 40 [] {}).run
        { toks := printStmts exPory ++ [rb], eof := tk .EOF "" } =
      .error (newParseError (tk .PORYSWITCH "poryswitch")
        "poryswitch used, but no compile switches were specified with the '-s' option") :=
  parse_block_reject {} sn startTok _ rb [] (by decide) rfl _ rfl 40 (by decide) _ rfl

example (sn : String) (startTok : Tok) :
    (parseBlockStatement { switches := [("OTHER", "1")] } sn startTok 40 [] {}).run
        { toks := printStmts exPory ++ [rb], eof := tk .EOF "" } =
      .error (newParseError (tk .IDENT "GAME") "no poryswitch for 'GAME' was specified with the '-s' option") :=
  parse_block_reject _ sn startTok _ rb [] (by decide) rfl _ rfl 40 (by decide) _ rfl

example (sn : String) (startTok : Tok) :
    (parseBlockStatement exEnv sn startTok 40 [] {}).run
        { toks := printStmts [.pory (tk .PORYSWITCH "poryswitch") lp (tk .IDENT "GAME") rp lb
            [.colon (tk .IDENT "RUBY") colon (.cmd0 (tk .IDENT "foo"))] rb] ++ [rb],
          eof := tk .EOF "" } =
      .error (newParseError (tk .PORYSWITCH "poryswitch")
        "no poryswitch case found for 'GAME=SAPPHIRE', which was specified with the '-s' option") :=
  parse_block_reject exEnv sn startTok _ rb [] (by decide) rfl _ rfl 40 (by decide) _ rfl

/-- … and with environment errors off (the lint parser) an unselected poryswitch is empty. -/
example (sn : String) (startTok : Tok) :
    (parseBlockStatement { envErrors := false } sn startTok 40 [] {}).run
        { toks := printStmts [.pory (tk .PORYSWITCH "poryswitch") lp (tk .IDENT "GAME") rp lb
            [.colon (tk .IDENT "RUBY") colon (.cmd0 (tk .IDENT "foo"))] rb] ++ [rb],
          eof := tk .EOF "" } =
      .ok (([], {}), { toks := [rb], eof := tk .EOF "", nextCmdId := 1 }) :=
  (parse_block_print { envErrors := false } sn startTok _ rb [] (by decide) rfl _ rfl 40 (by decide) _ {}
    { nextCmdId := 1 } rfl).1

/-! `switch` on an auto-var command: `switch (specialvar(VAR_RESULT, GetFoo)) { case 1: foo }` with
`specialvar` configured to compare its argument 0 -/

def exEnvAuto : Env := { autoVars := [("specialvar", { argPos := some 0 }), ("random", { varName := "VAR_RESULT" })] }

def exSwitchA : List SStmt :=
  [.switchA (tk .SWITCH "switch") lp (tkp ⟨3, 8, 8, 3, 18, 18⟩ .IDENT "specialvar") lp [tk .IDENT "VAR_RESULT"]
    [(tk .COMMA ",", [tk .IDENT "GetFoo"])] rp rp lb
    [.case (tk .CASE "case") [tk .INT "1"] colon [.cmd0 (tk .IDENT "foo")]] rb]

/-- The command is parsed with the next command id and put in front of the switch; the switch (scope id taken
BEFORE the command is read) compares the configured argument; the operand token has the positions of the
command name. -/
example (sn : String) (startTok : Tok) (fuel : Nat) (hf : 40 ≤ fuel) :
    (parseBlockStatement exEnvAuto sn startTok fuel [] {}).run
        { toks := printStmts exSwitchA ++ [rb], eof := tk .EOF "", nextSid := 2, nextCmdId := 5 } =
      .ok (([.cmd { id := 5, tok := tkp ⟨3, 8, 8, 3, 18, 18⟩ .IDENT "specialvar", name := "specialvar",
                     args := ["VAR_RESULT", "GetFoo"] },
             .switch_ (tk .SWITCH "switch") 2 (tkp ⟨3, 8, 8, 3, 18, 18⟩ .IDENT "VAR_RESULT")
               [(tk .INT "1", false, [cmdS 6 "foo" []])]], {}),
        { toks := [rb], eof := tk .EOF "", nextSid := 3, nextCmdId := 7 }) :=
  (parse_block_print exEnvAuto sn startTok exSwitchA rb [] (by decide) rfl _ rfl fuel
    (Nat.le_trans (by decide) hf) _ {} { nextSid := 3, nextCmdId := 7 } rfl).1

/-- Not a configured command / a configured position that addresses no argument. -/
example (sn : String) (startTok : Tok) :
    (parseBlockStatement {} sn startTok 40 [] {}).run
        { toks := printStmts exSwitchA ++ [rb], eof := tk .EOF "" } =
      .error (newParseError (tkp ⟨3, 8, 8, 3, 18, 18⟩ .IDENT "specialvar")
        "expected next token to be 'VAR' or auto-var command, got 'specialvar' instead") :=
  parse_block_reject {} sn startTok _ rb [] (by decide) rfl _ rfl 40 (by decide) _ rfl

example (sn : String) (startTok : Tok) :
    (parseBlockStatement { autoVars := [("specialvar", { argPos := some 2 })] } sn startTok 40 [] {}).run
        { toks := printStmts exSwitchA ++ [rb], eof := tk .EOF "" } =
      .error (newRangeParseError (tkp ⟨3, 8, 8, 3, 18, 18⟩ .IDENT "specialvar") rp
        "auto-var command specialvar has an arg position of 2, but only 2 arguments were provided") :=
  parse_block_reject _ sn startTok _ rb [] (by decide) rfl _ rfl 40 (by decide) _ rfl

/-! an auto-var leaf as condition: `if (random(4) == 2) { foo }` and `do { foo } while (!specialvar(VAR_A, F))` -/

def exAutoCond : List SStmt :=
  [.ite (tk .IF "if") lp (.auto (.cmp {} {} "==" .eq ⟨true, "2"⟩) (tk .IDENT "random") lp [tk .INT "4"] [] rp) rp lb
     [.cmd0 (tk .IDENT "foo")] rb [] .none,
   .doWhile (tk .DO "do") lb [.cmd0 (tk .IDENT "foo")] rb (tk .WHILE "while") lp
     (.auto (.neg {} "!") (tk .IDENT "specialvar") lp [tk .IDENT "VAR_A"] [(tk .COMMA ",", [tk .IDENT "F"])] rp) rp]

#guard (Lexer.lexAll "if (random(4) == 2) { foo } do { foo } while (!specialvar(VAR_A, F)) }".toList).map
    (fun t => (t.type, t.lit)) == (printStmts exAutoCond ++ [rb, tk .EOF ""]).map (fun t => (t.type, t.lit))

/-- The command of the condition takes the next command id: BEFORE the body of an `if`, AFTER the body of a
`do … while`; it is stored as the preamble of the leaf, which compares the configured variable. -/
example (sn : String) (startTok : Tok) (fuel : Nat) (hf : 60 ≤ fuel) :
    (parseBlockStatement exEnvAuto sn startTok fuel [] {}).run
        { toks := printStmts exAutoCond ++ [rb], eof := tk .EOF "" } =
      .ok (([.ite (tk .IF "if")
               (.leaf { type := .VAR, operand := tk .IDENT "VAR_RESULT", operator := .EQ, cmpValue := "2",
                        preamble := some { id := 0, tok := tk .IDENT "random", name := "random", args := ["4"] } })
               [cmdS 1 "foo" []] [] none,
             .doWhile (tk .DO "do") 0
               (.leaf { type := .VAR, operand := tk .IDENT "VAR_A", operator := .EQ, cmpValue := "0",
                        preamble := some { id := 3, tok := tk .IDENT "specialvar", name := "specialvar",
                                           args := ["VAR_A", "F"] } })
               [cmdS 2 "foo" []]], {}),
        { toks := [rb], eof := tk .EOF "", nextSid := 1, nextCmdId := 4 }) :=
  (parse_block_print exEnvAuto sn startTok exAutoCond rb [] (by decide) rfl _ rfl fuel
    (Nat.le_trans (by decide) hf) _ {} { nextSid := 1, nextCmdId := 4 } rfl).1

set_option maxRecDepth 10000 in
/-- A command that is not configured as auto-var command cannot be a condition. -/
example (sn : String) (startTok : Tok) :
    (parseBlockStatement {} sn startTok 60 [] {}).run
        { toks := printStmts exAutoCond ++ [rb], eof := tk .EOF "" } =
      .error (newParseError (tk .IDENT "random")
        "left side of binary expression must be var(), flag(), defeated(), or autovar command. Instead, found 'random'") :=
  parse_block_reject {} sn startTok _ rb [] (by decide) rfl _ rfl 60 (by decide) _ rfl

/-! implicit data: `msgbox("Hi", MSGBOX_NPC)  if (flag(A)) { applymovement(2, moves(walk_up * 2 face_down)) }
msgbox(ascii "Bye")` in script `Main` -/

open Pory.C10c Pory.C14b in
def exImp : List SStmt :=
  [.cmdI (tk .IDENT "msgbox") lp [.str (tk .STRING "Hi")] [(tk .COMMA ",", [.tok (tk .IDENT "MSGBOX_NPC")])] rp,
   .ite (tk .IF "if") lp (cond (.flagBare z false "A")) rp lb
     [.cmdI (tk .IDENT "applymovement") lp [.tok (tk .INT "2")]
       [(tk .COMMA ",", [.moves (tk .MOVES "moves") lp
          [.stepMul (tk .IDENT "walk_up") (tk .MUL "*") (tk .INT "2"), .step (tk .IDENT "face_down")] rp])] rp]
     rb [] .none,
   .cmdI (tk .IDENT "msgbox") lp [.tstr (tk .STRINGTYPE "ascii") (tk .STRING "Bye")] [] rp]

#guard (Lexer.lexAll ("msgbox(\"Hi\", MSGBOX_NPC) if (flag(A)) { applymovement(2, moves(walk_up * 2 face_down)) } " ++
    "msgbox(ascii\"Bye\") }").toList).map (fun t => (t.type, t.lit)) ==
  (printStmts exImp ++ [rb, tk .EOF ""]).map (fun t => (t.type, t.lit))

/-- The string / `moves()` arguments become EMPTY arguments of the commands (patched later with the labels);
the implicit data lists them in source order with command id, argument position, terminated text / expanded
steps and the script name. -/
example (startTok : Tok) (fuel : Nat) (hf : 80 ≤ fuel) :
    ∃ imp, (parseBlockStatement {} "Main" startTok fuel [] {}).run
        { toks := printStmts exImp ++ [rb], eof := tk .EOF "" } =
      .ok (([cmdS 0 "msgbox" ["", "MSGBOX_NPC"],
             .ite (tk .IF "if") (flagLeaf .FLAG "A" "TRUE") [cmdS 1 "applymovement" ["2", ""]] [] none,
             cmdS 2 "msgbox" [""]], imp),
        { toks := [rb], eof := tk .EOF "", nextCmdId := 3 }) ∧
      imp.texts.map (fun x => (x.cmdId, x.argPos, x.text.lit, x.stringType, x.scriptName)) =
        [(0, 0, "Hi$", "", "Main"), (2, 0, "Bye\\0", "ascii", "Main")] ∧
      imp.movements.map (fun m => (m.cmdId, m.argPos, m.movements.map (·.lit), m.scriptName)) =
        [(1, 1, ["walk_up", "walk_up", "face_down"], "Main")] :=
  ⟨_, (parse_block_print {} "Main" startTok exImp rb [] (by decide) rfl _ rfl fuel
    (Nat.le_trans (by decide) hf) _ _ { nextCmdId := 3 } rfl).1, by decide, by decide⟩

end Example

#print axioms parse_block_elab
#print axioms parse_block_print
#print axioms parse_block_print_tokens
#print axioms parse_block_reject
#print axioms parse_block_reject_none
#print axioms parse_script_print
#print axioms break_outside_rejected
#print axioms continue_outside_rejected
#print axioms continue_not_last_rejected
#print axioms continue_in_nonfinal_case

end Pory.P1
