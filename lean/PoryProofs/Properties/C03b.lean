import PoryProofs.SwitchParse
/-
C03 / C20, parser side — the case list of a `switch` statement.

C03: "the first case equal to the operand in source order … a default wherever written …";
C20: "duplicate case values or two defaults in one switch … rejected with an error reported on the line
of the offending construct".  The emitter side (`C03.switch_chunk_selects_body`) is stated on
`Stmt.switch_ tok sid operand cases` with `cases` in source order.  Here: the parser model
(`parseSwitchStatement`, `parseSwitchCases`) builds `cases` in source order with the right values and
flags, rejects duplicates, and builds the operand / preamble as specified.

Vocabulary (PoryProofs/SwitchParse.lean)
* `Hdr` — reference syntax of a case header: `case v₁ … vₖ :` (`Hdr.case c vs colon`) or `default :`
  (`Hdr.dflt d colon`); `Hdr.toks` its tokens, `Hdr.WF` their token types (the value tokens are exactly the
  tokens before the first `:`), `Hdr.value σ` the space-joined literals of the value tokens with constants
  substituted by `σ`, `Hdr.tok σ` the token stored in the case list, `Hdr.isDefault`.
* `Seg` — one loop iteration: header, parsed body, implicit data of the body; `Seg.case σ g` the entry
  `(g.hdr.tok σ, g.hdr.isDefault, g.body)` of the case list.
* `CasesOf env sn brace s segs s'` — ghost trace, abstract over the bodies: from `s` the token window reads
  `header₁ body₁ header₂ body₂ …` with the headers of `segs`, each body being whatever
  `parseSwitchBlockStatement` (→ `parseStatement`, recursively) parses right after its header.
  `Iter` is the same with the exact fuel bookkeeping of the loop (needed for the rejection theorems, which
  are equalities between runs, errors included).
* `Accepted σ seen hd segs` — no header of `segs` is rejected given the values `seen` / the flag `hd` at the
  start; `accepted_iff`: ⇔ the case values are new, pairwise distinct, and at most one `default`.
* `OperandAt`, `SwitchRun` — the shape of the operand part and of a whole successfully parsed `switch`.

Theorems (all complete; assumption `s.eof.type = .EOF` = the lexer's end-of-input token, as in C18)
1. `parse_switch_cases_order`, `parse_switch_statement_order` (+ `case_list_is_header_list`,
   `parse_switch_cases_complete`): source order, nothing dropped, nothing invented.
2. `duplicate_case_rejected`, `second_default_rejected` (loop level), `switch_duplicate_case_rejected`,
   `switch_second_default_rejected` (statement level), `accepted_cases_distinct`,
   `accepted_switch_cases_distinct`.
3. `switch_operand`, `auto_var_operand`.

Relation to `OneDefault` of `C01c.end_to_end`: that hypothesis (every switch anywhere in the body has at most
one default) is discharged for every *parsed* body by `Parser.parseBlockStatement_scopes … .oneDefault`
(PoryProofs/ParserScopes.lean) + `ScopeBridge.oneDefault_iff`; `C01c.e2e_oneDefault` only checks one
hand-written body by `decide`.  `accepted_switch_cases_distinct` re-proves the top-level conjunct
(`numDefaults cases ≤ 1`) from the loop's own bookkeeping and adds what was not proved before: the values
of the non-default cases are pairwise distinct.  It does not by itself give the nested switches inside
the bodies (bodies are abstract here) — `ParserScopes.specAll` does.

Noticed in the model (faithful to parser.go as far as I can tell): after `switch (var(X)` and its `)`, the
next token is skipped without being checked, so `switch (var(X) anything {` parses like
`switch (var(X)) {` (`unchecked_token_after_operand`).
-/
namespace Pory.C03b
open Pory Pory.Parser Pory.C02P Pory.SwitchParse

/-! ## 1. source order -/

/-- **C03b-1 (loop).**  When the case loop succeeds, the cases it appended correspond one to one, in
order, to the headers met in the token window (`CasesOf`), the loop stopped at `}`, and the flag / implicit
data are those of the headers / bodies. -/
theorem parse_switch_cases_order (env : Env) (sn : String) (brace : Tok) (n : Nat)
    (cases : List SwitchCase) (seen : List String) (hd : Bool) (imp : ImpData) (s : PState)
    (he : s.eof.type = .EOF) :
    wp (parseSwitchCases env sn brace n cases seen hd imp) s (fun r s' =>
      ∃ segs : List Seg,
        CasesOf env sn brace s segs s' ∧ (s'.toks.headD s'.eof).type = .RBRACE ∧
        r.1 = cases ++ segs.map (Seg.case (substC s.constants)) ∧
        r.2.1 = (hd || decide (0 < numDflt segs)) ∧ r.2.2 = impAfter imp segs) := by
  intro r s' hr
  obtain ⟨segs, m, hit, hend, _, rfl⟩ := iter_of_ok env sn brace n cases seen hd imp s r s' he hr
  exact ⟨segs, hit.casesOf, hend, rfl, hdAfter_eq segs hd, rfl⟩

/-- Reading `Seg.case`: a `case` header gives the first value token (the `:` if there is none) carrying
the joined, substituted value, flag `false`. -/
theorem seg_case_of_case (σ : String → String) (g : Seg) (c : Tok) (vs : List Tok) (colon : Tok)
    (h : g.hdr = .case c vs colon) :
    Seg.case σ g = ({ vs.headD colon with lit := joinSp (vs.map fun v => σ v.lit) }, false, g.body) := by
  simp [Seg.case, h, Hdr.tok, Hdr.isDefault]

/-- Reading `Seg.case`: a `default` header gives the zero token, flag `true`. -/
theorem seg_case_of_default (σ : String → String) (g : Seg) (d colon : Tok) (h : g.hdr = .dflt d colon) :
    Seg.case σ g = (({} : Tok), true, g.body) := by
  simp [Seg.case, h, Hdr.tok, Hdr.isDefault]

/-- `isDefault` is true exactly for `default`. -/
theorem isDefault_iff (σ : String → String) (g : Seg) :
    (Seg.case σ g).2.1 = true ↔ ∃ d colon, g.hdr = .dflt d colon := by
  cases hg : g.hdr with
  | case c vs colon => simp [Seg.case, hg, Hdr.isDefault]
  | dflt d colon => simp [Seg.case, hg, Hdr.isDefault]

/-- The list of `(value, isDefault, body)` of the case list is the list of the headers met, in order. -/
theorem case_list_is_header_list (σ : String → String) (segs : List Seg) :
    (segs.map (Seg.case σ)).map (fun c => (c.1.lit, c.2.1, c.2.2)) =
      segs.map (fun g => (g.hdr.value σ, g.hdr.isDefault, g.body)) := by
  induction segs with
  | nil => rfl
  | cons g r ih =>
    simp only [List.map_cons, ih, List.cons.injEq, and_true]
    cases hg : g.hdr <;> simp [Seg.case, hg, Hdr.tok, Hdr.value, Hdr.isDefault] <;> rfl

/-- Converse of `parse_switch_cases_order` (with the loop's exact fuel bookkeeping, `Iter`): along an
accepted trace the loop continues with exactly the accumulators of the trace — in particular it succeeds
with the case list of the trace when the trace ends at `}`. -/
theorem parse_switch_cases_complete {env : Env} {sn : String} {brace : Tok} {n m : Nat} {s s' : PState}
    {segs : List Seg} (hit : Iter env sn brace n s segs (m + 1) s')
    (hend : (s'.toks.headD s'.eof).type = .RBRACE) (cases : List SwitchCase) (seen : List String)
    (hd : Bool) (imp : ImpData) (hacc : Accepted (substC s.constants) seen hd segs) :
    (parseSwitchCases env sn brace n cases seen hd imp).run s =
      .ok ((cases ++ segs.map (Seg.case (substC s.constants)), hdAfter hd segs, impAfter imp segs), s') := by
  rw [run_of_iter hit cases seen hd imp hacc]
  exact step_done _ _ _ _ _ _ _ _ _ hend

/-- **C03b-1 (statement).**  Every successful parse of a `switch` statement has the shape `SwitchRun`:
`switch ( operand ) x? {` then the trace of the case loop, ended by `}`; the result is the preamble
followed by `switch_ tok sid operand cases` with `cases` the case list of the trace. -/
theorem parse_switch_statement_order (env : Env) (sn : String) (n : Nat) (s : PState)
    (he : s.eof.type = .EOF) :
    wp (parseSwitchStatement env sn (n + 1)) s (SwitchRun env sn n s) :=
  switch_wp env sn n s he

/-- The same without the vocabulary of `SwitchRun`: the returned statement list ends with the switch
statement, whose case list is, in order, the list of headers met after the `{`. -/
theorem parse_switch_statement_cases (env : Env) (sn : String) (n : Nat) (s : PState)
    (he : s.eof.type = .EOF) :
    wp (parseSwitchStatement env sn (n + 1)) s (fun r s' =>
      ∃ (pre : List Stmt) (operand lb : Tok) (sb se : PState) (segs : List Seg),
        r.1 = pre ++ [.switch_ (s.toks.headD s.eof) s.nextSid operand
                (segs.map (Seg.case (substC s.constants)))] ∧
        segs ≠ [] ∧ lb.type = .LBRACE ∧ sb.constants = s.constants ∧
        CasesOf env sn lb sb segs se ∧ (se.toks.headD se.eof).type = .RBRACE ∧ s' = leave se) := by
  intro r s' hr
  cases switch_wp env sn n s he r s' hr with
  | @intro sw lp tl operand pre oimp sO x lb ctoks segs m se htk hlp hop hO hlb hit hend hacc hne =>
    refine ⟨pre, operand, lb, st sO ctoks, se, segs, by rw [htk]; rfl, hne, hlb, ?_, hit.casesOf, hend, rfl⟩
    exact hop.keeps.1

/-! ## 2. duplicates -/

/-- **C20b (duplicate case, loop).**  If, after the segments of an accepted trace, the loop meets a `case`
header whose (substituted, joined) value equals the value of an earlier case (or a value in `seen`), the
result of the whole loop is the duplicate-case error, ranging from that later `case` token to its `:`. -/
theorem duplicate_case_rejected {env : Env} {sn : String} {brace : Tok} {n m : Nat} {s sm : PState}
    {segs : List Seg} (cases : List SwitchCase) (seen : List String) (hd : Bool) (imp : ImpData)
    (hit : Iter env sn brace n s segs (m + 1) sm) (hacc : Accepted (substC s.constants) seen hd segs)
    {c : Tok} {vs : List Tok} {colon : Tok} {rest : List Tok}
    (htk : sm.toks = c :: (vs ++ colon :: rest)) (hwf : (Hdr.case c vs colon).WF) (hfuel : vs.length < m)
    (hdup : joinSp (vs.map fun v => substC s.constants v.lit) ∈ caseValues (substC s.constants) segs ++ seen) :
    (parseSwitchCases env sn brace n cases seen hd imp).run s =
      .error (newRangeParseError c colon
        s!"duplicate switch cases detected for case '{joinSp (vs.map fun v => substC s.constants v.lit)}'") := by
  refine error_of_iter hit cases seen hd imp hacc _ ?_
  intro cases' imp'
  rw [st_eq_of_toks htk, step_case env sn brace m cases' _ _ imp' sm c vs colon rest hwf hfuel,
    Hdr.reject_case, hit.keeps.1]
  have : (seenAfter (substC s.constants) seen segs).contains
      (joinSp (vs.map fun v => substC s.constants v.lit)) = true := by
    rw [seenAfter_eq]
    simp only [List.contains_iff_mem, List.mem_append, List.mem_reverse]
    simpa using hdup
  rw [if_pos this]
  rfl

/-- The duplicate-case error is reported on the line of the offending (later) `case` token. -/
theorem duplicate_case_error_line (c colon : Tok) (msg : String) :
    ∃ e, newRangeParseError c colon msg = .err e ∧ e.lineStart = c.line ∧ e.charStart = c.startChar ∧
      e.lineEnd = colon.endLine ∧ e.msg = msg := ⟨_, rfl, rfl, rfl, rfl, rfl⟩

/-- **C20b (second default, loop).**  If, after the segments of an accepted trace containing a `default`
(or with one seen before), the loop meets another `default`, the result of the whole loop is the
multiple-default error located on that later `default` token. -/
theorem second_default_rejected {env : Env} {sn : String} {brace : Tok} {n m : Nat} {s sm : PState}
    {segs : List Seg} (cases : List SwitchCase) (seen : List String) (hd : Bool) (imp : ImpData)
    (hit : Iter env sn brace n s segs (m + 1) sm) (hacc : Accepted (substC s.constants) seen hd segs)
    (hdef : (sm.toks.headD sm.eof).type = .DEFAULT) (hone : hd = true ∨ 0 < numDflt segs) :
    (parseSwitchCases env sn brace n cases seen hd imp).run s =
      .error (newParseError (sm.toks.headD sm.eof)
        "multiple `default` cases found in switch statement. Only one `default` case is allowed") := by
  refine error_of_iter hit cases seen hd imp hacc _ ?_
  intro cases' imp'
  have : hdAfter hd segs = true := by
    rw [hdAfter_eq]
    rcases hone with h | h
    · simp [h]
    · simp [h]
  rw [this]
  exact step_second_default env sn brace m cases' _ imp' sm hdef

/-- **Accepted ⇒ distinct (loop).**  When the loop succeeds from empty accumulators, the values of the
non-default cases of the result are pairwise distinct and at most one case is `default`. -/
theorem accepted_cases_distinct (env : Env) (sn : String) (brace : Tok) (n : Nat) (imp : ImpData)
    (s : PState) (he : s.eof.type = .EOF) :
    wp (parseSwitchCases env sn brace n [] [] false imp) s (fun r _ =>
      (nonDefaultValues r.1).Nodup ∧ numDefaults r.1 ≤ 1) := by
  intro r s' hr
  obtain ⟨segs, m, _, _, hacc, rfl⟩ := iter_of_ok env sn brace n [] [] false imp s r s' he hr
  have := (accepted_iff _ segs [] false).1 hacc
  simp only [List.nil_append, nonDefaultValues_map, numDefaults_map]
  exact ⟨this.1, by simpa using this.2.2⟩

/-- `nonDefaultValues` spelled out: `Nodup` is "pairwise distinct". -/
theorem nodup_iff_pairwise_ne (l : List String) : l.Nodup ↔ l.Pairwise (· ≠ ·) := Iff.rfl

/-- **Accepted ⇒ distinct (statement).**  When `parseSwitchStatement` succeeds, the switch statement it
returns has pairwise distinct non-default case values and at most one `default` case. -/
theorem accepted_switch_cases_distinct (env : Env) (sn : String) (n : Nat) (s : PState)
    (he : s.eof.type = .EOF) :
    wp (parseSwitchStatement env sn (n + 1)) s (fun r _ =>
      ∀ tok sid operand cases, Stmt.switch_ tok sid operand cases ∈ r.1 →
        (nonDefaultValues cases).Nodup ∧ numDefaults cases ≤ 1) := by
  intro r s' hr
  cases switch_wp env sn n s he r s' hr with
  | @intro sw lp tl operand pre oimp sO x lb ctoks segs m se htk hlp hop hO hlb hit hend hacc hne =>
    intro tok sid op cases hmem
    have hcases : cases = segs.map (Seg.case (substC s.constants)) := by
      cases hop with
      | var => simp at hmem; exact hmem.2.2.2
      | auto => simp at hmem; exact hmem.2.2.2
    subst hcases
    have := (accepted_iff _ segs [] false).1 hacc
    rw [nonDefaultValues_map, numDefaults_map]
    exact ⟨this.1, by simpa using this.2.2⟩

/-- **C20b (duplicate case, statement).**  A `switch` whose operand part is well formed and whose case
loop, after an accepted trace, meets a `case` with the value of an earlier case is rejected by
`parseSwitchStatement` with the duplicate-case error on that later case. -/
theorem switch_duplicate_case_rejected {env : Env} {sn : String} {n m : Nat} {s : PState} {sw lp : Tok}
    {tl : List Tok} {operand : Tok} {pre : List Stmt} {oimp : ImpData} {sO : PState} {x lb : Tok}
    {ctoks : List Tok} {segs : List Seg} {sm : PState}
    (htk : s.toks = sw :: lp :: tl) (hlp : lp.type = .LPAREN)
    (hop : OperandAt env sn n (st (enter s) (lp :: tl)) operand pre oimp sO)
    (hO : sO.toks = x :: lb :: ctoks) (hlb : lb.type = .LBRACE)
    (hit : Iter env sn lb n (st sO ctoks) segs (m + 1) sm) (hacc : Accepted (substC s.constants) [] false segs)
    {c : Tok} {vs : List Tok} {colon : Tok} {rest : List Tok}
    (hsm : sm.toks = c :: (vs ++ colon :: rest)) (hwf : (Hdr.case c vs colon).WF) (hfuel : vs.length < m)
    (hdup : joinSp (vs.map fun v => substC s.constants v.lit) ∈ caseValues (substC s.constants) segs) :
    (parseSwitchStatement env sn (n + 1)).run s =
      .error (newRangeParseError c colon
        s!"duplicate switch cases detected for case '{joinSp (vs.map fun v => substC s.constants v.lit)}'") := by
  have hk : (st sO ctoks).constants = s.constants := hop.keeps.1
  rw [switch_run htk hlp hop hO hlb]
  have := duplicate_case_rejected (cases := []) (seen := []) (hd := false) (imp := {}) hit
    (by rw [hk]; exact hacc) hsm hwf hfuel (by rw [hk]; simpa using hdup)
  rw [this, hk]
  rfl

/-- **C20b (second default, statement).** -/
theorem switch_second_default_rejected {env : Env} {sn : String} {n m : Nat} {s : PState} {sw lp : Tok}
    {tl : List Tok} {operand : Tok} {pre : List Stmt} {oimp : ImpData} {sO : PState} {x lb : Tok}
    {ctoks : List Tok} {segs : List Seg} {sm : PState}
    (htk : s.toks = sw :: lp :: tl) (hlp : lp.type = .LPAREN)
    (hop : OperandAt env sn n (st (enter s) (lp :: tl)) operand pre oimp sO)
    (hO : sO.toks = x :: lb :: ctoks) (hlb : lb.type = .LBRACE)
    (hit : Iter env sn lb n (st sO ctoks) segs (m + 1) sm) (hacc : Accepted (substC s.constants) [] false segs)
    (hdef : (sm.toks.headD sm.eof).type = .DEFAULT) (hone : 0 < numDflt segs) :
    (parseSwitchStatement env sn (n + 1)).run s =
      .error (newParseError (sm.toks.headD sm.eof)
        "multiple `default` cases found in switch statement. Only one `default` case is allowed") := by
  have hk : (st sO ctoks).constants = s.constants := hop.keeps.1
  rw [switch_run htk hlp hop hO hlb]
  have := second_default_rejected (cases := []) (seen := []) (hd := false) (imp := {}) hit
    (by rw [hk]; exact hacc) hdef (Or.inr hone)
  rw [this]
  rfl

/-! ## 3. operand and preamble -/

/-- **C03b-3.**  The operand token of the returned switch statement is the `var(<operand>)` operand (first
operand token carrying the space-joined, constant-substituted literals, no preamble) or the auto-var
operand (the command token retyped `IDENT` carrying the variable name, the command statement returned in
front of the switch statement) — `OperandAt`. -/
theorem switch_operand (env : Env) (sn : String) (n : Nat) (s : PState) (he : s.eof.type = .EOF) :
    wp (parseSwitchStatement env sn (n + 1)) s (fun r _ =>
      ∃ (sw lp : Tok) (tl : List Tok) (operand : Tok) (pre : List Stmt) (oimp : ImpData) (sO : PState)
        (cases : List SwitchCase),
        s.toks = sw :: lp :: tl ∧ lp.type = .LPAREN ∧
        OperandAt env sn n (st (enter s) (lp :: tl)) operand pre oimp sO ∧
        r.1 = pre ++ [.switch_ sw s.nextSid operand cases]) := by
  intro r s' hr
  cases switch_wp env sn n s he r s' hr with
  | @intro sw lp tl operand pre oimp sO x lb ctoks segs m se htk hlp hop hO hlb hit hend hacc hne =>
    exact ⟨sw, lp, tl, operand, pre, oimp, sO, _, htk, hlp, hop, rfl⟩

/-- What the auto-var form of `expectPeekVarOrAutoVar` returns (`EpvPost`): the token after `(` is not
`var`, its literal is a configured auto-var command `av`, the command statement is parsed from there, and
the operand name is `av.varName`, or the argument at the configured position (which is in range). -/
theorem auto_var_operand {env : Env} {sn : String} {n : Nat} {s0 s1 : PState} {name : String} {cmd : Cmd}
    {aimp : ImpData}
    (h : (expectPeekVarOrAutoVar env sn n).run s0 = .ok (some (name, cmd, aimp), s1)) :
    (s0.toks.getD 1 s0.eof).type ≠ .VAR ∧
    ∃ av, env.autoVars.lookup (s0.toks.getD 1 s0.eof).lit = some av ∧
      (parseCommandStatement env sn n).run (upd s0 s0.toks.tail s0.nextCmdId) = .ok ((cmd, aimp), s1) ∧
      name = (match av.argPos with | none => av.varName | some pos => cmd.args.getD pos.toNat "") ∧
      (∀ pos, av.argPos = some pos → 0 ≤ pos ∧ pos ≤ (cmd.args.length : Int) - 1) ∧
      ∃ l k, s1 = upd s0 l k :=
  epv_wp env sn n s0 _ _ h

/-! ## non-vacuity -/
section Examples

/-- A token on a given line. -/
def t (line : Nat) (ty : TT) (lit : String) : Tok := { type := ty, lit := lit, line := line, endLine := line }
def cmd (id : Nat) (tok : Tok) : Stmt := .cmd { id := id, tok := tok, name := tok.lit, args := [] }

/-- `switch (var(VAR_X)) {` on line 1. -/
def headToks : List Tok :=
  [t 1 .SWITCH "switch", t 1 .LPAREN "(", t 1 .VAR "var", t 1 .LPAREN "(", t 1 .IDENT "VAR_X", t 1 .RPAREN ")",
   t 1 .RPAREN ")", t 1 .LBRACE "{"]

/-! ### three cases and a `default` in the middle (`const K = 7`)
```
switch (var(VAR_X)) {
case 1: lock
case 2:
default: release
case K * 2: end
}
``` -/
def exBody : List Tok :=
  [t 2 .CASE "case", t 2 .INT "1", t 2 .COLON ":", t 2 .IDENT "lock",
   t 3 .CASE "case", t 3 .INT "2", t 3 .COLON ":",
   t 4 .DEFAULT "default", t 4 .COLON ":", t 4 .IDENT "release",
   t 5 .CASE "case", t 5 .IDENT "K", t 5 .MUL "*", t 5 .INT "2", t 5 .COLON ":", t 5 .IDENT "end",
   t 6 .RBRACE "}"]
def exState : PState := { toks := headToks ++ exBody, eof := t 7 .EOF "", constants := [("K", "7")] }

def exSegs : List Seg :=
  [ ⟨.case (t 2 .CASE "case") [t 2 .INT "1"] (t 2 .COLON ":"), [cmd 0 (t 2 .IDENT "lock")], {}⟩,
    ⟨.case (t 3 .CASE "case") [t 3 .INT "2"] (t 3 .COLON ":"), [], {}⟩,
    ⟨.dflt (t 4 .DEFAULT "default") (t 4 .COLON ":"), [cmd 1 (t 4 .IDENT "release")], {}⟩,
    ⟨.case (t 5 .CASE "case") [t 5 .IDENT "K", t 5 .MUL "*", t 5 .INT "2"] (t 5 .COLON ":"),
      [cmd 2 (t 5 .IDENT "end")], {}⟩ ]

def exCases : List SwitchCase :=
  [ (t 2 .INT "1", false, [cmd 0 (t 2 .IDENT "lock")]),
    (t 3 .INT "2", false, []),
    ({}, true, [cmd 1 (t 4 .IDENT "release")]),
    ({ t 5 .IDENT "K" with lit := "7 * 2" }, false, [cmd 2 (t 5 .IDENT "end")]) ]

/-- the case list of the trace is the expected one: source order, default in third place -/
example : exSegs.map (Seg.case (substC exState.constants)) = exCases := rfl

theorem ex_run : ∃ imp s', (parseSwitchStatement {} "S" 20).run exState =
    .ok (([.switch_ (t 1 .SWITCH "switch") 0 (t 1 .IDENT "VAR_X") exCases], imp), s') ∧
      s'.toks = [t 6 .RBRACE "}"] ∧ s'.breakStack = [] :=
  ⟨_, _, rfl, rfl, rfl⟩

/-- `parse_switch_statement_order` applies: the run has the shape `SwitchRun`. -/
example : ∃ r s', SwitchRun {} "S" 19 exState r s' ∧
    r.1 = [.switch_ (t 1 .SWITCH "switch") 0 (t 1 .IDENT "VAR_X") exCases] := by
  obtain ⟨imp, s', h, _⟩ := ex_run
  exact ⟨_, _, parse_switch_statement_order {} "S" 19 exState rfl _ _ h, rfl⟩

/-- `accepted_switch_cases_distinct` applies; the values are `1`, `2`, `7 * 2`. -/
example : (nonDefaultValues exCases).Nodup ∧ numDefaults exCases ≤ 1 := by
  obtain ⟨imp, s', h, _⟩ := ex_run
  exact accepted_switch_cases_distinct {} "S" 19 exState rfl _ _ h (t 1 .SWITCH "switch") 0
    (t 1 .IDENT "VAR_X") exCases (List.mem_singleton.2 rfl)
example : nonDefaultValues exCases = ["1", "2", "7 * 2"] := by decide

/-- `switch_operand` applies. -/
example : ∃ sw lp tl operand pre oimp sO cases, exState.toks = sw :: lp :: tl ∧ lp.type = .LPAREN ∧
    OperandAt {} "S" 19 (st (enter exState) (lp :: tl)) operand pre oimp sO ∧
    [Stmt.switch_ (t 1 .SWITCH "switch") 0 (t 1 .IDENT "VAR_X") exCases] =
      pre ++ [.switch_ sw exState.nextSid operand cases] := by
  obtain ⟨imp, s', h, _⟩ := ex_run
  exact switch_operand {} "S" 19 exState rfl _ _ h

/-- the loop alone, on the window after `{`: an explicit trace -/
def exLoopState : PState := { exState with toks := exBody }

theorem ex_iter : ∃ se, Iter {} "S" (t 1 .LBRACE "{") 19 exLoopState exSegs 15 se ∧
    se.toks = [t 6 .RBRACE "}"] :=
  ⟨_, Iter.cons (rest := exBody.drop 3) rfl ⟨rfl, by decide, by decide, rfl⟩ (by decide) rfl
    (Iter.cons (rest := exBody.drop 7) rfl ⟨rfl, by decide, by decide, rfl⟩ (by decide) rfl
    (Iter.cons (rest := exBody.drop 9) rfl ⟨rfl, rfl⟩ (by decide) rfl
    (Iter.cons (rest := exBody.drop 15) rfl ⟨rfl, by decide, by decide, rfl⟩ (by decide) rfl
    (Iter.nil _ _)))), rfl⟩

example : Accepted (substC exLoopState.constants) [] false exSegs := by
  rw [accepted_iff]; decide

/-- `parse_switch_cases_complete` and `parse_switch_cases_order` apply. -/
example : ∃ imp se, (parseSwitchCases {} "S" (t 1 .LBRACE "{") 19 [] [] false {}).run exLoopState =
    .ok ((exCases, true, imp), se) := by
  obtain ⟨se, hit, hse⟩ := ex_iter
  exact ⟨_, se, parse_switch_cases_complete hit (by rw [hse]; rfl) [] [] false {}
    (by rw [accepted_iff]; decide)⟩

example : ∃ segs se, CasesOf {} "S" (t 1 .LBRACE "{") exLoopState segs se ∧
    exCases = [] ++ segs.map (Seg.case (substC exLoopState.constants)) := by
  obtain ⟨se, hit, hse⟩ := ex_iter
  have h := parse_switch_cases_complete hit (by rw [hse]; rfl) [] [] false {} (by rw [accepted_iff]; decide)
  obtain ⟨segs, hc, _, hr, _⟩ := parse_switch_cases_order {} "S" (t 1 .LBRACE "{") 19 [] [] false {}
    exLoopState rfl _ _ h
  exact ⟨segs, se, hc, hr⟩

/-! ### a duplicate through a constant (`const K = 1`)
```
switch (var(VAR_X)) {
case K: lock
case 1:
}
``` -/
def dupBody : List Tok :=
  [t 2 .CASE "case", t 2 .IDENT "K", t 2 .COLON ":", t 2 .IDENT "lock",
   t 3 .CASE "case", t 3 .INT "1", t 3 .COLON ":", t 4 .RBRACE "}"]
def dupLoopState : PState := { toks := dupBody, eof := t 5 .EOF "", constants := [("K", "1")] }
def dupState : PState := { dupLoopState with toks := headToks ++ dupBody }
def dupSeg : Seg :=
  ⟨.case (t 2 .CASE "case") [t 2 .IDENT "K"] (t 2 .COLON ":"), [cmd 0 (t 2 .IDENT "lock")], {}⟩

/-- `duplicate_case_rejected` applies (loop level): the error is on line 3, the later case. -/
example : (parseSwitchCases {} "S" (t 1 .LBRACE "{") 10 [] [] false {}).run dupLoopState =
    .error (newRangeParseError (t 3 .CASE "case") (t 3 .COLON ":")
      "duplicate switch cases detected for case '1'") :=
  duplicate_case_rejected [] [] false {}
    (Iter.cons (g := dupSeg) (rest := dupBody.drop 3) rfl ⟨rfl, by decide, by decide, rfl⟩ (by decide) rfl
      (Iter.nil 9 _))
    ⟨rfl, trivial⟩ (c := t 3 .CASE "case") (vs := [t 3 .INT "1"]) (colon := t 3 .COLON ":")
    (rest := [t 4 .RBRACE "}"]) rfl ⟨rfl, by decide, by decide, rfl⟩ (by decide) (by decide)

/-- `switch_duplicate_case_rejected` applies (statement level). -/
example : (parseSwitchStatement {} "S" 20).run dupState =
    .error (newRangeParseError (t 3 .CASE "case") (t 3 .COLON ":")
      "duplicate switch cases detected for case '1'") :=
  switch_duplicate_case_rejected (s := dupState) (tl := headToks.drop 2 ++ dupBody) (ctoks := dupBody) rfl rfl
    (OperandAt.var (ops := [t 1 .IDENT "VAR_X"]) (x := t 1 .RPAREN ")") (tl := t 1 .LBRACE "{" :: dupBody)
      rfl rfl rfl (by decide) rfl (by decide))
    rfl rfl
    (Iter.cons (g := dupSeg) (rest := dupBody.drop 3) rfl ⟨rfl, by decide, by decide, rfl⟩ (by decide) rfl
      (Iter.nil 18 _))
    ⟨rfl, trivial⟩ (c := t 3 .CASE "case") (vs := [t 3 .INT "1"]) (colon := t 3 .COLON ":")
    (rest := [t 4 .RBRACE "}"]) rfl ⟨rfl, by decide, by decide, rfl⟩ (by decide) (by decide)

/-- the error is reported on line 3 -/
example : ∃ e, (parseSwitchStatement {} "S" 20).run dupState = .error (.err e) ∧ e.lineStart = 3 ∧
    e.lineEnd = 3 := ⟨_, rfl, rfl, rfl⟩

/-! ### two defaults
```
default: lock
default:
}
``` -/
def ddBody : List Tok :=
  [t 2 .DEFAULT "default", t 2 .COLON ":", t 2 .IDENT "lock", t 3 .DEFAULT "default", t 3 .COLON ":",
   t 4 .RBRACE "}"]
def ddLoopState : PState := { toks := ddBody, eof := t 5 .EOF "" }

/-- `second_default_rejected` applies: the error is on the second `default` (line 3). -/
example : (parseSwitchCases {} "S" (t 1 .LBRACE "{") 10 [] [] false {}).run ddLoopState =
    .error (newParseError (t 3 .DEFAULT "default")
      "multiple `default` cases found in switch statement. Only one `default` case is allowed") :=
  have hit : Iter {} "S" (t 1 .LBRACE "{") 10 ddLoopState
      [⟨.dflt (t 2 .DEFAULT "default") (t 2 .COLON ":"), [cmd 0 (t 2 .IDENT "lock")], {}⟩] 9
      { ddLoopState with toks := ddBody.drop 3, nextCmdId := 1 } :=
    Iter.cons (rest := ddBody.drop 2) rfl ⟨rfl, rfl⟩ (by decide) rfl (Iter.nil 9 _)
  second_default_rejected [] [] false {} hit ⟨rfl, trivial⟩ rfl (Or.inr (by decide))

/-! ### an auto-var operand: `switch (getpartysize) { case 1: }` with `getpartysize ↦ VAR_RESULT` -/
def avEnv : Env := { autoVars := [("getpartysize", { varName := "VAR_RESULT" })] }
def avState : PState :=
  { toks := [t 1 .SWITCH "switch", t 1 .LPAREN "(", t 1 .IDENT "getpartysize", t 1 .RPAREN ")",
             t 1 .LBRACE "{", t 2 .CASE "case", t 2 .INT "1", t 2 .COLON ":", t 3 .RBRACE "}"],
    eof := t 4 .EOF "" }

theorem av_run : ∃ imp s', (parseSwitchStatement avEnv "S" 20).run avState =
    .ok (([cmd 0 (t 1 .IDENT "getpartysize"),
           .switch_ (t 1 .SWITCH "switch") 0 (t 1 .IDENT "VAR_RESULT") [(t 2 .INT "1", false, [])]], imp), s') :=
  ⟨_, _, rfl⟩

/-- `switch_operand` applies with the `auto` form: the command precedes the switch. -/
example : ∃ sw lp tl operand pre oimp sO cases, avState.toks = sw :: lp :: tl ∧ lp.type = .LPAREN ∧
    OperandAt avEnv "S" 19 (st (enter avState) (lp :: tl)) operand pre oimp sO ∧
    [cmd 0 (t 1 .IDENT "getpartysize"),
      Stmt.switch_ (t 1 .SWITCH "switch") 0 (t 1 .IDENT "VAR_RESULT") [(t 2 .INT "1", false, [])]] =
      pre ++ [.switch_ sw avState.nextSid operand cases] := by
  obtain ⟨imp, s', h⟩ := av_run
  exact switch_operand avEnv "S" 19 avState rfl _ _ h

/-- `auto_var_operand` applies. -/
example : ∃ name cmd aimp s1, (expectPeekVarOrAutoVar avEnv "S" 19).run
      (st (enter avState) avState.toks.tail) = .ok (some (name, cmd, aimp), s1) ∧ name = "VAR_RESULT" :=
  ⟨_, _, _, _, rfl, rfl⟩

/-! ### the token after `var( … )` is not checked -/
/-- `switch (var(VAR_X) lock { case 1: }` is accepted and parses like `switch (var(VAR_X)) { case 1: }`. -/
theorem unchecked_token_after_operand :
    ∃ imp s', (parseSwitchStatement {} "S" 20).run
      { toks := [t 1 .SWITCH "switch", t 1 .LPAREN "(", t 1 .VAR "var", t 1 .LPAREN "(", t 1 .IDENT "VAR_X",
                 t 1 .RPAREN ")", t 1 .IDENT "lock", t 1 .LBRACE "{", t 2 .CASE "case", t 2 .INT "1",
                 t 2 .COLON ":", t 3 .RBRACE "}"],
        eof := t 4 .EOF "" } =
      .ok (([.switch_ (t 1 .SWITCH "switch") 0 (t 1 .IDENT "VAR_X") [(t 2 .INT "1", false, [])]], imp), s') :=
  ⟨_, _, rfl⟩

end Examples
#print axioms parse_switch_cases_order
#print axioms parse_switch_cases_complete
#print axioms parse_switch_statement_order
#print axioms parse_switch_statement_cases
#print axioms duplicate_case_rejected
#print axioms second_default_rejected
#print axioms accepted_cases_distinct
#print axioms accepted_switch_cases_distinct
#print axioms switch_duplicate_case_rejected
#print axioms switch_second_default_rejected
#print axioms switch_operand
#print axioms auto_var_operand
#print axioms unchecked_token_after_operand

end Pory.C03b
