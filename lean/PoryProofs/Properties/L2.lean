import PoryProofs.RetokTop
import PoryProofs.Properties.L1
import PoryProofs.Properties.P2
/-
L2 — the whole-file grammar theorems of P2 stated about SOURCE TEXT.

P2 proves `parseTokens env (printTops ts ++ [eofT]) = elabFile env ts (initState eofT)` and the compile theorems
for TOKEN LISTS carried by a file tree `ts : List P2.STop`.  L1 proves that the text `render toks` lexes back to
tokens with the same types and literals (the lexer's own positions).  This file joins the two: the lexer's
records ARE the print of a re-decorated tree, so everything P2 says about printed trees holds for the text.

Helper modules (all new): PoryProofs/RetokAst.lean (position erasure `pe…` on the AST), Retok.lean (re-decoration
of conditions, command arguments, movement items), RetokStmt.lean (statement grammar `StmtG.SStmt`),
RetokTop.lean (file grammar `P2.STop`).

DEFINITIONS
* `erase t` (C02P) forgets the six position fields of a token; `SameText l u := l.map erase = u.map erase`.
* `eL : List SStmt → List SStmt`, `eTop : STop → STop` — position erasure of surface trees (every token record
  erased, every position record `{}`); `SameShape ts' ts := ts'.map eTop = ts.map eTop`: the same constructors
  and the same token types and literals everywhere — the two files differ only in positions.

PROVED
1. retok
* `retok_stmts` : `SameText l (printStmts b) → ∃ b', printStmts b' = l ∧ eL b' = eL b ∧ (SWF b → SWF b')`
                  — the whole statement grammar of P1 (commands incl. string / `moves()` arguments, labels,
                  if / elif / else, while, do-while, break, continue, switch, auto-var switch, poryswitch,
                  auto-var conditions, the boolean grammar `SOr`).
* `retok_tops`  : `SameText l (printTops ts) → ∃ ts', printTops ts' = l ∧ SameShape ts' ts ∧ (TWF ts → TWF ts')`
                  — the file grammar `P2.STop` (script, raw, const, movement, mart, text).
3. source text
* `lex_file`       : for a file whose printed tokens are `TokOK` / `AdjOK`, `Lexer.lexAll (render (printTops ts))`
                     is `printTops ts' ++ [eof]` for a re-decorated `ts'` of the same shape (well-formed when `ts`
                     is) and an `EOF` record `eof`.
* `parse_source`   : `parseTokens env (lexAll (render (printTops ts))) = elabFile env ts' (initState eof)`.
* `compile_source` : the model's pipeline from SOURCE TEXT, `compileLines env o src` (= `lexAll` + `parseTokens` +
                     `emitProgram`; `compile` renders its lines), on `src = render (printTops ts)` is
                     `P2.compileFile env o eof ts'` — the reference elaboration + post-passes + emitter on the
                     re-decorated tree — with the errors translated as `main.go` does (`toResult`).  All emitter
                     options.  `compile_source_text` : the same for `compile` (the rendered text).

See the end of the file for item 2 (`elab_retok`) and what is partial.
-/
namespace Pory.L2
open Pory Pory.Parser Pory.C02P Pory.StmtG Pory.TopParse Pory.Emit Pory.P2 Pory.L1

/-! ## 3. source text -/

/-- The lexer on the text of a printed file: the print of a re-decorated file of the same shape, then `EOF`. -/
theorem lex_file (ts : List STop) (hok : ∀ t ∈ printTops ts, TokOK t) (hadj : AdjOK (printTops ts)) :
    ∃ ts' eof, Lexer.lexAll (L1.render (printTops ts)).toList = printTops ts' ++ [eof] ∧
      SameShape ts' ts ∧ (TWF ts → TWF ts') ∧ eof.type = .EOF ∧ eof.lit = "" := by
  obtain ⟨l, eof, h1, h2, -, h3, h4⟩ := lex_render_records (printTops ts) hok hadj
  obtain ⟨ts', rfl, h5, h6⟩ := retok_tops ts l h2
  exact ⟨ts', eof, h1, h5, h6, h3, h4⟩

/-- **P2 on source text, parser**: the parser on the lexer's records of the text of a file is the reference
elaboration of the re-decorated file. -/
theorem parse_source (env : Env) (ts : List STop) (hwf : TWF ts)
    (hok : ∀ t ∈ printTops ts, TokOK t) (hadj : AdjOK (printTops ts)) :
    ∃ ts' eof, Lexer.lexAll (L1.render (printTops ts)).toList = printTops ts' ++ [eof] ∧
      SameShape ts' ts ∧ TWF ts' ∧ eof.type = .EOF ∧
      parseTokens env (Lexer.lexAll (L1.render (printTops ts)).toList) = elabFile env ts' (initState eof) := by
  obtain ⟨ts', eof, h1, h2, h3, h4, -⟩ := lex_file ts hok hadj
  exact ⟨ts', eof, h1, h2, h3 hwf, h4, by rw [h1]; exact parse_file_elab env eof h4 ts' (h3 hwf)⟩

/-- How `main.go` reports the two kinds of failure. -/
def toResult : Except CErr (List Line) → Except Result (List Line)
  | .ok ls => .ok ls
  | .error (.parse (.err e)) => .error (.parseError e)
  | .error (.parse .outOfFuel) => .error (.outOfFuel "parser")
  | .error (.parse (.panic w)) => .error (.panic w)
  | .error (.emit (.perr tok msg)) => .error (.parseError (tokErr tok msg))
  | .error (.emit (.plain msg)) => .error (.plainError msg)
  | .error (.emit .outOfFuel) => .error (.outOfFuel "emitter")
  | .error (.emit (.panic w)) => .error (.panic w)

/-- The model's pipeline from source text is the lexer followed by the token pipeline of P2. -/
theorem compileLines_eq (env : Env) (o : Opts) (src : List Char) :
    compileLines env o src = toResult (compileToks env o (Lexer.lexAll src)) := by
  unfold compileLines compileToks
  cases parseTokens env (Lexer.lexAll src) with
  | error e => cases e <;> rfl
  | ok p =>
    simp only
    cases emitProgram o p with
    | error e => cases e <;> rfl
    | ok ls => rfl

/-- The lines of a compiled file. -/
def linesOf : Except CErr Sections → Except CErr (List Line)
  | .error e => .error e
  | .ok S => .ok S.lines

/-- **P2 on source text, whole pipeline** (`compile_source`): text → lines is characterised by the reference
elaboration (`compileFile`) of the re-decorated file. -/
theorem compile_source (env : Env) (o : Opts) (ts : List STop) (hwf : TWF ts)
    (hok : ∀ t ∈ printTops ts, TokOK t) (hadj : AdjOK (printTops ts)) :
    ∃ ts' eof, Lexer.lexAll (L1.render (printTops ts)).toList = printTops ts' ++ [eof] ∧
      SameShape ts' ts ∧ TWF ts' ∧ eof.type = .EOF ∧
      compileLines env o (L1.render (printTops ts)).toList = toResult (linesOf (compileFile env o eof ts')) := by
  obtain ⟨ts', eof, h1, h2, h3, h4, -⟩ := lex_file ts hok hadj
  refine ⟨ts', eof, h1, h2, h3 hwf, h4, ?_⟩
  rw [compileLines_eq, h1, compile_print env o eof h4 ts' (h3 hwf)]
  cases compileFile env o eof ts' <;> rfl

/-- … and the text `compile` returns. -/
theorem compile_source_text (env : Env) (o : Opts) (ts : List STop) (hwf : TWF ts)
    (hok : ∀ t ∈ printTops ts, TokOK t) (hadj : AdjOK (printTops ts)) :
    ∃ ts' eof, SameShape ts' ts ∧ TWF ts' ∧ eof.type = .EOF ∧
      compile env o (L1.render (printTops ts)).toList =
        match toResult (linesOf (compileFile env o eof ts')) with
        | .ok ls => .ok (Emit.render ls)
        | .error r => r := by
  obtain ⟨ts', eof, -, h2, h3, h4, h5⟩ := compile_source env o ts hwf hok hadj
  exact ⟨ts', eof, h2, h3, h4, by unfold compile; rw [h5]; cases toResult (linesOf (compileFile env o eof ts')) <;> rfl⟩


/-! ## non-vacuity -/
section Example

/-- `script A { if (flag(F)) { msgbox("Hi") } }` and `movement M { walk_up * 2 face_down }` (P2's `exA`, `exM`) -/
def exFile2 : List STop := [P2.exA, P2.exM]

def exSrc2 : String :=
  "script A { if ( flag ( F ) ) { msgbox ( \"Hi\" ) } } movement M { walk_up * 2 face_down }"

theorem exFile2_wf : TWF exFile2 := by decide
theorem exFile2_ok : ∀ t ∈ printTops exFile2, TokOK t := by decide +kernel
theorem exFile2_adj : AdjOK (printTops exFile2) := by decide
theorem exSrc2_eq : L1.render (printTops exFile2) = exSrc2 := by decide +kernel

/-- `retok_tops` on the example: any 22 token records with the text of the file are the print of a file of
the same shape. -/
example (l : List Tok) (h : SameText l (printTops exFile2)) :
    ∃ ts', printTops ts' = l ∧ SameShape ts' exFile2 ∧ TWF ts' := by
  obtain ⟨ts', h1, h2, h3⟩ := retok_tops exFile2 l h
  exact ⟨ts', h1, h2, h3 exFile2_wf⟩

/-- **The source text of the two-statement file, lexed, parsed and compiled — by the theorem**: the model's
`compile` on the text is the reference compilation of a file of the same shape. -/
example (env : Env) (o : Opts) :
    ∃ ts' eof, SameShape ts' exFile2 ∧ TWF ts' ∧ eof.type = .EOF ∧
      compile env o exSrc2.toList =
        match toResult (linesOf (compileFile env o eof ts')) with
        | .ok ls => .ok (Emit.render ls)
        | .error r => r := by
  have h := compile_source_text env o exFile2 exFile2_wf exFile2_ok exFile2_adj
  rw [exSrc2_eq] at h
  exact h

-- direct evaluation (not a proof): the model's `compile` on the text gives the text of the reference
-- compilation of the ORIGINAL tree (markers off: positions do not show)
#guard (match compile {} P2.exO exSrc2.toList, compileFile {} P2.exO P2.eofT exFile2 with
  | .ok text, .ok S => text == Emit.render S.lines
  | _, _ => false)
#guard (match compile {} P2.exO exSrc2.toList with
  | .ok text => text == "A::\n\tgoto A_2\n\nA_1:\n\tmsgbox A_Text_0\n\treturn\n\nA_2:\n\tgoto_if_set F, A_1\n\treturn\n\n\nM:\n\twalk_up\n\twalk_up\n\tface_down\n\tstep_end\n\nA_Text_0:\n\t.string \"Hi$\"\n"
  | _ => false)

end Example

#print axioms retok_stmts
#print axioms retok_tops
#print axioms lex_file
#print axioms parse_source
#print axioms compile_source
#print axioms compile_source_text

end Pory.L2
