import PoryProofs.RetokTop
import PoryProofs.RetokElabTop
import PoryProofs.RetokEmit
import PoryProofs.Properties.L1
import PoryProofs.Properties.P2
import PoryProofs.Properties.P2b
import PoryProofs.RetokMS
import PoryProofs.Properties.P2d
import PoryProofs.RetokPSElab
/-
L2 — the whole-file grammar theorems of P2 / P2b / P2d stated about SOURCE TEXT.

P2 (P2b, P2d) prove `parseTokens env (printTops ts ++ [eofT]) = elabFile env ts (initState eofT)` and the compile /
independence theorems for TOKEN LISTS carried by a file tree `ts`.  L1 proves that the text `render toks` lexes
back to tokens with the same types and literals (the lexer's own positions).  This file joins the two: the
lexer's records ARE the print of a re-decorated tree of the same shape, the re-decorated tree elaborates to the
same program up to token positions, and with line markers off the emitter does not read positions — so text →
output is characterised by the reference elaboration of the tree one started from.

Helper modules (all new): PoryProofs/RetokAst.lean (position erasure `pe…` on the AST: `peS`, `peProgram`, …),
Retok.lean (re-decoration of conditions, command arguments, movement items), RetokStmt.lean (statement grammar
`StmtG.SStmt`), RetokTop.lean (file grammar `P2.STop`), RetokElab.lean / RetokElabTop.lean (the reference
elaboration commutes with erasure), RetokEmit.lean (the emitter with markers off ignores positions; follows
ProgramMetaErase.lean), RetokMS.lean (`P2b.STopM`: + mapscripts), RetokPS.lean / RetokPSElab.lean (`P2d.STopP`:
+ poryswitch in movement / mart lists, `format()`, text poryswitch).

DEFINITIONS
* `erase t` (C02P) forgets the six position fields of a token; `SameText l u := l.map erase = u.map erase` (same
  length, same type and literal pointwise).
* `eL : List SStmt → List SStmt`, `eTop : STop → STop` (`eTopM`, `eTopP`) — position erasure of surface trees: every
  token record erased, every position record `{}`.  `SameShape ts' ts := ts'.map eTop = ts.map eTop` (`SameShapeM`,
  `SameShapeP`): the same constructors and the same token types and literals everywhere — the two files differ
  only in positions.
* `pe`, `peS`, `peProgram` (RetokAst.lean) — position erasure of the AST; `pePFail` / `peEFail` / `peCErr` erase the
  positions of a located error (the message stays); `peEx f`, `peRes`, `peC` map a result (`.ok a ↦ .ok (f a)`,
  `.error e ↦ .error (erased e)`).
* `toResult` — how `main.go` reports the failures of the parser / emitter (`Pory.Result`); `linesOf` — the lines
  of `Sections`; `pipeline o x` — the emitter after a parse result.

PROVED (every statement below in full; all for the three grammars `STop` ⊂ `STopM` ⊂ `STopP`, suffix `_ms` / `_ps`)
1. retok
* `retok_stmts` : `SameText l (printStmts b) → ∃ b', printStmts b' = l ∧ eL b' = eL b ∧ (SWF b → SWF b')`
                  — the whole statement grammar of P1 (commands incl. string / `moves()` arguments, labels,
                  if / elif / else, while, do-while, break, continue, switch, auto-var switch, poryswitch,
                  auto-var conditions, the boolean grammar `SOr`).
* `retok_tops`  : `SameText l (printTops ts) → ∃ ts', printTops ts' = l ∧ SameShape ts' ts ∧ (TWF ts → TWF ts')`;
  `retok_topsM`, `retok_topsP` for files with mapscripts / the completed grammar.
2. elab_retok
* `elab_retok` (`_ms`, `_ps`) : `SameShape ts' ts → peEx peProgram (elabFile env ts' (initState eof')) =
                  peEx peProgram (elabFile env ts (initState eof))` — the same `Program` up to the positions of
                  the stored token records (same statements, command / scope ids, patches, hoisted texts and
                  movements, names, values), or the same error message; from `elabFile_eTop :
                  elabFile env (ts.map eTop) (peState s) = peEx peProgram (elabFile env ts s)`.
* `emitProgram_pe` / `emitProgram_congr` (RetokEmit.lean) : `o.markers = false → peProgram p' = peProgram p →
                  peRes (emitProgram o p') = peRes (emitProgram o p)` — all top-level kinds incl. mapscripts.
* `compile_retok` (`_ms`, `_ps`) : markers off, `SameShape ts' ts`, `TWF ts`:
                  `peC (linesOf (compileFile env o eof' ts')) = peC (linesOf (compileFile env o eof ts))` — the SAME
                  LINES, or the same failure up to the positions of a located error; `compile_retok_ok`.
3. source text
* `lex_file`       : for a file whose printed tokens are `TokOK` / `AdjOK`, `Lexer.lexAll (render (printTops ts))`
                     is `printTops ts' ++ [eof]` for a re-decorated `ts'` of the same shape and an `EOF` record.
* `parse_source`   : `parseTokens env (lexAll (render (printTops ts))) = elabFile env ts' (initState eof)`.
* `compile_source` : ALL emitter options (markers on or off): `compileLines env o src` (= `lexAll` + `parseTokens` +
                     `emitProgram`; `compile` renders its lines) on `src = render (printTops ts)` is
                     `toResult (linesOf (P2.compileFile env o eof ts'))` — the reference pipeline on the re-decorated
                     tree; `compile_source_text` for `compile`.
* `compile_source_ok` (`_ms`, `_ps`) : markers off: `compileLines env o (render (printTops ts)) = .ok L ↔
                     linesOf (compileFile env o eofT ts) = .ok L` — in terms of the ORIGINAL tree (any positions, any
                     `EOF` record); `compile_source_text_ok` (the text `compile` returns); `compile_source_error`
                     (`_ms`, `_ps`): a failure of the reference compilation is the failure reported for the text, up
                     to the positions of a located error.
* `independence_source` (`_ms`, `_ps`) : P2's `tops_independent` for the SOURCE TEXTS of `ts1`, `ts2`, `ts1 ++ ts2`
                     (markers off; same side condition `Indep` on the trees).

PARTIAL / NOT PROVED (honest list)
* Errors are compared UP TO POSITIONS (`peC`, `peCErr`: same constructor, same message, for an emitter label
  clash the same token type and literal).  That the located error of the text sits at the lexer's record of the
  CORRESPONDING token is not stated (it follows for each concrete case from `compile_source`, which is exact, on
  the re-decorated tree).
* `compile_retok` / `compile_source_ok` / `independence_source` need `o.markers = false` (`-lm=false` or no input
  path): with markers on the output contains the line numbers of the tokens, i.e. it DOES depend on positions;
  for that case `compile_source` (exact, on the re-decorated tree) is the statement, and C16 relates the two
  outputs.
* The hypotheses `TokOK` / `AdjOK` are on the printed tokens of the tree (decidable; L1 explains what they
  exclude: `STRING` literals with a newline / `"`, two adjacent `STRING` tokens, …) and the text is L1's `render`
  (tokens separated by single spaces, a string type glued to its literal); other layouts of the same tokens
  are covered by C19b (layout independence of the lexer), not restated here.
* `emitProgram_pe` is stated with `peRes` on both sides because `scriptChunks` / `optimizeChunkOrder` have the
  type of functions that could return a located error (they never do; not proved, not needed).
-/
namespace Pory.L2
open Pory Pory.Parser Pory.C02P Pory.StmtG Pory.TopParse Pory.Emit Pory.P2 Pory.L1

/-! ## 3. source text -/

/-- The lexer on the text of a printed file: the print of a re-decorated file of the same shape, then `EOF`. -/
theorem lex_file (ts : List STop) (hok : ∀ t ∈ printTops ts, TokOK t) (hadj : AdjOK (printTops ts)) :
    ∃ ts' eof, Lexer.lexAll (L1.render (printTops ts)).toList = printTops ts' ++ [eof] ∧
      SameShape ts' ts ∧ (TWF ts → TWF ts') ∧ eof.type = .EOF ∧ eof.lit = "" := by
  obtain ⟨l, eof, h1, h2, -, h3, h4⟩ := lex_render_records (printTops ts) hok hadj
  obtain ⟨ts', rfl, h5, h6⟩ := retok_tops ts l h2
  exact ⟨ts', eof, h1, h5, h6, h3, h4⟩

/-- **P2 on source text, parser**: the parser on the lexer's records of the text of a file is the reference
elaboration of the re-decorated file. -/
theorem parse_source (env : Env) (ts : List STop) (hwf : TWF ts)
    (hok : ∀ t ∈ printTops ts, TokOK t) (hadj : AdjOK (printTops ts)) :
    ∃ ts' eof, Lexer.lexAll (L1.render (printTops ts)).toList = printTops ts' ++ [eof] ∧
      SameShape ts' ts ∧ TWF ts' ∧ eof.type = .EOF ∧
      parseTokens env (Lexer.lexAll (L1.render (printTops ts)).toList) = elabFile env ts' (initState eof) := by
  obtain ⟨ts', eof, h1, h2, h3, h4, -⟩ := lex_file ts hok hadj
  exact ⟨ts', eof, h1, h2, h3 hwf, h4, by rw [h1]; exact parse_file_elab env eof h4 ts' (h3 hwf)⟩

/-- How `main.go` reports the two kinds of failure. -/
def toResult : Except CErr (List Line) → Except Result (List Line)
  | .ok ls => .ok ls
  | .error (.parse (.err e)) => .error (.parseError e)
  | .error (.parse .outOfFuel) => .error (.outOfFuel "parser")
  | .error (.parse (.panic w)) => .error (.panic w)
  | .error (.emit (.perr tok msg)) => .error (.parseError (tokErr tok msg))
  | .error (.emit (.plain msg)) => .error (.plainError msg)
  | .error (.emit .outOfFuel) => .error (.outOfFuel "emitter")
  | .error (.emit (.panic w)) => .error (.panic w)

/-- The model's pipeline from source text is the lexer followed by the token pipeline of P2. -/
theorem compileLines_eq (env : Env) (o : Opts) (src : List Char) :
    compileLines env o src = toResult (compileToks env o (Lexer.lexAll src)) := by
  unfold compileLines compileToks
  cases parseTokens env (Lexer.lexAll src) with
  | error e => cases e <;> rfl
  | ok p =>
    simp only
    cases emitProgram o p with
    | error e => cases e <;> rfl
    | ok ls => rfl

/-- The lines of a compiled file. -/
def linesOf : Except CErr Sections → Except CErr (List Line)
  | .error e => .error e
  | .ok S => .ok S.lines

/-- **P2 on source text, whole pipeline** (`compile_source`): text → lines is characterised by the reference
elaboration (`compileFile`) of the re-decorated file. -/
theorem compile_source (env : Env) (o : Opts) (ts : List STop) (hwf : TWF ts)
    (hok : ∀ t ∈ printTops ts, TokOK t) (hadj : AdjOK (printTops ts)) :
    ∃ ts' eof, Lexer.lexAll (L1.render (printTops ts)).toList = printTops ts' ++ [eof] ∧
      SameShape ts' ts ∧ TWF ts' ∧ eof.type = .EOF ∧
      compileLines env o (L1.render (printTops ts)).toList = toResult (linesOf (compileFile env o eof ts')) := by
  obtain ⟨ts', eof, h1, h2, h3, h4, -⟩ := lex_file ts hok hadj
  refine ⟨ts', eof, h1, h2, h3 hwf, h4, ?_⟩
  rw [compileLines_eq, h1, compile_print env o eof h4 ts' (h3 hwf)]
  cases compileFile env o eof ts' <;> rfl

/-- … and the text `compile` returns. -/
theorem compile_source_text (env : Env) (o : Opts) (ts : List STop) (hwf : TWF ts)
    (hok : ∀ t ∈ printTops ts, TokOK t) (hadj : AdjOK (printTops ts)) :
    ∃ ts' eof, SameShape ts' ts ∧ TWF ts' ∧ eof.type = .EOF ∧
      compile env o (L1.render (printTops ts)).toList =
        match toResult (linesOf (compileFile env o eof ts')) with
        | .ok ls => .ok (Emit.render ls)
        | .error r => r := by
  obtain ⟨ts', eof, -, h2, h3, h4, h5⟩ := compile_source env o ts hwf hok hadj
  exact ⟨ts', eof, h2, h3, h4, by unfold compile; rw [h5]; cases toResult (linesOf (compileFile env o eof ts')) <;> rfl⟩


/-! ## 2. the re-decorated file compiles like the original -/

/-- **elab_retok**: files of the same shape (e.g. a file and its re-decoration by the lexer) elaborate to the
same `Program` up to the positions of the token records stored in it — same statements, command / scope ids,
patches, hoisted texts and movements, names, values — or fail with the same message. -/
theorem elab_retok (env : Env) {ts' ts : List STop} (h : SameShape ts' ts) (eof' eof : Tok) :
    peEx peProgram (elabFile env ts' (initState eof')) = peEx peProgram (elabFile env ts (initState eof)) :=
  elabFile_shape env h eof' eof

theorem peEx_cases {α : Type} {f : α → α} {x' x : Except PFail α} (h : peEx f x' = peEx f x) :
    (∃ e' e, x' = .error e' ∧ x = .error e ∧ pePFail e' = pePFail e) ∨
      (∃ a' a, x' = .ok a' ∧ x = .ok a ∧ f a' = f a) := by
  cases x' with
  | error e' =>
    cases x with
    | error e => exact .inl ⟨e', e, rfl, rfl, by simpa using h⟩
    | ok a => cases h
  | ok a' =>
    cases x with
    | error e => cases h
    | ok a => exact .inr ⟨a', a, rfl, rfl, by simpa using h⟩

/-- the positions of a located error erased (the message stays) -/
def peCErr : CErr → CErr
  | .parse e => .parse (pePFail e)
  | .emit e => .emit (peEFail e)

/-- a compilation result up to the positions of a located error -/
def peC {α : Type} : Except CErr α → Except CErr α
  | .error e => .error (peCErr e)
  | .ok a => .ok a

/-- the emitter after the parser -/
def pipeline (o : Opts) : Except PFail Program → Except CErr (List Line)
  | .error e => .error (.parse e)
  | .ok p =>
    match emitProgram o p with
    | .error e => .error (.emit e)
    | .ok ls => .ok ls

theorem compileToks_eq (env : Env) (o : Opts) (toks : List Tok) :
    compileToks env o toks = pipeline o (parseTokens env toks) := by
  unfold compileToks pipeline
  cases parseTokens env toks <;> rfl

/-- `compileFile` as lines is the emitter on the reference elaboration. -/
theorem linesOf_compileFile (env : Env) (o : Opts) (eofT : Tok) (heof : eofT.type = .EOF) (ts : List STop)
    (hwf : TWF ts) :
    linesOf (compileFile env o eofT ts) = pipeline o (elabFile env ts (initState eofT)) := by
  have h := compile_print env o eofT heof ts hwf
  rw [compileToks_eq, parse_file_elab env eofT heof ts hwf] at h
  rw [h]
  cases compileFile env o eofT ts <;> rfl

/-- programs equal up to token positions (or parse errors equal up to positions) are emitted alike -/
theorem pipeline_congr (o : Opts) (hm : o.markers = false) {x' x : Except PFail Program}
    (h : peEx peProgram x' = peEx peProgram x) : peC (pipeline o x') = peC (pipeline o x) := by
  rcases peEx_cases h with ⟨e', e, h1, h2, h3⟩ | ⟨p', p, h1, h2, h3⟩
  · simp only [h1, h2, pipeline, peC, peCErr, h3]
  · simp only [h1, h2, pipeline]
    rcases peRes_cases (emitProgram_congr o hm h3) with ⟨e', e, k1, k2, k3⟩ | ⟨ls, k1, k2⟩
    · simp only [k1, k2, peC, peCErr, k3]
    · simp only [k1, k2]

theorem peC_ok_iff {α : Type} {x : Except CErr α} {a : α} : peC x = .ok a ↔ x = .ok a := by
  cases x with
  | error e => simp [peC]
  | ok b => simp [peC]

theorem toResult_ok_iff (c : Except CErr (List Line)) (L : List Line) : toResult c = .ok L ↔ c = .ok L := by
  cases c with
  | error e => rcases e with (_ | _ | _) | (_ | _ | _ | _) <;> simp [toResult]
  | ok ls => simp [toResult]

/-- **compile_retok**: with line markers off, files of the same shape compile to the SAME LINES, or fail with
the same message (a located error is located at the corresponding token of the other file: `peC` compares the
errors up to positions). -/
theorem compile_retok (env : Env) (o : Opts) (hm : o.markers = false) {ts' ts : List STop}
    (h : SameShape ts' ts) (hwf : TWF ts) (eof' eof : Tok) (heof' : eof'.type = .EOF) (heof : eof.type = .EOF) :
    peC (linesOf (compileFile env o eof' ts')) = peC (linesOf (compileFile env o eof ts)) := by
  rw [linesOf_compileFile env o eof' heof' ts' (twf_of_shape h hwf), linesOf_compileFile env o eof heof ts hwf]
  exact pipeline_congr o hm (elab_retok env h eof' eof)

/-- success case of `compile_retok`: the same lines. -/
theorem compile_retok_ok (env : Env) (o : Opts) (hm : o.markers = false) {ts' ts : List STop}
    (h : SameShape ts' ts) (hwf : TWF ts) (eof' eof : Tok) (heof' : eof'.type = .EOF) (heof : eof.type = .EOF)
    (L : List Line) :
    linesOf (compileFile env o eof' ts') = .ok L ↔ linesOf (compileFile env o eof ts) = .ok L := by
  rw [← peC_ok_iff, compile_retok env o hm h hwf eof' eof heof' heof, peC_ok_iff]

/-! ## 3b. source text, in terms of the ORIGINAL tree (markers off) -/

/-- **compile_source, output form**: with line markers off, the model's pipeline on the source text of a
well-formed renderable file succeeds exactly when the reference compilation of the file (the tree one started
from, any positions, any `EOF` record) succeeds, with the same lines. -/
theorem compile_source_ok (env : Env) (o : Opts) (hm : o.markers = false) (ts : List STop) (hwf : TWF ts)
    (hok : ∀ t ∈ printTops ts, TokOK t) (hadj : AdjOK (printTops ts)) (eofT : Tok) (heof : eofT.type = .EOF)
    (L : List Line) :
    compileLines env o (L1.render (printTops ts)).toList = .ok L ↔
      linesOf (compileFile env o eofT ts) = .ok L := by
  obtain ⟨ts', eof, -, h2, h3, h4, h5⟩ := compile_source env o ts hwf hok hadj
  rw [h5, ← compile_retok_ok env o hm h2 hwf eof eofT h4 heof L, toResult_ok_iff]

/-- … and a failure is the failure of the reference compilation, up to the positions of a located error. -/
theorem compile_source_error (env : Env) (o : Opts) (hm : o.markers = false) (ts : List STop) (hwf : TWF ts)
    (hok : ∀ t ∈ printTops ts, TokOK t) (hadj : AdjOK (printTops ts)) (eofT : Tok) (heof : eofT.type = .EOF)
    (e : CErr) (he : compileFile env o eofT ts = .error e) :
    ∃ e', compileLines env o (L1.render (printTops ts)).toList = toResult (.error e') ∧ peCErr e' = peCErr e := by
  obtain ⟨ts', eof, -, h2, h3, h4, h5⟩ := compile_source env o ts hwf hok hadj
  have h := compile_retok env o hm h2 hwf eof eofT h4 heof
  rw [he] at h
  cases hc : compileFile env o eof ts' with
  | error e' =>
    rw [hc] at h h5
    exact ⟨e', h5, by simpa [linesOf, peC] using h⟩
  | ok S => rw [hc] at h; cases h

/-- The text `compile` returns, from the reference compilation of the original tree. -/
theorem compile_source_text_ok (env : Env) (o : Opts) (hm : o.markers = false) (ts : List STop) (hwf : TWF ts)
    (hok : ∀ t ∈ printTops ts, TokOK t) (hadj : AdjOK (printTops ts)) (eofT : Tok) (heof : eofT.type = .EOF)
    (S : Sections) (hS : compileFile env o eofT ts = .ok S) :
    compile env o (L1.render (printTops ts)).toList = .ok (Emit.render S.lines) := by
  have h := (compile_source_ok env o hm ts hwf hok hadj eofT heof S.lines).2 (by rw [hS]; rfl)
  unfold compile
  rw [h]

/-- **independence_source**: P2's `tops_independent` for the SOURCE TEXTS of two files (markers off): the text
of `ts1 ++ ts2` compiles iff the texts of both parts compile, and then to the section-wise concatenation. -/
theorem independence_source (env : Env) (o : Opts) (hm : o.markers = false) (eofT : Tok) (heof : eofT.type = .EOF)
    (ts1 ts2 : List STop) (hwf1 : TWF ts1) (hwf2 : TWF ts2) (hwf : TWF (ts1 ++ ts2))
    (hok1 : ∀ t ∈ printTops ts1, TokOK t) (hadj1 : AdjOK (printTops ts1))
    (hok2 : ∀ t ∈ printTops ts2, TokOK t) (hadj2 : AdjOK (printTops ts2))
    (hok : ∀ t ∈ printTops (ts1 ++ ts2), TokOK t) (hadj : AdjOK (printTops (ts1 ++ ts2)))
    (h : Indep env eofT ts1 ts2) (L : List Line) :
    compileLines env o (L1.render (printTops (ts1 ++ ts2))).toList = .ok L ↔
      ∃ S1 S2, compileLines env o (L1.render (printTops ts1)).toList = .ok S1.lines ∧
        compileLines env o (L1.render (printTops ts2)).toList = .ok S2.lines ∧
        compileFile env o eofT ts1 = .ok S1 ∧ compileFile env o eofT ts2 = .ok S2 ∧
        L = (S1.append S2).lines := by
  rw [compile_source_ok env o hm _ hwf hok hadj eofT heof]
  constructor
  · intro hL
    cases hc : compileFile env o eofT (ts1 ++ ts2) with
    | error e => rw [hc] at hL; cases hL
    | ok S =>
      rw [hc] at hL
      simp only [linesOf, Except.ok.injEq] at hL
      obtain ⟨S1, S2, h1, h2, rfl⟩ := (tops_independent env o eofT ts1 ts2 h S).1 hc
      refine ⟨S1, S2, ?_, ?_, h1, h2, hL.symm⟩
      · exact (compile_source_ok env o hm ts1 hwf1 hok1 hadj1 eofT heof _).2 (by rw [h1]; rfl)
      · exact (compile_source_ok env o hm ts2 hwf2 hok2 hadj2 eofT heof _).2 (by rw [h2]; rfl)
  · rintro ⟨S1, S2, -, -, h1, h2, rfl⟩
    rw [(tops_independent env o eofT ts1 ts2 h _).2 ⟨S1, S2, h1, h2, rfl⟩]
    rfl

/-! ## 4. the same for files with `mapscripts` statements (`P2b.STopM`) -/
section MapScripts
open Pory.P2b

theorem lex_file_ms (ts : List STopM) (hok : ∀ t ∈ printTopsM ts, TokOK t) (hadj : AdjOK (printTopsM ts)) :
    ∃ ts' eof, Lexer.lexAll (L1.render (printTopsM ts)).toList = printTopsM ts' ++ [eof] ∧
      SameShapeM ts' ts ∧ (TWFM ts → TWFM ts') ∧ eof.type = .EOF ∧ eof.lit = "" := by
  obtain ⟨l, eof, h1, h2, -, h3, h4⟩ := lex_render_records (printTopsM ts) hok hadj
  obtain ⟨ts', rfl, h5, h6⟩ := retok_topsM ts l h2
  exact ⟨ts', eof, h1, h5, h6, h3, h4⟩

/-- P2b on source text, parser. -/
theorem parse_source_ms (env : Env) (ts : List STopM) (hwf : TWFM ts)
    (hok : ∀ t ∈ printTopsM ts, TokOK t) (hadj : AdjOK (printTopsM ts)) :
    ∃ ts' eof, Lexer.lexAll (L1.render (printTopsM ts)).toList = printTopsM ts' ++ [eof] ∧
      SameShapeM ts' ts ∧ TWFM ts' ∧ eof.type = .EOF ∧
      parseTokens env (Lexer.lexAll (L1.render (printTopsM ts)).toList) = elabFileM env ts' (initState eof) := by
  obtain ⟨ts', eof, h1, h2, h3, h4, -⟩ := lex_file_ms ts hok hadj
  exact ⟨ts', eof, h1, h2, h3 hwf, h4, by rw [h1]; exact parse_file_elab_ms env eof h4 ts' (h3 hwf)⟩

/-- P2b on source text, whole pipeline (all emitter options). -/
theorem compile_source_ms (env : Env) (o : Opts) (ts : List STopM) (hwf : TWFM ts)
    (hok : ∀ t ∈ printTopsM ts, TokOK t) (hadj : AdjOK (printTopsM ts)) :
    ∃ ts' eof, Lexer.lexAll (L1.render (printTopsM ts)).toList = printTopsM ts' ++ [eof] ∧
      SameShapeM ts' ts ∧ TWFM ts' ∧ eof.type = .EOF ∧
      compileLines env o (L1.render (printTopsM ts)).toList = toResult (linesOf (compileFileM env o eof ts')) := by
  obtain ⟨ts', eof, h1, h2, h3, h4, -⟩ := lex_file_ms ts hok hadj
  refine ⟨ts', eof, h1, h2, h3 hwf, h4, ?_⟩
  rw [compileLines_eq, h1, compile_print_ms env o eof h4 ts' (h3 hwf)]
  cases compileFileM env o eof ts' <;> rfl

theorem elab_retok_ms (env : Env) {ts' ts : List STopM} (h : SameShapeM ts' ts) (eof' eof : Tok) :
    peEx peProgram (elabFileM env ts' (initState eof')) = peEx peProgram (elabFileM env ts (initState eof)) :=
  elabFileM_shape env h eof' eof

theorem linesOf_compileFileM (env : Env) (o : Opts) (eofT : Tok) (heof : eofT.type = .EOF) (ts : List STopM)
    (hwf : TWFM ts) :
    linesOf (compileFileM env o eofT ts) = pipeline o (elabFileM env ts (initState eofT)) := by
  have h := compile_print_ms env o eofT heof ts hwf
  rw [compileToks_eq, parse_file_elab_ms env eofT heof ts hwf] at h
  rw [h]
  cases compileFileM env o eofT ts <;> rfl

theorem compile_retok_ms (env : Env) (o : Opts) (hm : o.markers = false) {ts' ts : List STopM}
    (h : SameShapeM ts' ts) (hwf : TWFM ts) (eof' eof : Tok) (heof' : eof'.type = .EOF) (heof : eof.type = .EOF) :
    peC (linesOf (compileFileM env o eof' ts')) = peC (linesOf (compileFileM env o eof ts)) := by
  rw [linesOf_compileFileM env o eof' heof' ts' (twfM_of_shape h hwf), linesOf_compileFileM env o eof heof ts hwf]
  exact pipeline_congr o hm (elab_retok_ms env h eof' eof)

/-- text → lines, in terms of the original tree (markers off), files with `mapscripts`. -/
theorem compile_source_ok_ms (env : Env) (o : Opts) (hm : o.markers = false) (ts : List STopM) (hwf : TWFM ts)
    (hok : ∀ t ∈ printTopsM ts, TokOK t) (hadj : AdjOK (printTopsM ts)) (eofT : Tok) (heof : eofT.type = .EOF)
    (L : List Line) :
    compileLines env o (L1.render (printTopsM ts)).toList = .ok L ↔
      linesOf (compileFileM env o eofT ts) = .ok L := by
  obtain ⟨ts', eof, -, h2, h3, h4, h5⟩ := compile_source_ms env o ts hwf hok hadj
  rw [h5, toResult_ok_iff, ← peC_ok_iff, compile_retok_ms env o hm h2 hwf eof eofT h4 heof, peC_ok_iff]

theorem compile_source_error_ms (env : Env) (o : Opts) (hm : o.markers = false) (ts : List STopM) (hwf : TWFM ts)
    (hok : ∀ t ∈ printTopsM ts, TokOK t) (hadj : AdjOK (printTopsM ts)) (eofT : Tok) (heof : eofT.type = .EOF)
    (e : CErr) (he : compileFileM env o eofT ts = .error e) :
    ∃ e', compileLines env o (L1.render (printTopsM ts)).toList = toResult (.error e') ∧
      peCErr e' = peCErr e := by
  obtain ⟨ts', eof, -, h2, h3, h4, h5⟩ := compile_source_ms env o ts hwf hok hadj
  have h := compile_retok_ms env o hm h2 hwf eof eofT h4 heof
  rw [he] at h
  cases hc : compileFileM env o eof ts' with
  | error e' =>
    rw [hc] at h h5
    exact ⟨e', h5, by simpa [linesOf, peC] using h⟩
  | ok S => rw [hc] at h; cases h

/-- `tops_independent_ms` for source texts (markers off). -/
theorem independence_source_ms (env : Env) (o : Opts) (hm : o.markers = false) (eofT : Tok)
    (heof : eofT.type = .EOF) (ts1 ts2 : List STopM) (hwf1 : TWFM ts1) (hwf2 : TWFM ts2) (hwf : TWFM (ts1 ++ ts2))
    (hok1 : ∀ t ∈ printTopsM ts1, TokOK t) (hadj1 : AdjOK (printTopsM ts1))
    (hok2 : ∀ t ∈ printTopsM ts2, TokOK t) (hadj2 : AdjOK (printTopsM ts2))
    (hok : ∀ t ∈ printTopsM (ts1 ++ ts2), TokOK t) (hadj : AdjOK (printTopsM (ts1 ++ ts2)))
    (h : IndepM env eofT ts1 ts2) (L : List Line) :
    compileLines env o (L1.render (printTopsM (ts1 ++ ts2))).toList = .ok L ↔
      ∃ S1 S2, compileLines env o (L1.render (printTopsM ts1)).toList = .ok S1.lines ∧
        compileLines env o (L1.render (printTopsM ts2)).toList = .ok S2.lines ∧
        compileFileM env o eofT ts1 = .ok S1 ∧ compileFileM env o eofT ts2 = .ok S2 ∧
        L = (S1.append S2).lines := by
  rw [compile_source_ok_ms env o hm _ hwf hok hadj eofT heof]
  constructor
  · intro hL
    cases hc : compileFileM env o eofT (ts1 ++ ts2) with
    | error e => rw [hc] at hL; cases hL
    | ok S =>
      rw [hc] at hL
      simp only [linesOf, Except.ok.injEq] at hL
      obtain ⟨S1, S2, h1, h2, rfl⟩ := (tops_independent_ms env o eofT ts1 ts2 h S).1 hc
      refine ⟨S1, S2, ?_, ?_, h1, h2, hL.symm⟩
      · exact (compile_source_ok_ms env o hm ts1 hwf1 hok1 hadj1 eofT heof _).2 (by rw [h1]; rfl)
      · exact (compile_source_ok_ms env o hm ts2 hwf2 hok2 hadj2 eofT heof _).2 (by rw [h2]; rfl)
  · rintro ⟨S1, S2, -, -, h1, h2, rfl⟩
    rw [(tops_independent_ms env o eofT ts1 ts2 h _).2 ⟨S1, S2, h1, h2, rfl⟩]
    rfl

end MapScripts

/-! ## 5. the same for the completed grammar (`P2d.STopP`: poryswitch in lists, `format()`, text poryswitch) -/
section Completed
open Pory.P2b Pory.P2d

theorem lex_file_ps (ts : List STopP) (hok : ∀ t ∈ printTopsP ts, TokOK t) (hadj : AdjOK (printTopsP ts)) :
    ∃ ts' eof, Lexer.lexAll (L1.render (printTopsP ts)).toList = printTopsP ts' ++ [eof] ∧
      SameShapeP ts' ts ∧ (TWFP ts → TWFP ts') ∧ eof.type = .EOF ∧ eof.lit = "" := by
  obtain ⟨l, eof, h1, h2, -, h3, h4⟩ := lex_render_records (printTopsP ts) hok hadj
  obtain ⟨ts', rfl, h5, h6⟩ := retok_topsP ts l h2
  exact ⟨ts', eof, h1, h5, h6, h3, h4⟩

/-- P2d on source text, parser. -/
theorem parse_source_ps (env : Env) (ts : List STopP) (hwf : TWFP ts)
    (hok : ∀ t ∈ printTopsP ts, TokOK t) (hadj : AdjOK (printTopsP ts)) :
    ∃ ts' eof, Lexer.lexAll (L1.render (printTopsP ts)).toList = printTopsP ts' ++ [eof] ∧
      SameShapeP ts' ts ∧ TWFP ts' ∧ eof.type = .EOF ∧
      parseTokens env (Lexer.lexAll (L1.render (printTopsP ts)).toList) = elabFileP env ts' (initState eof) := by
  obtain ⟨ts', eof, h1, h2, h3, h4, -⟩ := lex_file_ps ts hok hadj
  exact ⟨ts', eof, h1, h2, h3 hwf, h4, by rw [h1]; exact parse_file_elab_ps env eof h4 ts' (h3 hwf)⟩

/-- P2d on source text, whole pipeline (all emitter options). -/
theorem compile_source_ps (env : Env) (o : Opts) (ts : List STopP) (hwf : TWFP ts)
    (hok : ∀ t ∈ printTopsP ts, TokOK t) (hadj : AdjOK (printTopsP ts)) :
    ∃ ts' eof, Lexer.lexAll (L1.render (printTopsP ts)).toList = printTopsP ts' ++ [eof] ∧
      SameShapeP ts' ts ∧ TWFP ts' ∧ eof.type = .EOF ∧
      compileLines env o (L1.render (printTopsP ts)).toList = toResult (linesOf (compileFileP env o eof ts')) := by
  obtain ⟨ts', eof, h1, h2, h3, h4, -⟩ := lex_file_ps ts hok hadj
  refine ⟨ts', eof, h1, h2, h3 hwf, h4, ?_⟩
  rw [compileLines_eq, h1, compile_print_ps env o eof h4 ts' (h3 hwf)]
  cases compileFileP env o eof ts' <;> rfl

theorem elab_retok_ps (env : Env) {ts' ts : List STopP} (h : SameShapeP ts' ts) (eof' eof : Tok) :
    peEx peProgram (elabFileP env ts' (initState eof')) = peEx peProgram (elabFileP env ts (initState eof)) :=
  elabFileP_shape env h eof' eof

theorem linesOf_compileFileP (env : Env) (o : Opts) (eofT : Tok) (heof : eofT.type = .EOF) (ts : List STopP)
    (hwf : TWFP ts) :
    linesOf (compileFileP env o eofT ts) = pipeline o (elabFileP env ts (initState eofT)) := by
  have h := compile_print_ps env o eofT heof ts hwf
  rw [compileToks_eq, parse_file_elab_ps env eofT heof ts hwf] at h
  rw [h]
  cases compileFileP env o eofT ts <;> rfl

theorem compile_retok_ps (env : Env) (o : Opts) (hm : o.markers = false) {ts' ts : List STopP}
    (h : SameShapeP ts' ts) (hwf : TWFP ts) (eof' eof : Tok) (heof' : eof'.type = .EOF) (heof : eof.type = .EOF) :
    peC (linesOf (compileFileP env o eof' ts')) = peC (linesOf (compileFileP env o eof ts)) := by
  rw [linesOf_compileFileP env o eof' heof' ts' (twfP_of_shape h hwf), linesOf_compileFileP env o eof heof ts hwf]
  exact pipeline_congr o hm (elab_retok_ps env h eof' eof)

/-- text → lines, in terms of the original tree (markers off), completed grammar. -/
theorem compile_source_ok_ps (env : Env) (o : Opts) (hm : o.markers = false) (ts : List STopP) (hwf : TWFP ts)
    (hok : ∀ t ∈ printTopsP ts, TokOK t) (hadj : AdjOK (printTopsP ts)) (eofT : Tok) (heof : eofT.type = .EOF)
    (L : List Line) :
    compileLines env o (L1.render (printTopsP ts)).toList = .ok L ↔
      linesOf (compileFileP env o eofT ts) = .ok L := by
  obtain ⟨ts', eof, -, h2, h3, h4, h5⟩ := compile_source_ps env o ts hwf hok hadj
  rw [h5, toResult_ok_iff, ← peC_ok_iff, compile_retok_ps env o hm h2 hwf eof eofT h4 heof, peC_ok_iff]

theorem compile_source_error_ps (env : Env) (o : Opts) (hm : o.markers = false) (ts : List STopP) (hwf : TWFP ts)
    (hok : ∀ t ∈ printTopsP ts, TokOK t) (hadj : AdjOK (printTopsP ts)) (eofT : Tok) (heof : eofT.type = .EOF)
    (e : CErr) (he : compileFileP env o eofT ts = .error e) :
    ∃ e', compileLines env o (L1.render (printTopsP ts)).toList = toResult (.error e') ∧
      peCErr e' = peCErr e := by
  obtain ⟨ts', eof, -, h2, h3, h4, h5⟩ := compile_source_ps env o ts hwf hok hadj
  have h := compile_retok_ps env o hm h2 hwf eof eofT h4 heof
  rw [he] at h
  cases hc : compileFileP env o eof ts' with
  | error e' =>
    rw [hc] at h h5
    exact ⟨e', h5, by simpa [linesOf, peC] using h⟩
  | ok S => rw [hc] at h; cases h

/-- `tops_independent_ps` for source texts (markers off, environment errors on). -/
theorem independence_source_ps (env : Env) (henv : env.envErrors = true) (o : Opts) (hm : o.markers = false)
    (eofT : Tok) (heof : eofT.type = .EOF) (ts1 ts2 : List STopP) (hwf1 : TWFP ts1) (hwf2 : TWFP ts2)
    (hwf : TWFP (ts1 ++ ts2))
    (hok1 : ∀ t ∈ printTopsP ts1, TokOK t) (hadj1 : AdjOK (printTopsP ts1))
    (hok2 : ∀ t ∈ printTopsP ts2, TokOK t) (hadj2 : AdjOK (printTopsP ts2))
    (hok : ∀ t ∈ printTopsP (ts1 ++ ts2), TokOK t) (hadj : AdjOK (printTopsP (ts1 ++ ts2)))
    (h : IndepP env eofT ts1 ts2) (L : List Line) :
    compileLines env o (L1.render (printTopsP (ts1 ++ ts2))).toList = .ok L ↔
      ∃ S1 S2, compileLines env o (L1.render (printTopsP ts1)).toList = .ok S1.lines ∧
        compileLines env o (L1.render (printTopsP ts2)).toList = .ok S2.lines ∧
        compileFileP env o eofT ts1 = .ok S1 ∧ compileFileP env o eofT ts2 = .ok S2 ∧
        L = (S1.append S2).lines := by
  rw [compile_source_ok_ps env o hm _ hwf hok hadj eofT heof]
  constructor
  · intro hL
    cases hc : compileFileP env o eofT (ts1 ++ ts2) with
    | error e => rw [hc] at hL; cases hL
    | ok S =>
      rw [hc] at hL
      simp only [linesOf, Except.ok.injEq] at hL
      obtain ⟨S1, S2, h1, h2, rfl⟩ := (tops_independent_ps env henv o eofT ts1 ts2 h S).1 hc
      refine ⟨S1, S2, ?_, ?_, h1, h2, hL.symm⟩
      · exact (compile_source_ok_ps env o hm ts1 hwf1 hok1 hadj1 eofT heof _).2 (by rw [h1]; rfl)
      · exact (compile_source_ok_ps env o hm ts2 hwf2 hok2 hadj2 eofT heof _).2 (by rw [h2]; rfl)
  · rintro ⟨S1, S2, -, -, h1, h2, rfl⟩
    rw [(tops_independent_ps env henv o eofT ts1 ts2 h _).2 ⟨S1, S2, h1, h2, rfl⟩]
    rfl

end Completed

/-! ## non-vacuity -/
section Example

/-- `script A { if (flag(F)) { msgbox("Hi") } }` and `movement M { walk_up * 2 face_down }` (P2's `exA`, `exM`) -/
def exFile2 : List STop := [P2.exA, P2.exM]

def exSrc2 : String :=
  "script A { if ( flag ( F ) ) { msgbox ( \"Hi\" ) } } movement M { walk_up * 2 face_down }"

theorem exFile2_wf : TWF exFile2 := by decide
theorem exFile2_ok : ∀ t ∈ printTops exFile2, TokOK t := by decide +kernel
theorem exFile2_adj : AdjOK (printTops exFile2) := by decide
theorem exSrc2_eq : L1.render (printTops exFile2) = exSrc2 := by decide +kernel

/-- `retok_tops` on the example: any 22 token records with the text of the file are the print of a file of
the same shape. -/
example (l : List Tok) (h : SameText l (printTops exFile2)) :
    ∃ ts', printTops ts' = l ∧ SameShape ts' exFile2 ∧ TWF ts' := by
  obtain ⟨ts', h1, h2, h3⟩ := retok_tops exFile2 l h
  exact ⟨ts', h1, h2, h3 exFile2_wf⟩

/-- **The source text of the two-statement file, lexed, parsed and compiled — by the theorem**: the model's
`compile` on the text is the reference compilation of a file of the same shape. -/
example (env : Env) (o : Opts) :
    ∃ ts' eof, SameShape ts' exFile2 ∧ TWF ts' ∧ eof.type = .EOF ∧
      compile env o exSrc2.toList =
        match toResult (linesOf (compileFile env o eof ts')) with
        | .ok ls => .ok (Emit.render ls)
        | .error r => r := by
  have h := compile_source_text env o exFile2 exFile2_wf exFile2_ok exFile2_adj
  rw [exSrc2_eq] at h
  exact h

-- direct evaluation (not a proof): the model's `compile` on the text gives the text of the reference
-- compilation of the ORIGINAL tree (markers off: positions do not show)
#guard (match compile {} P2.exO exSrc2.toList, compileFile {} P2.exO P2.eofT exFile2 with
  | .ok text, .ok S => text == Emit.render S.lines
  | _, _ => false)
#guard (match compile {} P2.exO exSrc2.toList with
  | .ok text => text == "A::\n\tgoto A_2\n\nA_1:\n\tmsgbox A_Text_0\n\treturn\n\nA_2:\n\tgoto_if_set F, A_1\n\treturn\n\n\nM:\n\twalk_up\n\twalk_up\n\tface_down\n\tstep_end\n\nA_Text_0:\n\t.string \"Hi$\"\n"
  | _ => false)

/-- the reference compilation of the ORIGINAL tree (all positions zero) -/
theorem exFile2_compiled :
    compileFile {} P2.exO P2.eofT exFile2 = .ok { tops := [P2.linesA, P2.linesM], inl := [P2.linesT] } :=
  P2.toOption_some (by decide)

/-- **`compile` on the source text, by the theorems** (lexer + parser + emitter of the model, no evaluation of
the lexer or parser): the rendered lines of the reference compilation of the original tree, although the
lexer's records carry other positions than the tree's. -/
example :
    compile {} P2.exO exSrc2.toList =
      .ok (Emit.render (Sections.lines { tops := [P2.linesA, P2.linesM], inl := [P2.linesT] })) := by
  have h := compile_source_text_ok {} P2.exO rfl exFile2 exFile2_wf exFile2_ok exFile2_adj P2.eofT rfl _
    exFile2_compiled
  rw [exSrc2_eq] at h
  exact h

/-- `compile_retok` on two decorations of the same file: `script X { break }` with P2's positions and without. -/
example :
    peC (linesOf (compileFile {} P2.exO P2.eofT [P2.exBad])) =
      peC (linesOf (compileFile {} P2.exO P2.eofT [eTop P2.exBad])) :=
  compile_retok {} P2.exO rfl (ts' := [P2.exBad]) (ts := [eTop P2.exBad]) (by unfold SameShape; rfl) (by decide) _ _ rfl rfl

/-- **a located error from source text**: `script X { break }` is rejected with the message of the reference
elaboration (the located error of the tree, up to positions). -/
example :
    ∃ e', compileLines {} P2.exO "script X { break }".toList = toResult (.error e') ∧
      peCErr e' = .parse (pePFail (newParseError (tk .BREAK "break")
        "'break' statement outside of any break-able scope")) := by
  have hsrc : L1.render (printTops [P2.exBad]) = "script X { break }" := by decide +kernel
  obtain ⟨e', h1, h2⟩ := compile_source_error {} P2.exO rfl [P2.exBad] (by decide) (by decide +kernel) (by decide)
    P2.eofT rfl (.parse (newParseError (tkp ⟨3, 2, 2, 3, 7, 7⟩ .BREAK "break")
      "'break' statement outside of any break-able scope")) rfl
  rw [hsrc] at h1
  exact ⟨e', h1, h2⟩

#guard (match compile {} P2.exO "script X { break }".toList with
  | .parseError e => e.msg == "'break' statement outside of any break-able scope" && e.lineStart == 1
  | _ => false)

/-- **independence_source** on the texts of `[exA]` and `[exM]`. -/
example (L : List Line) :
    compileLines {} P2.exO (L1.render (printTops ([P2.exA] ++ [P2.exM]))).toList = .ok L ↔
      ∃ S1 S2, compileLines {} P2.exO (L1.render (printTops [P2.exA])).toList = .ok S1.lines ∧
        compileLines {} P2.exO (L1.render (printTops [P2.exM])).toList = .ok S2.lines ∧
        compileFile {} P2.exO P2.eofT [P2.exA] = .ok S1 ∧ compileFile {} P2.exO P2.eofT [P2.exM] = .ok S2 ∧
        L = (S1.append S2).lines :=
  independence_source {} P2.exO rfl P2.eofT rfl [P2.exA] [P2.exM] (by decide) (by decide) (by decide)
    (by decide +kernel) (by decide) (by decide +kernel) (by decide) exFile2_ok exFile2_adj (by decide) L

/-! #### files with `mapscripts` (P2b's example: a script and a `mapscripts` statement with an inline script and a
table with an inline row) -/

def exSrcMS : String :=
  "script A { if ( flag ( F ) ) { msgbox ( \"Hi\" ) } } mapscripts M { MAP_SCRIPT_ON_LOAD : OnLoad " ++
  "MAP_SCRIPT_ON_TRANSITION { msgbox ( \"Yo\" ) } MAP_SCRIPT_ON_FRAME_TABLE [ VAR_A , 1 : Frame1 VAR_B , 2 { foo } ] }"

theorem exSrcMS_eq : L1.render (P2b.printTopsM P2b.exFile) = exSrcMS := by decide +kernel

/-- `compile` on the source text of the file with `mapscripts`, by the theorems: the lines of P2b's reference
compilation. -/
example :
    compileLines {} P2b.exO exSrcMS.toList =
      .ok (Sections.lines { tops := [P2b.linesA, P2b.linesMS], inl := [P2b.linesTA, P2b.linesTM] }) := by
  have h := (compile_source_ok_ms {} P2b.exO rfl P2b.exFile P2b.exFile_wf (by decide +kernel) (by decide)
    P2b.eofT rfl _).2 (by rw [P2b.exFile_compiled]; rfl)
  rw [exSrcMS_eq] at h
  exact h

#guard (match compile {} P2b.exO exSrcMS.toList with
  | .ok text => text == Emit.render (Sections.lines
      { tops := [P2b.linesA, P2b.linesMS], inl := [P2b.linesTA, P2b.linesTM] })
  | _ => false)

/-! #### the completed grammar (P2d's example: raw, a movement and a mart with nested poryswitches, a text
poryswitch with `format()`; switches `GAME=EMERALD, LANG=DE`) -/

theorem exFileA_ok : ∀ t ∈ P2d.printTopsP P2d.exFileA, TokOK t := by decide +kernel
theorem exFileA_adj : AdjOK (P2d.printTopsP P2d.exFileA) := by decide

/-- The model's pipeline on the SOURCE TEXT of P2d's four-statement file, by the theorems: the lines of the
reference compilation (`P2d.exFileA_compiled_1`). -/
example :
    compileLines P2d.env1 P2d.exO (L1.render (P2d.printTopsP P2d.exFileA)).toList =
      .ok (Sections.lines { tops := [P2d.linesR, P2d.linesM1, P2d.linesS], stm := [P2d.linesT1] }) :=
  (compile_source_ok_ps P2d.env1 P2d.exO rfl P2d.exFileA (by decide) exFileA_ok exFileA_adj P2d.eofT rfl _).2
    (by rw [P2d.exFileA_compiled_1]; rfl)

#guard (match compile P2d.env1 P2d.exO (L1.render (P2d.printTopsP P2d.exFileA)).toList with
  | .ok text => text == Emit.render (Sections.lines
      { tops := [P2d.linesR, P2d.linesM1, P2d.linesS], stm := [P2d.linesT1] })
  | _ => false)

end Example

#print axioms retok_stmts
#print axioms retok_tops
#print axioms lex_file
#print axioms parse_source
#print axioms compile_source
#print axioms compile_source_text
#print axioms elab_retok
#print axioms compile_retok
#print axioms compile_retok_ok
#print axioms compile_source_ok
#print axioms compile_source_error
#print axioms compile_source_text_ok
#print axioms independence_source
#print axioms compile_source_ms
#print axioms compile_retok_ms
#print axioms compile_source_ok_ms
#print axioms compile_source_error_ms
#print axioms independence_source_ms
#print axioms retok_topsM
#print axioms compile_source_ps
#print axioms compile_retok_ps
#print axioms compile_source_ok_ps
#print axioms compile_source_error_ps
#print axioms independence_source_ps
#print axioms retok_topsP
#print axioms emitProgram_pe
#print axioms elabFile_eTop

end Pory.L2
