import PorySpec.LeafSem
/-
C02 — conditions branch on the value of the written boolean expression.

Proved here (about the model; the tables come from the facts regenerated from /repo):
* the De Morgan table `getNegatedBooleanOperator` is an involution, is semantically a negation
  on the six comparison operators, swaps `&&` / `||`, keeps leaves well formed;
* every leaf form renders to lines that jump exactly when the leaf's documented meaning holds
  (`leaf_rendering_sound`), the opcode table maps every operator to the mnemonic with that
  meaning, and the Go format strings of the test lines are the ones the model renders.
The precedence / short-circuit theorems are in `PoryProofs/BoolParse.lean` and
`PoryProofs/CondChunks.lean` (imported by C02b when present).
-/
namespace Pory.C02
open Pory Pory.Parser Pory.Emit Pory.Spec

theorem negation_involutive (op : TT) :
    getNegatedBooleanOperator (getNegatedBooleanOperator op) = op := by
  cases op <;> rfl

theorem negation_table :
    getNegatedBooleanOperator .EQ = .NEQ ∧ getNegatedBooleanOperator .NEQ = .EQ ∧
    getNegatedBooleanOperator .LT = .GTE ∧ getNegatedBooleanOperator .GT = .LTE ∧
    getNegatedBooleanOperator .LTE = .GT ∧ getNegatedBooleanOperator .GTE = .LT := by decide

theorem negation_sound (op : TT) (h : isCmpOp op = true) (d : Int) :
    cmpHolds (getNegatedBooleanOperator op) d = !cmpHolds op d := by
  obtain ⟨t1, t2, t3, t4, t5, t6⟩ := negation_table
  cases op <;> first | (exact absurd h (by decide)) | skip
  all_goals simp only [t1, t2, t3, t4, t5, t6, cmpHolds]
  all_goals first | (simp [bne]; done) | (rw [Bool.eq_iff_iff]; simp; omega) | (rw [Bool.eq_iff_iff]; simp)

theorem negation_swaps_connectives :
    getNegatedBooleanOperator .AND = .OR ∧ getNegatedBooleanOperator .OR = .AND := by decide

theorem negation_preserves_cmp (op : TT) (h : isCmpOp op = true) :
    isCmpOp (getNegatedBooleanOperator op) = true := by
  cases op <;> first | (exact absurd h (by decide)) | rfl

/-- Every entry of the generated opcode table names the mnemonic with that meaning. -/
theorem opcode_table_sound :
    ∀ p ∈ Facts.varCompareOpcode, mnemonicMeaning p.2 = some p.1 := by decide

theorem opcode_table_complete (op : TT) (h : isCmpOp op = true) :
    (Facts.varCompareOpcode.lookup op).isSome = true := by
  cases op <;> first | (exact absurd h (by decide)) | rfl

theorem marker_exec (w : World) (h : Hist) (o : Opts) (t : Tok) (r : List Line) (g : Regs) :
    execTest w h (marker o t ++ r) g = execTest w h r g := by
  unfold marker; split <;> simp [execTest]

/-- The lines a leaf is rendered to jump to the truthy chunk iff the leaf's documented
meaning holds, for every leaf form, every world and every history. -/
theorem leaf_rendering_sound (w : World) (h : Hist) (o : Opts) (name : String) (truthy : Nat)
    (e : OpExpr) (wf : WellFormedLeaf e) :
    execTest w h (renderBranchComparison o name truthy e) {} =
      if leafHolds w h e then some (jumpLabel name truthy) else none := by
  have b1 : (TT.FALSE.str == TT.TRUE.str) = false := by decide
  have b2 : (TT.TRUE.str == TT.FALSE.str) = false := by decide
  have b3 : (TT.EQ == TT.NEQ) = false := by decide
  have b4 : (TT.NEQ == TT.EQ) = false := by decide
  unfold renderBranchComparison
  rw [marker_exec]
  rcases wf with ⟨ht, hop⟩ | ⟨ht, hop, hv⟩
  · simp [ht, leafHolds, opcode_table_complete _ hop, execTest]
  · rcases ht with ht | ht <;> rcases hop with hop | hop <;> rcases hv with hv | hv <;>
      simp [ht, hop, hv, leafHolds, execTest, b1, b2, b3, b4]

/-- The Go `Sprintf` formats of the test lines are the texts `Line.render` produces. -/
theorem format_strings_tie :
    Facts.flagSetFmt = "\tgoto_if_set %s, %s_%d\n" ∧ Facts.flagUnsetFmt = "\tgoto_if_unset %s, %s_%d\n" ∧
    Facts.checkTrainerFmt = "\tchecktrainerflag %s\n" ∧ Facts.trainerSetFmt = "\tgoto_if 1, %s_%d\n" ∧
    Facts.trainerUnsetFmt = "\tgoto_if 0, %s_%d\n" ∧
    Facts.compareCommand = "compare" ∧ Facts.compareStrictCommand = "compare_var_to_value" := by decide

/-- Non-vacuity: a parsed leaf `flag(A) == FALSE` is well formed and renders to `goto_if_unset`. -/
example : WellFormedLeaf { type := .FLAG, operator := .EQ, cmpValue := "FALSE", operand := { lit := "A" } } ∧
    renderBranchComparison {} "S" 2 { type := .FLAG, operator := .EQ, cmpValue := "FALSE", operand := { lit := "A" } }
      = [.gotoIfUnset "A" "S_2"] := by
  constructor
  · right; exact ⟨Or.inl rfl, Or.inl rfl, Or.inr (by decide)⟩
  · decide

end Pory.C02
