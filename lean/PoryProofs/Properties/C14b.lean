import PoryProofs.ListParse
import PoryProofs.ListSwitch
/-
C14 (parser half) — "A movement block emits its steps in source order with `step * N` expanded to
exactly N copies …; multipliers outside 1..9999 are rejected" — for the parser model
`parseListValue` (`parseMovementValue` / `parseMartValue` of parser.go), lists WITHOUT poryswitch.

Proved (all for every fuel ≥ the stated bound, every accumulator, every surrounding parser state,
every assignment of token positions / literals):
* `parse_movement_list`   : parse ∘ print = expansion, for closing token `}` (movement statement)
                            or `)` (`moves(...)`); the state is untouched except that the token
                            window now starts at the closing token;
* `parse_moves_operator`  : the same through `parseMovesOperator` (`moves ( … )`);
* `expand_*`              : what the expansion is (`step * N` = `List.replicate N step`, commas
                            vanish, concatenation in source order);
* `bad_multiplier_rejected` (+ the three cases `…_unparsable`, `…_nonpositive`, `…_too_large`):
                            the first bad multiplier ends the parse with an error located on the
                            multiplier token, with Go's message;
* `missing_multiplier_rejected`, `movement_bad_token_rejected`: the other two error exits;
* `parse_mart_list`, `mart_bad_token_rejected` (a comma in particular) for mart lists;
* `parseInt_*` (in `PoryProofs/ListParse.lean`): decide-checked facts on the base-0 literal rules.

* `parse_movement_list_switch` : the FULL movement-list statement, for lists that may contain
  (nested) `poryswitch (X) { V: elem … V { elems } … }` elements (`Items` / `expItems env` of
  `PoryProofs/ListSwitch.lean`): the selected case (`env.switches`, fallback `_`, a later case
  overrides an earlier one of the same name) is spliced in place, in source order; every case body
  is parsed (so all of them must be well-formed). `parse_movement_list` is its poryswitch-free
  instance (`parse_movement_list_of_switch`).

Scope of the rejection theorems and of the mart theorems: lists without poryswitch elements.
-/
namespace Pory.C14b
open Pory Pory.Parser Pory.C02P

/-! ### what the expansion is -/

theorem expand_nil : expand [] = some [] := rfl

theorem expand_step (n : Tok) : expand [.step n] = some [n] := rfl

theorem expand_comma (t : Tok) : expand [.comma t] = some [] := rfl

/-- `step * N` is exactly N copies of the step token, when N is a base-0 literal in 1..9999. -/
theorem expand_stepMul (n s m : Tok) (k : Nat) (hk : mulCheck m.lit = .ok k) :
    expand [.stepMul n s m] = some (List.replicate k n) ∧ 1 ≤ k ∧ k ≤ 9999 := by
  refine ⟨?_, mulCheck_range _ _ hk⟩
  simp [expand, Item.expand, mulOf, hk]

/-- … and nothing else is accepted. -/
theorem expand_stepMul_bad (n s m : Tok) (e : MulErr) (he : mulCheck m.lit = .error e) :
    expand [.stepMul n s m] = none := by
  simp [expand, Item.expand, mulOf, he]

/-- Source order: the expansion of a concatenation is the concatenation of the expansions. -/
theorem expand_append (a b : List Item) :
    expand (a ++ b) =
      match expand a, expand b with
      | some x, some y => some (x ++ y)
      | _, _ => none := by
  induction a with
  | nil => simp only [List.nil_append, expand]; cases expand b <;> rfl
  | cons i r ih =>
    simp only [List.cons_append, expand, ih]
    cases i.expand <;> cases expand r <;> cases expand b <;> simp

theorem expand_cons_some (i : Item) (r : List Item) (a b : List Tok) (hi : i.expand = some a)
    (hr : expand r = some b) : expand (i :: r) = some (a ++ b) := by
  simp [expand, hi, hr]

/-- Every emitted step is one of the written step tokens (nothing invented). -/
theorem expand_mem (items : List Item) (out : List Tok) (h : expand items = some out) (t : Tok)
    (ht : t ∈ out) : ∃ i ∈ items, i = .step t ∨ ∃ s m, i = .stepMul t s m := by
  induction items generalizing out with
  | nil => simp [expand] at h; subst h; simp at ht
  | cons i r ih =>
    unfold expand at h
    cases hie : i.expand with
    | none => simp [hie] at h
    | some a =>
      cases hre : expand r with
      | none => simp [hie, hre] at h
      | some b =>
        simp [hie, hre] at h; subst h
        rcases List.mem_append.mp ht with ht | ht
        · refine ⟨i, by simp, ?_⟩
          cases i with
          | step n => simp [Item.expand] at hie; subst hie; simp at ht; subst ht; simp
          | stepMul n s m =>
            simp only [Item.expand] at hie
            cases hm : mulOf m.lit with
            | none => simp [hm] at hie
            | some k =>
              simp [hm] at hie; subst hie
              have := (List.mem_replicate.mp ht).2; subst this; simp
          | comma c => simp [Item.expand] at hie; subst hie; simp at ht
        · obtain ⟨j, hj, hh⟩ := ih b hre ht
          exact ⟨j, by simp [hj], hh⟩

/-! ### parse ∘ print -/

/-- The general form: any closing token type other than IDENT / COMMA / MUL, one unit of fuel
per item plus one. -/
theorem parse_movement_list_gen (env : Env) (closing : TT) (h1 : closing ≠ .IDENT)
    (h2 : closing ≠ .COMMA) (h3 : closing ≠ .MUL) (s : PState) (items : List Item) (close : Tok)
    (rest : List Tok) (hwf : ∀ i ∈ items, i.WF) (hclose : close.type = closing)
    (out : List Tok) (hex : expand items = some out) (acc : List Tok) (fuel : Nat)
    (hf : items.length + 1 ≤ fuel) :
    (parseListValue env (.movement closing) true fuel acc).run
        (st s (printItems items ++ close :: rest)) =
      .ok (acc ++ out, st s (close :: rest)) := by
  obtain ⟨f, rfl⟩ : ∃ f, fuel = items.length + (f + 1) := ⟨fuel - items.length - 1, by omega⟩
  rw [parse_prefix env closing s h1 h2 items close rest (by rw [hclose]; exact h3) hwf out hex acc,
    plv_close env closing f _ s close rest hclose]

/-- **C14, parser half.** For a movement list whose multipliers are all valid, printed and
followed by its closing token (`}` of a movement statement or `)` of `moves(…)`) and anything
else, the parser returns the accumulator extended by the expansion (source order, `step * N` ↦ N
copies, commas dropped) and stops with the closing token as current token; nothing else in the
state changes. Fuel: number of printed tokens + 1 is enough. -/
theorem parse_movement_list (env : Env) (closing : TT) (hcl : closing = .RBRACE ∨ closing = .RPAREN)
    (s : PState) (items : List Item) (close : Tok) (rest : List Tok)
    (hwf : ∀ i ∈ items, i.WF) (hclose : close.type = closing)
    (out : List Tok) (hex : expand items = some out) (acc : List Tok) (fuel : Nat)
    (hf : (printItems items).length + 1 ≤ fuel) :
    (parseListValue env (.movement closing) true fuel acc).run
        (st s (printItems items ++ close :: rest)) =
      .ok (acc ++ out, st s (close :: rest)) := by
  have := length_le_printItems items
  rcases hcl with rfl | rfl <;>
    exact parse_movement_list_gen env _ (by decide) (by decide) (by decide) s items close rest hwf
      hclose out hex acc fuel (by omega)

/-- The same, phrased on an arbitrary state whose token window is the printed list. -/
theorem parse_movement_list_state (env : Env) (closing : TT)
    (hcl : closing = .RBRACE ∨ closing = .RPAREN) (s : PState) (items : List Item) (close : Tok)
    (rest : List Tok) (hs : s.toks = printItems items ++ close :: rest)
    (hwf : ∀ i ∈ items, i.WF) (hclose : close.type = closing)
    (out : List Tok) (hex : expand items = some out) (fuel : Nat)
    (hf : (printItems items).length + 1 ≤ fuel) :
    (parseListValue env (.movement closing) true fuel []).run s =
      .ok (out, { s with toks := close :: rest }) := by
  have := parse_movement_list env closing hcl s items close rest hwf hclose out hex [] fuel hf
  rw [← hs, st_self] at this
  simpa [st] using this

/-- `moves ( … )`: current token `moves`, then `(`, the list, `)`. Stops on the `)`. -/
theorem parse_moves_operator (env : Env) (s : PState) (mv lp : Tok) (items : List Item) (rp : Tok)
    (rest : List Tok) (hlp : lp.type = .LPAREN) (hrp : rp.type = .RPAREN)
    (hwf : ∀ i ∈ items, i.WF) (out : List Tok) (hex : expand items = some out) (fuel : Nat)
    (hf : (printItems items).length + 1 ≤ fuel) :
    (parseMovesOperator env fuel).run (st s (mv :: lp :: (printItems items ++ rp :: rest))) =
      .ok (out, st s (rp :: rest)) := by
  have := parse_movement_list env .RPAREN (Or.inr rfl) s items rp rest hwf hrp out hex [] fuel hf
  unfold parseMovesOperator
  simp [hlp, this]

/-! ### lists with poryswitch elements -/

/-- **C14, parser half, full syntax.** As `parse_movement_list`, for lists whose elements may be
(nested) poryswitch statements. Fuel: number of printed tokens + 1. -/
theorem parse_movement_list_switch (env : Env) (closing : TT)
    (hcl : closing = .RBRACE ∨ closing = .RPAREN) (s : PState) (items : Items) (close : Tok)
    (rest : List Tok) (hwf : wfItems env items) (hclose : close.type = closing)
    (out : List Tok) (hex : expItems env items = some out) (acc : List Tok) (fuel : Nat)
    (hf : items.toks.length + 1 ≤ fuel) :
    (parseListValue env (.movement closing) true fuel acc).run
        (st s (items.toks ++ close :: rest)) =
      .ok (acc ++ out, st s (close :: rest)) := by
  have := needItems_le items
  have hg : GoodClosing closing := by
    rcases hcl with rfl | rfl
    · exact good_rbrace
    · exact good_rparen
  exact itemsP env s items closing hg acc close rest hclose hwf out hex fuel (by omega)

/-- The poryswitch-free theorem is an instance of the full one. -/
theorem parse_movement_list_of_switch (env : Env) (closing : TT)
    (hcl : closing = .RBRACE ∨ closing = .RPAREN) (s : PState) (items : List Item) (close : Tok)
    (rest : List Tok) (hwf : ∀ i ∈ items, i.WF) (hclose : close.type = closing)
    (out : List Tok) (hex : expand items = some out) (acc : List Tok) (fuel : Nat)
    (hf : (printItems items).length + 1 ≤ fuel) :
    (parseListValue env (.movement closing) true fuel acc).run
        (st s (printItems items ++ close :: rest)) =
      .ok (acc ++ out, st s (close :: rest)) := by
  have := parse_movement_list_switch env closing hcl s (Items.ofList items) close rest
    (Items.ofList_wf env items hwf) hclose out (by rw [Items.ofList_exp]; exact hex) acc fuel
    (by rw [Items.ofList_toks]; exact hf)
  rwa [Items.ofList_toks] at this

/-- What a poryswitch element denotes: with the case table `cs` (newest first) of its cases, the
entry for the switch value, else the entry for `_`, else nothing (lint mode) / an error. -/
theorem expItem_sw (env : Env) (psw lp x rp lb rb : Tok) (cases : Cases)
    (cs : List (String × List Tok)) (h : expCases env cases [] = some cs) :
    expItem env (.sw psw lp x rp lb cases rb) = selectCase env x.lit cs := by
  simp [expItem, h]

/-! ### rejected multipliers -/

theorem mulErrMsg_unparsable (lit : String) (e : IntErr) :
    mulErrMsg lit (.unparsable e) =
      s!"invalid movement mulplier integer '{lit}': {parseIntErrMsg lit e}" := rfl
theorem mulErrMsg_nonPositive (lit : String) :
    mulErrMsg lit .nonPositive =
      s!"movement mulplier must be a positive integer, but got '{lit}' instead" := rfl
theorem mulErrMsg_tooLarge (lit : String) :
    mulErrMsg lit .tooLarge = s!"movement mulplier '{lit}' is too large. Maximum is {9999}" := rfl

/-- The classification of a literal is what the three Go tests say. -/
theorem mulCheck_error_iff (lit : String) (e : MulErr) :
    mulCheck lit = .error e ↔
      (∃ v ie, parseInt lit = (v, some ie) ∧ e = .unparsable ie) ∨
      (∃ v, parseInt lit = (v, none) ∧ v ≤ 0 ∧ e = .nonPositive) ∨
      (∃ v, parseInt lit = (v, none) ∧ 9999 < v ∧ e = .tooLarge) := by
  unfold mulCheck
  rcases h : parseInt lit with ⟨n, _ | ie⟩
  · by_cases h0 : n ≤ 0
    · simp only [h0, ite_true]
      constructor
      · intro he; injection he with he; exact Or.inr (Or.inl ⟨n, rfl, h0, he.symm⟩)
      · rintro (⟨v, ie, hp, -⟩ | ⟨v, hp, hv, rfl⟩ | ⟨v, hp, hv, rfl⟩)
        · cases hp
        · rfl
        · cases hp; omega
    · by_cases h1 : 9999 < n
      · simp only [h0, h1, ite_true, ite_false]
        constructor
        · intro he; injection he with he; exact Or.inr (Or.inr ⟨n, rfl, h1, he.symm⟩)
        · rintro (⟨v, ie, hp, -⟩ | ⟨v, hp, hv, rfl⟩ | ⟨v, hp, hv, rfl⟩)
          · cases hp
          · cases hp; omega
          · rfl
      · simp only [h0, h1, ite_false]
        constructor
        · intro he; cases he
        · rintro (⟨v, ie, hp, -⟩ | ⟨v, hp, hv, rfl⟩ | ⟨v, hp, hv, rfl⟩)
          · cases hp
          · cases hp; omega
          · cases hp; omega
  · dsimp only
    constructor
    · intro he; injection he with he; exact Or.inl ⟨n, ie, rfl, he.symm⟩
    · rintro (⟨v, ie', hp, rfl⟩ | ⟨v, hp, hv, rfl⟩ | ⟨v, hp, hv, rfl⟩)
      · cases hp; rfl
      · cases hp
      · cases hp

/-- **C14, rejection.** If the items before `name * num` are fine and `num` is not a valid
multiplier, the parse fails with Go's message for that case, located on the multiplier token
(whatever follows). Fuel: number of items before + 1. -/
theorem bad_multiplier_rejected (env : Env) (closing : TT)
    (hcl : closing = .RBRACE ∨ closing = .RPAREN) (s : PState) (pre : List Item)
    (name star num : Tok) (tail : List Tok) (hwf : ∀ i ∈ pre, i.WF)
    (hbad : (Item.stepMul name star num).WF) (out : List Tok) (hex : expand pre = some out)
    (e : MulErr) (he : mulCheck num.lit = .error e) (acc : List Tok) (fuel : Nat)
    (hf : pre.length + 1 ≤ fuel) :
    (parseListValue env (.movement closing) true fuel acc).run
        (st s (printItems pre ++ name :: star :: num :: tail)) =
      .error (newParseError num (mulErrMsg num.lit e)) := by
  obtain ⟨f, rfl⟩ : ∃ f, fuel = pre.length + (f + 1) := ⟨fuel - pre.length - 1, by omega⟩
  obtain ⟨hn, hs, hm⟩ := hbad
  have hc1 : closing ≠ .IDENT := by rcases hcl with rfl | rfl <;> decide
  have hc2 : closing ≠ .COMMA := by rcases hcl with rfl | rfl <;> decide
  rw [parse_prefix env closing s hc1 hc2 pre name _ (by simp [hn]) hwf out hex acc,
    plv_mul_bad env closing f _ s name star num tail e hn hs hm hc1 he]

/-- In terms of the whole item list: `items = pre ++ stepMul … :: post`, `post` arbitrary. -/
theorem bad_multiplier_rejected_items (env : Env) (closing : TT)
    (hcl : closing = .RBRACE ∨ closing = .RPAREN) (s : PState) (pre post : List Item)
    (name star num : Tok) (rest : List Tok) (hwf : ∀ i ∈ pre, i.WF)
    (hbad : (Item.stepMul name star num).WF) (out : List Tok) (hex : expand pre = some out)
    (e : MulErr) (he : mulCheck num.lit = .error e) (acc : List Tok) (fuel : Nat)
    (hf : pre.length + 1 ≤ fuel) :
    (parseListValue env (.movement closing) true fuel acc).run
        (st s (printItems (pre ++ .stepMul name star num :: post) ++ rest)) =
      .error (newParseError num (mulErrMsg num.lit e)) ∧
    expand (pre ++ .stepMul name star num :: post) = none := by
  constructor
  · have := bad_multiplier_rejected env closing hcl s pre name star num (printItems post ++ rest) hwf
      hbad out hex e he acc fuel hf
    simpa [printItems_append, printItems, Item.toks] using this
  · rw [expand_append]
    have : expand (Item.stepMul name star num :: post) = none := by
      simp [expand, Item.expand, mulOf, he]
    simp [this]

section cases_
variable (env : Env) (closing : TT) (hcl : closing = .RBRACE ∨ closing = .RPAREN) (s : PState)
  (pre : List Item) (name star num : Tok) (tail : List Tok) (hwf : ∀ i ∈ pre, i.WF)
  (hbad : (Item.stepMul name star num).WF) (out : List Tok) (hex : expand pre = some out)
  (acc : List Tok) (fuel : Nat) (hf : pre.length + 1 ≤ fuel)
include hcl hwf hbad hex hf

/-- case 1: the literal does not parse with Go's base-0 rules (syntax or 64-bit range). -/
theorem bad_multiplier_unparsable (v : Int) (ie : IntErr) (hp : parseInt num.lit = (v, some ie)) :
    (parseListValue env (.movement closing) true fuel acc).run
        (st s (printItems pre ++ name :: star :: num :: tail)) =
      .error (newParseError num
        s!"invalid movement mulplier integer '{num.lit}': {parseIntErrMsg num.lit ie}") :=
  bad_multiplier_rejected env closing hcl s pre name star num tail hwf hbad out hex _
    ((mulCheck_error_iff _ _).mpr (Or.inl ⟨v, ie, hp, rfl⟩)) acc fuel hf

/-- case 2: the value is ≤ 0. -/
theorem bad_multiplier_nonpositive (v : Int) (hp : parseInt num.lit = (v, none)) (hv : v ≤ 0) :
    (parseListValue env (.movement closing) true fuel acc).run
        (st s (printItems pre ++ name :: star :: num :: tail)) =
      .error (newParseError num
        s!"movement mulplier must be a positive integer, but got '{num.lit}' instead") :=
  bad_multiplier_rejected env closing hcl s pre name star num tail hwf hbad out hex _
    ((mulCheck_error_iff _ _).mpr (Or.inr (Or.inl ⟨v, hp, hv, rfl⟩))) acc fuel hf

/-- case 3: the value is > 9999. -/
theorem bad_multiplier_too_large (v : Int) (hp : parseInt num.lit = (v, none)) (hv : 9999 < v) :
    (parseListValue env (.movement closing) true fuel acc).run
        (st s (printItems pre ++ name :: star :: num :: tail)) =
      .error (newParseError num
        s!"movement mulplier '{num.lit}' is too large. Maximum is {9999}") :=
  bad_multiplier_rejected env closing hcl s pre name star num tail hwf hbad out hex _
    ((mulCheck_error_iff _ _).mpr (Or.inr (Or.inr ⟨v, hp, hv, rfl⟩))) acc fuel hf

omit hbad in
/-- `name *` not followed by an INT token. -/
theorem missing_multiplier_rejected (hn : name.type = .IDENT) (hs : star.type = .MUL)
    (hm : num.type ≠ .INT) :
    (parseListValue env (.movement closing) true fuel acc).run
        (st s (printItems pre ++ name :: star :: num :: tail)) =
      .error (newParseError num
        s!"expected mulplier number for movement command, but got '{num.lit}' instead") := by
  obtain ⟨f, rfl⟩ : ∃ f, fuel = pre.length + (f + 1) := ⟨fuel - pre.length - 1, by omega⟩
  have hc1 : closing ≠ .IDENT := by rcases hcl with rfl | rfl <;> decide
  have hc2 : closing ≠ .COMMA := by rcases hcl with rfl | rfl <;> decide
  rw [parse_prefix env closing s hc1 hc2 pre name _ (by simp [hn]) hwf out hex acc,
    plv_mul_noint env closing f _ s name star num tail hn hs hm hc1]

end cases_

/-- A token that cannot start a list element (not the closing token, IDENT, `,`, `poryswitch`,
and not `*`, which can only follow a step) is rejected, located on that token. -/
theorem movement_bad_token_rejected (env : Env) (closing : TT)
    (hcl : closing = .RBRACE ∨ closing = .RPAREN) (s : PState) (pre : List Item) (c : Tok)
    (tail : List Tok) (hwf : ∀ i ∈ pre, i.WF) (out : List Tok) (hex : expand pre = some out)
    (h1 : c.type ≠ closing) (h2 : c.type ≠ .IDENT) (h3 : c.type ≠ .COMMA)
    (h4 : c.type ≠ .PORYSWITCH) (h5 : c.type ≠ .MUL) (acc : List Tok) (fuel : Nat)
    (hf : pre.length + 1 ≤ fuel) :
    (parseListValue env (.movement closing) true fuel acc).run (st s (printItems pre ++ c :: tail)) =
      .error (newParseError c s!"expected movement command, but got '{c.lit}' instead") := by
  obtain ⟨f, rfl⟩ : ∃ f, fuel = pre.length + (f + 1) := ⟨fuel - pre.length - 1, by omega⟩
  have hc1 : closing ≠ .IDENT := by rcases hcl with rfl | rfl <;> decide
  have hc2 : closing ≠ .COMMA := by rcases hcl with rfl | rfl <;> decide
  rw [parse_prefix env closing s hc1 hc2 pre c _ h5 hwf out hex acc,
    plv_other env closing f _ s c tail h1 h2 h3 h4]

/-! ### mart lists -/

/-- **C14, mart analogue.** A mart list is a sequence of IDENT tokens up to `}`; the parser
returns exactly these tokens in order. -/
theorem parse_mart_list (env : Env) (s : PState) (items : List Tok) (close : Tok) (rest : List Tok)
    (hi : ∀ t ∈ items, t.type = .IDENT) (hclose : close.type = .RBRACE) (acc : List Tok) (fuel : Nat)
    (hf : items.length + 1 ≤ fuel) :
    (parseListValue env .mart true fuel acc).run (st s (items ++ close :: rest)) =
      .ok (acc ++ items, st s (close :: rest)) := by
  obtain ⟨f, rfl⟩ : ∃ f, fuel = items.length + (f + 1) := ⟨fuel - items.length - 1, by omega⟩
  rw [mart_prefix env s items _ hi acc, pmart_close env f _ s close rest hclose]

/-- Anything that is not an IDENT, `}` or `poryswitch` — a comma in particular — is an error
located on that token. -/
theorem mart_bad_token_rejected (env : Env) (s : PState) (items : List Tok) (c : Tok)
    (tail : List Tok) (hi : ∀ t ∈ items, t.type = .IDENT) (h1 : c.type ≠ .RBRACE)
    (h2 : c.type ≠ .IDENT) (h3 : c.type ≠ .PORYSWITCH) (acc : List Tok) (fuel : Nat)
    (hf : items.length + 1 ≤ fuel) :
    (parseListValue env .mart true fuel acc).run (st s (items ++ c :: tail)) =
      .error (newParseError c s!"expected mart item, but got '{c.lit}' instead") := by
  obtain ⟨f, rfl⟩ : ∃ f, fuel = items.length + (f + 1) := ⟨fuel - items.length - 1, by omega⟩
  rw [mart_prefix env s items _ hi acc, pmart_other env f _ s c tail h1 h2 h3]

theorem mart_comma_rejected (env : Env) (s : PState) (items : List Tok) (c : Tok)
    (tail : List Tok) (hi : ∀ t ∈ items, t.type = .IDENT) (hc : c.type = .COMMA) (acc : List Tok)
    (fuel : Nat) (hf : items.length + 1 ≤ fuel) :
    (parseListValue env .mart true fuel acc).run (st s (items ++ c :: tail)) =
      .error (newParseError c s!"expected mart item, but got '{c.lit}' instead") :=
  mart_bad_token_rejected env s items c tail hi (by simp [hc]) (by simp [hc]) (by simp [hc]) acc fuel hf

/-! ### non-vacuity -/

/-- `walk_up , walk_down * 0x3 face_left * 010 }` -/
def exItems : List Item :=
  [.step (tk .IDENT "walk_up"), .comma (tk .COMMA ","),
   .stepMul (tk .IDENT "walk_down") (tk .MUL "*") (tk .INT "0x3"),
   .stepMul (tk .IDENT "face_left") (tk .MUL "*") (tk .INT "010")]

theorem exItems_wf : ∀ i ∈ exItems, i.WF := by
  intro i hi
  simp [exItems] at hi
  rcases hi with rfl | rfl | rfl | rfl <;> simp [Item.WF]

theorem exItems_expand : expand exItems =
    some ([tk .IDENT "walk_up"] ++ List.replicate 3 (tk .IDENT "walk_down") ++
      List.replicate 8 (tk .IDENT "face_left")) := by decide

example (env : Env) (s : PState) (rest : List Tok) :
    (parseListValue env (.movement .RBRACE) true 9 []).run
        (st s (printItems exItems ++ tk .RBRACE "}" :: rest)) =
      .ok ([tk .IDENT "walk_up"] ++ List.replicate 3 (tk .IDENT "walk_down") ++
        List.replicate 8 (tk .IDENT "face_left"), st s (tk .RBRACE "}" :: rest)) := by
  have := parse_movement_list env .RBRACE (Or.inl rfl) s exItems (tk .RBRACE "}") rest exItems_wf rfl
    _ exItems_expand [] 9 (by decide)
  simpa using this

/-- `walk_up * 10000` — rejected on the token `10000`. -/
example (env : Env) (s : PState) (rest : List Tok) :
    (parseListValue env (.movement .RPAREN) true 1 []).run
        (st s (tk .IDENT "walk_up" :: tk .MUL "*" :: tk .INT "10000" :: rest)) =
      .error (newParseError (tk .INT "10000")
        "movement mulplier '10000' is too large. Maximum is 9999") := by
  have := bad_multiplier_too_large env .RPAREN (Or.inr rfl) s [] (tk .IDENT "walk_up") (tk .MUL "*")
    (tk .INT "10000") rest (by simp) ⟨rfl, rfl, rfl⟩ [] rfl [] 1 (by decide) 10000 (by decide) (by decide)
  exact this.trans (congrArg (fun m => Except.error (newParseError (tk .INT "10000") m)) (by decide))

/-- `walk_up * 0` and `walk_up * 09`. -/
example : mulCheck "0" = .error .nonPositive ∧ mulCheck "09" = .error (.unparsable .syntax) ∧
    mulCheck "-2" = .error .nonPositive := by decide

example (env : Env) (s : PState) (rest : List Tok) :
    (parseListValue env .mart true 3 []).run
        (st s (tk .IDENT "ITEM_A" :: tk .IDENT "ITEM_B" :: tk .RBRACE "}" :: rest)) =
      .ok ([tk .IDENT "ITEM_A", tk .IDENT "ITEM_B"], st s (tk .RBRACE "}" :: rest)) := by
  have := parse_mart_list env s [tk .IDENT "ITEM_A", tk .IDENT "ITEM_B"] (tk .RBRACE "}") rest
    (by simp) rfl [] 3 (by decide)
  simpa using this

/-- `walk_up poryswitch(GAME) { RUBY: walk_left  EMERALD { walk_down * 2 , walk_right }  _: face_up }`
with `-s GAME=EMERALD` -/
def exEnv : Env := { switches := [("GAME", "EMERALD")] }

def exSwitch : Items :=
  .cons (.plain (.step (tk .IDENT "walk_up")))
  (.cons (.sw (tk .PORYSWITCH "poryswitch") (tk .LPAREN "(") (tk .IDENT "GAME") (tk .RPAREN ")")
      (tk .LBRACE "{")
      (.colon (tk .IDENT "RUBY") (tk .COLON ":") (.plain (.step (tk .IDENT "walk_left")))
      (.brace (tk .IDENT "EMERALD") (tk .LBRACE "{")
        (.cons (.plain (.stepMul (tk .IDENT "walk_down") (tk .MUL "*") (tk .INT "2")))
        (.cons (.plain (.comma (tk .COMMA ",")))
        (.cons (.plain (.step (tk .IDENT "walk_right"))) .nil)))
        (tk .RBRACE "}")
      (.colon (tk .IDENT "_") (tk .COLON ":") (.plain (.step (tk .IDENT "face_up"))) .nil)))
      (tk .RBRACE "}"))
  .nil)

theorem exSwitch_exp : expItems exEnv exSwitch =
    some [tk .IDENT "walk_up", tk .IDENT "walk_down", tk .IDENT "walk_down", tk .IDENT "walk_right"] := by
  decide

theorem exSwitch_wf : wfItems exEnv exSwitch := by
  simp [exSwitch, wfItems, wfItem, wfCases, Item.WF, exEnv]

example (s : PState) (rest : List Tok) :
    (parseListValue exEnv (.movement .RBRACE) true 23 []).run
        (st s (exSwitch.toks ++ tk .RBRACE "}" :: rest)) =
      .ok ([tk .IDENT "walk_up", tk .IDENT "walk_down", tk .IDENT "walk_down", tk .IDENT "walk_right"],
        st s (tk .RBRACE "}" :: rest)) := by
  have := parse_movement_list_switch exEnv .RBRACE (Or.inl rfl) s exSwitch (tk .RBRACE "}") rest
    exSwitch_wf rfl _ exSwitch_exp [] 23 (by decide)
  simpa using this

end Pory.C14b
