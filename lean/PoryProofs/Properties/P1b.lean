import PoryProofs.StmtEmbed2
import PoryProofs.StmtParseErr2
import PoryProofs.Properties.C15b
import PoryProofs.Properties.P1
/-
P1b (statement grammar, widened) — "parse ∘ print = elaborate" for script bodies, for the forms
`PoryProofs/Properties/P1.lean` leaves out.

About the model `Pory.Parser.parseBlockStatement` and all 13 functions of the mutually recursive statement block
(PoryModel/ParserStmts.lean), `parseBooleanExpression` / `parseRightSideExpression` / `parseLeafBooleanExpression`
/ `expectPeekVarOrAutoVar`, and `parseCommandStatement` / `cmdArgsLoop` / `parseFormatStringOperator`.

COVERED GRAMMAR (`P1b.SStmt`, PoryProofs/StmtGrammar2.lean) = the grammar of P1 with
  (a) conditions `SCond := BoolGen.GOr CLeaf`: `||` / `&&` / `!( )` / parentheses over leaves that are the
      non-autovar leaves of C02P OR auto-var leaves `[!] cmd [op N]` — anywhere in the expression, also inside
      `!( … )` (P1: one auto-var leaf alone);
  (b) leaves `CLeaf.kw` (`LeafGen.KLeaf`): `[!] flag|defeated|var ( operand… )` with a multi-token operand,
      followed by nothing, `==|!= TRUE|FALSE` (flag / defeated) or `op value` (var), and `CLeaf.autoV`:
      `cmd op value`, where `value` (`LeafGen.CmpVal`) is one or more tokens up to the next `)`, `&&`, `||`, or
      `value( inner… )` with balanced parentheses inside;
  (c) ONE command form `CmdGen.CmdF` for a command statement: `name ( a0 , … )` with arguments of plain tokens,
      balanced parentheses, string literals, typed strings, `moves( … )` AND inline `format( [ty]"…" , params )`
      (`TextValueParse.IElem`), `name ( )`, `name`;
  (d) the same `CmdF` for the command of an auto-var condition leaf and of `switch ( cmd ) { … }`: string /
      `moves` / `format` arguments there, and the bare / `cmd()` forms (the implicit data of such a command is
      part of the implicit data of the `if` / `while` / `do` / `switch` statement, in source order);
  (e) a poryswitch case `key :` without a statement (only possible directly before the closing `}`: anywhere
      else the parser reads the next key as the statement — `colon_case_reads_next_key`).
  All five items of the task are covered.

REFERENCE ELABORATION (`P1b.elabL`, `elabE`, `elaborate`): as in P1 (ids in source order, first violation in
source order wins).  A condition is elaborated by `BoolGen.elabOr`: the tree of `C02P.treeOr` (precedence `!` >
`&&` > `||`, `negated` distributed by De Morgan), the command of the k-th auto-var leaf in SOURCE order gets
the k-th command id, its implicit data is concatenated in source order.  New located errors:
  * an auto-var leaf ANYWHERE in a compound condition whose command is not configured / whose configured
    argument position addresses no argument (the first such leaf in source order; later leaves are not parsed);
  * an inline `format( … )` whose text cannot be formatted (unknown font, environment errors on): the error of
    C07b, located on the font-id token in force (else the text token) — in a command statement, in the command
    of a condition leaf, in the operand of a `switch`.

PROVED (every `env`, script name, start token, surrounding state, tail, fuel ≥ `needL b`,
`needL b ≤ 2 * tokens + 1`):
* `parse_block_elab`, `parse_block_print`, `parse_block_print_tokens`, `parse_block_reject`,
  `parse_block_reject_none`, `parse_block_reject_documented` / `violations_documented` (every error is a
  `Violation env`, PoryProofs/StmtParseErr2.lean), `break_outside_rejected`, `continue_outside_rejected`,
  `continue_not_last_rejected`, `parse_script_print` — the statements of P1, for the wider grammar;
* `extends_P1` : the surface syntax of P1 embeds (`ofL`), the embedding commutes with printing
  (`ofL_print`), well-formedness (`ofL_swf`) and elaboration (`ofL_elabE`: statements, implicit data, counters,
  errors), and `P1.parse_block_elab` with the fuel bound in tokens is the special case `ofL b` of
  `parse_block_elab` — nothing of P1 is lost;
* `cond_elab` : `parseBooleanExpression` on a printed condition (the building block, `BoolGen.orF`), with the
  error side for auto-var leaves inside compound conditions that `C02Q` left open;
* `command_elab` : `parseCommandStatement` on every written form of a command (`CmdGen.cmdF_run`), with the
  error side of inline `format( … )` that `C09c.parse_command_inline` left open.
Nothing is partial for the covered grammar.

BEHAVIOUR WORTH KNOWING (model = Go):
* `value( … )`: every token inside (parentheses included) is substituted and the literals are joined by single
  spaces; when the result contains a space it is wrapped as `( … )` (with spaces inside the parentheses:
  `value(0x4000 + 1)` ↦ `( 0x4000 + 1 )`); the comparison is marked strict.  A comparison value written as
  several tokens and a multi-token operand are joined by single spaces; the operand token keeps the positions
  of the FIRST written operand token.
* After `!` no comparison is parsed (`!var(X) == 1` is outside the grammar: the parser stops after `)` and the
  caller rejects the `==`).
* `key :` as a poryswitch case: the parser calls the statement parser unless the next token is `}`.  So a case
  without statement is only possible directly before the closing `}`; in `A: B: }` the case `A` consists of
  the LABEL statement `B:` (`colon_case_reads_next_key`) — there is no case `B`.
* A failing `format( … )` inside the command of a `switch (cmd(…))` is reported AFTER the scope id of the switch
  was taken and before the position check of the auto-var command.
-/
namespace Pory.P1b
open Pory Pory.Parser Pory.C02P Pory.C10b Pory.BoolGen Pory.CmdGen Pory.TextValueParse Pory.LeafGen
open Pory.StmtG (Ctx ctxOf)

/-- **P1b, both halves in one equation.** -/
theorem parse_block_elab' (env : Env) (sn : String) (startTok : Tok) (b : List SStmt) (rb : Tok)
    (rest : List Tok) (hwf : SWF b) (hrb : rb.type = .RBRACE) (s : PState)
    (htoks : s.toks = printStmts b ++ rb :: rest) (fuel : Nat) (hfuel : needL b ≤ fuel) :
    (parseBlockStatement env sn startTok fuel [] {}).run s =
      match elabE env sn (ctxOf s) b with
      | .ok (stmts, imp, c') =>
        .ok ((stmts, imp), { s with toks := rb :: rest, nextSid := c'.nextSid, nextCmdId := c'.nextCmdId })
      | .error e => .error e :=
  parse_block_elab env sn startTok b rb rest hwf hrb s htoks fuel hfuel

/-- … with the fuel bound stated in tokens (the model's `ParseProgram` starts with `4 * tokens + 50`). -/
theorem parse_block_print_tokens (env : Env) (sn : String) (startTok : Tok) (b : List SStmt) (rb : Tok)
    (rest : List Tok) (hwf : SWF b) (hrb : rb.type = .RBRACE) (s : PState)
    (htoks : s.toks = printStmts b ++ rb :: rest) (fuel : Nat)
    (hfuel : 2 * (printStmts b).length + 1 ≤ fuel)
    (stmts : List Stmt) (imp : ImpData) (c' : Ctx)
    (helab : elaborate env sn (ctxOf s) b = some (stmts, imp, c')) :
    (parseBlockStatement env sn startTok fuel [] {}).run s =
      .ok ((stmts, imp), { s with toks := rb :: rest, nextSid := c'.nextSid, nextCmdId := c'.nextCmdId }) :=
  (parse_block_print env sn startTok b rb rest hwf hrb s htoks fuel (fuel_of_tokens b fuel hfuel)
    stmts imp c' helab).1

/-- `elaborate = none` ⇒ the parser fails, with one of the documented located errors (`Violation env`: those of
P1 and the C07b error of an inline `format( … )`). -/
theorem parse_block_reject_documented (env : Env) (sn : String) (startTok : Tok) (b : List SStmt) (rb : Tok)
    (rest : List Tok) (hwf : SWF b) (hrb : rb.type = .RBRACE) (s : PState)
    (htoks : s.toks = printStmts b ++ rb :: rest) (fuel : Nat) (hfuel : needL b ≤ fuel)
    (helab : elaborate env sn (ctxOf s) b = none) :
    ∃ e, Violation env e ∧ (parseBlockStatement env sn startTok fuel [] {}).run s = .error e := by
  obtain ⟨e, he, hr⟩ := parse_block_reject_none env sn startTok b rb rest hwf hrb s htoks fuel hfuel helab
  exact ⟨e, violations_documented env sn _ b e he, hr⟩

/-- A whole `script [(global|local)] Name { body }` statement. -/
theorem parse_script_print (env : Env) (fuel : Nat) (s : PState) (kw : Tok) (md : TopParse.Mod)
    (name lb : Tok) (b : List SStmt) (rb : Tok) (rest : List Tok) (hmd : md.WF)
    (hname : name.type = .IDENT) (hlb : lb.type = .LBRACE) (hwf : SWF b) (hrb : rb.type = .RBRACE)
    (hfuel : needL b ≤ fuel) (stmts : List Stmt) (imp : ImpData) (c' : Ctx)
    (helab : elaborate env name.lit (ctxOf s) b = some (stmts, imp, c')) :
    (parseScriptStatement env fuel).run
        (st s (kw :: (md.toks ++ name :: lb :: (printStmts b ++ rb :: rest)))) =
      .ok (({ tok := kw, name := name.lit, body := stmts,
              scope := md.scope (defaultScopeOf "parseScriptStatement") }, imp),
           { s with toks := rb :: rest, nextSid := c'.nextSid, nextCmdId := c'.nextCmdId }) := by
  have h := (parse_block_print env name.lit lb b rb rest hwf hrb
    (st s (printStmts b ++ rb :: rest)) rfl fuel hfuel stmts imp c' helab).1
  exact C15b.parse_script_statement_gen env fuel s kw md name lb _ hmd hname hlb _ _ h

/-- **Conditions**: `parseBooleanExpression` (as `if` / `while` / `do … while` call it) on a printed condition
returns the tree of the reference elaboration, the implicit data of the commands of its auto-var leaves in
source order, stops on the closing `)`, has advanced the command id counter — or fails with the located error
of the first failing leaf in source order. -/
theorem cond_elab (env : Env) (sn : String) (c : SCond) (negated : Bool) (pre rparen : Tok) (rest : List Tok)
    (hrp : rparen.type = .RPAREN) (hwf : swfCond c = true) (s : PState)
    (htoks : s.toks = pre :: (printCond c ++ rparen :: rest)) (fuel : Nat) (hfuel : needCond c ≤ fuel) :
    (parseBooleanExpression env sn false negated fuel).run s =
      match elabOr (CLeaf.res env sn) (substC s.constants) negated c s.nextCmdId with
      | .error e => .error e
      | .ok (t, m, j) => .ok ((t, m), { s with toks := rparen :: rest, nextCmdId := j }) := by
  have h := orF env sn CLeaf.print CLeaf.wf CLeaf.need (CLeaf.res env sn) cleaf_shape (cleaf_run env sn)
    s c negated pre rparen rest fuel hwf hfuel hrp
  have hs : st s (pre :: (printOr CLeaf.print c ++ rparen :: rest)) = s := by
    show st s (pre :: (printCond c ++ rparen :: rest)) = s
    rw [← htoks]; rfl
  rw [hs] at h
  rw [h]
  cases elabOr (CLeaf.res env sn) (substC s.constants) negated c s.nextCmdId with
  | error e => rfl
  | ok v => obtain ⟨t, m, j⟩ := v; rfl

/-- **Commands**: `parseCommandStatement` on every written form of a command. -/
theorem command_elab (env : Env) (sn : String) (s : PState) (c : CmdF) (rest : List Tok) (hc : c.ok = true)
    (hrest : ∀ n, c = .bare n → (rest.headD s.eof).type ≠ .LPAREN) (fuel : Nat) (hf : c.need ≤ fuel) :
    (parseCommandStatement env sn fuel).run (st s (c.print ++ rest)) =
      match c.elabC env sn (substC s.constants) s.nextCmdId with
      | .error e => .error e
      | .ok r => .ok (r, st (bump s) (c.last :: rest)) :=
  cmdF_run env sn s c rest hc hrest fuel hf

/-- **Nothing of P1 is lost.** The syntax of P1 embeds into the syntax of P1b; printing, the token-type side
conditions and the reference elaboration (statements, implicit data, counters, located errors) commute with the
embedding; and P1's main equation (fuel bound in tokens) is the instance `ofL b` of `parse_block_elab`. -/
theorem extends_P1 (env : Env) (sn : String) (b : List StmtG.SStmt) :
    printStmts (ofL b) = StmtG.printStmts b ∧ (SWF (ofL b) ↔ StmtG.SWF b) ∧
    (∀ c : Ctx, elabE env sn c (ofL b) = StmtG.elabE env sn c b) ∧
    (∀ c : Ctx, elaborate env sn c (ofL b) = StmtG.elaborate env sn c b) ∧
    ∀ (startTok rb : Tok) (rest : List Tok) (s : PState) (fuel : Nat), StmtG.SWF b → rb.type = .RBRACE →
      s.toks = StmtG.printStmts b ++ rb :: rest → 2 * (StmtG.printStmts b).length + 1 ≤ fuel →
      (parseBlockStatement env sn startTok fuel [] {}).run s =
        match StmtG.elabE env sn (ctxOf s) b with
        | .ok (stmts, imp, c') =>
          .ok ((stmts, imp), { s with toks := rb :: rest, nextSid := c'.nextSid, nextCmdId := c'.nextCmdId })
        | .error e => .error e :=
  ⟨ofL_print b, by unfold SWF StmtG.SWF; rw [ofL_swf], fun c => ofL_elabE env sn c b,
    fun c => by unfold elaborate StmtG.elaborate; rw [ofL_elabE],
    fun startTok rb rest s fuel hwf hrb htoks hfuel =>
      p1_special_case env sn startTok b rb rest hwf hrb s htoks fuel hfuel⟩

/-! ### non-vacuity -/
section Example

private def lp : Tok := tk .LPAREN "("
private def rp : Tok := tk .RPAREN ")"
private def lb : Tok := tk .LBRACE "{"
private def rb : Tok := tk .RBRACE "}"
private def colon : Tok := tk .COLON ":"
private def comma : Tok := tk .COMMA ","
private def z : Nat → TPos := fun _ => {}
private def tokI (t : TT) (l : String) : IElem := .base (.tok (tk t l))

def envEx : Env :=
  { autoVars := [("random", { varName := "VAR_RESULT" }), ("checkitem", { varName := "VAR_RESULT" }),
                 ("specialvar", { argPos := some 0 })] }

/-- `flag(A) && random(4) == 2 || !checkitem(ITEM_X)` -/
def exCond : SCond :=
  .more
    (.more (.leaf (.plain (.flagBare z false "A"))) {}
      (.one (.leaf (.auto (.cmp {} {} "==" .eq ⟨true, "2"⟩)
        (.args (tk .IDENT "random") lp [tokI .INT "4"] [] rp)))))
    {}
    (.one (.one (.leaf (.auto (.neg {} "!") (.args (tk .IDENT "checkitem") lp [tokI .IDENT "ITEM_X"] [] rp)))))

/-- `format("aa bb cc", "TEST", 50)` -/
def exFormat : IElem :=
  .fmt (tk .FORMAT "format") lp none (tk .STRING "aa bb cc")
    ⟨.fontLen comma (tk .STRING "TEST") comma (tk .INT "50"), comma, []⟩ rp

/-- `if (flag(A) && random(4) == 2 || !checkitem(ITEM_X)) { msgbox(format("aa bb cc", "TEST", 50), MSGBOX_X) }` -/
def exBody : List SStmt :=
  [.ite (tk .IF "if") lp exCond rp lb
    [.cmd (.args (tk .IDENT "msgbox") lp [exFormat] [(comma, [tokI .IDENT "MSGBOX_X"])] rp)] rb [] .none]

-- sanity check (evaluation, not a proof): the printed tokens are what the model lexer produces
#guard (Lexer.lexAll ("if (flag(A) && random(4) == 2 || !checkitem(ITEM_X)) " ++
    "{ msgbox(format(\"aa bb cc\", \"TEST\", 50), MSGBOX_X) } }").toList).map (fun t => (t.type, t.lit)) ==
  (printStmts exBody ++ [rb, tk .EOF ""]).map (fun t => (t.type, t.lit))

theorem exBody_wf : SWF exBody := by decide

def exState : PState := { toks := printStmts exBody ++ [rb], eof := tk .EOF "", nextSid := 3, nextCmdId := 10 }

private def cmdOf (id : Nat) (name : String) (args : List String) : Cmd :=
  { id := id, tok := tk .IDENT name, name := name, args := args }

/-- `(flag(A) && VAR_RESULT == 2 [after random 4]) || VAR_RESULT == 0 [after checkitem ITEM_X]`; the body's
`msgbox` has an EMPTY first argument (patched later with the label of the formatted text). -/
def exAst : List Stmt :=
  [.ite (tk .IF "if")
    (.bin
      (.bin (.leaf { type := .FLAG, operand := tk .IDENT "A", operator := .EQ, cmpValue := "TRUE" }) .AND
        (.leaf { type := .VAR, operand := tk .IDENT "VAR_RESULT", operator := .EQ, cmpValue := "2",
                 preamble := some (cmdOf 10 "random" ["4"]) }))
      .OR
      (.leaf { type := .VAR, operand := tk .IDENT "VAR_RESULT", operator := .EQ, cmpValue := "0",
               preamble := some (cmdOf 11 "checkitem" ["ITEM_X"]) }))
    [.cmd (cmdOf 12 "msgbox" ["", "MSGBOX_X"])] [] none]

/-- The formatted text of the `msgbox`: command id 12, argument 0, `aa bb` / `cc` with the `$` terminator. -/
def exImp : ImpData :=
  { texts := [{ cmdId := 12, argPos := 0, text := tk .STRING "aa bb\\n\ncc$", stringType := "", scriptName := "Main" }] }

theorem exBody_elab :
    elaborate envEx "Main" (ctxOf exState) exBody = some (exAst, exImp, { nextSid := 3, nextCmdId := 13 }) := by
  rfl

/-- On the example the parser returns the documented tree: the commands of the two auto-var leaves got the ids
10 and 11 (source order), the `msgbox` 12; the implicit data is the formatted text. -/
example (startTok : Tok) (fuel : Nat) (hf : 100 ≤ fuel) :
    (parseBlockStatement envEx "Main" startTok fuel [] {}).run exState =
      .ok ((exAst, exImp), { exState with toks := [rb], nextCmdId := 13 }) :=
  (parse_block_print envEx "Main" startTok exBody rb [] exBody_wf rfl exState rfl fuel
    (Nat.le_trans (by decide) hf) exAst exImp _ exBody_elab).1

/-- The same body inside `script Main { … }`. -/
example (fuel : Nat) (hf : 100 ≤ fuel) :
    (parseScriptStatement envEx fuel).run
        (st exState (tk .SCRIPT "script" :: tk .IDENT "Main" :: lb :: (printStmts exBody ++ [rb]))) =
      .ok (({ tok := tk .SCRIPT "script", name := "Main", body := exAst, scope := .GLOBAL }, exImp),
           { exState with toks := [rb], nextCmdId := 13 }) :=
  parse_script_print envEx fuel exState (tk .SCRIPT "script") .absent (tk .IDENT "Main") lb exBody rb []
    trivial rfl rfl exBody_wf rfl (Nat.le_trans (by decide) hf) exAst exImp _ exBody_elab

set_option maxRecDepth 10000 in
/-- (a), error side: `checkitem` not configured — the SECOND auto-var leaf is the first violation; located on
its name token. -/
example (startTok : Tok) :
    (parseBlockStatement { autoVars := [("random", { varName := "VAR_RESULT" })] } "Main" startTok 100 [] {}).run
        exState =
      .error (newParseError (tk .IDENT "checkitem")
        "left side of binary expression must be var(), flag(), defeated(), or autovar command. Instead, found 'checkitem'") :=
  parse_block_reject _ "Main" startTok exBody rb [] exBody_wf rfl exState rfl 100 (by decide) _ rfl

set_option maxRecDepth 10000 in
/-- (a), error side: a configured argument position that addresses no argument, inside `&&`. -/
example (startTok : Tok) :
    (parseBlockStatement { autoVars := [("random", { argPos := some 3 }), ("checkitem", {})] } "Main" startTok
        100 [] {}).run exState =
      .error (newRangeParseError (tk .IDENT "random") rp
        "auto-var command random has an arg position of 3, but only 1 arguments were provided") :=
  parse_block_reject _ "Main" startTok exBody rb [] exBody_wf rfl exState rfl 100 (by decide) _ rfl

/-- (c), error side: an unknown font with environment errors on. `msgbox(format("aa", "NOFONT"))` -/
def exBadFont : List SStmt :=
  [.cmd (.args (tk .IDENT "msgbox") lp
    [.fmt (tk .FORMAT "format") lp none (tk .STRING "aa")
      ⟨.font comma (tkp ⟨4, 20, 20, 4, 28, 28⟩ .STRING "NOFONT"), comma, []⟩ rp] [] rp)]

example (startTok : Tok) :
    ∃ msg, (parseBlockStatement {} "Main" startTok 100 [] {}).run
        { toks := printStmts exBadFont ++ [rb], eof := tk .EOF "" } =
      .error (newParseError (tkp ⟨4, 20, 20, 4, 28, 28⟩ .STRING "NOFONT") msg) :=
  ⟨_, parse_block_reject {} "Main" startTok exBadFont rb [] (by decide) rfl _ rfl 100 (by decide) _ rfl⟩

/-! (d) `while (!specialvar(VAR_A, "x")) { }`, `if (random == 2) { }`, `switch (random()) { case 1: }` -/

def exD : List SStmt :=
  [.while_ (tk .WHILE "while") lp
    (.one (.one (.leaf (.auto (.neg {} "!") (.args (tk .IDENT "specialvar") lp [tokI .IDENT "VAR_A"]
      [(comma, [.base (.str (tk .STRING "x"))])] rp))))) rp lb [] rb,
   .ite (tk .IF "if") lp
    (.one (.one (.leaf (.auto (.cmp {} {} "==" .eq ⟨true, "2"⟩) (.bare (tk .IDENT "random")))))) rp lb [] rb [] .none,
   .switchA (tk .SWITCH "switch") lp (.empty (tk .IDENT "random") lp rp) rp lb
    [.case (tk .CASE "case") [tk .INT "1"] colon []] rb]

#guard (Lexer.lexAll ("while (!specialvar(VAR_A, \"x\")) { } if (random == 2) { } " ++
    "switch (random()) { case 1: } }").toList).map (fun t => (t.type, t.lit)) ==
  (printStmts exD ++ [rb, tk .EOF ""]).map (fun t => (t.type, t.lit))

/-- The string argument of the auto-var command becomes an EMPTY argument of the preamble command and an
implicit text of the `while` statement; the bare and `()` forms have no arguments. -/
example (startTok : Tok) (fuel : Nat) (hf : 100 ≤ fuel) :
    (parseBlockStatement envEx "Main" startTok fuel [] {}).run
        { toks := printStmts exD ++ [rb], eof := tk .EOF "" } =
      .ok (([.while_ (tk .WHILE "while") 0
               (some (.leaf { type := .VAR, operand := tk .IDENT "VAR_A", operator := .EQ, cmpValue := "0",
                              preamble := some (cmdOf 0 "specialvar" ["VAR_A", ""]) })) [],
             .ite (tk .IF "if")
               (.leaf { type := .VAR, operand := tk .IDENT "VAR_RESULT", operator := .EQ, cmpValue := "2",
                        preamble := some (cmdOf 1 "random" []) }) [] [] none,
             .cmd (cmdOf 2 "random" []),
             .switch_ (tk .SWITCH "switch") 1 (tk .IDENT "VAR_RESULT") [(tk .INT "1", false, [])]],
            { texts := [{ cmdId := 0, argPos := 1, text := tk .STRING "x$", stringType := "", scriptName := "Main" }] }),
        { toks := [rb], eof := tk .EOF "", nextSid := 2, nextCmdId := 3 }) :=
  (parse_block_print envEx "Main" startTok exD rb [] (by decide) rfl _ rfl fuel
    (Nat.le_trans (by decide) hf) _ _ { nextSid := 2, nextCmdId := 3 } rfl).1

/-! (b) `while (var(VAR_A) >= value(0x4000 + 1)) { foo } if (random(4) < N + 1 && defeated(TRAINER_A B)) { }` -/

def exB : List SStmt :=
  [.while_ (tk .WHILE "while") lp
    (.one (.one (.leaf (.kw ⟨none, tk .VAR "var", lp, tk .IDENT "VAR_A", [], rp,
      .var (tk .GTE ">=") (.value (tk .VALUE "value") lp [tk .INT "0x4000", tk .ILLEGAL "+", tk .INT "1"] rp)⟩))))
    rp lb [.cmd (.bare (tk .IDENT "foo"))] rb,
   .ite (tk .IF "if") lp
    (.one (.more
      (.leaf (.autoV (.args (tk .IDENT "random") lp [tokI .INT "4"] [] rp) (tk .LT "<")
        (.toks (tk .IDENT "N") [tk .ILLEGAL "+", tk .INT "1"])))
      {}
      (.one (.leaf (.kw ⟨none, tk .DEFEATED "defeated", lp, tk .IDENT "TRAINER_A", [tk .IDENT "B"], rp, .none⟩)))))
    rp lb [] rb [] .none]

#guard (Lexer.lexAll ("while (var(VAR_A) >= value(0x4000 + 1)) { foo } " ++
    "if (random(4) < N + 1 && defeated(TRAINER_A B)) { } }").toList).map (fun t => (t.type, t.lit)) ==
  (printStmts exB ++ [rb, tk .EOF ""]).map (fun t => (t.type, t.lit))

/-- `value( … )`: the tokens inside, constants substituted, joined by spaces and — because the result contains a
space — wrapped in `( … )`; the comparison is STRICT.  A comparison value written as several tokens (`N + 1`
with `const N = 5`) and a multi-token operand are joined by single spaces. -/
example (startTok : Tok) (fuel : Nat) (hf : 100 ≤ fuel) :
    (parseBlockStatement envEx "Main" startTok fuel [] {}).run
        { toks := printStmts exB ++ [rb], eof := tk .EOF "", constants := [("N", "5")] } =
      .ok (([.while_ (tk .WHILE "while") 0
               (some (.leaf { type := .VAR, operand := tk .IDENT "VAR_A", operator := .GTE,
                              cmpValue := "( 0x4000 + 1 )", strict := true }))
               [.cmd (cmdOf 0 "foo" [])],
             .ite (tk .IF "if")
               (.bin
                 (.leaf { type := .VAR, operand := tk .IDENT "VAR_RESULT", operator := .LT, cmpValue := "5 + 1",
                          preamble := some (cmdOf 1 "random" ["4"]) })
                 .AND
                 (.leaf { type := .DEFEATED, operand := tk .IDENT "TRAINER_A B", operator := .EQ,
                          cmpValue := "TRUE" })) [] [] none], {}),
        { toks := [rb], eof := tk .EOF "", constants := [("N", "5")], nextSid := 1, nextCmdId := 2 }) :=
  (parse_block_print envEx "Main" startTok exB rb [] (by decide) rfl _ rfl fuel
    (Nat.le_trans (by decide) hf) _ _ { consts := [("N", "5")], nextSid := 1, nextCmdId := 2 } rfl).1

/-! (e) `poryswitch (GAME) { RUBY: foo  _: }` -/

def exE : List SStmt :=
  [.pory (tk .PORYSWITCH "poryswitch") lp (tk .IDENT "GAME") rp lb
    [.colon (tk .IDENT "RUBY") colon (.cmd (.bare (tk .IDENT "foo"))), .colon0 (tk .IDENT "_") colon] rb]

#guard (Lexer.lexAll "poryswitch (GAME) { RUBY: foo _: } }".toList).map (fun t => (t.type, t.lit)) ==
  (printStmts exE ++ [rb, tk .EOF ""]).map (fun t => (t.type, t.lit))

example (startTok : Tok) (fuel : Nat) (hf : 40 ≤ fuel) :
    (parseBlockStatement { switches := [("GAME", "SAPPHIRE")] } "Main" startTok fuel [] {}).run
        { toks := printStmts exE ++ [rb], eof := tk .EOF "" } =
      .ok (([], {}), { toks := [rb], eof := tk .EOF "", nextCmdId := 1 }) :=
  (parse_block_print _ "Main" startTok exE rb [] (by decide) rfl _ rfl fuel
    (Nat.le_trans (by decide) hf) _ _ { nextCmdId := 1 } rfl).1

/-- `A: B: foo` inside a poryswitch: the statement of case `A` is the LABEL `B:` — a `key :` case without a
statement is only possible directly before the closing `}`. -/
theorem colon_case_reads_next_key (startTok : Tok) :
    (parsePoryswitchStatementCases {} "Main" startTok 20 []).run
        { toks := [tk .IDENT "A", colon, tk .IDENT "B", colon, rb], eof := tk .EOF "" } =
      .ok ([("A", [.label (tk .IDENT "B") "B" false], {})], { toks := [rb], eof := tk .EOF "" }) := by
  rfl

/-- P1's example body through the embedding. -/
example : printStmts (ofL P1.exBody) = StmtG.printStmts P1.exBody ∧ SWF (ofL P1.exBody) :=
  ⟨(extends_P1 {} "" P1.exBody).1, (extends_P1 {} "" P1.exBody).2.1.mpr P1.exBody_wf⟩

end Example

#print axioms parse_block_elab'
#print axioms parse_block_print
#print axioms parse_block_print_tokens
#print axioms parse_block_reject
#print axioms parse_block_reject_none
#print axioms parse_script_print
#print axioms cond_elab
#print axioms command_elab
#print axioms extends_P1
#print axioms parse_block_reject_documented
#print axioms violations_documented
#print axioms break_outside_rejected
#print axioms continue_outside_rejected
#print axioms continue_not_last_rejected
#print axioms colon_case_reads_next_key

end Pory.P1b
