import PoryProofs.CmdParse
/-
C10 (parser half) — "Every command statement reaches the output as one line made of its unchanged
name followed by exactly its source argument tokens in order, commas preserved and spacing
normalised, with constants substituted" — for the parser model `parseCommandStatement` /
`cmdArgsLoop` (`parseCommandStatement` of parser.go).

Reference syntax (`PoryProofs/CmdParse.lean`): an argument is a non-empty flat token list of
*plain* tokens (anything but `,` `(` `)` EOF `format` STRING STRINGTYPE `moves`) and parentheses,
with balanced parentheses (`ArgOK`; `Bal` is the grammar `ε | plain Bal | '(' Bal ')' Bal` and
`ArgOK.of_bal` relates the two). `printCmd name lp a0 more rp` = `name ( a0 , a1 , … )` where
`more` lists the (comma token, argument) pairs after the first argument. All tokens are arbitrary
records (any positions, any literals) with the stated types only.

Proved (every fuel ≥ the bound, every surrounding parser state `s`, anything after the command):
* `parse_command`       : name unchanged, `args` = one string per written argument, in order, each
                          the argument's tokens (constants substituted per token, parentheses as
                          tokens) joined by single spaces; no implicit data; the parser stops ON
                          the closing `)`; only `toks` and `nextCmdId` (+1) change in the state;
* `parse_command_subst` : the same with `substC` applied to every token, when no constant is named
                          like a parenthesis literal;
* `parse_command_flat`  : the special case without parentheses inside arguments;
* `parse_command_empty_parens` (`name()`), `parse_command_bare` (`name` not followed by `(`):
                          `args = []`;
* `missing_rparen_rejected` : EOF instead of `)` — error located on the command token;
* `comma_splits_at_any_depth` + `example_comma_in_parens`: the model (like the Go code) splits at
  EVERY comma, also inside parentheses — which is why `parse_command` is stated for arguments whose
  parenthesis groups contain no comma (`ArgTok` excludes COMMA).

Not covered here: arguments containing string literals, `format(…)`, string types or `moves(…)`
(implicit texts / movements) — `parse_command` is the statement for implicit-data-free commands.
-/
namespace Pory.C10b
open Pory Pory.Parser Pory.C02P

/-- **C10, parser half.** -/
theorem parse_command (env : Env) (sn : String) (s : PState) (name lp : Tok) (a0 : List Tok)
    (more : List (Tok × List Tok)) (rp : Tok) (rest : List Tok)
    (hlp : lp.type = .LPAREN) (hrp : rp.type = .RPAREN) (h0 : ArgOK a0)
    (hm : ∀ p ∈ more, p.1.type = .COMMA ∧ ArgOK p.2) (fuel : Nat)
    (hf : a0.length + (printMore more).length + 1 ≤ fuel) :
    (parseCommandStatement env sn fuel).run (st s (printCmd name lp a0 more rp ++ rest)) =
      .ok (({ id := s.nextCmdId, tok := name, name := name.lit,
              args := (a0 :: more.map (·.2)).map (renderArg (substC s.constants)) }, {}),
           st (bump s) (rp :: rest)) := by
  have hp : printCmd name lp a0 more rp ++ rest = name :: lp :: (a0 ++ (printMore more ++ rp :: rest)) := by
    simp [printCmd]
  have hl := loop_all env sn s.nextCmdId name (bump s) a0 more rp rest hrp h0.toks h0.balanced
    (fun p hp => ⟨(hm p hp).1, (hm p hp).2.toks, (hm p hp).2.balanced⟩) fuel hf
  rw [bump_constants] at hl
  rw [hp, pcs_paren env sn fuel s name lp _ hlp, hl]
  have hfa := final_args (substC s.constants) a0 more h0.nonempty (fun p hp => (hm p hp).2.nonempty)
  simp only [cmdOf, hfa]

/-- The same with every token substituted uniformly (`joinSp (tokens.map (substC consts ·.lit))`),
when no constant is named like the literal of a parenthesis token of the command — always true
for lexer output (`(` / `)` are not identifiers, constant names are). -/
theorem parse_command_subst (env : Env) (sn : String) (s : PState) (name lp : Tok) (a0 : List Tok)
    (more : List (Tok × List Tok)) (rp : Tok) (rest : List Tok)
    (hlp : lp.type = .LPAREN) (hrp : rp.type = .RPAREN) (h0 : ArgOK a0)
    (hm : ∀ p ∈ more, p.1.type = .COMMA ∧ ArgOK p.2)
    (hpar : ∀ a ∈ a0 :: more.map (·.2), ∀ t ∈ a, (t.type = .LPAREN ∨ t.type = .RPAREN) →
      substC s.constants t.lit = t.lit)
    (fuel : Nat) (hf : a0.length + (printMore more).length + 1 ≤ fuel) :
    (parseCommandStatement env sn fuel).run (st s (printCmd name lp a0 more rp ++ rest)) =
      .ok (({ id := s.nextCmdId, tok := name, name := name.lit,
              args := (a0 :: more.map (·.2)).map
                (fun a => joinSp (a.map (fun t => substC s.constants t.lit))) }, {}),
           st (bump s) (rp :: rest)) := by
  rw [parse_command env sn s name lp a0 more rp rest hlp hrp h0 hm fuel hf]
  have : (a0 :: more.map (·.2)).map (renderArg (substC s.constants)) =
      (a0 :: more.map (·.2)).map (fun a => joinSp (a.map (fun t => substC s.constants t.lit))) :=
    List.map_congr_left (fun a ha => renderArg_eq_subst _ a (hpar a ha))
  rw [this]

/-- The number of printed tokens is a sufficient amount of fuel. -/
theorem parse_command_fuel (name lp : Tok) (a0 : List Tok) (more : List (Tok × List Tok)) (rp : Tok) :
    a0.length + (printMore more).length + 1 + 2 = (printCmd name lp a0 more rp).length := by
  simp [printCmd]; omega

/-- Arguments without parentheses: each argument is its tokens' literals, constants substituted,
joined by single spaces. -/
theorem parse_command_flat (env : Env) (sn : String) (s : PState) (name lp : Tok) (a0 : List Tok)
    (more : List (Tok × List Tok)) (rp : Tok) (rest : List Tok)
    (hlp : lp.type = .LPAREN) (hrp : rp.type = .RPAREN) (h0 : a0 ≠ [] ∧ ∀ t ∈ a0, Plain t)
    (hm : ∀ p ∈ more, p.1.type = .COMMA ∧ p.2 ≠ [] ∧ ∀ t ∈ p.2, Plain t) (fuel : Nat)
    (hf : a0.length + (printMore more).length + 1 ≤ fuel) :
    (parseCommandStatement env sn fuel).run (st s (printCmd name lp a0 more rp ++ rest)) =
      .ok (({ id := s.nextCmdId, tok := name, name := name.lit,
              args := (a0 :: more.map (·.2)).map
                (fun a => joinSp (a.map (fun t => substC s.constants t.lit))) }, {}),
           st (bump s) (rp :: rest)) := by
  rw [parse_command env sn s name lp a0 more rp rest hlp hrp (ArgOK.of_plain h0.1 h0.2)
    (fun p hp => ⟨(hm p hp).1, ArgOK.of_plain (hm p hp).2.1 (hm p hp).2.2⟩) fuel hf]
  have : (a0 :: more.map (·.2)).map (renderArg (substC s.constants)) =
      (a0 :: more.map (·.2)).map (fun a => joinSp (a.map (fun t => substC s.constants t.lit))) := by
    apply List.map_congr_left
    intro a ha
    rcases List.mem_cons.mp ha with rfl | ha
    · exact renderArg_plain _ _ h0.2
    · obtain ⟨p, hp, rfl⟩ := List.mem_map.mp ha
      exact renderArg_plain _ _ (hm p hp).2.2
  rw [this]

/-- `name()` -/
theorem parse_command_empty_parens (env : Env) (sn : String) (s : PState) (name lp rp : Tok)
    (rest : List Tok) (hlp : lp.type = .LPAREN) (hrp : rp.type = .RPAREN) (fuel : Nat)
    (hf : 1 ≤ fuel) :
    (parseCommandStatement env sn fuel).run (st s (name :: lp :: rp :: rest)) =
      .ok (({ id := s.nextCmdId, tok := name, name := name.lit, args := [] }, {}),
           st (bump s) (rp :: rest)) := by
  obtain ⟨f, rfl⟩ : ∃ f, fuel = f + 1 := ⟨fuel - 1, by omega⟩
  have e0 : ({} : CmdAcc) = ⟨[], [], 0, {}⟩ := rfl
  rw [pcs_paren env sn _ s name lp _ hlp, e0,
    cal_close env sn s.nextCmdId name f (bump s) [] [] {} rp rest hrp]
  rfl

/-- `name` not followed by `(`: no arguments, no token consumed (the caller advances). -/
theorem parse_command_bare (env : Env) (sn : String) (fuel : Nat) (s : PState)
    (h : (s.toks.getD 1 s.eof).type ≠ .LPAREN) :
    (parseCommandStatement env sn fuel).run s =
      .ok (({ id := s.nextCmdId, tok := s.toks.headD s.eof, name := (s.toks.headD s.eof).lit,
              args := [] }, {}), bump s) :=
  pcs_bare env sn fuel s h

/-- … in the `st` form: `name nx …` with `nx` not `(`. -/
theorem parse_command_bare_st (env : Env) (sn : String) (fuel : Nat) (s : PState) (name nx : Tok)
    (tl : List Tok) (h : nx.type ≠ .LPAREN) :
    (parseCommandStatement env sn fuel).run (st s (name :: nx :: tl)) =
      .ok (({ id := s.nextCmdId, tok := name, name := name.lit, args := [] }, {}),
           st (bump s) (name :: nx :: tl)) :=
  pcs_bare env sn fuel (st s (name :: nx :: tl)) h

/-- EOF where the closing `)` should be: "missing closing parenthesis", located on the command. -/
theorem missing_rparen_rejected (env : Env) (sn : String) (s : PState) (name lp : Tok)
    (a0 : List Tok) (more : List (Tok × List Tok)) (e : Tok) (rest : List Tok)
    (hlp : lp.type = .LPAREN) (he : e.type = .EOF) (h0 : ArgOK a0)
    (hm : ∀ p ∈ more, p.1.type = .COMMA ∧ ArgOK p.2) (fuel : Nat)
    (hf : a0.length + (printMore more).length + 1 ≤ fuel) :
    (parseCommandStatement env sn fuel).run
        (st s (name :: lp :: (a0 ++ (printMore more ++ e :: rest)))) =
      .error (newParseError name s!"missing closing parenthesis for command '{name.lit}'") := by
  have hl := loop_eof env sn s.nextCmdId name (bump s) a0 more e rest he h0.toks h0.balanced
    (fun p hp => ⟨(hm p hp).1, (hm p hp).2.toks, (hm p hp).2.balanced⟩) fuel hf
  rw [pcs_paren env sn fuel s name lp _ hlp, hl]

/-- The model — as the Go loop — closes the current argument at a comma whatever the
parenthesis depth `d` is (the depth is kept). -/
theorem comma_splits_at_any_depth (env : Env) (sn : String) (id : Nat) (ct : Tok) (f : Nat)
    (s : PState) (A P : List String) (d : Nat) (I : ImpData) (c : Tok) (tl : List Tok)
    (hc : c.type = .COMMA) :
    (cmdArgsLoop env sn id ct (f + 1) ⟨A, P, d, I⟩).run (st s (c :: tl)) =
      (cmdArgsLoop env sn id ct f ⟨A ++ [joinSp P], [], d, I⟩).run (st s tl) :=
  cal_comma env sn id ct f s A P d I c tl hc

/-! ### examples -/

def exState : PState := { (default : PState) with constants := [("N", "5")] }

/-- `setvar ( VAR_A , ( N * 2 ) )` with `const N = 5` -/
def exCmd : List Tok :=
  printCmd (tk .IDENT "setvar") (tk .LPAREN "(") [tk .IDENT "VAR_A"]
    [(tk .COMMA ",", [tk .LPAREN "(", tk .IDENT "N", tk .MUL "*", tk .INT "2", tk .RPAREN ")"])]
    (tk .RPAREN ")")

example : ∃ r, (parseCommandStatement {} "s" 8).run (st exState (exCmd ++ [tk .RBRACE "}"])) =
      .ok (r, st (bump exState) [tk .RPAREN ")", tk .RBRACE "}"]) ∧
    r.1.name = "setvar" ∧ r.1.args = ["VAR_A", "( 5 * 2 )"] :=
  ⟨_, parse_command {} "s" exState _ _ _ _ _ _ rfl rfl (by decide) (by decide) 8 (by decide),
    rfl, by decide⟩

/-- `setvar ( VAR_A , ( 1 , 2 ) )`: the comma inside the parentheses splits the argument —
three arguments `VAR_A`, `( 1`, `2 )` (same in parser.go). -/
def exCommaInParens : List Tok :=
  [tk .IDENT "setvar", tk .LPAREN "(", tk .IDENT "VAR_A", tk .COMMA ",", tk .LPAREN "(",
   tk .INT "1", tk .COMMA ",", tk .INT "2", tk .RPAREN ")", tk .RPAREN ")"]

theorem example_comma_in_parens :
    ((parseCommandStatement {} "s" 20).run (st default exCommaInParens)).toOption.map
      (fun r => r.1.1.args) = some ["VAR_A", "( 1", "2 )"] := by decide

/-- `foo ( a , )` gives one argument, `foo ( , a )` gives an empty first argument. -/
example :
    ((parseCommandStatement {} "s" 20).run (st default
      [tk .IDENT "foo", tk .LPAREN "(", tk .IDENT "a", tk .COMMA ",", tk .RPAREN ")"])).toOption.map
      (fun r => r.1.1.args) = some ["a"] ∧
    ((parseCommandStatement {} "s" 20).run (st default
      [tk .IDENT "foo", tk .LPAREN "(", tk .COMMA ",", tk .IDENT "a", tk .RPAREN ")"])).toOption.map
      (fun r => r.1.1.args) = some ["", "a"] := by decide

end Pory.C10b
