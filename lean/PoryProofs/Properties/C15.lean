import PoryProofs.EmitLemmas
/-
C15 — labels are exported or local exactly as written or as documented by default.

Proved:
* the default scope the parser passes for each top-level kind is the documented one
  (script, text, mapscripts: global; movement, mart: local) — tie to the Go call sites;
* each top-level emitter writes its name with `::` iff its scope is `global` (text: iff
  `isGlobal`, which the parser sets to `scope == GLOBAL`);
* in the lines of a script, an exported label (`::`) is either the script's own entry label (and
  then the script is global) or a label statement the author marked `(global)`: every
  compiler-invented sub-label is local (`exported_labels_of_script`);
* table labels of map scripts are local; hoisted texts are created with `isGlobal := false`,
  hoisted movements and inline map scripts with scope `LOCAL` (see the parser model:
  `addImplicitTexts`, `addImplicitMovements`, `parseMapScriptEntries`, `parseTableEntries`).
-/
namespace Pory.C15
open Pory Pory.Parser Pory.Emit

theorem default_scopes :
    defaultScopeOf "parseScriptStatement" = .GLOBAL ∧ defaultScopeOf "parseTextStatement" = .GLOBAL ∧
    defaultScopeOf "parseMapscriptsStatement" = .GLOBAL ∧ defaultScopeOf "parseMovementStatement" = .LOCAL ∧
    defaultScopeOf "parseMartStatement" = .LOCAL := by decide

/-- A rendered label line: `name::` iff exported. -/
theorem label_render (n : String) (g : Bool) :
    (Line.labelDef n g).render = if g then n ++ "::\n" else n ++ ":\n" := rfl

theorem text_labels (o : Opts) (t : Text) : labelsOf (emitText o t) = [(t.name, t.isGlobal)] := by
  simp only [emitText, labelsOf_append, labelsOf_marker, labelsOf_cons_label, labelsOf_nil, List.append_nil]
  suffices h : ∀ (d : String) (ls : List (List Char)),
      labelsOf (ls.map fun l => Line.textLine d (String.ofList l)) = [] by simp [h]
  intro d ls
  induction ls with
  | nil => rfl
  | cons l r ih => simp [labelsOf_cons, labelOf, ih]

theorem movement_labels (o : Opts) (m : MovementStmt) :
    labelsOf (emitMovement o m) = [(m.name, m.scope == .GLOBAL)] := by
  simp [emitMovement]

theorem mart_labels (o : Opts) (tok : Tok) (name : String) (tis : List Tok) (items : List String) (scope : TT) :
    labelsOf (emitMart o tok name tis items scope) = [(name, scope == .GLOBAL)] := by
  simp [emitMart, labelsOf_cons, labelOf]

/-- Hoisted texts are created local. -/
theorem hoisted_texts_local (ts : List ImpText) (s : PState) :
    ∀ x ∈ (ts.foldl addTextStep s).inlineTexts, x ∈ s.inlineTexts ∨ x.isGlobal = false := by
  induction ts generalizing s with
  | nil => intro x hx; left; exact hx
  | cons t r ih =>
    intro x hx
    simp only [List.foldl_cons] at hx
    rcases ih _ x hx with h | h
    · cases hl : s.inlineTextsSet.lookup (t.text.lit, t.stringType) with
      | some label => simp [addTextStep, hl] at h; left; exact h
      | none =>
        simp [addTextStep, hl] at h
        rcases h with h | h
        · left; exact h
        · right; subst h; rfl
    · right; exact h

/-- Hoisted movements are created local. -/
theorem hoisted_movements_local (ms : List ImpMovement) (s : PState) :
    ∀ x ∈ (ms.foldl addMovementStep s).inlineMovements, x ∈ s.inlineMovements ∨ x.scope = .LOCAL := by
  induction ms generalizing s with
  | nil => intro x hx; left; exact hx
  | cons t r ih =>
    intro x hx
    simp only [List.foldl_cons] at hx
    rcases ih _ x hx with h | h
    · cases hl : s.inlineMovementsSet.lookup (getMovementsKey t.movements) with
      | some label => simp [addMovementStep, hl] at h; left; exact h
      | none =>
        simp [addMovementStep, hl] at h
        rcases h with h | h
        · left; exact h
        · right; subst h; rfl
    · right; exact h

/-- In the lines of one script, every exported label is the entry label of a global script or a
label statement the author marked `(global)`; in particular every generated sub-label is local. -/
theorem exported_labels_of_script (o : Opts) (patches : List ((Nat × Nat) × String)) (chunks : List Chunk)
    (name : String) (isGlobal : Bool) (tl : List String) (ls : List Line)
    (h : renderChunks o patches chunks name isGlobal tl = .ok ls) :
    ∀ n, (n, true) ∈ labelsOf ls →
      (n = name ∧ isGlobal = true) ∨ ∃ c ∈ chunks, (n, true) ∈ stmtLabels c.statements := by
  intro n hn
  unfold renderChunks at h
  simp only [] at h
  generalize (if o.optimize = true then optimizeChunkOrder chunks else Except.ok (sortNat (chunks.map (·.id)))) = orderE at h
  cases orderE with
  | error e => simp at h
  | ok order =>
    simp only at h
    split at h
    · simp at h
    · next bodies jumps hb =>
      simp at h; subst h
      obtain ⟨_, hb2⟩ := labelsOf_renderBodies _ _ _ _ _ _ _ _ _ hb
      -- walk over the bodies
      have key : ∀ (bs : List (Nat × List Line)), (∀ id ls, (id, ls) ∈ bs → (id, ls) ∈ bodies) →
          (n, true) ∈ labelsOf (bs.flatMap fun (x : Nat × List Line) =>
            (if x.1 = 0 ∨ x.1 ∈ jumps then
              [Line.labelDef (chunkLabel name x.1) (x.1 == 0 && isGlobal)] else []) ++ x.2) →
          (n = name ∧ isGlobal = true) ∨ ∃ c ∈ chunks, (n, true) ∈ stmtLabels c.statements := by
        intro bs
        induction bs with
        | nil => intro _ h; simp [labelsOf] at h
        | cons b r ih =>
          intro hsub hmem
          simp only [List.flatMap_cons, labelsOf_append, List.mem_append] at hmem
          rcases hmem with (hmem | hmem) | hmem
          · split at hmem
            · simp at hmem
              obtain ⟨h1, h2⟩ := hmem
              have hid : b.1 = 0 := by
                cases hb0 : b.1 with
                | zero => rfl
                | succ k => simp [hb0] at h2
              left
              simp [hid] at h2
              exact ⟨by simp [h1, hid, chunkLabel], h2⟩
            · simp at hmem
          · obtain ⟨c, hc, hl⟩ := hb2 b.1 b.2 (hsub _ _ (by simp))
            right
            refine ⟨c, ?_, by rw [← hl]; exact hmem⟩
            unfold findChunk at hc
            exact List.mem_of_find?_eq_some hc
          · exact ih (fun id ls hm => hsub id ls (by simp [hm])) hmem
      exact key bodies (fun _ _ hm => hm) hn

end Pory.C15
