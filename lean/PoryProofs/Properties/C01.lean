import PoryProofs.Sim
import PoryProofs.Scoped
import PoryProofs.SimExample
/-
C01 — the chunk graph behaves like the structured source.

Everything here is about the two abstract machines of `PorySpec/Sem.lean` and the compilation
relation `Impl` / simulation relation `R` of `PorySpec/Impl.lean`; it holds for EVERY world `w`
(every outcome of every test, chosen afresh after every command), every chunk table `G` and
context `cx`.  The step-level theorem is `Pory.Sem.sim` (`PoryProofs/Sim.lean`):

    R G cx s g → StepScoped s → ∃ rg, Plus w G g rg ∧ Match G cx (sstep w s) rg

(one source step is matched by ONE OR MORE graph steps; both continue in related configurations
or both finish with the same outcome and the same command history).

Run-level corollaries proved here, for related configurations `R G cx s g` whose source run is
scoped (`RunScoped`: every `break` / `continue` that is reached has a matching frame):
* `run_match`        : for every n there is m ≥ n with `Match (siter n s) (giter m g)`;
* `finish_agree`     : the source finishes with `(o, h)` ⇒ the graph finishes with `(o, h)`;
* `histories_agree`  : for every n there is m such that the graph history after m steps equals
                       the source history after n steps;
* `diverge_agree`    : the source never finishes ⇒ the graph never finishes;
* `finish_agree_conv`, `diverge_agree_conv` : the two converses (classical; the machines are
                       deterministic functions);
* `C01_equivalence_partial` : all of the above as one statement — same final outcome and
                       history in both directions, and divergence in both directions.
* `C01_equivalence_full` (a `def … : Prop`) is the same statement with the *static* hypothesis
  `WellScoped s` (`PoryProofs/Scoped.lean`: every `break sid` lies inside a loop / switch with
  scope id `sid`, every `continue sid` inside such a loop; preserved by `sstep`) in place of
  `RunScoped`; it is PROVED: `C01_equivalence : C01_equivalence_full`.
* conditions: `C02_shortcircuit` (= `cond_sim`), `C02_and_false`, `C02_or_true`,
  `evalCond_hist`, `C11_preamble_once_per_evaluation`.
Non-vacuity: `PoryProofs/SimExample.lean` (a while / switch / break program with its chunk table
and `Impl` derivation) and the `example`s at the end of this file.

What is NOT proved here: that the emitter's output satisfies `R` for the initial configurations
(`Impl` is established by the worklist — design item E2), and nothing about rendering.
-/
namespace Pory.C01
open Pory Pory.Emit Pory.Sem

variable (w : SWorld) (G : List Chunk) (cx : Ctx)

/-! ### iterating on results -/

/-- `giter` on results (`fin` is absorbing). -/
def giterR : Nat → Res GCfg → Res GCfg
  | 0, r => r
  | n + 1, .next g => giterR n (gstep w G g)
  | _ + 1, .fin o h => .fin o h

theorem giterR_fin (n : Nat) (o : Outcome) (h : Hist) : giterR w G n (.fin o h) = .fin o h := by
  cases n <;> rfl

theorem giter_eq : ∀ (n : Nat) (g : GCfg), giter w G n g = giterR w G n (.next g)
  | 0, _ => rfl
  | n + 1, g => by
    simp only [giter, giterR]
    cases gstep w G g with
    | next g' => exact giter_eq n g'
    | fin o h => rw [giterR_fin]

theorem giterR_add : ∀ (i j : Nat) (a : Res GCfg),
    giterR w G (i + j) a = giterR w G j (giterR w G i a)
  | 0, j, a => by simp [giterR]
  | i + 1, j, .next g => by
    rw [Nat.add_right_comm]
    simp only [giterR]
    exact giterR_add i j _
  | i + 1, j, .fin o h => by
    rw [Nat.add_right_comm]
    simp only [giterR, giterR_fin]

theorem star_giterR {a b : Res GCfg} (hs : Star w G a b) : ∃ j, giterR w G j a = b := by
  induction hs with
  | refl => exact ⟨0, rfl⟩
  | step _ ih =>
    obtain ⟨j, hj⟩ := ih
    exact ⟨j + 1, hj⟩

theorem plus_giter {g : GCfg} {rg : Res GCfg} (hp : Plus w G g rg) :
    ∃ j, giterR w G (j + 1) (.next g) = rg := by
  obtain ⟨j, hj⟩ := star_giterR w G hp
  exact ⟨j, hj⟩

theorem giter_fin_stable {m : Nat} {g : GCfg} {o : Outcome} {h : Hist}
    (hf : giter w G m g = .fin o h) (k : Nat) : giter w G (m + k) g = .fin o h := by
  rw [giter_eq] at hf ⊢
  rw [giterR_add, hf, giterR_fin]

theorem giter_next_prefix {m k : Nat} {g g'' : GCfg} (hn : giter w G (m + k) g = .next g'') :
    ∃ g', giter w G m g = .next g' := by
  rw [giter_eq] at hn ⊢
  rw [giterR_add] at hn
  cases hm : giterR w G m (.next g) with
  | next g' => exact ⟨g', rfl⟩
  | fin o h => rw [hm, giterR_fin] at hn; cases hn

/-! ### runs -/

/-- Every configuration of the source run from `s` satisfies the scoping side condition of `sim`. -/
def RunScoped (s : SCfg) : Prop := ∀ k s', siter w k s = .next s' → StepScoped s'

theorem RunScoped.step {s s' : SCfg} (hs : RunScoped w s) (hss : sstep w s = .next s') :
    RunScoped w s' := by
  intro k s'' hk
  exact hs (k + 1) s'' (by simp [siter, hss, hk])

/-- n source steps are matched by some m ≥ n graph steps. -/
theorem run_match : ∀ (n : Nat) {s : SCfg} {g : GCfg}, R G cx s g → RunScoped w s →
    ∃ m, n ≤ m ∧ Match G cx (siter w n s) (giter w G m g)
  | 0, s, g, hR, _ => ⟨0, Nat.le_refl _, hR⟩
  | n + 1, s, g, hR, hsc => by
    obtain ⟨rg, hpl, hm⟩ := sim w G cx hR (hsc 0 s rfl)
    obtain ⟨j, hj⟩ := plus_giter w G hpl
    cases hss : sstep w s with
    | next s' =>
      rw [hss] at hm
      cases rg with
      | fin o h => exact hm.elim
      | next g' =>
        obtain ⟨m', hle, hm'⟩ := run_match n (s := s') (g := g') hm (hsc.step w hss)
        refine ⟨j + 1 + m', by omega, ?_⟩
        have h1 : siter w (n + 1) s = siter w n s' := by simp [siter, hss]
        have h2 : giter w G (j + 1 + m') g = giter w G m' g' := by
          rw [giter_eq, giterR_add, hj, ← giter_eq]
        rw [h1, h2]; exact hm'
    | fin o h =>
      rw [hss] at hm
      cases rg with
      | next g' => exact hm.elim
      | fin o' h' =>
        obtain ⟨rfl, rfl⟩ := hm
        refine ⟨j + 1 + n, by omega, ?_⟩
        have h1 : siter w (n + 1) s = .fin o h := by simp [siter, hss]
        have h2 : giter w G (j + 1 + n) g = .fin o h := by
          rw [giter_eq, giterR_add, hj, giterR_fin]
        rw [h1, h2]; exact ⟨rfl, rfl⟩

/-- The source finishes ⇒ the graph finishes, with the same outcome and the same history. -/
theorem finish_agree {s : SCfg} {g : GCfg} (hR : R G cx s g) (hsc : RunScoped w s)
    {n : Nat} {o : Outcome} {h : Hist} (hf : siter w n s = .fin o h) :
    ∃ m, giter w G m g = .fin o h := by
  obtain ⟨m, _, hm⟩ := run_match w G cx n hR hsc
  rw [hf] at hm
  cases hg : giter w G m g with
  | next g' => rw [hg] at hm; exact hm.elim
  | fin o' h' =>
    rw [hg] at hm
    obtain ⟨rfl, rfl⟩ := hm
    exact ⟨m, hg⟩

/-- The command history carried by a result. -/
def histS : Res SCfg → Hist
  | .next s => s.h
  | .fin _ h => h

def histG : Res GCfg → Hist
  | .next g => g.h
  | .fin _ h => h

theorem match_hist {rs : Res SCfg} {rg : Res GCfg} (hm : Match G cx rs rg) : histS rs = histG rg := by
  cases rs with
  | next s =>
    cases rg with
    | next g => exact hm.1
    | fin o h => exact hm.elim
  | fin o h =>
    cases rg with
    | next g => exact hm.elim
    | fin o' h' => exact hm.2

/-- For every n there is m such that the graph history after m steps is the source history
after n steps. -/
theorem histories_agree {s : SCfg} {g : GCfg} (hR : R G cx s g) (hsc : RunScoped w s) (n : Nat) :
    ∃ m, histG (giter w G m g) = histS (siter w n s) := by
  obtain ⟨m, _, hm⟩ := run_match w G cx n hR hsc
  exact ⟨m, (match_hist G cx hm).symm⟩

/-- The source never finishes ⇒ the graph never finishes. -/
theorem diverge_agree {s : SCfg} {g : GCfg} (hR : R G cx s g) (hsc : RunScoped w s)
    (hd : ∀ n, ∃ s', siter w n s = .next s') : ∀ m, ∃ g', giter w G m g = .next g' := by
  intro m
  obtain ⟨m', hle, hm⟩ := run_match w G cx m hR hsc
  obtain ⟨s', hs'⟩ := hd m
  rw [hs'] at hm
  cases hg : giter w G m' g with
  | fin o h => rw [hg] at hm; exact hm.elim
  | next g'' =>
    obtain ⟨k, rfl⟩ : ∃ k, m' = m + k := ⟨m' - m, by omega⟩
    exact giter_next_prefix w G hg

/-- The graph never finishes ⇒ the source never finishes. -/
theorem diverge_agree_conv {s : SCfg} {g : GCfg} (hR : R G cx s g) (hsc : RunScoped w s)
    (hd : ∀ m, ∃ g', giter w G m g = .next g') : ∀ n, ∃ s', siter w n s = .next s' := by
  intro n
  cases hs : siter w n s with
  | next s' => exact ⟨s', rfl⟩
  | fin o h =>
    obtain ⟨m, hm⟩ := finish_agree w G cx hR hsc hs
    obtain ⟨g', hg'⟩ := hd m
    rw [hm] at hg'; cases hg'

/-- The graph finishes ⇒ the source finishes, with the same outcome and the same history. -/
theorem finish_agree_conv {s : SCfg} {g : GCfg} (hR : R G cx s g) (hsc : RunScoped w s)
    {m : Nat} {o : Outcome} {h : Hist} (hf : giter w G m g = .fin o h) :
    ∃ n, siter w n s = .fin o h := by
  by_cases hex : ∃ n o' h', siter w n s = .fin o' h'
  · obtain ⟨n, o', h', hs⟩ := hex
    obtain ⟨m', hm'⟩ := finish_agree w G cx hR hsc hs
    have h1 := giter_fin_stable w G hf m'
    have h2 := giter_fin_stable w G hm' m
    rw [Nat.add_comm] at h2
    rw [h1] at h2
    cases h2
    exact ⟨n, hs⟩
  · have hd : ∀ n, ∃ s', siter w n s = .next s' := by
      intro n
      cases hs : siter w n s with
      | next s' => exact ⟨s', rfl⟩
      | fin o' h' => exact absurd ⟨n, o', h', hs⟩ hex
    obtain ⟨g', hg'⟩ := diverge_agree w G cx hR hsc hd m
    rw [hf] at hg'; cases hg'

/-- C01 for related configurations whose source run is scoped: same final outcome and history
(both directions) and same divergence (both directions). -/
theorem C01_equivalence_partial {s : SCfg} {g : GCfg} (hR : R G cx s g) (hsc : RunScoped w s) :
    (∀ o h, (∃ n, siter w n s = .fin o h) ↔ (∃ m, giter w G m g = .fin o h)) ∧
    ((∀ n, ∃ s', siter w n s = .next s') ↔ (∀ m, ∃ g', giter w G m g = .next g')) ∧
    (∀ n, ∃ m, histG (giter w G m g) = histS (siter w n s)) :=
  ⟨fun _ _ => ⟨fun ⟨_, hn⟩ => finish_agree w G cx hR hsc hn,
               fun ⟨_, hm⟩ => finish_agree_conv w G cx hR hsc hm⟩,
   ⟨diverge_agree w G cx hR hsc, diverge_agree_conv w G cx hR hsc⟩,
   histories_agree w G cx hR hsc⟩

#print axioms C01_equivalence_partial

/-! ### the static hypothesis -/

theorem wellScoped_runScoped {s : SCfg} (hw : WellScoped s) : RunScoped w s :=
  fun k _ hk => wellScoped_stepScoped (wellScoped_siter w k hw hk)

/-- C01, full statement: for EVERY world, chunk table and context, configurations related by the
compilation relation, the source one statically well scoped, have the same behaviour — the same
final outcome and history (in both directions), the same divergence (in both directions), and
every source history is a graph history. -/
def C01_equivalence_full : Prop :=
  ∀ (w : SWorld) (G : List Chunk) (cx : Ctx) (s : SCfg) (g : GCfg), R G cx s g → WellScoped s →
    (∀ o h, (∃ n, siter w n s = .fin o h) ↔ (∃ m, giter w G m g = .fin o h)) ∧
    ((∀ n, ∃ s', siter w n s = .next s') ↔ (∀ m, ∃ g', giter w G m g = .next g')) ∧
    (∀ n, ∃ m, histG (giter w G m g) = histS (siter w n s))

theorem C01_equivalence : C01_equivalence_full :=
  fun w G cx _ _ hR hw => C01_equivalence_partial w G cx hR (wellScoped_runScoped w hw)

#print axioms C01_equivalence

/-! ### C02(b) / C11: conditions -/

/-- C02(b): the chain of test chunks of a condition reaches its success / failure target exactly
according to left-to-right short-circuit evaluation, with exactly the history `evalCond`
produces (= `Pory.Sem.cond_sim`). -/
theorem C02_shortcircuit {c : BoolExpr} {e t : Nat} {f : Option Nat} {h : Hist}
    (hi : ImplCond G e c t f) :
    Star w G (.next ⟨e, 0, h⟩)
      (match evalCond w h c with
        | (h', true) => .next ⟨t, 0, h'⟩
        | (h', false) => goto f h') := cond_sim w G hi

/-- `&&` does not touch its right operand when the left one fails … -/
theorem C02_and_false {l r : BoolExpr} {h h1 : Hist} (hl : evalCond w h l = (h1, false)) :
    evalCond w h (.bin l .AND r) = (h1, false) := by
  simp [evalCond, hl]

/-- … and `||` does not when the left one succeeds. -/
theorem C02_or_true {l r : BoolExpr} {h h1 : Hist} (hl : evalCond w h l = (h1, true)) :
    evalCond w h (.bin l .OR r) = (h1, true) := by
  have hne : (TT.OR == TT.AND) = false := by decide
  simp [evalCond, hl, hne]

/-- The leaves an evaluation actually tests, in order. -/
def evalLeaves (w : SWorld) (h : Hist) : BoolExpr → List OpExpr
  | .leaf e => [e]
  | .bin l op r =>
    match evalCond w h l with
    | (h1, b) => if (op == .AND) = b then evalLeaves w h l ++ evalLeaves w h1 r else evalLeaves w h l

/-- One evaluation of a condition adds to the history exactly the AutoVar commands of the leaves
it tests — each once, in order, nothing else. -/
theorem evalCond_hist (c : BoolExpr) : ∀ h : Hist,
    (evalCond w h c).1 = h ++ (evalLeaves w h c).filterMap (·.preamble) := by
  induction c with
  | leaf e =>
    intro h
    cases hp : e.preamble <;> simp [evalCond, evalLeaves, runPre, hp]
  | bin l op r ihl ihr =>
    intro h
    have h1 := ihl h
    simp only [evalCond, evalLeaves]
    rcases hev : evalCond w h l with ⟨hl, bl⟩
    rw [hev] at h1
    simp only at h1
    by_cases hop : (op == TT.AND) = true <;> cases bl <;>
      simp [hop, ihr, h1, List.filterMap_append]

/-- C11: in the chunk graph, one evaluation of a condition runs the AutoVar preamble of every
leaf it tests exactly once, immediately before that test, and nothing else: the history on
arrival at the success / failure target is the old history plus those commands. -/
theorem C11_preamble_once_per_evaluation {c : BoolExpr} {e t : Nat} {f : Option Nat} {h : Hist}
    (hi : ImplCond G e c t f) :
    Star w G (.next ⟨e, 0, h⟩)
      (if (evalCond w h c).2 then .next ⟨t, 0, h ++ (evalLeaves w h c).filterMap (·.preamble)⟩
       else goto f (h ++ (evalLeaves w h c).filterMap (·.preamble))) := by
  have hs := cond_sim w G (h := h) hi
  rw [← evalCond_hist]
  rcases hev : evalCond w h c with ⟨h', b⟩
  rw [hev] at hs
  cases b <;> simpa using hs

/-! ### non-vacuity -/

open Pory.Sem.Example in
/-- The full statement instantiated on the concrete table of `SimExample.lean`, every world. -/
example (w : SWorld) :
    (∀ o h, (∃ n, siter w n s0 = .fin o h) ↔ (∃ m, giter w Example.G m g0 = .fin o h)) ∧
    ((∀ n, ∃ s', siter w n s0 = .next s') ↔ (∀ m, ∃ g', giter w Example.G m g0 = .next g')) ∧
    (∀ n, ∃ m, histG (giter w Example.G m g0) = histS (siter w n s0)) :=
  C01_equivalence w Example.G Example.cx s0 g0 R0 wellScoped0

open Pory.Sem.Example in
/-- … and in the world `wex` the source run ends with `end` after `checkitem, a, checkitem`, so
the graph run does too. -/
example : ∃ m, giter wex Example.G m g0 = .fin .end_ [ck, ca, ck] :=
  finish_agree wex Example.G Example.cx R0 (wellScoped_runScoped wex wellScoped0) (n := 5) rfl

end Pory.C01
