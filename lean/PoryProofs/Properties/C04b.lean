import PoryProofs.Properties.C01c
import PoryProofs.Properties.C04
/-
C04b — the two parts of C04 ("emitted assembly is closed") that `C04.lean` left to
correspondence checking, now proved for emitter-built scripts:

* `no_dangling_chunk_ids`: every id a chunk of `scriptChunks body` can transfer control to is the
  id of a chunk of the table, and is not 0 (`Emit.scriptChunks_closed` restated);
* `generated_refs_defined`: every label referenced by a generated `goto` / conditional jump /
  `case` line of an emitted script is `<script>_<d>` for a chunk id `d ≠ 0` of the table, and the
  line `<script>_<d>:` is among the lines `renderChunks` emits (combines `Closed` with
  `C04.generated_refs_registered` and the label layout of `RenderSim.renderChunks_ok`);
* `no_runoff`: "execution can never run past the end of one script" — under the hypotheses of
  `C01c.end_to_end`, for compatible worlds NO assembly run from the first line ends in `runOff`
  (nor in `stuck`): a finished assembly run ends as a finished source run does
  (`C01c.end_to_end_converse`), and diverging source runs give diverging assembly runs.

Hypotheses of `no_runoff`: those of `C01c.end_to_end` (`ScopeIdsDistinct`, `OneDefaultL`,
`WellScoped` — parser guarantees; `PreamblesPlain` — configuration; `Compat` — the two worlds
agree).  The first two theorems need nothing but the success of `scriptChunks` / `emitScript`.
-/
namespace Pory.C04b
open Pory Pory.Emit Pory.Sem Pory.Asm Pory.RenderSim

/-- **No dangling chunk ids**: every id a chunk can jump / fall / return to is the id of a chunk
of the table, and never the entry chunk 0. -/
theorem no_dangling_chunk_ids (body : List Stmt) (chunks : List Chunk)
    (h : scriptChunks body = .ok chunks) :
    ∀ c ∈ chunks, ∀ d ∈ targets c, d ≠ 0 ∧ ∃ c' ∈ chunks, c'.id = d := by
  intro c hc d hd
  obtain ⟨h1, h2⟩ := scriptChunks_closed body chunks h c hc d hd
  exact ⟨h1, by simpa using h2⟩

/-- every id `renderBranching` registers as a jump target is a target of the chunk -/
theorem registered_sub_targets (o : Opts) (patches : List ((Nat × Nat) × String)) (n : String)
    (c : Chunk) (next : Option Nat) :
    ∀ d ∈ (renderBranching o patches n c next).2.1, d ∈ targets c := by
  intro d hd
  rw [renderBranching_eq] at hd
  unfold targets
  have hex : ∀ (dest : Option Nat), d ∈ (exitTo n dest next).2.1 → dest = some d := by
    intro dest h
    unfold exitTo at h
    cases dest with
    | none => simp at h
    | some x =>
      simp only at h
      split at h
      · simp at h; rw [h]
      · simp at h
  cases hb : c.branch with
  | none =>
    rw [hb] at hd
    simp only at hd
    cases hr : c.returnID with
    | none => rw [hr] at hd; simp at hd
    | some r => rw [hr] at hd; simp only at hd; have := hex _ hd; simp at this; simp [this]
  | jump x => rw [hb] at hd; simp only at hd; have := hex _ hd; simp at this; simp [this]
  | breakCtx x => rw [hb] at hd; simp only at hd; have := hex _ hd; simp [this]
  | leaf t e f =>
    rw [hb] at hd
    simp only [prepend, List.mem_append, List.mem_singleton] at hd
    rcases hd with rfl | hd
    · simp
    · have := hex _ hd; simp [this]
  | switch_ op cs df de =>
    rw [hb] at hd
    simp only [prepend, List.mem_append] at hd
    rcases hd with hd | hd
    · simp only [List.mem_append]; exact .inl (.inl hd)
    · cases df with
      | some x => simp only at hd; have := hex _ hd; simp at this; simp [this]
      | none =>
        simp only at hd
        split at hd
        · simp at hd
        · have := hex _ hd; simp [this]

/-- the label line of every entry / registered chunk of the order is in the layout -/
theorem label_in_layout (o : Opts) (patches : List ((Nat × Nat) × String)) (name : String)
    (G : List Chunk) (isGlobal : Bool) (jumps : List Nat) : ∀ (order : List Nat), ∀ d ∈ order,
    (d == 0 || jumps.contains d) = true →
    (chunkLabel name d, (d == 0 && isGlobal)) ∈ labelsOf (layout o patches name G isGlobal jumps order) := by
  intro order
  induction order with
  | nil => intro d hd; cases hd
  | cons x rest ih =>
    intro d hd hj
    rw [layout_cons, labelsOf_append, labelsOf_append]
    rcases List.mem_cons.1 hd with rfl | hd
    · refine List.mem_append_left _ (List.mem_append_left _ ?_)
      unfold lbl
      rw [if_pos hj]
      simp
    · exact List.mem_append_right _ (ih d hd hj)

/-- **Every generated jump target is a label the script defines.**  For the lines `ls` emitted
for a script: each label `x` referenced by the generated branching lines of the chunk `k` (laid
out before `rest`) is `chunkLabel name d` for a chunk id `d ≠ 0` of the table, and its label line
is in `ls`. -/
theorem generated_refs_defined (o : Opts) (patches : List ((Nat × Nat) × String)) (tl : List String)
    (s : Script) (ls : List Line) (he : emitScript o patches tl s = .ok ls) :
    ∃ chunks order, scriptChunks s.body = .ok chunks ∧ C05.chunkOrder o chunks = .ok order ∧
      ∀ pre k rest, order = pre ++ k :: rest → ∀ c, findChunk chunks k = some c →
        ∀ x ∈ C04.refsOf (renderBranching o patches s.name c rest.head?).1,
          ∃ d, d ≠ 0 ∧ d ∈ chunks.map (·.id) ∧ x = chunkLabel s.name d ∧ (x, false) ∈ labelsOf ls := by
  rw [C05.emitScript_eq] at he
  cases hc : scriptChunks s.body with
  | error e => rw [hc] at he; cases he
  | ok chunks =>
    rw [hc] at he
    simp only at he
    obtain ⟨order, ho, hls, _⟩ := renderChunks_ok o patches s.name chunks (s.scope == .GLOBAL) tl ls he
    obtain ⟨_, h0⟩ := C05.scriptChunks_ids s.body chunks hc
    obtain ⟨hperm, _⟩ := C05.chunkOrder_perm o chunks order h0 ho
    refine ⟨chunks, order, rfl, ho, ?_⟩
    intro pre k rest hord c hfc x hx
    obtain ⟨d, hd, rfl⟩ := C04.generated_refs_registered o patches s.name c rest.head? x hx
    have hcG : c ∈ chunks := List.mem_of_find?_eq_some hfc
    obtain ⟨hd0, hdG⟩ := scriptChunks_closed s.body chunks hc c hcG d
      (registered_sub_targets o patches s.name c rest.head? d hd)
    have hco : chunkOf chunks k = c := by simp [chunkOf, hfc]
    have hreg : d ∈ regsOf o patches s.name chunks order := by
      rw [hord]
      exact regsOf_mem o patches s.name chunks k rest pre d (by rw [hco]; exact hd)
    have hlab := label_in_layout o patches s.name chunks (s.scope == .GLOBAL)
      (regsOf o patches s.name chunks order) order d (hperm.mem_iff.2 hdG) (by simp [hreg])
    have hcl : chunkLabel s.name d = jumpLabel s.name d := by simp [chunkLabel, jumpLabel, hd0]
    refine ⟨d, hd0, hdG, hcl.symm, ?_⟩
    rw [hls, ← hcl]
    have hf : (d == 0 && (s.scope == TT.GLOBAL)) = false := by simp [hd0]
    rw [hf] at hlab
    exact hlab

/-- **No run-off** (C04: "execution can never run past the end of one script").  Under the
hypotheses of `C01c.end_to_end`, for every pair of compatible worlds: NO finished assembly run
from the first line ends in `runOff` or `stuck` — it ends as some finished source run does
(`C01c.end_to_end_converse`); and when the source run finishes, a finished assembly run exists
(`no_runoff_exists`). -/
theorem no_runoff (o : Opts) (patches : List ((Nat × Nat) × String)) (tl : List String) (s : Script)
    (ls : List Line)
    (hs : ScopeIdsDistinct s.body) (hd : OneDefaultL s.body) (hw : WellScoped ⟨s.body, [], []⟩)
    (hp : PreamblesPlain s.body) (he : emitScript o patches tl s = .ok ls) :
    ∃ chunks, scriptChunks s.body = .ok chunks ∧
      ∀ (w : SWorld) (aw : AWorld), Compat o patches s.name chunks w aw →
        ∀ (regs : Spec.Regs) (sw : String) (m : Nat) (oc' : AOutcome) (ah : AHist),
          aiter aw ls m ⟨0, [], regs, sw⟩ = .fin oc' ah → oc' ≠ .runOff ∧ ∀ why, oc' ≠ .stuck why := by
  obtain ⟨chunks, hc, _⟩ := C01c.end_to_end o patches tl s ls hs hd hw hp he
  refine ⟨chunks, hc, ?_⟩
  intro w aw C regs sw m oc' ah hm
  obtain ⟨n, oc, h, _, hrel, _⟩ :=
    C01c.end_to_end_converse o patches tl s ls hs hd hw hp he chunks hc w aw C regs sw m oc' ah hm
  constructor
  · intro e; subst e; cases oc <;> exact hrel
  · intro why e; subst e; cases oc <;> exact hrel

/-- … and a finished source run is matched by a finished assembly run. -/
theorem no_runoff_exists (o : Opts) (patches : List ((Nat × Nat) × String)) (tl : List String)
    (s : Script) (ls : List Line)
    (hs : ScopeIdsDistinct s.body) (hd : OneDefaultL s.body) (hw : WellScoped ⟨s.body, [], []⟩)
    (hp : PreamblesPlain s.body) (he : emitScript o patches tl s = .ok ls) :
    ∃ chunks, scriptChunks s.body = .ok chunks ∧
      ∀ (w : SWorld) (aw : AWorld), Compat o patches s.name chunks w aw →
        ∀ (oc : Outcome) (h : Hist), (∃ n, siter w n ⟨s.body, [], []⟩ = .fin oc h) →
          ∀ (regs : Spec.Regs) (sw : String), ∃ m oc' ah, aiter aw ls m ⟨0, [], regs, sw⟩ = .fin oc' ah := by
  obtain ⟨chunks, hc, hall⟩ := C01c.end_to_end o patches tl s ls hs hd hw hp he
  refine ⟨chunks, hc, ?_⟩
  intro w aw C oc h hfin regs sw
  obtain ⟨m1, oc1, hm1, _⟩ := hall w aw C oc h hfin regs sw
  exact ⟨m1, oc1, _, hm1⟩

/-- non-vacuity: `e2eScript` (C01c.lean), whose last chunk in source order is a `switch` without
default and return chunk — the situation of the `RenderSim.badG` finding — for both orders -/
example (b : Bool) := no_runoff { optimize := b } [] [] C01c.e2eScript (C01c.e2eLines b)
  C01c.e2e_scopes C01c.e2e_oneDefault C01c.e2e_wellScoped e2e_plain (C01c.e2e_emit b)

example (b : Bool) := generated_refs_defined { optimize := b } [] [] C01c.e2eScript (C01c.e2eLines b)
  (C01c.e2e_emit b)

#print axioms no_dangling_chunk_ids
#print axioms generated_refs_defined
#print axioms no_runoff
#print axioms no_runoff_exists

end Pory.C04b
