import PoryProofs.ProgramMetaSelWF
import PoryProofs.ProgramMetaConst
import PoryProofs.Properties.P2
import PoryProofs.Properties.C12c
/-
P2c — whole-file metamorphic theorems for C12 ("a poryswitch contributes exactly the statements of the case
selected by the `-s` value, or of `_`: the file compiles to what the hand-selected file compiles to") and C13
("using a constant is the same as writing its value"), assembled from P2 (whole-file grammar, `compileFile`,
`compile_print`), C12c (script bodies: `selectB`, `selL_ok`, `emit_ids_irrelevant`) and C13c (script bodies:
`expandB`, `elab_const_expand`).

Helper modules (all new): PoryProofs/ProgramMetaSel.lean (C12: invariant between the two runs of the file
elaboration, ONE order-preserving id correspondence for the whole file), ProgramMetaSelWF.lean (the selected
file is a file of the grammar again and contains no poryswitch), ProgramMetaErase.lean (the emitter never reads
the TYPE of a switch-operand / case-value token: `emitScript_erase`, by commuting C13c's `eraseL` through the
worklist of `PoryModel/Emitter.lean` and through `PoryModel/EmitRender.lean`), ProgramMetaConst.lean (C13:
`expandTops`, invariant, `elabTops_exp`, `post_exp`, well-formedness of the expanded file).

GRAMMAR: the files of P2 (`STop`: script / raw / const / movement / mart / text statements; script bodies = the
statement grammar of P1). Everything is stated on `compileFile env o eofT ts : Except CErr Sections` (P2: the
reference elaboration `elabTops`, the post-passes `finish`, the emitter as four sections of blocks;
`Sections.lines` = the lines `emitProgram` returns) and transported to the model's own pipeline
`compileToks` (= `parseTokens`, then `emitProgram`) on the printed tokens by `P2.compile_print`.

1. C12 — `selectTops env ts`: in every script body every statement-level poryswitch replaced (recursively) by
   the statements of its selected case (`C12c.selectB`).
   PROVED
   * `file_poryswitch_selected` : if the file ELABORATES (`elabTops env ts (initState eofT) = .ok _`: the parser
     accepts it up to the post-passes) and every script body of the selected file obeys the `continue` rule
     (`ContLastTops (selectTops env ts)`, decidable; C12c's `ContLast` lifted to all scripts), then
         `compileFile env o eofT (selectTops env ts) = compileFile env o eofT ts`
     — the same `Sections` or the same error of the post-passes (duplicate text / movement label) or of the
     emitter, for all emitter options. The command ids and scope ids of EVERY later script differ in the two
     parses (ids are not reset between scripts; the unselected cases consume ids): one correspondence `R` for
     the whole file is threaded through `elabTops` (`elabTops_sel`), the patch lists correspond under it, and
     `P2.topBlocks_frame` / `C12c.patchedArgs_rel` show that it does not reach the output.
   * `file_poryswitch_selected_ok` : `compileFile … ts = .ok S → compileFile … (selectTops env ts) = .ok S`.
   * `file_poryswitch_selected_tokens` : the same through `compileToks` on the printed tokens of both files
     (`selectTops_twf`: the selected file of a well-formed file is well formed).
   * `selectTops_noPory` : the selected file of an accepted file contains no statement-level poryswitch.
   FALSE OF THE MODEL (witnesses, `decide` / `rfl`; `file_poryswitch_selected_full_false`)
   * `selected_file_may_compile_alone` (the F18 direction): "both fail or both compile" is false — with `-s V=B`,
     `script X { poryswitch (V) { A: break _: foo } }` is rejected because of the `break` in the case that is NOT
     selected, the hand-selected file `script X { foo }` compiles. So equality of PARSE errors cannot hold; what
     holds is the implication from the original file (hypothesis "the file elaborates").
   * `selected_file_continue_rejected` : the `continue` rule is needed (C12c's finding, as files).
2. C13 — `expandTops ts`: the `const` statements dropped; in every later statement every use site replaced by
   the tokens of the value (values are stored fully expanded: `C13b.newWords`): script bodies by C13c's
   `expandB wt` (command arguments, condition operands and comparison values, switch operands, case values),
   mart items by `expandToks wt` — the P2 grammar substitutes in mart items (`stepTop`), NOT in movement
   steps, names, raw / text statements, and neither does `expandTops`.
   PROVED
   * `file_const_expand` : for `ConstsOK ts` (decidable: const names are new, every value is a non-empty list
     of tokens with non-empty literals — then no `const` statement fails and the stored value is the
     single-space join of its words —; a mart item that names a constant names a ONE-word value)
         `compileFile env o eofT (expandTops ts) = compileFile env o eofT ts`
     — the same sections, or the same error (located parse error of a script body, post-passes, emitter); all
     options. No condition on the values is needed at this level (the expansion is a tree: `setvar(K)` with
     `K = 1 , 2` stays ONE argument).  The two parses differ in the TYPE of switch-operand / case-value tokens
     (`case N` stores `IDENT "5"`, `case 5` stores `INT "5"`: C13c's `eraseL`); `emitScript_erase` (new) shows
     the emitter does not read it.
   * `file_const_expand_parse` : the parser alone — the same located error.
   * `file_const_expand_tokens` : through `compileToks` on the printed tokens of both files, when moreover the
     values are plain tokens where they are used (`PlainOK`, decidable: C13c's `PlainValues` at every script —
     F24 —, IDENT words in mart lists); `expandTops_twf`: then the expanded file is a file of the grammar.
   FALSE OF THE MODEL (witnesses by `decide`; `file_const_expand_full_false`)
   * `mart_multiword_differs` : `const W = A B  mart M { W }` emits ONE line `.2byte A B`; the hand expansion
     `mart M { A B }` two lines — a mart item is substituted as a string, the list is not re-split.
   * `const_errors_lost` : dropping the `const` statements drops their errors (a redefined constant).
   * `comma_value_file` (F24 for files): with `const K = 1 , 2` the printed tokens of the expanded file are the
     printed tokens of `setvar(1, 2)` with TWO arguments — `PlainOK` is needed for the token-level statement.
3. OUTSIDE (nothing here says anything about them): `mapscripts` statements; poryswitch inside movement / mart
   lists and text statements (C12b / C14b on the parser); `format( … )` text values; constants in `mapscripts`
   entries; everything P2 / P1 list as not covered (a `const` as the last statement of a file, token sequences
   outside the grammar, the lexer: statements are about token lists, `#guard`s check the example tokens against
   the model lexer). For C12 the parse errors of a file that does NOT elaborate are not compared (false in
   general, see above); for C13 files violating `ConstsOK` are not compared (false in general, see above).

Nothing is left partial inside this scope.
-/
namespace Pory.P2c
open Pory Pory.Parser Pory.C02P Pory.StmtG Pory.TopParse Pory.Emit Pory.P2
open Pory.C12c

/-! ## 1. C12 for whole files -/

/-- **C12, whole files.** If the file elaborates (the parser accepts it up to the post-passes) and the
hand-selected file obeys the `continue` rule in every script body, then the selected file compiles to exactly
the same result: the same `Sections` (hence the same lines), or the same error of the post-passes / of the
emitter. The renumbering of command ids and scope ids across the whole file does not show. -/
theorem file_poryswitch_selected (env : Env) (o : Opts) (eofT : Tok) (ts : List STop) (tops : List Top)
    (s : PState) (h : elabTops env ts (initState eofT) = .ok (tops, s))
    (hcl : ContLastTops (selectTops env ts)) :
    compileFile env o eofT (selectTops env ts) = compileFile env o eofT ts := by
  obtain ⟨tops', s', R, e, _, inv, rel⟩ := elabTops_sel env ts (selInv_init eofT) tops s h hcl
  rw [compileFile_post, compileFile_post, e, h]
  exact post_sel o inv rel

/-- … for a file that compiles: the selected file compiles to the SAME sections. -/
theorem file_poryswitch_selected_ok (env : Env) (o : Opts) (eofT : Tok) (ts : List STop) (S : Sections)
    (h : compileFile env o eofT ts = .ok S) (hcl : ContLastTops (selectTops env ts)) :
    compileFile env o eofT (selectTops env ts) = .ok S := by
  obtain ⟨tops, s, he, _⟩ := (compileFile_ok_iff env o eofT ts S).1 h
  rw [file_poryswitch_selected env o eofT ts tops s he hcl, h]

/-- Every script body of an accepted file has a selected form (no poryswitch without selected case). -/
theorem elabTops_selected_defined (env : Env) : ∀ (ts : List STop) (a : PState) (r : List Top × PState),
    elabTops env ts a = .ok r → ∀ kw md name lb body rb, STop.script kw md name lb body rb ∈ ts →
    ∃ b', selectB env body = some b'
  | [], _, _, _, _, _, _, _, _, _, hm => nomatch hm
  | t :: rest, a, r, h, kw, md, name, lb, body, rb, hm => by
    simp only [elabTops] at h
    cases h1 : stepTop env t a with
    | error e => rw [h1] at h; cases h
    | ok q =>
      obtain ⟨o, a2⟩ := q
      rw [h1] at h
      simp only at h
      cases h2 : elabTops env rest a2 with
      | error e => rw [h2] at h; cases h
      | ok q2 =>
        rcases List.mem_cons.1 hm with rfl | hm
        · simp only [stepTop] at h1
          cases he : elabE env name.lit (ctxOf a) body with
          | error e => rw [he] at h1; cases h1
          | ok q3 =>
            obtain ⟨stmts, imp, c1⟩ := q3
            unfold elabE at he
            cases hl : elabL env name.lit (substC (ctxOf a).consts) (ctxOf a).breakStack (ctxOf a).continueStack
                true body (ctxOf a).nextSid (ctxOf a).nextCmdId with
            | error e => rw [hl] at he; cases he
            | ok q4 =>
              obtain ⟨x, m, s1, k1⟩ := q4
              obtain ⟨_, _, bs, hsel, _⟩ := selL_ok env name.lit _ body _ _ _ _ _ _ _ _ _ hl
              exact ⟨bs, hsel⟩
        · exact elabTops_selected_defined env rest a2 q2 h2 kw md name lb body rb hm

/-- **The hand-selected file contains no statement-level poryswitch** (for an accepted file). -/
theorem selectTops_noPory (env : Env) (ts : List STop) (a : PState) (r : List Top × PState)
    (h : elabTops env ts a = .ok r) : ∀ t ∈ selectTops env ts, NoPoryTop t := by
  intro t ht
  simp only [selectTops, List.mem_map] at ht
  obtain ⟨t0, ht0, rfl⟩ := ht
  cases t0 with
  | script kw md name lb body rb =>
    obtain ⟨b', hb'⟩ := elabTops_selected_defined env ts a r h kw md name lb body rb ht0
    simp only [selTop, hb', Option.getD_some, NoPoryTop]
    exact selL_noPory env body b' hb'
  | _ => trivial

/-- **C12, whole files, through the model's pipeline on tokens** (`parseTokens`, then `emitProgram`): the
printed tokens of the file and of the hand-selected file give the same result. -/
theorem file_poryswitch_selected_tokens (env : Env) (o : Opts) (eofT : Tok) (heof : eofT.type = .EOF)
    (ts : List STop) (hwf : TWF ts) (p : Program) (h : parseTokens env (printTops ts ++ [eofT]) = .ok p)
    (hcl : ContLastTops (selectTops env ts)) :
    compileToks env o (printTops (selectTops env ts) ++ [eofT]) = compileToks env o (printTops ts ++ [eofT]) := by
  rw [parse_file_elab env eofT heof ts hwf] at h
  obtain ⟨tops, s, he, _⟩ := parse_file_program env ts _ p h
  rw [compile_print env o eofT heof _ hwf, compile_print env o eofT heof _ (selectTops_twf env ts hwf),
    file_poryswitch_selected env o eofT ts tops s he hcl]

/-! ### what is false: the converse, and the statement without the `continue` rule -/

/-- The statement "both files fail or both compile to the same sections", without hypotheses. -/
def file_poryswitch_selected_full : Prop :=
  ∀ (env : Env) (o : Opts) (eofT : Tok) (ts : List STop),
    (∀ S, compileFile env o eofT ts = .ok S ↔ compileFile env o eofT (selectTops env ts) = .ok S)

section Example

private def lp : Tok := tk .LPAREN "("
private def rp : Tok := tk .RPAREN ")"
private def lb : Tok := tk .LBRACE "{"
private def rb : Tok := tk .RBRACE "}"
private def colon : Tok := tk .COLON ":"
private def z : Nat → TPos := fun _ => {}
private def cond (lf : Leaf) : SCond := .plain (.one (.one (.leaf lf)))
private def pory (x : String) (cases : List SPCase) : SStmt :=
  .pory (tk .PORYSWITCH "poryswitch") lp (tk .IDENT x) rp lb cases rb
private def scr (n : String) (body : List SStmt) : STop :=
  .script (tk .SCRIPT "script") .absent (tk .IDENT n) lb body rb

/-- compile with `-s V=v` -/
def exEnv (v : String) : Env := { switches := [("V", v)] }

/-- `script X { poryswitch (V) { A: break _: foo } }` -/
def exF18 : List STop :=
  [scr "X" [pory "V" [.colon (tk .IDENT "A") colon (.brk (tk .BREAK "break")),
                      .colon (tk .IDENT "_") colon (.cmd0 (tk .IDENT "foo"))]]]

/-- **The F18 direction for whole files**: with `-s V=B` the file is rejected because of the `break` in the case
that is NOT selected, the hand-selected file `script X { foo }` compiles. -/
theorem selected_file_may_compile_alone :
    elabTops (exEnv "B") exF18 (initState P2.eofT) =
      .error (newParseError (tk .BREAK "break") "'break' statement outside of any break-able scope") ∧
    selectTops (exEnv "B") exF18 = [scr "X" [.cmd0 (tk .IDENT "foo")]] ∧
    compileFile (exEnv "B") exO P2.eofT (selectTops (exEnv "B") exF18) =
      .ok { tops := [[.labelDef "X" true, .command "foo" [], .terminator false, .blank]] } :=
  ⟨rfl, rfl, toOption_some (by decide)⟩

/-- `script X { while { poryswitch (V) { A { continue } } foo } }` -/
def exCont : List STop :=
  [scr "X" [.whileInf (tk .WHILE "while") lb
    [pory "V" [.brace (tk .IDENT "A") lb [.cont (tk .CONTINUE "continue")] rb], .cmd0 (tk .IDENT "foo")] rb]]

/-- **The `continue` rule is needed** (C12c's finding, for whole files): with `-s V=A` the file compiles, the
hand-selected file `script X { while { continue foo } }` is rejected. -/
theorem selected_file_continue_rejected :
    (compileFile (exEnv "A") exO P2.eofT exCont).toOption.isSome = true ∧
    ¬ ContLastTops (selectTops (exEnv "A") exCont) ∧
    elabTops (exEnv "A") (selectTops (exEnv "A") exCont) (initState P2.eofT) =
      .error (newParseError (tk .CONTINUE "continue") "'continue' must be the last statement in block scope") :=
  ⟨by decide, by decide, rfl⟩

/-- The unconditional statement is false (in both directions). -/
theorem file_poryswitch_selected_full_false : ¬ file_poryswitch_selected_full := by
  intro H
  have h := (H (exEnv "B") exO P2.eofT exF18 _).2 selected_file_may_compile_alone.2.2
  rw [compileFile_post, selected_file_may_compile_alone.1] at h
  cases h

/-! ### non-vacuity: two scripts, a poryswitch in each, `-s V=A` -/

/-- `script S1 { lock poryswitch (V) { A { msgbox("a") } _ { foo } } release }` -/
def exS1 : STop :=
  scr "S1"
    [.cmd0 (tk .IDENT "lock"),
     pory "V" [.brace (tk .IDENT "A") lb [.cmdI (tk .IDENT "msgbox") lp [.str (tk .STRING "a")] [] rp] rb,
               .brace (tk .IDENT "_") lb [.cmd0 (tk .IDENT "foo")] rb],
     .cmd0 (tk .IDENT "release")]

/-- `script S2 { poryswitch (V) { B: bar _: baz } while (flag(F)) { poryswitch (V) { A: msgbox("b") } } }` -/
def exS2 : STop :=
  scr "S2"
    [pory "V" [.colon (tk .IDENT "B") colon (.cmd0 (tk .IDENT "bar")),
               .colon (tk .IDENT "_") colon (.cmd0 (tk .IDENT "baz"))],
     .while_ (tk .WHILE "while") lp (cond (.flagBare z false "F")) rp lb
       [pory "V" [.colon (tk .IDENT "A") colon (.cmdI (tk .IDENT "msgbox") lp [.str (tk .STRING "b")] [] rp)]] rb]

def exFile : List STop := [exS1, exS2]

-- sanity check (evaluation, not a proof): the printed tokens are what the model lexer produces
#guard (Lexer.lexAll ("script S1 { lock poryswitch (V) { A { msgbox(\"a\") } _ { foo } } release } " ++
    "script S2 { poryswitch (V) { B: bar _: baz } while (flag(F)) { poryswitch (V) { A: msgbox(\"b\") } } }").toList).map
      (fun t => (t.type, t.lit)) ==
  (printTops exFile ++ [P2.eofT]).map (fun t => (t.type, t.lit))

/-- the hand-selected file: `script S1 { lock msgbox("a") release }  script S2 { baz while (flag(F)) { msgbox("b") } }`
(case `A { … }` by its key in `S1`; in `S2` the `_ :` case — no key `A` — and, inside the loop, the `A :` case) -/
def exFileSel : List STop :=
  [scr "S1" [.cmd0 (tk .IDENT "lock"), .cmdI (tk .IDENT "msgbox") lp [.str (tk .STRING "a")] [] rp,
             .cmd0 (tk .IDENT "release")],
   scr "S2" [.cmd0 (tk .IDENT "baz"),
             .while_ (tk .WHILE "while") lp (cond (.flagBare z false "F")) rp lb
               [.cmdI (tk .IDENT "msgbox") lp [.str (tk .STRING "b")] [] rp] rb]]

theorem exFile_sel : selectTops (exEnv "A") exFile = exFileSel := rfl
theorem exFile_wf : TWF exFile := by decide
theorem exFile_cl : ContLastTops (selectTops (exEnv "A") exFile) := by decide

/-- the sections both files compile to -/
def exSections : Sections :=
  { tops := [[.labelDef "S1" true, .command "lock" [], .command "msgbox" ["S1_Text_0"], .command "release" [],
              .terminator false, .blank],
             [.labelDef "S2" true, .command "baz" [], .labelDef "S2_1" false, .goto_ "S2_3", .blank,
              .labelDef "S2_2" false, .command "msgbox" ["S2_Text_0"], .goto_ "S2_1", .blank,
              .labelDef "S2_3" false, .gotoIfSet "F" "S2_2", .terminator false, .blank]],
    inl := [[.labelDef "S1_Text_0" false, .textLine "string" "a$"],
            [.labelDef "S2_Text_0" false, .textLine "string" "b$"]] }

/-- **Non-vacuity**: both sides computed (`decide`) … -/
theorem exFile_compiled : compileFile (exEnv "A") exO P2.eofT exFile = .ok exSections :=
  toOption_some (by decide)
theorem exFileSel_compiled : compileFile (exEnv "A") exO P2.eofT exFileSel = .ok exSections :=
  toOption_some (by decide)

/-- … although the two parses differ: the original file numbers the second `msgbox` 6 (`lock` 0, `msgbox` 1,
`foo` 2, `release` 3, `bar` 4, `baz` 5), the selected file 4 — the ids are not reset between scripts, the gap
left by `S1` shifts all ids of `S2`. -/
example :
    (elabFile (exEnv "A") exFile (initState P2.eofT)).toOption.map (·.patches) =
      some [((1, 0), "S1_Text_0"), ((6, 0), "S2_Text_0")] ∧
    (elabFile (exEnv "A") exFileSel (initState P2.eofT)).toOption.map (·.patches) =
      some [((1, 0), "S1_Text_0"), ((4, 0), "S2_Text_0")] := by decide

/-- The theorem instantiated: its hypotheses hold on the example, and it gives `exFileSel_compiled` from
`exFile_compiled`. -/
example : compileFile (exEnv "A") exO P2.eofT exFileSel = .ok exSections :=
  exFile_sel ▸ file_poryswitch_selected_ok (exEnv "A") exO P2.eofT exFile exSections exFile_compiled exFile_cl

/-- … for every emitter option (optimised chunk order, line markers), where `decide` does not reach. -/
example (o : Opts) : compileFile (exEnv "A") o P2.eofT exFileSel = compileFile (exEnv "A") o P2.eofT exFile := by
  obtain ⟨tops, s, he, _⟩ := (compileFile_ok_iff _ _ _ _ _).1 exFile_compiled
  exact exFile_sel ▸ file_poryswitch_selected (exEnv "A") o P2.eofT exFile tops s he exFile_cl

/-- … and through the model's pipeline on the printed tokens. -/
example (o : Opts) :
    compileToks (exEnv "A") o (printTops exFileSel ++ [P2.eofT]) =
      compileToks (exEnv "A") o (printTops exFile ++ [P2.eofT]) := by
  have hp : ∃ p, parseTokens (exEnv "A") (printTops exFile ++ [P2.eofT]) = .ok p := by
    rw [parse_file_elab _ P2.eofT rfl exFile exFile_wf]
    obtain ⟨tops, s, he, h1, h2, _⟩ := (compileFile_ok_iff _ _ _ _ _).1 exFile_compiled
    unfold elabFile
    rw [he]
    exact (finish_ok_iff tops s).2 ⟨h1, h2⟩
  obtain ⟨p, hp⟩ := hp
  exact exFile_sel ▸ file_poryswitch_selected_tokens (exEnv "A") o P2.eofT rfl exFile exFile_wf p hp exFile_cl

/-- no poryswitch is left in the selected file -/
example : ∀ t ∈ exFileSel, NoPoryTop t := by decide

end Example

/-! ## 2. C13 for whole files -/
section C13
open Pory.C13b Pory.C13c

/-- **C13, whole files.** For a file whose `const` statements are in order (`ConstsOK`: new names, non-empty
values of tokens with non-empty literals; mart items name one-word values only), the hand-expanded file —
`const` statements dropped, every later use replaced by the tokens of the fully expanded value — compiles to
exactly the same result: the same `Sections` (hence the same lines) or the same error (of the parser, located;
of the post-passes; of the emitter). -/
theorem file_const_expand (env : Env) (o : Opts) (eofT : Tok) (ts : List STop) (hok : ConstsOK ts) :
    compileFile env o eofT (expandTops ts) = compileFile env o eofT ts := by
  have h := elabTops_exp env ts (expInv_init eofT) hok
  rw [compileFile_post, compileFile_post]
  cases he : elabTops env ts (initState eofT) with
  | error e =>
    rw [he] at h
    simp only [expandTops, h]
  | ok q =>
    rw [he] at h
    obtain ⟨tops', b1, wt1, e1, inv1, rel1⟩ := h
    simp only [expandTops, e1]
    exact post_exp o inv1 rel1

/-- … on the parser alone: the same located error, or both files are accepted. -/
theorem file_const_expand_parse (env : Env) (eofT : Tok) (ts : List STop) (hok : ConstsOK ts) :
    (∀ e, elabFile env ts (initState eofT) = .error e ↔ elabFile env (expandTops ts) (initState eofT) = .error e) := by
  intro e
  have h := file_const_expand env { optimize := false } eofT ts hok
  rw [compileFile_post, compileFile_post] at h
  unfold elabFile
  unfold post at h
  cases h1 : elabTops env ts (initState eofT) with
  | error e1 =>
    rw [h1] at h
    cases h2 : elabTops env (expandTops ts) (initState eofT) with
    | error e2 => rw [h2] at h; simp only [Except.error.injEq, CErr.parse.injEq] at h; rw [h]
    | ok q2 =>
      rw [h2] at h
      simp only at h
      split at h
      · rename_i e3 hf; simp only [Except.error.injEq, CErr.parse.injEq] at h; simp only [hf, h]
      · split at h <;> cases h
  | ok q1 =>
    rw [h1] at h
    cases h2 : elabTops env (expandTops ts) (initState eofT) with
    | error e2 =>
      rw [h2] at h
      simp only at h
      split at h
      · rename_i e3 hf; simp only [Except.error.injEq, CErr.parse.injEq] at h; simp only [hf, h]
      · split at h <;> cases h
    | ok q2 =>
      rw [h2] at h
      simp only at h ⊢
      cases hf1 : finish q1.1 q1.2 with
      | error e3 =>
        rw [hf1] at h
        cases hf2 : finish q2.1 q2.2 with
        | error e4 => rw [hf2] at h; simp only [Except.error.injEq, CErr.parse.injEq] at h; rw [h]
        | ok p2 => rw [hf2] at h; simp only at h; split at h <;> cases h
      | ok p1 =>
        rw [hf1] at h
        cases hf2 : finish q2.1 q2.2 with
        | error e4 => rw [hf2] at h; simp only at h; split at h <;> cases h
        | ok p2 => simp

/-- **C13, whole files, through the model's pipeline on tokens**: when, in addition, the values are plain tokens
where they are used (`PlainOK`: C13c's `PlainValues` at every script, IDENT words in mart lists — then the
hand-expanded file is a file of the grammar), the printed tokens of the two files give the same result. -/
theorem file_const_expand_tokens (env : Env) (o : Opts) (eofT : Tok) (heof : eofT.type = .EOF) (ts : List STop)
    (hwf : TWF ts) (hok : ConstsOK ts) (hp : PlainOK ts) :
    compileToks env o (printTops (expandTops ts) ++ [eofT]) = compileToks env o (printTops ts ++ [eofT]) := by
  rw [compile_print env o eofT heof _ hwf, compile_print env o eofT heof _ (expandTops_twf ts hwf hok hp),
    file_const_expand env o eofT ts hok]

/-- The statement without side conditions. -/
def file_const_expand_full : Prop :=
  ∀ (env : Env) (o : Opts) (eofT : Tok) (ts : List STop),
    compileFile env o eofT (expandTops ts) = compileFile env o eofT ts

section Example

private def comma : Tok := tk .COMMA ","
private def cst (n : String) (vs : List Tok) : STop :=
  .const (tk .CONST "const") (tk .IDENT n) (tk .ASSIGN "=") vs
private def mart (n : String) (items : List Tok) : STop :=
  .mart (tk .MART "mart") .absent (tk .IDENT n) lb items rb

/-- `const N = 5  const P = ITEM_POTION  const Q = N + 1
    script S { setvar(VAR_X, Q) switch (var(VAR_X)) { case N: giveitem(P) } }  mart M { P ITEM_BALL }` -/
def exConstFile : List STop :=
  [cst "N" [tk .INT "5"],
   cst "P" [tk .IDENT "ITEM_POTION"],
   cst "Q" [tk .IDENT "N", tk .ILLEGAL "+", tk .INT "1"],
   scr "S"
     [.cmd (tk .IDENT "setvar") lp [tk .IDENT "VAR_X"] [(comma, [tk .IDENT "Q"])] rp,
      .switch_ (tk .SWITCH "switch") lp (tk .VAR "var") lp [tk .IDENT "VAR_X"] rp rp lb
        [.case (tk .CASE "case") [tk .IDENT "N"] colon [.cmd (tk .IDENT "giveitem") lp [tk .IDENT "P"] [] rp]] rb],
   mart "M" [tk .IDENT "P", tk .IDENT "ITEM_BALL"]]

/-- the hand-expanded file:
`script S { setvar(VAR_X, 5 + 1) switch (var(VAR_X)) { case 5: giveitem(ITEM_POTION) } }  mart M { ITEM_POTION ITEM_BALL }`
(`Q` is stored fully expanded: `5 + 1`; the case value `5` is now an INT token — it was the IDENT `N`) -/
def exConstFileExp : List STop :=
  [scr "S"
     [.cmd (tk .IDENT "setvar") lp [tk .IDENT "VAR_X"] [(comma, [tk .INT "5", tk .ILLEGAL "+", tk .INT "1"])] rp,
      .switch_ (tk .SWITCH "switch") lp (tk .VAR "var") lp [tk .IDENT "VAR_X"] rp rp lb
        [.case (tk .CASE "case") [tk .INT "5"] colon
          [.cmd (tk .IDENT "giveitem") lp [tk .IDENT "ITEM_POTION"] [] rp]] rb],
   mart "M" [tk .IDENT "ITEM_POTION", tk .IDENT "ITEM_BALL"]]

-- sanity checks (evaluation, not proofs): both token lists are what the model lexer produces
#guard (Lexer.lexAll ("const N = 5 const P = ITEM_POTION const Q = N + 1 script S { setvar(VAR_X, Q) " ++
    "switch (var(VAR_X)) { case N: giveitem(P) } } mart M { P ITEM_BALL }").toList).map (fun t => (t.type, t.lit)) ==
  (printTops exConstFile ++ [P2.eofT]).map (fun t => (t.type, t.lit))
#guard (Lexer.lexAll ("script S { setvar(VAR_X, 5 + 1) switch (var(VAR_X)) { case 5: giveitem(ITEM_POTION) } } " ++
    "mart M { ITEM_POTION ITEM_BALL }").toList).map (fun t => (t.type, t.lit)) ==
  (printTops exConstFileExp ++ [P2.eofT]).map (fun t => (t.type, t.lit))

theorem exConstFile_exp : printTops (expandTops exConstFile) = printTops exConstFileExp := by decide
theorem exConstFile_wf : TWF exConstFile := by decide
theorem exConstFile_ok : ConstsOK exConstFile := by decide
theorem exConstFile_plain : PlainOK exConstFile := by decide

/-- the sections both files compile to -/
def exConstSections : Sections :=
  { tops := [[.labelDef "S" true, .command "setvar" ["VAR_X", "5 + 1"], .switch_ "VAR_X", .case_ "5" "S_2",
              .terminator false, .blank,
              .labelDef "S_2" false, .command "giveitem" ["ITEM_POTION"], .terminator false, .blank],
             [.align2, .labelDef "M" false, .twoByte "ITEM_POTION", .twoByte "ITEM_BALL", .twoByte "ITEM_NONE"]] }

/-- **Non-vacuity**: both sides computed (`decide`). -/
theorem exConstFile_compiled : compileFile {} exO P2.eofT exConstFile = .ok exConstSections :=
  toOption_some (by decide)
theorem exConstFileExp_compiled : compileFile {} exO P2.eofT exConstFileExp = .ok exConstSections :=
  toOption_some (by decide)
theorem exConstFile_expand_compiled : compileFile {} exO P2.eofT (expandTops exConstFile) = .ok exConstSections :=
  toOption_some (by decide)

/-- The theorem instantiated, for every emitter option … -/
example (o : Opts) :
    compileFile {} o P2.eofT (expandTops exConstFile) = compileFile {} o P2.eofT exConstFile :=
  file_const_expand {} o P2.eofT exConstFile exConstFile_ok

/-- … and through the model's pipeline on the printed tokens (of the file and of the hand-written expansion). -/
example (o : Opts) :
    compileToks {} o (printTops exConstFileExp ++ [P2.eofT]) = compileToks {} o (printTops exConstFile ++ [P2.eofT]) :=
  exConstFile_exp ▸
    file_const_expand_tokens {} o P2.eofT rfl exConstFile exConstFile_wf exConstFile_ok exConstFile_plain

/-! ### what is false without the side conditions -/

/-- `const W = A B  mart M { W }` -/
def exMartWords : List STop := [cst "W" [tk .IDENT "A", tk .IDENT "B"], mart "M" [tk .IDENT "W"]]

/-- **A mart item that names a multi-word constant is ONE `.2byte` line, its expansion two** (the model
substitutes the literal of the item; the list is not re-split): the side condition on mart items is needed. -/
theorem mart_multiword_differs :
    ¬ ConstsOK exMartWords ∧
    (compileFile {} exO P2.eofT exMartWords).toOption.map (·.tops) =
      some [[.align2, .labelDef "M" false, .twoByte "A B", .twoByte "ITEM_NONE"]] ∧
    (compileFile {} exO P2.eofT (expandTops exMartWords)).toOption.map (·.tops) =
      some [[.align2, .labelDef "M" false, .twoByte "A", .twoByte "B", .twoByte "ITEM_NONE"]] := by
  decide

/-- `const N = 5  const N = 6  raw` -/
def exDupConst : List STop := [cst "N" [tk .INT "5"], cst "N" [tk .INT "6"], .raw (tk .RAW "raw") (tk .RAWSTRING "nop")]

/-- **Dropping the `const` statements drops their errors**: a redefined constant is rejected, the hand-expanded
file (no `const` statements) compiles. -/
theorem const_errors_lost :
    ¬ ConstsOK exDupConst ∧
    elabTops {} exDupConst (initState P2.eofT) =
      .error (newParseError (tk .IDENT "N") "duplicate const 'N'. Must use unique const names") ∧
    (compileFile {} exO P2.eofT (expandTops exDupConst)).toOption.map (·.tops) = some [[.raw "nop"]] :=
  ⟨by decide, rfl, by decide⟩

theorem file_const_expand_full_false : ¬ file_const_expand_full := by
  intro H
  have h := H {} exO P2.eofT exMartWords
  have h1 := mart_multiword_differs.2.1
  have h2 := mart_multiword_differs.2.2
  rw [h, h1] at h2
  revert h2
  decide

/-- `const K = 1 , 2  script S { setvar(K) }` and the file the printed tokens of its expansion parse to:
`script S { setvar(1 , 2) }` with TWO arguments -/
def exComma : List STop :=
  [cst "K" [tk .INT "1", comma, tk .INT "2"], scr "S" [.cmd (tk .IDENT "setvar") lp [tk .IDENT "K"] [] rp]]
def exComma2 : List STop :=
  [scr "S" [.cmd (tk .IDENT "setvar") lp [tk .INT "1"] [(comma, [tk .INT "2"])] rp]]

/-- **F24 for whole files: the values must be plain tokens for the TOKEN-level statement.** `const K = 1 , 2` is
accepted; `setvar(K)` has ONE argument `1 , 2` — also in the expanded file as a tree (`file_const_expand` needs
no condition on the values) — but the printed tokens of the expanded file ARE the printed tokens of
`setvar(1, 2)` with two arguments, and that is what the pipeline compiles them to. -/
theorem comma_value_file :
    ConstsOK exComma ∧ ¬ PlainOK exComma ∧ TWF exComma2 ∧
    printTops (expandTops exComma) = printTops exComma2 ∧
    (compileFile {} exO P2.eofT exComma).toOption.map (·.tops) =
      some [[.labelDef "S" true, .command "setvar" ["1 , 2"], .terminator false, .blank]] ∧
    (compileFile {} exO P2.eofT exComma2).toOption.map (·.tops) =
      some [[.labelDef "S" true, .command "setvar" ["1", "2"], .terminator false, .blank]] := by
  decide

end Example
end C13

#print axioms file_poryswitch_selected
#print axioms file_poryswitch_selected_ok
#print axioms file_poryswitch_selected_tokens
#print axioms selectTops_noPory
#print axioms selectTops_twf
#print axioms selected_file_may_compile_alone
#print axioms selected_file_continue_rejected
#print axioms file_poryswitch_selected_full_false
#print axioms file_const_expand
#print axioms file_const_expand_parse
#print axioms file_const_expand_tokens
#print axioms expandTops_twf
#print axioms emitScript_erase
#print axioms mart_multiword_differs
#print axioms const_errors_lost
#print axioms file_const_expand_full_false
#print axioms comma_value_file

end Pory.P2c
