import PoryProofs.ProgramMetaSelWF
import PoryProofs.Properties.P2
import PoryProofs.Properties.C12c
/-
P2c — whole-file metamorphic theorems for C12 (poryswitch = the selected case), assembled from P2 / C12c.
(WORK IN PROGRESS header — replaced at the end.)
-/
namespace Pory.P2c
open Pory Pory.Parser Pory.C02P Pory.StmtG Pory.TopParse Pory.Emit Pory.P2
open Pory.C12c

/-! ## 1. C12 for whole files -/

/-- **C12, whole files.** If the file elaborates (the parser accepts it up to the post-passes) and the
hand-selected file obeys the `continue` rule in every script body, then the selected file compiles to exactly
the same result: the same `Sections` (hence the same lines), or the same error of the post-passes / of the
emitter. The renumbering of command ids and scope ids across the whole file does not show. -/
theorem file_poryswitch_selected (env : Env) (o : Opts) (eofT : Tok) (ts : List STop) (tops : List Top)
    (s : PState) (h : elabTops env ts (initState eofT) = .ok (tops, s))
    (hcl : ContLastTops (selectTops env ts)) :
    compileFile env o eofT (selectTops env ts) = compileFile env o eofT ts := by
  obtain ⟨tops', s', R, e, _, inv, rel⟩ := elabTops_sel env ts (selInv_init eofT) tops s h hcl
  rw [compileFile_post, compileFile_post, e, h]
  exact post_sel o inv rel

/-- … for a file that compiles: the selected file compiles to the SAME sections. -/
theorem file_poryswitch_selected_ok (env : Env) (o : Opts) (eofT : Tok) (ts : List STop) (S : Sections)
    (h : compileFile env o eofT ts = .ok S) (hcl : ContLastTops (selectTops env ts)) :
    compileFile env o eofT (selectTops env ts) = .ok S := by
  obtain ⟨tops, s, he, _⟩ := (compileFile_ok_iff env o eofT ts S).1 h
  rw [file_poryswitch_selected env o eofT ts tops s he hcl, h]

/-- Every script body of an accepted file has a selected form (no poryswitch without selected case). -/
theorem elabTops_selected_defined (env : Env) : ∀ (ts : List STop) (a : PState) (r : List Top × PState),
    elabTops env ts a = .ok r → ∀ kw md name lb body rb, STop.script kw md name lb body rb ∈ ts →
    ∃ b', selectB env body = some b'
  | [], _, _, _, _, _, _, _, _, _, hm => nomatch hm
  | t :: rest, a, r, h, kw, md, name, lb, body, rb, hm => by
    simp only [elabTops] at h
    cases h1 : stepTop env t a with
    | error e => rw [h1] at h; cases h
    | ok q =>
      obtain ⟨o, a2⟩ := q
      rw [h1] at h
      simp only at h
      cases h2 : elabTops env rest a2 with
      | error e => rw [h2] at h; cases h
      | ok q2 =>
        rcases List.mem_cons.1 hm with rfl | hm
        · simp only [stepTop] at h1
          cases he : elabE env name.lit (ctxOf a) body with
          | error e => rw [he] at h1; cases h1
          | ok q3 =>
            obtain ⟨stmts, imp, c1⟩ := q3
            unfold elabE at he
            cases hl : elabL env name.lit (substC (ctxOf a).consts) (ctxOf a).breakStack (ctxOf a).continueStack
                true body (ctxOf a).nextSid (ctxOf a).nextCmdId with
            | error e => rw [hl] at he; cases he
            | ok q4 =>
              obtain ⟨x, m, s1, k1⟩ := q4
              obtain ⟨_, _, bs, hsel, _⟩ := selL_ok env name.lit _ body _ _ _ _ _ _ _ _ _ hl
              exact ⟨bs, hsel⟩
        · exact elabTops_selected_defined env rest a2 q2 h2 kw md name lb body rb hm

/-- **The hand-selected file contains no statement-level poryswitch** (for an accepted file). -/
theorem selectTops_noPory (env : Env) (ts : List STop) (a : PState) (r : List Top × PState)
    (h : elabTops env ts a = .ok r) : ∀ t ∈ selectTops env ts, NoPoryTop t := by
  intro t ht
  simp only [selectTops, List.mem_map] at ht
  obtain ⟨t0, ht0, rfl⟩ := ht
  cases t0 with
  | script kw md name lb body rb =>
    obtain ⟨b', hb'⟩ := elabTops_selected_defined env ts a r h kw md name lb body rb ht0
    simp only [selTop, hb', Option.getD_some, NoPoryTop]
    exact selL_noPory env body b' hb'
  | _ => trivial

/-- **C12, whole files, through the model's pipeline on tokens** (`parseTokens`, then `emitProgram`): the
printed tokens of the file and of the hand-selected file give the same result. -/
theorem file_poryswitch_selected_tokens (env : Env) (o : Opts) (eofT : Tok) (heof : eofT.type = .EOF)
    (ts : List STop) (hwf : TWF ts) (p : Program) (h : parseTokens env (printTops ts ++ [eofT]) = .ok p)
    (hcl : ContLastTops (selectTops env ts)) :
    compileToks env o (printTops (selectTops env ts) ++ [eofT]) = compileToks env o (printTops ts ++ [eofT]) := by
  rw [parse_file_elab env eofT heof ts hwf] at h
  obtain ⟨tops, s, he, _⟩ := parse_file_program env ts _ p h
  rw [compile_print env o eofT heof _ hwf, compile_print env o eofT heof _ (selectTops_twf env ts hwf),
    file_poryswitch_selected env o eofT ts tops s he hcl]

/-! ### what is false: the converse, and the statement without the `continue` rule -/

/-- The statement "both files fail or both compile to the same sections", without hypotheses. -/
def file_poryswitch_selected_full : Prop :=
  ∀ (env : Env) (o : Opts) (eofT : Tok) (ts : List STop),
    (∀ S, compileFile env o eofT ts = .ok S ↔ compileFile env o eofT (selectTops env ts) = .ok S)

section Example

private def lp : Tok := tk .LPAREN "("
private def rp : Tok := tk .RPAREN ")"
private def lb : Tok := tk .LBRACE "{"
private def rb : Tok := tk .RBRACE "}"
private def colon : Tok := tk .COLON ":"
private def z : Nat → TPos := fun _ => {}
private def cond (lf : Leaf) : SCond := .plain (.one (.one (.leaf lf)))
private def pory (x : String) (cases : List SPCase) : SStmt :=
  .pory (tk .PORYSWITCH "poryswitch") lp (tk .IDENT x) rp lb cases rb
private def scr (n : String) (body : List SStmt) : STop :=
  .script (tk .SCRIPT "script") .absent (tk .IDENT n) lb body rb

/-- compile with `-s V=v` -/
def exEnv (v : String) : Env := { switches := [("V", v)] }

/-- `script X { poryswitch (V) { A: break _: foo } }` -/
def exF18 : List STop :=
  [scr "X" [pory "V" [.colon (tk .IDENT "A") colon (.brk (tk .BREAK "break")),
                      .colon (tk .IDENT "_") colon (.cmd0 (tk .IDENT "foo"))]]]

/-- **The F18 direction for whole files**: with `-s V=B` the file is rejected because of the `break` in the case
that is NOT selected, the hand-selected file `script X { foo }` compiles. -/
theorem selected_file_may_compile_alone :
    elabTops (exEnv "B") exF18 (initState P2.eofT) =
      .error (newParseError (tk .BREAK "break") "'break' statement outside of any break-able scope") ∧
    selectTops (exEnv "B") exF18 = [scr "X" [.cmd0 (tk .IDENT "foo")]] ∧
    compileFile (exEnv "B") exO P2.eofT (selectTops (exEnv "B") exF18) =
      .ok { tops := [[.labelDef "X" true, .command "foo" [], .terminator false, .blank]] } :=
  ⟨rfl, rfl, toOption_some (by decide)⟩

/-- `script X { while { poryswitch (V) { A { continue } } foo } }` -/
def exCont : List STop :=
  [scr "X" [.whileInf (tk .WHILE "while") lb
    [pory "V" [.brace (tk .IDENT "A") lb [.cont (tk .CONTINUE "continue")] rb], .cmd0 (tk .IDENT "foo")] rb]]

/-- **The `continue` rule is needed** (C12c's finding, for whole files): with `-s V=A` the file compiles, the
hand-selected file `script X { while { continue foo } }` is rejected. -/
theorem selected_file_continue_rejected :
    (compileFile (exEnv "A") exO P2.eofT exCont).toOption.isSome = true ∧
    ¬ ContLastTops (selectTops (exEnv "A") exCont) ∧
    elabTops (exEnv "A") (selectTops (exEnv "A") exCont) (initState P2.eofT) =
      .error (newParseError (tk .CONTINUE "continue") "'continue' must be the last statement in block scope") :=
  ⟨by decide, by decide, rfl⟩

/-- The unconditional statement is false (in both directions). -/
theorem file_poryswitch_selected_full_false : ¬ file_poryswitch_selected_full := by
  intro H
  have h := (H (exEnv "B") exO P2.eofT exF18 _).2 selected_file_may_compile_alone.2.2
  rw [compileFile_post, selected_file_may_compile_alone.1] at h
  cases h

/-! ### non-vacuity: two scripts, a poryswitch in each, `-s V=A` -/

/-- `script S1 { lock poryswitch (V) { A { msgbox("a") } _ { foo } } release }` -/
def exS1 : STop :=
  scr "S1"
    [.cmd0 (tk .IDENT "lock"),
     pory "V" [.brace (tk .IDENT "A") lb [.cmdI (tk .IDENT "msgbox") lp [.str (tk .STRING "a")] [] rp] rb,
               .brace (tk .IDENT "_") lb [.cmd0 (tk .IDENT "foo")] rb],
     .cmd0 (tk .IDENT "release")]

/-- `script S2 { poryswitch (V) { B: bar _: baz } while (flag(F)) { poryswitch (V) { A: msgbox("b") } } }` -/
def exS2 : STop :=
  scr "S2"
    [pory "V" [.colon (tk .IDENT "B") colon (.cmd0 (tk .IDENT "bar")),
               .colon (tk .IDENT "_") colon (.cmd0 (tk .IDENT "baz"))],
     .while_ (tk .WHILE "while") lp (cond (.flagBare z false "F")) rp lb
       [pory "V" [.colon (tk .IDENT "A") colon (.cmdI (tk .IDENT "msgbox") lp [.str (tk .STRING "b")] [] rp)]] rb]

def exFile : List STop := [exS1, exS2]

-- sanity check (evaluation, not a proof): the printed tokens are what the model lexer produces
#guard (Lexer.lexAll ("script S1 { lock poryswitch (V) { A { msgbox(\"a\") } _ { foo } } release } " ++
    "script S2 { poryswitch (V) { B: bar _: baz } while (flag(F)) { poryswitch (V) { A: msgbox(\"b\") } } }").toList).map
      (fun t => (t.type, t.lit)) ==
  (printTops exFile ++ [P2.eofT]).map (fun t => (t.type, t.lit))

/-- the hand-selected file: `script S1 { lock msgbox("a") release }  script S2 { baz while (flag(F)) { msgbox("b") } }`
(case `A { … }` by its key in `S1`; in `S2` the `_ :` case — no key `A` — and, inside the loop, the `A :` case) -/
def exFileSel : List STop :=
  [scr "S1" [.cmd0 (tk .IDENT "lock"), .cmdI (tk .IDENT "msgbox") lp [.str (tk .STRING "a")] [] rp,
             .cmd0 (tk .IDENT "release")],
   scr "S2" [.cmd0 (tk .IDENT "baz"),
             .while_ (tk .WHILE "while") lp (cond (.flagBare z false "F")) rp lb
               [.cmdI (tk .IDENT "msgbox") lp [.str (tk .STRING "b")] [] rp] rb]]

theorem exFile_sel : selectTops (exEnv "A") exFile = exFileSel := rfl
theorem exFile_wf : TWF exFile := by decide
theorem exFile_cl : ContLastTops (selectTops (exEnv "A") exFile) := by decide

/-- the sections both files compile to -/
def exSections : Sections :=
  { tops := [[.labelDef "S1" true, .command "lock" [], .command "msgbox" ["S1_Text_0"], .command "release" [],
              .terminator false, .blank],
             [.labelDef "S2" true, .command "baz" [], .labelDef "S2_1" false, .goto_ "S2_3", .blank,
              .labelDef "S2_2" false, .command "msgbox" ["S2_Text_0"], .goto_ "S2_1", .blank,
              .labelDef "S2_3" false, .gotoIfSet "F" "S2_2", .terminator false, .blank]],
    inl := [[.labelDef "S1_Text_0" false, .textLine "string" "a$"],
            [.labelDef "S2_Text_0" false, .textLine "string" "b$"]] }

/-- **Non-vacuity**: both sides computed (`decide`) … -/
theorem exFile_compiled : compileFile (exEnv "A") exO P2.eofT exFile = .ok exSections :=
  toOption_some (by decide)
theorem exFileSel_compiled : compileFile (exEnv "A") exO P2.eofT exFileSel = .ok exSections :=
  toOption_some (by decide)

/-- … although the two parses differ: the original file numbers the second `msgbox` 6 (`lock` 0, `msgbox` 1,
`foo` 2, `release` 3, `bar` 4, `baz` 5), the selected file 4 — the ids are not reset between scripts, the gap
left by `S1` shifts all ids of `S2`. -/
example :
    (elabFile (exEnv "A") exFile (initState P2.eofT)).toOption.map (·.patches) =
      some [((1, 0), "S1_Text_0"), ((6, 0), "S2_Text_0")] ∧
    (elabFile (exEnv "A") exFileSel (initState P2.eofT)).toOption.map (·.patches) =
      some [((1, 0), "S1_Text_0"), ((4, 0), "S2_Text_0")] := by decide

/-- The theorem instantiated: its hypotheses hold on the example, and it gives `exFileSel_compiled` from
`exFile_compiled`. -/
example : compileFile (exEnv "A") exO P2.eofT exFileSel = .ok exSections :=
  exFile_sel ▸ file_poryswitch_selected_ok (exEnv "A") exO P2.eofT exFile exSections exFile_compiled exFile_cl

/-- … for every emitter option (optimised chunk order, line markers), where `decide` does not reach. -/
example (o : Opts) : compileFile (exEnv "A") o P2.eofT exFileSel = compileFile (exEnv "A") o P2.eofT exFile := by
  obtain ⟨tops, s, he, _⟩ := (compileFile_ok_iff _ _ _ _ _).1 exFile_compiled
  exact exFile_sel ▸ file_poryswitch_selected (exEnv "A") o P2.eofT exFile tops s he exFile_cl

/-- … and through the model's pipeline on the printed tokens. -/
example (o : Opts) :
    compileToks (exEnv "A") o (printTops exFileSel ++ [P2.eofT]) =
      compileToks (exEnv "A") o (printTops exFile ++ [P2.eofT]) := by
  have hp : ∃ p, parseTokens (exEnv "A") (printTops exFile ++ [P2.eofT]) = .ok p := by
    rw [parse_file_elab _ P2.eofT rfl exFile exFile_wf]
    obtain ⟨tops, s, he, h1, h2, _⟩ := (compileFile_ok_iff _ _ _ _ _).1 exFile_compiled
    unfold elabFile
    rw [he]
    exact (finish_ok_iff tops s).2 ⟨h1, h2⟩
  obtain ⟨p, hp⟩ := hp
  exact exFile_sel ▸ file_poryswitch_selected_tokens (exEnv "A") o P2.eofT rfl exFile exFile_wf p hp exFile_cl

/-- no poryswitch is left in the selected file -/
example : ∀ t ∈ exFileSel, NoPoryTop t := by decide

end Example

#print axioms file_poryswitch_selected
#print axioms file_poryswitch_selected_ok
#print axioms file_poryswitch_selected_tokens
#print axioms selectTops_noPory
#print axioms selectTops_twf
#print axioms selected_file_may_compile_alone
#print axioms selected_file_continue_rejected
#print axioms file_poryswitch_selected_full_false

end Pory.P2c
