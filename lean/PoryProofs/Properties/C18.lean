import PoryModel.Compile
import PoryProofs.Properties.C19
/-
C18 — every input is answered with output or a located error, never a crash.

What the model makes true by construction: every function of the model is a total Lean function
(structural recursion, explicit fuel), every place where the Go code could dereference nil or
index out of range is an explicit `panic` result, running out of fuel is an explicit
`outOfFuel` result, and the correspondence check compares these against the implementation
(a model `PANIC` / `FUEL` line never equals an implementation result).

Proved here:
* `token_line_in_range`: every token of every input lies on a line between 1 and the number of
  lines of the input; `single_line_token_ordered`: its start is not after its end
  (single-line token classes);
* hence `single_token_error_in_range`: an error located on a token of the input (the large
  majority of the parser's errors are `NewParseError(tok, …)`) carries a line range inside the
  input with start not after end;
* `range_error_lines`: a two-token range error spans from the first token's line to the second
  token's end line (both inside the input by the first item);
* `lint_env`: the lint parser's environment has environment errors disabled and no fonts /
  switches — the model's `lintEnv` is what `NewLintParser` constructs.
Partial: absence of `panic` / `outOfFuel` for *every* input is not yet a theorem for the parser
(P2 in DESIGN.md); it is checked by correspondence on the malformed-input stream `gen_C18`
(targeted single-site mutations, token soup, deep nesting) where the implementation side also
observes real panics, hangs (watchdog) and memory (GOMEMLIMIT). Go stack depth / runtime
behaviour is outside any model.
-/
namespace Pory.C18
open Pory Pory.Lexer Pory.Parser Pory.LexPos Pory.C19

theorem lineOf_le_append (pre rest : List Char) : lineOf pre ≤ lineOf (pre ++ rest) := by
  simp [lineOf, List.count_append]

theorem one_le_lineOf (pre : List Char) : 1 ≤ lineOf pre := by simp [lineOf]

/-- Every token's line is a line of the input. -/
theorem token_line_in_range (src : List Char) (t : Tok) (ht : t ∈ lexAll src) :
    1 ≤ t.line ∧ t.line ≤ lineOf src := by
  obtain ⟨pre, rest, hsrc, hstart, _⟩ := lexAll_positions src t ht
  have hl : t.line = lineOf pre := hstart.1
  rw [hl, hsrc]
  exact ⟨one_le_lineOf pre, lineOf_le_append pre rest⟩

/-- For the single-line token classes the reported range is ordered and stays on one line. -/
theorem single_line_token_ordered (src : List Char) (t : Tok) (ht : t ∈ lexAll src)
    (h1 : t.type ≠ .STRING) (h2 : t.type ≠ .RAWSTRING) (h3 : t.type ≠ .EOF) :
    t.endLine = t.line ∧ t.startChar ≤ t.endChar ∧ t.startUtf8 ≤ t.endUtf8 := by
  obtain ⟨pre, lexeme, after, _, _, _, _, _, hel, hec, heu⟩ := lexAll_end_positions src t ht h1 h2 h3
  exact ⟨hel, by omega, by omega⟩

/-- An error reported on a (single-line) token of the input: line range inside the input,
start not after end. -/
theorem single_token_error_in_range (src : List Char) (t : Tok) (ht : t ∈ lexAll src) (msg : String)
    (h1 : t.type ≠ .STRING) (h2 : t.type ≠ .RAWSTRING) (h3 : t.type ≠ .EOF) (e : PErr)
    (he : newParseError t msg = .err e) :
    1 ≤ e.lineStart ∧ e.lineStart ≤ e.lineEnd ∧ e.lineEnd ≤ lineOf src ∧
    (e.lineStart = e.lineEnd → e.charStart ≤ e.charEnd) := by
  obtain ⟨hl1, hl2⟩ := token_line_in_range src t ht
  obtain ⟨hel, hc, _⟩ := single_line_token_ordered src t ht h1 h2 h3
  simp only [newParseError, PFail.err.injEq] at he
  subst he
  simp only
  refine ⟨hl1, by omega, by omega, fun _ => hc⟩

theorem range_error_lines (t1 t2 : Tok) (msg : String) (e : PErr)
    (he : newRangeParseError t1 t2 msg = .err e) :
    e.lineStart = t1.line ∧ e.lineEnd = t2.endLine ∧ e.charStart = t1.startChar ∧ e.charEnd = t2.endChar := by
  simp only [newRangeParseError, PFail.err.injEq] at he
  subst he
  exact ⟨rfl, rfl, rfl, rfl⟩

/-- The lint parser: environment errors off, no fonts, no default font, no switches. -/
theorem lint_env (env : Env) :
    (lintEnv env).envErrors = false ∧ (lintEnv env).switches = [] ∧ (lintEnv env).fonts.fonts = [] ∧
    (lintEnv env).defaultFontID = "" ∧ (lintEnv env).maxLineLength = 0 ∧ (lintEnv env).autoVars = env.autoVars := by
  simp [lintEnv]

end Pory.C18
