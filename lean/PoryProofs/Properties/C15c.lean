import PoryProofs.ExportedLabels
import PoryProofs.ParsedScopes
/-
C15c — C15 for the WHOLE output: "a top-level name is exported (`::`) or file-local (`:`) exactly as its scope
modifier says, and by the documented default when there is none: script, text and mapscripts global; movement
and mart local.  Labels inside scripts are local unless marked (global), and every label the compiler
invents — sub-labels, hoisted text and movement, inline map scripts, tables — is local."

Helper modules: PoryProofs/ExportedLabels.lean (flags inside the census `C04c.programLabelDefs`),
PoryProofs/ParsedScopes.lean (scopes of every parsed program).  Everything below is proved in full; nothing
is `_partial`.

1. Emitter (any program the emitter accepts, parsed or not).
   `label_line_iff` : `emitProgram o p = .ok ls →
       (Line.labelDef n g ∈ ls ↔ Declared p n g ∨ (g = false ∧ Generated o p n))`
   where `Declared p n g` says that `n` is a DECLARED name whose declared flag is `g` — the name of a
   top-level script / mapscripts / movement / mart statement with `g = (scope == GLOBAL)`, a text of `p.texts`
   with `g = isGlobal`, a label statement of some script (top-level or inline) as kept in the chunk tables
   with its `(global)` flag (`userLabelDefsOf`), an inline map script with `g = (scope == GLOBAL)` — and
   `Generated o p n` says that `n` is a generated sub-label `<script>_<d>` the output defines
   (`C04c.programSubLabels`) or the name of a map-script table.
   `exported_iff` : `Line.labelDef n true ∈ ls ↔ Exported p n` — (i) top-level script / mapscripts / movement /
   mart with `scope = GLOBAL`, (ii) text of `p.texts` with `isGlobal = true`, (iii) label statement marked
   global, (iv) inline map script with `scope = GLOBAL`.
   `local_iff`, `generated_are_local`, `generated_exported_only_if_declared` : every generated sub-label and
   every table name has a local label line; it has an exported line only if the same name is ALSO declared
   exported by the user (a name clash, C04c's `NoImitation`), never on its own account.
   `entry_label_flag` : in the lines of ONE accepted script the label line of the script's name carries the
   flag `scope == GLOBAL` and no other (no label statement and no sub-label of the script has that name).

2. Parser + emitter (`parseTokens env toks = .ok p`, `emitProgram o p = .ok ls`).
   `parsed_exported_iff` : `Line.labelDef n true ∈ ls ↔ WrittenExported p.tops n` — the exported labels are
   exactly the script / mapscripts / movement / mart / text STATEMENTS whose parsed scope is GLOBAL and the
   label statements marked global.  Case (iv) is impossible (`ParsedScopes.program_scopes`, from
   `C15b.mapscript_inline_scripts_local`), hoisted texts are local (`HoistModel.hoistedTexts_local`).
   `parsed_exported_iff_written` : the same with the user-written statements `tops` only
   (`p.tops = tops ++ hoisted movements`, which are LOCAL).
   `parsed_scopes_binary` : every scope of a parsed program is GLOBAL or LOCAL, so "not exported" = LOCAL.
   "As written or default": `scope_global_iff` (`md.scope d = GLOBAL ↔` the modifier is absent and the default
   is GLOBAL, or it is written `(global)`), and per statement kind, on the reference syntax
   `kw [(mod)] Name { … }` of C15b: `script_statement_exported_iff`, `mapscripts_statement_exported_iff`,
   `text_statement_exported_iff` (exported iff `(global)` or no modifier), `movement_statement_exported_iff`,
   `mart_statement_exported_iff` (exported iff `(global)`), `label_statement_flag` (a label statement is
   global iff written `Name(global):`).

Limits of the statement: (iii) speaks about label statements as they sit in the chunk tables
(`scriptChunks`), the vocabulary of C04c — there is no theorem yet that the chunk tables hold exactly the
label statements of the (nested) source body.
-/
namespace Pory.C15c
open Pory Pory.Parser Pory.Emit Pory.RenderSim Pory.C04c Pory.TopParse Pory.C02P

/-! ## 1. emitter side -/

theorem labelDef_mem_iff (ls : List Line) (n : String) (g : Bool) :
    Line.labelDef n g ∈ ls ↔ (n, g) ∈ labelsOf ls := by
  unfold labelsOf
  rw [List.mem_filterMap]
  constructor
  · intro h; exact ⟨_, h, rfl⟩
  · rintro ⟨l, hl, he⟩
    cases l <;> simp [labelOf] at he
    obtain ⟨rfl, rfl⟩ := he
    exact hl

/-- `n` is a declared name of `p` and `g` is its declared exported-flag. -/
def Declared (p : Program) (n : String) (g : Bool) : Prop :=
  (∃ s, Top.script s ∈ p.tops ∧ n = s.name ∧ g = (s.scope == .GLOBAL)) ∨
  (∃ m, Top.mapscripts m ∈ p.tops ∧ n = m.name ∧ g = (m.scope == .GLOBAL)) ∨
  (∃ m, Top.movement m ∈ p.tops ∧ n = m.name ∧ g = (m.scope == .GLOBAL)) ∨
  (∃ tok tis items sc, Top.mart tok n tis items sc ∈ p.tops ∧ g = (sc == .GLOBAL)) ∨
  (∃ t ∈ p.texts, n = t.name ∧ g = t.isGlobal) ∨
  (∃ s ∈ scriptsOf p, (n, g) ∈ userLabelDefsOf s) ∨
  (∃ s ∈ inlineScriptsOf p, n = s.name ∧ g = (s.scope == .GLOBAL))

/-- `n` is a label the emitter invents: a generated sub-label `<script>_<d>` that the output defines, or the
name of a map-script table. -/
def Generated (o : Opts) (p : Program) (n : String) : Prop :=
  n ∈ programSubLabels o p ∨ ∃ m t, Top.mapscripts m ∈ p.tops ∧ t ∈ m.tables ∧ n = t.name

theorem mem_topHeadDefs_iff (t : Top) (n : String) (g : Bool) :
    (n, g) ∈ topHeadDefs t ↔
      (∃ m, t = .movement m ∧ n = m.name ∧ g = (m.scope == .GLOBAL)) ∨
      (∃ tok tis items sc, t = .mart tok n tis items sc ∧ g = (sc == .GLOBAL)) ∨
      (∃ m, t = .mapscripts m ∧ n = m.name ∧ g = (m.scope == .GLOBAL)) ∨
      (∃ m tb, t = .mapscripts m ∧ tb ∈ m.tables ∧ n = tb.name ∧ g = false) := by
  cases t with
  | script s => simp [topHeadDefs]
  | raw _ _ _ => simp [topHeadDefs]
  | text _ => simp [topHeadDefs]
  | movement m => simp [topHeadDefs]
  | mart tok name tis items sc =>
    simp only [topHeadDefs, List.mem_singleton, Prod.mk.injEq, reduceCtorEq, false_and, exists_false,
      Top.mart.injEq, false_or, or_false]
    constructor
    · rintro ⟨rfl, rfl⟩; exact ⟨tok, tis, items, sc, ⟨rfl, rfl, rfl, rfl, rfl⟩, rfl⟩
    · rintro ⟨_, _, _, _, ⟨rfl, rfl, rfl, rfl, rfl⟩, rfl⟩; exact ⟨rfl, rfl⟩
  | mapscripts m =>
    simp only [topHeadDefs, List.mem_cons, List.mem_map, Prod.mk.injEq, reduceCtorEq, false_and,
      exists_false, Top.mapscripts.injEq, false_or]
    constructor
    · rintro (⟨rfl, rfl⟩ | ⟨tb, htb, rfl, rfl⟩)
      · exact .inl ⟨m, rfl, rfl, rfl⟩
      · exact .inr ⟨m, tb, rfl, htb, rfl, rfl⟩
    · rintro (⟨_, rfl, rfl, rfl⟩ | ⟨_, tb, rfl, htb, rfl, rfl⟩)
      · exact .inl ⟨rfl, rfl⟩
      · exact .inr ⟨tb, htb, rfl, rfl⟩

/-- **label_line_iff**: the label lines of the output of an accepted program, with their flags: a label line
`n:` / `n::` is in the output iff `n` is a declared name with that declared flag, or the line is local and `n`
is a generated sub-label or a table name. -/
theorem label_line_iff (o : Opts) (p : Program) (ls : List Line) (h : emitProgram o p = .ok ls)
    (n : String) (g : Bool) :
    Line.labelDef n g ∈ ls ↔ Declared p n g ∨ (g = false ∧ Generated o p n) := by
  rw [labelDef_mem_iff, labels_of_program o p ls h, mem_programLabelDefs_iff]
  have hscr : ∀ s ∈ scriptsOf p, ((n, g) ∈ scriptDefs o p.patches s ↔
      (n = s.name ∧ g = (s.scope == .GLOBAL)) ∨ (n, g) ∈ userLabelDefsOf s ∨
      (g = false ∧ n ∈ subLabelsOf o p.patches s)) := by
    intro s hs
    obtain ⟨l, hl, _⟩ := script_accepted o p ls h s hs
    obtain ⟨G, order, hc, ho⟩ := accepted_chunks o p.patches _ s l hl
    exact mem_scriptDefs_iff o p.patches s G order hc ho n g
  unfold Declared Generated programSubLabels
  constructor
  · rintro (⟨t, ht, hm⟩ | ⟨s, hs, hm⟩ | ⟨t, ht, hm⟩)
    · rcases (mem_topHeadDefs_iff t n g).1 hm with ⟨m, rfl, h1, h2⟩ | ⟨tok, tis, items, sc, rfl, h2⟩ |
        ⟨m, rfl, h1, h2⟩ | ⟨m, tb, rfl, h1, h2, h3⟩
      · exact .inl (.inr (.inr (.inl ⟨m, ht, h1, h2⟩)))
      · exact .inl (.inr (.inr (.inr (.inl ⟨tok, tis, items, sc, ht, h2⟩))))
      · exact .inl (.inr (.inl ⟨m, ht, h1, h2⟩))
      · exact .inr ⟨h3, .inr ⟨m, tb, ht, h1, h2⟩⟩
    · rcases (hscr s hs).1 hm with ⟨h1, h2⟩ | h1 | ⟨h1, h2⟩
      · rcases (mem_scriptsOf_iff p s).1 hs with hs' | hs'
        · exact .inl (.inl ⟨s, hs', h1, h2⟩)
        · exact .inl (.inr (.inr (.inr (.inr (.inr (.inr ⟨s, hs', h1, h2⟩))))))
      · exact .inl (.inr (.inr (.inr (.inr (.inr (.inl ⟨s, hs, h1⟩))))))
      · exact .inr ⟨h1, .inl (List.mem_flatMap.2 ⟨s, hs, h2⟩)⟩
    · simp only [Prod.mk.injEq] at hm
      exact .inl (.inr (.inr (.inr (.inr (.inl ⟨t, ht, hm.1, hm.2⟩)))))
  · rintro ((⟨s, hs, h1, h2⟩ | ⟨m, hm, h1, h2⟩ | ⟨m, hm, h1, h2⟩ | ⟨tok, tis, items, sc, hm, h2⟩ |
      ⟨t, ht, h1, h2⟩ | ⟨s, hs, h1⟩ | ⟨s, hs, h1, h2⟩) | ⟨hg, hgen | ⟨m, tb, hm, h1, h2⟩⟩)
    · have hs' := (mem_scriptsOf_iff p s).2 (.inl hs)
      exact .inr (.inl ⟨s, hs', (hscr s hs').2 (.inl ⟨h1, h2⟩)⟩)
    · exact .inl ⟨_, hm, (mem_topHeadDefs_iff _ n g).2 (.inr (.inr (.inl ⟨m, rfl, h1, h2⟩)))⟩
    · exact .inl ⟨_, hm, (mem_topHeadDefs_iff _ n g).2 (.inl ⟨m, rfl, h1, h2⟩)⟩
    · exact .inl ⟨_, hm, (mem_topHeadDefs_iff _ n g).2 (.inr (.inl ⟨tok, tis, items, sc, rfl, h2⟩))⟩
    · exact .inr (.inr ⟨t, ht, by rw [h1, h2]⟩)
    · exact .inr (.inl ⟨s, hs, (hscr s hs).2 (.inr (.inl h1))⟩)
    · have hs' := (mem_scriptsOf_iff p s).2 (.inr hs)
      exact .inr (.inl ⟨s, hs', (hscr s hs').2 (.inl ⟨h1, h2⟩)⟩)
    · obtain ⟨s, hs, hsub⟩ := List.mem_flatMap.1 hgen
      exact .inr (.inl ⟨s, hs, (hscr s hs).2 (.inr (.inr ⟨hg, hsub⟩))⟩)
    · exact .inl ⟨_, hm, (mem_topHeadDefs_iff _ n g).2 (.inr (.inr (.inr ⟨m, tb, rfl, h1, h2, hg⟩)))⟩

/-- The names the output exports: (i) top-level script / mapscripts / movement / mart statements whose scope
is GLOBAL, (ii) texts of `p.texts` with `isGlobal`, (iii) label statements marked `(global)` — of any script,
top-level or inline, as kept in the chunk tables —, (iv) inline map scripts whose scope is GLOBAL. -/
def Exported (p : Program) (n : String) : Prop :=
  (∃ s, Top.script s ∈ p.tops ∧ s.name = n ∧ s.scope = .GLOBAL) ∨
  (∃ m, Top.mapscripts m ∈ p.tops ∧ m.name = n ∧ m.scope = .GLOBAL) ∨
  (∃ m, Top.movement m ∈ p.tops ∧ m.name = n ∧ m.scope = .GLOBAL) ∨
  (∃ tok tis items, Top.mart tok n tis items .GLOBAL ∈ p.tops) ∨
  (∃ t ∈ p.texts, t.name = n ∧ t.isGlobal = true) ∨
  (∃ s ∈ scriptsOf p, (n, true) ∈ userLabelDefsOf s) ∨
  (∃ s ∈ inlineScriptsOf p, s.name = n ∧ s.scope = .GLOBAL)

theorem declared_true_iff (p : Program) (n : String) : Declared p n true ↔ Exported p n := by
  unfold Declared Exported
  have e : ∀ sc : TT, (true = (sc == TT.GLOBAL)) ↔ sc = .GLOBAL := by
    intro sc; rw [eq_comm, beq_iff_eq]
  refine or_congr ?_ (or_congr ?_ (or_congr ?_ (or_congr ?_ (or_congr ?_ (or_congr Iff.rfl ?_)))))
  · exact exists_congr fun s => and_congr Iff.rfl (and_congr eq_comm (e _))
  · exact exists_congr fun s => and_congr Iff.rfl (and_congr eq_comm (e _))
  · exact exists_congr fun s => and_congr Iff.rfl (and_congr eq_comm (e _))
  · constructor
    · rintro ⟨tok, tis, items, sc, hm, hg⟩
      rw [(e sc).1 hg] at hm
      exact ⟨tok, tis, items, hm⟩
    · rintro ⟨tok, tis, items, hm⟩
      exact ⟨tok, tis, items, .GLOBAL, hm, rfl⟩
  · exact exists_congr fun t => and_congr Iff.rfl (and_congr eq_comm eq_comm)
  · exact exists_congr fun s => and_congr Iff.rfl (and_congr eq_comm (e _))

/-- **exported_iff**: an exported label line `n::` occurs in the output of an accepted program iff `n` is the
name of a top-level script / mapscripts / movement / mart statement whose scope is GLOBAL, of a text with
`isGlobal`, a label statement marked `(global)`, or an inline map script whose scope is GLOBAL.  In
particular no generated sub-label and no table name is exported on its own account. -/
theorem exported_iff (o : Opts) (p : Program) (ls : List Line) (h : emitProgram o p = .ok ls) (n : String) :
    Line.labelDef n true ∈ ls ↔ Exported p n := by
  rw [label_line_iff o p ls h, ← declared_true_iff]
  constructor
  · rintro (h | ⟨h, _⟩)
    · exact h
    · cases h
  · exact .inl

/-- **local_iff**: a local label line `n:` occurs in the output iff `n` is declared local, or generated. -/
theorem local_iff (o : Opts) (p : Program) (ls : List Line) (h : emitProgram o p = .ok ls) (n : String) :
    Line.labelDef n false ∈ ls ↔ Declared p n false ∨ Generated o p n := by
  rw [label_line_iff o p ls h]
  simp

/-- Every generated sub-label and every table name has a LOCAL label line in the output. -/
theorem generated_are_local (o : Opts) (p : Program) (ls : List Line) (h : emitProgram o p = .ok ls)
    (n : String) (hg : Generated o p n) : Line.labelDef n false ∈ ls :=
  (local_iff o p ls h n).2 (.inr hg)

/-- … and an exported line with that name exists only if the user also declared that very name exported
(a clash excluded by C04c's `NoImitation` / `NamesDistinct`). -/
theorem generated_exported_only_if_declared (o : Opts) (p : Program) (ls : List Line)
    (h : emitProgram o p = .ok ls) (n : String) (_hg : Generated o p n)
    (hx : Line.labelDef n true ∈ ls) : Exported p n :=
  (exported_iff o p ls h n).1 hx

/-! ### the entry label of one script -/

theorem jumpLabel_ne_name (name : String) (d : Nat) : jumpLabel name d ≠ name := by
  intro h
  have := congrArg (fun x => x.toList.length) h
  simp only [jumpLabel_toList, List.length_append, List.length_cons] at this
  omega

/-- **entry_label_flag**: in the lines of one accepted script, the label line of the script's own name is
exported iff the script's scope is GLOBAL — and there is no second label line with that name carrying the
other flag (the emitter rejects a label statement named like the script, and no sub-label `<name>_<d>`
equals `<name>`). -/
theorem entry_label_flag (o : Opts) (patches : List ((Nat × Nat) × String)) (tl : List String)
    (s : Script) (l : List Line) (h : emitScript o patches tl s = .ok l) (g : Bool) :
    Line.labelDef s.name g ∈ l ↔ g = (s.scope == .GLOBAL) := by
  obtain ⟨G, order, hc, ho⟩ := accepted_chunks o patches tl s l h
  rw [labelDef_mem_iff, labelsOf_emitScript o patches tl s l h, mem_scriptDefs_iff o patches s G order hc ho]
  constructor
  · rintro (⟨_, hg⟩ | hm | ⟨_, hm⟩)
    · exact hg
    · have hn : s.name ∈ userLabelsOf s := by
        rw [userLabelsOf_eq]; exact List.mem_map.2 ⟨_, hm, rfl⟩
      obtain ⟨_, h2⟩ := accepted_label_statements_fresh o patches tl s l h _ hn
      obtain ⟨_, h0⟩ := C05.scriptChunks_ids s.body G hc
      obtain ⟨c, hcG, hc0⟩ := List.mem_map.1 h0
      exact absurd (by simp [chunkLabel, hc0]) (h2 G hc c hcG)
    · obtain ⟨d, _, hd⟩ := mem_subLabelsOf hm
      exact absurd hd.symm (jumpLabel_ne_name _ _)
  · intro hg; exact .inl ⟨rfl, hg⟩

/-! ## 2. parser + emitter -/

/-- The exported names of a list of top-level statements, read off the statements alone: script / mapscripts /
movement / mart / text statements whose scope is GLOBAL, and label statements marked `(global)`. -/
def WrittenExported (tops : List Top) (n : String) : Prop :=
  (∃ s, Top.script s ∈ tops ∧ s.name = n ∧ s.scope = .GLOBAL) ∨
  (∃ m, Top.mapscripts m ∈ tops ∧ m.name = n ∧ m.scope = .GLOBAL) ∨
  (∃ m, Top.movement m ∈ tops ∧ m.name = n ∧ m.scope = .GLOBAL) ∨
  (∃ tok tis items, Top.mart tok n tis items .GLOBAL ∈ tops) ∨
  (∃ t, Top.text t ∈ tops ∧ t.name = n ∧ t.isGlobal = true) ∨
  (∃ s ∈ tops.flatMap topScripts, (n, true) ∈ userLabelDefsOf s)

theorem mem_textsOf_iff (tops : List Top) (t : Text) : t ∈ C06c.textsOf tops ↔ Top.text t ∈ tops := by
  unfold C06c.textsOf
  rw [List.mem_flatMap]
  constructor
  · rintro ⟨x, hx, ht⟩
    cases x <;> simp [C06c.textOfTop] at ht
    subst ht
    exact hx
  · intro h
    exact ⟨_, h, by simp [C06c.textOfTop]⟩

/-- **parsed_exported_iff**: in the output of a parsed and accepted program, the exported label lines are
exactly the script / mapscripts / movement / mart / text statements whose parsed scope is GLOBAL and the
label statements marked `(global)`.  Nothing the compiler invents is exported: hoisted texts and movements,
inline map scripts, tables and sub-labels are all local. -/
theorem parsed_exported_iff (env : Env) (toks : List Tok) (p : Program) (hp : parseTokens env toks = .ok p)
    (o : Opts) (ls : List Line) (h : emitProgram o p = .ok ls) (n : String) :
    Line.labelDef n true ∈ ls ↔ WrittenExported p.tops n := by
  rw [exported_iff o p ls h]
  obtain ⟨tops, htx, htp, _⟩ := parsed_shape_scopes env toks p hp
  have hall := program_scopes env toks p hp
  have htext : ∀ t : Text, Top.text t ∈ p.tops ↔ Top.text t ∈ tops := by
    intro t
    rw [htp, List.mem_append]
    constructor
    · rintro (h | h)
      · exact h
      · obtain ⟨m, _, hm⟩ := List.mem_map.1 h; cases hm
    · exact .inl
  unfold Exported WrittenExported
  refine or_congr Iff.rfl (or_congr Iff.rfl (or_congr Iff.rfl (or_congr Iff.rfl ?_)))
  constructor
  · rintro (⟨t, ht, h1, h2⟩ | hl | ⟨s, hs, _, h2⟩)
    · rw [htx] at ht
      rcases List.mem_append.1 ht with ht | ht
      · rw [HoistModel.hoistedTexts_local _ t ht] at h2; cases h2
      · exact .inl ⟨t, (htext t).2 ((mem_textsOf_iff _ _).1 ht), h1, h2⟩
    · exact .inr hl
    · obtain ⟨m, hm, hs⟩ := (mem_inlineScriptsOf_iff p s).1 hs
      obtain ⟨_, hms, htb⟩ := hall _ hm
      rcases (mem_inlineScripts_iff m s).1 hs with ⟨ms, h1', h2'⟩ | ⟨t, ht, e, he, h2'⟩
      · rw [hms ms h1' s h2'] at h2; cases h2
      · rw [htb t ht e he s h2'] at h2; cases h2
  · rintro (⟨t, ht, h1, h2⟩ | hl)
    · refine .inl ⟨t, ?_, h1, h2⟩
      rw [htx]
      exact List.mem_append_right _ ((mem_textsOf_iff _ _).2 ((htext t).1 ht))
    · exact .inr (.inl hl)

/-- Appending LOCAL movements (the hoisted `moves()`) does not change the exported names. -/
theorem writtenExported_append_local (tops : List Top) (ms : List MovementStmt)
    (hl : ∀ m ∈ ms, m.scope = .LOCAL) (n : String) :
    WrittenExported (tops ++ ms.map Top.movement) n ↔ WrittenExported tops n := by
  have hmem : ∀ t : Top, (∀ m, t ≠ .movement m) → (t ∈ tops ++ ms.map Top.movement ↔ t ∈ tops) := by
    intro t ht
    rw [List.mem_append]
    constructor
    · rintro (h | h)
      · exact h
      · obtain ⟨m, _, hm⟩ := List.mem_map.1 h; exact absurd hm.symm (ht m)
    · exact .inl
  have hscr : (tops ++ ms.map Top.movement).flatMap topScripts = tops.flatMap topScripts := by
    rw [List.flatMap_append]
    have : (ms.map Top.movement).flatMap topScripts = [] := by
      rw [List.flatMap_eq_nil_iff]
      intro t ht
      obtain ⟨m, _, rfl⟩ := List.mem_map.1 ht
      rfl
    rw [this, List.append_nil]
  unfold WrittenExported
  rw [hscr]
  refine or_congr ?_ (or_congr ?_ (or_congr ?_ (or_congr ?_ (or_congr ?_ Iff.rfl))))
  · exact exists_congr fun s => and_congr (hmem _ (fun m hm => by cases hm)) Iff.rfl
  · exact exists_congr fun s => and_congr (hmem _ (fun m hm => by cases hm)) Iff.rfl
  · refine exists_congr fun m => ?_
    constructor
    · rintro ⟨hm, h1, h2⟩
      rcases List.mem_append.1 hm with hm | hm
      · exact ⟨hm, h1, h2⟩
      · obtain ⟨m', hm', he⟩ := List.mem_map.1 hm
        cases he
        rw [hl _ hm'] at h2; cases h2
    · rintro ⟨hm, h1, h2⟩
      exact ⟨List.mem_append_left _ hm, h1, h2⟩
  · exact exists_congr fun tok => exists_congr fun tis => exists_congr fun items =>
      hmem _ (fun m hm => by cases hm)
  · exact exists_congr fun t => and_congr (hmem _ (fun m hm => by cases hm)) Iff.rfl

/-- **parsed_exported_iff_written**: the same, in terms of the statements the user wrote: `p.tops` is the list
`tops` of parsed statements followed by the hoisted movements, `p.texts` the hoisted texts followed by the
`text` statements of `tops`, and a label is exported iff `tops` says so. -/
theorem parsed_exported_iff_written (env : Env) (toks : List Tok) (p : Program)
    (hp : parseTokens env toks = .ok p) (o : Opts) (ls : List Line) (h : emitProgram o p = .ok ls) :
    ∃ tops, p.texts = HoistModel.hoistedTexts (C06c.inlineTextsOf env toks) ++ C06c.textsOf tops ∧
      p.tops = tops ++ (HoistModel.hoistedMoves (C06c.inlineMovesOf env toks)).map Top.movement ∧
      ∀ n, Line.labelDef n true ∈ ls ↔ WrittenExported tops n := by
  obtain ⟨tops, htx, htp, _⟩ := parsed_shape_scopes env toks p hp
  refine ⟨tops, htx, htp, fun n => ?_⟩
  rw [parsed_exported_iff env toks p hp o ls h n, htp]
  exact writtenExported_append_local tops _ (HoistModel.hoistedMoves_local _) n

/-- **parsed_scopes_binary**: in a parsed program every scope is one of the two keywords — so a name that is
not exported has scope LOCAL — and every inline map script is LOCAL. -/
theorem parsed_scopes_binary (env : Env) (toks : List Tok) (p : Program) (hp : parseTokens env toks = .ok p) :
    (∀ s, Top.script s ∈ p.tops → s.scope = .GLOBAL ∨ s.scope = .LOCAL) ∧
    (∀ m, Top.mapscripts m ∈ p.tops → (m.scope = .GLOBAL ∨ m.scope = .LOCAL) ∧
      ∀ s ∈ inlineScripts m, s.scope = .LOCAL) ∧
    (∀ m, Top.movement m ∈ p.tops → m.scope = .GLOBAL ∨ m.scope = .LOCAL) ∧
    (∀ tok n tis items sc, Top.mart tok n tis items sc ∈ p.tops → sc = .GLOBAL ∨ sc = .LOCAL) := by
  have hall := program_scopes env toks p hp
  refine ⟨fun s hs => hall _ hs, fun m hm => ?_, fun m hm => hall _ hm,
    fun tok n tis items sc hm => hall _ hm⟩
  obtain ⟨hb, hms, htb⟩ := hall _ hm
  refine ⟨hb, fun s hs => ?_⟩
  rcases (mem_inlineScripts_iff m s).1 hs with ⟨ms, h1, h2⟩ | ⟨t, ht, e, he, h2⟩
  · exact hms ms h1 s h2
  · exact htb t ht e he s h2

/-! ### as written, or the documented default -/

/-- The modifier is written `(global)`. -/
def WrittenGlobal (md : Mod) : Prop := ∃ lp m rp, md = .written lp m rp ∧ m.type = .GLOBAL

@[simp] theorem writtenGlobal_written (lp m rp : Tok) :
    WrittenGlobal (.written lp m rp) ↔ m.type = .GLOBAL := by
  unfold WrittenGlobal
  constructor
  · rintro ⟨_, _, _, he, h⟩; cases he; exact h
  · intro h; exact ⟨lp, m, rp, rfl, h⟩

@[simp] theorem writtenGlobal_absent : ¬ WrittenGlobal .absent := by
  rintro ⟨_, _, _, he, _⟩; cases he

/-- **scope_global_iff**: the scope of a statement is GLOBAL iff no modifier is written and the default is
GLOBAL, or the modifier `(global)` is written (`C15b.scope_is_written_or_default` gives the three possible
values). -/
theorem scope_global_iff (d : TT) (md : Mod) :
    md.scope d = .GLOBAL ↔ (md = .absent ∧ d = .GLOBAL) ∨ WrittenGlobal md := by
  unfold WrittenGlobal
  cases md with
  | absent => simp [Mod.scope]
  | written lp m rp =>
    simp only [Mod.scope, reduceCtorEq, false_and, false_or]
    constructor
    · intro h; exact ⟨lp, m, rp, rfl, h⟩
    · rintro ⟨_, _, _, he, h⟩; cases he; exact h

/-- script, text, mapscripts (default GLOBAL): exported iff `(global)` or no modifier. -/
theorem scope_global_default_global (d : TT) (hd : d = .GLOBAL) (md : Mod) :
    md.scope d = .GLOBAL ↔ md = .absent ∨ WrittenGlobal md := by
  rw [scope_global_iff]; simp [hd]

/-- movement, mart (default LOCAL): exported iff `(global)`. -/
theorem scope_global_default_local (d : TT) (hd : d = .LOCAL) (md : Mod) :
    md.scope d = .GLOBAL ↔ WrittenGlobal md := by
  rw [scope_global_iff]; simp [hd]

theorem flag_eq_iff (g : Bool) (sc : TT) (P : Prop) (h : sc = .GLOBAL ↔ P) :
    g = (sc == .GLOBAL) ↔ (g = true ↔ P) := by
  rw [← h]
  by_cases hs : sc = .GLOBAL
  · have : (sc == TT.GLOBAL) = true := by simpa using hs
    rw [this]; simp [hs]
  · have : (sc == TT.GLOBAL) = false := by simpa using hs
    rw [this]; simp [hs]

/-- **script**: `script [(mod)] Name { … }` — whatever the body parses to, in the lines of the resulting
script (when the emitter accepts it) the entry label `Name` is exported iff the modifier is `(global)` or
absent; otherwise (`(local)`) it is local. -/
theorem script_statement_exported_iff (env : Env) (fuel : Nat) (s : PState) (kw : Tok) (md : Mod)
    (name lb : Tok) (body : List Tok) (hmd : md.WF) (hname : name.type = .IDENT)
    (hlb : lb.type = .LBRACE) (r : List Stmt × ImpData) (s1 : PState)
    (hbody : (parseBlockStatement env name.lit lb fuel [] {}).run (st s body) = .ok (r, s1)) :
    ∃ scr, (parseScriptStatement env fuel).run (st s (kw :: (md.toks ++ name :: lb :: body))) =
        .ok ((scr, r.2), s1) ∧ scr.name = name.lit ∧
      ∀ o patches tl l, emitScript o patches tl scr = .ok l → ∀ g,
        (Line.labelDef name.lit g ∈ l ↔ (g = true ↔ md = .absent ∨ WrittenGlobal md)) := by
  refine ⟨_, C15b.parse_script_statement_gen env fuel s kw md name lb body hmd hname hlb r s1 hbody, rfl, ?_⟩
  intro o patches tl l hl g
  have := entry_label_flag o patches tl _ l hl g
  rw [this]
  exact flag_eq_iff g _ _ (scope_global_default_global _ C15.default_scopes.1 md)

/-- **mapscripts**: `mapscripts [(mod)] Name { … }` — the header label `Name` (the only label line of the
header block, which is part of the output) is exported iff the modifier is `(global)` or absent. -/
theorem mapscripts_statement_exported_iff (env : Env) (fuel : Nat) (s : PState) (kw : Tok) (md : Mod)
    (name lb : Tok) (body : List Tok) (hmd : md.WF) (hname : name.type = .IDENT)
    (hlb : lb.type = .LBRACE) (r : List MapScript × List TableMapScript × ImpData) (s1 : PState)
    (hbody : (parseMapScriptEntries env name.lit fuel [] [] {}).run (st s body) = .ok (r, s1)) :
    ∃ m, (parseMapscriptsStatement env fuel).run (st s (kw :: (md.toks ++ name :: lb :: body))) =
        .ok ((m, r.2.2), s1) ∧ m.name = name.lit ∧
      ∀ o patches tl l, emitMapScripts o patches tl m = .ok l →
        (∀ x ∈ C08.headerLines o m, x ∈ l) ∧
        ∀ n g, (Line.labelDef n g ∈ C08.headerLines o m ↔
          n = name.lit ∧ (g = true ↔ md = .absent ∨ WrittenGlobal md)) := by
  refine ⟨_, C15b.parse_mapscripts_statement_gen env fuel s kw md name lb body hmd hname hlb r s1 hbody,
    rfl, ?_⟩
  intro o patches tl l hl
  obtain ⟨scripts, tables, _, _, rfl⟩ := C08.header_shape o patches tl _ l hl
  refine ⟨fun x hx => by simp [hx], fun n g => ?_⟩
  rw [labelDef_mem_iff, labelsOf_headerLines]
  simp only [List.mem_singleton, Prod.mk.injEq]
  exact and_congr Iff.rfl
    (flag_eq_iff g _ _ (scope_global_default_global _ C15.default_scopes.2.2.1 md))

/-- **movement**: `movement [(mod)] Name { … }` — the label `Name` is exported iff the modifier is
`(global)`; without modifier it is local (documented default). -/
theorem movement_statement_exported_iff (env : Env) (fuel : Nat) (s : PState) (kw : Tok) (md : Mod)
    (name lb : Tok) (body : List Tok) (hmd : md.WF) (hname : name.type = .IDENT)
    (hlb : lb.type = .LBRACE) (cmds : List Tok) (s1 : PState)
    (hbody : (parseListValue env (.movement .RBRACE) true fuel []).run (st s body) = .ok (cmds, s1)) :
    ∃ mv, (parseMovementStatement env fuel).run (st s (kw :: (md.toks ++ name :: lb :: body))) =
        .ok (.movement mv, s1) ∧ mv.name = name.lit ∧
      ∀ o n g, (Line.labelDef n g ∈ emitMovement o mv ↔ n = name.lit ∧ (g = true ↔ WrittenGlobal md)) := by
  refine ⟨_, C15b.parse_movement_statement_gen env fuel s kw md name lb body hmd hname hlb cmds s1 hbody,
    rfl, ?_⟩
  intro o n g
  rw [labelDef_mem_iff, labelsOf_emitMovement]
  simp only [List.mem_singleton, Prod.mk.injEq]
  exact and_congr Iff.rfl (flag_eq_iff g _ _ (scope_global_default_local _ C15.default_scopes.2.2.2.1 md))

/-- **mart**: `mart [(mod)] Name { … }` — exported iff the modifier is `(global)`. -/
theorem mart_statement_exported_iff (env : Env) (fuel : Nat) (s : PState) (kw : Tok) (md : Mod)
    (name lb : Tok) (body : List Tok) (hmd : md.WF) (hname : name.type = .IDENT)
    (hlb : lb.type = .LBRACE) (items : List Tok) (s1 : PState)
    (hbody : (parseListValue env .mart true fuel []).run (st s body) = .ok (items, s1)) :
    ∃ tok nm tis its sc, (parseMartStatement env fuel).run (st s (kw :: (md.toks ++ name :: lb :: body))) =
        .ok (.mart tok nm tis its sc, s1) ∧ nm = name.lit ∧
      ∀ o n g, (Line.labelDef n g ∈ emitMart o tok nm tis its sc ↔
        n = name.lit ∧ (g = true ↔ WrittenGlobal md)) := by
  refine ⟨_, _, _, _, _,
    C15b.parse_mart_statement_gen env fuel s kw md name lb body hmd hname hlb items s1 hbody, rfl, ?_⟩
  intro o n g
  rw [labelDef_mem_iff, labelsOf_emitMart]
  simp only [List.mem_singleton, Prod.mk.injEq]
  exact and_congr Iff.rfl (flag_eq_iff g _ _ (scope_global_default_local _ C15.default_scopes.2.2.2.2 md))

/-- **text**: `text [(mod)] Name { "…" }` — the label `Name` is exported iff the modifier is `(global)` or
absent. -/
theorem text_statement_exported_iff (env : Env) (fuel : Nat) (s : PState) (kw : Tok) (md : Mod)
    (name lb : Tok) (v : TextVal) (rb : Tok) (rest : List Tok) (hmd : md.WF)
    (hname : name.type = .IDENT) (hlb : lb.type = .LBRACE) (hv : v.WF) (hrb : rb.type = .RBRACE) :
    ∃ t s', (parseTextStatement env fuel).run
          (st s (kw :: (md.toks ++ name :: lb :: (v.toks ++ rb :: rest)))) = .ok (.text t, s') ∧
      t.name = name.lit ∧
      ∀ o n g, (Line.labelDef n g ∈ emitText o t ↔
        n = name.lit ∧ (g = true ↔ md = .absent ∨ WrittenGlobal md)) := by
  refine ⟨_, _, C15b.parse_text_statement env fuel s kw md name lb v rb rest hmd hname hlb hv hrb, rfl, ?_⟩
  intro o n g
  rw [labelDef_mem_iff, C15.text_labels]
  simp only [List.mem_singleton, Prod.mk.injEq]
  exact and_congr Iff.rfl (flag_eq_iff g _ _ (scope_global_default_global _ C15.default_scopes.2.1 md))

/-- **label statements**: `tryParseLabelStatement` makes a label statement from the current token; it is
marked global iff it is written `Name ( global ) :` — `Name :` and `Name ( local ) :` are local. -/
theorem label_statement_flag (s : PState) :
    wp tryParseLabelStatement s (fun r _ => ∀ tok n g, r = some (.label tok n g) →
      tok = s.toks.headD s.eof ∧ n = tok.lit ∧
      (g = true ↔ (s.toks.getD 1 s.eof).type = .LPAREN ∧ (s.toks.getD 2 s.eof).type = .GLOBAL ∧
        (s.toks.getD 3 s.eof).type = .RPAREN ∧ (s.toks.getD 4 s.eof).type = .COLON)) := by
  unfold tryParseLabelStatement
  wpsimp
  split
  · next h1 =>
    intro tok n g he
    simp only [Option.some.injEq, Stmt.label.injEq] at he
    obtain ⟨rfl, rfl, rfl⟩ := he
    refine ⟨rfl, rfl, ?_⟩
    have : (s.toks.getD 1 s.eof).type = .COLON := beq_iff_eq.1 h1
    constructor
    · intro h; cases h
    · rintro ⟨ha, _⟩; rw [this] at ha; cases ha
  · split
    · next h1 h2 =>
      intro tok n g he
      simp only [Option.some.injEq, Stmt.label.injEq] at he
      obtain ⟨rfl, rfl, rfl⟩ := he
      refine ⟨rfl, rfl, ?_⟩
      simp only [Bool.and_eq_true, Bool.or_eq_true, beq_iff_eq] at h2
      constructor
      · intro h; exact ⟨h2.1.1.1, beq_iff_eq.1 h, h2.1.2, h2.2⟩
      · rintro ⟨_, h, _⟩; exact beq_iff_eq.2 h
    · intro tok n g he
      cases he

/-! ## 3. non-vacuity -/

/-! ### (a) C04c's `demoProg` (hand-written AST: two scripts with label statements, raw, movement, mart, text,
mapscripts with inline entry, plain entry and table) -/

example : ∀ n g, Line.labelDef n g ∈ demoLines ↔ Declared demoProg n g ∨ (g = false ∧ Generated oN demoProg n) :=
  label_line_iff oN demoProg _ demo_emit

example : ∀ n, Line.labelDef n true ∈ demoLines ↔ Exported demoProg n :=
  exported_iff oN demoProg _ demo_emit

/-- the exported lines of the output, computed: the global script, the label statement marked `(global)`, the
mapscripts header, the global text — not `Inner`, not the sub-labels, not `Aux` / `Walk` / `Shop` (LOCAL), not
the inline script, not the table, not the hoisted text -/
theorem demo_exported : (labelsOf demoLines).filter (·.2) =
    [("Main", true), ("Done", true), ("M", true), ("T", true)] := by decide

theorem demo_done : Exported demoProg "Done" :=
  .inr (.inr (.inr (.inr (.inr (.inl ⟨sMain, by simp [scriptsOf, demoProg, topScripts], by decide⟩)))))

example : Line.labelDef "Done" true ∈ demoLines := (exported_iff oN demoProg _ demo_emit "Done").2 demo_done

example : userLabelDefsOf sMain = [("Inner", false), ("Done", true)] := by decide

theorem demo_sub : Generated oN demoProg "Main_1" := .inl (by decide)
theorem demo_table : Generated oN demoProg "M_ON_FRAME" :=
  .inr ⟨demoMS, ⟨{ lit := "ON_FRAME" }, "M_ON_FRAME", [ ⟨{ lit := "VAR_X" }, "1", "Aux", none⟩ ]⟩,
    by simp [demoProg], by simp [demoMS], rfl⟩

example : Line.labelDef "Main_1" false ∈ demoLines := generated_are_local oN demoProg _ demo_emit _ demo_sub
example : Line.labelDef "M_ON_FRAME" false ∈ demoLines := generated_are_local oN demoProg _ demo_emit _ demo_table

example : ¬ Exported demoProg "Main_1" := by
  intro h
  have := (labelDef_mem_iff _ _ _).1 ((exported_iff oN demoProg _ demo_emit "Main_1").2 h)
  revert this
  decide

example : ∀ g, Line.labelDef "Aux" g ∈ (match emitScript oN demoProg.patches [] sAux with | .ok l => l | .error _ => []) ↔
    g = (sAux.scope == .GLOBAL) :=
  entry_label_flag oN demoProg.patches [] sAux _ rfl

/-! ### (iv) is not vacuous for the emitter: a hand-made AST with a GLOBAL inline map script (the parser never
builds one, `parsed_scopes_binary`) -/

def ivScript : Script := { name := "M_ON_LOAD", scope := .GLOBAL, body := [ .cmd { id := 1, name := "nop" } ] }
def ivMS : MapScripts :=
  { tok := {}, name := "M", scope := .LOCAL, mapScripts := [ ⟨{ lit := "ON_LOAD" }, "M_ON_LOAD", some ivScript⟩ ],
    tables := [] }
def ivProg : Program := { tops := [ .mapscripts ivMS ] }

theorem iv_accepted : ∃ ls, emitProgram oN ivProg = .ok ls ∧ labelsOf ls = [("M", false), ("M_ON_LOAD", true)] :=
  ⟨_, rfl, by decide⟩

theorem iv_exported : Exported ivProg "M_ON_LOAD" := by
  refine .inr (.inr (.inr (.inr (.inr (.inr ⟨ivScript, ?_, rfl, rfl⟩)))))
  simp [inlineScriptsOf, ivProg, inlineScripts, ivMS, optScripts]

example : ∀ ls, emitProgram oN ivProg = .ok ls → Line.labelDef "M_ON_LOAD" true ∈ ls :=
  fun ls h => (exported_iff oN ivProg ls h _).2 iv_exported

/-! ### (b) a parsed file with one statement of each kind and each modifier -/

def glob : List Tok := [tk .LPAREN "(", tk .GLOBAL "global", tk .RPAREN ")"]
def loc : List Tok := [tk .LPAREN "(", tk .LOCAL "local", tk .RPAREN ")"]

/-- ```
script S1 { lock  L1(global):  L2:  L3(local):  if (flag(F)) { msgbox("hi") }  applymovement(1, moves(walk_up)) }
script(local) S2 { release }          script(global) S3 { release }
text T1 { "a" }      text(local) T2 { "b" }      text(global) T3 { "c" }
movement M1 { walk_up }   movement(global) M2 { walk_up }   movement(local) M3 { walk_up }
mart R1 { ITEM_A }        mart(global) R2 { ITEM_A }        mart(local) R3 { ITEM_A }
mapscripts MS1 { ON_LOAD { lock }  ON_FRAME [ VAR_X, 1 { release } ]  ON_RESUME: S2 }
mapscripts(local) MS2 { }   mapscripts(global) MS3 { }
raw `x`
``` -/
def exToks : List Tok :=
  [tk .SCRIPT "script", tk .IDENT "S1", tk .LBRACE "{", tk .IDENT "lock",
     tk .IDENT "L1"] ++ glob ++ [tk .COLON ":", tk .IDENT "L2", tk .COLON ":", tk .IDENT "L3"] ++ loc ++ [tk .COLON ":",
     tk .IF "if", tk .LPAREN "(", tk .FLAG "flag", tk .LPAREN "(", tk .IDENT "F", tk .RPAREN ")", tk .RPAREN ")",
       tk .LBRACE "{", tk .IDENT "msgbox", tk .LPAREN "(", tk .STRING "hi", tk .RPAREN ")", tk .RBRACE "}",
     tk .IDENT "applymovement", tk .LPAREN "(", tk .INT "1", tk .COMMA ",", tk .MOVES "moves", tk .LPAREN "(",
       tk .IDENT "walk_up", tk .RPAREN ")", tk .RPAREN ")", tk .RBRACE "}",
   tk .SCRIPT "script"] ++ loc ++ [tk .IDENT "S2", tk .LBRACE "{", tk .IDENT "release", tk .RBRACE "}",
   tk .SCRIPT "script"] ++ glob ++ [tk .IDENT "S3", tk .LBRACE "{", tk .IDENT "release", tk .RBRACE "}",
   tk .TEXT "text", tk .IDENT "T1", tk .LBRACE "{", tk .STRING "a", tk .RBRACE "}",
   tk .TEXT "text"] ++ loc ++ [tk .IDENT "T2", tk .LBRACE "{", tk .STRING "b", tk .RBRACE "}",
   tk .TEXT "text"] ++ glob ++ [tk .IDENT "T3", tk .LBRACE "{", tk .STRING "c", tk .RBRACE "}",
   tk .MOVEMENT "movement", tk .IDENT "M1", tk .LBRACE "{", tk .IDENT "walk_up", tk .RBRACE "}",
   tk .MOVEMENT "movement"] ++ glob ++ [tk .IDENT "M2", tk .LBRACE "{", tk .IDENT "walk_up", tk .RBRACE "}",
   tk .MOVEMENT "movement"] ++ loc ++ [tk .IDENT "M3", tk .LBRACE "{", tk .IDENT "walk_up", tk .RBRACE "}",
   tk .MART "mart", tk .IDENT "R1", tk .LBRACE "{", tk .IDENT "ITEM_A", tk .RBRACE "}",
   tk .MART "mart"] ++ glob ++ [tk .IDENT "R2", tk .LBRACE "{", tk .IDENT "ITEM_A", tk .RBRACE "}",
   tk .MART "mart"] ++ loc ++ [tk .IDENT "R3", tk .LBRACE "{", tk .IDENT "ITEM_A", tk .RBRACE "}",
   tk .MAPSCRIPTS "mapscripts", tk .IDENT "MS1", tk .LBRACE "{",
     tk .IDENT "ON_LOAD", tk .LBRACE "{", tk .IDENT "lock", tk .RBRACE "}",
     tk .IDENT "ON_FRAME", tk .LBRACKET "[", tk .IDENT "VAR_X", tk .COMMA ",", tk .INT "1", tk .LBRACE "{",
       tk .IDENT "release", tk .RBRACE "}", tk .RBRACKET "]",
     tk .IDENT "ON_RESUME", tk .COLON ":", tk .IDENT "S2", tk .RBRACE "}",
   tk .MAPSCRIPTS "mapscripts"] ++ loc ++ [tk .IDENT "MS2", tk .LBRACE "{", tk .RBRACE "}",
   tk .MAPSCRIPTS "mapscripts"] ++ glob ++ [tk .IDENT "MS3", tk .LBRACE "{", tk .RBRACE "}",
   tk .RAW "raw", tk .RAWSTRING "x", tk .EOF ""]

def exP : Program := match parseTokens {} exToks with | .ok p => p | .error _ => {}

theorem exP_parsed : parseTokens {} exToks = .ok exP := by
  have key : (match parseTokens {} exToks with | .ok _ => true | .error _ => false) = true := by
    decide +kernel
  unfold exP
  cases h : parseTokens {} exToks with
  | error e => rw [h] at key; cases key
  | ok p => rfl

def exLs : List Line := match emitProgram oN exP with | .ok ls => ls | .error _ => []

theorem exP_accepted : emitProgram oN exP = .ok exLs := by
  have key : (match emitProgram oN exP with | .ok _ => true | .error _ => false) = true := by
    decide +kernel
  unfold exLs
  cases h : emitProgram oN exP with
  | error e => rw [h] at key; cases key
  | ok ls => rfl

/-- every label line of the compiled output with its flag: each statement kind follows its modifier, and its
documented default without one; `L1(global):` is exported, `L2:` and `L3(local):` are not; sub-labels `S1_<d>`,
inline scripts `MS1_ON_LOAD`, `MS1_ON_FRAME_0`, the table `MS1_ON_FRAME`, the hoisted movement and text are
local -/
theorem ex_census : labelsOf exLs =
    [("S1", true), ("L1", true), ("L2", false), ("L3", false), ("S1_1", false), ("S1_2", false), ("S1_3", false),
     ("S2", false), ("S3", true), ("M1", false), ("M2", true), ("M3", false), ("R1", false), ("R2", true),
     ("R3", false), ("MS1", true), ("MS1_ON_LOAD", false), ("MS1_ON_FRAME", false), ("MS1_ON_FRAME_0", false),
     ("MS2", false), ("MS3", true), ("S1_Movement_0", false), ("S1_Text_0", false), ("T1", true), ("T2", false),
     ("T3", true)] := by decide +kernel

example : ∀ n, Line.labelDef n true ∈ exLs ↔ WrittenExported exP.tops n :=
  parsed_exported_iff {} exToks exP exP_parsed oN exLs exP_accepted

example : ∃ tops, exP.texts = HoistModel.hoistedTexts (C06c.inlineTextsOf {} exToks) ++ C06c.textsOf tops ∧
    exP.tops = tops ++ (HoistModel.hoistedMoves (C06c.inlineMovesOf {} exToks)).map Top.movement ∧
    ∀ n, Line.labelDef n true ∈ exLs ↔ WrittenExported tops n :=
  parsed_exported_iff_written {} exToks exP exP_parsed oN exLs exP_accepted

/-- both sides of the equivalence are inhabited: `M2` (written `(global)`) is exported, `M1` (default) is not -/
example : WrittenExported exP.tops "M2" ∧ ¬ WrittenExported exP.tops "M1" := by
  have h := parsed_exported_iff {} exToks exP exP_parsed oN exLs exP_accepted
  constructor
  · refine (h "M2").1 ((labelDef_mem_iff _ _ _).2 ?_)
    rw [ex_census]; decide
  · intro hw
    have := (labelDef_mem_iff _ _ _).1 ((h "M1").2 hw)
    rw [ex_census] at this
    revert this
    decide

example := parsed_scopes_binary {} exToks exP exP_parsed

/-! ### (c) as written or default, per statement kind -/

/-- `movement (global) Walk { … }` ↦ `Walk::` -/
example (env : Env) (s : PState) (rest : List Tok) :
    ∃ mv, (parseMovementStatement env 9).run
        (st s (tk .MOVEMENT "movement" :: ([tk .LPAREN "(", tk .GLOBAL "global", tk .RPAREN ")"] ++
          tk .IDENT "Walk" :: tk .LBRACE "{" :: (C14b.printItems C14b.exItems ++ tk .RBRACE "}" :: rest)))) =
          .ok (.movement mv, st s (tk .RBRACE "}" :: rest)) ∧
      ∀ o, Line.labelDef "Walk" true ∈ emitMovement o mv := by
  have hb := C14b.parse_movement_list env .RBRACE (Or.inl rfl) s C14b.exItems (tk .RBRACE "}") rest
    C14b.exItems_wf rfl _ C14b.exItems_expand [] 9 (by decide)
  obtain ⟨mv, h1, _, h3⟩ := movement_statement_exported_iff env 9 s (tk .MOVEMENT "movement")
    (.written (tk .LPAREN "(") (tk .GLOBAL "global") (tk .RPAREN ")")) (tk .IDENT "Walk") (tk .LBRACE "{") _
    ⟨rfl, Or.inl rfl, rfl⟩ rfl rfl _ _ hb
  exact ⟨mv, h1, fun o => (h3 o "Walk" true).2 ⟨rfl, by simp⟩⟩

/-- `movement Walk { … }` ↦ `Walk:` (documented default of movement: local) -/
example (env : Env) (s : PState) (rest : List Tok) :
    ∃ mv, (parseMovementStatement env 9).run
        (st s (tk .MOVEMENT "movement" :: ([] ++
          tk .IDENT "Walk" :: tk .LBRACE "{" :: (C14b.printItems C14b.exItems ++ tk .RBRACE "}" :: rest)))) =
          .ok (.movement mv, st s (tk .RBRACE "}" :: rest)) ∧
      ∀ o, Line.labelDef "Walk" false ∈ emitMovement o mv ∧ Line.labelDef "Walk" true ∉ emitMovement o mv := by
  have hb := C14b.parse_movement_list env .RBRACE (Or.inl rfl) s C14b.exItems (tk .RBRACE "}") rest
    C14b.exItems_wf rfl _ C14b.exItems_expand [] 9 (by decide)
  obtain ⟨mv, h1, _, h3⟩ := movement_statement_exported_iff env 9 s (tk .MOVEMENT "movement")
    .absent (tk .IDENT "Walk") (tk .LBRACE "{") _ trivial rfl rfl _ _ hb
  refine ⟨mv, h1, fun o => ⟨(h3 o "Walk" false).2 ⟨rfl, by simp⟩, fun hx => ?_⟩⟩
  have := ((h3 o "Walk" true).1 hx).2.1 rfl
  simp at this

/-- `text Msg { "Hi" }` ↦ `Msg::` (default of text: global); `text (local) Msg { "Hi" }` ↦ `Msg:` -/
example (env : Env) (s : PState) (rest : List Tok) :
    ∃ t s', (parseTextStatement env 0).run
        (st s (tk .TEXT "text" :: ([] ++ tk .IDENT "Msg" :: tk .LBRACE "{" ::
          ([tk .STRING "Hi"] ++ tk .RBRACE "}" :: rest)))) = .ok (.text t, s') ∧
      ∀ o, Line.labelDef "Msg" true ∈ emitText o t := by
  obtain ⟨t, s', h1, _, h3⟩ := text_statement_exported_iff env 0 s (tk .TEXT "text") .absent (tk .IDENT "Msg")
    (tk .LBRACE "{") (.plain (tk .STRING "Hi")) (tk .RBRACE "}") rest trivial rfl rfl rfl rfl
  exact ⟨t, s', h1, fun o => (h3 o "Msg" true).2 ⟨rfl, by simp⟩⟩

example (env : Env) (s : PState) (rest : List Tok) :
    ∃ t s', (parseTextStatement env 0).run
        (st s (tk .TEXT "text" :: ([tk .LPAREN "(", tk .LOCAL "local", tk .RPAREN ")"] ++
          tk .IDENT "Msg" :: tk .LBRACE "{" :: ([tk .STRING "Hi"] ++ tk .RBRACE "}" :: rest)))) =
          .ok (.text t, s') ∧
      ∀ o, Line.labelDef "Msg" false ∈ emitText o t := by
  obtain ⟨t, s', h1, _, h3⟩ := text_statement_exported_iff env 0 s (tk .TEXT "text")
    (.written (tk .LPAREN "(") (tk .LOCAL "local") (tk .RPAREN ")")) (tk .IDENT "Msg")
    (tk .LBRACE "{") (.plain (tk .STRING "Hi")) (tk .RBRACE "}") rest ⟨rfl, Or.inr rfl, rfl⟩ rfl rfl rfl rfl
  refine ⟨t, s', h1, fun o => (h3 o "Msg" false).2 ⟨rfl, ?_⟩⟩
  simp

/-- a concrete start state -/
def s0 : PState := { toks := [], eof := tk .EOF "" }

/-- `script (local) S { lock }` (concrete start state): parsed, and in whatever lines the emitter produces for it
`S` is local. -/
example : ∃ scr imp s1, (parseScriptStatement {} 5).run
      (st s0 (tk .SCRIPT "script" :: ([tk .LPAREN "(", tk .LOCAL "local", tk .RPAREN ")"] ++
        tk .IDENT "S" :: tk .LBRACE "{" :: [tk .IDENT "lock", tk .RBRACE "}"]))) = .ok ((scr, imp), s1) ∧
    ∀ o patches tl l, emitScript o patches tl scr = .ok l →
      Line.labelDef "S" false ∈ l ∧ Line.labelDef "S" true ∉ l := by
  have hb : ∃ r s1, (parseBlockStatement {} "S" (tk .LBRACE "{") 5 [] {}).run
      (st s0 [tk .IDENT "lock", tk .RBRACE "}"]) = .ok (r, s1) := ⟨_, _, rfl⟩
  obtain ⟨r, s1, hb⟩ := hb
  obtain ⟨scr, h1, _, h3⟩ := script_statement_exported_iff {} 5 s0 (tk .SCRIPT "script")
    (.written (tk .LPAREN "(") (tk .LOCAL "local") (tk .RPAREN ")")) (tk .IDENT "S") (tk .LBRACE "{") _
    ⟨rfl, Or.inr rfl, rfl⟩ rfl rfl r s1 hb
  refine ⟨scr, _, _, h1, fun o patches tl l hl => ⟨(h3 o patches tl l hl false).2 ?_, fun hx => ?_⟩⟩
  · simp
  · have := (h3 o patches tl l hl true).1 hx
    simp at this

/-- `Lbl ( global ) :` is a global label statement, `Lbl :` a local one. -/
example : tryParseLabelStatement.run (st s0 ([tk .IDENT "Lbl"] ++ glob ++ [tk .COLON ":", tk .IDENT "lock"])) =
      .ok (some (.label (tk .IDENT "Lbl") "Lbl" true), st s0 [tk .COLON ":", tk .IDENT "lock"]) ∧
    tryParseLabelStatement.run (st s0 [tk .IDENT "Lbl", tk .COLON ":", tk .IDENT "lock"]) =
      .ok (some (.label (tk .IDENT "Lbl") "Lbl" false), st s0 [tk .COLON ":", tk .IDENT "lock"]) := ⟨rfl, rfl⟩

example := label_statement_flag (st s0 ([tk .IDENT "Lbl"] ++ glob ++ [tk .COLON ":", tk .IDENT "lock"])) _ _ rfl
  _ _ _ rfl

#print axioms label_line_iff
#print axioms exported_iff
#print axioms local_iff
#print axioms generated_are_local
#print axioms entry_label_flag
#print axioms parsed_exported_iff
#print axioms parsed_exported_iff_written
#print axioms parsed_scopes_binary
#print axioms scope_global_iff
#print axioms script_statement_exported_iff
#print axioms mapscripts_statement_exported_iff
#print axioms movement_statement_exported_iff
#print axioms mart_statement_exported_iff
#print axioms text_statement_exported_iff
#print axioms label_statement_flag

end Pory.C15c
