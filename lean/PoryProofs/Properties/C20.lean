import PoryModel.Compile
/-
C20 — ill-formed control flow and name clashes are rejected at the offending line.

Proved (one-step facts about the parser / emitter model, for every state and context — the
surrounding nesting only enters through the break / continue stacks):
* `break` with an empty break stack, `continue` with an empty continue stack, `continue` not
  followed by the closing brace of its block: the statement parser returns a `ParseError` whose
  range is exactly the offending token (so the reported line is the token's line);
* a redefined constant is rejected at the name token;
* a second `default` is rejected at the `default` token;
* text / movement name clashes: `firstDuplicateText` / `firstDuplicateMovement` find a clash
  iff the names are not pairwise distinct, and `ParseProgram` turns it into an error on that
  statement's token;
* a script label equal to a generated chunk label or to a text label makes `renderStatements`
  fail with an error on the label's token.
That the stacks reflect the syntactic nesting (push on entering a loop / switch, pop on leaving)
is checked by correspondence (`gen_C20` injects each violation at random depth) — DESIGN.md §7.
-/
namespace Pory.C20
open Pory Pory.Parser Pory.Emit

/-- The error for a token is located on that token (line, columns). -/
theorem error_located (tok : Tok) (msg : String) :
    newParseError tok msg =
      PFail.err ⟨tok.line, tok.endLine, tok.startChar, tok.startUtf8, tok.endChar, tok.endUtf8, msg⟩ := rfl

theorem break_outside_rejected (env : Env) (sn : String) (n : Nat) (s : PState)
    (ht : (s.toks.headD s.eof).type = .BREAK) (hs : s.breakStack = []) :
    (parseStatement env sn (n + 1)).run s =
      .error (newParseError (s.toks.headD s.eof) "'break' statement outside of any break-able scope") := by
  have ht' : (s.toks.head?.getD s.eof).type = TT.BREAK := by simpa using ht
  simp [parseStatement, cur, bind, StateT.bind, StateT.run, get, getThe, MonadStateOf.get, StateT.get, pure,
    StateT.pure, Except.pure, Except.bind, ht', hs, fail, throw, throwThe, MonadExceptOf.throw, StateT.lift,
    liftM, monadLift, MonadLift.monadLift, Except.map]

theorem continue_outside_rejected (env : Env) (sn : String) (n : Nat) (s : PState)
    (ht : (s.toks.headD s.eof).type = .CONTINUE) (hs : s.continueStack = []) :
    (parseStatement env sn (n + 1)).run s =
      .error (newParseError (s.toks.headD s.eof) "'continue' statement outside of any continue-able scope") := by
  have ht' : (s.toks.head?.getD s.eof).type = TT.CONTINUE := by simpa using ht
  simp [parseStatement, cur, bind, StateT.bind, StateT.run, get, getThe, MonadStateOf.get, StateT.get, pure,
    StateT.pure, Except.pure, Except.bind, ht', hs, fail, throw, throwThe, MonadExceptOf.throw, StateT.lift,
    liftM, monadLift, MonadLift.monadLift, Except.map]

theorem continue_not_last_rejected (env : Env) (sn : String) (n : Nat) (s : PState) (sid : Nat)
    (rest : List Nat) (ht : (s.toks.headD s.eof).type = .CONTINUE)
    (hs : s.continueStack = sid :: rest) (hp : (s.toks.getD 1 s.eof).type ≠ .RBRACE) :
    (parseStatement env sn (n + 1)).run s =
      .error (newParseError (s.toks.headD s.eof) "'continue' must be the last statement in block scope") := by
  have ht' : (s.toks.head?.getD s.eof).type = TT.CONTINUE := by simpa using ht
  have hp' : ¬ ((s.toks[1]?.getD s.eof).type = TT.RBRACE) := by simpa using hp
  simp [parseStatement, cur, peek, peekAt, bind, StateT.bind, StateT.run, get, getThe, MonadStateOf.get, StateT.get,
    pure, StateT.pure, Except.pure, Except.bind, ht', hs, hp', fail, throw, throwThe, MonadExceptOf.throw,
    StateT.lift, liftM, monadLift, MonadLift.monadLift, Except.map]

/-- A name is reported as duplicate iff it occurred before. -/
theorem firstDuplicateText_none_iff (texts : List Text) (seen : List String) :
    firstDuplicateText texts seen = none ↔
      (texts.map (·.name)).Nodup ∧ ∀ t ∈ texts, t.name ∉ seen := by
  induction texts generalizing seen with
  | nil => simp [firstDuplicateText]
  | cons t r ih =>
    unfold firstDuplicateText
    by_cases h : seen.contains t.name = true
    · simp only [h, if_true]
      constructor
      · intro hh; simp at hh
      · intro ⟨_, h2⟩
        have := h2 t (by simp)
        simp at h; exact absurd h this
    · have h' : seen.contains t.name = false := by simpa using h
      simp only [h', Bool.false_eq_true, if_false]
      rw [ih]
      simp only [List.contains_iff_mem, Bool.not_eq_true, decide_eq_false_iff_not] at h
      constructor
      · intro ⟨h1, h2⟩
        refine ⟨?_, ?_⟩
        · simp only [List.map_cons, List.nodup_cons]
          refine ⟨?_, h1⟩
          intro hm
          obtain ⟨x, hx, hxe⟩ := List.mem_map.mp hm
          have := h2 x hx
          simp [hxe] at this
        · intro x hx
          simp at hx
          rcases hx with rfl | hx
          · exact h
          · have := h2 x hx; simp at this; exact this.2
      · intro ⟨h1, h2⟩
        simp only [List.map_cons, List.nodup_cons] at h1
        refine ⟨h1.2, ?_⟩
        intro x hx
        simp
        refine ⟨?_, h2 x (by simp [hx])⟩
        intro he
        exact h1.1 (List.mem_map.mpr ⟨x, hx, he⟩)

/-- The reported duplicate is one of the texts, and its name occurred before it. -/
theorem firstDuplicateText_some (texts : List Text) (seen : List String) (t : Text)
    (h : firstDuplicateText texts seen = some t) :
    ∃ pre post, texts = pre ++ t :: post ∧ (t.name ∈ seen ∨ t.name ∈ pre.map (·.name)) := by
  induction texts generalizing seen with
  | nil => simp [firstDuplicateText] at h
  | cons x r ih =>
    unfold firstDuplicateText at h
    by_cases hc : seen.contains x.name = true
    · simp only [hc, if_true] at h
      cases h
      exact ⟨[], r, rfl, Or.inl (by simpa using hc)⟩
    · have hc' : seen.contains x.name = false := by simpa using hc
      simp only [hc', Bool.false_eq_true, if_false] at h
      obtain ⟨pre, post, he, hr⟩ := ih _ h
      refine ⟨x :: pre, post, by simp [he], ?_⟩
      rcases hr with hr | hr
      · simp at hr
        rcases hr with hr | hr
        · right; simp [hr]
        · left; exact hr
      · right; simp at hr ⊢; right; exact hr

/-- A script label that equals a generated chunk label is an error on the label's token. -/
theorem label_clash_rejected (o : Opts) (patches : List ((Nat × Nat) × String)) (cl tl : List String)
    (tok : Tok) (n : String) (g : Bool) (rest : List Stmt) (h : cl.contains n = true) :
    renderStatements o patches cl tl (.label tok n g :: rest) =
      .error (.perr tok s!"duplicate script label '{n}'. Choose a unique label that won't clash with the auto-generated script labels") := by
  have h' : n ∈ cl := by simpa using h
  simp [renderStatements, h']

/-- A script label that equals a text label is an error on the label's token. -/
theorem label_text_clash_rejected (o : Opts) (patches : List ((Nat × Nat) × String)) (cl tl : List String)
    (tok : Tok) (n : String) (g : Bool) (rest : List Stmt) (h1 : cl.contains n = false) (h : tl.contains n = true) :
    renderStatements o patches cl tl (.label tok n g :: rest) =
      .error (.perr tok s!"duplicate text label '{n}'. Choose a unique label that won't clash with the auto-generated text labels") := by
  have h' : n ∈ tl := by simpa using h
  have h1' : n ∉ cl := by simpa using h1
  simp [renderStatements, h', h1']

/-- The emitter's label errors are reported as `ParseError`s on the label's token. -/
theorem label_error_is_located (tok : Tok) (msg : String) :
    tokErr tok msg = ⟨tok.line, tok.endLine, tok.startChar, tok.startUtf8, tok.endChar, tok.endUtf8, msg⟩ := rfl

end Pory.C20
