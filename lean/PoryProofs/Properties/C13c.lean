import PoryProofs.ConstExpandElab
import PoryProofs.ConstExpandWF
import PoryProofs.Properties.P1
/-
C13 (statement positions) — "Compiling a program with const definitions yields the same output as the program
with every later use replaced by the constant's fully expanded value, in every documented position: command
arguments, condition operands and comparison values, switch operands and case values."

Setting.  The constant table is `K = C13b.render wt` for a word table `wt : C13b.WTable` (name ↦ the words of the
stored value; `C13b.parse_constant` / `expanded_fully` / `value_eq_words`: a stored value IS the single-space
join of its words) with `C13b.WordsOK wt` (of which only "no stored word list is empty" is used).  Surface
syntax, printer, well-formedness and reference elaboration are those of P1 (`StmtG.SStmt`, `printL`, `SWF`,
`elabE`; `P1.parse_block_elab`: the parser on the printed tokens returns exactly `elabE`).

Definitions (PoryProofs/ConstExpand.lean):
* `expandTok wt t`  — `wt.lookup t.lit = some ws` ↦ one token per word `w` (`wordTok t w`: literal `w`, the six
  positions copied from `t`, type `wordType w`), else `[t]` (`expandTok_defined`, `expandTok_undefined` state it
  on `K`).  `wordType` is a SIMPLE RULE, not the model lexer: lexer punctuation / operators by table, ASCII digit
  (or `-` digit) first ↦ INT, ASCII letter / `_` / non-ASCII first ↦ `getIdentType` (keyword or IDENT), empty ↦
  EOF, else ILLEGAL; the `#guard`s at the end compare it with `Lexer.lexAll` on a sample.
* `expandB wt b`    — applies it at every substitution site and nowhere else.  Sites: the argument tokens of
  `cmd`, the token elements of `cmdI` arguments, the arguments of the command of an auto-var condition and of
  `switch (cmd(…))`, condition operands and comparison values, `switch (var(…))` operand tokens, `case` value
  tokens.  Two remarks:
    - inside command arguments tokens of TYPE `(` / `)` are not sites of the model (`C10b.argPart`) and are
      left alone (`expandArgTok`); under the side condition of `C10b.parse_command_subst` this is `expandTok`
      (`expandArgTok_eq`);
    - the leaves of `SOr` conditions and the `op N` tail of an auto-var leaf carry exactly ONE operand / value
      token in the P1 surface grammar (multi-token operands are outside P1), so a multi-word value cannot be
      written as several tokens there: the literal is replaced by the whole value in one token
      (`expandLeaf`, `expandVal`) — the string the parser's `collectUntil` rebuilds from separate tokens.
* `eraseL` — normalisation of elaborated statements: the `type` field of switch-operand tokens and case-value
  tokens is erased.  These two tokens are "first token of the site with the literal replaced by the rebuilt
  value"; after a hand expansion the first token is the first word of the value: same positions, same literal,
  but the word's type (`case N` with `N = 5` stores `IDENT "5"`, `case 5` stores `INT "5"`).  Nothing else
  differs: command tokens, names, argument strings, cmd ids, sids, condition trees (operand tokens included),
  operators, comparison values, labels, structure are EQUAL.  The emitter model never reads `Tok.type`.

Proved (nothing partial for the P1 grammar):
* `elab_const_expand`     : `viewE (elabE env sn {c with consts := render wt} b) =
                             viewE (elabE env sn {c with consts := []} (expandB wt b))` for EVERY block `b`
                            (no well-formedness needed), every `env`, context; `viewE` = the error, or
                            (`eraseL` statements, implicit data, counters, stacks).
                            `elab_const_expand_ok` / `_error` spell it out.
* `swf_expand`            : `SWF b → PlainValues wt → SWF (expandB wt b)` (`PlainValues`: every word of every
                            value has a type that is not `,` `(` `)` `:` EOF `format` STRING STRINGTYPE `moves`).
* `parse_const_expand`    : corollary with P1: the parser on `printL b` under `K` and on `printL (expandB wt b)`
                            under no constants give the same result in the same sense, provided both blocks
                            are `SWF`; `parse_const_expand_plain`: `PlainValues wt` instead of the second `SWF`.
* THE SIDE CONDITION IS GENUINE: `comma_value_changes_arguments` — `const K = 1 , 2` is accepted by
  `parseConstant` and stored as `1 , 2`; `setvar(K)` then has ONE argument `1 , 2`, the hand expansion
  `setvar(1 , 2)` has TWO arguments `1`, `2` (and is not `SWF` as an expansion: the comma token restructures
  the argument list).  `paren_value_changes_switch` — with `const K = ( 1 )`, `switch (var(K)) {…}` switches on
  the operand `( 1 )`, the hand expansion `switch (var(( 1 ))) {…}` is REJECTED ("missing opening curly brace
  of switch statement": the operand ends at the first `)`).  Likewise `:` in a `case` value, `format`, string
  tokens … change the structure of the expanded source: "use = value written out" holds for the token STRINGS
  that reach the output, not for the source text, unless the value's words are plain (`PlainValues`).
* `non_sites_untouched`   : `expandB` and `elabS` leave command names, label names, scope keywords, the
                            `poryswitch` operand alone; example: with `const setvar = 1`, `setvar(setvar)` is the
                            command `setvar` with argument `1`.  (Script names are not part of a body: `sn` is a
                            parameter of `elabE` and is not looked up.)
-/
namespace Pory.C13c
open Pory Pory.Parser Pory.C02P Pory.C10b Pory.C10c Pory.StmtG Pory.C13b Pory.TopParse

/-! ### `expandTok` in terms of the parser's table `K = render wt` -/

/-- "values `K` as `parse_constant` stores them" -/
def ValuesOK (K : List (String × String)) (wt : WTable) : Prop := K = render wt ∧ WordsOK wt

theorem expandTok_defined (wt : WTable) (t : Tok) (v : String) (h : (render wt).lookup t.lit = some v) :
    ∃ ws, v = joinSp ws ∧ expandTok wt t = ws.map (wordTok t) := by
  rw [render_lookup] at h
  unfold expandTok
  cases hl : wt.lookup t.lit with
  | none => rw [hl] at h; cases h
  | some ws =>
    rw [hl] at h
    simp only [Option.map_some, Option.some.injEq] at h
    exact ⟨ws, h.symm, rfl⟩

theorem expandTok_undefined (wt : WTable) (t : Tok) (h : (render wt).lookup t.lit = none) :
    expandTok wt t = [t] := by
  rw [render_lookup] at h
  unfold expandTok
  cases hl : wt.lookup t.lit with
  | none => rfl
  | some ws => rw [hl] at h; cases h

theorem wordTok_fields (t : Tok) (w : String) :
    (wordTok t w).lit = w ∧ (wordTok t w).type = wordType w ∧ (wordTok t w).line = t.line ∧
    (wordTok t w).startChar = t.startChar ∧ (wordTok t w).startUtf8 = t.startUtf8 ∧
    (wordTok t w).endLine = t.endLine ∧ (wordTok t w).endChar = t.endChar ∧
    (wordTok t w).endUtf8 = t.endUtf8 := ⟨rfl, rfl, rfl, rfl, rfl, rfl, rfl, rfl⟩

/-- `eraseTy` touches the type only. -/
theorem eraseTy_fields (t : Tok) :
    (eraseTy t).lit = t.lit ∧ (eraseTy t).line = t.line ∧ (eraseTy t).startChar = t.startChar ∧
    (eraseTy t).startUtf8 = t.startUtf8 ∧ (eraseTy t).endLine = t.endLine ∧
    (eraseTy t).endChar = t.endChar ∧ (eraseTy t).endUtf8 = t.endUtf8 := ⟨rfl, rfl, rfl, rfl, rfl, rfl, rfl⟩

/-! ### the main theorem -/

/-- What is compared of an elaboration result: the located error, or the statements up to `eraseL`, the
implicit data, the two counters and the two stacks. -/
def viewE : Except PFail (List Stmt × ImpData × Ctx) →
    Except PFail (List Stmt × ImpData × Nat × Nat × List Nat × List Nat)
  | .error e => .error e
  | .ok (stmts, imp, c) => .ok (eraseL stmts, imp, c.nextSid, c.nextCmdId, c.breakStack, c.continueStack)

/-- **C13, statement positions.** Elaborating `b` with the constants `K = render wt` and elaborating the hand
expansion `expandB wt b` with no constants agree. -/
theorem elab_const_expand (env : Env) (sn : String) (wt : WTable) (hok : WordsOK wt) (c : Ctx)
    (b : List SStmt) :
    viewE (elabE env sn { c with consts := render wt } b) =
      viewE (elabE env sn { c with consts := [] } (expandB wt b)) := by
  unfold elabE
  rcases vw_inv (elabL_expand env sn wt (nonEmpty_of_ok hok) b c.breakStack c.continueStack true c.nextSid
      c.nextCmdId) with ⟨e, h1, h2⟩ | ⟨a, a', m, i, j, h1, h2, ha⟩
  · simp only [h1, h2]
  · simp only [h1, h2, viewE, ha]

/-- Acceptance, spelled out. -/
theorem elab_const_expand_ok (env : Env) (sn : String) (wt : WTable) (hok : WordsOK wt) (c : Ctx)
    (b : List SStmt) (stmts : List Stmt) (imp : ImpData) (c' : Ctx)
    (h : elabE env sn { c with consts := render wt } b = .ok (stmts, imp, c')) :
    ∃ stmts', elabE env sn { c with consts := [] } (expandB wt b) = .ok (stmts', imp, { c' with consts := [] }) ∧
      eraseL stmts' = eraseL stmts := by
  have hv := elab_const_expand env sn wt hok c b
  rw [h] at hv
  have hst := elabE_stacks h
  cases h2 : elabE env sn { c with consts := [] } (expandB wt b) with
  | error e => rw [h2] at hv; simp [viewE] at hv
  | ok r =>
    obtain ⟨stmts', imp', c''⟩ := r
    rw [h2] at hv
    simp only [viewE, Except.ok.injEq, Prod.mk.injEq] at hv
    obtain ⟨h3, h4, h5, h6, h7, h8⟩ := hv
    have hst' := elabE_stacks h2
    refine ⟨stmts', ?_, h3.symm⟩
    subst h4
    congr 3
    cases c''; cases c'
    simp_all

/-- Rejection, spelled out: the same located error. -/
theorem elab_const_expand_error (env : Env) (sn : String) (wt : WTable) (hok : WordsOK wt) (c : Ctx)
    (b : List SStmt) (e : PFail) (h : elabE env sn { c with consts := render wt } b = .error e) :
    elabE env sn { c with consts := [] } (expandB wt b) = .error e := by
  have hv := elab_const_expand env sn wt hok c b
  rw [h] at hv
  cases h2 : elabE env sn { c with consts := [] } (expandB wt b) with
  | error e' => rw [h2] at hv; simp only [viewE, Except.error.injEq] at hv; rw [hv]
  | ok r => obtain ⟨stmts', imp', c''⟩ := r; rw [h2] at hv; simp [viewE] at hv

/-! ### well-formedness of the expansion -/

/-- The expansion of a well-formed block is well formed when every word of every value is a plain token. -/
theorem swf_expand (wt : WTable) (hok : WordsOK wt) (hpv : PlainValues wt) (b : List SStmt) (hwf : SWF b) :
    SWF (expandB wt b) :=
  swfL_expand hpv (nonEmpty_of_ok hok) b hwf

/-! ### corollary with P1: the parser -/

/-- What is compared of a parser result: the located error, or the statements up to `eraseL`, the implicit
data and the final state up to its constant table. -/
def viewP : Except PFail ((List Stmt × ImpData) × PState) → Except PFail (List Stmt × ImpData × PState)
  | .error e => .error e
  | .ok ((stmts, imp), s) => .ok (eraseL stmts, imp, { s with constants := [] })

/-- **C13 through the parser.** Parsing the printed tokens of `b` under the constants `K = render wt` and
parsing the printed tokens of the hand expansion under no constants give the same result — provided the
expansion is still well formed. -/
theorem parse_const_expand (env : Env) (sn : String) (startTok : Tok) (wt : WTable) (hok : WordsOK wt)
    (b : List SStmt) (rb : Tok) (rest : List Tok) (hwf : SWF b) (hwf' : SWF (expandB wt b))
    (hrb : rb.type = .RBRACE) (s : PState) (hK : s.constants = render wt)
    (htoks : s.toks = printStmts b ++ rb :: rest) (fuel fuel' : Nat) (hf : needL b ≤ fuel)
    (hf' : needL (expandB wt b) ≤ fuel') :
    viewP ((parseBlockStatement env sn startTok fuel [] {}).run s) =
      viewP ((parseBlockStatement env sn startTok fuel' [] {}).run
        { s with toks := printStmts (expandB wt b) ++ rb :: rest, constants := [] }) := by
  rw [P1.parse_block_elab env sn startTok b rb rest hwf hrb s htoks fuel hf,
    P1.parse_block_elab env sn startTok (expandB wt b) rb rest hwf' hrb
      { s with toks := printStmts (expandB wt b) ++ rb :: rest, constants := [] } rfl fuel' hf']
  have e1 : ctxOf s = { ctxOf s with consts := render wt } := by simp [ctxOf, hK]
  have e2 : ctxOf { s with toks := printStmts (expandB wt b) ++ rb :: rest, constants := [] } =
      { ctxOf s with consts := [] } := rfl
  rw [e1, e2]
  have hv := elab_const_expand env sn wt hok (ctxOf s) b
  cases h1 : elabE env sn { ctxOf s with consts := render wt } b with
  | error e =>
    rw [elab_const_expand_error env sn wt hok (ctxOf s) b e h1]
  | ok r =>
    obtain ⟨stmts, imp, c'⟩ := r
    obtain ⟨stmts', h2, h3⟩ := elab_const_expand_ok env sn wt hok (ctxOf s) b stmts imp c' h1
    rw [h2]
    simp only [viewP, h3]

/-- … with the sufficient condition on the values instead of the well-formedness of the expansion. -/
theorem parse_const_expand_plain (env : Env) (sn : String) (startTok : Tok) (wt : WTable) (hok : WordsOK wt)
    (hpv : PlainValues wt) (b : List SStmt) (rb : Tok) (rest : List Tok) (hwf : SWF b)
    (hrb : rb.type = .RBRACE) (s : PState) (hK : s.constants = render wt)
    (htoks : s.toks = printStmts b ++ rb :: rest) (fuel fuel' : Nat) (hf : needL b ≤ fuel)
    (hf' : needL (expandB wt b) ≤ fuel') :
    viewP ((parseBlockStatement env sn startTok fuel [] {}).run s) =
      viewP ((parseBlockStatement env sn startTok fuel' [] {}).run
        { s with toks := printStmts (expandB wt b) ++ rb :: rest, constants := [] }) :=
  parse_const_expand env sn startTok wt hok b rb rest hwf (swf_expand wt hok hpv b hwf) hrb s hK htoks fuel
    fuel' hf hf'

/-! ### non-sites -/

/-- Command names, label names, scope keywords and the `poryswitch` operand are neither expanded by `expandB`
nor substituted by the elaboration — whatever the table says about their literal. -/
theorem non_sites_untouched (env : Env) (sn : String) (wt : WTable) (B C : List Nat) (nx : Bool)
    (sid cid : Nat) (name lp rp colon sc : Tok) (a0 : List Tok) (more : List (Tok × List Tok)) :
    expandS wt (.cmd0 name) = .cmd0 name ∧
    expandS wt (.cmdE name lp rp) = .cmdE name lp rp ∧
    expandS wt (.cmd name lp a0 more rp) = .cmd name lp (expandArg wt a0) (expandMore wt more) rp ∧
    expandS wt (.label name colon) = .label name colon ∧
    expandS wt (.labelS name lp sc rp colon) = .labelS name lp sc rp colon ∧
    (∀ ps x lb cases rb, expandS wt (.pory ps lp x rp lb cases rb) =
      .pory ps lp x rp lb (expandPCases wt cases) rb) ∧
    elabS env sn (sub wt) B C nx (.cmd0 name) sid cid =
      .ok ([.cmd { id := cid, tok := name, name := name.lit, args := [] }], {}, sid, cid + 1) ∧
    elabS env sn (sub wt) B C nx (.cmdE name lp rp) sid cid =
      .ok ([.cmd { id := cid, tok := name, name := name.lit, args := [] }], {}, sid, cid + 1) ∧
    elabS env sn (sub wt) B C nx (.cmd name lp a0 more rp) sid cid =
      .ok ([.cmd { id := cid, tok := name, name := name.lit,
                   args := (a0 :: more.map (·.2)).map (renderArg (sub wt)) }], {}, sid, cid + 1) ∧
    elabS env sn (sub wt) B C nx (.label name colon) sid cid =
      .ok ([.label name name.lit false], {}, sid, cid) ∧
    elabS env sn (sub wt) B C nx (.labelS name lp sc rp colon) sid cid =
      .ok ([.label name name.lit (sc.type == .GLOBAL)], {}, sid, cid) :=
  ⟨rfl, rfl, rfl, rfl, rfl, fun _ _ _ _ _ => rfl, rfl, rfl, rfl, rfl, rfl⟩

/-! ### examples -/
section Example

private def lp : Tok := tk .LPAREN "("
private def rp : Tok := tk .RPAREN ")"
private def lb : Tok := tk .LBRACE "{"
private def rb : Tok := tk .RBRACE "}"
private def colon : Tok := tk .COLON ":"
private def comma : Tok := tk .COMMA ","
private def z : Nat → TPos := fun _ => {}
private def kTok : Tok := tkp ⟨3, 7, 7, 3, 8, 8⟩ .IDENT "K"

/-- `const K = BASE + 2` -/
def wtK : WTable := [("K", newWords [] [tk .IDENT "BASE", tk .ILLEGAL "+", tk .INT "2"])]

theorem wtK_render : render wtK = [("K", "BASE + 2")] := by decide
theorem wtK_ok : WordsOK wtK := by decide
theorem wtK_plain : PlainValues wtK := by decide

/-- `setvar(K, K)  if (var(K) == K) { switch (var(K)) { case K: a } }` -/
def exB : List SStmt :=
  [.cmd (tk .IDENT "setvar") lp [kTok] [(comma, [kTok])] rp,
   .ite (tk .IF "if") lp (.plain (.one (.one (.leaf (.varCmp z "K" .eq ⟨false, "K"⟩))))) rp lb
     [.switch_ (tk .SWITCH "switch") lp (tk .VAR "var") lp [kTok] rp rp lb
        [.case (tk .CASE "case") [kTok] colon [.cmd0 (tk .IDENT "a")]] rb] rb [] .none]

theorem exB_wf : SWF exB := by decide

/-- The hand expansion: `setvar(BASE + 2, BASE + 2)  if (var(BASE + 2) == BASE + 2) { switch (var(BASE + 2)) {
case BASE + 2: a } }` — every word token at the position of the `K` it replaces. -/
theorem exB_expand :
    expandB wtK exB =
      [.cmd (tk .IDENT "setvar") lp
         [{ kTok with lit := "BASE" }, { kTok with type := .ILLEGAL, lit := "+" }, { kTok with type := .INT, lit := "2" }]
         [(comma, [{ kTok with lit := "BASE" }, { kTok with type := .ILLEGAL, lit := "+" },
                   { kTok with type := .INT, lit := "2" }])] rp,
       .ite (tk .IF "if") lp
         (.plain (.one (.one (.leaf (.varCmp z "BASE + 2" .eq ⟨false, "BASE + 2"⟩))))) rp lb
         [.switch_ (tk .SWITCH "switch") lp (tk .VAR "var") lp
            [{ kTok with lit := "BASE" }, { kTok with type := .ILLEGAL, lit := "+" }, { kTok with type := .INT, lit := "2" }]
            rp rp lb
            [.case (tk .CASE "case")
               [{ kTok with lit := "BASE" }, { kTok with type := .ILLEGAL, lit := "+" },
                { kTok with type := .INT, lit := "2" }] colon [.cmd0 (tk .IDENT "a")]] rb] rb [] .none] := by
  rfl

theorem exB_expand_wf : SWF (expandB wtK exB) := swf_expand wtK wtK_ok wtK_plain exB exB_wf

/-- What both elaborations produce (here even without `eraseL`: the first word `BASE` is an IDENT like `K`). -/
def exAst : List Stmt :=
  [.cmd { id := 0, tok := tk .IDENT "setvar", name := "setvar", args := ["BASE + 2", "BASE + 2"] },
   .ite (tk .IF "if")
     (.leaf { type := .VAR, operand := tk .IDENT "BASE + 2", operator := .EQ, cmpValue := "BASE + 2" })
     [.switch_ (tk .SWITCH "switch") 0 { kTok with lit := "BASE + 2" }
        [({ kTok with lit := "BASE + 2" }, false,
          [.cmd { id := 1, tok := tk .IDENT "a", name := "a", args := [] }])]] [] none]

example (env : Env) (sn : String) :
    elabE env sn { consts := render wtK } exB = .ok (exAst, {}, { consts := render wtK, nextSid := 1, nextCmdId := 2 }) ∧
    elabE env sn { consts := [] } (expandB wtK exB) = .ok (exAst, {}, { consts := [], nextSid := 1, nextCmdId := 2 }) :=
  ⟨rfl, rfl⟩

/-- non-vacuity of `elab_const_expand` -/
example (env : Env) (sn : String) :
    viewE (elabE env sn { consts := render wtK } exB) = viewE (elabE env sn { consts := [] } (expandB wtK exB)) :=
  elab_const_expand env sn wtK wtK_ok {} exB

/-- non-vacuity of `parse_const_expand_plain`: `const K = BASE + 2` defined, one scope id and four command ids
used. -/
example (env : Env) (sn : String) (startTok : Tok) (fuel fuel' : Nat) (hf : 200 ≤ fuel) (hf' : 200 ≤ fuel') :
    viewP ((parseBlockStatement env sn startTok fuel [] {}).run
        { toks := printStmts exB ++ [rb], eof := tk .EOF "", constants := render wtK, nextSid := 1, nextCmdId := 4 }) =
      viewP ((parseBlockStatement env sn startTok fuel' [] {}).run
        { toks := printStmts (expandB wtK exB) ++ [rb], eof := tk .EOF "", constants := [], nextSid := 1,
          nextCmdId := 4 }) :=
  parse_const_expand_plain env sn startTok wtK wtK_ok wtK_plain exB rb [] exB_wf rfl
    { toks := printStmts exB ++ [rb], eof := tk .EOF "", constants := render wtK, nextSid := 1, nextCmdId := 4 }
    rfl rfl fuel fuel' (Nat.le_trans (by decide) hf) (Nat.le_trans (by decide) hf')

/-- A case where `eraseL` matters: `const N = 5`, `switch (var(N)) { case N: a }` — with the constant the
stored operand / case tokens are `IDENT "5"`, after the hand expansion `INT "5"`. -/
def wtN : WTable := [("N", ["5"])]
def exSwitchN : List SStmt :=
  [.switch_ (tk .SWITCH "switch") lp (tk .VAR "var") lp [tk .IDENT "N"] rp rp lb
     [.case (tk .CASE "case") [tk .IDENT "N"] colon [.cmd0 (tk .IDENT "a")]] rb]

example (env : Env) (sn : String) :
    elabE env sn { consts := render wtN } exSwitchN =
      .ok ([.switch_ (tk .SWITCH "switch") 0 (tk .IDENT "5")
              [(tk .IDENT "5", false, [.cmd { id := 0, tok := tk .IDENT "a", name := "a", args := [] }])]], {},
           { consts := render wtN, nextSid := 1, nextCmdId := 1 }) ∧
    elabE env sn { consts := [] } (expandB wtN exSwitchN) =
      .ok ([.switch_ (tk .SWITCH "switch") 0 (tk .INT "5")
              [(tk .INT "5", false, [.cmd { id := 0, tok := tk .IDENT "a", name := "a", args := [] }])]], {},
           { consts := [], nextSid := 1, nextCmdId := 1 }) :=
  ⟨rfl, rfl⟩

/-- With `const setvar = 1` the statement `setvar(setvar)` is the command `setvar` with the argument `1`:
the command-name position is not a site (neither for the elaboration nor for `expandB`). -/
example (env : Env) (sn : String) :
    elabE env sn { consts := render [("setvar", ["1"])] }
        [.cmd (tk .IDENT "setvar") lp [tk .IDENT "setvar"] [] rp] =
      .ok ([.cmd { id := 0, tok := tk .IDENT "setvar", name := "setvar", args := ["1"] }], {},
           { consts := render [("setvar", ["1"])], nextCmdId := 1 }) ∧
    expandB [("setvar", ["1"])] [.cmd (tk .IDENT "setvar") lp [tk .IDENT "setvar"] [] rp] =
      [.cmd (tk .IDENT "setvar") lp [tk .INT "1"] [] rp] :=
  ⟨rfl, rfl⟩

/-! #### the side condition of `parse_const_expand` is genuine -/

/-- `const K = 1 , 2` -/
def wtComma : WTable := [("K", newWords [] [tk .INT "1", tk .COMMA ",", tk .INT "2"])]

/-- `setvar(K)` -/
def exComma : List SStmt := [.cmd (tk .IDENT "setvar") lp [tk .IDENT "K"] [] rp]

/-- **A value containing a comma changes the argument structure.** `const K = 1 , 2` is accepted and stored
as `1 , 2` (`WordsOK`); `setvar(K)` is well formed and has ONE argument `1 , 2`; its hand expansion
`setvar(1 , 2)` is not a well-formed expansion (the comma is a token of the argument) and the parser reads TWO
arguments `1` and `2`. -/
theorem comma_value_changes_arguments :
    -- the definition is accepted by `parseConstant` and stored as `1 , 2`
    ((parseConstant 9).run
        { toks := [tk .CONST "const", tk .IDENT "K", tk .ASSIGN "=", tk .INT "1", tk .COMMA ",", tk .INT "2",
                   tk .SCRIPT "script"],
          eof := tk .EOF "" }).map (fun r => r.2.constants) = .ok (render wtComma) ∧
    render wtComma = [("K", "1 , 2")] ∧ WordsOK wtComma ∧ ¬ PlainValues wtComma ∧
    SWF exComma ∧ ¬ SWF (expandB wtComma exComma) ∧
    printStmts (expandB wtComma exComma) =
      [tk .IDENT "setvar", lp, tk .INT "1", tk .COMMA ",", tk .INT "2", rp] ∧
    -- the use: one argument
    ((parseCommandStatement {} "s" 20).run
        { toks := printStmts exComma ++ [rb], eof := tk .EOF "", constants := render wtComma }).toOption.map
      (fun r => r.1.1.args) = some ["1 , 2"] ∧
    -- the hand expansion: two arguments
    ((parseCommandStatement {} "s" 20).run
        { toks := printStmts (expandB wtComma exComma) ++ [rb], eof := tk .EOF "", constants := [] }).toOption.map
      (fun r => r.1.1.args) = some ["1", "2"] := by
  refine ⟨by decide, by decide, by decide, by decide, by decide, by decide, by decide, by decide, by decide⟩

/-- (The reference elaboration itself does not see the difference: on the ill-formed expansion it still joins
the three tokens into one argument — which is why `parse_const_expand` needs `SWF (expandB wt b)` while
`elab_const_expand` needs nothing.) -/
example (env : Env) (sn : String) :
    viewE (elabE env sn { consts := render wtComma } exComma) =
      viewE (elabE env sn { consts := [] } (expandB wtComma exComma)) :=
  elab_const_expand env sn wtComma (by decide) {} exComma

/-- `const K = ( 1 )` -/
def wtParen : WTable := [("K", ["(", "1", ")"])]

/-- `switch (var(K)) { case 1: a }` -/
def exParen : List SStmt :=
  [.switch_ (tk .SWITCH "switch") lp (tk .VAR "var") lp [tk .IDENT "K"] rp rp lb
     [.case (tk .CASE "case") [tk .INT "1"] colon [.cmd0 (tk .IDENT "a")]] rb]

def operandLit (r : Except PFail ((List Stmt × ImpData) × PState)) : Option String :=
  match r with
  | .ok (([.switch_ _ _ op _], _), _) => some op.lit
  | _ => none
def errMsg (r : Except PFail ((List Stmt × ImpData) × PState)) : Option String :=
  match r with
  | .error (.err e) => some e.msg
  | _ => none

set_option maxRecDepth 100000 in
/-- **A value containing `)` changes a `switch` operand.** With `const K = ( 1 )` the statement
`switch (var(K)) { … }` switches on the operand `( 1 )`; the hand expansion `switch (var(( 1 ))) { … }` is
rejected: the operand ends at the first `)` and the `{` is not where the parser expects it. -/
theorem paren_value_changes_switch :
    WordsOK wtParen ∧ ¬ PlainValues wtParen ∧ SWF exParen ∧ ¬ SWF (expandB wtParen exParen) ∧
    operandLit ((parseBlockStatement {} "s" lb 40 [] {}).run
      { toks := printStmts exParen ++ [rb], eof := tk .EOF "", constants := render wtParen }) = some "( 1 )" ∧
    errMsg ((parseBlockStatement {} "s" lb 40 [] {}).run
      { toks := printStmts (expandB wtParen exParen) ++ [rb], eof := tk .EOF "", constants := [] }) =
      some "missing opening curly brace of switch statement" := by
  refine ⟨by decide, by decide, by decide, by decide, by decide, by decide⟩

-- sanity checks (evaluation, not proofs): the printed tokens of the hand expansion are what the model lexer
-- produces for the hand-expanded source text (types and literals), for the parts of the example whose sites are
-- token lists (command arguments, switch operand, case value) …
#guard (Lexer.lexAll "setvar(BASE + 2, BASE + 2) switch (var(BASE + 2)) { case BASE + 2: a } }".toList).map
    (fun t => (t.type, t.lit)) ==
  (printStmts (expandB wtK
      [.cmd (tk .IDENT "setvar") lp [kTok] [(comma, [kTok])] rp,
       .switch_ (tk .SWITCH "switch") lp (tk .VAR "var") lp [kTok] rp rp lb
         [.case (tk .CASE "case") [kTok] colon [.cmd0 (tk .IDENT "a")]] rb]) ++ [rb, tk .EOF ""]).map
    (fun t => (t.type, t.lit))

-- … and `wordType` agrees with the model lexer on a sample of words
#guard ["BASE", "+", "2", "0x1F", "-3", "VAR_0x8000", "(", ")", ",", ":", "*", "==", "!=", "<=", ">=", "<", ">",
        "&&", "||", "!", "=", "[", "]", "{", "}", "format", "moves", "if", "var", "TRUE", "_x", "é", "/", "%"].all
  fun w => ((Lexer.lexAll w.toList).headD {}).type == wordType w

end Example

#print axioms elab_const_expand
#print axioms elab_const_expand_ok
#print axioms elab_const_expand_error
#print axioms swf_expand
#print axioms parse_const_expand
#print axioms parse_const_expand_plain
#print axioms non_sites_untouched
#print axioms comma_value_changes_arguments
#print axioms paren_value_changes_switch

end Pory.C13c
