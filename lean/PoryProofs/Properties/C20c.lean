import PoryProofs.ViolFile
import PoryProofs.ViolEmit
/-
C20c — THE CATALOGUE OF REJECTIONS FOR WHOLE FILES.
"Ill-formed control flow and name clashes are rejected with an error reported on the line of the offending
construct …; never compiled into something else" — for whole files of the P2b grammar (`P2b.STopM`: script / raw /
const / movement / mart / text / mapscripts, `TWFM`), through the whole pipeline on tokens
(`P2.compileToks` = `parseTokens` then `emitProgram`; `P2b.compileFileM` = the same on the reference elaboration)
and, for sources whose tokens are a printed file, through `Pory.compile`.

Helper modules (all new): PoryProofs/ViolStmt.lean (`SViol`, the id-free checker `violL` of script bodies,
`elabL_viol`), PoryProofs/ViolFile.lean (`PViol`, `violTops`, `elabTopsM_viol`), PoryProofs/ViolEmit.lean
(`FirstDupText`, `FirstDupMovement`, `LViol`, `progClash`, `emitProgram_clash`, `no_clash_labels`).
Reused: P1 / P2 / P2b (reference elaboration, `parse_file_elab_ms`, `compile_print_ms`), C20
(`firstDuplicateText_none_iff`), C05e (`emitScript_first_error`, blocks), C18e (`parsed_guarantees`,
`scriptChunks_total`), C04c / C05 (chunk ids).

1. THE CATALOGUE `FViol` (a value = a violation WITH its offending tokens), `FViol.err` (the exact error value),
   `FViol.tok` (the offending token = where the reported range starts), `FViol.cls`:
     documented     break outside, continue outside, continue not last, duplicate case (value compared AFTER
                    constant substitution), second default, switch without cases  (`SViol`, inside a script body or
                    an inline body of a `mapscripts` statement), redefined constant, duplicate text name,
                    duplicate movement name (both incl. clashes with hoisted `…_Text_n` / `…_Movement_n` labels),
                    user label = generated chunk label of its script, user label = text label;
     configuration  auto-var command not configured (as condition / as switch operand), configured argument
                    position addressing no argument, `poryswitch` without `-s` / with an undefined switch /
                    without a matching case (P1's list);
     emptyValue     a table row whose collected condition / value is empty (P2b), a `const` whose collected value
                    is empty ("missing value for const" — in the grammar because a value token may be an empty
                    string literal or a constant defined as one; NOT in the task's list, see below).
   `FirstViolation env o eofT ts v` — "the first violation of the file, in the order the compiler meets them, is
   `v`":  parser order (`violTops env [] ts = some v`: the decidable checker of ViolFile, source order, constants
   threaded), then the post-passes (first text whose name occurred before among hoisted texts ++ text statements;
   then first movement whose name occurred before among movement statements ++ hoisted movements), then the
   emitter (`progClash`: first script in output order, first chunk of ITS LAYOUT ORDER, first label statement).
   `firstViolation? env o eofT ts : Option FViol` — the same as a COMPUTABLE function; `firstViolation_iff`:
   `FirstViolation … v ↔ firstViolation? … = some v` (so the first violation is unique: `firstViolation_unique`,
   and `by decide` finds it on concrete files).
2. `violation_rejected_file` : `FirstViolation … v → compileFileM env o eofT ts = .error v.err`;
   `violation_rejected` : `… → compileToks env o (printTopsM ts ++ [eofT]) = .error v.err` (the exact error value)
   and the reported `ParseError` starts at `v.tok` (line, byte and character column; `FViol.located`);
   `violation_rejected_source` : … `compile env o src = .parseError e` for every source text whose tokens
   (`Lexer.lexAll src`) are the printed file.  The exact values per kind: `err_breakOutside` … `err_labelText`.
   "First" for the parser kinds means `violTops env [] ts = some v`; `violTops_append`, `violTops_behind`,
   `violL_append`, `break_outside_first`, `continue_outside_first`, `const_redefined_first`,
   `duplicate_case_first` show how it is established for a file whose earlier statements are violation-free.
3. `rejected_only_for_documented(_file)` : for a `TWFM` file EVERY error of `compileToks` / `compileFileM` is
   `v.err` of the first violation `v : FViol`, of class documented / configuration / emptyValue — the catalogue
   is complete for the grammar (proved in full: parser, post-passes AND emitter; in particular no `.plain` /
   `.panic` / `.outOfFuel` error is reachable).  `rejected_iff`; `compile_by_catalogue`: compilation of a file of
   the grammar is `.error v.err` if `firstViolation? = some v` and `.ok _` if it is `none`.
4. `accepted_has_no_violation` : an accepted file has no first violation; `accepted_clean` spells this out:
   the checker finds no parser-stage violation ANYWHERE in the file (`violTops env [] ts = none`; `orV a b = none`
   iff both are), the text names (hoisted + statements) are pairwise distinct, the movement names too, and no
   label statement in any chunk of any script of the program is named like a chunk label of its script or like a
   text (`no_clash_labels`).
Non-vacuity: section Example — one small file per violation kind (12 files; nested `break`, a `continue` inside a
`switch`, a duplicate case that is one only after constant substitution, clashes with hoisted `_Text_0` /
`_Movement_0`, a violation inside an inline body of a `mapscripts` statement behind a script, a configuration
error, an empty constant, an accepted file), each time the reported error computed by `decide` on the model
pipeline (`reportedOf (compileToks …)`) AND obtained from `violation_rejected` (`by_catalogue`, the first
violation found by `decide`); one example from SOURCE TEXT through the lexer (`srcBreak_lexed`,
`violation_rejected_source`).

NOTHING IS PARTIAL for the covered grammar.  Not covered: what P2b does not cover (token sequences outside the
grammar, `format()`, poryswitch inside text / movement / mart; the lexer only through the hypothesis
`Lexer.lexAll src = printTopsM ts ++ [eofT]`).  LIMITS OF THE FORMULATION: the parser kinds are stated on the
SURFACE SYNTAX (the checker `violTops` reads `STopM` only); the post-pass and emitter kinds are stated on the
reference elaboration of the file (`P2b.elabTopsM`: the list of hoisted texts / movements with their generated
names, the chunk tables `scriptChunks` of the elaborated bodies) — "a label statement of a chunk" is an AST node
`Stmt.label tok name g`, whose token `tok` is the name token of the source label (`StmtG.elabS`), not re-derived
here from the source statement.

NOTICED IN THE MODEL (= Go)
* DUPLICATE MOVEMENT NAMES ARE REPORTED ON THE EARLIER DEFINITION, not on the offending (second) one:
  `ParseProgram` returns `NewParseError(existingStmt.Token, …)` (`firstDuplicateMovement` returns the token stored
  for the first occurrence).  For two `movement` statements of one name the error line is the line of the FIRST
  statement (`exMvMv`); for a `movement X_Movement_0` clashing with a hoisted movement it is the user's statement
  (good) only because user statements precede hoisted ones in the list.  Duplicate TEXT names are reported on the
  later one.  So the property's "reported on the line of the offending construct" holds for movements only if
  either definition counts as offending.
* Which of several label clashes of one script is reported depends on `-optimize` (the layout order of the
  chunks), as C05e found; `progClash o` has the option set as a parameter for that reason.
* The task's list for 3 omits "missing value for const '…'" (`constNoValue`): reachable in the grammar
  (`const X = ""`), it is the fourth "empty value" error.
* a `continue` that is the last statement of a non-final `case` is a `continueNotLast` violation (P1).
-/
namespace Pory.C20c
open Pory Pory.Parser Pory.Emit Pory.C02P Pory.StmtG Pory.TopParse Pory.P2 Pory.P2b

/-! ## 1. the catalogue -/

/-- **A violation of a file, with its offending tokens.** -/
inductive FViol where
  /-- reported by the parser proper (source order) -/
  | parse (v : PViol)
  /-- a text whose name occurred before (hoisted texts first, then `text` statements) -/
  | dupText (t : Text)
  /-- a movement name that occurs twice; `tok` = the token of the EARLIER movement of that name -/
  | dupMovement (tok : Tok) (name : String)
  /-- a label statement clashing with a chunk label of its script / with a text name -/
  | label (v : LViol)
  deriving DecidableEq, Repr

/-- The exact error value compilation returns. -/
def FViol.err : FViol → CErr
  | .parse v => .parse v.err
  | .dupText t => .parse (dupTextErr t)
  | .dupMovement tok name => .parse (dupMovementErr tok name)
  | .label v => .emit v.err

/-- The offending token: the reported range starts there. -/
def FViol.tok : FViol → Tok
  | .parse v => v.tok
  | .dupText t => t.tok
  | .dupMovement tok _ => tok
  | .label v => v.tok

inductive Cls where
  | documented
  | configuration
  | emptyValue
  deriving DecidableEq, Repr

/-- documented violation of C20 / configuration error (P1) / empty collected value (P2, P2b) -/
def FViol.cls : FViol → Cls
  | .parse (.stmt v) => if v.documented then .documented else .configuration
  | .parse (.constRedefined _) => .documented
  | .parse (.constNoValue ..) => .emptyValue
  | .parse (.emptyCond _) => .emptyValue
  | .parse (.emptyCmp ..) => .emptyValue
  | .dupText _ => .documented
  | .dupMovement .. => .documented
  | .label _ => .documented

/-- The program `ParseProgram` returns for an elaborated file. -/
def programOf (tops : List Top) (s : PState) : Program :=
  { tops := tops ++ s.inlineMovements.map Top.movement, texts := s.inlineTexts ++ s.textStatements,
    patches := s.patches }

/-- **The first violation of a file, in the order the compiler meets them**: the parser (source order), its
post-passes (texts, then movements), the emitter (output order; layout order of the chunks within a script). -/
inductive FirstViolation (env : Env) (o : Opts) (eofT : Tok) (ts : List STopM) : FViol → Prop
  | parse (v : PViol) (h : violTops env [] ts = some v) : FirstViolation env o eofT ts (.parse v)
  | dupText (tops : List Top) (s : PState) (t : Text)
      (he : elabTopsM env ts (initState eofT) = .ok (tops, s))
      (h : FirstDupText (s.inlineTexts ++ s.textStatements) t) : FirstViolation env o eofT ts (.dupText t)
  | dupMovement (tops : List Top) (s : PState) (tok : Tok) (name : String)
      (he : elabTopsM env ts (initState eofT) = .ok (tops, s)) (hT : (textNames s).Nodup)
      (h : FirstDupMovement (movementsOf tops ++ s.inlineMovements) tok name) :
      FirstViolation env o eofT ts (.dupMovement tok name)
  | label (tops : List Top) (s : PState) (v : LViol)
      (he : elabTopsM env ts (initState eofT) = .ok (tops, s)) (hT : (textNames s).Nodup)
      (hM : (allMvNames tops s).Nodup) (h : progClash o (programOf tops s) = some v) :
      FirstViolation env o eofT ts (.label v)

/-! ### where the error is reported -/

/-- The `ParseError` the command line reports for a failed compilation (`Pory.compileLines`). -/
def _root_.Pory.P2.CErr.reported : CErr → Option PErr
  | .parse (.err e) => some e
  | .emit (.perr tok msg) => some (tokErr tok msg)
  | _ => none

theorem SViol.located (v : SViol) :
    ∃ e, v.err = .err e ∧ e.lineStart = v.tok.line ∧ e.charStart = v.tok.startChar ∧
      e.utf8Start = v.tok.startUtf8 := by
  cases v <;> exact ⟨_, rfl, rfl, rfl, rfl⟩

theorem PViol.located (v : PViol) :
    ∃ e, v.err = .err e ∧ e.lineStart = v.tok.line ∧ e.charStart = v.tok.startChar ∧
      e.utf8Start = v.tok.startUtf8 := by
  cases v with
  | stmt v => exact v.located
  | constRedefined name => exact ⟨_, rfl, rfl, rfl, rfl⟩
  | constNoValue kw eq name => exact ⟨_, rfl, rfl, rfl, rfl⟩
  | emptyCond t => exact ⟨_, rfl, rfl, rfl, rfl⟩
  | emptyCmp a d => exact ⟨_, rfl, rfl, rfl, rfl⟩

/-- **Every violation is reported as a `ParseError` whose range starts at the offending token** (line, byte
column, character column). -/
theorem FViol.located (v : FViol) :
    ∃ e, v.err.reported = some e ∧ e.lineStart = v.tok.line ∧ e.charStart = v.tok.startChar ∧
      e.utf8Start = v.tok.startUtf8 := by
  cases v with
  | parse v =>
    obtain ⟨e, he, h⟩ := v.located
    refine ⟨e, ?_, h⟩
    simp only [FViol.err, he, CErr.reported]
  | dupText t => exact ⟨_, rfl, rfl, rfl, rfl⟩
  | dupMovement tok name => exact ⟨_, rfl, rfl, rfl, rfl⟩
  | label v => cases v <;> exact ⟨_, rfl, rfl, rfl, rfl⟩

/-! ### the exact error values, kind by kind -/

theorem err_breakOutside (t : Tok) :
    (FViol.parse (.stmt (.breakOutside t))).err =
      .parse (newParseError t "'break' statement outside of any break-able scope") := rfl
theorem err_continueOutside (t : Tok) :
    (FViol.parse (.stmt (.continueOutside t))).err =
      .parse (newParseError t "'continue' statement outside of any continue-able scope") := rfl
theorem err_continueNotLast (t : Tok) :
    (FViol.parse (.stmt (.continueNotLast t))).err =
      .parse (newParseError t "'continue' must be the last statement in block scope") := rfl
theorem err_duplicateCase (c colon : Tok) (v : String) :
    (FViol.parse (.stmt (.duplicateCase c colon v))).err =
      .parse (newRangeParseError c colon s!"duplicate switch cases detected for case '{v}'") := rfl
theorem err_secondDefault (d : Tok) :
    (FViol.parse (.stmt (.secondDefault d))).err =
      .parse (newParseError d
        "multiple `default` cases found in switch statement. Only one `default` case is allowed") := rfl
theorem err_emptySwitch (sw rb : Tok) :
    (FViol.parse (.stmt (.emptySwitch sw rb))).err =
      .parse (newRangeParseError sw rb "switch statement has no cases or default case") := rfl
theorem err_constRedefined (name : Tok) :
    (FViol.parse (.constRedefined name)).err =
      .parse (newParseError name s!"duplicate const '{name.lit}'. Must use unique const names") := rfl
theorem err_dupText (t : Text) :
    (FViol.dupText t).err =
      .parse (newParseError t.tok s!"duplicate text label '{t.name}'. Choose a unique label that won't clash with the auto-generated text labels") :=
  rfl
theorem err_dupMovement (tok : Tok) (name : String) :
    (FViol.dupMovement tok name).err =
      .parse (newParseError tok s!"duplicate movement label '{name}'. Choose a unique label that won't clash with the auto-generated movement labels") :=
  rfl
theorem err_labelChunk (tok : Tok) (name : String) :
    (FViol.label (.labelChunk tok name)).err =
      .emit (.perr tok s!"duplicate script label '{name}'. Choose a unique label that won't clash with the auto-generated script labels") :=
  rfl
theorem err_labelText (tok : Tok) (name : String) :
    (FViol.label (.labelText tok name)).err =
      .emit (.perr tok s!"duplicate text label '{name}'. Choose a unique label that won't clash with the auto-generated text labels") :=
  rfl

/-! ## 2. a first violation is rejected, with its error -/

theorem perrOf_some_eq {α : Type} {r : Except PFail α} {e : PFail} (h : perrOf r = some e) : r = .error e :=
  perrOf_eq_some.1 h

/-- The parser stage of `compileFileM`: the first parser-stage violation, if any. -/
theorem elab_init_viol (env : Env) (eofT : Tok) (ts : List STopM) :
    perrOf (elabTopsM env ts (initState eofT)) = (violTops env [] ts).map PViol.err :=
  elabTopsM_viol env ts (initState eofT) (clean_init eofT)

theorem finish_programOf {tops : List Top} {s : PState} (hT : (textNames s).Nodup)
    (hM : (allMvNames tops s).Nodup) : finish tops s = .ok (programOf tops s) := by
  obtain ⟨p, hp⟩ := (finish_ok_iff tops s).2 ⟨hT, hM⟩
  rw [hp, finish_eq tops s p hp]
  rfl

/-- the parser's guarantees for the program of an accepted elaboration of a printed file -/
theorem guarantees_of_elab (env : Env) (eofT : Tok) (heof : eofT.type = .EOF) (ts : List STopM) (hwf : TWFM ts)
    (tops : List Top) (s : PState) (he : elabTopsM env ts (initState eofT) = .ok (tops, s))
    (hT : (textNames s).Nodup) (hM : (allMvNames tops s).Nodup) :
    C18e.ParserGuarantees (programOf tops s) := by
  apply C18e.parsed_guarantees env (printTopsM ts ++ [eofT])
  rw [parse_file_elab_ms env eofT heof ts hwf]
  unfold elabFileM
  rw [he]
  exact finish_programOf hT hM

/-- the emitter stage: `sectionsOf` fails exactly with the first label clash -/
theorem sectionsOf_clash (o : Opts) (tops : List Top) (s : PState) (hT : (textNames s).Nodup)
    (hM : (allMvNames tops s).Nodup) (hg : C18e.ParserGuarantees (programOf tops s)) :
    C05e.errOf (sectionsOf o tops s) = (progClash o (programOf tops s)).map LViol.err := by
  rw [← emitProgram_clash o _ hg, emitProgram_sections o tops s _ (finish_programOf hT hM)]
  cases sectionsOf o tops s <;> rfl

/-- **2. A first violation is rejected with its error** — on the reference elaboration (no hypothesis on the
tokens for the parser and post-pass kinds; the emitter kinds use that the file is a printed `TWFM` file). -/
theorem violation_rejected_file (env : Env) (o : Opts) (eofT : Tok) (heof : eofT.type = .EOF) (ts : List STopM)
    (hwf : TWFM ts) (v : FViol) (h : FirstViolation env o eofT ts v) :
    compileFileM env o eofT ts = .error v.err := by
  cases h with
  | parse v h =>
    have h1 := elab_init_viol env eofT ts
    rw [h] at h1
    unfold compileFileM
    rw [perrOf_some_eq h1]
    rfl
  | dupText tops s t he h =>
    unfold compileFileM
    rw [he]
    simp only [finish, (firstDuplicateText_iff _ t).2 h]
    rfl
  | dupMovement tops s tok name he hT h =>
    unfold compileFileM
    rw [he]
    have h1 : firstDuplicateText (s.inlineTexts ++ s.textStatements) [] = none :=
      (C20.firstDuplicateText_none_iff _ []).2 ⟨hT, by simp⟩
    have h2 : firstDuplicateMovement (tops ++ s.inlineMovements.map Top.movement) [] = some (tok, name) := by
      rw [firstDuplicateMovement_iff, movementsOf_append, movementsOf_movements]
      exact h
    simp only [finish, h1, h2]
    rfl
  | label tops s v he hT hM h =>
    unfold compileFileM
    rw [he]
    simp only [finish_programOf hT hM]
    have hg := guarantees_of_elab env eofT heof ts hwf tops s he hT hM
    have h1 := sectionsOf_clash o tops s hT hM hg
    rw [h] at h1
    rw [C05e.errOf_eq_some.1 h1]
    rfl

/-- **2. … through the model's pipeline on tokens**: `parseTokens`, then `emitProgram`, on the printed file. -/
theorem violation_rejected (env : Env) (o : Opts) (eofT : Tok) (heof : eofT.type = .EOF) (ts : List STopM)
    (hwf : TWFM ts) (v : FViol) (h : FirstViolation env o eofT ts v) :
    compileToks env o (printTopsM ts ++ [eofT]) = .error v.err ∧
    ∃ e, v.err.reported = some e ∧ e.lineStart = v.tok.line ∧ e.charStart = v.tok.startChar ∧
      e.utf8Start = v.tok.startUtf8 := by
  refine ⟨?_, v.located⟩
  rw [compile_print_ms env o eofT heof ts hwf, violation_rejected_file env o eofT heof ts hwf v h]

/-- what `Pory.compileLines` makes of the pipeline's error -/
theorem compileLines_of_toks (env : Env) (o : Opts) (src : List Char) (c : CErr) (e : PErr)
    (h : compileToks env o (Lexer.lexAll src) = .error c) (hr : c.reported = some e) :
    compileLines env o src = .error (.parseError e) := by
  unfold compileToks at h
  unfold compileLines
  cases hp : parseTokens env (Lexer.lexAll src) with
  | error f =>
    rw [hp] at h
    simp only [Except.error.injEq] at h
    subst h
    cases f with
    | err e' => simp only [CErr.reported, Option.some.injEq] at hr; subst hr; rfl
    | outOfFuel => cases hr
    | panic w => cases hr
  | ok p =>
    rw [hp] at h
    simp only at h
    cases hq : emitProgram o p with
    | ok ls => rw [hq] at h; cases h
    | error f =>
      rw [hq] at h
      simp only [Except.error.injEq] at h
      subst h
      cases f with
      | perr tok msg => simp only [CErr.reported, Option.some.injEq] at hr; subst hr; simp only [hq]
      | plain m => cases hr
      | outOfFuel => cases hr
      | panic w => cases hr

/-- **2. … through the whole pipeline on source text**: for every source the lexer turns into the printed file,
`compile` returns the `ParseError` of the first violation, and its range starts at the offending token. -/
theorem violation_rejected_source (env : Env) (o : Opts) (src : List Char) (eofT : Tok) (heof : eofT.type = .EOF)
    (ts : List STopM) (hwf : TWFM ts) (hlex : Lexer.lexAll src = printTopsM ts ++ [eofT]) (v : FViol)
    (h : FirstViolation env o eofT ts v) :
    ∃ e, compile env o src = .parseError e ∧ v.err.reported = some e ∧ e.lineStart = v.tok.line ∧
      e.charStart = v.tok.startChar ∧ e.utf8Start = v.tok.startUtf8 := by
  obtain ⟨h1, e, he, hl⟩ := violation_rejected env o eofT heof ts hwf v h
  refine ⟨e, ?_, he, hl⟩
  rw [← hlex] at h1
  unfold compile
  rw [compileLines_of_toks env o src v.err e h1 he]

/-! ## 3. the catalogue is complete for the grammar -/

theorem map_eq_some_err {α : Type} {f : α → PFail} {a : Option α} {e : PFail} (h : some e = a.map f) :
    ∃ v, a = some v ∧ e = f v := by
  cases a with
  | none => cases h
  | some v => exact ⟨v, rfl, by injection h⟩

/-- **3. Every error of a file of the grammar is the error of its first violation** (a value of the catalogue
`FViol`: documented violation, configuration error, or empty collected value — `FViol.cls`). -/
theorem rejected_only_for_documented_file (env : Env) (o : Opts) (eofT : Tok) (heof : eofT.type = .EOF)
    (ts : List STopM) (hwf : TWFM ts) (e : CErr) (h : compileFileM env o eofT ts = .error e) :
    ∃ v, FirstViolation env o eofT ts v ∧ e = v.err := by
  unfold compileFileM at h
  have h0 := elab_init_viol env eofT ts
  cases he : elabTopsM env ts (initState eofT) with
  | error f =>
    rw [he] at h h0
    simp only [Except.error.injEq] at h
    obtain ⟨v, hv, hf⟩ := map_eq_some_err h0
    exact ⟨.parse v, .parse v hv, by rw [← h, hf]; rfl⟩
  | ok q =>
    obtain ⟨tops, s⟩ := q
    rw [he] at h
    simp only at h
    cases h1 : firstDuplicateText (s.inlineTexts ++ s.textStatements) [] with
    | some t =>
      simp only [finish, h1, Except.error.injEq] at h
      exact ⟨.dupText t, .dupText tops s t he ((firstDuplicateText_iff _ t).1 h1), h.symm⟩
    | none =>
      have hT : (textNames s).Nodup := ((C20.firstDuplicateText_none_iff _ []).1 h1).1
      cases h2 : firstDuplicateMovement (tops ++ s.inlineMovements.map Top.movement) [] with
      | some q =>
        obtain ⟨tok, name⟩ := q
        simp only [finish, h1, h2, Except.error.injEq] at h
        have := (firstDuplicateMovement_iff _ tok name).1 h2
        rw [movementsOf_append, movementsOf_movements] at this
        exact ⟨.dupMovement tok name, .dupMovement tops s tok name he hT this, h.symm⟩
      | none =>
        have hM : (allMvNames tops s).Nodup := by
          have := ((firstDuplicateMovement_none_iff _ []).1 h2).1
          rw [mvNames_append, mvNames_movements] at this
          exact this
        simp only [finish_programOf hT hM] at h
        have hg := guarantees_of_elab env eofT heof ts hwf tops s he hT hM
        have h3 := sectionsOf_clash o tops s hT hM hg
        cases hs : sectionsOf o tops s with
        | ok S => rw [hs] at h; cases h
        | error f =>
          rw [hs] at h h3
          simp only [Except.error.injEq] at h
          cases hc : progClash o (programOf tops s) with
          | none => rw [hc] at h3; cases h3
          | some v =>
            rw [hc] at h3
            simp only [C05e.errOf, Option.map_some, Option.some.injEq] at h3
            exact ⟨.label v, .label tops s v he hT hM hc, by rw [← h, h3]; rfl⟩

/-- **3. … through the model's pipeline on tokens.**  In particular the error is never `.plain`, `.panic` or
`.outOfFuel`, and it is reported as a `ParseError` starting at the offending token. -/
theorem rejected_only_for_documented (env : Env) (o : Opts) (eofT : Tok) (heof : eofT.type = .EOF)
    (ts : List STopM) (hwf : TWFM ts) (e : CErr) (h : compileToks env o (printTopsM ts ++ [eofT]) = .error e) :
    ∃ v, FirstViolation env o eofT ts v ∧ e = v.err ∧
      (v.cls = .documented ∨ v.cls = .configuration ∨ v.cls = .emptyValue) := by
  rw [compile_print_ms env o eofT heof ts hwf] at h
  cases hc : compileFileM env o eofT ts with
  | ok S => rw [hc] at h; cases h
  | error e' =>
    rw [hc] at h
    simp only [Except.error.injEq] at h
    subst h
    obtain ⟨v, hv, he⟩ := rejected_only_for_documented_file env o eofT heof ts hwf e' hc
    refine ⟨v, hv, he, ?_⟩
    cases v.cls
    · exact .inl rfl
    · exact .inr (.inl rfl)
    · exact .inr (.inr rfl)

/-- Compilation of a file of the grammar fails iff the file has a first violation. -/
theorem rejected_iff (env : Env) (o : Opts) (eofT : Tok) (heof : eofT.type = .EOF) (ts : List STopM)
    (hwf : TWFM ts) (e : CErr) :
    compileToks env o (printTopsM ts ++ [eofT]) = .error e ↔ ∃ v, FirstViolation env o eofT ts v ∧ e = v.err := by
  constructor
  · intro h
    obtain ⟨v, hv, he, _⟩ := rejected_only_for_documented env o eofT heof ts hwf e h
    exact ⟨v, hv, he⟩
  · rintro ⟨v, hv, rfl⟩
    exact (violation_rejected env o eofT heof ts hwf v hv).1

/-! ## 4. never compiled into something else -/

/-- **4. An accepted file has no (first) violation.** -/
theorem accepted_has_no_violation (env : Env) (o : Opts) (eofT : Tok) (heof : eofT.type = .EOF) (ts : List STopM)
    (hwf : TWFM ts) (L : List Line) (h : compileToks env o (printTopsM ts ++ [eofT]) = .ok L) (v : FViol) :
    ¬ FirstViolation env o eofT ts v := by
  intro hv
  rw [(violation_rejected env o eofT heof ts hwf v hv).1] at h
  cases h

/-- **4. … spelled out.**  If the file compiles: the checker finds no parser-stage violation anywhere (no `break`
/ `continue` outside, no `continue` that is not last, no duplicate case, no second default, no empty switch in any
script body or inline body, no redefined constant, …); the text names — hoisted and declared — are pairwise
distinct; so are the movement names; and no label statement in any chunk of any script of the program is named like
a chunk label of its script or like a text. -/
theorem accepted_clean (env : Env) (o : Opts) (eofT : Tok) (heof : eofT.type = .EOF) (ts : List STopM)
    (hwf : TWFM ts) (L : List Line) (h : compileToks env o (printTopsM ts ++ [eofT]) = .ok L) :
    violTops env [] ts = none ∧
    ∃ tops s, elabTopsM env ts (initState eofT) = .ok (tops, s) ∧
      parseTokens env (printTopsM ts ++ [eofT]) = .ok (programOf tops s) ∧
      (textNames s).Nodup ∧ (allMvNames tops s).Nodup ∧ progClash o (programOf tops s) = none ∧
      ∀ sc, C01d.ScriptOf (programOf tops s) sc → ∀ chunks, scriptChunks sc.body = .ok chunks →
        ∀ c ∈ chunks, ∀ tok name g, Stmt.label tok name g ∈ c.statements →
          name ∉ (chunks.map fun c => chunkLabel sc.name c.id) ∧ name ∉ textNames s := by
  have hno := accepted_has_no_violation env o eofT heof ts hwf L h
  have hv : violTops env [] ts = none := by
    cases hc : violTops env [] ts with
    | none => rfl
    | some v => exact absurd (.parse v hc) (hno (.parse v))
  refine ⟨hv, ?_⟩
  have h0 := elab_init_viol env eofT ts
  rw [hv] at h0
  obtain ⟨q, hq⟩ := perrOf_eq_none.1 h0
  obtain ⟨tops, s⟩ := q
  rw [compile_print_ms env o eofT heof ts hwf] at h
  cases hc : compileFileM env o eofT ts with
  | error e => rw [hc] at h; cases h
  | ok S =>
    obtain ⟨tops', s', he', hT, hM, hS⟩ := (compileFileM_ok_iff env o eofT ts S).1 hc
    rw [hq] at he'
    simp only [Except.ok.injEq, Prod.mk.injEq] at he'
    obtain ⟨rfl, rfl⟩ := he'
    have hpc : progClash o (programOf tops s) = none := by
      cases hpc : progClash o (programOf tops s) with
      | none => rfl
      | some v => exact absurd (.label tops s v hq hT hM hpc) (hno (.label v))
    refine ⟨tops, s, hq, ?_, hT, hM, hpc, ?_⟩
    · rw [parse_file_elab_ms env eofT heof ts hwf]
      unfold elabFileM
      rw [hq]
      exact finish_programOf hT hM
    · intro sc hsc chunks hch c hcm tok name g hl
      exact no_clash_labels o (programOf tops s) hpc sc hsc chunks hch c hcm tok name g hl

/-! ## "first": how a parser-stage violation is established behind violation-free statements -/

/-- The constants after a list of statements. -/
def constsAfterL : List (String × String) → List STopM → List (String × String)
  | K, [] => K
  | K, t :: r => constsAfterL (constsAfter K t) r

theorem violTops_append (env : Env) : ∀ (K : List (String × String)) (a b : List STopM),
    violTops env K (a ++ b) = orV (violTops env K a) (violTops env (constsAfterL K a) b)
  | _, [], _ => rfl
  | K, t :: r, b => by
    simp only [List.cons_append, violTops, constsAfterL, violTops_append env _ r b, orV_assoc]

/-- Behind violation-free statements the first violation of the file is that of the rest. -/
theorem violTops_behind (env : Env) (K : List (String × String)) (pre post : List STopM)
    (h : violTops env K pre = none) :
    violTops env K (pre ++ post) = violTops env (constsAfterL K pre) post := by
  rw [violTops_append, h]; rfl

theorem violL_append (env : Env) (σ : String → String) (inB inC last : Bool) : ∀ (a b : List SStmt), b ≠ [] →
    violL env σ inB inC last (a ++ b) = orV (violL env σ inB inC false a) (violL env σ inB inC last b)
  | [], b, _ => rfl
  | x :: r, b, hb => by
    have hne : (r ++ b).isEmpty = false := by cases r <;> cases b <;> simp_all
    simp only [List.cons_append, violL, hne, Bool.false_and, Bool.and_false, violL_append env σ inB inC last r b hb,
      orV_assoc]

/-- `break` at the top level of a script body, behind violation-free statements of the file and of the body. -/
theorem break_outside_first (env : Env) (pre post : List STopM) (kw : Tok) (md : Mod) (name lb rb : Tok)
    (bpre bpost : List SStmt) (t : Tok) (hpre : violTops env [] pre = none)
    (hb : violL env (substC (constsAfterL [] pre)) false false false bpre = none) :
    violTops env [] (pre ++ .base (.script kw md name lb (bpre ++ .brk t :: bpost) rb) :: post) =
      some (.stmt (.breakOutside t)) := by
  rw [violTops_behind env [] pre _ hpre]
  simp only [violTops, violTop, violBody, violL_append env _ false false true bpre (.brk t :: bpost) (by simp), hb,
    violL, violS, orV_none_left, orV_some_left, Option.map_some, Bool.false_eq_true, if_false]

/-- `continue` at the top level of a script body. -/
theorem continue_outside_first (env : Env) (pre post : List STopM) (kw : Tok) (md : Mod) (name lb rb : Tok)
    (bpre bpost : List SStmt) (t : Tok) (hpre : violTops env [] pre = none)
    (hb : violL env (substC (constsAfterL [] pre)) false false false bpre = none) :
    violTops env [] (pre ++ .base (.script kw md name lb (bpre ++ .cont t :: bpost) rb) :: post) =
      some (.stmt (.continueOutside t)) := by
  rw [violTops_behind env [] pre _ hpre]
  simp only [violTops, violTop, violBody, violL_append env _ false false true bpre (.cont t :: bpost) (by simp), hb,
    violL, violS, orV_none_left, orV_some_left, Option.map_some, Bool.false_eq_true, if_false]

/-- A constant defined a second time (the constants before it: those of the violation-free `pre`). -/
theorem const_redefined_first (env : Env) (pre post : List STopM) (kw name eq : Tok) (vs : List Tok)
    (hpre : violTops env [] pre = none) (hdef : ((constsAfterL [] pre).lookup name.lit).isSome = true) :
    violTops env [] (pre ++ .base (.const kw name eq vs) :: post) = some (.constRedefined name) := by
  rw [violTops_behind env [] pre _ hpre]
  simp only [violTops, violTop, hdef, if_true, orV_some_left]

/-- A `case` whose value — after constant substitution — was met before in the same switch, the switch standing
at the top level of a script body behind violation-free statements, the earlier cases being violation-free. -/
theorem duplicate_case_first (env : Env) (pre post : List STopM) (kw : Tok) (md : Mod) (name lb rb : Tok)
    (bpre bpost : List SStmt) (sw lp v lp2 : Tok) (ops : List Tok) (rp2 rp lb2 rb2 : Tok)
    (c colon : Tok) (vs : List Tok) (body : List SStmt) (r : List SCase)
    (hpre : violTops env [] pre = none)
    (hb : violL env (substC (constsAfterL [] pre)) false false false bpre = none)
    (h : violCases env (substC (constsAfterL [] pre)) true false (.case c vs colon body :: r) [] false =
      some (.duplicateCase c colon (caseValue (substC (constsAfterL [] pre)) vs))) :
    violTops env [] (pre ++ .base (.script kw md name lb
        (bpre ++ .switch_ sw lp v lp2 ops rp2 rp lb2 (.case c vs colon body :: r) rb2 :: bpost) rb) :: post) =
      some (.stmt (.duplicateCase c colon (caseValue (substC (constsAfterL [] pre)) vs))) := by
  rw [violTops_behind env [] pre _ hpre]
  simp only [violTops, violTop, violBody, violL_append env _ false false true bpre _ (List.cons_ne_nil _ _), hb,
    violL, violS, h, orV_none_left, orV_some_left, Option.map_some]

/-! ## the first violation as a computable function -/

/-- **The first violation of a file, computed** (the parser-stage checker, then the model's two duplicate scans
on the reference elaboration, then the first label clash). -/
def firstViolation? (env : Env) (o : Opts) (eofT : Tok) (ts : List STopM) : Option FViol :=
  match violTops env [] ts with
  | some v => some (.parse v)
  | none =>
    match elabTopsM env ts (initState eofT) with
    | .error _ => none
    | .ok (tops, s) =>
      match firstDuplicateText (s.inlineTexts ++ s.textStatements) [] with
      | some t => some (.dupText t)
      | none =>
        match firstDuplicateMovement (tops ++ s.inlineMovements.map Top.movement) [] with
        | some (tok, name) => some (.dupMovement tok name)
        | none => (progClash o (programOf tops s)).map FViol.label

theorem violTops_none_of_elab {env : Env} {eofT : Tok} {ts : List STopM} {tops : List Top} {s : PState}
    (he : elabTopsM env ts (initState eofT) = .ok (tops, s)) : violTops env [] ts = none := by
  have h0 := elab_init_viol env eofT ts
  rw [he] at h0
  cases hv : violTops env [] ts with
  | none => rfl
  | some v => rw [hv] at h0; cases h0

/-- `FirstViolation` is what `firstViolation?` computes; in particular the first violation is unique. -/
theorem firstViolation_iff (env : Env) (o : Opts) (eofT : Tok) (ts : List STopM) (v : FViol) :
    FirstViolation env o eofT ts v ↔ firstViolation? env o eofT ts = some v := by
  constructor
  · intro h
    cases h with
    | parse v h => simp only [firstViolation?, h]
    | dupText tops s t he h =>
      simp only [firstViolation?, violTops_none_of_elab he, he, (firstDuplicateText_iff _ t).2 h]
    | dupMovement tops s tok name he hT h =>
      have h1 : firstDuplicateText (s.inlineTexts ++ s.textStatements) [] = none :=
        (C20.firstDuplicateText_none_iff _ []).2 ⟨hT, by simp⟩
      have h2 : firstDuplicateMovement (tops ++ s.inlineMovements.map Top.movement) [] = some (tok, name) := by
        rw [firstDuplicateMovement_iff, movementsOf_append, movementsOf_movements]
        exact h
      simp only [firstViolation?, violTops_none_of_elab he, he, h1, h2]
    | label tops s v he hT hM h =>
      have h1 : firstDuplicateText (s.inlineTexts ++ s.textStatements) [] = none :=
        (C20.firstDuplicateText_none_iff _ []).2 ⟨hT, by simp⟩
      have h2 : firstDuplicateMovement (tops ++ s.inlineMovements.map Top.movement) [] = none := by
        rw [firstDuplicateMovement_none_iff, mvNames_append, mvNames_movements]
        exact ⟨hM, by simp⟩
      simp only [firstViolation?, violTops_none_of_elab he, he, h1, h2, h, Option.map_some]
  · intro h
    unfold firstViolation? at h
    cases hv : violTops env [] ts with
    | some w =>
      rw [hv] at h
      simp only [Option.some.injEq] at h
      subst h
      exact .parse w hv
    | none =>
      rw [hv] at h
      simp only at h
      cases he : elabTopsM env ts (initState eofT) with
      | error f => rw [he] at h; cases h
      | ok q =>
        obtain ⟨tops, s⟩ := q
        rw [he] at h
        simp only at h
        cases h1 : firstDuplicateText (s.inlineTexts ++ s.textStatements) [] with
        | some t =>
          rw [h1] at h
          simp only [Option.some.injEq] at h
          subst h
          exact .dupText tops s t he ((firstDuplicateText_iff _ t).1 h1)
        | none =>
          rw [h1] at h
          simp only at h
          have hT : (textNames s).Nodup := ((C20.firstDuplicateText_none_iff _ []).1 h1).1
          cases h2 : firstDuplicateMovement (tops ++ s.inlineMovements.map Top.movement) [] with
          | some q =>
            obtain ⟨tok, name⟩ := q
            rw [h2] at h
            simp only [Option.some.injEq] at h
            subst h
            have := (firstDuplicateMovement_iff _ tok name).1 h2
            rw [movementsOf_append, movementsOf_movements] at this
            exact .dupMovement tops s tok name he hT this
          | none =>
            rw [h2] at h
            simp only at h
            have hM : (allMvNames tops s).Nodup := by
              have := ((firstDuplicateMovement_none_iff _ []).1 h2).1
              rw [mvNames_append, mvNames_movements] at this
              exact this
            cases hc : progClash o (programOf tops s) with
            | none => rw [hc] at h; cases h
            | some w =>
              rw [hc] at h
              simp only [Option.map_some, Option.some.injEq] at h
              subst h
              exact .label tops s w he hT hM hc

theorem firstViolation_unique (env : Env) (o : Opts) (eofT : Tok) (ts : List STopM) (v w : FViol)
    (hv : FirstViolation env o eofT ts v) (hw : FirstViolation env o eofT ts w) : v = w := by
  rw [firstViolation_iff] at hv hw
  rw [hv] at hw
  injection hw

/-- **Compilation of a file of the grammar, as a function of its first violation.** -/
theorem compile_by_catalogue (env : Env) (o : Opts) (eofT : Tok) (heof : eofT.type = .EOF) (ts : List STopM)
    (hwf : TWFM ts) :
    match firstViolation? env o eofT ts with
    | some v => compileToks env o (printTopsM ts ++ [eofT]) = .error v.err
    | none => ∃ L, compileToks env o (printTopsM ts ++ [eofT]) = .ok L := by
  cases hf : firstViolation? env o eofT ts with
  | some v => exact (violation_rejected env o eofT heof ts hwf v ((firstViolation_iff env o eofT ts v).2 hf)).1
  | none =>
    cases hc : compileToks env o (printTopsM ts ++ [eofT]) with
    | ok L => exact ⟨L, rfl⟩
    | error e =>
      obtain ⟨v, hv, _⟩ := rejected_only_for_documented env o eofT heof ts hwf e hc
      rw [firstViolation_iff, hf] at hv
      cases hv

/-! ## non-vacuity: one small file per violation kind -/
section Example

private def lp : Tok := tk .LPAREN "("
private def rp : Tok := tk .RPAREN ")"
private def lb : Tok := tk .LBRACE "{"
private def rb : Tok := tk .RBRACE "}"
private def colon : Tok := tk .COLON ":"
private def z : Nat → TPos := fun _ => {}
private def cond (lf : Leaf) : SCond := .plain (.one (.one (.leaf lf)))
/-- the final token -/
def eofT : Tok := tk .EOF ""
/-- emitter options of the examples: chunk order not optimised (`optimizeChunkOrder` does not reduce under
`decide`), no line markers -/
def exO : Opts := { optimize := false }
/-- the `ParseError` the pipeline reports, if it fails -/
def reportedOf {α : Type} : Except CErr α → Option PErr
  | .error c => c.reported
  | .ok _ => none

private def script (name : String) (body : List SStmt) : STopM :=
  .base (.script (tk .SCRIPT "script") .absent (tk .IDENT name) lb body rb)
private def switchV (cases : List SCase) (sw : Tok := tk .SWITCH "switch") (rb' : Tok := rb) : SStmt :=
  .switch_ sw lp (tk .VAR "var") lp [tk .IDENT "V"] rp rp lb cases rb'
private def foo : SStmt := .cmd0 (tk .IDENT "foo")
private def msgbox (t : String) : SStmt := .cmdI (tk .IDENT "msgbox") lp [.str (tk .STRING t)] [] rp

/-- the instantiation pattern: the first violation computed by `decide`, the error from `violation_rejected` -/
theorem by_catalogue {ts : List STopM} {v : FViol} (hwf : TWFM ts) (h : firstViolation? {} exO eofT ts = some v) :
    compileToks {} exO (printTopsM ts ++ [eofT]) = .error v.err :=
  (violation_rejected {} exO eofT rfl ts hwf v ((firstViolation_iff {} exO eofT ts v).2 h)).1

/-! ### break outside: `script A { foo  if (flag(F)) { break } }` (the `break` on line 3, columns 4–9) -/
def tBreak : Tok := tkp ⟨3, 4, 4, 3, 9, 9⟩ .BREAK "break"
def exBreak : List STopM :=
  [script "A" [foo, .ite (tk .IF "if") lp (cond (.flagBare z false "F")) rp lb [.brk tBreak] rb [] .none]]

-- sanity check (evaluation, not a proof): the printed tokens are what the model lexer produces
#guard (Lexer.lexAll "script A { foo if (flag(F)) { break } }".toList).map (fun t => (t.type, t.lit)) ==
  (printTopsM exBreak ++ [eofT]).map (fun t => (t.type, t.lit))

/-- by evaluation of the model pipeline -/
example : reportedOf (compileToks {} exO (printTopsM exBreak ++ [eofT])) =
    some ⟨3, 3, 4, 4, 9, 9, "'break' statement outside of any break-able scope"⟩ := by decide
/-- by the theorem -/
example : compileToks {} exO (printTopsM exBreak ++ [eofT]) =
    .error (.parse (newParseError tBreak "'break' statement outside of any break-able scope")) :=
  by_catalogue (v := .parse (.stmt (.breakOutside tBreak))) (by decide) (by decide)
/-- … and as an instance of `break_outside_first` (the body's earlier statement `foo` is violation-free; the
`break` here is nested, so the instance is for the flat file `script A { foo break }`) -/
example : violTops {} [] ([] ++ .base (.script (tk .SCRIPT "script") .absent (tk .IDENT "A") lb
    ([foo] ++ .brk tBreak :: []) rb) :: []) = some (.stmt (.breakOutside tBreak)) :=
  break_outside_first {} [] [] _ _ _ _ _ [foo] [] tBreak rfl rfl

/-! ### continue outside: `script A { switch (var(V)) { case 1: continue } }` (a switch is not continue-able) -/
def tCont : Tok := tkp ⟨2, 10, 10, 2, 18, 18⟩ .CONTINUE "continue"
def exCont : List STopM := [script "A" [switchV [.case (tk .CASE "case") [tk .INT "1"] colon [.cont tCont]]]]

example : reportedOf (compileToks {} exO (printTopsM exCont ++ [eofT])) =
    some ⟨2, 2, 10, 10, 18, 18, "'continue' statement outside of any continue-able scope"⟩ := by decide
example : compileToks {} exO (printTopsM exCont ++ [eofT]) =
    .error (.parse (newParseError tCont "'continue' statement outside of any continue-able scope")) :=
  by_catalogue (v := .parse (.stmt (.continueOutside tCont))) (by decide) (by decide)

/-! ### continue not last: `script A { while { continue foo } }` -/
def exContNL : List STopM := [script "A" [.whileInf (tk .WHILE "while") lb [.cont tCont, foo] rb]]

example : reportedOf (compileToks {} exO (printTopsM exContNL ++ [eofT])) =
    some ⟨2, 2, 10, 10, 18, 18, "'continue' must be the last statement in block scope"⟩ := by decide
example : compileToks {} exO (printTopsM exContNL ++ [eofT]) =
    .error (.parse (newParseError tCont "'continue' must be the last statement in block scope")) :=
  by_catalogue (v := .parse (.stmt (.continueNotLast tCont))) (by decide) (by decide)

/-! ### duplicate case, equal only AFTER constant substitution:
`const N = 5  script A { switch (var(V)) { case N: foo  case 5: foo } }` -/
def tCase : Tok := tkp ⟨4, 2, 2, 4, 6, 6⟩ .CASE "case"
def tColon : Tok := tkp ⟨4, 8, 8, 4, 9, 9⟩ .COLON ":"
def exDupCase : List STopM :=
  [.base (.const (tk .CONST "const") (tk .IDENT "N") (tk .ASSIGN "=") [tk .INT "5"]),
   script "A" [switchV [.case (tk .CASE "case") [tk .IDENT "N"] colon [foo], .case tCase [tk .INT "5"] tColon [foo]]]]

example : reportedOf (compileToks {} exO (printTopsM exDupCase ++ [eofT])) =
    some ⟨4, 4, 2, 2, 9, 9, "duplicate switch cases detected for case '5'"⟩ := by decide
example : compileToks {} exO (printTopsM exDupCase ++ [eofT]) =
    .error (.parse (newRangeParseError tCase tColon "duplicate switch cases detected for case '5'")) :=
  by_catalogue (v := .parse (.stmt (.duplicateCase tCase tColon "5"))) (by decide) (by decide)

/-! ### second default: `script A { switch (var(V)) { default: foo  default: foo } }` -/
def tDflt : Tok := tkp ⟨5, 2, 2, 5, 9, 9⟩ .DEFAULT "default"
def exDflt : List STopM :=
  [script "A" [switchV [.dflt (tk .DEFAULT "default") colon [foo], .dflt tDflt colon [foo]]]]

example : reportedOf (compileToks {} exO (printTopsM exDflt ++ [eofT])) =
    some ⟨5, 5, 2, 2, 9, 9,
      "multiple `default` cases found in switch statement. Only one `default` case is allowed"⟩ := by decide
example : compileToks {} exO (printTopsM exDflt ++ [eofT]) =
    .error (.parse (newParseError tDflt
      "multiple `default` cases found in switch statement. Only one `default` case is allowed")) :=
  by_catalogue (v := .parse (.stmt (.secondDefault tDflt))) (by decide) (by decide)

/-! ### switch without cases: `script A { switch (var(V)) { } }` (range: `switch` … `}`) -/
def tSw : Tok := tkp ⟨2, 2, 2, 2, 8, 8⟩ .SWITCH "switch"
def tSwRb : Tok := tkp ⟨3, 2, 2, 3, 3, 3⟩ .RBRACE "}"
def exEmptySw : List STopM := [script "A" [switchV [] tSw tSwRb]]

example : reportedOf (compileToks {} exO (printTopsM exEmptySw ++ [eofT])) =
    some ⟨2, 3, 2, 2, 3, 3, "switch statement has no cases or default case"⟩ := by decide
example : compileToks {} exO (printTopsM exEmptySw ++ [eofT]) =
    .error (.parse (newRangeParseError tSw tSwRb "switch statement has no cases or default case")) :=
  by_catalogue (v := .parse (.stmt (.emptySwitch tSw tSwRb))) (by decide) (by decide)

/-! ### redefined constant: `const N = 5  const N = 6  script A { foo }` (on the second name token) -/
def tN2 : Tok := tkp ⟨2, 6, 6, 2, 7, 7⟩ .IDENT "N"
def exConst : List STopM :=
  [.base (.const (tk .CONST "const") (tk .IDENT "N") (tk .ASSIGN "=") [tk .INT "5"]),
   .base (.const (tk .CONST "const") tN2 (tk .ASSIGN "=") [tk .INT "6"]),
   script "A" [foo]]

example : reportedOf (compileToks {} exO (printTopsM exConst ++ [eofT])) =
    some ⟨2, 2, 6, 6, 7, 7, "duplicate const 'N'. Must use unique const names"⟩ := by decide
example : compileToks {} exO (printTopsM exConst ++ [eofT]) =
    .error (.parse (newParseError tN2 "duplicate const 'N'. Must use unique const names")) :=
  by_catalogue (v := .parse (.constRedefined tN2)) (by decide) (by decide)
/-- … as an instance of `const_redefined_first` -/
example : violTops {} [] ([.base (.const (tk .CONST "const") (tk .IDENT "N") (tk .ASSIGN "=") [tk .INT "5"])] ++
    .base (.const (tk .CONST "const") tN2 (tk .ASSIGN "=") [tk .INT "6"]) :: [script "A" [foo]]) =
      some (.constRedefined tN2) :=
  const_redefined_first {} _ _ _ tN2 _ _ (by decide) (by decide)

/-! ### a text named like a hoisted text: `script A { msgbox("Hi") }  text A_Text_0 { "x" }`
(reported on the `text` keyword of the statement) -/
def tText : Tok := tkp ⟨2, 0, 0, 2, 4, 4⟩ .TEXT "text"
def exDupText : List STopM :=
  [script "A" [msgbox "Hi"],
   .base (.text tText .absent (tk .IDENT "A_Text_0") lb (.plain (tk .STRING "x")) rb)]

example : reportedOf (compileToks {} exO (printTopsM exDupText ++ [eofT])) =
    some ⟨2, 2, 0, 0, 4, 4, "duplicate text label 'A_Text_0'. Choose a unique label that won't clash with the auto-generated text labels"⟩ := by
  decide
example : ∃ t : Text, t.tok = tText ∧ t.name = "A_Text_0" ∧
    compileToks {} exO (printTopsM exDupText ++ [eofT]) = .error (.parse (dupTextErr t)) :=
  ⟨_, rfl, rfl, by_catalogue (v := .dupText (C15b.mkText tText (tk .IDENT "A_Text_0") .GLOBAL ("x$", "")))
    (by decide) (by decide)⟩

/-! ### two `movement` statements of one name: REPORTED ON THE FIRST ONE (line 1), not on the second (line 2) -/
def tMv1 : Tok := tkp ⟨1, 0, 0, 1, 8, 8⟩ .MOVEMENT "movement"
def tMv2 : Tok := tkp ⟨2, 0, 0, 2, 8, 8⟩ .MOVEMENT "movement"
def exMvMv : List STopM :=
  [.base (.movement tMv1 .absent (tk .IDENT "M") lb [.step (tk .IDENT "walk_up")] rb),
   .base (.movement tMv2 .absent (tk .IDENT "M") lb [.step (tk .IDENT "walk_down")] rb)]

example : reportedOf (compileToks {} exO (printTopsM exMvMv ++ [eofT])) =
    some ⟨1, 1, 0, 0, 8, 8, "duplicate movement label 'M'. Choose a unique label that won't clash with the auto-generated movement labels"⟩ := by
  decide
example : compileToks {} exO (printTopsM exMvMv ++ [eofT]) = .error (.parse (dupMovementErr tMv1 "M")) :=
  by_catalogue (v := .dupMovement tMv1 "M") (by decide) (by decide)

/-! ### a movement named like a hoisted movement:
`movement A_Movement_0 { walk_up }  script A { applymovement(1, moves(walk_down)) }` -/
def exMvHoist : List STopM :=
  [.base (.movement tMv1 .absent (tk .IDENT "A_Movement_0") lb [.step (tk .IDENT "walk_up")] rb),
   script "A" [.cmdI (tk .IDENT "applymovement") lp [.tok (tk .INT "1")]
     [(tk .COMMA ",", [.moves (tk .MOVES "moves") lp [.step (tk .IDENT "walk_down")] rp])] rp]]

example : reportedOf (compileToks {} exO (printTopsM exMvHoist ++ [eofT])) =
    some ⟨1, 1, 0, 0, 8, 8, "duplicate movement label 'A_Movement_0'. Choose a unique label that won't clash with the auto-generated movement labels"⟩ := by
  decide
example : compileToks {} exO (printTopsM exMvHoist ++ [eofT]) =
    .error (.parse (dupMovementErr tMv1 "A_Movement_0")) :=
  by_catalogue (v := .dupMovement tMv1 "A_Movement_0") (by decide) (by decide)

/-! ### a label named like a generated chunk label of its script:
`script S { if (flag(F)) { foo }  S_1: }` (`S_1` is the chunk of the statements after the `if`) -/
def tLbl : Tok := tkp ⟨4, 2, 2, 4, 5, 5⟩ .IDENT "S_1"
def exLblChunk : List STopM :=
  [script "S" [.ite (tk .IF "if") lp (cond (.flagBare z false "F")) rp lb [foo] rb [] .none, .label tLbl colon]]

example : reportedOf (compileToks {} exO (printTopsM exLblChunk ++ [eofT])) =
    some ⟨4, 4, 2, 2, 5, 5, "duplicate script label 'S_1'. Choose a unique label that won't clash with the auto-generated script labels"⟩ := by
  decide
set_option maxRecDepth 100000 in
example : compileToks {} exO (printTopsM exLblChunk ++ [eofT]) =
    .error (.emit (.perr tLbl "duplicate script label 'S_1'. Choose a unique label that won't clash with the auto-generated script labels")) :=
  by_catalogue (v := .label (.labelChunk tLbl "S_1")) (by decide) (by decide)

/-! ### a label named like a text label: `script S { msgbox("Hi")  S_Text_0: }` -/
def tLblT : Tok := tkp ⟨3, 2, 2, 3, 10, 10⟩ .IDENT "S_Text_0"
def exLblText : List STopM := [script "S" [msgbox "Hi", .label tLblT colon]]

example : reportedOf (compileToks {} exO (printTopsM exLblText ++ [eofT])) =
    some ⟨3, 3, 2, 2, 10, 10, "duplicate text label 'S_Text_0'. Choose a unique label that won't clash with the auto-generated text labels"⟩ := by
  decide
set_option maxRecDepth 100000 in
example : compileToks {} exO (printTopsM exLblText ++ [eofT]) =
    .error (.emit (.perr tLblT "duplicate text label 'S_Text_0'. Choose a unique label that won't clash with the auto-generated text labels")) :=
  by_catalogue (v := .label (.labelText tLblT "S_Text_0")) (by decide) (by decide)

/-! ### inside an inline body of a `mapscripts` statement, behind a script:
`script A { foo }  mapscripts M { T { break } }` -/
def exInline : List STopM :=
  [script "A" [foo],
   .mapscripts (tk .MAPSCRIPTS "mapscripts") .absent (tk .IDENT "M") lb [.inline (tk .IDENT "T") lb [.brk tBreak] rb] rb]

example : reportedOf (compileToks {} exO (printTopsM exInline ++ [eofT])) =
    some ⟨3, 3, 4, 4, 9, 9, "'break' statement outside of any break-able scope"⟩ := by decide
example : compileToks {} exO (printTopsM exInline ++ [eofT]) =
    .error (.parse (newParseError tBreak "'break' statement outside of any break-able scope")) :=
  by_catalogue (v := .parse (.stmt (.breakOutside tBreak))) (by decide) (by decide)

/-! ### from source text, through the lexer: `script A {⏎  break⏎}` -/
def srcBreak : String := "script A {\n  break\n}"
def tBreak2 : Tok := tkp ⟨2, 2, 2, 2, 7, 7⟩ .BREAK "break"
def exSrcFile : List STopM :=
  [.base (.script (tkp ⟨1, 0, 0, 1, 6, 6⟩ .SCRIPT "script") .absent (tkp ⟨1, 7, 7, 1, 8, 8⟩ .IDENT "A")
    (tkp ⟨1, 9, 9, 1, 10, 10⟩ .LBRACE "{") [.brk tBreak2] (tkp ⟨3, 0, 0, 3, 1, 1⟩ .RBRACE "}"))]
def exSrcEof : Tok := tkp ⟨3, 1, 1, 3, 1, 1⟩ .EOF ""

/-- the model lexer produces exactly the printed file (types, literals AND positions) -/
theorem srcBreak_lexed : Lexer.lexAll srcBreak.toList = printTopsM exSrcFile ++ [exSrcEof] := by decide +kernel

-- by evaluation of the whole model pipeline (compiled evaluation, not a proof; the kernel needs ~25 s per lexer run)
#guard C18e.errOf (compile {} exO srcBreak.toList) ==
    some ⟨2, 2, 2, 2, 7, 7, "'break' statement outside of any break-able scope"⟩
/-- by the theorem: the error is the `ParseError` of the first violation and starts at the `break` token -/
example : ∃ e, compile {} exO srcBreak.toList = .parseError e ∧ e.lineStart = 2 ∧ e.charStart = 2 ∧
    e.msg = "'break' statement outside of any break-able scope" := by
  obtain ⟨e, h1, h2, h3, h4, _⟩ := violation_rejected_source {} exO srcBreak.toList exSrcEof rfl exSrcFile
    (by decide) srcBreak_lexed (.parse (.stmt (.breakOutside tBreak2))) (.parse _ (by decide))
  refine ⟨e, h1, h3, h4, ?_⟩
  simp only [FViol.err, PViol.err, SViol.err, breakOutsideErr, newParseError, CErr.reported,
    Option.some.injEq] at h2
  rw [← h2]

/-! ### the other two classes: a configuration error and an empty value -/

/-- `script A { poryswitch (GAME) { RUBY: foo } }` without `-s`: configuration -/
def tPs : Tok := tkp ⟨2, 2, 2, 2, 12, 12⟩ .PORYSWITCH "poryswitch"
def exPory : List STopM :=
  [script "A" [.pory tPs lp (tk .IDENT "GAME") rp lb [.colon (tk .IDENT "RUBY") colon foo] rb]]
example : firstViolation? {} exO eofT exPory = some (.parse (.stmt (.noSwitches tPs))) ∧
    (FViol.parse (.stmt (.noSwitches tPs))).cls = .configuration := by decide

/-- `const E = ""  script A { foo }`: "missing value for const 'E'" — the empty-value error the task's list omits -/
def exEmptyConst : List STopM :=
  [.base (.const (tk .CONST "const") (tk .IDENT "E") (tk .ASSIGN "=") [tk .STRING ""]), script "A" [foo]]
example : firstViolation? {} exO eofT exEmptyConst =
      some (.parse (.constNoValue (tk .CONST "const") (tk .ASSIGN "=") (tk .IDENT "E"))) ∧
    reportedOf (compileToks {} exO (printTopsM exEmptyConst ++ [eofT])) =
      some ⟨0, 0, 0, 0, 0, 0, "missing value for const 'E'"⟩ := by decide

/-! ### an accepted file: `accepted_clean` / `compile_by_catalogue` instantiated -/
def exGood : List STopM :=
  [script "A" [.whileInf (tk .WHILE "while") lb
    [switchV [.case (tk .CASE "case") [tk .INT "1"] colon [.brk (tk .BREAK "break")],
              .dflt (tk .DEFAULT "default") colon [msgbox "Hi", .cont (tk .CONTINUE "continue")]]] rb,
    .label (tk .IDENT "Done") colon],
   .base (.text (tk .TEXT "text") .absent (tk .IDENT "T") lb (.plain (tk .STRING "x")) rb)]

example : firstViolation? {} exO eofT exGood = none := by decide
example : ∃ L, compileToks {} exO (printTopsM exGood ++ [eofT]) = .ok L := by
  have := compile_by_catalogue {} exO eofT rfl exGood (by decide)
  rw [show firstViolation? {} exO eofT exGood = none by decide] at this
  exact this
example (L : List Line) (h : compileToks {} exO (printTopsM exGood ++ [eofT]) = .ok L) :
    violTops {} [] exGood = none :=
  (accepted_clean {} exO eofT rfl exGood (by decide) L h).1

end Example

#print axioms violation_rejected_file
#print axioms violation_rejected
#print axioms violation_rejected_source
#print axioms rejected_only_for_documented_file
#print axioms rejected_only_for_documented
#print axioms rejected_iff
#print axioms accepted_has_no_violation
#print axioms accepted_clean
#print axioms FViol.located
#print axioms break_outside_first
#print axioms continue_outside_first
#print axioms const_redefined_first
#print axioms duplicate_case_first
#print axioms firstViolation_iff
#print axioms firstViolation_unique
#print axioms compile_by_catalogue
#print axioms elabL_viol
#print axioms elabTopsM_viol
#print axioms firstDuplicateText_iff
#print axioms firstDuplicateMovement_iff
#print axioms emitScript_clash
#print axioms emitProgram_clash
#print axioms no_clash_labels
#print axioms srcBreak_lexed

end Pory.C20c
