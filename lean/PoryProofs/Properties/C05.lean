import PoryProofs.ChunkIds
/-
Property C05 (layout half) — "optimisation only reorders code":
the chunk order used by `renderChunks` is a permutation of the chunk ids and starts with chunk 0,
both with `optimize := false` (`sortNat`) and with `optimize := true` (`optimizeChunkOrder`).

(a) `sortNat_perm`, `sortNat_sorted`, `sortNat_head_zero`.
(b) `optimizeChunkOrder_perm` (invariant `Inv` of `optimizeLoop`: `order ++ unvisited` is a
    permutation of the ids and `order` starts with 0; `optimizeLoop_inv`), `optimizeChunkOrder_nodup`;
    `chunkOrder_perm` / `chunkOrder_perm_both` for the order `renderChunks` uses (`renderChunks_eq`).
    Distinctness of the ids turned out not to be needed for the permutation claim.
(c) `emitScript_eq` (the chunk table does not depend on the options), `renderBodies_spec` (the
    bodies are exactly the chunks of `order`, each starting with its statement lines),
    `same_chunks_both_orders` (statement lines over all chunks: same multiset for both orders).
End to end: `script_order_perm`, `script_same_chunks_both_orders` use
`scriptChunks_ids` (`PoryProofs/ChunkIds.lean`: the worklist's chunk table has distinct ids and
contains 0), so they have no side conditions.
Nothing is partial.  Not covered here: the *semantic* half of C05 (that the reordered code with
its inserted/removed `goto`s behaves the same).
-/
namespace Pory.C05
open Pory Pory.Emit

/-! ### (a) `sortNat` is a sorting function -/

theorem insertNat_perm (x : Nat) (l : List Nat) : (insertNat x l).Perm (x :: l) := by
  induction l with
  | nil => exact List.Perm.refl _
  | cons y ys ih =>
    rw [insertNat]
    split
    · exact List.Perm.refl _
    · exact ((List.Perm.cons y ih).trans (List.Perm.swap x y ys))

theorem sortNat_cons (x : Nat) (xs : List Nat) : sortNat (x :: xs) = insertNat x (sortNat xs) := rfl

theorem sortNat_perm (xs : List Nat) : (sortNat xs).Perm xs := by
  induction xs with
  | nil => exact List.Perm.refl _
  | cons x r ih =>
    rw [sortNat_cons]
    exact (insertNat_perm x _).trans (List.Perm.cons x ih)

theorem insertNat_sorted (x : Nat) (l : List Nat) (h : l.Pairwise (· ≤ ·)) :
    (insertNat x l).Pairwise (· ≤ ·) := by
  induction l with
  | nil => simp [insertNat]
  | cons y ys ih =>
    rw [insertNat]
    rw [List.pairwise_cons] at h
    split
    · rename_i hxy
      refine List.pairwise_cons.2 ⟨?_, List.pairwise_cons.2 h⟩
      intro z hz
      rcases List.mem_cons.1 hz with rfl | hz
      · exact hxy
      · exact Nat.le_trans hxy (h.1 z hz)
    · rename_i hxy
      refine List.pairwise_cons.2 ⟨?_, ih h.2⟩
      intro z hz
      have hz' := (insertNat_perm x ys).mem_iff.1 hz
      rcases List.mem_cons.1 hz' with rfl | hz'
      · omega
      · exact h.1 z hz'

theorem sortNat_sorted (xs : List Nat) : (sortNat xs).Pairwise (· ≤ ·) := by
  induction xs with
  | nil => simp [sortNat]
  | cons x r ih => rw [sortNat_cons]; exact insertNat_sorted x _ ih

example : sortNat [3, 0, 2, 1] = [0, 1, 2, 3] := by decide

theorem sortNat_head_zero (xs : List Nat) (h0 : 0 ∈ xs) : (sortNat xs).head? = some 0 := by
  have hp := sortNat_perm xs
  have hs := sortNat_sorted xs
  have h0' : 0 ∈ sortNat xs := hp.mem_iff.2 h0
  cases hl : sortNat xs with
  | nil => rw [hl] at h0'; cases h0'
  | cons a t =>
    rw [hl] at h0' hs
    rw [List.pairwise_cons] at hs
    rcases List.mem_cons.1 h0' with h | h
    · simp [← h]
    · have := hs.1 0 h
      have : a = 0 := by omega
      simp [this]

/-! ### (b) `optimizeChunkOrder` returns a permutation of the ids that starts with 0 -/

theorem scanUnvisited_mem (u : List Nat) (total : Nat) :
    ∀ (n i j i' : Nat), scanUnvisited u total n i = (some j, i') → j ∈ u := by
  intro n
  induction n with
  | zero => intro i j i' h; simp [scanUnvisited] at h
  | succ n ih =>
    intro i j i' h
    rw [scanUnvisited] at h
    split at h
    · split at h
      · rename_i hc
        simp only [Prod.mk.injEq, Option.some.injEq] at h
        rw [← h.1]
        simpa using hc
      · exact ih _ _ _ h
    · simp at h

/-- Loop invariant of `optimizeLoop`. -/
def Inv (ids order unvisited : List Nat) : Prop :=
  (order ++ unvisited).Perm ids ∧ order.head? = some 0

theorem Inv.step {ids order unv : List Nat} {x : Nat} (h : Inv ids order unv) (hx : x ∈ unv) :
    Inv ids (order ++ [x]) (unv.erase x) := by
  refine ⟨?_, ?_⟩
  · rw [List.append_assoc]
    refine List.Perm.trans ?_ h.1
    exact List.Perm.append_left order (List.perm_cons_erase hx).symm
  · cases order with
    | nil => have := h.2; simp at this
    | cons a t => simpa using h.2

theorem optimizeLoop_inv (chunks : List Chunk) (ids : List Nat) :
    ∀ (n : Nat) (order unv : List Nat) (i : Nat) (res : List Nat), Inv ids order unv →
      optimizeLoop chunks ids.length n order unv i = .ok res →
      res.Perm ids ∧ res.head? = some 0 := by
  intro n
  induction n with
  | zero => intro order unv i res _ h; rw [optimizeLoop] at h; cases h
  | succ n ih =>
    intro order unv i res hinv h
    have hpick : optimizeLoop.pick chunks ids.length n order unv i = .ok res →
        res.Perm ids ∧ res.head? = some 0 := by
      intro h
      rw [optimizeLoop.pick] at h
      split at h
      · rename_i hs
        exact ih _ _ _ _ (hinv.step (scanUnvisited_mem _ _ _ _ _ _ hs)) h
      · cases h
    rw [optimizeLoop] at h
    split at h
    · split at h
      · cases h
      · split at h
        · cases h
        · simp only at h
          split at h
          · split at h
            · rename_i hc
              exact ih _ _ _ _ (hinv.step (by simpa using hc)) h
            · exact hpick h
          · exact hpick h
    · rename_i hlen
      injection h with h
      subst h
      have hl := hinv.1.length_eq
      rw [List.length_append] at hl
      have : unv = [] := List.eq_nil_of_length_eq_zero (by omega)
      subst this
      exact ⟨by simpa using hinv.1, hinv.2⟩

/-- The optimised chunk order is a permutation of the chunk ids and starts with chunk 0.
(Distinctness of the ids is not needed for this; see `optimizeChunkOrder_nodup`.) -/
theorem optimizeChunkOrder_perm (chunks : List Chunk) (order : List Nat)
    (h0 : 0 ∈ chunks.map (·.id)) (h : optimizeChunkOrder chunks = .ok order) :
    order.Perm (chunks.map (·.id)) ∧ order.head? = some 0 := by
  unfold optimizeChunkOrder at h
  split at h
  · rename_i he
    cases chunks with
    | nil => simp at h0
    | cons _ _ => simp at he
  · simp only at h
    have hl : chunks.length = (chunks.map (·.id)).length := by simp
    rw [hl] at h
    refine optimizeLoop_inv chunks (chunks.map (·.id)) _ _ _ _ _ ⟨?_, rfl⟩ h
    exact (List.perm_cons_erase h0).symm

theorem optimizeChunkOrder_nodup (chunks : List Chunk) (order : List Nat)
    (hd : (chunks.map (·.id)).Nodup) (h0 : 0 ∈ chunks.map (·.id))
    (h : optimizeChunkOrder chunks = .ok order) : order.Nodup :=
  (optimizeChunkOrder_perm chunks order h0 h).1.nodup_iff.2 hd

/-- Non-vacuity: a chunk table on which both the tail-following step (0 → 2) and the
scanning step (`pick`, → 1) of the loop are exercised. -/
def demoChunks : List Chunk :=
  [ { id := 0, branch := .jump 2, statements := [.cmd { id := 1, name := "lock" }] },
    { id := 1, returnID := some 2, statements := [.label {} "L" false] },
    { id := 2, statements := [.cmd { id := 2, name := "release" }] } ]

theorem demoChunks_order : optimizeChunkOrder demoChunks = .ok [0, 2, 1] := by
  simp [optimizeChunkOrder, demoChunks, optimizeLoop, optimizeLoop.pick, scanUnvisited, findChunk, tailId]

example : [0, 2, 1].Perm (demoChunks.map (·.id)) ∧ [0, 2, 1].head? = some 0 :=
  optimizeChunkOrder_perm demoChunks [0, 2, 1] (by decide) demoChunks_order

/-! ### The order actually used by `renderChunks` -/

/-- The chunk order `renderChunks` uses. -/
def chunkOrder (o : Opts) (chunks : List Chunk) : Except EFail (List Nat) :=
  if o.optimize then optimizeChunkOrder chunks else .ok (sortNat (chunks.map (·.id)))

/-- `renderChunks` is: choose `chunkOrder`, then `renderBodies` in that order, then add labels. -/
theorem renderChunks_eq (o : Opts) (ps : List ((Nat × Nat) × String)) (chunks : List Chunk)
    (n : String) (g : Bool) (tl : List String) :
    renderChunks o ps chunks n g tl =
      match chunkOrder o chunks with
      | .error e => .error e
      | .ok order =>
        match renderBodies o ps n chunks (chunks.map fun c => chunkLabel n c.id) tl order with
        | .error e => .error e
        | .ok (bodies, jumpChunks) =>
          .ok (bodies.flatMap fun (id, ls) =>
            (if id == 0 || jumpChunks.contains id then
              [Line.labelDef (chunkLabel n id) (id == 0 && g)] else []) ++ ls) := rfl

/-- Whatever the `optimize` setting, the order used is a permutation of the chunk ids and
starts with chunk 0. -/
theorem chunkOrder_perm (o : Opts) (chunks : List Chunk) (order : List Nat)
    (h0 : 0 ∈ chunks.map (·.id)) (h : chunkOrder o chunks = .ok order) :
    order.Perm (chunks.map (·.id)) ∧ order.head? = some 0 := by
  unfold chunkOrder at h
  split at h
  · exact optimizeChunkOrder_perm chunks order h0 h
  · injection h with h
    subst h
    exact ⟨sortNat_perm _, sortNat_head_zero _ h0⟩

/-- The optimised and the unoptimised order are permutations of each other. -/
theorem chunkOrder_perm_both (o₁ o₂ : Opts) (chunks : List Chunk) (ord₁ ord₂ : List Nat)
    (h0 : 0 ∈ chunks.map (·.id))
    (h₁ : chunkOrder o₁ chunks = .ok ord₁) (h₂ : chunkOrder o₂ chunks = .ok ord₂) :
    ord₁.Perm ord₂ :=
  (chunkOrder_perm o₁ chunks ord₁ h0 h₁).1.trans (chunkOrder_perm o₂ chunks ord₂ h0 h₂).1.symm

/-! ### (c) Both orders render the same chunk table, hence the same statement lines -/

/-- `emitScript` builds the chunk table independently of the options and hands it to
`renderChunks`; only `renderChunks` looks at `optimize`. -/
theorem emitScript_eq (o : Opts) (ps : List ((Nat × Nat) × String)) (tl : List String) (s : Script) :
    emitScript o ps tl s =
      match scriptChunks s.body with
      | .error e => .error e
      | .ok chunks => renderChunks o ps chunks s.name (s.scope == .GLOBAL) tl := rfl

theorem marker_congr {o₁ o₂ : Opts} (hl : o₁.lineMarkers = o₂.lineMarkers)
    (hp : o₁.inputPath = o₂.inputPath) (t : Tok) : marker o₁ t = marker o₂ t := by
  simp [marker, Opts.markers, hl, hp]

/-- `renderStatements` does not look at `optimize`. -/
theorem renderStatements_congr {o₁ o₂ : Opts} (hl : o₁.lineMarkers = o₂.lineMarkers)
    (hp : o₁.inputPath = o₂.inputPath) (ps : List ((Nat × Nat) × String)) (cl tl : List String)
    (ss : List Stmt) : renderStatements o₁ ps cl tl ss = renderStatements o₂ ps cl tl ss := by
  induction ss with
  | nil => rfl
  | cons s r ih =>
    cases s with
    | cmd c => rw [renderStatements, renderStatements, ih, marker_congr hl hp]
    | label tok name g => rw [renderStatements, renderStatements, ih, marker_congr hl hp]
    | _ => rfl

/-- The user-visible statement lines (commands and label definitions, with their markers) of
chunk `id`; empty if the chunk is missing or not renderable. -/
def stmtLinesOf (o : Opts) (ps : List ((Nat × Nat) × String)) (cl tl : List String)
    (chunks : List Chunk) (id : Nat) : List Line :=
  match findChunk chunks id with
  | none => []
  | some c =>
    match renderStatements o ps cl tl c.statements with
    | .ok ls => ls
    | .error _ => []

/-- `renderBodies` renders exactly the chunks of `order`, in that order, each body starting
with the statement lines of its chunk. -/
theorem renderBodies_spec (o : Opts) (ps : List ((Nat × Nat) × String)) (n : String)
    (chunks : List Chunk) (cl tl : List String) :
    ∀ (order : List Nat) (bodies : List (Nat × List Line)) (regs : List Nat),
      renderBodies o ps n chunks cl tl order = .ok (bodies, regs) →
      bodies.map (·.1) = order ∧
      ∀ b ∈ bodies, ∃ tail, b.2 = stmtLinesOf o ps cl tl chunks b.1 ++ tail := by
  intro order
  induction order with
  | nil =>
    intro bodies regs h
    rw [renderBodies] at h
    injection h with h
    simp only [Prod.mk.injEq] at h
    rw [← h.1]
    simp
  | cons id rest ih =>
    intro bodies regs h
    rw [renderBodies] at h
    split at h
    · cases h
    · rename_i c hc
      split at h
      · cases h
      · rename_i sl hsl
        simp only at h
        split at h
        · cases h
        · rename_i bodies' regs' hrest
          injection h with h
          simp only [Prod.mk.injEq] at h
          obtain ⟨ih1, ih2⟩ := ih bodies' regs' hrest
          rw [← h.1]
          refine ⟨by simp [ih1], ?_⟩
          intro b hb
          rcases List.mem_cons.1 hb with rfl | hb
          · refine ⟨(renderBranching o ps n c rest.head?).fst ++
                if (renderBranching o ps n c rest.head?).2.snd = true then [] else [Line.blank], ?_⟩
            simp only [stmtLinesOf, hc, hsl, List.append_assoc]
          · exact ih2 b hb

/-- (c) The optimised and the unoptimised rendering of a script work on the same chunk table
(`emitScript_eq`), visit the same chunks (`chunkOrder_perm_both`), and therefore produce the same
multiset of statement lines: the concatenation of the chunks' statement lines in the optimised
order is a permutation of the concatenation in the unoptimised order. -/
theorem same_chunks_both_orders (o : Opts) (ps : List ((Nat × Nat) × String)) (cl tl : List String)
    (chunks : List Chunk) (ord₁ ord₂ : List Nat) (h0 : 0 ∈ chunks.map (·.id))
    (h₁ : chunkOrder { o with optimize := true } chunks = .ok ord₁)
    (h₂ : chunkOrder { o with optimize := false } chunks = .ok ord₂) :
    (ord₁.flatMap (stmtLinesOf { o with optimize := true } ps cl tl chunks)).Perm
      (ord₂.flatMap (stmtLinesOf { o with optimize := false } ps cl tl chunks)) := by
  have hf : stmtLinesOf { o with optimize := true } ps cl tl chunks =
      stmtLinesOf { o with optimize := false } ps cl tl chunks := by
    funext id
    unfold stmtLinesOf
    cases findChunk chunks id with
    | none => rfl
    | some c => simp only; rw [renderStatements_congr (o₁ := { o with optimize := true })
        (o₂ := { o with optimize := false }) rfl rfl]
  rw [hf]
  exact (chunkOrder_perm_both _ _ chunks ord₁ ord₂ h0 h₁ h₂).flatMap_right _

/-- Non-vacuity of (c) on `demoChunks`: the two orders differ, the statement lines are permuted. -/
example : chunkOrder { optimize := true } demoChunks = .ok [0, 2, 1] ∧
    chunkOrder { optimize := false } demoChunks = .ok [0, 1, 2] :=
  ⟨by simp [chunkOrder, demoChunks_order], rfl⟩

example :
    [0, 2, 1].flatMap (stmtLinesOf { optimize := true } [] [] [] demoChunks) =
      [.command "lock" [], .command "release" [], .labelDef "L" false] ∧
    [0, 1, 2].flatMap (stmtLinesOf { optimize := false } [] [] [] demoChunks) =
      [.command "lock" [], .labelDef "L" false, .command "release" []] := by decide

example : ([0, 2, 1].flatMap (stmtLinesOf { optimize := true } [] [] [] demoChunks)).Perm
    ([0, 1, 2].flatMap (stmtLinesOf { optimize := false } [] [] [] demoChunks)) :=
  same_chunks_both_orders {} [] [] [] demoChunks [0, 2, 1] [0, 1, 2] (by decide)
    (by simp [chunkOrder, demoChunks_order]) rfl

/-! ### End to end, for the chunk tables the emitter really builds -/

/-- For every script: whatever the `optimize` setting, the order in which `renderChunks` lays out
the chunks of the script is a duplicate-free permutation of the chunk ids starting with chunk 0
(the hypotheses of `chunkOrder_perm` are discharged by `scriptChunks_ids`). -/
theorem script_order_perm (o : Opts) (s : Script) (chunks : List Chunk) (order : List Nat)
    (hc : scriptChunks s.body = .ok chunks) (h : chunkOrder o chunks = .ok order) :
    order.Perm (chunks.map (·.id)) ∧ order.head? = some 0 ∧ order.Nodup := by
  obtain ⟨hn, h0⟩ := scriptChunks_ids s.body chunks hc
  obtain ⟨hp, hh⟩ := chunkOrder_perm o chunks order h0 h
  exact ⟨hp, hh, hp.nodup_iff.2 hn⟩

/-- (c) for a script, without side conditions. -/
theorem script_same_chunks_both_orders (o : Opts) (ps : List ((Nat × Nat) × String))
    (cl tl : List String) (s : Script) (chunks : List Chunk) (ord₁ ord₂ : List Nat)
    (hc : scriptChunks s.body = .ok chunks)
    (h₁ : chunkOrder { o with optimize := true } chunks = .ok ord₁)
    (h₂ : chunkOrder { o with optimize := false } chunks = .ok ord₂) :
    (ord₁.flatMap (stmtLinesOf { o with optimize := true } ps cl tl chunks)).Perm
      (ord₂.flatMap (stmtLinesOf { o with optimize := false } ps cl tl chunks)) :=
  same_chunks_both_orders o ps cl tl chunks ord₁ ord₂ (scriptChunks_ids s.body chunks hc).2 h₁ h₂

/-- Non-vacuity: a script with an `if` in the middle; the worklist builds 4 chunks. -/
def demoBody : List Stmt :=
  [ .cmd { id := 1, name := "lock" },
    .ite {} (.leaf { operand := { lit := "F" }, operator := .EQ, cmpValue := "TRUE", type := .FLAG })
      [ .cmd { id := 2, name := "msgbox" } ] [] none,
    .cmd { id := 3, name := "release" } ]

def demoTable : List Chunk :=
  match scriptChunks demoBody with | .ok c => c | .error _ => []

theorem demoTable_ok : scriptChunks demoBody = .ok demoTable := rfl

example : demoTable.map (·.id) = [3, 2, 1, 0] := by decide

example : (sortNat (demoTable.map (·.id))).Perm (demoTable.map (·.id)) ∧
    (sortNat (demoTable.map (·.id))).head? = some 0 ∧ (sortNat (demoTable.map (·.id))).Nodup :=
  script_order_perm { optimize := false } { body := demoBody } demoTable _ demoTable_ok rfl

end Pory.C05
