import PoryProofs.LexTok
/-
C19 (positions half) — each token's reported line and start column, in bytes and in characters,
locate its first character in the source, and for single-line tokens other than raw strings the
end column is start plus length.

Vocabulary (`PoryProofs/LexPos.lean`, `PoryProofs/LexTok.lean`):
`lineOf pre`, `colOf pre`, `ucolOf pre` are the 1-based line, 0-based byte column and 0-based
character column of the source position just after the prefix `pre`; `Truthful pre inp p` says
the lexer counters `p` agree with the consumed prefix `pre`; `StartsAt pre rest t` says token `t`
is reported at the split `pre | rest`, `FirstChar c t` that `c` is `t`'s first source character.

Proved (all about the model `PoryModel/Lexer.lean`, for every token class of `nextToken`):
* `nextToken_ok` — the complete statement per call of `nextToken`;
* `start_position_of_nextToken`, `start_position_non_eof` — (a);
* `end_position_single_line` — (b);
* `nextToken_truthful` — `nextToken` preserves the invariant;
* `lexAll_positions` — (c), the full lift: every token of `lexAll src` (including the `STRING`
  that follows a `STRINGTYPE`) is `Located`; spelled out in `lexAll_start_positions`,
  `lexAll_end_positions`, and `lexAll_lookup` (the split named by a reported (line, byte column)
  is unique — `position_unique` — and the token's first character stands there).

Two deviations of the Go lexer are *part of the proved statements* (they are true of lexer.go as
well, see the header of `StartsAt`): the `EOF` token of a source ending in `'\n'` has character
column 1 but byte column 0 (`eofUcol`), and the `EOF` token produced for a NUL character is
reported one column after that character.  Nothing is left partial.

F16 (a NUL inside a `#` / `//` comment used to end the comment) is fixed in lexer.go and in the
model; `Skips` (the skipped text in `nextToken_ok` and (a)) now lets a comment contain any
character except newline, so the statements below also cover sources with NUL inside comments.
-/
namespace Pory.C19
open Pory Pory.Lexer Pory.LexPos

/-- One call of `nextToken` from a truthful state: the input splits into the skipped
whitespace/comments and `rest`; `rest` starts with a character that is neither whitespace nor a
comment start; the first token is reported at that split, single-line classes end at
start + lexeme size, a second token (the `STRING` after a `STRINGTYPE`) is reported where it
starts, and the resulting state is truthful again. -/
theorem nextToken_ok (pre : List Char) (s s' : LS) (toks : List Tok) (done : Bool)
    (h : Truthful pre s.inp s.p) (hn : nextToken s = (toks, s', done)) :
    ∃ skipped rest, s.inp = skipped ++ rest ∧ Skips s.inp rest ∧
      (∀ c r, rest = c :: r → isWs c = false) ∧ isCommentStart rest = false ∧
      TokOK (pre ++ skipped) rest (toks, s', done) ∧ (done = true → rest = []) := by
  obtain ⟨skipped, e, T⟩ := skipAll_steps h
  obtain ⟨hw, hc⟩ := skipAll_stop s
  refine ⟨skipped, (skipAll s).inp, e, skipAll_skips s, hw, hc, ?_⟩
  rw [nextToken_eq] at hn
  generalize skipAll s = sk at hn T
  obtain ⟨inp, p⟩ := sk
  cases inp with
  | nil =>
    simp only at hn
    rw [← hn]
    exact ⟨eof_ok T, fun _ => rfl⟩
  | cons c r =>
    simp only at hn
    rw [← hn]
    refine ⟨tokenAt_ok T, fun hd => ?_⟩
    have := tokenAt_done ⟨c :: r, p⟩ c
    rw [hn] at this
    simp only at this
    rw [this] at hd
    exact absurd hd (by decide)

/-- (a) Start position of the first token returned by `nextToken`, for every token class.
`skipped` is what the skipping phase consumed (`Skips s.inp rest`), and `rest` begins with
a character that is neither whitespace nor a comment start.
* ordinary case (`rest = c :: _`, `c` not NUL): line, byte column and character column are those
  of the position of `c`, and `c` is the token's first character;
* real end of input (`rest = []`): an `EOF` token at the end position, except that its character
  column is `eofUcol` (1 instead of 0 when the source ends with a newline);
* NUL character: an `EOF` token reported one column to the right of the NUL. -/
theorem start_position_of_nextToken (pre : List Char) (s s' : LS) (toks : List Tok) (done : Bool)
    (h : Truthful pre s.inp s.p) (hn : nextToken s = (toks, s', done)) :
    ∃ t ts skipped rest, toks = t :: ts ∧ s.inp = skipped ++ rest ∧ Skips s.inp rest ∧
      (∀ c r, rest = c :: r → isWs c = false) ∧ isCommentStart rest = false ∧
      t.line = lineOf (pre ++ skipped) ∧
      (∀ c r, rest = c :: r → c ≠ NUL →
        t.startChar = colOf (pre ++ skipped) ∧ t.startUtf8 = ucolOf (pre ++ skipped) ∧
          FirstChar c t) ∧
      (rest = [] → t.type = .EOF ∧ t.startChar = colOf (pre ++ skipped) ∧
        t.startUtf8 = eofUcol (pre ++ skipped)) ∧
      (∀ r, rest = NUL :: r → t.type = .EOF ∧ t.startChar = colOf (pre ++ skipped) + 1 ∧
        t.startUtf8 = ucolOf (pre ++ skipped) + 1) := by
  obtain ⟨skipped, rest, e, hr, hw, hc, ⟨t, ts, ht, ⟨hl, hs⟩, _, _, _⟩, _⟩ :=
    nextToken_ok pre s s' toks done h hn
  refine ⟨t, ts, skipped, rest, ht, e, hr, hw, hc, hl, ?_, ?_, ?_⟩
  · intro c r hrest hnul
    subst hrest
    simpa [hnul] using hs
  · intro hrest
    subst hrest
    simpa using hs
  · intro r hrest
    subst hrest
    simpa using hs

/-- (a), phrased on the token type: every first token that is not `EOF` is reported at the
position of its first character `c`, the first character after the skipped text. -/
theorem start_position_non_eof (pre : List Char) (s s' : LS) (toks : List Tok) (done : Bool)
    (h : Truthful pre s.inp s.p) (hn : nextToken s = (toks, s', done)) :
    ∃ t ts skipped rest, toks = t :: ts ∧ s.inp = skipped ++ rest ∧ Skips s.inp rest ∧
      (t.type ≠ .EOF → ∃ c r, rest = c :: r ∧
        t.line = lineOf (pre ++ skipped) ∧ t.startChar = colOf (pre ++ skipped) ∧
        t.startUtf8 = ucolOf (pre ++ skipped) ∧ FirstChar c t) := by
  obtain ⟨t, ts, skipped, rest, ht, e, hr, _, _, hl, h1, h2, h3⟩ :=
    start_position_of_nextToken pre s s' toks done h hn
  refine ⟨t, ts, skipped, rest, ht, e, hr, fun hne => ?_⟩
  cases rest with
  | nil => exact absurd (h2 rfl).1 hne
  | cons c r =>
    by_cases hnul : c = NUL
    · subst hnul
      exact absurd (h3 r rfl).1 hne
    · obtain ⟨a, b, d⟩ := h1 c r rfl hnul
      exact ⟨c, r, rfl, hl, a, b, d⟩

/-- (b) End position of the single-line classes.  If the first token is not a `STRING`,
`RAWSTRING` or `EOF` token (so: identifier, keyword, `STRINGTYPE` name, number incl. `0x…` and
negative, one- or two-character operator, `ILLEGAL` incl. multi-byte characters) then its literal
is a run `lexeme` of source characters starting right after the skipped text, it ends on its
start line, and its end columns are the start columns plus the lexeme's size in bytes and in
characters. -/
theorem end_position_single_line (pre : List Char) (s s' : LS) (toks : List Tok) (done : Bool)
    (h : Truthful pre s.inp s.p) (hn : nextToken s = (toks, s', done)) :
    ∃ t ts skipped rest, toks = t :: ts ∧ s.inp = skipped ++ rest ∧ Skips s.inp rest ∧
      (t.type ≠ .STRING → t.type ≠ .RAWSTRING → t.type ≠ .EOF →
        ∃ lexeme after, rest = lexeme ++ after ∧ t.lit = String.ofList lexeme ∧
          t.endLine = t.line ∧ t.endChar = t.startChar + bytesOf lexeme ∧
          t.endUtf8 = t.startUtf8 + lexeme.length) := by
  obtain ⟨skipped, rest, e, hr, _, _, ⟨t, ts, ht, _, hm, _, _⟩, _⟩ :=
    nextToken_ok pre s s' toks done h hn
  refine ⟨t, ts, skipped, rest, ht, e, hr, fun n1 n2 n3 => ?_⟩
  rcases hm with (hm | hm | hm) | hm
  · exact absurd hm n1
  · exact absurd hm n2
  · exact absurd hm n3
  · exact hm

/-- `nextToken` keeps the counters truthful: the new state is reached by consuming a piece of
the input. -/
theorem nextToken_truthful (pre : List Char) (s s' : LS) (toks : List Tok) (done : Bool)
    (h : Truthful pre s.inp s.p) (hn : nextToken s = (toks, s', done)) :
    ∃ consumed, s.inp = consumed ++ s'.inp ∧ Truthful (pre ++ consumed) s'.inp s'.p := by
  obtain ⟨skipped, rest, e, _, _, _, ⟨_, _, _, _, _, _, ⟨mid, e2, T⟩⟩, _⟩ :=
    nextToken_ok pre s s' toks done h hn
  exact ⟨skipped ++ mid, by rw [e, e2]; simp, by simpa using T⟩

/-! ### (c) The lift to `lexAll` -/

/-- Token `t` of source `src` is reported at the position of its first character: there is a
split `src = pre ++ rest` at which `t` starts (`StartsAt`, including the two `EOF` deviations),
and unless `t` is a `STRING`, `RAWSTRING` or `EOF` token it ends at start + size of its lexeme,
which is a prefix of `rest` (`SingleLine`). -/
def Located (src : List Char) (t : Tok) : Prop :=
  ∃ pre rest, src = pre ++ rest ∧ StartsAt pre rest t ∧ (Multi t ∨ SingleLine rest t)

theorem lexLoop_located (src : List Char) (n : Nat) (pre : List Char) (s : LS)
    (hsrc : src = pre ++ s.inp) (h : Truthful pre s.inp s.p) :
    ∀ t ∈ lexLoop n s, Located src t := by
  induction n generalizing pre s with
  | zero => intro t ht; simp [lexLoop] at ht
  | succ n ih =>
    obtain ⟨skipped, rest, e, _, _, _, ⟨t1, ts, ht1, hs1, hm1, hts, ⟨mid, e2, T⟩⟩, _⟩ :=
      nextToken_ok pre s (nextToken s).2.1 (nextToken s).1 (nextToken s).2.2 h rfl
    simp only at ht1 e2 T
    have hhere : ∀ t ∈ (nextToken s).1, Located src t := by
      intro t ht
      rw [ht1] at ht
      rcases List.mem_cons.1 ht with rfl | ht
      · exact ⟨pre ++ skipped, rest, by rw [hsrc, e]; simp, hs1, hm1⟩
      · obtain ⟨a, b, eab, hsa, hma⟩ := hts t ht
        exact ⟨pre ++ skipped ++ a, b, by rw [hsrc, e, eab]; simp, hsa, Or.inl hma⟩
    intro t ht
    simp only [lexLoop] at ht
    split at ht
    · exact hhere t ht
    · rcases List.mem_append.1 ht with ht | ht
      · exact hhere t ht
      · refine ih (pre ++ skipped ++ mid) _ ?_ T t ht
        rw [hsrc, e, e2]; simp

/-- (c) Every token of `lexAll src` — not only the first — is reported at the position of its
first character, and the single-line classes end at start + lexeme size. -/
theorem lexAll_positions (src : List Char) : ∀ t ∈ lexAll src, Located src t :=
  lexLoop_located src _ [] (initLS src) rfl (truthful_init src)

/-- (c), start positions spelled out: every non-`EOF` token of `lexAll src` is reported with the
line, byte column and character column of a source position at which its first character
stands. -/
theorem lexAll_start_positions (src : List Char) (t : Tok) (ht : t ∈ lexAll src)
    (hne : t.type ≠ .EOF) :
    ∃ pre c r, src = pre ++ c :: r ∧ t.line = lineOf pre ∧ t.startChar = colOf pre ∧
      t.startUtf8 = ucolOf pre ∧ FirstChar c t := by
  obtain ⟨pre, rest, e, ⟨hl, hs⟩, _⟩ := lexAll_positions src t ht
  cases rest with
  | nil => exact absurd hs.1 hne
  | cons c r =>
    by_cases hnul : c = NUL
    · simp only [hnul, if_true] at hs
      exact absurd hs.1 hne
    · simp only [hnul, if_false] at hs
      exact ⟨pre, c, r, e, hl, hs⟩

/-- (c), the reader's view: looking up the reported (line, byte column) of a non-`EOF` token in
the source — at *any* split with that line and column, there is only one — finds the token's
first character, and the reported character column is that position's character column. -/
theorem lexAll_lookup (src : List Char) (t : Tok) (ht : t ∈ lexAll src) (hne : t.type ≠ .EOF)
    (pre rest : List Char) (hsrc : src = pre ++ rest) (hl : lineOf pre = t.line)
    (hc : colOf pre = t.startChar) :
    ∃ c r, rest = c :: r ∧ FirstChar c t ∧ ucolOf pre = t.startUtf8 := by
  obtain ⟨pre', c, r, e, h1, h2, h3, h4⟩ := lexAll_start_positions src t ht hne
  obtain ⟨e1, e2⟩ := position_unique (hsrc.symm.trans e) (hl.trans h1) (hc.trans h2)
  subst e1
  exact ⟨c, r, e2, h4, h3.symm⟩

/-- (c), end positions spelled out: every token of `lexAll src` other than `STRING`, `RAWSTRING`
and `EOF` tokens has as literal a run of source characters standing at its reported start, ends
on its start line, and its end columns are start + size of the literal in bytes / characters. -/
theorem lexAll_end_positions (src : List Char) (t : Tok) (ht : t ∈ lexAll src)
    (n1 : t.type ≠ .STRING) (n2 : t.type ≠ .RAWSTRING) (n3 : t.type ≠ .EOF) :
    ∃ pre lexeme after, src = pre ++ lexeme ++ after ∧ t.line = lineOf pre ∧
      t.startChar = colOf pre ∧ t.startUtf8 = ucolOf pre ∧ t.lit = String.ofList lexeme ∧
      t.endLine = t.line ∧ t.endChar = t.startChar + bytesOf lexeme ∧
      t.endUtf8 = t.startUtf8 + lexeme.length := by
  obtain ⟨pre, rest, e, hs, hm⟩ := lexAll_positions src t ht
  rcases hm with (hm | hm | hm) | ⟨lexeme, after, er, hlit, g1, g2, g3⟩
  · exact absurd hm n1
  · exact absurd hm n2
  · exact absurd hm n3
  · obtain ⟨hl, hs⟩ := hs
    cases rest with
    | nil => exact absurd hs.1 n3
    | cons c' r' =>
      by_cases hnul : c' = NUL
      · simp only [hnul, if_true] at hs
        exact absurd hs.1 n3
      · simp only [hnul, if_false] at hs
        exact ⟨pre, lexeme, after, by rw [e, er]; simp, hl, hs.1, hs.2.1, hlit, g1, g2, g3⟩

/-! ### Non-vacuity -/

/-- A truthful mid-source state (after `"(\n"`), the `nextToken` call from it, and the
conclusions of (a) and (b) for it: skipped = two blanks, the `<=` token at line 2, columns 2–4. -/
example :
    Truthful "(\n".toList "  <= 0x1F\n".toList
      { line := 2, prevCol := 0, col := 1, prevUcol := 0, ucol := 1 } ∧
    nextToken ⟨"  <= 0x1F\n".toList, { line := 2, prevCol := 0, col := 1, prevUcol := 0, ucol := 1 }⟩ =
      ([{ type := .LTE, lit := "<=", line := 2, startChar := 2, startUtf8 := 2, endLine := 2,
          endChar := 4, endUtf8 := 4 }],
       ⟨" 0x1F\n".toList, { line := 2, prevCol := 4, col := 5, prevUcol := 4, ucol := 5 }⟩, false) ∧
    lineOf ("(\n".toList ++ "  ".toList) = 2 ∧ colOf ("(\n".toList ++ "  ".toList) = 2 ∧
    ucolOf ("(\n".toList ++ "  ".toList) = 2 := by
  refine ⟨?_, by decide +kernel, by decide, by decide, by decide⟩
  constructor <;> decide

/-- A source with a comment, a multi-byte character inside a string, an operator and a hex
number: the `INT` token is a member of `lexAll`, so `lexAll_start_positions` and
`lexAll_end_positions` apply to it; bytes and characters differ (8 vs 7). -/
example :
    let src := "# é\n\"é\" <= 0x1F\n".toList
    let t : Tok := { type := .INT, lit := "0x1F", line := 2, startChar := 8, startUtf8 := 7,
                     endLine := 2, endChar := 12, endUtf8 := 11 }
    t ∈ lexAll src ∧ t.type ≠ .EOF ∧ t.type ≠ .STRING ∧ t.type ≠ .RAWSTRING ∧
      ∃ pre lexeme after, src = pre ++ lexeme ++ after ∧ t.line = lineOf pre ∧
        t.startChar = colOf pre ∧ t.startUtf8 = ucolOf pre ∧ t.lit = String.ofList lexeme ∧
        t.endLine = t.line ∧ t.endChar = t.startChar + bytesOf lexeme ∧
        t.endUtf8 = t.startUtf8 + lexeme.length := by
  intro src t
  have hm : t ∈ lexAll src := by decide +kernel
  exact ⟨hm, by decide, by decide, by decide,
    lexAll_end_positions src t hm (by decide) (by decide) (by decide)⟩

/-- The two `EOF` deviations are real: a source ending in a newline gets an `EOF` token with
byte column 0 and character column 1; a NUL character gets an `EOF` token one column late. -/
example :
    (lexAll "(\n".toList).map (fun t => (t.type, t.line, t.startChar, t.startUtf8)) =
      [(.LPAREN, 1, 0, 0), (.EOF, 2, 0, 1)] ∧
    ((lexAll [NUL]).map (fun t => (t.type, t.line, t.startChar, t.startUtf8))).head? =
      some (.EOF, 1, 1, 1) := by
  constructor <;> decide +kernel

end Pory.C19
