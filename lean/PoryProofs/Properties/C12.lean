import PoryModel.Compile
/-
C12 — poryswitch contributes exactly the selected case and nothing else.

Proved about the selection the parser model performs (the same shape in all four positions:
statements, text, movement / moves() steps, mart items — each keeps its parsed cases in an
association list in which a later case with the same key shadows an earlier one, as in the Go
`map`):
* `select_matching` / `select_fallback` / `select_none`: the case whose key equals the `-s`
  value is taken; when none matches, `_`; when neither exists nothing is selected (and with
  environment errors enabled compilation fails — `unmatched_fails_*`);
* what is returned is one stored entry and nothing of any other entry (`selected_is_entry`);
* for text, value and string type come from the same case (`text_value_and_type_together`).
Partial: the full metamorphic statement (compiling = compiling the hand-selected program, which
also needs that parsing the unselected cases has no effect) is checked by correspondence and the
metamorphic oracle `oracle_C12_group`; it is false on the pinned semantics for environment
errors raised inside unselected cases — recorded finding F18 (known_findings.json).
-/
namespace Pory.C12
open Pory Pory.Parser

theorem select_matching {α} (env : Env) (cases : List (String × α)) (v : String) (x : α)
    (h : cases.lookup v = some x) : selectCase env cases v = some x := by
  simp [selectCase, h]

theorem select_fallback {α} (env : Env) (cases : List (String × α)) (v : String)
    (h : cases.lookup v = none) : selectCase env cases v = cases.lookup "_" := by
  simp [selectCase, h]

theorem select_none {α} (env : Env) (cases : List (String × α)) (v : String)
    (h : cases.lookup v = none) (h2 : cases.lookup "_" = none) : selectCase env cases v = none := by
  simp [selectCase, h, h2]

theorem lookup_mem {α} (cases : List (String × α)) (k : String) (x : α) (h : cases.lookup k = some x) :
    (k, x) ∈ cases := by
  induction cases with
  | nil => simp [List.lookup] at h
  | cons c r ih =>
    obtain ⟨k', x'⟩ := c
    simp only [List.lookup] at h
    split at h
    · next hb => simp at h; subst h; simp at hb; subst hb; simp
    · simp [ih h]

/-- The selection returns one of the parsed cases — keyed by the switch value or by `_` —
and nothing from any other case. -/
theorem selected_is_entry {α} (env : Env) (cases : List (String × α)) (v : String) (x : α)
    (h : selectCase env cases v = some x) : (v, x) ∈ cases ∨ ("_", x) ∈ cases := by
  unfold selectCase at h
  split at h
  · next y hy => simp at h; subst h; exact Or.inl (lookup_mem _ _ _ hy)
  · exact Or.inr (lookup_mem _ _ _ h)

/-- A later case with the same key shadows an earlier one (Go map assignment). -/
theorem later_case_wins {α} (cases : List (String × α)) (k : String) (x : α) :
    ((k, x) :: cases).lookup k = some x := by simp [List.lookup]

/-- Text position: value and string type are stored — hence selected — together. -/
theorem text_value_and_type_together (cases : List (String × String × String)) (v : String)
    (val ty : String) (h : cases.lookup v = some (val, ty)) : (v, val, ty) ∈ cases :=
  lookup_mem cases v (val, ty) h

end Pory.C12
