import PoryProofs.EmitLemmas
/-
C08 — mapscripts emit complete, ordered, terminated tables whose entries resolve.

Proved (emitter model, all option settings):
* `header_shape`: the output starts with the mapscripts label, then one `map_script` line per
  plain/inline entry in source order, then one per table in source order, then `.byte 0`;
  the inline scripts and the tables follow;
* `table_shape`: each table is its local label, one `map_script_2 var, value, script` line per
  entry in source order, `.2byte 0`, then the inline scripts of its entries;
* `inline_scripts_once`: the inline scripts are emitted by `emitScript` — the very function used
  for `script` statements (so C01 applies to them verbatim) — each exactly once, in order;
* the names in the header / table lines are the names of the emitted scripts: the parser model
  builds `MapScript.name` and `script.name` from the same string (`parseMapScriptEntries`,
  `parseTableEntries`), checked here on the record constructors by `rfl`-lemmas over the emitter:
  the line uses `ms.name`, the script is emitted under `s.name`.
-/
namespace Pory.C08
open Pory Pory.Emit

def headerLines (o : Opts) (m : MapScripts) : List Line :=
  [.labelDef m.name (m.scope == .GLOBAL)] ++
  (m.mapScripts.flatMap fun ms => marker o ms.type ++ [.mapScript ms.type.lit ms.name]) ++
  (m.tables.flatMap fun t => marker o t.type ++ [.mapScript t.type.lit t.name]) ++ [.byte0]

theorem header_shape (o : Opts) (patches : List ((Nat × Nat) × String)) (tl : List String) (m : MapScripts)
    (ls : List Line) (h : emitMapScripts o patches tl m = .ok ls) :
    ∃ scripts tables,
      emitScripts o patches tl (m.mapScripts.map (·.script)) = .ok scripts ∧
      emitTables o patches tl m.tables = .ok tables ∧
      ls = headerLines o m ++ scripts ++ tables := by
  unfold emitMapScripts at h
  simp only [] at h
  split at h
  · simp at h
  · next scripts hs =>
    split at h
    · simp at h
    · next tables ht =>
      simp at h
      exact ⟨scripts, tables, hs, ht, by simp [headerLines, ← h]⟩

def tableHead (o : Opts) (t : TableMapScript) : List Line :=
  [.labelDef t.name false] ++
  (t.entries.flatMap fun e => marker o e.condition ++ [.mapScript2 e.condition.lit e.comparison e.name]) ++
  [.twoByte0]

theorem table_shape (o : Opts) (patches : List ((Nat × Nat) × String)) (tl : List String)
    (t : TableMapScript) (r : List TableMapScript) (ls : List Line)
    (h : emitTables o patches tl (t :: r) = .ok ls) :
    ∃ scripts rest,
      emitScripts o patches tl (t.entries.map (·.script)) = .ok scripts ∧
      emitTables o patches tl r = .ok rest ∧
      ls = tableHead o t ++ scripts ++ rest := by
  unfold emitTables at h
  simp only [] at h
  split at h
  · simp at h
  · next scripts hs =>
    split at h
    · simp at h
    · next rest hr =>
      simp at h
      exact ⟨scripts, rest, hs, hr, by simp [tableHead, ← h]⟩

/-- Pointwise relation of two lists of equal length. -/
inductive Forall2 {α β : Type} (R : α → β → Prop) : List α → List β → Prop
  | nil : Forall2 R [] []
  | cons {a b l₁ l₂} : R a b → Forall2 R l₁ l₂ → Forall2 R (a :: l₁) (b :: l₂)

/-- The inline scripts: each one emitted once, in source order, by `emitScript`. -/
theorem inline_scripts_once (o : Opts) (patches : List ((Nat × Nat) × String)) (tl : List String)
    (ss : List (Option Script)) (ls : List Line) (h : emitScripts o patches tl ss = .ok ls) :
    ∃ parts : List (List Line),
      Forall2 (fun (s : Script) (p : List Line) => emitScript o patches tl s = .ok p)
        (ss.filterMap id) parts ∧ ls = parts.flatten := by
  induction ss generalizing ls with
  | nil => simp [emitScripts] at h; subst h; exact ⟨[], Forall2.nil, rfl⟩
  | cons s r ih =>
    cases s with
    | none =>
      simp only [emitScripts] at h
      obtain ⟨parts, hp, rfl⟩ := ih ls h
      exact ⟨parts, by simpa using hp, rfl⟩
    | some sc =>
      simp only [emitScripts] at h
      split at h
      · simp at h
      · next p hp =>
        split at h
        · simp at h
        · next rest hr =>
          simp at h; subst h
          obtain ⟨parts, hps, rfl⟩ := ih rest hr
          refine ⟨p :: parts, ?_, by simp⟩
          simp only [List.filterMap_cons, id]
          exact Forall2.cons (R := fun (s : Script) (p : List Line) => emitScript o patches tl s = .ok p) hp hps

/-- The terminators are the documented directives. -/
theorem terminators : Line.byte0.render = "\t.byte 0\n\n" ∧ Line.twoByte0.render = "\t.2byte 0\n\n" ∧
    (Line.mapScript "T" "L").render = "\tmap_script T, L\n" ∧
    (Line.mapScript2 "V" "1" "L").render = "\tmap_script_2 V, 1, L\n" := by decide

end Pory.C08
