import PoryProofs.TableFacts
import PoryProofs.Properties.C01b
/-
C01c — the end-to-end compiler-correctness statement for ONE script: source machine
(`Sem.sstep`, PorySpec/Sem.lean) vs the assembly machine (`Asm.astep`, PoryProofs/AsmSem.lean)
running the lines `emitScript` produces, for either chunk order (`o.optimize`) and with or
without line markers.

It composes
* E2  `Emit.emit_impl`            (the worklist establishes the compilation relation),
* E3  `C01.C01_equivalence`       (the compilation relation is a simulation)  — both packaged as
      `C01b.lowering_correct`,
* E4  `RenderSim.render_sim`      (chunk graph ≈ rendered lines),
and discharges every table hypothesis of `render_sim` for the table `scriptChunks s.body`:
ids distinct and containing 0 (`C05.scriptChunks_ids`), `Closed` (`Emit.scriptChunks_closed`),
`SwitchNotLast` for the order actually used (`Emit.scriptChunks_switchNotLast`), `PreambleOK`
(`Emit.scriptChunks_preambleOK`, from the configuration hypothesis `PreamblesPlain`).

Main theorems (nothing is partial, nothing is `sorry`)
* `end_to_end`: if the source machine finishes with outcome `oc` and history `h`, the assembly
  machine started at line 0 (empty history, arbitrary registers) finishes with an `ORel`-related
  outcome and history `rh patches h` — in particular never with `runOff` / `stuck`.
* `end_to_end_unique`: … and *every* finished assembly run from line 0 then has that outcome
  (the machine is deterministic).
* `end_to_end_diverges`: if the source run never finishes, neither does the assembly run
  (`asm_survives`: every graph step is matched by ≥ 1 assembly steps except for fall-throughs
  into the chunk laid out next, which strictly advance in the duplicate-free chunk order).
* `end_to_end_converse` (`: end_to_end_converse_full`): every finished assembly run from line 0
  comes from a finished source run with corresponding outcome and history.
* `end_to_end_iff`: the three packaged (finished runs correspond in both directions; one side
  diverges iff the other does).
* `end_to_end_induced`: the forward + uniqueness statement for the graph world induced by an
  arbitrary assembly world through the documented meaning of leaves, under `LeavesWellFormed`
  (so `Compat` is discharged by `RenderSim.compat_induced`).

Remaining hypotheses (none about the chunk table):
* `ScopeIdsDistinct s.body`, `OneDefaultL s.body`, `Sem.WellScoped ⟨s.body, [], []⟩` — parser
  guarantees (PoryProofs/ParserScopes*.lean);
* `PreamblesPlain s.body` — CONFIGURATION hypothesis: no AutoVar command of a condition leaf is
  named `end` / `return` / `goto`;
* `Compat o patches s.name chunks w aw` — ties the source-level world `w` to the assembly-level
  world `aw` (discharged for the induced world by `RenderSim.compat_induced`);
* `emitScript … = .ok ls` — the emitter accepted the script.
Scope: ONE script; the assembly machine runs on the structured lines of that script (a user
`goto` ends the segment with outcome `jump`, as in the source machine).
-/
namespace Pory.C01c
open Pory Pory.Emit Pory.Sem Pory.Asm Pory.RenderSim

/-! ### determinism of the assembly machine -/

theorem aiter_fin_stable (aw : AWorld) (ls : List Line) : ∀ (m : Nat) (c : ACfg) (o : AOutcome) (h : AHist),
    aiter aw ls m c = .fin o h → ∀ k, aiter aw ls (m + k) c = .fin o h := by
  intro m
  induction m with
  | zero => intro c o h hf; simp [aiter] at hf
  | succ m ih =>
    intro c o h hf k
    rw [Nat.add_right_comm, aiter]
    rw [aiter] at hf
    cases hs : astep aw ls c with
    | next c' => rw [hs] at hf; simp only; exact ih c' o h hf k
    | fin o' h' => rw [hs] at hf; exact hf

theorem aiter_fin_unique (aw : AWorld) (ls : List Line) {m m' : Nat} {c : ACfg} {o o' : AOutcome}
    {h h' : AHist} (h1 : aiter aw ls m c = .fin o h) (h2 : aiter aw ls m' c = .fin o' h') :
    o = o' ∧ h = h' := by
  have a := aiter_fin_stable aw ls m c o h h1 m'
  have b := aiter_fin_stable aw ls m' c o' h' h2 m
  rw [Nat.add_comm] at b
  rw [a] at b
  injection b with b1 b2
  exact ⟨b1, b2⟩

/-! ### the table hypotheses of `render_sim`, discharged -/

/-- Everything `render_sim` needs to know about an emitter-built chunk table. -/
theorem table_facts (o : Opts) (body : List Stmt) (chunks : List Chunk)
    (hp : PreamblesPlain body) (h : scriptChunks body = .ok chunks) :
    (chunks.map (·.id)).Nodup ∧ 0 ∈ chunks.map (·.id) ∧ Closed chunks ∧ PreambleOK chunks ∧
      ∀ order, C05.chunkOrder o chunks = .ok order → SwitchNotLast chunks order :=
  ⟨(C05.scriptChunks_ids body chunks h).1, (C05.scriptChunks_ids body chunks h).2,
   scriptChunks_closed body chunks h, scriptChunks_preambleOK body chunks hp h,
   fun order ho => scriptChunks_switchNotLast o body chunks order h ho⟩

/-! ### the end-to-end theorem -/

/-- **End-to-end correctness of the emitter for one script** (forward direction, all finished
runs).  For either chunk order and any line-marker setting: if the source machine started on the
body finishes with outcome `oc` and command history `h`, then the assembly machine started on the
first line of the emitted script (empty history, arbitrary registers) finishes with a
corresponding outcome (`ORel`: `ret ↦ ret`, `end_ ↦ end_`, a user `goto` with its patched
arguments) and history `rh patches h` — so it never ends in `runOff` or `stuck`. -/
theorem end_to_end (o : Opts) (patches : List ((Nat × Nat) × String)) (tl : List String) (s : Script)
    (ls : List Line)
    (hs : ScopeIdsDistinct s.body) (hd : OneDefaultL s.body) (hw : WellScoped ⟨s.body, [], []⟩)
    (hp : PreamblesPlain s.body) (he : emitScript o patches tl s = .ok ls) :
    ∃ chunks, scriptChunks s.body = .ok chunks ∧
      ∀ (w : SWorld) (aw : AWorld), Compat o patches s.name chunks w aw →
        ∀ (oc : Outcome) (h : Hist), (∃ n, siter w n ⟨s.body, [], []⟩ = .fin oc h) →
          ∀ (regs : Spec.Regs) (sw : String),
            ∃ m oc', aiter aw ls m ⟨0, [], regs, sw⟩ = .fin oc' (rh patches h) ∧ ORel patches oc oc' := by
  rw [C05.emitScript_eq] at he
  cases hc : scriptChunks s.body with
  | error e => rw [hc] at he; cases he
  | ok chunks =>
    rw [hc] at he
    simp only at he
    refine ⟨chunks, rfl, ?_⟩
    obtain ⟨hnd, h0, hcl, hpre, hsw⟩ := table_facts o s.body chunks hp hc
    obtain ⟨order, ho, _, hsim⟩ :=
      render_sim o patches s.name chunks (s.scope == .GLOBAL) tl ls hnd h0 hcl hpre he
    intro w aw C oc h hfin regs sw
    obtain ⟨hentry, _, hrun⟩ := hsim (hsw order ho) w aw C
    obtain ⟨m, hg⟩ := ((C01b.lowering_correct s.body chunks hs hd hw hc w).1 oc h).1 hfin
    obtain ⟨a0, hst, hR⟩ := hentry regs sw
    obtain ⟨m1, oc', hm1, hrel⟩ := hrun m ⟨0, 0, []⟩ a0 oc h hR hg
    have h2 := aiter_star aw ls m1 a0
    rw [hm1] at h2
    obtain ⟨m', hm'⟩ := star_aiter (hst.trans h2) _ rfl _ _ rfl
    exact ⟨m', oc', hm', hrel⟩

/-- … and every finished assembly run from the first line then has that outcome and history. -/
theorem end_to_end_unique (o : Opts) (patches : List ((Nat × Nat) × String)) (tl : List String)
    (s : Script) (ls : List Line)
    (hs : ScopeIdsDistinct s.body) (hd : OneDefaultL s.body) (hw : WellScoped ⟨s.body, [], []⟩)
    (hp : PreamblesPlain s.body) (he : emitScript o patches tl s = .ok ls) :
    ∃ chunks, scriptChunks s.body = .ok chunks ∧
      ∀ (w : SWorld) (aw : AWorld), Compat o patches s.name chunks w aw →
        ∀ (oc : Outcome) (h : Hist), (∃ n, siter w n ⟨s.body, [], []⟩ = .fin oc h) →
          ∀ (regs : Spec.Regs) (sw : String) (m : Nat) (oc' : AOutcome) (ah : AHist),
            aiter aw ls m ⟨0, [], regs, sw⟩ = .fin oc' ah → ORel patches oc oc' ∧ ah = rh patches h := by
  obtain ⟨chunks, hc, hall⟩ := end_to_end o patches tl s ls hs hd hw hp he
  refine ⟨chunks, hc, ?_⟩
  intro w aw C oc h hfin regs sw m oc' ah hm
  obtain ⟨m1, oc1, hm1, hrel⟩ := hall w aw C oc h hfin regs sw
  obtain ⟨e1, e2⟩ := aiter_fin_unique aw ls hm hm1
  subst e1; subst e2
  exact ⟨hrel, rfl⟩

/-! ### divergence is preserved, and the converse direction -/

section div
variable {o : Opts} {patches : List ((Nat × Nat) × String)} {name : String} {G : List Chunk}
  {isGlobal : Bool} {aw : AWorld} {ls : List Line} {order : List Nat} {w : SWorld}

/-- the graph run from `g` never finishes -/
def GDiv (w : SWorld) (G : List Chunk) (g : GCfg) : Prop := ∀ m, ∃ g', giter w G m g = .next g'

/-- the assembly run from `a` does not finish within `N` steps -/
def ASurv (aw : AWorld) (ls : List Line) (N : Nat) (a : ACfg) : Prop :=
  ∀ n, n ≤ N → ∃ a', aiter aw ls n a = .next a'

theorem gdiv_step {g : GCfg} (h : GDiv w G g) : ∃ g1, gstep w G g = .next g1 ∧ GDiv w G g1 := by
  obtain ⟨g', h1⟩ := h 1
  rw [giter] at h1
  cases hs : gstep w G g with
  | fin o' h' => rw [hs] at h1; cases h1
  | next g1 =>
    refine ⟨g1, rfl, ?_⟩
    intro m
    have := h (m + 1)
    rw [giter, hs] at this
    exact this

theorem astar_fin {oc : AOutcome} {h : AHist} {r : ARes} (hs : AStar aw ls (.fin oc h) r) :
    r = .fin oc h := by
  cases hs; rfl

theorem astep_next_of_star {c a1 : ACfg} (hs : AStar aw ls (astep aw ls c) (.next a1)) :
    ∃ c', astep aw ls c = .next c' := by
  cases h : astep aw ls c with
  | next c' => exact ⟨c', rfl⟩
  | fin oc hh => rw [h] at hs; have := astar_fin hs; cases this

theorem surv_step {N : Nat} {c c' : ACfg} (hs : astep aw ls c = .next c') (h : ASurv aw ls N c') :
    ASurv aw ls (N + 1) c := by
  intro n hn
  cases n with
  | zero => exact ⟨c, rfl⟩
  | succ k =>
    rw [aiter, hs]
    exact h k (by omega)

theorem ASurv.mono {N M : Nat} {a : ACfg} (h : ASurv aw ls N a) (hm : M ≤ N) : ASurv aw ls M a :=
  fun n hn => h n (by omega)

theorem surv_of_star {N : Nat} {r r' : ARes} (hs : AStar aw ls r r') :
    ∀ a a1, r = .next a → r' = .next a1 → ASurv aw ls N a1 → ASurv aw ls N a := by
  induction hs with
  | refl r => intro a a1 h1 h2 h; rw [h1] at h2; injection h2 with h2; subst h2; exact h
  | @step c r0 hst ih =>
    intro a a1 h1 h2 h
    injection h1 with h1
    subst h1
    subst h2
    obtain ⟨c', hc'⟩ := astep_next_of_star hst
    exact (surv_step hc' (ih c' a1 hc' rfl h)).mono (by omega)

theorem surv_of_plus {N : Nat} {a a1 : ACfg} (hp : APlus aw ls a (.next a1)) (h : ASurv aw ls N a1) :
    ASurv aw ls (N + 1) a := by
  obtain ⟨c', hc'⟩ := astep_next_of_star hp
  have hp' : AStar aw ls (.next c') (.next a1) := by
    have : AStar aw ls (astep aw ls a) (.next a1) := hp
    rw [hc'] at this; exact this
  exact surv_step hc' (surv_of_star hp' c' a1 rfl rfl h)

theorem idxOf_decomp {l pre rest : List Nat} {k : Nat} (hnd : l.Nodup) (h : l = pre ++ k :: rest) :
    l.idxOf k = pre.length := by
  subst h
  have hk : k ∉ pre := by
    intro hm
    exact (List.nodup_append.1 hnd).2.2 k hm k (by simp) rfl
  rw [List.idxOf_append, if_neg hk, List.idxOf_cons_self]
  simp

/-- **Divergence is preserved by the rendering**: from related configurations, if the graph run
never finishes then the assembly run does not finish within any number of steps.  (Each graph
step is matched by at least one assembly step, except for fall-throughs into the chunk laid out
next, which strictly advance in the duplicate-free order.) -/
theorem asm_survives (hnd : order.Nodup)
    (hstep : ∀ g a, RA o patches name G isGlobal ls order g a →
      ∃ ra, MatchA o patches name G isGlobal ls order (gstep w G g) ra ∧
        (APlus aw ls a ra ∨ (ra = .next a ∧ ∃ g', gstep w G g = .next g' ∧ Succ order g.k g'.k))) :
    ∀ (N : Nat) (g : GCfg) (a : ACfg), RA o patches name G isGlobal ls order g a → GDiv w G g →
      ASurv aw ls N a := by
  intro N
  induction N with
  | zero =>
    intro g a _ _ n hn
    have : n = 0 := by omega
    subst this
    exact ⟨a, rfl⟩
  | succ N ih =>
    have inner : ∀ (μ : Nat) (g : GCfg) (a : ACfg), order.length - order.idxOf g.k ≤ μ →
        RA o patches name G isGlobal ls order g a → GDiv w G g → ASurv aw ls (N + 1) a := by
      intro μ
      induction μ with
      | zero =>
        intro g a hμ hR hd
        obtain ⟨g1, hg1, hd1⟩ := gdiv_step hd
        obtain ⟨ra, hm, hx⟩ := hstep g a hR
        rw [hg1] at hm
        cases ra with
        | fin _ _ => simp [MatchA] at hm
        | next a1 =>
          rcases hx with hp | ⟨_, g', hg', pre, rest', hs⟩
          · exact surv_of_plus hp (ih g1 a1 hm hd1)
          · exfalso
            have := idxOf_decomp hnd hs
            have hl : order.length = pre.length + (rest'.length + 2) := by rw [hs]; simp
            omega
      | succ μ ihμ =>
        intro g a hμ hR hd
        obtain ⟨g1, hg1, hd1⟩ := gdiv_step hd
        obtain ⟨ra, hm, hx⟩ := hstep g a hR
        rw [hg1] at hm
        cases ra with
        | fin _ _ => simp [MatchA] at hm
        | next a1 =>
          rcases hx with hp | ⟨ha, g', hg', pre, rest', hs⟩
          · exact surv_of_plus hp (ih g1 a1 hm hd1)
          · injection ha with ha
            subst ha
            rw [hg1] at hg'
            injection hg' with hg'
            subst hg'
            have h1 := idxOf_decomp hnd hs
            have h2 : order.idxOf g1.k = (pre ++ [g.k]).length :=
              idxOf_decomp (rest := rest') hnd (by rw [hs]; simp)
            have hl : order.length = pre.length + (rest'.length + 2) := by rw [hs]; simp
            simp only [List.length_append, List.length_singleton] at h2
            exact ihμ g1 a1 (by omega) hm hd1
    intro g a hR hd
    exact inner _ g a (Nat.le_refl _) hR hd

end div

/-- **Divergence is preserved end to end**: if the source run never finishes, the assembly run
from the first line never finishes either. -/
theorem end_to_end_diverges (o : Opts) (patches : List ((Nat × Nat) × String)) (tl : List String)
    (s : Script) (ls : List Line)
    (hs : ScopeIdsDistinct s.body) (hd : OneDefaultL s.body) (hw : WellScoped ⟨s.body, [], []⟩)
    (hp : PreamblesPlain s.body) (he : emitScript o patches tl s = .ok ls) :
    ∀ chunks, scriptChunks s.body = .ok chunks →
      ∀ (w : SWorld) (aw : AWorld), Compat o patches s.name chunks w aw →
        (∀ n, ∃ s', siter w n ⟨s.body, [], []⟩ = .next s') →
        ∀ (regs : Spec.Regs) (sw : String) (m : Nat), ∃ a', aiter aw ls m ⟨0, [], regs, sw⟩ = .next a' := by
  intro chunks hc w aw C hdiv regs sw m
  rw [C05.emitScript_eq, hc] at he
  simp only at he
  obtain ⟨hnd, h0, hcl, hpre, hsw⟩ := table_facts o s.body chunks hp hc
  obtain ⟨order, ho, _, hsim⟩ :=
    render_sim o patches s.name chunks (s.scope == .GLOBAL) tl ls hnd h0 hcl hpre he
  obtain ⟨hentry, hstep, _⟩ := hsim (hsw order ho) w aw C
  have hgd : GDiv w chunks ⟨0, 0, []⟩ := ((C01b.lowering_correct s.body chunks hs hd hw hc w).2.1).1 hdiv
  obtain ⟨a0, hst, hR⟩ := hentry regs sw
  have hond : order.Nodup := (C05.chunkOrder_perm o chunks order h0 ho).1.nodup_iff.2 hnd
  have h1 := asm_survives (aw := aw) hond hstep m ⟨0, 0, []⟩ a0 hR hgd
  exact surv_of_star hst _ a0 rfl rfl h1 m (Nat.le_refl _)

/-- The converse for arbitrary source runs: a finished assembly run from the first line comes
from a finished source run with the corresponding outcome and history. -/
def end_to_end_converse_full : Prop :=
  ∀ (o : Opts) (patches : List ((Nat × Nat) × String)) (tl : List String) (s : Script) (ls : List Line),
    ScopeIdsDistinct s.body → OneDefaultL s.body → WellScoped ⟨s.body, [], []⟩ →
    PreamblesPlain s.body → emitScript o patches tl s = .ok ls →
    ∀ chunks, scriptChunks s.body = .ok chunks →
      ∀ (w : SWorld) (aw : AWorld), Compat o patches s.name chunks w aw →
        ∀ (regs : Spec.Regs) (sw : String) (m : Nat) (oc' : AOutcome) (ah : AHist),
          aiter aw ls m ⟨0, [], regs, sw⟩ = .fin oc' ah →
          ∃ n oc h, siter w n ⟨s.body, [], []⟩ = .fin oc h ∧ ORel patches oc oc' ∧ ah = rh patches h

/-- **The converse holds** (so finished runs correspond in both directions, and a run diverges on
one side iff it diverges on the other). -/
theorem end_to_end_converse : end_to_end_converse_full := by
  intro o patches tl s ls hs hd hw hp he chunks hc w aw C regs sw m oc' ah hm
  by_cases hfin : ∃ n oc h, siter w n ⟨s.body, [], []⟩ = .fin oc h
  · obtain ⟨n, oc, h, hn⟩ := hfin
    obtain ⟨chunks', hc', huniq⟩ := end_to_end_unique o patches tl s ls hs hd hw hp he
    rw [hc] at hc'
    injection hc' with hc'
    subst hc'
    obtain ⟨h1, h2⟩ := huniq w aw C oc h ⟨n, hn⟩ regs sw m oc' ah hm
    exact ⟨n, oc, h, hn, h1, h2⟩
  · exfalso
    have hdiv : ∀ n, ∃ s', siter w n ⟨s.body, [], []⟩ = .next s' := by
      intro n
      cases hsn : siter w n ⟨s.body, [], []⟩ with
      | next s' => exact ⟨s', rfl⟩
      | fin oc h => exact absurd ⟨n, oc, h, hsn⟩ hfin
    obtain ⟨a', ha'⟩ := end_to_end_diverges o patches tl s ls hs hd hw hp he chunks hc w aw C hdiv regs sw m
    rw [hm] at ha'
    cases ha'

/-- **End-to-end correctness, packaged**: for every pair of compatible worlds, finished runs of
the source machine and of the assembly machine correspond in both directions (outcome up to
`ORel`, history up to rendering), and one diverges iff the other does.  (`ORel` is not a function
on `jump` outcomes — the patched arguments depend on the command, not only on its arguments — so
the finished-run part is two implications rather than one `↔`.) -/
theorem end_to_end_iff (o : Opts) (patches : List ((Nat × Nat) × String)) (tl : List String)
    (s : Script) (ls : List Line)
    (hs : ScopeIdsDistinct s.body) (hd : OneDefaultL s.body) (hw : WellScoped ⟨s.body, [], []⟩)
    (hp : PreamblesPlain s.body) (he : emitScript o patches tl s = .ok ls) :
    ∃ chunks, scriptChunks s.body = .ok chunks ∧
      ∀ (w : SWorld) (aw : AWorld), Compat o patches s.name chunks w aw →
        ∀ (regs : Spec.Regs) (sw : String),
          (∀ oc h, (∃ n, siter w n ⟨s.body, [], []⟩ = .fin oc h) →
            ∃ m oc', aiter aw ls m ⟨0, [], regs, sw⟩ = .fin oc' (rh patches h) ∧ ORel patches oc oc') ∧
          (∀ m oc' ah, aiter aw ls m ⟨0, [], regs, sw⟩ = .fin oc' ah →
            ∃ n oc h, siter w n ⟨s.body, [], []⟩ = .fin oc h ∧ ORel patches oc oc' ∧ ah = rh patches h) ∧
          ((∀ m, ∃ a', aiter aw ls m ⟨0, [], regs, sw⟩ = .next a') ↔
            (∀ n, ∃ s', siter w n ⟨s.body, [], []⟩ = .next s')) := by
  obtain ⟨chunks, hc, hall⟩ := end_to_end o patches tl s ls hs hd hw hp he
  refine ⟨chunks, hc, ?_⟩
  intro w aw C regs sw
  refine ⟨fun oc h hfin => hall w aw C oc h hfin regs sw,
    fun m oc' ah hm => end_to_end_converse o patches tl s ls hs hd hw hp he chunks hc w aw C regs sw m oc' ah hm,
    ?_, ?_⟩
  · intro hdiv n
    cases hsn : siter w n ⟨s.body, [], []⟩ with
    | next s' => exact ⟨s', rfl⟩
    | fin oc h =>
      exfalso
      obtain ⟨m1, oc1, hm1, _⟩ := hall w aw C oc h ⟨n, hsn⟩ regs sw
      obtain ⟨a', ha'⟩ := hdiv m1
      rw [hm1] at ha'
      cases ha'
  · intro hdiv m
    exact end_to_end_diverges o patches tl s ls hs hd hw hp he chunks hc w aw C hdiv regs sw m

/-! ### with `Compat` discharged: the world induced by an assembly world -/

/-- every condition leaf of the script is well formed (what the parser builds; `C02`) -/
def LeavesWellFormed (body : List Stmt) : Prop := LeavesL Spec.WellFormedLeaf body

/-- For the graph world *induced* by an arbitrary assembly world through the documented meaning
of leaves (`Spec.leafHolds`), `Compat` holds, so it disappears from the statement: a finished
source run in the induced world is matched by the assembly run in `aw`. -/
theorem end_to_end_induced (o : Opts) (patches : List ((Nat × Nat) × String)) (tl : List String)
    (s : Script) (ls : List Line)
    (hs : ScopeIdsDistinct s.body) (hd : OneDefaultL s.body) (hw : WellScoped ⟨s.body, [], []⟩)
    (hp : PreamblesPlain s.body) (hl : LeavesWellFormed s.body)
    (he : emitScript o patches tl s = .ok ls) (aw : AWorld) :
    ∀ (oc : Outcome) (h : Hist), (∃ n, siter (inducedWorld patches aw) n ⟨s.body, [], []⟩ = .fin oc h) →
      ∀ (regs : Spec.Regs) (sw : String),
        (∃ m oc', aiter aw ls m ⟨0, [], regs, sw⟩ = .fin oc' (rh patches h) ∧ ORel patches oc oc') ∧
        ∀ (m : Nat) (oc' : AOutcome) (ah : AHist),
          aiter aw ls m ⟨0, [], regs, sw⟩ = .fin oc' ah → ORel patches oc oc' ∧ ah = rh patches h := by
  obtain ⟨chunks, hc, hall⟩ := end_to_end o patches tl s ls hs hd hw hp he
  have C : Compat o patches s.name chunks (inducedWorld patches aw) aw :=
    compat_induced o patches s.name chunks aw (scriptChunks_leaves s.body chunks hl hc)
  intro oc h hfin regs sw
  obtain ⟨m1, oc1, hm1, hrel⟩ := hall _ aw C oc h hfin regs sw
  refine ⟨⟨m1, oc1, hm1, hrel⟩, ?_⟩
  intro m oc' ah hm
  obtain ⟨e1, e2⟩ := aiter_fin_unique aw ls hm hm1
  subst e1; subst e2
  exact ⟨hrel, rfl⟩

/-! ### non-vacuity -/

/-- `e2eBody` (TableFacts.lean: a command, an `if` on a flag, a final `switch` without default
whose chunk has neither default nor return chunk) as a script -/
def e2eScript : Script := { name := "S", body := e2eBody }

theorem e2e_scopes : ScopeIdsDistinct e2eBody := by unfold ScopeIdsDistinct; decide
theorem e2e_oneDefault : OneDefaultL e2eBody := by
  unfold e2eBody
  repeat' (first | decide | constructor)
theorem e2e_wellScoped : WellScoped ⟨e2eBody, [], []⟩ := by
  unfold WellScoped e2eBody
  simp [scopedStmts, scopedStmt, scopedElifs, scopedCases, scopedK, brkScopes, contScopes, cmdS]
theorem e2e_leaves : LeavesWellFormed e2eBody := by
  unfold LeavesWellFormed e2eBody
  simp [LeavesL, LeavesS, LeavesE, LeavesC, CondLeaves, leavesOf, flagF, cmdS, Spec.WellFormedLeaf]
  decide

theorem e2e_order : C05.chunkOrder { optimize := true } e2eTable = .ok [0, 3, 1, 4, 2, 5, 6] := by
  simp [C05.chunkOrder, optimizeChunkOrder, e2eTable, optimizeLoop, optimizeLoop.pick, scanUnvisited,
    findChunk, tailId]

/-- the rendered lines in the optimised order (spelled out: `optimizeLoop` does not reduce by `rfl`) -/
def e2eLinesOpt : List Line :=
  match renderBodies { optimize := true } [] "S" e2eTable (e2eTable.map fun c => chunkLabel "S" c.id) []
      [0, 3, 1, 4, 2, 5, 6] with
  | .ok (bodies, jumps) =>
    bodies.flatMap fun (id, ls) =>
      (if id == 0 || jumps.contains id then [Line.labelDef (chunkLabel "S" id) (id == 0 && true)] else []) ++ ls
  | .error _ => []

def e2eLines (b : Bool) : List Line :=
  if b then e2eLinesOpt
  else
    match renderChunks { optimize := false } [] e2eTable "S" true [] with
    | .ok l => l
    | .error _ => []

/-- the emitter accepts `e2eScript` with either chunk order -/
theorem e2e_emit (b : Bool) : emitScript { optimize := b } [] [] e2eScript = .ok (e2eLines b) := by
  rw [C05.emitScript_eq]
  simp only [e2eScript, e2eTable_ok]
  cases b
  · rfl
  · rw [C05.renderChunks_eq, e2e_order]
    rfl

/-- all hypotheses of `end_to_end_induced` (hence of `end_to_end`) hold for `e2eScript`, for both
chunk orders and every assembly world -/
example (b : Bool) (aw : AWorld) :=
  end_to_end_induced { optimize := b } [] [] e2eScript (e2eLines b) e2e_scopes e2e_oneDefault
    e2e_wellScoped e2e_plain e2e_leaves (e2e_emit b) aw

/-- a concrete run: flag `F` unset, `VAR_X` equal to nothing — the `if` is skipped, the switch
matches no case and the script returns after `lock`; the assembly does the same (in particular it
does not run off behind the `switch` block). -/
example : (match siter (inducedWorld [] noMatch) 10 ⟨e2eBody, [], []⟩ with
      | .fin o h => some (o, h.map (·.name)) | .next _ => none) = some (.ret, ["lock"]) ∧
    (match aiter noMatch (e2eLines true) 20 ⟨0, [], {}, ""⟩ with
      | .fin o h => some (o, h) | .next _ => none) = some (.ret, [.command "lock" []]) := by
  constructor <;> decide

#print axioms end_to_end
#print axioms end_to_end_unique
#print axioms end_to_end_induced
#print axioms end_to_end_diverges
#print axioms end_to_end_converse
#print axioms end_to_end_iff

end Pory.C01c
