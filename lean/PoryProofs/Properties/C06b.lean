import PoryProofs.HoistLemmas
import PoryProofs.EmitLemmas
import PoryProofs.ParserWp
import PoryProofs.LexTok
import PoryProofs.Properties.C06
import PoryProofs.Properties.C09
import PoryProofs.Properties.C20
/-
C06b — hoisting of inline texts and `moves()`: the movement twin, "different content never shares a
label", the patched argument slot, and the single emission of every hoisted text.
(First half: PoryProofs/Properties/C06.lean; helper lemmas: PoryProofs/HoistLemmas.lean.)

1. Movement twins of all C06 theorems for `addMovementStep` / `getMovementsKey`:
   `movement_patch_appended`, `movement_label_assigned`, `movement_lookup_stable(_fold)`,
   `movement_same_key_same_label`, `movement_defined_once`, `new_movement_recorded`,
   `movement_numbering`; `movement_key_injective` (hypothesis `NoColon` on BOTH step lists: no step
   literal contains ':'; needed — `movement_key_collision`; guaranteed by the lexer — `ident_no_colon`:
   an IDENT token's literal consists of letters / digits, and ':' is neither);
   hence `different_steps_different_labels`.
2. Freshness from the counters: `TextInv` / `MoveInv` (every label in the table is
   `getImplicit…Label owner k` with `k < lookupD counts owner`; labels pairwise distinct; the hoisted
   records carry exactly the table's labels in order of creation and exactly the key's content),
   true initially (`textInv_init`, `hoistInv_initial`), preserved by `addTextStep` /
   `addMovementStep` / `addImplicitData` (`textInv_step`, `moveInv_step`, `hoistInv_addImplicitData`).
   `Hoist.text_label_inj` / `movement_label_inj`: generated names determine (owner, counter) with NO
   condition on owner names — the counter is the digits after the LAST '_' — so labels of different
   owners can never collide (no finding here); `text_ne_movement_label`: nor can a text and a
   movement label.  Hence `different_content_different_label`, `different_key_different_label`,
   `hoisted_text_names_nodup`, `assigned_text_defined` (the label that is patched in IS defined, with
   exactly that content and string type, local).
3. Emitter side: `patchedArgs_get` (complete description), `patched_slot`, `unpatched_slot`,
   `other_commands_untouched`, `unpatched_command`; combined with `patch_appended`:
   `hoisted_text_label_rendered`, `hoisted_movement_label_rendered`, `…_pass`.
   Uniqueness hypothesis: no LATER patch for the same `(cmdId, argPos)`.  Command ids are unique
   (`parseCommandStatement` allocates from `nextCmdId`), `argPos = a.args.length` separates
   different arguments, but two inline items inside ONE argument (`msgbox("a" ascii"b")`) share the
   slot: the later label overwrites the earlier one (`same_slot_last_wins`), whose text is still
   emitted but referenced by nothing.  Same in Go (`argPos: len(command.Args)`, parser.go).
4. `emitProgram_texts`, `hoisted_text_emitted_once`, `text_label_defined_once`: the output ends
   with the text section, each text rendered once as `emitText o t` (C09.emitText_shape), whose label
   definitions are exactly the text names; distinct when `firstDuplicateText p.texts [] = none`
   (C20.firstDuplicateText_none_iff), which `parseProgramM` / `parseTokens` guarantee
   (`parseProgram_texts`, `parseTokens_texts_distinct`).

NOT proved here (would need a frame lemma over the 13 mutually recursive parser functions): that the
final parser state satisfies `HoistInv`, i.e. that no parser function other than `addImplicitData`
writes the hoisting tables / counters / `patches`, and that the `ImpData` collected for a statement
has pairwise distinct slots when every argument holds at most one inline item.  The invariant is
proved for the initial state and for every `addImplicitData`.
-/
namespace Pory.C06b
open Pory Pory.Parser Pory.Emit Pory.Hoist Pory.C06

/-! ## 1. Movement twins of the C06 theorems -/

def mkeyOf (m : ImpMovement) : String := getMovementsKey m.movements

/-- The label that `addMovementStep` patches into the command for `m` in state `s`. -/
def massigned (s : PState) (m : ImpMovement) : String :=
  match s.inlineMovementsSet.lookup (mkeyOf m) with
  | some l => l
  | none => getImplicitMovementLabel m.scriptName (lookupD s.inlineMovementCounts m.scriptName)

theorem movement_patch_appended (s : PState) (m : ImpMovement) :
    (addMovementStep s m).patches = s.patches ++ [((m.cmdId, m.argPos), massigned s m)] := by
  unfold addMovementStep massigned mkeyOf
  cases h : s.inlineMovementsSet.lookup (getMovementsKey m.movements) <;> simp [h]

theorem movement_label_assigned (s : PState) (m : ImpMovement) :
    (addMovementStep s m).inlineMovementsSet.lookup (mkeyOf m) = some (massigned s m) := by
  unfold addMovementStep massigned mkeyOf
  cases h : s.inlineMovementsSet.lookup (getMovementsKey m.movements) <;> simp [h]

theorem movement_lookup_stable (s : PState) (m : ImpMovement) (k l : String)
    (h : s.inlineMovementsSet.lookup k = some l) :
    (addMovementStep s m).inlineMovementsSet.lookup k = some l := by
  unfold addMovementStep
  cases h2 : s.inlineMovementsSet.lookup (getMovementsKey m.movements) with
  | some l2 => simpa [h2] using h
  | none =>
    simp only [h2]
    have hne : k ≠ getMovementsKey m.movements := by
      intro he; rw [he] at h; rw [h] at h2; cases h2
    have hb : (k == getMovementsKey m.movements) = false := by simpa using hne
    simp [List.lookup, hb, h]

theorem movement_lookup_stable_fold (ms : List ImpMovement) (s : PState) (k l : String)
    (h : s.inlineMovementsSet.lookup k = some l) :
    (ms.foldl addMovementStep s).inlineMovementsSet.lookup k = some l := by
  induction ms generalizing s with
  | nil => exact h
  | cons m r ih => exact ih _ (movement_lookup_stable s m k l h)

/-- Identical step sequences get the same label, however far apart (also across scripts). -/
theorem movement_same_key_same_label (s : PState) (m1 m2 : ImpMovement) (mid : List ImpMovement)
    (hk : mkeyOf m1 = mkeyOf m2) :
    massigned (mid.foldl addMovementStep (addMovementStep s m1)) m2 = massigned s m1 := by
  have h1 := movement_label_assigned s m1
  have h2 := movement_lookup_stable_fold mid _ _ _ h1
  unfold massigned at *
  rw [← hk, h2]

/-- A key that is already in the table creates no new movement record. -/
theorem movement_defined_once (s : PState) (m : ImpMovement) (l : String)
    (h : s.inlineMovementsSet.lookup (mkeyOf m) = some l) :
    (addMovementStep s m).inlineMovements = s.inlineMovements := by
  unfold addMovementStep; unfold mkeyOf at h; simp [h]

/-- A new key creates exactly one record: that label, exactly those steps, local, located at the
command token. -/
theorem new_movement_recorded (s : PState) (m : ImpMovement)
    (h : s.inlineMovementsSet.lookup (mkeyOf m) = none) :
    (addMovementStep s m).inlineMovements = s.inlineMovements ++
      [{ tok := m.cmdTok, name := massigned s m, cmds := m.movements, scope := .LOCAL }] := by
  unfold addMovementStep massigned; unfold mkeyOf at h ⊢; simp [h]

/-- Numbering: the n-th new movement of a script is `<script>_Movement_<n>`; only that script's
counter moves. -/
theorem movement_numbering (s : PState) (m : ImpMovement)
    (h : s.inlineMovementsSet.lookup (mkeyOf m) = none) :
    massigned s m = getImplicitMovementLabel m.scriptName (lookupD s.inlineMovementCounts m.scriptName) ∧
    lookupD (addMovementStep s m).inlineMovementCounts m.scriptName =
      lookupD s.inlineMovementCounts m.scriptName + 1 ∧
    ∀ other, other ≠ m.scriptName →
      lookupD (addMovementStep s m).inlineMovementCounts other = lookupD s.inlineMovementCounts other := by
  unfold mkeyOf at h
  refine ⟨by simp [massigned, mkeyOf, h], ?_, ?_⟩
  · simp only [addMovementStep, h]; exact lookupD_setCount_same _ _ _
  · intro other hne
    simp only [addMovementStep, h]; exact lookupD_setCount_other _ _ _ _ hne

/-- Texts and movements do not interfere: each pass leaves the other's tables alone. -/
theorem addTextStep_movement_fields (s : PState) (t : ImpText) :
    (addTextStep s t).inlineMovements = s.inlineMovements ∧
    (addTextStep s t).inlineMovementsSet = s.inlineMovementsSet ∧
    (addTextStep s t).inlineMovementCounts = s.inlineMovementCounts := by
  unfold addTextStep
  cases h : s.inlineTextsSet.lookup (t.text.lit, t.stringType) <;> simp [h]

theorem addMovementStep_text_fields (s : PState) (m : ImpMovement) :
    (addMovementStep s m).inlineTexts = s.inlineTexts ∧
    (addMovementStep s m).inlineTextsSet = s.inlineTextsSet ∧
    (addMovementStep s m).inlineTextCounts = s.inlineTextCounts := by
  unfold addMovementStep
  cases h : s.inlineMovementsSet.lookup (getMovementsKey m.movements) <;> simp [h]

/-! ### the movement key is injective on colon-free steps -/

/-- No step literal contains `':'`. -/
def NoColon (ms : List Tok) : Prop := ∀ m ∈ ms, ':' ∉ m.lit.toList

theorem movementsKey_toList (ms : List Tok) :
    (getMovementsKey ms).toList = (ms.map (·.lit.toList)).flatMap (fun w => w ++ [':']) := by
  simp [getMovementsKey, String.toList_join, List.flatMap_map, String.toList_append]

/-- **The key determines the step names** when no step literal contains the separator `':'`
(needed for *both* lists, see `movement_key_collision`). -/
theorem movement_key_injective (a b : List Tok) (ha : NoColon a) (hb : NoColon b)
    (h : getMovementsKey a = getMovementsKey b) : a.map (·.lit) = b.map (·.lit) := by
  have h2 := congrArg String.toList h
  rw [movementsKey_toList, movementsKey_toList] at h2
  have h3 := flatMap_sep_inj ':' _ _ (by
      intro w hw; obtain ⟨m, hm, rfl⟩ := List.mem_map.1 hw; exact ha m hm) (by
      intro w hw; obtain ⟨m, hm, rfl⟩ := List.mem_map.1 hw; exact hb m hm) h2
  have h4 := congrArg (List.map String.ofList) h3
  simpa [List.map_map, Function.comp_def] using h4

/-- Without the hypothesis the key is not injective: a step literally named `a:b` collides with
the two steps `a`, `b`. (The lexer cannot produce such a token, see `ident_no_colon`.) -/
theorem movement_key_collision :
    getMovementsKey [{ lit := "a:b" }] = getMovementsKey [{ lit := "a" }, { lit := "b" }] := by decide

/-! ### the lexer never puts `':'` into an identifier -/

theorem isLetter_colon : Lexer.isLetter ':' = false := by
  unfold Lexer.isLetter; rw [LexPos.inRanges_list]; decide +kernel
theorem isDigit_colon : Lexer.isDigit ':' = false := by
  unfold Lexer.isDigit; rw [LexPos.inRanges_list]; decide +kernel

theorem readIdentRest_chars (inp : List Char) (p : Lexer.Pos) :
    ∀ c ∈ (Lexer.readIdentRest inp p).1, (Lexer.isLetter c || Lexer.isDigit c) = true := by
  induction inp generalizing p with
  | nil => simp [Lexer.readIdentRest]
  | cons d r ih =>
    unfold Lexer.readIdentRest
    by_cases hd : (Lexer.isLetter d || Lexer.isDigit d) = true
    · simp only [hd, if_true]
      intro c hc
      rcases List.mem_cons.1 hc with rfl | hc
      · exact hd
      · exact ih _ c hc
    · simp [hd]

/-- Every `IDENT` token produced by the identifier branch of the lexer (`LexPos.identTok`, the only
branch of `nextToken` that produces `IDENT`s) has a colon-free literal: its characters are the
letter `c` and then letters / digits (`LexPos.readIdentRest_spec`), and `':'` is neither. -/
theorem ident_no_colon (s : Lexer.LS) (c : Char) (hc : Lexer.isLetter c = true) :
    ∀ t ∈ (LexPos.identTok s c).1, t.type = .IDENT → ':' ∉ t.lit.toList := by
  have key : ':' ∉ c :: (Lexer.readIdentRest (Lexer.readChar s).inp (Lexer.readChar s).p).1 := by
    intro hm
    rcases List.mem_cons.1 hm with e | hm
    · rw [← e, isLetter_colon] at hc; exact absurd hc (by decide)
    · have := readIdentRest_chars _ _ _ hm
      rw [isLetter_colon, isDigit_colon] at this
      exact absurd this (by decide)
  intro t ht hty
  simp only [LexPos.identTok] at ht
  split at ht
  · simp only [List.mem_cons, List.not_mem_nil, or_false] at ht
    rcases ht with rfl | rfl
    · simp at hty
    · rw [(LexPos.readStringToken_start _).1] at hty; exact absurd hty (by decide)
  · simp only [List.mem_singleton] at ht
    subst ht
    simpa using key


/-! ## 2. Freshness from the counters; different content never shares a label -/

/-- Invariant of the text table. `bounded` is the freshness invariant: every label in the table is
`getImplicitTextLabel owner k` with `k` below the owner's counter. -/
structure TextInv (s : PState) : Prop where
  bounded : ∀ e ∈ s.inlineTextsSet, ∃ o n, e.2 = getImplicitTextLabel o n ∧ n < lookupD s.inlineTextCounts o
  inj : ∀ e1 ∈ s.inlineTextsSet, ∀ e2 ∈ s.inlineTextsSet, e1.2 = e2.2 → e1.1 = e2.1
  nodup : (s.inlineTextsSet.map (·.2)).Nodup
  names : s.inlineTexts.map (·.name) = (s.inlineTextsSet.map (·.2)).reverse
  recorded : ∀ e ∈ s.inlineTextsSet, ∃ x ∈ s.inlineTexts,
    x.name = e.2 ∧ (x.value, x.stringType) = e.1 ∧ x.isGlobal = false

/-- True initially (the parser starts with empty tables). -/
theorem textInv_init (s : PState) (h1 : s.inlineTextsSet = []) (h2 : s.inlineTexts = []) : TextInv s := by
  constructor <;> simp [h1, h2]

theorem addTextStep_some (s : PState) (t : ImpText) (l : String)
    (h : s.inlineTextsSet.lookup (keyOf t) = some l) :
    addTextStep s t = { s with patches := s.patches ++ [((t.cmdId, t.argPos), l)] } := by
  unfold keyOf at h; unfold addTextStep; simp [h]

theorem addTextStep_none (s : PState) (t : ImpText) (h : s.inlineTextsSet.lookup (keyOf t) = none) :
    addTextStep s t =
      { s with patches := s.patches ++ [((t.cmdId, t.argPos), assigned s t)],
               inlineTextCounts := setCount s.inlineTextCounts t.scriptName
                 (lookupD s.inlineTextCounts t.scriptName + 1),
               inlineTextsSet := (keyOf t, assigned s t) :: s.inlineTextsSet,
               inlineTexts := s.inlineTexts ++
                 [{ name := assigned s t, value := t.text.lit, tok := t.text,
                    stringType := t.stringType, isGlobal := false }] } := by
  unfold keyOf at h; unfold addTextStep assigned; simp [h, keyOf]

/-- The fresh label is not in use: freshness derived from the counters. -/
theorem fresh_text_label (s : PState) (hinv : TextInv s) (o : String) :
    ∀ e ∈ s.inlineTextsSet, e.2 ≠ getImplicitTextLabel o (lookupD s.inlineTextCounts o) := by
  intro e he heq
  obtain ⟨o', n', h1, h2⟩ := hinv.bounded e he
  rw [h1] at heq
  obtain ⟨e1, e2⟩ := text_label_inj heq
  subst e1; omega

/-- The invariant is preserved by `addTextStep`. -/
theorem textInv_step (s : PState) (t : ImpText) (hinv : TextInv s) : TextInv (addTextStep s t) := by
  cases h : s.inlineTextsSet.lookup (keyOf t) with
  | some l =>
    rw [addTextStep_some s t l h]
    exact ⟨hinv.bounded, hinv.inj, hinv.nodup, hinv.names, hinv.recorded⟩
  | none =>
    have hlab : assigned s t = getImplicitTextLabel t.scriptName (lookupD s.inlineTextCounts t.scriptName) := by
      simp [assigned, h]
    have hfresh := fresh_text_label s hinv t.scriptName
    rw [← hlab] at hfresh
    rw [addTextStep_none s t h]
    refine ⟨?_, ?_, ?_, ?_, ?_⟩
    · intro e he
      simp only [List.mem_cons] at he
      rcases he with rfl | he
      · exact ⟨t.scriptName, _, hlab, by simp [lookupD_setCount_same]⟩
      · obtain ⟨o, n, h1, h2⟩ := hinv.bounded e he
        refine ⟨o, n, h1, ?_⟩
        by_cases ho : o = t.scriptName
        · subst ho; simp only [lookupD_setCount_same]; omega
        · simp only [lookupD_setCount_other _ _ _ _ ho]; exact h2
    · intro e1 he1 e2 he2 heq
      simp only [List.mem_cons] at he1 he2
      rcases he1 with rfl | he1 <;> rcases he2 with rfl | he2
      · rfl
      · exact absurd heq.symm (hfresh e2 he2)
      · exact absurd heq (hfresh e1 he1)
      · exact hinv.inj e1 he1 e2 he2 heq
    · simp only [List.map_cons, List.nodup_cons]
      refine ⟨?_, hinv.nodup⟩
      intro hm
      obtain ⟨e, he, heq⟩ := List.mem_map.1 hm
      exact hfresh e he heq
    · simp [hinv.names]
    · intro e he
      simp only [List.mem_cons] at he
      rcases he with rfl | he
      · exact ⟨_, List.mem_append_right _ (List.mem_singleton.2 rfl), rfl, rfl, rfl⟩
      · obtain ⟨x, hx, h1⟩ := hinv.recorded e he
        exact ⟨x, List.mem_append_left _ hx, h1⟩

theorem textInv_fold (ts : List ImpText) (s : PState) (hinv : TextInv s) :
    TextInv (ts.foldl addTextStep s) := by
  induction ts generalizing s with
  | nil => exact hinv
  | cons t r ih => exact ih _ (textInv_step s t hinv)

/-- In a reachable table a label belongs to one key only. -/
theorem label_determines_key (s : PState) (hinv : TextInv s) (k1 k2 : String × String) (l : String)
    (h1 : s.inlineTextsSet.lookup k1 = some l) (h2 : s.inlineTextsSet.lookup k2 = some l) : k1 = k2 :=
  hinv.inj _ (mem_of_lookup _ _ _ h1) _ (mem_of_lookup _ _ _ h2) rfl

/-- **Different content never shares a label**: two texts whose `(content, string type)` keys
differ receive different labels, however many texts are processed in between. -/
theorem different_content_different_label (s : PState) (hinv : TextInv s) (t1 t2 : ImpText)
    (mid : List ImpText) (hk : keyOf t1 ≠ keyOf t2) :
    assigned (mid.foldl addTextStep (addTextStep s t1)) t2 ≠ assigned s t1 := by
  have hinv2 := textInv_fold mid _ (textInv_step s t1 hinv)
  have h1 := lookup_stable_fold mid _ _ _ (label_assigned s t1)
  generalize mid.foldl addTextStep (addTextStep s t1) = s2 at hinv2 h1
  generalize assigned s t1 = l1 at h1
  intro heq
  unfold assigned at heq
  cases h2 : s2.inlineTextsSet.lookup (keyOf t2) with
  | some l2 =>
    simp only [h2] at heq
    subst heq
    exact hk (label_determines_key s2 hinv2 _ _ _ h1 h2)
  | none =>
    simp only [h2] at heq
    exact fresh_text_label s2 hinv2 t2.scriptName _ (mem_of_lookup _ _ _ h1) heq.symm

/-- The names of the hoisted text records are pairwise distinct. -/
theorem hoisted_text_names_nodup (s : PState) (hinv : TextInv s) : (s.inlineTexts.map (·.name)).Nodup := by
  rw [hinv.names]; exact hinv.nodup.perm (List.reverse_perm _).symm

/-- **The assigned label is defined with exactly that content**: after the step there is a hoisted
text record named by the assigned label whose value and string type are the inline text's. -/
theorem assigned_text_defined (s : PState) (hinv : TextInv s) (t : ImpText) :
    ∃ x ∈ (addTextStep s t).inlineTexts, x.name = assigned s t ∧ x.value = t.text.lit ∧
      x.stringType = t.stringType ∧ x.isGlobal = false := by
  obtain ⟨x, hx, h1, h2, h3⟩ := (textInv_step s t hinv).recorded _ (mem_of_lookup _ _ _ (label_assigned s t))
  simp only [keyOf, Prod.mk.injEq] at h2
  exact ⟨x, hx, h1, h2.1, h2.2, h3⟩


/-! ### the same for movements -/

/-- Invariant of the movement table (`bounded` = freshness from the counters). -/
structure MoveInv (s : PState) : Prop where
  bounded : ∀ e ∈ s.inlineMovementsSet, ∃ o n, e.2 = getImplicitMovementLabel o n ∧
    n < lookupD s.inlineMovementCounts o
  inj : ∀ e1 ∈ s.inlineMovementsSet, ∀ e2 ∈ s.inlineMovementsSet, e1.2 = e2.2 → e1.1 = e2.1
  nodup : (s.inlineMovementsSet.map (·.2)).Nodup
  names : s.inlineMovements.map (·.name) = (s.inlineMovementsSet.map (·.2)).reverse
  recorded : ∀ e ∈ s.inlineMovementsSet, ∃ x ∈ s.inlineMovements,
    x.name = e.2 ∧ getMovementsKey x.cmds = e.1 ∧ x.scope = .LOCAL

theorem moveInv_init (s : PState) (h1 : s.inlineMovementsSet = []) (h2 : s.inlineMovements = []) :
    MoveInv s := by
  constructor <;> simp [h1, h2]

theorem addMovementStep_some (s : PState) (m : ImpMovement) (l : String)
    (h : s.inlineMovementsSet.lookup (mkeyOf m) = some l) :
    addMovementStep s m = { s with patches := s.patches ++ [((m.cmdId, m.argPos), l)] } := by
  unfold mkeyOf at h; unfold addMovementStep; simp [h]

theorem addMovementStep_none (s : PState) (m : ImpMovement)
    (h : s.inlineMovementsSet.lookup (mkeyOf m) = none) :
    addMovementStep s m =
      { s with patches := s.patches ++ [((m.cmdId, m.argPos), massigned s m)],
               inlineMovementCounts := setCount s.inlineMovementCounts m.scriptName
                 (lookupD s.inlineMovementCounts m.scriptName + 1),
               inlineMovementsSet := (mkeyOf m, massigned s m) :: s.inlineMovementsSet,
               inlineMovements := s.inlineMovements ++
                 [{ tok := m.cmdTok, name := massigned s m, cmds := m.movements, scope := .LOCAL }] } := by
  unfold mkeyOf at h; unfold addMovementStep massigned; simp [h, mkeyOf]

theorem fresh_movement_label (s : PState) (hinv : MoveInv s) (o : String) :
    ∀ e ∈ s.inlineMovementsSet, e.2 ≠ getImplicitMovementLabel o (lookupD s.inlineMovementCounts o) := by
  intro e he heq
  obtain ⟨o', n', h1, h2⟩ := hinv.bounded e he
  rw [h1] at heq
  obtain ⟨e1, e2⟩ := movement_label_inj heq
  subst e1; omega

theorem moveInv_step (s : PState) (m : ImpMovement) (hinv : MoveInv s) : MoveInv (addMovementStep s m) := by
  cases h : s.inlineMovementsSet.lookup (mkeyOf m) with
  | some l =>
    rw [addMovementStep_some s m l h]
    exact ⟨hinv.bounded, hinv.inj, hinv.nodup, hinv.names, hinv.recorded⟩
  | none =>
    have hlab : massigned s m =
        getImplicitMovementLabel m.scriptName (lookupD s.inlineMovementCounts m.scriptName) := by
      simp [massigned, h]
    have hfresh := fresh_movement_label s hinv m.scriptName
    rw [← hlab] at hfresh
    rw [addMovementStep_none s m h]
    refine ⟨?_, ?_, ?_, ?_, ?_⟩
    · intro e he
      simp only [List.mem_cons] at he
      rcases he with rfl | he
      · exact ⟨m.scriptName, _, hlab, by simp [lookupD_setCount_same]⟩
      · obtain ⟨o, n, h1, h2⟩ := hinv.bounded e he
        refine ⟨o, n, h1, ?_⟩
        by_cases ho : o = m.scriptName
        · subst ho; simp only [lookupD_setCount_same]; omega
        · simp only [lookupD_setCount_other _ _ _ _ ho]; exact h2
    · intro e1 he1 e2 he2 heq
      simp only [List.mem_cons] at he1 he2
      rcases he1 with rfl | he1 <;> rcases he2 with rfl | he2
      · rfl
      · exact absurd heq.symm (hfresh e2 he2)
      · exact absurd heq (hfresh e1 he1)
      · exact hinv.inj e1 he1 e2 he2 heq
    · simp only [List.map_cons, List.nodup_cons]
      refine ⟨?_, hinv.nodup⟩
      intro hm
      obtain ⟨e, he, heq⟩ := List.mem_map.1 hm
      exact hfresh e he heq
    · simp [hinv.names]
    · intro e he
      simp only [List.mem_cons] at he
      rcases he with rfl | he
      · exact ⟨_, List.mem_append_right _ (List.mem_singleton.2 rfl), rfl, rfl, rfl⟩
      · obtain ⟨x, hx, h1⟩ := hinv.recorded e he
        exact ⟨x, List.mem_append_left _ hx, h1⟩

theorem moveInv_fold (ms : List ImpMovement) (s : PState) (hinv : MoveInv s) :
    MoveInv (ms.foldl addMovementStep s) := by
  induction ms generalizing s with
  | nil => exact hinv
  | cons m r ih => exact ih _ (moveInv_step s m hinv)

theorem movement_label_determines_key (s : PState) (hinv : MoveInv s) (k1 k2 l : String)
    (h1 : s.inlineMovementsSet.lookup k1 = some l) (h2 : s.inlineMovementsSet.lookup k2 = some l) :
    k1 = k2 :=
  hinv.inj _ (mem_of_lookup _ _ _ h1) _ (mem_of_lookup _ _ _ h2) rfl

/-- Different movement keys never share a label. -/
theorem different_key_different_label (s : PState) (hinv : MoveInv s) (m1 m2 : ImpMovement)
    (mid : List ImpMovement) (hk : mkeyOf m1 ≠ mkeyOf m2) :
    massigned (mid.foldl addMovementStep (addMovementStep s m1)) m2 ≠ massigned s m1 := by
  have hinv2 := moveInv_fold mid _ (moveInv_step s m1 hinv)
  have h1 := movement_lookup_stable_fold mid _ _ _ (movement_label_assigned s m1)
  generalize mid.foldl addMovementStep (addMovementStep s m1) = s2 at hinv2 h1
  generalize massigned s m1 = l1 at h1
  intro heq
  unfold massigned at heq
  cases h2 : s2.inlineMovementsSet.lookup (mkeyOf m2) with
  | some l2 =>
    simp only [h2] at heq
    subst heq
    exact hk (movement_label_determines_key s2 hinv2 _ _ _ h1 h2)
  | none =>
    simp only [h2] at heq
    exact fresh_movement_label s2 hinv2 m2.scriptName _ (mem_of_lookup _ _ _ h1) heq.symm

/-- **Different step sequences never share a label** (step literals colon-free, which the lexer
guarantees for identifiers: `ident_no_colon`). The converse direction is
`movement_same_key_same_label`: the key only looks at the step *names*. -/
theorem different_steps_different_labels (s : PState) (hinv : MoveInv s) (m1 m2 : ImpMovement)
    (mid : List ImpMovement) (h1 : NoColon m1.movements) (h2 : NoColon m2.movements)
    (hne : m1.movements.map (·.lit) ≠ m2.movements.map (·.lit)) :
    massigned (mid.foldl addMovementStep (addMovementStep s m1)) m2 ≠ massigned s m1 :=
  different_key_different_label s hinv m1 m2 mid
    (fun hk => hne (movement_key_injective _ _ h1 h2 hk))

theorem hoisted_movement_names_nodup (s : PState) (hinv : MoveInv s) :
    (s.inlineMovements.map (·.name)).Nodup := by
  rw [hinv.names]; exact hinv.nodup.perm (List.reverse_perm _).symm

/-- The assigned movement label is defined with steps that have exactly the same names. -/
theorem assigned_movement_defined (s : PState) (hinv : MoveInv s) (m : ImpMovement)
    (hm : NoColon m.movements)
    (hall : ∀ x ∈ (addMovementStep s m).inlineMovements, NoColon x.cmds) :
    ∃ x ∈ (addMovementStep s m).inlineMovements, x.name = massigned s m ∧
      x.cmds.map (·.lit) = m.movements.map (·.lit) ∧ x.scope = .LOCAL := by
  obtain ⟨x, hx, h1, h2, h3⟩ :=
    (moveInv_step s m hinv).recorded _ (mem_of_lookup _ _ _ (movement_label_assigned s m))
  exact ⟨x, hx, h1, movement_key_injective _ _ (hall x hx) hm h2, h3⟩

/-- A hoisted text label is never a hoisted movement label. -/
theorem text_movement_disjoint (s : PState) (ht : TextInv s) (hm : MoveInv s) :
    ∀ e1 ∈ s.inlineTextsSet, ∀ e2 ∈ s.inlineMovementsSet, e1.2 ≠ e2.2 := by
  intro e1 he1 e2 he2 heq
  obtain ⟨o1, n1, h1, _⟩ := ht.bounded e1 he1
  obtain ⟨o2, n2, h2, _⟩ := hm.bounded e2 he2
  rw [h1, h2] at heq
  exact text_ne_movement_label _ _ _ _ heq

/-- Both invariants together, and their preservation by the whole hoisting pass of one top-level
statement (`addImplicitData`, the only place of the parser that writes these tables). -/
def HoistInv (s : PState) : Prop := TextInv s ∧ MoveInv s

theorem textInv_congr {s s' : PState} (h1 : s'.inlineTexts = s.inlineTexts)
    (h2 : s'.inlineTextsSet = s.inlineTextsSet) (h3 : s'.inlineTextCounts = s.inlineTextCounts)
    (h : TextInv s) : TextInv s' := by
  obtain ⟨a, b, c, d, e⟩ := h
  constructor
  · rw [h2, h3]; exact a
  · rw [h2]; exact b
  · rw [h2]; exact c
  · rw [h1, h2]; exact d
  · rw [h1, h2]; exact e

theorem moveInv_congr {s s' : PState} (h1 : s'.inlineMovements = s.inlineMovements)
    (h2 : s'.inlineMovementsSet = s.inlineMovementsSet)
    (h3 : s'.inlineMovementCounts = s.inlineMovementCounts) (h : MoveInv s) : MoveInv s' := by
  obtain ⟨a, b, c, d, e⟩ := h
  constructor
  · rw [h2, h3]; exact a
  · rw [h2]; exact b
  · rw [h2]; exact c
  · rw [h1, h2]; exact d
  · rw [h1, h2]; exact e

theorem hoistInv_addTextStep (s : PState) (t : ImpText) (h : HoistInv s) : HoistInv (addTextStep s t) :=
  ⟨textInv_step s t h.1,
   moveInv_congr (addTextStep_movement_fields s t).1 (addTextStep_movement_fields s t).2.1
     (addTextStep_movement_fields s t).2.2 h.2⟩

theorem hoistInv_addMovementStep (s : PState) (m : ImpMovement) (h : HoistInv s) :
    HoistInv (addMovementStep s m) :=
  ⟨textInv_congr (addMovementStep_text_fields s m).1 (addMovementStep_text_fields s m).2.1
     (addMovementStep_text_fields s m).2.2 h.1, moveInv_step s m h.2⟩

theorem wp_addImplicitData (d : ImpData) (s : PState) (Q : Unit → PState → Prop) :
    wp (addImplicitData d) s Q ↔
      Q () (d.movements.foldl addMovementStep (d.texts.foldl addTextStep s)) := by
  unfold addImplicitData addImplicitTexts addImplicitMovements
  simp only [wp_bind, wp_modify]

theorem hoistInv_addImplicitData (d : ImpData) (s : PState) (h : HoistInv s) :
    wp (addImplicitData d) s (fun _ s' => HoistInv s') := by
  rw [wp_addImplicitData]
  have h1 : HoistInv (d.texts.foldl addTextStep s) := by
    generalize d.texts = ts
    induction ts generalizing s with
    | nil => exact h
    | cons t r ih => exact ih _ (hoistInv_addTextStep s t h)
  generalize d.texts.foldl addTextStep s = s1 at h1
  generalize d.movements = ms
  induction ms generalizing s1 with
  | nil => exact h1
  | cons m r ih => exact ih _ (hoistInv_addMovementStep s1 m h1)

/-- The parser's initial state satisfies the invariants. -/
theorem hoistInv_initial (toks : List Tok) (eof : Tok) : HoistInv { toks := toks, eof := eof } :=
  ⟨textInv_init _ rfl rfl, moveInv_init _ rfl rfl⟩


/-! ## 3. Slot patching in the emitter -/

/-- The last patch recorded for slot `(id, i)`, if any. -/
def lastPatch (patches : List ((Nat × Nat) × String)) (id i : Nat) : Option String :=
  (((patches.filter fun p => p.1.1 == id).filter fun p => p.1.2 == i).getLast?).map (·.2)

theorem patchedArgs_length (patches : List ((Nat × Nat) × String)) (c : Cmd) :
    (patchedArgs patches c).length = c.args.length := by
  simp only [patchedArgs]
  split <;> simp

/-- Complete description of `patchedArgs`: slot `i` shows the last patch for `(c.id, i)`, or the
original argument when there is none. -/
theorem patchedArgs_get (patches : List ((Nat × Nat) × String)) (c : Cmd) (i : Nat)
    (hi : i < c.args.length) :
    (patchedArgs patches c)[i]? = some ((lastPatch patches c.id i).getD (c.args.getD i "")) := by
  simp only [patchedArgs, lastPatch]
  split
  · next h =>
    have : (patches.filter fun p => p.1.1 == c.id) = [] := by simpa using h
    simp [this, hi]
  · simp only [List.getElem?_map, List.getElem?_range hi, Option.map_some]
    cases ((patches.filter fun p => p.1.1 == c.id).filter fun p => p.1.2 == i).getLast? <;> simp

theorem lastPatch_last (pre post : List ((Nat × Nat) × String)) (id i : Nat) (label : String)
    (hpost : ∀ p ∈ post, p.1 ≠ (id, i)) :
    lastPatch (pre ++ ((id, i), label) :: post) id i = some label := by
  have : ((post.filter fun p => p.1.1 == id).filter fun p => p.1.2 == i) = [] := by
    simp only [List.filter_filter, List.filter_eq_nil_iff]
    intro p hp hc
    simp only [Bool.and_eq_true, beq_iff_eq] at hc
    exact hpost p hp (Prod.ext hc.2 hc.1)
  simp [lastPatch, List.filter_append, this]

theorem lastPatch_none (patches : List ((Nat × Nat) × String)) (id i : Nat)
    (h : ∀ p ∈ patches, p.1 ≠ (id, i)) : lastPatch patches id i = none := by
  have : ((patches.filter fun p => p.1.1 == id).filter fun p => p.1.2 == i) = [] := by
    simp only [List.filter_filter, List.filter_eq_nil_iff]
    intro p hp hc
    simp only [Bool.and_eq_true, beq_iff_eq] at hc
    exact h p hp (Prod.ext hc.2 hc.1)
  simp [lastPatch, this]

/-- **patched slot**: if `((c.id, i), label)` is the last patch for `(c.id, i)` and the command
has an `i`-th argument, the rendered command shows `label` there. -/
theorem patched_slot (pre post : List ((Nat × Nat) × String)) (c : Cmd) (i : Nat) (label : String)
    (hpost : ∀ p ∈ post, p.1 ≠ (c.id, i)) (hi : i < c.args.length) :
    (patchedArgs (pre ++ ((c.id, i), label) :: post) c)[i]? = some label := by
  rw [patchedArgs_get _ _ _ hi, lastPatch_last _ _ _ _ _ hpost]; rfl

/-- **unpatched slot**: a position without a patch keeps the original argument. -/
theorem unpatched_slot (patches : List ((Nat × Nat) × String)) (c : Cmd) (i : Nat)
    (h : ∀ p ∈ patches, p.1 ≠ (c.id, i)) : (patchedArgs patches c)[i]? = c.args[i]? := by
  by_cases hi : i < c.args.length
  · rw [patchedArgs_get _ _ _ hi, lastPatch_none _ _ _ h]
    simp [List.getD_eq_getElem?_getD, List.getElem?_eq_getElem hi]
  · have h1 : (patchedArgs patches c).length ≤ i := by rw [patchedArgs_length]; omega
    rw [List.getElem?_eq_none h1, List.getElem?_eq_none (by omega)]

/-- `patchedArgs` only looks at the patches of its own command. -/
theorem patchedArgs_congr (ps1 ps2 : List ((Nat × Nat) × String)) (c : Cmd)
    (h : (ps1.filter fun p => p.1.1 == c.id) = (ps2.filter fun p => p.1.1 == c.id)) :
    patchedArgs ps1 c = patchedArgs ps2 c := by
  simp only [patchedArgs]; rw [h]

/-- **other commands untouched**: patches for other command ids change nothing, wherever they sit
in the patch list. -/
theorem other_commands_untouched (pre extra post : List ((Nat × Nat) × String)) (c : Cmd)
    (h : ∀ p ∈ extra, p.1.1 ≠ c.id) :
    patchedArgs (pre ++ extra ++ post) c = patchedArgs (pre ++ post) c := by
  apply patchedArgs_congr
  have : (extra.filter fun p => p.1.1 == c.id) = [] := by
    simp only [List.filter_eq_nil_iff]
    intro p hp hc
    exact h p hp (by simpa using hc)
  simp [List.filter_append, this]

/-- A command none of whose slots is patched is rendered with its own arguments. -/
theorem unpatched_command (patches : List ((Nat × Nat) × String)) (c : Cmd)
    (h : ∀ p ∈ patches, p.1.1 ≠ c.id) : renderCommand patches c = .command c.name c.args := by
  have := other_commands_untouched [] patches [] c h
  simp only [List.nil_append, List.append_nil] at this
  rw [renderCommand, this]; simp [patchedArgs]


/-! ### from the parser's patch to the rendered argument -/

/-- The patches produced by a run of text steps: one per text, for its slot, in order. -/
theorem text_patches_fold (ts : List ImpText) (s : PState) :
    ∃ later, (ts.foldl addTextStep s).patches = s.patches ++ later ∧
      later.map (·.1) = ts.map fun t => (t.cmdId, t.argPos) := by
  induction ts generalizing s with
  | nil => exact ⟨[], by simp, rfl⟩
  | cons t r ih =>
    obtain ⟨later, h1, h2⟩ := ih (addTextStep s t)
    refine ⟨((t.cmdId, t.argPos), assigned s t) :: later, ?_, by simp [h2]⟩
    rw [List.foldl_cons, h1, patch_appended]; simp

theorem movement_patches_fold (ms : List ImpMovement) (s : PState) :
    ∃ later, (ms.foldl addMovementStep s).patches = s.patches ++ later ∧
      later.map (·.1) = ms.map fun m => (m.cmdId, m.argPos) := by
  induction ms generalizing s with
  | nil => exact ⟨[], by simp, rfl⟩
  | cons m r ih =>
    obtain ⟨later, h1, h2⟩ := ih (addMovementStep s m)
    refine ⟨((m.cmdId, m.argPos), massigned s m) :: later, ?_, by simp [h2]⟩
    rw [List.foldl_cons, h1, movement_patch_appended]; simp

/-- **From hoisting to output**: after `addTextStep s t`, the command `t.cmdId` rendered with the
new patch list — extended by any later patches that do not write the same slot — shows the assigned
label at `t.argPos`.

Uniqueness hypothesis: no *later* patch has the same `(cmdId, argPos)` pair.  The parser gives
every command statement its own id (`parseCommandStatement` reads `nextCmdId` and increments it; no
other function writes `nextCmdId`), and within a command `argPos = a.args.length` grows with every
top-level comma, so pairs of *different arguments* differ.  Two inline items inside the *same*
argument (no comma between them, e.g. `msgbox("a" ascii"b")`) do share the pair: see
`same_slot_last_wins` — there the hypothesis fails and the earlier label is overwritten. -/
theorem hoisted_text_label_rendered (s : PState) (t : ImpText) (c : Cmd)
    (later : List ((Nat × Nat) × String)) (hid : c.id = t.cmdId) (hpos : t.argPos < c.args.length)
    (hlater : ∀ p ∈ later, p.1 ≠ (t.cmdId, t.argPos)) :
    ∃ args, renderCommand ((addTextStep s t).patches ++ later) c = .command c.name args ∧
      args[t.argPos]? = some (assigned s t) ∧ args.length = c.args.length := by
  refine ⟨_, rfl, ?_, patchedArgs_length _ _⟩
  rw [patch_appended, List.append_assoc, List.singleton_append, ← hid]
  exact patched_slot _ _ _ _ _ (by rw [hid]; exact hlater) hpos

theorem hoisted_movement_label_rendered (s : PState) (m : ImpMovement) (c : Cmd)
    (later : List ((Nat × Nat) × String)) (hid : c.id = m.cmdId) (hpos : m.argPos < c.args.length)
    (hlater : ∀ p ∈ later, p.1 ≠ (m.cmdId, m.argPos)) :
    ∃ args, renderCommand ((addMovementStep s m).patches ++ later) c = .command c.name args ∧
      args[m.argPos]? = some (massigned s m) ∧ args.length = c.args.length := by
  refine ⟨_, rfl, ?_, patchedArgs_length _ _⟩
  rw [movement_patch_appended, List.append_assoc, List.singleton_append, ← hid]
  exact patched_slot _ _ _ _ _ (by rw [hid]; exact hlater) hpos

/-- The same for the whole hoisting pass of a statement (`addImplicitData`: remaining texts, then
movements), under the hypothesis that the slots of the items processed afterwards are different. -/
theorem hoisted_text_label_rendered_pass (s : PState) (t : ImpText) (rest : List ImpText)
    (ms : List ImpMovement) (c : Cmd) (hid : c.id = t.cmdId) (hpos : t.argPos < c.args.length)
    (hrest : ∀ t' ∈ rest, (t'.cmdId, t'.argPos) ≠ (t.cmdId, t.argPos))
    (hms : ∀ m ∈ ms, (m.cmdId, m.argPos) ≠ (t.cmdId, t.argPos)) :
    ∃ args, renderCommand (ms.foldl addMovementStep (rest.foldl addTextStep (addTextStep s t))).patches c =
        .command c.name args ∧ args[t.argPos]? = some (assigned s t) := by
  obtain ⟨l1, h1, g1⟩ := text_patches_fold rest (addTextStep s t)
  obtain ⟨l2, h2, g2⟩ := movement_patches_fold ms (rest.foldl addTextStep (addTextStep s t))
  rw [h2, h1, List.append_assoc]
  obtain ⟨args, e1, e2, _⟩ := hoisted_text_label_rendered s t c (l1 ++ l2) hid hpos (by
    intro p hp
    rcases List.mem_append.1 hp with hp | hp
    · have : p.1 ∈ l1.map (·.1) := List.mem_map.2 ⟨p, hp, rfl⟩
      rw [g1] at this
      obtain ⟨t', ht', e⟩ := List.mem_map.1 this
      rw [← e]; exact hrest t' ht'
    · have : p.1 ∈ l2.map (·.1) := List.mem_map.2 ⟨p, hp, rfl⟩
      rw [g2] at this
      obtain ⟨m, hm, e⟩ := List.mem_map.1 this
      rw [← e]; exact hms m hm)
  exact ⟨args, e1, e2⟩

/-- When two inline items write the same slot the last one wins (Go: `command.Args[argPos] = label`
executed twice): the slot shows the second label, and the first text's label — a different one
when the contents differ — appears nowhere in that slot (its text record is still emitted). -/
theorem same_slot_last_wins (s : PState) (hinv : TextInv s) (t1 t2 : ImpText) (c : Cmd)
    (hid : c.id = t2.cmdId) (hslot : (t1.cmdId, t1.argPos) = (t2.cmdId, t2.argPos))
    (hpos : t2.argPos < c.args.length) (hk : keyOf t1 ≠ keyOf t2) :
    (patchedArgs (addTextStep (addTextStep s t1) t2).patches c)[t2.argPos]? =
      some (assigned (addTextStep s t1) t2) ∧
    (patchedArgs (addTextStep (addTextStep s t1) t2).patches c)[t1.argPos]? ≠ some (assigned s t1) := by
  obtain ⟨args, e1, e2, _⟩ := hoisted_text_label_rendered (addTextStep s t1) t2 c [] hid hpos (by simp)
  simp only [List.append_nil, renderCommand, Line.command.injEq, true_and] at e1
  have hp : t1.argPos = t2.argPos := (Prod.mk.inj hslot).2
  rw [hp, e1, e2]
  refine ⟨rfl, ?_⟩
  intro h
  exact different_content_different_label s hinv t1 t2 [] hk (Option.some.inj h)

/-! ## 4. Every hoisted text is emitted exactly once -/

/-- The text section of `emitProgram` when `i` top-level statements were rendered before it. -/
def textsBlock (o : Opts) (i : Nat) : List Text → List Line
  | [] => []
  | t :: r => (if i > 0 then [Line.blank] else []) ++ emitText o t ++ textsBlock o (i + 1) r

theorem textsBlock_eq (o : Opts) (texts : List Text) (i : Nat) :
    ((List.range texts.length).flatMap fun j =>
      (if i + j > 0 then [Line.blank] else []) ++ emitText o (texts.getD j {})) = textsBlock o i texts := by
  induction texts generalizing i with
  | nil => rfl
  | cons t r ih =>
    rw [List.length_cons, List.range_succ_eq_map, List.flatMap_cons, List.flatMap_map, textsBlock, ← ih (i + 1)]
    congr 2
    funext j
    have : i + (j + 1) = i + 1 + j := by omega
    simp [this]

/-- `emitProgram` = rendered top-level statements, then the text section. -/
theorem emitProgram_texts (o : Opts) (p : Program) (ls : List Line) (h : emitProgram o p = .ok ls) :
    ∃ body i, emitTops o p.patches (p.texts.map (·.name)) p.tops 0 = .ok (body, i) ∧
      ls = body ++ textsBlock o i p.texts := by
  unfold emitProgram at h
  simp only [] at h
  split at h
  · cases h
  · next body i hb =>
    rw [textsBlock_eq] at h
    cases h
    exact ⟨body, i, hb, rfl⟩

theorem textsBlock_append (o : Opts) (pre post : List Text) (i : Nat) :
    textsBlock o i (pre ++ post) = textsBlock o i pre ++ textsBlock o (i + pre.length) post := by
  induction pre generalizing i with
  | nil => simp [textsBlock]
  | cons t r ih =>
    simp only [List.cons_append, textsBlock, ih, List.length_cons, List.append_assoc]
    have : i + 1 + r.length = i + (r.length + 1) := by omega
    rw [this]

theorem labelsOf_emitText (o : Opts) (t : Text) : labelsOf (emitText o t) = [(t.name, t.isGlobal)] := by
  rw [C09.emitText_shape]
  simp only [labelsOf_append, labelsOf_marker, List.append_nil]
  simp [labelsOf, labelOf, List.filterMap_map, Function.comp_def]

/-- The label definitions of the text section are exactly the text names, in order. -/
theorem labelsOf_textsBlock (o : Opts) (texts : List Text) (i : Nat) :
    labelsOf (textsBlock o i texts) = texts.map fun t => (t.name, t.isGlobal) := by
  induction texts generalizing i with
  | nil => rfl
  | cons t r ih =>
    simp only [textsBlock, labelsOf_append, labelsOf_emitText, ih, List.map_cons]
    split <;> simp [labelsOf, labelOf]

/-- **Each hoisted (or named) text is rendered exactly once, as `emitText o t`**: the output is the
rendered top-level statements followed by, for the texts in order, an optional blank line and
`emitText o t`; and when the text names are pairwise distinct, `t`'s label is defined by no other
text block. -/
theorem hoisted_text_emitted_once (o : Opts) (p : Program) (ls : List Line) (pre post : List Text)
    (t : Text) (h : emitProgram o p = .ok ls) (hp : p.texts = pre ++ t :: post) :
    ∃ body i, emitTops o p.patches (p.texts.map (·.name)) p.tops 0 = .ok (body, i) ∧
      ls = body ++ textsBlock o i pre ++
        ((if i + pre.length > 0 then [Line.blank] else []) ++ emitText o t) ++
        textsBlock o (i + pre.length + 1) post ∧
      labelsOf (textsBlock o i p.texts) = p.texts.map (fun t => (t.name, t.isGlobal)) ∧
      (firstDuplicateText p.texts [] = none →
        (∀ g, (t.name, g) ∉ labelsOf (textsBlock o i pre)) ∧
        (∀ g, (t.name, g) ∉ labelsOf (textsBlock o (i + pre.length + 1) post))) := by
  obtain ⟨body, i, hb, hl⟩ := emitProgram_texts o p ls h
  refine ⟨body, i, hb, ?_, labelsOf_textsBlock _ _ _, ?_⟩
  · rw [hl, hp, textsBlock_append, textsBlock]; simp [List.append_assoc]
  · intro hd
    have hn := ((C20.firstDuplicateText_none_iff p.texts []).1 hd).1
    rw [hp] at hn
    simp only [List.map_append, List.map_cons] at hn
    have hn' := List.nodup_append.1 hn
    constructor
    · intro g hm
      rw [labelsOf_textsBlock] at hm
      obtain ⟨x, hx, he⟩ := List.mem_map.1 hm
      have := hn'.2.2 x.name (List.mem_map.2 ⟨x, hx, rfl⟩) t.name (by simp)
      exact this (Prod.mk.inj he).1
    · intro g hm
      rw [labelsOf_textsBlock] at hm
      obtain ⟨x, hx, he⟩ := List.mem_map.1 hm
      have h2 := (List.nodup_cons.1 hn'.2.1).1
      exact h2 ((Prod.mk.inj he).1 ▸ List.mem_map.2 ⟨x, hx, rfl⟩)

/-- Counting version: with pairwise distinct names, exactly one label-definition line of the text
section carries `t`'s name. -/
theorem text_label_defined_once (o : Opts) (texts : List Text) (i : Nat) (t : Text) (ht : t ∈ texts)
    (hd : firstDuplicateText texts [] = none) :
    ((labelsOf (textsBlock o i texts)).map (·.1)).count t.name = 1 := by
  have hn := ((C20.firstDuplicateText_none_iff texts []).1 hd).1
  rw [labelsOf_textsBlock, List.map_map]
  have : (texts.map ((fun x : String × Bool => x.1) ∘ fun t => (t.name, t.isGlobal))) = texts.map (·.name) := by
    simp [Function.comp_def]
  rw [this, hn.count]
  simp [List.mem_map.2 ⟨t, ht, rfl⟩]

/-- `ParseProgram` only returns programs whose text names are pairwise distinct; the texts are the
hoisted ones followed by the `text` statements, and the patches are the recorded ones. -/
theorem parseProgram_texts (env : Env) (fuel : Nat) (s : PState) :
    wp (parseProgramM env fuel) s (fun p s' =>
      p.texts = s'.inlineTexts ++ s'.textStatements ∧ p.patches = s'.patches ∧
      firstDuplicateText p.texts [] = none) := by
  unfold parseProgramM
  rw [wp_bind]
  refine wp_mono (wp_true _ _) ?_
  intro tops s1 _
  simp only [wp_bind, wp_get]
  split
  · simp only [wp_bind, wp_fail]
  · next hnone =>
    split
    · simp only [wp_bind, wp_fail]
    · rw [wp_pure]
      exact ⟨rfl, rfl, hnone⟩


/-- Whole parser: a successfully parsed program has pairwise distinct text names, so
`hoisted_text_emitted_once` / `text_label_defined_once` apply to it. -/
theorem parseTokens_texts_distinct (env : Env) (toks : List Tok) (p : Program)
    (h : parseTokens env toks = .ok p) : firstDuplicateText p.texts [] = none := by
  unfold parseTokens at h
  simp only [StateT.run'] at h
  generalize hr : (parseProgramM env (4 * toks.length + 50))
    { toks := toks, eof := toks.getLastD { type := .EOF } } = res at h
  cases res with
  | error e => simp [Functor.map, Except.map] at h
  | ok r =>
    obtain ⟨p', s'⟩ := r
    simp only [Functor.map, Except.map, Except.ok.injEq] at h
    subst h
    exact (parseProgram_texts env _ _ p' s' hr).2.2

/-! ## Non-vacuity -/

def s0 : PState := { toks := [], eof := {} }
def mv (id pos : Nat) (steps : List String) (owner : String) : ImpMovement :=
  { cmdId := id, cmdTok := {}, argPos := pos, movements := steps.map fun l => { type := .IDENT, lit := l },
    scriptName := owner }
def tx (id pos : Nat) (content ty owner : String) : ImpText :=
  { cmdId := id, argPos := pos, text := { type := .STRING, lit := content }, stringType := ty, scriptName := owner }

def mA := mv 0 1 ["walk_up", "walk_down"] "S"
def mB := mv 1 1 ["walk_up"] "T"
def mA' := mv 2 1 ["walk_up", "walk_down"] "T"

/-- group 1: numbering per owner, sharing across scripts, patches in order -/
example :
    massigned s0 mA = "S_Movement_0" ∧
    massigned (addMovementStep s0 mA) mB = "T_Movement_0" ∧
    massigned (addMovementStep (addMovementStep s0 mA) mB) mA' = "S_Movement_0" ∧
    ([mA, mB, mA'].foldl addMovementStep s0).patches =
      [((0, 1), "S_Movement_0"), ((1, 1), "T_Movement_0"), ((2, 1), "S_Movement_0")] ∧
    (([mA, mB, mA'].foldl addMovementStep s0).inlineMovements.map (·.name)) =
      ["S_Movement_0", "T_Movement_0"] := by decide

example : massigned ([mB].foldl addMovementStep (addMovementStep s0 mA)) mA' = massigned s0 mA :=
  movement_same_key_same_label s0 mA mA' [mB] (by decide)

example : massigned ([].foldl addMovementStep (addMovementStep s0 mA)) mB ≠ massigned s0 mA :=
  different_steps_different_labels s0 (moveInv_init _ rfl rfl) mA mB []
    (by simp [NoColon, mA, mv]) (by simp [NoColon, mB, mv]) (by decide)

example : NoColon mA.movements ∧ mkeyOf mA = "walk_up:walk_down:" := by
  refine ⟨by simp [NoColon, mA, mv], by decide⟩

def tA := tx 0 1 "Hello$" "" "S"
def tB := tx 1 1 "Hello$" "braille" "S"
def tA' := tx 2 2 "Hello$" "" "T"

/-- group 2 -/
example :
    assigned s0 tA = "S_Text_0" ∧ assigned (addTextStep s0 tA) tB = "S_Text_1" ∧
    assigned (addTextStep (addTextStep s0 tA) tB) tA' = "S_Text_0" := by decide

example : assigned ([].foldl addTextStep (addTextStep s0 tA)) tB ≠ assigned s0 tA :=
  different_content_different_label s0 (textInv_init _ rfl rfl) tA tB [] (by decide)

example : ∃ x ∈ (addTextStep s0 tA).inlineTexts, x.name = "S_Text_0" ∧ x.value = "Hello$" ∧
    x.stringType = "" ∧ x.isGlobal = false :=
  assigned_text_defined s0 (textInv_init _ rfl rfl) tA

/-- Owners that imitate the scheme do not collide: `A` #1 … vs `A_Text_1` #0. -/
example : getImplicitTextLabel "A_Text_1" 0 = "A_Text_1_Text_0" ∧ getImplicitTextLabel "A" 1 = "A_Text_1" ∧
    getImplicitTextLabel "A_Text_1" 0 ≠ getImplicitTextLabel "A" 10 := by decide

/-- group 3 -/
def cmd0 : Cmd := { id := 0, name := "msgbox", args := ["a", "", "MSGBOX_DEFAULT"] }

example : patchedArgs [((0, 1), "L0"), ((1, 1), "X"), ((0, 1), "L1")] cmd0 = ["a", "L1", "MSGBOX_DEFAULT"] ∧
    patchedArgs [((1, 1), "X")] cmd0 = cmd0.args := by decide

example : (patchedArgs ([((0, 1), "L0")] ++ ((cmd0.id, 1), "L1") :: [((1, 1), "X")]) cmd0)[1]? = some "L1" :=
  patched_slot _ _ cmd0 1 "L1" (by decide) (by decide)

example : ∃ args, renderCommand ((addTextStep s0 tA).patches ++ [((1, 1), "X")]) cmd0 = .command "msgbox" args ∧
    args[1]? = some "S_Text_0" ∧ args.length = 3 :=
  hoisted_text_label_rendered s0 tA cmd0 [((1, 1), "X")] rfl (by decide) (by decide)

/-- two inline items in one argument: `msgbox("a" ascii"b")` gives both the slot `(0, 0)` -/
example : (patchedArgs (addTextStep (addTextStep s0 (tx 0 0 "a$" "" "S")) (tx 0 0 "b\\0" "ascii" "S")).patches
    { id := 0, name := "msgbox", args := [" "] }) = ["S_Text_1"] := by decide

/-- group 4 -/
def prog : Program :=
  { tops := [], texts := [{ name := "S_Text_0", value := "Hi$" }, { name := "S_Text_1", value := "a\nb$" }] }

example : emitProgram {} prog = .ok
    [.labelDef "S_Text_0" false, .textLine "string" "Hi$", .blank,
     .labelDef "S_Text_1" false, .textLine "string" "a", .textLine "string" "b$"] := by
  rfl

example :=
  hoisted_text_emitted_once {} prog _ [{ name := "S_Text_0", value := "Hi$" }] []
    { name := "S_Text_1", value := "a\nb$" } rfl rfl

example : firstDuplicateText prog.texts [] = none := by decide


end Pory.C06b
