import PoryProofs.LabelCensus
import PoryProofs.Properties.C15c
/-
C15d — LABEL-STATEMENT CENSUS: the chunk tables hold exactly the label statements of the (nested) source body.
Closes the documented limit of C15c ("(iii) speaks about label statements as they sit in the chunk tables … there
is no theorem yet that the chunk tables hold exactly the label statements of the (nested) source body") and of
C04 / C04c (`user_labels_kept`, `userLabelsOf`, `NamesDistinct` speak about the chunk tables too).

Helper module: PoryProofs/LabelCensus.lean (`blockLbls`, the weights `lblWeights` for the generic worklist
accounting of PoryProofs/CensusWeights.lean — the same walk as C10d's command census, counting `Stmt.label`).

Definitions
* `labelStmtsOf body : List (String × Bool)` — ALL label statements of a body as `(name, (global) flag)`, in source
  order, at any depth (bodies of `if` / `elif` / `else`, `while`, `do … while`, `switch` cases).
  WHAT THE MODEL DOES WITH DEAD CODE (found by C10d, re-proved here for labels by the census itself): NOTHING is
  dropped.  `keepStatementsAfterJump` queues ALL statements after a `break` / `continue` as a new chunk — not "from
  the first label on" —, statements after a user-written `goto` / `end` / `return` command in the middle of a block
  stay in the same chunk, and the only statement `scanSimple` ever absorbs is a block-final `end` / `return`
  COMMAND, never a label.  Hence `labelStmtsOf` is not reduced by dead code; a label after `break` is kept
  (`demo` below: `Dead`), and so is everything between the `break` and that label (C10d `dead_after_break`).

Theorems (all proved in full, nothing is `_partial`)
1. `label_census_table`: `scriptChunks body = .ok G → (G.flatMap fun c => stmtLabels c.statements) ~ labelStmtsOf body`
   (a `List.Perm`).  `label_census`: `emitScript o patches tl s = .ok ls → userLabelDefsOf s ~ labelStmtsOf s.body`
   — any options (both chunk orders), any patches, any text labels.  `label_census_chunks`: the same from
   `scriptChunks s.body = .ok G` alone.  No label statement is dropped or duplicated in any arrangement.
   Only a permutation, not an equality of lists: the table is in worklist order (`census_not_in_source_order`).
   The hypothesis is needed: for a body the worklist rejects (`break` outside a loop) `userLabelDefsOf` is `[]` by
   definition (`census_needs_table`).
   `label_names_census`: `C04c.userLabelsOf s ~ (labelStmtsOf s.body).map (·.1)` (the vocabulary of C04c's
   `NamesDistinct` / `declaredNames`).
   Observation (not new, cf. C04c "clashes between statements are NOT checked"): a label name written twice in
   one body, even with different flags, is accepted and rendered twice (`duplicate_label_statement`); the census
   counts it twice on both sides — the emitter neither merges nor rejects it.
2. `script_label_line_iff`: the label lines of ONE accepted script: `Line.labelDef n g ∈ ls ↔` entry label with the
   script's flag ∨ `(n, g) ∈ labelStmtsOf s.body` ∨ (`g = false` ∧ registered sub-label).
   `label_statement_line`: every label statement `(n, g)` of the body (any depth, dead code included) has its line
   `Line.labelDef n g` in the output; `label_statement_flag_exact`: and a label line of the output whose name is
   the name of a label statement carries the flag of a label statement OF THAT NAME (it is never the entry label
   or a generated sub-label: the emitter rejects such label statements) — so if the name is written once, the
   line carries exactly its flag.
   `script_label_lines_perm`: `labelsOf ls ~ (s.name, scope == GLOBAL) :: (sub-labels, false) ++ labelStmtsOf s.body`
   — the label lines of the script's output are, as a multiset, the entry label, the registered sub-labels (local)
   and the label statements of the body.  `label_statement_fresh`: acceptance implies that no label statement is
   named like the script, a registered sub-label or a text label; hence `label_statement_line_count`: a label
   statement `(n, g)` has exactly as many lines `(n, g)` as it has occurrences in the body, and
   `label_statement_name_count`: `C04c.defCount ls n` = number of label statements named `n` — neither dropped
   nor duplicated, for both chunk orders.
3. Whole programs, C15c in source vocabulary: `user_labels_source` (clause (iii) rewritten),
   `exported_iff_source : emitProgram o p = .ok ls → (Line.labelDef n true ∈ ls ↔ ExportedSrc p n)`,
   `label_line_iff_source` (all label lines, with `DeclaredSrc`), `parsed_exported_iff_source` (parser + emitter).
-/
namespace Pory.C15d
open Pory Pory.Parser Pory.Emit Pory.RenderSim Pory.C04c Pory.C15c

/-! ## 1. the census -/

/-- **All label statements of a body** as `(name, (global) flag)`, at any depth, in source order.  Dead code is
not left out, because the model keeps it (see the header). -/
def labelStmtsOf (body : List Stmt) : List (String × Bool) := blockLbls body

/-- **label_census_table**: the label statements held by the chunk table of a body are, as a multiset, the label
statements of the body. -/
theorem label_census_table (body : List Stmt) (G : List Chunk) (h : scriptChunks body = .ok G) :
    (G.flatMap fun c => stmtLabels c.statements).Perm (labelStmtsOf body) :=
  scriptChunks_lbl_perm body G h

theorem userLabelDefsOf_eq (s : Script) (G : List Chunk) (h : scriptChunks s.body = .ok G) :
    userLabelDefsOf s = G.flatMap fun c => stmtLabels c.statements := by
  unfold userLabelDefsOf
  rw [h]

/-- … for a script whose body has a chunk table. -/
theorem label_census_chunks (s : Script) (G : List Chunk) (h : scriptChunks s.body = .ok G) :
    (userLabelDefsOf s).Perm (labelStmtsOf s.body) := by
  rw [userLabelDefsOf_eq s G h]
  exact label_census_table s.body G h

/-- **label_census**: for every script the emitter accepts — whatever the options (both chunk orders), patches
and text labels — the label statements of its chunk table (`C15c.userLabelDefsOf`, the vocabulary of C15c / C04c)
are a permutation of the label statements of its body: none dropped, none duplicated, flags unchanged. -/
theorem label_census (o : Opts) (patches : List ((Nat × Nat) × String)) (tl : List String) (s : Script)
    (ls : List Line) (h : emitScript o patches tl s = .ok ls) :
    (userLabelDefsOf s).Perm (labelStmtsOf s.body) := by
  obtain ⟨G, _, hc, _⟩ := accepted_chunks o patches tl s ls h
  exact label_census_chunks s G hc

/-- The names (C04c's `userLabelsOf`, used by `NamesDistinct` / `declaredNames`). -/
theorem label_names_census (s : Script) (G : List Chunk) (h : scriptChunks s.body = .ok G) :
    (userLabelsOf s).Perm ((labelStmtsOf s.body).map (·.1)) := by
  rw [userLabelsOf_eq]
  exact (label_census_chunks s G h).map _

theorem mem_userLabelDefsOf_iff (s : Script) (G : List Chunk) (h : scriptChunks s.body = .ok G)
    (a : String × Bool) : a ∈ userLabelDefsOf s ↔ a ∈ labelStmtsOf s.body :=
  (label_census_chunks s G h).mem_iff

/-! ## 2. the label lines of one script -/

/-- **script_label_line_iff**: the label lines of an accepted script, in source vocabulary. -/
theorem script_label_line_iff (o : Opts) (patches : List ((Nat × Nat) × String)) (tl : List String)
    (s : Script) (ls : List Line) (h : emitScript o patches tl s = .ok ls) (n : String) (g : Bool) :
    Line.labelDef n g ∈ ls ↔
      (n = s.name ∧ g = (s.scope == .GLOBAL)) ∨ (n, g) ∈ labelStmtsOf s.body ∨
      (g = false ∧ n ∈ subLabelsOf o patches s) := by
  obtain ⟨G, order, hc, ho⟩ := accepted_chunks o patches tl s ls h
  rw [labelDef_mem_iff, labelsOf_emitScript o patches tl s ls h, mem_scriptDefs_iff o patches s G order hc ho,
    mem_userLabelDefsOf_iff s G hc]

/-- **label_statement_line**: every label statement of the body of an accepted script — at any depth, dead code
included — has its label line in the output, with its own flag. -/
theorem label_statement_line (o : Opts) (patches : List ((Nat × Nat) × String)) (tl : List String)
    (s : Script) (ls : List Line) (h : emitScript o patches tl s = .ok ls) :
    ∀ n g, (n, g) ∈ labelStmtsOf s.body → Line.labelDef n g ∈ ls := by
  intro n g hm
  exact (script_label_line_iff o patches tl s ls h n g).2 (.inr (.inl hm))

theorem flatMap_append_perm' {α β : Type} (f g : α → List β) : ∀ (l : List α),
    (l.flatMap fun x => f x ++ g x).Perm (l.flatMap f ++ l.flatMap g)
  | [] => List.Perm.refl _
  | a :: r => by
    simp only [List.flatMap_cons]
    refine ((List.Perm.refl (f a ++ g a)).append (flatMap_append_perm' f g r)).trans ?_
    rw [List.append_assoc, List.append_assoc]
    refine (List.Perm.refl (f a)).append ?_
    rw [← List.append_assoc, ← List.append_assoc]
    exact (List.perm_append_comm).append_right _

theorem flatMap_congr' {α β : Type} {f g : α → List β} : ∀ (l : List α),
    (∀ a ∈ l, f a = g a) → l.flatMap f = l.flatMap g
  | [], _ => rfl
  | a :: r, h => by
    rw [List.flatMap_cons, List.flatMap_cons, h a (by simp), flatMap_congr' r fun x hx => h x (by simp [hx])]

/-- own labels of the chunks other than the entry: the registered ones, local -/
theorem ownLabels_rest (name : String) (isGlobal : Bool) (J : List Nat) : ∀ (rest : List Nat),
    (∀ id ∈ rest, id ≠ 0) →
    (rest.flatMap fun id =>
      if id == 0 || J.contains id then [(chunkLabel name id, id == 0 && isGlobal)] else []) =
    ((rest.filter fun id => id != 0 && J.contains id).map (jumpLabel name)).map (·, false)
  | [], _ => rfl
  | a :: r, h => by
    have ha : a ≠ 0 := h a (by simp)
    have hb : (a == 0) = false := by simpa using ha
    have ih := ownLabels_rest name isGlobal J r (fun id hid => h id (by simp [hid]))
    rw [List.flatMap_cons, ih, List.filter_cons]
    by_cases hj : a ∈ J
    · simp [hb, hj, ha, chunkLabel_pos name ha]
    · simp [hb, hj]

/-- **script_label_lines_perm**: the label lines of an accepted script are, as a multiset: the entry label with
the flag of the script's scope, the registered sub-labels (local), and the label statements of the body. -/
theorem script_label_lines_perm (o : Opts) (patches : List ((Nat × Nat) × String)) (tl : List String)
    (s : Script) (ls : List Line) (h : emitScript o patches tl s = .ok ls) :
    (labelsOf ls).Perm
      ((s.name, s.scope == .GLOBAL) :: ((subLabelsOf o patches s).map (·, false) ++ labelStmtsOf s.body)) := by
  obtain ⟨G, order, hc, ho⟩ := accepted_chunks o patches tl s ls h
  obtain ⟨hperm, hhead, hnd⟩ := C05.script_order_perm o s G order hc ho
  obtain ⟨hidn, _⟩ := C05.scriptChunks_ids s.body G hc
  rw [labelsOf_emitScript o patches tl s ls h]
  unfold scriptDefs subLabelsOf
  simp only [hc, ho]
  unfold chunkDefs
  refine (flatMap_append_perm' _ _ order).trans ?_
  rw [← List.cons_append]
  refine List.Perm.append ?_ ?_
  · cases order with
    | nil => cases hhead
    | cons x rest =>
      simp only [List.head?_cons, Option.some.injEq] at hhead
      subst hhead
      have hne : ∀ id ∈ rest, id ≠ 0 := by
        intro id hid e
        subst e
        exact (List.nodup_cons.1 hnd).1 hid
      rw [List.flatMap_cons, ownLabels_rest _ _ _ rest hne]
      simp [chunkLabel_zero]
  · refine (hperm.flatMap_right _).trans ?_
    rw [List.flatMap_map]
    have : (G.flatMap fun c => stmtLabels (chunkOf G c.id).statements) =
        G.flatMap fun c => stmtLabels c.statements := by
      apply flatMap_congr'
      intro c hcG
      rw [chunkOf_self G hidn c hcG]
    rw [this]
    exact label_census_table s.body G hc

/-- What acceptance guarantees about the label statements of the body (the emitter's only label check,
`renderStatements`): none is named like the script, like a registered sub-label of the script, or like a text. -/
theorem label_statement_fresh (o : Opts) (patches : List ((Nat × Nat) × String)) (tl : List String)
    (s : Script) (ls : List Line) (h : emitScript o patches tl s = .ok ls) (n : String)
    (hn : n ∈ (labelStmtsOf s.body).map (·.1)) :
    n ≠ s.name ∧ n ∉ subLabelsOf o patches s ∧ n ∉ tl := by
  obtain ⟨G, order, hc, ho⟩ := accepted_chunks o patches tl s ls h
  have hu : n ∈ userLabelsOf s := (label_names_census s G hc).mem_iff.2 hn
  obtain ⟨h1, h2⟩ := accepted_label_statements_fresh o patches tl s ls h n hu
  refine ⟨?_, ?_, h1⟩
  · intro he
    obtain ⟨_, h0⟩ := C05.scriptChunks_ids s.body G hc
    obtain ⟨c, hcG, hc0⟩ := List.mem_map.1 h0
    exact absurd (by simp [chunkLabel, hc0, he]) (h2 G hc c hcG)
  · intro hm
    unfold subLabelsOf at hm
    simp only [hc, ho] at hm
    obtain ⟨d, hd, rfl⟩ := List.mem_map.1 hm
    obtain ⟨hdo, hdf⟩ := List.mem_filter.1 hd
    simp only [Bool.and_eq_true, bne_iff_ne, ne_eq] at hdf
    obtain ⟨hperm, _, _⟩ := C05.script_order_perm o s G order hc ho
    obtain ⟨c, hcG, hcd⟩ := List.mem_map.1 (hperm.mem_iff.1 hdo)
    exact absurd (by simp [chunkLabel, jumpLabel, hcd, hdf.1]) (h2 G hc c hcG)

/-- **label_statement_line_count**: a label statement `(n, g)` of the body has exactly as many label lines `n:` /
`n::` with flag `g` in the output as it has occurrences in the body — neither dropped nor duplicated. -/
theorem label_statement_line_count (o : Opts) (patches : List ((Nat × Nat) × String)) (tl : List String)
    (s : Script) (ls : List Line) (h : emitScript o patches tl s = .ok ls) (a : String × Bool)
    (ha : a ∈ labelStmtsOf s.body) : (labelsOf ls).count a = (labelStmtsOf s.body).count a := by
  obtain ⟨h1, h2, _⟩ := label_statement_fresh o patches tl s ls h a.1 (List.mem_map.2 ⟨a, ha, rfl⟩)
  rw [(script_label_lines_perm o patches tl s ls h).count_eq a, List.count_cons, List.count_append]
  have e1 : ((s.name, s.scope == .GLOBAL) == a) = false := by
    rw [beq_eq_false_iff_ne]
    intro e; exact h1 (by rw [← e])
  have e2 : ((subLabelsOf o patches s).map (·, false)).count a = 0 := by
    rw [List.count_eq_zero]
    intro hm
    obtain ⟨x, hx, e⟩ := List.mem_map.1 hm
    exact h2 (by rw [← e]; exact hx)
  rw [e1, e2]
  simp

/-- … and by NAME: the number of label lines defining `n` is the number of label statements named `n`
(`C04c.defCount` on the script's own lines). -/
theorem label_statement_name_count (o : Opts) (patches : List ((Nat × Nat) × String)) (tl : List String)
    (s : Script) (ls : List Line) (h : emitScript o patches tl s = .ok ls) (n : String)
    (hn : n ∈ (labelStmtsOf s.body).map (·.1)) :
    defCount ls n = ((labelStmtsOf s.body).map (·.1)).count n := by
  obtain ⟨h1, h2, _⟩ := label_statement_fresh o patches tl s ls h n hn
  rw [defCount_eq, ((script_label_lines_perm o patches tl s ls h).map (·.1)).count_eq n, List.map_cons,
    List.count_cons, List.map_append, List.count_append]
  have e1 : (s.name == n) = false := by
    rw [beq_eq_false_iff_ne]; exact fun e => h1 e.symm
  have e2 : (((subLabelsOf o patches s).map (·, false)).map (·.1)).count n = 0 := by
    rw [List.count_eq_zero, List.map_map]
    intro hm
    obtain ⟨x, hx, e⟩ := List.mem_map.1 hm
    exact h2 (by rw [← e]; exact hx)
  simp only [e1, e2]
  simp

/-- **label_statement_flag_exact**: a label line whose name is the name of a label statement of the body carries
the flag of a label statement of that name: it is neither the entry label nor a generated sub-label. -/
theorem label_statement_flag_exact (o : Opts) (patches : List ((Nat × Nat) × String)) (tl : List String)
    (s : Script) (ls : List Line) (h : emitScript o patches tl s = .ok ls) (n : String) (g : Bool)
    (hn : n ∈ (labelStmtsOf s.body).map (·.1)) (hl : Line.labelDef n g ∈ ls) :
    (n, g) ∈ labelStmtsOf s.body := by
  obtain ⟨h1, h2, _⟩ := label_statement_fresh o patches tl s ls h n hn
  rcases (script_label_line_iff o patches tl s ls h n g).1 hl with ⟨he, _⟩ | hm | ⟨_, hm⟩
  · exact absurd he h1
  · exact hm
  · exact absurd hm h2

/-- … in particular, when the name is written once in the body, the line carries exactly the flag written. -/
theorem label_statement_flag_unique (o : Opts) (patches : List ((Nat × Nat) × String)) (tl : List String)
    (s : Script) (ls : List Line) (h : emitScript o patches tl s = .ok ls) (n : String) (g g' : Bool)
    (hm : (n, g) ∈ labelStmtsOf s.body)
    (huniq : ∀ b, (n, b) ∈ labelStmtsOf s.body → b = g) (hl : Line.labelDef n g' ∈ ls) : g' = g :=
  huniq g' (label_statement_flag_exact o patches tl s ls h n g' (List.mem_map.2 ⟨(n, g), hm, rfl⟩) hl)

/-! ## 3. whole programs: C15c in source vocabulary -/

/-- Clause (iii) of `C15c.Declared` / `C15c.Exported`, rewritten by the census. -/
theorem user_labels_source (o : Opts) (p : Program) (ls : List Line) (h : emitProgram o p = .ok ls)
    (n : String) (g : Bool) :
    (∃ s ∈ scriptsOf p, (n, g) ∈ userLabelDefsOf s) ↔ (∃ s ∈ scriptsOf p, (n, g) ∈ labelStmtsOf s.body) := by
  refine exists_congr fun s => and_congr_right fun hs => ?_
  obtain ⟨l, hl, _⟩ := script_accepted o p ls h s hs
  exact (label_census o p.patches _ s l hl).mem_iff

/-- The names the output exports, read off the SOURCE: (i) top-level script / mapscripts / movement / mart
statements whose scope is GLOBAL, (ii) texts of `p.texts` with `isGlobal`, (iii') label statements marked `(global)`
written anywhere in the body of a script of `p` (top-level or inline; any depth, dead code included),
(iv) inline map scripts whose scope is GLOBAL. -/
def ExportedSrc (p : Program) (n : String) : Prop :=
  (∃ s, Top.script s ∈ p.tops ∧ s.name = n ∧ s.scope = .GLOBAL) ∨
  (∃ m, Top.mapscripts m ∈ p.tops ∧ m.name = n ∧ m.scope = .GLOBAL) ∨
  (∃ m, Top.movement m ∈ p.tops ∧ m.name = n ∧ m.scope = .GLOBAL) ∨
  (∃ tok tis items, Top.mart tok n tis items .GLOBAL ∈ p.tops) ∨
  (∃ t ∈ p.texts, t.name = n ∧ t.isGlobal = true) ∨
  (∃ s ∈ scriptsOf p, (n, true) ∈ labelStmtsOf s.body) ∨
  (∃ s ∈ inlineScriptsOf p, s.name = n ∧ s.scope = .GLOBAL)

/-- **exported_iff_source**: `C15c.exported_iff` with clause (iii) in source vocabulary. -/
theorem exported_iff_source (o : Opts) (p : Program) (ls : List Line) (h : emitProgram o p = .ok ls)
    (n : String) : Line.labelDef n true ∈ ls ↔ ExportedSrc p n := by
  rw [exported_iff o p ls h]
  unfold Exported ExportedSrc
  exact or_congr Iff.rfl (or_congr Iff.rfl (or_congr Iff.rfl (or_congr Iff.rfl (or_congr Iff.rfl
    (or_congr (user_labels_source o p ls h n true) Iff.rfl)))))

/-- `C15c.Declared` in source vocabulary. -/
def DeclaredSrc (p : Program) (n : String) (g : Bool) : Prop :=
  (∃ s, Top.script s ∈ p.tops ∧ n = s.name ∧ g = (s.scope == .GLOBAL)) ∨
  (∃ m, Top.mapscripts m ∈ p.tops ∧ n = m.name ∧ g = (m.scope == .GLOBAL)) ∨
  (∃ m, Top.movement m ∈ p.tops ∧ n = m.name ∧ g = (m.scope == .GLOBAL)) ∨
  (∃ tok tis items sc, Top.mart tok n tis items sc ∈ p.tops ∧ g = (sc == .GLOBAL)) ∨
  (∃ t ∈ p.texts, n = t.name ∧ g = t.isGlobal) ∨
  (∃ s ∈ scriptsOf p, (n, g) ∈ labelStmtsOf s.body) ∨
  (∃ s ∈ inlineScriptsOf p, n = s.name ∧ g = (s.scope == .GLOBAL))

/-- **label_line_iff_source**: `C15c.label_line_iff` (every label line, with its flag) in source vocabulary. -/
theorem label_line_iff_source (o : Opts) (p : Program) (ls : List Line) (h : emitProgram o p = .ok ls)
    (n : String) (g : Bool) :
    Line.labelDef n g ∈ ls ↔ DeclaredSrc p n g ∨ (g = false ∧ Generated o p n) := by
  rw [label_line_iff o p ls h]
  unfold Declared DeclaredSrc
  exact or_congr (or_congr Iff.rfl (or_congr Iff.rfl (or_congr Iff.rfl (or_congr Iff.rfl (or_congr Iff.rfl
    (or_congr (user_labels_source o p ls h n g) Iff.rfl)))))) Iff.rfl

/-- `C15c.WrittenExported` in source vocabulary. -/
def WrittenExportedSrc (tops : List Top) (n : String) : Prop :=
  (∃ s, Top.script s ∈ tops ∧ s.name = n ∧ s.scope = .GLOBAL) ∨
  (∃ m, Top.mapscripts m ∈ tops ∧ m.name = n ∧ m.scope = .GLOBAL) ∨
  (∃ m, Top.movement m ∈ tops ∧ m.name = n ∧ m.scope = .GLOBAL) ∨
  (∃ tok tis items, Top.mart tok n tis items .GLOBAL ∈ tops) ∨
  (∃ t, Top.text t ∈ tops ∧ t.name = n ∧ t.isGlobal = true) ∨
  (∃ s ∈ tops.flatMap topScripts, (n, true) ∈ labelStmtsOf s.body)

/-- **parsed_exported_iff_source**: parser + emitter: the exported label lines are exactly the statements whose
parsed scope is GLOBAL and the label statements written `Name(global):` anywhere in a script body. -/
theorem parsed_exported_iff_source (env : Env) (toks : List Tok) (p : Program)
    (hp : parseTokens env toks = .ok p) (o : Opts) (ls : List Line) (h : emitProgram o p = .ok ls)
    (n : String) : Line.labelDef n true ∈ ls ↔ WrittenExportedSrc p.tops n := by
  rw [parsed_exported_iff env toks p hp o ls h]
  unfold WrittenExported WrittenExportedSrc
  exact or_congr Iff.rfl (or_congr Iff.rfl (or_congr Iff.rfl (or_congr Iff.rfl (or_congr Iff.rfl
    (user_labels_source o p ls h n true)))))

/-! ## 4. non-vacuity -/

def cmdS (id : Nat) (n : String) (args : List String := []) : Stmt := .cmd { id := id, name := n, args := args }
def flagE (n : String) : OpExpr := { operand := { lit := n }, operator := .EQ, cmpValue := "TRUE", type := .FLAG }
def varE (v : String) (op : TT) (x : String) : OpExpr :=
  { operand := { lit := v }, operator := op, cmpValue := x, type := .VAR }

/-- ```
script S {
  Start:
  if (flag(F)) { InIf: a } elif (flag(G)) { InElif: } else { b InElse(global): }
  while (var(V) < 3) { c break d Dead: e }            // `d Dead: e`: dead code after `break`
  switch (var(W)) { case 1: InCase: f  default: InDefault(global): }
  goto(Elsewhere) AfterGoto: g end                     // after a user `goto`; block-final `end`
}
``` -/
def demo : Script :=
  { name := "S", scope := .GLOBAL,
    body := [ .label {} "Start" false,
              .ite {} (.leaf (flagE "F")) [.label {} "InIf" false, cmdS 1 "a"]
                [ (.leaf (flagE "G"), [.label {} "InElif" false]) ]
                (some [cmdS 2 "b", .label {} "InElse" true]),
              .while_ {} 1 (some (.leaf (varE "V" .LT "3")))
                [cmdS 3 "c", .brk {} 1, cmdS 4 "d", .label {} "Dead" false, cmdS 5 "e"],
              .switch_ {} 2 { lit := "W" }
                [ ({ lit := "1" }, false, [.label {} "InCase" false, cmdS 6 "f"]),
                  ({}, true, [.label {} "InDefault" true]) ],
              cmdS 7 "goto" ["Elsewhere"],
              .label {} "AfterGoto" false,
              cmdS 8 "g",
              cmdS 9 "end" ] }

/-- the label statements of `demo`, in source order; `Dead` (after `break`) and `AfterGoto` are there -/
theorem demo_labelStmts : labelStmtsOf demo.body =
    [("Start", false), ("InIf", false), ("InElif", false), ("InElse", true), ("Dead", false),
     ("InCase", false), ("InDefault", true), ("AfterGoto", false)] := by decide

/-- the chunk-table side, computed: the same label statements in worklist order -/
theorem demo_userLabelDefs : userLabelDefsOf demo =
    [("Dead", false), ("InDefault", true), ("InCase", false), ("AfterGoto", false), ("InElse", true),
     ("InElif", false), ("InIf", false), ("Start", false)] := by decide

example : (userLabelDefsOf demo).Perm (labelStmtsOf demo.body) := by
  rw [demo_userLabelDefs, demo_labelStmts]; decide

/-- only a permutation: the table is not in source order -/
theorem census_not_in_source_order : userLabelDefsOf demo ≠ labelStmtsOf demo.body := by decide

def demoLines (b : Bool) : List Line :=
  match emitScript { optimize := b } [] [] demo with | .ok ls => ls | .error _ => []

theorem demo_emit_false : emitScript { optimize := false } [] [] demo = .ok (demoLines false) := by
  have : (emitScript { optimize := false } [] [] demo).isOk = true := by decide
  unfold demoLines
  cases h : emitScript { optimize := false } [] [] demo with
  | ok ls => rfl
  | error e => rw [h] at this; cases this

example : (userLabelDefsOf demo).Perm (labelStmtsOf demo.body) :=
  label_census { optimize := false } [] [] demo _ demo_emit_false

/-- the label lines of the unoptimised output, computed (chunk ids ascending): every label statement once, with
its flag; the dead `Dead` sits in the last, unlabelled chunk -/
theorem demo_labelLines_false : labelsOf (demoLines false) =
    [("S", true), ("Start", false), ("S_1", false), ("S_2", false), ("InIf", false), ("S_3", false),
     ("InElif", false), ("S_4", false), ("InElse", true), ("S_5", false), ("S_6", false), ("S_7", false),
     ("S_8", false), ("S_9", false), ("S_10", false), ("S_11", false), ("AfterGoto", false), ("S_12", false),
     ("S_13", false), ("InCase", false), ("S_14", false), ("InDefault", true), ("Dead", false)] := by decide

example := label_statement_line { optimize := false } [] [] demo _ demo_emit_false
example : Line.labelDef "Dead" false ∈ demoLines false :=
  label_statement_line { optimize := false } [] [] demo _ demo_emit_false "Dead" false (by decide)
example : Line.labelDef "InElse" true ∈ demoLines false :=
  label_statement_line { optimize := false } [] [] demo _ demo_emit_false "InElse" true (by decide)
example := script_label_line_iff { optimize := false } [] [] demo _ demo_emit_false
example : ∀ g', Line.labelDef "InDefault" g' ∈ demoLines false → g' = true := fun g' =>
  label_statement_flag_unique { optimize := false } [] [] demo _ demo_emit_false "InDefault" true g' (by decide)
    (by decide)

/-! the optimised order -/

/-- the chunk table of `demo`, as the worklist leaves it (newest binding first); the dead code `d Dead: e` after
`break` is chunk 15 — kept entirely, label included -/
def demoTable : List Chunk :=
  [ { id := 15, returnID := some 8, statements := [cmdS 4 "d", .label {} "Dead" false, cmdS 5 "e"] },
    { id := 14, returnID := some 11, statements := [.label {} "InDefault" true] },
    { id := 13, returnID := some 11, statements := [.label {} "InCase" false, cmdS 6 "f"] },
    { id := 12, returnID := some 11, branch := .switch_ { lit := "W" } [⟨{ lit := "1" }, 13⟩] (some 14) none },
    { id := 11, useEndTerminator := true,
      statements := [cmdS 7 "goto" ["Elsewhere"], .label {} "AfterGoto" false, cmdS 8 "g"] },
    { id := 8, returnID := some 7, branch := .jump 10 },
    { id := 9, returnID := some 8, statements := [cmdS 3 "c"], branch := .breakCtx (some 7) },
    { id := 10, branch := .leaf 9 (varE "V" .LT "3") (some 7) },
    { id := 7, returnID := some 11, branch := .jump 12 },
    { id := 6, branch := .leaf 2 (flagE "F") (some 5) },
    { id := 5, branch := .leaf 3 (flagE "G") (some 4) },
    { id := 4, returnID := some 1, statements := [cmdS 2 "b", .label {} "InElse" true] },
    { id := 3, returnID := some 1, statements := [.label {} "InElif" false] },
    { id := 2, returnID := some 1, statements := [.label {} "InIf" false, cmdS 1 "a"] },
    { id := 1, returnID := some 7, branch := .jump 8 },
    { id := 0, returnID := some 1, statements := [.label {} "Start" false], branch := .jump 6 } ]

theorem demoTable_ok : scriptChunks demo.body = .ok demoTable := rfl

example : (demoTable.flatMap fun c => stmtLabels c.statements).Perm (labelStmtsOf demo.body) :=
  label_census_table demo.body demoTable demoTable_ok

theorem demo_order : C05.chunkOrder { optimize := true } demoTable =
    .ok [0, 6, 5, 4, 1, 8, 10, 7, 12, 14, 11, 2, 3, 9, 13, 15] := by
  simp [C05.chunkOrder, optimizeChunkOrder, demoTable, optimizeLoop, optimizeLoop.pick, scanUnvisited,
    findChunk, tailId]

/-- the optimised output of `demo` -/
def demoLinesT : List Line :=
  [ .labelDef "S" true, .labelDef "Start" false, .gotoIfSet "F" "S_2", .gotoIfSet "G" "S_3",
    .command "b" [], .labelDef "InElse" true,
    .labelDef "S_1" false,
    .labelDef "S_8" false, .compare false "V" "3", .gotoIfCmp .LT "S_9",
    .labelDef "S_7" false, .switch_ "W", .case_ "1" "S_13",
    .labelDef "InDefault" true,
    .labelDef "S_11" false, .command "goto" ["Elsewhere"], .labelDef "AfterGoto" false, .command "g" [],
    .terminator true, .blank,
    .labelDef "S_2" false, .labelDef "InIf" false, .command "a" [], .goto_ "S_1", .blank,
    .labelDef "S_3" false, .labelDef "InElif" false, .goto_ "S_1", .blank,
    .labelDef "S_9" false, .command "c" [], .goto_ "S_7", .blank,
    .labelDef "S_13" false, .labelDef "InCase" false, .command "f" [], .goto_ "S_11", .blank,
    .command "d" [], .labelDef "Dead" false, .command "e" [], .goto_ "S_8", .blank ]

set_option maxRecDepth 100000 in
theorem demo_emit_true : emitScript { optimize := true } [] [] demo = .ok demoLinesT := by
  rw [C05.emitScript_eq]
  simp only [demoTable_ok]
  rw [C05.renderChunks_eq, demo_order]
  rfl

/-- the label lines of the optimised output: another order, fewer sub-labels (fall-throughs), the same label
statements with the same flags; the dead chunk `d Dead: e` comes last, unlabelled -/
theorem demo_labelLines_true : labelsOf demoLinesT =
    [("S", true), ("Start", false), ("InElse", true), ("S_1", false), ("S_8", false), ("S_7", false),
     ("InDefault", true), ("S_11", false), ("AfterGoto", false), ("S_2", false), ("InIf", false), ("S_3", false),
     ("InElif", false), ("S_9", false), ("S_13", false), ("InCase", false), ("Dead", false)] := by decide

example : (userLabelDefsOf demo).Perm (labelStmtsOf demo.body) :=
  label_census { optimize := true } [] [] demo _ demo_emit_true
example : Line.labelDef "Dead" false ∈ demoLinesT :=
  label_statement_line { optimize := true } [] [] demo _ demo_emit_true "Dead" false (by decide)
example : Line.labelDef "InDefault" true ∈ demoLinesT :=
  label_statement_line { optimize := true } [] [] demo _ demo_emit_true "InDefault" true (by decide)
example := script_label_lines_perm { optimize := true } [] [] demo _ demo_emit_true
example : (labelsOf demoLinesT).count ("Dead", false) = 1 := by
  rw [label_statement_line_count { optimize := true } [] [] demo _ demo_emit_true _ (by decide)]; decide
example : defCount (demoLines false) "InElse" = 1 := by
  rw [label_statement_name_count { optimize := false } [] [] demo _ demo_emit_false _ (by decide)]; decide
example := label_statement_fresh { optimize := true } [] [] demo _ demo_emit_true "Dead" (by decide)
example : ∀ g', Line.labelDef "InElse" g' ∈ demoLinesT → g' = true := fun g' =>
  label_statement_flag_unique { optimize := true } [] [] demo _ demo_emit_true "InElse" true g' (by decide)
    (by decide)

/-- a label statement written twice (with different flags) is accepted and rendered twice — the census counts it
twice on both sides (C04c's F23-style observation: the emitter does not check label statements against each
other) -/
theorem duplicate_label_statement :
    let s : Script := { name := "S", body := [.label {} "L" false,
      .ite {} (.leaf (flagE "F")) [.label {} "L" true] [] none] }
    labelStmtsOf s.body = [("L", false), ("L", true)] ∧ userLabelDefsOf s = [("L", true), ("L", false)] ∧
    (emitScript { optimize := false } [] [] s).isOk = true := by decide

/-- the hypothesis of the census is needed: a body the worklist rejects (`break` outside a loop) has no chunk
table, `userLabelDefsOf` is `[]` by definition -/
theorem census_needs_table :
    let s : Script := { name := "S", body := [.label {} "L" true, .brk {} 1] }
    (scriptChunks s.body).isOk = false ∧ userLabelDefsOf s = [] ∧ labelStmtsOf s.body = [("L", true)] := by
  decide

/-! ### a whole program -/

def inl : Script :=
  { name := "M_OnLoad", scope := .LOCAL,
    body := [.ite {} (.leaf (flagE "F")) [.label {} "InlineLbl" true] [] none, cmdS 20 "end"] }
def demoProg : Program :=
  { tops := [ .script demo, .raw {} {} "x", .movement { name := "Mv", cmds := [{ lit := "walk_up" }] },
              .mapscripts
                { tok := {}, name := "M", scope := .GLOBAL,
                  mapScripts := [ ⟨{ lit := "ON_LOAD" }, "M_OnLoad", some inl⟩ ], tables := [] } ],
    texts := [ { name := "T", value := "hi$", isGlobal := true } ] }

def demoProgLines : List Line :=
  match emitProgram { optimize := false } demoProg with | .ok ls => ls | .error _ => []
theorem demoProg_emit : emitProgram { optimize := false } demoProg = .ok demoProgLines := by
  have : (emitProgram { optimize := false } demoProg).isOk = true := by decide
  unfold demoProgLines
  cases h : emitProgram { optimize := false } demoProg with
  | ok ls => rfl
  | error e => rw [h] at this; cases this

/-- the exported lines of the program, computed -/
theorem demoProg_exported : (labelsOf demoProgLines).filter (·.2) =
    [("S", true), ("InElse", true), ("InDefault", true), ("M", true), ("InlineLbl", true), ("T", true)] := by
  decide

example : ∀ n, Line.labelDef n true ∈ demoProgLines ↔ ExportedSrc demoProg n :=
  exported_iff_source { optimize := false } demoProg _ demoProg_emit
example := label_line_iff_source { optimize := false } demoProg _ demoProg_emit

/-- the `(global)` label statement nested in the `if` of the INLINE map script is exported, by clause (iii') -/
theorem demo_inline_exported : ExportedSrc demoProg "InlineLbl" :=
  .inr (.inr (.inr (.inr (.inr (.inl ⟨inl, by simp [scriptsOf, demoProg, topScripts, optScripts], by decide⟩)))))

example : Line.labelDef "InlineLbl" true ∈ demoProgLines :=
  (exported_iff_source { optimize := false } demoProg _ demoProg_emit _).2 demo_inline_exported

#print axioms label_census_table
#print axioms label_census
#print axioms label_names_census
#print axioms script_label_line_iff
#print axioms label_statement_line
#print axioms script_label_lines_perm
#print axioms label_statement_fresh
#print axioms label_statement_line_count
#print axioms label_statement_name_count
#print axioms label_statement_flag_exact
#print axioms label_statement_flag_unique
#print axioms user_labels_source
#print axioms exported_iff_source
#print axioms label_line_iff_source
#print axioms parsed_exported_iff_source

end Pory.C15d
