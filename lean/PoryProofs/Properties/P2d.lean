import PoryProofs.ProgramParsePS
import PoryProofs.ProgramInsertMS
/-
P2d — the whole-file grammar theorem ("parse ∘ print = elaborate" for whole files, P2 / P2b) COMPLETED by the three
forms P2 and P2b list as NOT COVERED: poryswitch inside movement lists, inside mart lists and inside text
statements, and `format( … )` text values.

Helper modules (all new; nothing existing was edited):
  PoryProofs/ListSwitchErr.lean   lists with nested poryswitch for BOTH list kinds, all outcomes (`parse_list_ps`);
  PoryProofs/TextSwitchErr.lean   text bodies (value / poryswitch over values, `format()` included), all outcomes;
  PoryProofs/ProgramGrammarPS.lean  grammar `STopP`, printer, `TWFP`, reference elaboration;
  PoryProofs/ProgramParsePS.lean    the parser on printed files.
Reused: P2b (`STopM`, every old statement kind through the embedding), C14b's syntax `ItemP / Cases / Items` and the
one-step lemmas `plvA_*`, C12b / TopParse (`header_run`, `header_no_switches`, `header_undefined_switch`,
`tcases_close`), C09c / TextValueParse (`TVal`, `tval_run`, `text_statement_err`), C07b (`Params`, through `TVal`),
C15b (`parse_movement_statement_gen`, `parse_mart_statement_gen`, `parse_text_statement_gen`).

COVERED GRAMMAR  `STopP` = `base t` (`t : P2b.STopM`: script / raw / const / movement / mart / text with plain lists
and values / mapscripts; `STopP.base` IS the embedding, `embedM = List.map STopP.base`, `printTopsP_embed`,
`TWFP_embed`, `elabTopsP_embed`) plus
    movementP  `movement [(global|local)] Name { element* }`
                 element ::= `step` | `step * N` | `,` | `poryswitch ( X ) { case* }`
                 case    ::= `key : element` | `key { element* }`          key an IDENT or INT token
               nested to ANY depth (`C14b.Items`); an invalid multiplier `N` is IN the grammar and elaborates to
               the located error (this also removes P2's restriction "multipliers valid");
    martP      `mart [(global|local)] Name { element* }`, element ::= `ITEM` | poryswitch as above (any depth);
    textP      `text [(global|local)] Name { body }`
                 body  ::= value | `poryswitch ( X ) { (key : value | key { value })* }`
                 value ::= `STRING` | `STRINGTYPE STRING` | `format ( [STRINGTYPE] STRING [, params] )`
               (`TextValueParse.TVal`; `params` = `C07b.Params`: positional font / length prefix, named
               parameters; `format()` may also be the value of a case).
  Every constructor carries the tokens it is printed with (arbitrary records, any positions / literals); `TopWFP`
  / `TWFP` (decidable) fix token types only (+ the repetition rule of `format()` parameters, `Params.NoRep`).
NOT COVERED: what P2 / P2b / P1 list as not covered and is not mentioned above (a `const` as last statement, token
  sequences outside the grammar — a `,` in a mart list, a missing `}` of a case …, the lexer); `format()` with
  parameter lists outside `C07b.Params`.

REFERENCE ELABORATION (`stepTopP`, `elItems`, `elBody`): a poryswitch contributes EXACTLY the selected case — the
NEWEST entry for the `-s` value of the switch, else the newest `_` entry (`pick`) —, spliced in place, in source
order; ALL cases are elaborated first (an error inside an unselected case is an error of the statement, as in the
model = Go: F18). Located errors, all part of the reference (`headerErr`, `pick`, `plainEl`, `TVal.raw`):
  no `-s` option at all          on the `poryswitch` token   (environment errors on)
  switch not defined             on the switch name          (environment errors on)
  no case for the value, no `_`  on the `poryswitch` token   (environment errors on; the lint parser yields no
                                                             elements / the text `("", "")` WITHOUT terminator)
  multiplier not in 1..9999      on the multiplier token     (three messages, C14b)
  `format()` with unknown font   on the font token in force  (C07b; lint parser: the empty text + terminator)
The first error in source order wins. The new statements change the parser state exactly like their plain
counterparts (a text statement is appended to `textStatements`; nothing is hoisted, no id is consumed).

PROVED (nothing partial for the covered grammar)
* `parse_list_ps`       : `parseListValue` (movement lists closed by `}` or `)`, mart lists) on a printed list with
                          nested poryswitch elements = `elItems` (window lemma, all outcomes);
* `parse_text_body_ps`  : the body parser of a text statement on a printed body = `elBody`;
* `parse_top_elab_ps`   : `parseTopLevelStatement` on one printed statement of `STopP` = `stepTopP`
                          (+ `parse_movementP_elab`, `parse_martP_elab`, `parse_textP_elab` spelled out);
* `parse_tops_elab_ps`, `parse_program_elab_ps` : the top-level loop, the post-passes;
* `parse_file_elab_ps`  : `parseTokens env (printTopsP ts ++ [eofT]) = elabFileP env ts (initState eofT)` for every
                          `TWFP` file, with the model's own fuel `4 * tokens + 50` (shown sufficient);
                          `parse_file_embed_ps`: on embedded files this is P2b's elaboration.
* selection facts        : `pick_newest`, `pick_fallback`, `pick_none` (what `pick` selects),
                          `movement_plain_is_old`, `mart_plain_is_old` (a poryswitch-free `movementP` / `martP`
                          statement elaborates like the old `movement` / `mart` statement).
Examples (section Example): the required file — a movement with a NESTED poryswitch, a mart with one, a text with
one (a `format()` in its `_` case) and a `format()` text — parsed by `decide` on the parser model and by the
theorem, under two different `-s` settings; the five located errors through `parseTokens`.
-/
namespace Pory.P2d
open Pory Pory.Parser Pory.C02P Pory.StmtG Pory.TopParse Pory.P2 Pory.P2b
open Pory.C14b (Item ItemP Cases Items swVal)
open Pory.TextValueParse (TVal)

/-! ## 1. window lemmas -/

/-- **A printed list with (nested) poryswitch elements**, followed by its closing token: the parser returns the
accumulator extended by the reference elaboration and stops on the closing token (nothing else in the state
changes), or fails with the located error of the reference. `k` = `.movement .RBRACE` (movement statement),
`.movement .RPAREN` (`moves(…)`) or `.mart`. -/
theorem parse_list_elab_ps (env : Env) (k : ListKind) (hg : GoodKind k) (s : PState) (items : Items)
    (close : Tok) (rest : List Tok) (hwf : wfItems (isMart k) items) (hclose : close.type = k.closing)
    (acc : List Tok) (fuel : Nat) (hf : items.toks.length + 1 ≤ fuel) :
    (parseListValue env k true fuel acc).run (st s (items.toks ++ close :: rest)) =
      match elItems env items with
      | .error e => .error e
      | .ok out => .ok (acc ++ out, st s (close :: rest)) :=
  parse_list_ps env k hg s items close rest hwf hclose acc fuel hf

/-- **A printed text body** (a value, or a poryswitch over values): the body parser of `parseTextStatement`
returns the reference elaboration and stops on the last token of the body. -/
theorem parse_text_body_ps (env : Env) (fuel : Nat) (s : PState) (b : TBody) (tl : List Tok) (hb : b.WF)
    (hf : b.need ≤ fuel) :
    (if ((b.toks ++ tl).headD s.eof).type = .PORYSWITCH then parsePoryswitchTextStatement env fuel
      else parseTextValue env fuel).run (st s (b.toks ++ tl)) =
      match elBody env b with
      | .error e => .error e
      | .ok v => .ok (v, st s (b.last :: tl)) :=
  body_run env fuel s b tl hb hf

/-- **One printed top-level statement of the completed grammar** (followed by `nx :: rest`; after a `const`,
`nx` is a top-level keyword): result, state (window left on the last token of the statement), or located error. -/
theorem parse_top_elab_ps (env : Env) (fuel : Nat) (t : STopP) (s : PState) (nx : Tok) (rest : List Tok)
    (hwf : TopWFP t) (hnx : t.isConst = true → nx.type ∈ Facts.topLevelTokens) (hf : needTopP t ≤ fuel) :
    (parseTopLevelStatement env fuel).run (st s (printTopP t ++ nx :: rest)) =
      match stepTopP env t s with
      | .error e => .error e
      | .ok (o, s') => .ok (o, st s' (t.last :: nx :: rest)) :=
  parse_top_step_ps env fuel t s nx rest hwf hnx hf

/-- … spelled out for a movement statement with poryswitch elements. -/
theorem parse_movementP_elab (env : Env) (fuel : Nat) (kw : Tok) (md : Mod) (name lb : Tok) (items : Items)
    (rb : Tok) (s : PState) (rest : List Tok) (hwf : TopWFP (.movementP kw md name lb items rb))
    (hf : items.toks.length + 1 ≤ fuel) :
    (parseTopLevelStatement env fuel).run (st s (kw :: (md.toks ++ name :: lb :: (items.toks ++ rb :: rest)))) =
      match elItems env items with
      | .error e => .error e
      | .ok out =>
        .ok (some (.movement { tok := kw, name := name.lit, cmds := out,
                               scope := md.scope (defaultScopeOf "parseMovementStatement") }),
             st s (rb :: rest)) := by
  obtain ⟨h1, h2, h3, h4, h5, h6⟩ := hwf
  rw [top_movementP env fuel s kw md name lb items rb rest h1 h2 h3 h4 h5 h6 hf]
  simp only [stepTopP]
  cases elItems env items <;> rfl

/-- … for a mart statement with poryswitch elements (the item strings: constants substituted in the SELECTED
items). -/
theorem parse_martP_elab (env : Env) (fuel : Nat) (kw : Tok) (md : Mod) (name lb : Tok) (items : Items)
    (rb : Tok) (s : PState) (rest : List Tok) (hwf : TopWFP (.martP kw md name lb items rb))
    (hf : items.toks.length + 1 ≤ fuel) :
    (parseTopLevelStatement env fuel).run (st s (kw :: (md.toks ++ name :: lb :: (items.toks ++ rb :: rest)))) =
      match elItems env items with
      | .error e => .error e
      | .ok out =>
        .ok (some (.mart kw name.lit out (out.map fun t => substC s.constants t.lit)
                     (md.scope (defaultScopeOf "parseMartStatement"))), st s (rb :: rest)) := by
  obtain ⟨h1, h2, h3, h4, h5, h6⟩ := hwf
  rw [top_martP env fuel s kw md name lb items rb rest h1 h2 h3 h4 h5 h6 hf]
  simp only [stepTopP]
  cases elItems env items <;> rfl

/-- … for a text statement whose body is a value (`format()` included) or a poryswitch over values. -/
theorem parse_textP_elab (env : Env) (fuel : Nat) (kw : Tok) (md : Mod) (name lb : Tok) (b : TBody)
    (rb : Tok) (s : PState) (rest : List Tok) (hwf : TopWFP (.textP kw md name lb b rb)) (hf : b.need ≤ fuel) :
    (parseTopLevelStatement env fuel).run (st s (kw :: (md.toks ++ name :: lb :: (b.toks ++ rb :: rest)))) =
      match elBody env b with
      | .error e => .error e
      | .ok v =>
        .ok (some (.text (C15b.mkText kw name (md.scope (defaultScopeOf "parseTextStatement")) v)),
             { st s (rb :: rest) with textStatements := s.textStatements ++
                 [C15b.mkText kw name (md.scope (defaultScopeOf "parseTextStatement")) v] }) := by
  obtain ⟨h1, h2, h3, h4, h5, h6⟩ := hwf
  rw [top_textP env fuel s kw md name lb b rb rest h1 h2 h3 h4 h5 h6 hf]
  simp only [stepTopP]
  cases elBody env b <;> rfl

/-! ## 2. whole files -/

/-- **The top-level loop** on a printed file of the completed grammar. -/
theorem parse_tops_elab_ps (env : Env) (fuel : Nat) (eofT : Tok) (tl : List Tok) (heof : eofT.type = .EOF)
    (ts : List STopP) (n : Nat) (acc : List Top) (s : PState) (hwf : TWFP ts) (hn : ts.length + 1 ≤ n)
    (hf : ∀ t ∈ ts, needTopP t ≤ fuel) :
    (topLoop env fuel n acc).run (st s (printTopsP ts ++ eofT :: tl)) =
      match elabTopsP env ts s with
      | .error e => .error e
      | .ok (tops, s') => .ok (acc ++ tops, st s' (eofT :: tl)) :=
  topLoopP_elab env fuel eofT tl heof ts n acc s hwf hn hf

/-- … followed by the post-passes of `ParseProgram`. -/
theorem parse_program_elab_ps (env : Env) (fuel : Nat) (eofT : Tok) (tl : List Tok) (heof : eofT.type = .EOF)
    (ts : List STopP) (s : PState) (hwf : TWFP ts) (hn : ts.length + 1 ≤ fuel)
    (hf : ∀ t ∈ ts, needTopP t ≤ fuel) :
    (parseProgramM env fuel).run (st s (printTopsP ts ++ eofT :: tl)) =
      match elabTopsP env ts s with
      | .error e => .error e
      | .ok (tops, s') =>
        match finish tops s' with
        | .error e => .error e
        | .ok p => .ok (p, st s' (eofT :: tl)) :=
  parseProgramM_elabP env fuel eofT tl heof ts s hwf hn hf

/-- **P2d, whole files**: `parseTokens` (with its own fuel `4 * tokens + 50`) on the printed tokens of a
well-formed file of the completed grammar is the reference elaboration followed by the post-passes: the
documented `Program`, or the located error of the first violation. -/
theorem parse_file_elab_ps (env : Env) (eofT : Tok) (heof : eofT.type = .EOF) (ts : List STopP) (hwf : TWFP ts) :
    parseTokens env (printTopsP ts ++ [eofT]) = elabFileP env ts (initState eofT) :=
  parseTokens_elabP env eofT heof ts hwf

/-- On embedded files of the grammar of P2b: P2b's elaboration. -/
theorem parse_file_embed_ps (env : Env) (eofT : Tok) (heof : eofT.type = .EOF) (ts : List STopM) (hwf : TWFM ts) :
    parseTokens env (printTopsP (embedM ts) ++ [eofT]) = elabFileM env ts (initState eofT) := by
  rw [parse_file_elab_ps env eofT heof _ ((TWFP_embed ts).2 hwf), elabFileP_embed]

/-- The documented `Program` of an accepted file. -/
theorem parse_file_program_ps (env : Env) (ts : List STopP) (s0 : PState) (p : Program)
    (h : elabFileP env ts s0 = .ok p) :
    ∃ tops s, elabTopsP env ts s0 = .ok (tops, s) ∧
      p = { tops := tops ++ s.inlineMovements.map Top.movement, texts := s.inlineTexts ++ s.textStatements,
            patches := s.patches } ∧
      (textNames s).Nodup ∧ (allMvNames tops s).Nodup := by
  unfold elabFileP at h
  cases he : elabTopsP env ts s0 with
  | error e => rw [he] at h; cases h
  | ok q =>
    obtain ⟨tops, s⟩ := q
    rw [he] at h
    obtain ⟨h1, h2⟩ := (finish_ok_iff tops s).1 ⟨p, h⟩
    exact ⟨tops, s, rfl, finish_eq tops s p h, h1, h2⟩

/-! ## 3. what is selected -/

/-- The NEWEST entry for the `-s` value wins: a case written LAST with the switch value as key is the one
selected, whatever came before (the case table is newest first). -/
theorem pick_newest {α : Type} (env : Env) (psw x : Tok) (cs : List (String × α)) (v d : α) :
    pick env psw x ((swVal env x.lit, v) :: cs) d = .ok v := by
  simp [pick, List.lookup]

/-- `_` is used only when no case has the switch value as key. -/
theorem pick_fallback {α : Type} (env : Env) (psw x : Tok) (cs : List (String × α)) (v d : α)
    (h1 : cs.lookup (swVal env x.lit) = none) (h2 : cs.lookup "_" = some v) : pick env psw x cs d = .ok v := by
  simp [pick, h1, h2]

/-- No case for the value and no `_`: the located error (the compiler), or the default (the lint parser). -/
theorem pick_none {α : Type} (env : Env) (psw x : Tok) (cs : List (String × α)) (d : α)
    (h1 : cs.lookup (swVal env x.lit) = none) (h2 : cs.lookup "_" = none) :
    pick env psw x cs d = if env.envErrors then .error (noCaseErr env psw x) else .ok d := by
  simp [pick, h1, h2]

/-- A poryswitch-free `movementP` statement elaborates like the old `movement` statement of P2 (when the
multipliers are valid, which P2 requires). -/
theorem movement_plain_is_old (env : Env) (kw : Tok) (md : Mod) (name lb : Tok) (items : List Item) (rb : Tok)
    (s : PState) (out : List Tok) (hex : C14b.expand items = some out) :
    stepTopP env (.movementP kw md name lb (Items.ofList items) rb) s =
      stepTopP env (.base (.base (.movement kw md name lb items rb))) s := by
  simp [stepTopP, stepTopM, stepTop, elItems_ofList_of_expand env items out hex, hex]

/-- A poryswitch-free `martP` statement elaborates like the old `mart` statement. -/
theorem mart_plain_is_old (env : Env) (kw : Tok) (md : Mod) (name lb : Tok) (items : List Tok) (rb : Tok)
    (s : PState) :
    stepTopP env (.martP kw md name lb (martItems items) rb) s =
      stepTopP env (.base (.base (.mart kw md name lb items rb))) s := by
  simp [stepTopP, stepTopM, stepTop, martItems_el]

/-! ## 4. examples, non-vacuity -/
section Example

private def lp : Tok := tk .LPAREN "("
private def rp : Tok := tk .RPAREN ")"
private def lb : Tok := tk .LBRACE "{"
private def rb : Tok := tk .RBRACE "}"
private def col : Tok := tk .COLON ":"
private def psw : Tok := tk .PORYSWITCH "poryswitch"
private def id (s : String) : Tok := tk .IDENT s
private def step (s : String) : ItemP := .plain (.step (id s))
/-- the final token -/
def eofT : Tok := tk .EOF ""

/-- ```
movement M {
  walk_up
  poryswitch(GAME) {
    RUBY: walk_left
    EMERALD { walk_down * 2  poryswitch(LANG) { EN: face_up  _ { face_down , face_left } } }
    _: walk_right
  }
  step_x
}
``` (a poryswitch NESTED in a case of a poryswitch) -/
def exMove : STopP :=
  .movementP (tk .MOVEMENT "movement") .absent (id "M") lb
    (.cons (step "walk_up")
    (.cons (.sw psw lp (id "GAME") rp lb
        (.colon (id "RUBY") col (step "walk_left")
        (.brace (id "EMERALD") lb
          (.cons (.plain (.stepMul (id "walk_down") (tk .MUL "*") (tk .INT "2")))
          (.cons (.sw psw lp (id "LANG") rp lb
              (.colon (id "EN") col (step "face_up")
              (.brace (id "_") lb
                (.cons (step "face_down") (.cons (.plain (.comma (tk .COMMA ","))) (.cons (step "face_left") .nil)))
                rb .nil)) rb)
          .nil)) rb
        (.colon (id "_") col (step "walk_right") .nil))) rb)
    (.cons (step "step_x") .nil))) rb

/-- `mart Shop { ITEM_A  poryswitch(GAME) { RUBY { ITEM_R ITEM_S }  _: ITEM_X }  ITEM_B }` -/
def exMart : STopP :=
  .martP (tk .MART "mart") .absent (id "Shop") lb
    (.cons (step "ITEM_A")
    (.cons (.sw psw lp (id "GAME") rp lb
        (.brace (id "RUBY") lb (.cons (step "ITEM_R") (.cons (step "ITEM_S") .nil)) rb
        (.colon (id "_") col (step "ITEM_X") .nil)) rb)
    (.cons (step "ITEM_B") .nil))) rb

/-- `format("aa bb", "TEST", 100)` -/
def exFmt (lit len : String) : TVal :=
  .format (tk .FORMAT "format") lp none (tk .STRING lit)
    ⟨.fontLen (tk .COMMA ",") (tk .STRING "TEST") (tk .COMMA ",") (tk .INT len), tk .COMMA ",", []⟩ rp

/-- `text T { poryswitch(GAME) { RUBY: "Ruby"  EMERALD { braille "A" }  _: format("aa bb", "TEST", 100)
EMERALD: ascii "E" } }` (two `EMERALD` cases: the later one wins) -/
def exTextSw : STopP :=
  .textP (tk .TEXT "text") .absent (id "T") lb
    (.sw psw lp (id "GAME") rp lb
      [.colon (id "RUBY") col (.plain (tk .STRING "Ruby")),
       .brace (id "EMERALD") lb (.typed (tk .STRINGTYPE "braille") (tk .STRING "A")) rb,
       .colon (id "_") col (exFmt "aa bb" "100"),
       .colon (id "EMERALD") col (.typed (tk .STRINGTYPE "ascii") (tk .STRING "E"))] rb) rb

/-- `text F { format("aa bb cc", "TEST", 50) }` -/
def exTextFmt : STopP :=
  .textP (tk .TEXT "text") (.written lp (tk .LOCAL "local") rp) (id "F") lb (.val (exFmt "aa bb cc" "50")) rb

/-- `raw` in front (an old statement, through the embedding) -/
def exRaw : STopP := .base (.base (.raw (tk .RAW "raw") (tk .RAWSTRING "nop")))

/-- the five-statement file of the non-vacuity requirement -/
def exFile : List STopP := [exRaw, exMove, exMart, exTextSw, exTextFmt]

-- sanity check (evaluation, not a proof): the printed tokens are what the model lexer produces
#guard (Lexer.lexAll ("raw `nop` movement M { walk_up poryswitch(GAME) { RUBY: walk_left EMERALD { walk_down * 2 " ++
    "poryswitch(LANG) { EN: face_up _ { face_down , face_left } } } _: walk_right } step_x } " ++
    "mart Shop { ITEM_A poryswitch(GAME) { RUBY { ITEM_R ITEM_S } _: ITEM_X } ITEM_B } " ++
    "text T { poryswitch(GAME) { RUBY: \"Ruby\" EMERALD { braille\"A\" } _: format(\"aa bb\", \"TEST\", 100) " ++
    "EMERALD: ascii\"E\" } } text (local) F { format(\"aa bb cc\", \"TEST\", 50) }").toList).map
      (fun t => (t.type, t.lit)) ==
  (printTopsP exFile ++ [eofT]).map (fun t => (t.type, t.lit))

theorem exFile_wf : TWFP exFile := by decide

/-- a program as the examples look at it: the steps of the movement statements, the items (tokens, strings) of
the mart statements, the texts (name, value, string type, exported) -/
structure PV where
  n : Nat
  moves : List (String × List String)
  marts : List (String × List String × List String)
  texts : List (String × String × String × Bool)
  deriving DecidableEq, Repr

def progView (p : Program) : PV :=
  ⟨p.tops.length,
   p.tops.filterMap (fun | .movement m => some (m.name, m.cmds.map (·.lit)) | _ => none),
   p.tops.filterMap (fun | .mart _ n toks items _ => some (n, toks.map (·.lit), items) | _ => none),
   p.texts.map (fun t => (t.name, t.value, t.stringType, t.isGlobal))⟩

/-- `-s GAME=EMERALD -s LANG=EN` -/
def env1 : Env := { switches := [("GAME", "EMERALD"), ("LANG", "EN")] }
/-- `-s GAME=SAPPHIRE -s LANG=DE` (no `SAPPHIRE` case anywhere: the `_` cases) -/
def env2 : Env := { switches := [("GAME", "SAPPHIRE"), ("LANG", "DE")] }
/-- `-s GAME=EMERALD -s LANG=DE`: the nested poryswitch falls back to its `_` case -/
def env3 : Env := { switches := [("GAME", "EMERALD"), ("LANG", "DE")] }

/-- under `env1`: the `EMERALD` case with the nested `EN` case spliced in place; the mart falls back to `_`;
the text is the LATER `EMERALD` case (type `ascii`, terminator `\0`); the `format()` text is broken in two lines. -/
def view1 : PV :=
  { n := 5
    moves := [("M", ["walk_up", "walk_down", "walk_down", "face_up", "step_x"])]
    marts := [("Shop", ["ITEM_A", "ITEM_X", "ITEM_B"], ["ITEM_A", "ITEM_X", "ITEM_B"])]
    texts := [("T", "E\\0", "ascii", true), ("F", "aa bb\\n\ncc$", "", false)] }

/-- under `env2`: the `_` cases; the text is the `format()` of the `_` case. -/
def view2 : PV :=
  { n := 5
    moves := [("M", ["walk_up", "walk_right", "step_x"])]
    marts := [("Shop", ["ITEM_A", "ITEM_X", "ITEM_B"], ["ITEM_A", "ITEM_X", "ITEM_B"])]
    texts := [("T", "aa bb$", "", true), ("F", "aa bb\\n\ncc$", "", false)] }

/-- **Non-vacuity, by evaluation of the parser model** (`decide` on `parseTokens`), two `-s` settings. -/
theorem exFile_parsed_decide_1 :
    (parseTokens env1 (printTopsP exFile ++ [eofT])).toOption.map progView = some view1 := by decide

theorem exFile_parsed_decide_2 :
    (parseTokens env2 (printTopsP exFile ++ [eofT])).toOption.map progView = some view2 := by decide

/-- **Non-vacuity, by the theorem**: the same through `parse_file_elab_ps` (the reference elaboration evaluated). -/
theorem exFile_parsed_theorem_1 :
    ∃ p, parseTokens env1 (printTopsP exFile ++ [eofT]) = .ok p ∧ progView p = view1 := by
  rw [parse_file_elab_ps env1 eofT rfl exFile exFile_wf]
  exact ⟨_, rfl, by decide⟩

theorem exFile_parsed_theorem_2 :
    ∃ p, parseTokens env2 (printTopsP exFile ++ [eofT]) = .ok p ∧ progView p = view2 := by
  rw [parse_file_elab_ps env2 eofT rfl exFile exFile_wf]
  exact ⟨_, rfl, by decide⟩

/-- the nested poryswitch alone falls back to `_` under `env3`: `face_down face_left` (the comma vanishes) -/
example :
    ∃ p, parseTokens env3 (printTopsP [exMove] ++ [eofT]) = .ok p ∧
      (progView p).moves = [("M", ["walk_up", "walk_down", "walk_down", "face_down", "face_left", "step_x"])] := by
  rw [parse_file_elab_ps env3 eofT rfl _ (by decide)]
  exact ⟨_, rfl, by decide⟩

/-- `parse_top_elab_ps` instantiated: the mart statement in a state with the constant `ITEM_X = 7` — the
constant is substituted in the SELECTED item. -/
example :
    (parseTopLevelStatement env1 100).run
        (st { initState eofT with constants := [("ITEM_X", "7")] } (printTopP exMart ++ [eofT])) =
      .ok (some (.mart (tk .MART "mart") "Shop" [id "ITEM_A", id "ITEM_X", id "ITEM_B"] ["ITEM_A", "7", "ITEM_B"]
                   .LOCAL),
           st { initState eofT with constants := [("ITEM_X", "7")] } [rb, eofT]) := by
  rw [parse_top_elab_ps env1 100 exMart _ eofT [] (by decide) (fun h => by cases h) (by decide)]
  rfl

/-! ### the located errors, through `parseTokens` -/

/-- no `-s` option at all: located on the first `poryswitch` token of the file -/
example :
    parseTokens {} (printTopsP exFile ++ [eofT]) = .error (noSwitchesErr psw) := by
  rw [parse_file_elab_ps {} eofT rfl exFile exFile_wf]
  rfl

/-- `-s LANG=EN` only: `GAME` is not defined — located on the switch name -/
example :
    parseTokens { switches := [("LANG", "EN")] } (printTopsP exFile ++ [eofT]) =
      .error (undefSwitchErr (id "GAME")) := by
  rw [parse_file_elab_ps _ eofT rfl exFile exFile_wf]
  rfl

/-- `-s GAME=RUBY` only: the nested `poryswitch(LANG)` sits in the UNSELECTED case `EMERALD`, and is an error all
the same (all cases are parsed) -/
example :
    parseTokens { switches := [("GAME", "RUBY")] } (printTopsP exFile ++ [eofT]) =
      .error (undefSwitchErr (id "LANG")) := by
  rw [parse_file_elab_ps _ eofT rfl exFile exFile_wf]
  rfl

/-- `text T { poryswitch(GAME) { RUBY: "Ruby" } }` with `-s GAME=EMERALD`: no case, no `_` — located on the
`poryswitch` token; in the lint parser the text is `("", "")`, WITHOUT terminator. -/
def exNoCase : STopP :=
  .textP (tk .TEXT "text") .absent (id "T") lb
    (.sw psw lp (id "GAME") rp lb [.colon (id "RUBY") col (.plain (tk .STRING "Ruby"))] rb) rb

example :
    parseTokens env1 (printTopsP [exNoCase] ++ [eofT]) = .error (noCaseErr env1 psw (id "GAME")) := by
  rw [parse_file_elab_ps _ eofT rfl _ (by decide)]
  rfl

example :
    ∃ p, parseTokens { env1 with envErrors := false } (printTopsP [exNoCase] ++ [eofT]) = .ok p ∧
      (progView p).texts = [("T", "", "", true)] := by
  rw [parse_file_elab_ps _ eofT rfl _ (by decide)]
  exact ⟨_, rfl, by decide⟩

/-- `movement M { poryswitch(GAME) { EMERALD: walk_up  RUBY: walk_up * 10000 } }`: the bad multiplier sits in
the unselected case — located on the multiplier. -/
def exBadMul : STopP :=
  .movementP (tk .MOVEMENT "movement") .absent (id "M") lb
    (.cons (.sw psw lp (id "GAME") rp lb
      (.colon (id "EMERALD") col (step "walk_up")
      (.colon (id "RUBY") col (.plain (.stepMul (id "walk_up") (tk .MUL "*") (tk .INT "10000"))) .nil)) rb) .nil) rb

example :
    parseTokens env1 (printTopsP [exBadMul] ++ [eofT]) =
      .error (newParseError (tk .INT "10000") "movement mulplier '10000' is too large. Maximum is 9999") := by
  rw [parse_file_elab_ps _ eofT rfl _ (by decide)]
  exact congrArg (fun m => Except.error (newParseError (tk .INT "10000") m)) (by decide)

end Example

#print axioms parse_list_elab_ps
#print axioms parse_text_body_ps
#print axioms parse_top_elab_ps
#print axioms parse_movementP_elab
#print axioms parse_martP_elab
#print axioms parse_textP_elab
#print axioms parse_tops_elab_ps
#print axioms parse_program_elab_ps
#print axioms parse_file_elab_ps
#print axioms parse_file_embed_ps
#print axioms exFile_parsed_decide_1
#print axioms exFile_parsed_theorem_2

end Pory.P2d
