import PoryProofs.ProgramSelectPS
import PoryProofs.Properties.C12b
/-
P2d — the whole-file grammar theorem ("parse ∘ print = elaborate" for whole files, P2 / P2b) COMPLETED by the three
forms P2 and P2b list as NOT COVERED: poryswitch inside movement lists, inside mart lists and inside text
statements, and `format( … )` text values; and the independence clause of C17 lifted to the completed grammar.

Helper modules (all new; nothing existing was edited):
  PoryProofs/ListSwitchErr.lean     lists with nested poryswitch for BOTH list kinds, all outcomes (`parse_list_ps`);
  PoryProofs/TextSwitchErr.lean     text bodies (value / poryswitch over values, `format()` included), all outcomes;
  PoryProofs/ProgramGrammarPS.lean  grammar `STopP`, printer, `TWFP`, reference elaboration;
  PoryProofs/ProgramParsePS.lean    the parser on printed files;
  PoryProofs/ProgramSelectPS.lean   the hand-selected plain file `selTops`, `compileFileP`, independence.
Reused: P2b (`STopM`, every old statement kind through the embedding; `indep_mainM`, `remove_statementM`), C14b's
syntax `ItemP / Cases / Items` and one-step lemmas `plvA_*`, C12b / TopParse (`header_run`, `header_no_switches`,
`header_undefined_switch`, `tcases_close`, `selectText`), C09c / TextValueParse (`TVal`, `tval_run`,
`text_statement_err`), C07b (`Params`, through `TVal`), C09 (`terminator_idempotent`), C15b
(`parse_movement_statement_gen`, `parse_mart_statement_gen`, `parse_text_statement_gen`).

COVERED GRAMMAR  `STopP` = `base t` (`t : P2b.STopM`: script / raw / const / movement / mart / text with plain lists
and values / mapscripts; `STopP.base` IS the embedding, `embedM = List.map STopP.base`, `printTopsP_embed`,
`TWFP_embed`, `elabTopsP_embed`, `compileFileP_embed`) plus
    movementP  `movement [(global|local)] Name { element* }`
                 element ::= `step` | `step * N` | `,` | `poryswitch ( X ) { case* }`
                 case    ::= `key : element` | `key { element* }`          key an IDENT or INT token
               nested to ANY depth (`C14b.Items`); an invalid multiplier `N` is IN the grammar and elaborates to
               the located error (this also removes P2's restriction "multipliers valid");
    martP      `mart [(global|local)] Name { element* }`, element ::= `ITEM` | poryswitch as above (any depth);
    textP      `text [(global|local)] Name { body }`
                 body  ::= value | `poryswitch ( X ) { (key : value | key { value })* }`
                 value ::= `STRING` | `STRINGTYPE STRING` | `format ( [STRINGTYPE] STRING [, params] )`
               (`TextValueParse.TVal`; `params` = `C07b.Params`: positional font / length prefix, named
               parameters; `format()` may also be the value of a case).
  Every constructor carries the tokens it is printed with (arbitrary records, any positions / literals); `TopWFP`
  / `TWFP` (decidable) fix token types only (+ the repetition rule of `format()` parameters, `Params.NoRep`).
NOT COVERED: what P2 / P2b / P1 list as not covered and is not mentioned above (a `const` as last statement, token
  sequences outside the grammar — a `,` in a mart list, a missing `}` of a case …, the lexer: `#guard` checks the
  example tokens against the model lexer); `format()` with parameter lists outside `C07b.Params`; poryswitch inside
  `moves( … )` arguments of commands in script bodies (the window lemma `parse_list_elab_ps` covers the `)`-closed
  list, P1's statement grammar does not use it).

REFERENCE ELABORATION (`stepTopP`, `elItems`, `elBody`): a poryswitch contributes EXACTLY the selected case — the
NEWEST entry for the `-s` value of the switch, else the newest `_` entry (`pick`; `pick_last`: = the LAST such case
in source order) —, spliced in place, in source order; ALL cases are elaborated first (an error inside an
unselected case is an error of the statement, as in the model = Go: F18). Located errors, all part of the
reference (`headerErr`, `pick`, `plainEl`, `TVal.raw`):
  no `-s` option at all          on the `poryswitch` token   (environment errors on)
  switch not defined             on the switch name          (environment errors on)
  no case for the value, no `_`  on the `poryswitch` token   (environment errors on; the lint parser yields no
                                                             elements / the text `("", "")` WITHOUT terminator)
  multiplier not in 1..9999      on the multiplier token     (three messages, C14b)
  `format()` with unknown font   on the font token in force  (C07b; lint parser: the empty text + terminator)
The first error in source order wins. The new statements change the parser state exactly like their plain
counterparts (a text statement is appended to `textStatements`; nothing is hoisted, no id is consumed).

PROVED
1. parse ∘ print = elaborate (nothing partial for the covered grammar)
* `parse_list_elab_ps`  : `parseListValue` (movement lists closed by `}` or `)`, mart lists) on a printed list with
                          nested poryswitch elements = `elItems` (window lemma, all outcomes);
* `parse_text_body_ps`  : the body parser of a text statement on a printed body = `elBody`;
* `parse_top_elab_ps`   : `parseTopLevelStatement` on one printed statement of `STopP` = `stepTopP`
                          (+ `parse_movementP_elab`, `parse_martP_elab`, `parse_textP_elab` spelled out);
* `parse_tops_elab_ps`, `parse_program_elab_ps` : the top-level loop, the post-passes;
* `parse_file_elab_ps`  : `parseTokens env (printTopsP ts ++ [eofT]) = elabFileP env ts (initState eofT)` for every
                          `TWFP` file, with the model's own fuel `4 * tokens + 50` (shown sufficient);
                          `parse_file_embed_ps`: on embedded files this is P2b's elaboration.
2. what is selected: `pick_newest`, `pick_fallback`, `pick_none`, `elCases_src` + `pick_last` + `elItem_sw` (the
   case table is the source-order list reversed; the LAST matching case wins), `elBody_literal` (on string-literal
   cases the reference IS C12b's `selectText` / `textResult`), `movement_plain_is_old`, `mart_plain_is_old`.
3. the hand-selected plain file (C12 for lists and texts, whole files): `selTops env ts : Option (List STopM)` —
   every poryswitch replaced by its selected case, `step * N` written out, `format()` values formatted;
* `elab_selected`        : `selTops env ts = some ms → elabTopsP env ts s = elabTopsM env ms s` in EVERY state;
* `file_selected`        : `compileFileP env o eofT ts = compileFileM env o eofT ms` (same sections or same error);
* `file_selected_tokens` : `ms` is a well-formed file of P2b's grammar and the model's pipeline gives the same result
                           on the printed tokens of both files;
* `selected_defined`     : with environment errors on, every file that elaborates has a hand-selected file.
4. independence (C17) for the completed grammar, environment errors on
* `compile_print_ps`     : `parseTokens` + `emitProgram` on the printed tokens IS `compileFileP`;
* `tops_independent_ps`  : for `IndepP env eofT ts1 ts2` (decidable) = `P2b.IndepM` of the hand-selected files —
      `compileFileP (ts1 ++ ts2) = .ok S ↔ ∃ S1 S2, compileFileP ts1 = .ok S1 ∧ compileFileP ts2 = .ok S2 ∧ S = S1.append S2`;
  the new forms hoist nothing and consume no ids, so the side condition is the one of P2b, read on the SELECTED
  cases only (a constant of `ts1` spelled like an item of an unselected mart case of `ts2` is harmless, one spelled
  like the selected item is not: example below); `tops_independent_ps_tokens`, `parse_error_left_ps`,
  `parse_error_right_ps`;
* `statement_independent_ps` : `P2b.statement_independent_ms` lifted (`UnrelatedP`, decidable).
5. examples (section Example): the required file — a movement with a NESTED poryswitch, a mart with one, a text
   with one (a `format()` in its `_` case) and a `format()` text — parsed by the theorem (reference elaboration
   evaluated) under two different `-s` settings, and by `decide` on the parser model: the first four statements
   under both settings + the `format()` statement (`decide` on all five at once exceeds the heartbeat limit, see
   `exTextFmt_parsed_decide`); compiled sections; the hand-selected file as source text; instances of the
   independence theorems; the five located errors through `parseTokens`; `lint_hole`.

PARTIAL / OPEN (honest list)
* The independence theorems (4.) and `selected_defined` assume `env.envErrors = true` (the compiler; `false` is the
  lint parser, which never emits): in the lint parser a text poryswitch WITHOUT selected case yields the text
  `("", "")` — no terminator —, which no plain text statement denotes (`lint_hole`), so such a statement has no
  hand-selected form and the route through P2b does not apply to it. `elab_selected` / `file_selected` hold for
  every environment whenever `selTops` is defined.
* As in P2 / P2b: `statement_independent_ps` in the "remove" direction; errors of failing combined files are
  compared only for parse errors.

NOTICED IN THE MODEL (= parser.go)
* lint parser: `text T { poryswitch(X) { A: "a" } }` with no matching case gives a text with value `""` and NO
  terminator (every other text value ends with its terminator) — `parsePoryswitchTextStatement` returns `("", "")`
  without going through `formatTextTerminator`;
* a bad multiplier / an undefined nested switch inside an UNSELECTED case is an error (all cases are parsed), in
  lists as in texts (F18 for lists);
* evaluating `format()` through the parser model by `decide` is very slow for words of two or more letters
  (examples use one-letter words); no semantic issue.
-/
namespace Pory.P2d
open Pory Pory.Parser Pory.C02P Pory.StmtG Pory.TopParse Pory.P2 Pory.P2b Pory.Emit
open Pory.C14b (Item ItemP Cases Items swVal)
open Pory.TextValueParse (TVal)

/-! ## 1. window lemmas -/

/-- **A printed list with (nested) poryswitch elements**, followed by its closing token: the parser returns the
accumulator extended by the reference elaboration and stops on the closing token (nothing else in the state
changes), or fails with the located error of the reference. `k` = `.movement .RBRACE` (movement statement),
`.movement .RPAREN` (`moves(…)`) or `.mart`. -/
theorem parse_list_elab_ps (env : Env) (k : ListKind) (hg : GoodKind k) (s : PState) (items : Items)
    (close : Tok) (rest : List Tok) (hwf : wfItems (isMart k) items) (hclose : close.type = k.closing)
    (acc : List Tok) (fuel : Nat) (hf : items.toks.length + 1 ≤ fuel) :
    (parseListValue env k true fuel acc).run (st s (items.toks ++ close :: rest)) =
      match elItems env items with
      | .error e => .error e
      | .ok out => .ok (acc ++ out, st s (close :: rest)) :=
  parse_list_ps env k hg s items close rest hwf hclose acc fuel hf

/-- **A printed text body** (a value, or a poryswitch over values): the body parser of `parseTextStatement`
returns the reference elaboration and stops on the last token of the body. -/
theorem parse_text_body_ps (env : Env) (fuel : Nat) (s : PState) (b : TBody) (tl : List Tok) (hb : b.WF)
    (hf : b.need ≤ fuel) :
    (if ((b.toks ++ tl).headD s.eof).type = .PORYSWITCH then parsePoryswitchTextStatement env fuel
      else parseTextValue env fuel).run (st s (b.toks ++ tl)) =
      match elBody env b with
      | .error e => .error e
      | .ok v => .ok (v, st s (b.last :: tl)) :=
  body_run env fuel s b tl hb hf

/-- **One printed top-level statement of the completed grammar** (followed by `nx :: rest`; after a `const`,
`nx` is a top-level keyword): result, state (window left on the last token of the statement), or located error. -/
theorem parse_top_elab_ps (env : Env) (fuel : Nat) (t : STopP) (s : PState) (nx : Tok) (rest : List Tok)
    (hwf : TopWFP t) (hnx : t.isConst = true → nx.type ∈ Facts.topLevelTokens) (hf : needTopP t ≤ fuel) :
    (parseTopLevelStatement env fuel).run (st s (printTopP t ++ nx :: rest)) =
      match stepTopP env t s with
      | .error e => .error e
      | .ok (o, s') => .ok (o, st s' (t.last :: nx :: rest)) :=
  parse_top_step_ps env fuel t s nx rest hwf hnx hf

/-- … spelled out for a movement statement with poryswitch elements. -/
theorem parse_movementP_elab (env : Env) (fuel : Nat) (kw : Tok) (md : Mod) (name lb : Tok) (items : Items)
    (rb : Tok) (s : PState) (rest : List Tok) (hwf : TopWFP (.movementP kw md name lb items rb))
    (hf : items.toks.length + 1 ≤ fuel) :
    (parseTopLevelStatement env fuel).run (st s (kw :: (md.toks ++ name :: lb :: (items.toks ++ rb :: rest)))) =
      match elItems env items with
      | .error e => .error e
      | .ok out =>
        .ok (some (.movement { tok := kw, name := name.lit, cmds := out,
                               scope := md.scope (defaultScopeOf "parseMovementStatement") }),
             st s (rb :: rest)) := by
  obtain ⟨h1, h2, h3, h4, h5, h6⟩ := hwf
  rw [top_movementP env fuel s kw md name lb items rb rest h1 h2 h3 h4 h5 h6 hf]
  simp only [stepTopP]
  cases elItems env items <;> rfl

/-- … for a mart statement with poryswitch elements (the item strings: constants substituted in the SELECTED
items). -/
theorem parse_martP_elab (env : Env) (fuel : Nat) (kw : Tok) (md : Mod) (name lb : Tok) (items : Items)
    (rb : Tok) (s : PState) (rest : List Tok) (hwf : TopWFP (.martP kw md name lb items rb))
    (hf : items.toks.length + 1 ≤ fuel) :
    (parseTopLevelStatement env fuel).run (st s (kw :: (md.toks ++ name :: lb :: (items.toks ++ rb :: rest)))) =
      match elItems env items with
      | .error e => .error e
      | .ok out =>
        .ok (some (.mart kw name.lit out (out.map fun t => substC s.constants t.lit)
                     (md.scope (defaultScopeOf "parseMartStatement"))), st s (rb :: rest)) := by
  obtain ⟨h1, h2, h3, h4, h5, h6⟩ := hwf
  rw [top_martP env fuel s kw md name lb items rb rest h1 h2 h3 h4 h5 h6 hf]
  simp only [stepTopP]
  cases elItems env items <;> rfl

/-- … for a text statement whose body is a value (`format()` included) or a poryswitch over values. -/
theorem parse_textP_elab (env : Env) (fuel : Nat) (kw : Tok) (md : Mod) (name lb : Tok) (b : TBody)
    (rb : Tok) (s : PState) (rest : List Tok) (hwf : TopWFP (.textP kw md name lb b rb)) (hf : b.need ≤ fuel) :
    (parseTopLevelStatement env fuel).run (st s (kw :: (md.toks ++ name :: lb :: (b.toks ++ rb :: rest)))) =
      match elBody env b with
      | .error e => .error e
      | .ok v =>
        .ok (some (.text (C15b.mkText kw name (md.scope (defaultScopeOf "parseTextStatement")) v)),
             { st s (rb :: rest) with textStatements := s.textStatements ++
                 [C15b.mkText kw name (md.scope (defaultScopeOf "parseTextStatement")) v] }) := by
  obtain ⟨h1, h2, h3, h4, h5, h6⟩ := hwf
  rw [top_textP env fuel s kw md name lb b rb rest h1 h2 h3 h4 h5 h6 hf]
  simp only [stepTopP]
  cases elBody env b <;> rfl

/-! ## 2. whole files -/

/-- **The top-level loop** on a printed file of the completed grammar. -/
theorem parse_tops_elab_ps (env : Env) (fuel : Nat) (eofT : Tok) (tl : List Tok) (heof : eofT.type = .EOF)
    (ts : List STopP) (n : Nat) (acc : List Top) (s : PState) (hwf : TWFP ts) (hn : ts.length + 1 ≤ n)
    (hf : ∀ t ∈ ts, needTopP t ≤ fuel) :
    (topLoop env fuel n acc).run (st s (printTopsP ts ++ eofT :: tl)) =
      match elabTopsP env ts s with
      | .error e => .error e
      | .ok (tops, s') => .ok (acc ++ tops, st s' (eofT :: tl)) :=
  topLoopP_elab env fuel eofT tl heof ts n acc s hwf hn hf

/-- … followed by the post-passes of `ParseProgram`. -/
theorem parse_program_elab_ps (env : Env) (fuel : Nat) (eofT : Tok) (tl : List Tok) (heof : eofT.type = .EOF)
    (ts : List STopP) (s : PState) (hwf : TWFP ts) (hn : ts.length + 1 ≤ fuel)
    (hf : ∀ t ∈ ts, needTopP t ≤ fuel) :
    (parseProgramM env fuel).run (st s (printTopsP ts ++ eofT :: tl)) =
      match elabTopsP env ts s with
      | .error e => .error e
      | .ok (tops, s') =>
        match finish tops s' with
        | .error e => .error e
        | .ok p => .ok (p, st s' (eofT :: tl)) :=
  parseProgramM_elabP env fuel eofT tl heof ts s hwf hn hf

/-- **P2d, whole files**: `parseTokens` (with its own fuel `4 * tokens + 50`) on the printed tokens of a
well-formed file of the completed grammar is the reference elaboration followed by the post-passes: the
documented `Program`, or the located error of the first violation. -/
theorem parse_file_elab_ps (env : Env) (eofT : Tok) (heof : eofT.type = .EOF) (ts : List STopP) (hwf : TWFP ts) :
    parseTokens env (printTopsP ts ++ [eofT]) = elabFileP env ts (initState eofT) :=
  parseTokens_elabP env eofT heof ts hwf

/-- On embedded files of the grammar of P2b: P2b's elaboration. -/
theorem parse_file_embed_ps (env : Env) (eofT : Tok) (heof : eofT.type = .EOF) (ts : List STopM) (hwf : TWFM ts) :
    parseTokens env (printTopsP (embedM ts) ++ [eofT]) = elabFileM env ts (initState eofT) := by
  rw [parse_file_elab_ps env eofT heof _ ((TWFP_embed ts).2 hwf), elabFileP_embed]

/-- The documented `Program` of an accepted file. -/
theorem parse_file_program_ps (env : Env) (ts : List STopP) (s0 : PState) (p : Program)
    (h : elabFileP env ts s0 = .ok p) :
    ∃ tops s, elabTopsP env ts s0 = .ok (tops, s) ∧
      p = { tops := tops ++ s.inlineMovements.map Top.movement, texts := s.inlineTexts ++ s.textStatements,
            patches := s.patches } ∧
      (textNames s).Nodup ∧ (allMvNames tops s).Nodup := by
  unfold elabFileP at h
  cases he : elabTopsP env ts s0 with
  | error e => rw [he] at h; cases h
  | ok q =>
    obtain ⟨tops, s⟩ := q
    rw [he] at h
    obtain ⟨h1, h2⟩ := (finish_ok_iff tops s).1 ⟨p, h⟩
    exact ⟨tops, s, rfl, finish_eq tops s p h, h1, h2⟩

/-! ## 3. what is selected -/

/-- The NEWEST entry for the `-s` value wins: a case written LAST with the switch value as key is the one
selected, whatever came before (the case table is newest first). -/
theorem pick_newest {α : Type} (env : Env) (psw x : Tok) (cs : List (String × α)) (v d : α) :
    pick env psw x ((swVal env x.lit, v) :: cs) d = .ok v := by
  simp [pick, List.lookup]

/-- `_` is used only when no case has the switch value as key. -/
theorem pick_fallback {α : Type} (env : Env) (psw x : Tok) (cs : List (String × α)) (v d : α)
    (h1 : cs.lookup (swVal env x.lit) = none) (h2 : cs.lookup "_" = some v) : pick env psw x cs d = .ok v := by
  simp [pick, h1, h2]

/-- No case for the value and no `_`: the located error (the compiler), or the default (the lint parser). -/
theorem pick_none {α : Type} (env : Env) (psw x : Tok) (cs : List (String × α)) (d : α)
    (h1 : cs.lookup (swVal env x.lit) = none) (h2 : cs.lookup "_" = none) :
    pick env psw x cs d = if env.envErrors then .error (noCaseErr env psw x) else .ok d := by
  simp [pick, h1, h2]

/-- The elaborated cases of a list poryswitch in SOURCE order (key, elements). -/
def srcCases (env : Env) : Cases → Except PFail (List (String × List Tok))
  | .nil => .ok []
  | .colon v _ e rest =>
    match elItem env e with
    | .error e => .error e
    | .ok l =>
      match srcCases env rest with
      | .error e => .error e
      | .ok r => .ok ((v.lit, l) :: r)
  | .brace v _ items _ rest =>
    match elItems env items with
    | .error e => .error e
    | .ok l =>
      match srcCases env rest with
      | .error e => .error e
      | .ok r => .ok ((v.lit, l) :: r)

/-- The case table of the reference elaboration is the source-order list REVERSED (newest first) … -/
theorem elCases_src (env : Env) : ∀ (cs : Cases) (acc : List (String × List Tok)),
    elCases env cs acc =
      match srcCases env cs with
      | .error e => .error e
      | .ok l => .ok (l.reverse ++ acc)
  | .nil, acc => rfl
  | .colon v c e rest, acc => by
    simp only [elCases, srcCases]
    cases elItem env e with
    | error e => rfl
    | ok l =>
      simp only [elCases_src env rest]
      cases srcCases env rest with
      | error e => rfl
      | ok r => simp
  | .brace v lb items rb rest, acc => by
    simp only [elCases, srcCases]
    cases elItems env items with
    | error e => rfl
    | ok l =>
      simp only [elCases_src env rest]
      cases srcCases env rest with
      | error e => rfl
      | ok r => simp

/-- The LAST entry with key `k` of a source-order list. -/
def lastCase {α : Type} (k : String) (l : List (String × α)) : Option α :=
  (l.reverse.find? (fun c => c.1 == k)).map (·.2)

theorem lookup_reverse {α : Type} (l : List (String × α)) (k : String) : l.reverse.lookup k = lastCase k l := by
  have := C12b.lookup_map_find (fun c : String × α => c.1) (fun c => c.2) l.reverse k
  simpa [lastCase] using this

/-- … so `pick` selects the LAST case (in source order) whose key is the `-s` value, else the LAST `_` case. -/
theorem pick_last {α : Type} (env : Env) (psw x : Tok) (l : List (String × α)) (d : α) :
    pick env psw x l.reverse d =
      match lastCase (swVal env x.lit) l with
      | some v => .ok v
      | none =>
        match lastCase "_" l with
        | some v => .ok v
        | none => if env.envErrors then .error (noCaseErr env psw x) else .ok d := by
  simp only [pick, lookup_reverse]
  cases lastCase (swVal env x.lit) l <;> cases lastCase "_" l <;> rfl

/-- A list poryswitch, spelled out: header errors, the cases in source order (first error wins), the last
matching case. -/
theorem elItem_sw (env : Env) (psw lp x rp lb rb : Tok) (cases : Cases) :
    elItem env (.sw psw lp x rp lb cases rb) =
      match headerErr env psw x with
      | some e => .error e
      | none =>
        match srcCases env cases with
        | .error e => .error e
        | .ok l => pick env psw x l.reverse [] := by
  simp only [elItem, elCases_src]
  cases headerErr env psw x with
  | some e => rfl
  | none =>
    cases srcCases env cases with
    | error e => rfl
    | ok l => simp

/-- A text poryswitch over STRING-LITERAL cases whose header passes is `C12b.textResult`: the reference
elaboration agrees with the specification `C12b.selectText` (last case with the `-s` value, else last `_`). -/
def litCase : TCase → TCaseV
  | .colon key c v => .colon key c (match v with | .plain s => .plain s | .typed t s => .typed t s)
  | .brace key lb v rb => .brace key lb (match v with | .plain s => .plain s | .typed t s => .typed t s) rb

theorem elVal_lit (env : Env) (v : TextVal) :
    elVal env (match v with | .plain s => .plain s | .typed t s => .typed t s) = .ok v.value := by
  cases v <;> rfl

theorem elTCases_lit (env : Env) : ∀ (cs : List TCase) (acc : List (String × String × String)),
    elTCases env (cs.map litCase) acc = .ok (caseTable cs acc)
  | [], acc => rfl
  | c :: r, acc => by
    cases c with
    | colon key cl v =>
      simp only [List.map_cons, elTCases, litCase, TCaseV.val, TCaseV.key, elVal_lit, caseTable, TCase.key, TCase.val]
      exact elTCases_lit env r _
    | brace key lb v rb =>
      simp only [List.map_cons, elTCases, litCase, TCaseV.val, TCaseV.key, elVal_lit, caseTable, TCase.key, TCase.val]
      exact elTCases_lit env r _

theorem elBody_literal (env : Env) (psw lp x rp lb rb : Tok) (cs : List TCase) (h : headerErr env psw x = none) :
    elBody env (.sw psw lp x rp lb (cs.map litCase) rb) =
      match C12b.selectText env x.lit cs with
      | some c => .ok c.val.value
      | none => if env.envErrors then .error (noCaseErr env psw x) else .ok ("", "") := by
  simp only [elBody, h, elTCases_lit, pick, C12b.caseTable_lookup, C12b.selectText]
  cases h1 : C12b.lastWithKey (swVal env x.lit) cs with
  | some c => rfl
  | none =>
    cases h2 : C12b.lastWithKey "_" cs with
    | some c => rfl
    | none => rfl

/-- A poryswitch-free `movementP` statement elaborates like the old `movement` statement of P2 (when the
multipliers are valid, which P2 requires). -/
theorem movement_plain_is_old (env : Env) (kw : Tok) (md : Mod) (name lb : Tok) (items : List Item) (rb : Tok)
    (s : PState) (out : List Tok) (hex : C14b.expand items = some out) :
    stepTopP env (.movementP kw md name lb (Items.ofList items) rb) s =
      stepTopP env (.base (.base (.movement kw md name lb items rb))) s := by
  simp [stepTopP, stepTopM, stepTop, elItems_ofList_of_expand env items out hex, hex]

/-- A poryswitch-free `martP` statement elaborates like the old `mart` statement. -/
theorem mart_plain_is_old (env : Env) (kw : Tok) (md : Mod) (name lb : Tok) (items : List Tok) (rb : Tok)
    (s : PState) :
    stepTopP env (.martP kw md name lb (martItems items) rb) s =
      stepTopP env (.base (.base (.mart kw md name lb items rb))) s := by
  simp [stepTopP, stepTopM, stepTop, martItems_el]

/-! ## 4. the pipeline, the hand-selected file, independence -/

/-- The model's pipeline (`parseTokens`, then `emitProgram`) on the printed tokens of a file is `compileFileP`. -/
theorem compile_print_ps (env : Env) (o : Opts) (eofT : Tok) (heof : eofT.type = .EOF) (ts : List STopP)
    (hwf : TWFP ts) :
    compileToks env o (printTopsP ts ++ [eofT]) =
      match compileFileP env o eofT ts with
      | .error e => .error e
      | .ok S => .ok S.lines :=
  compileToks_printP env o eofT heof ts hwf

/-- **The file elaborates exactly as its hand-selected plain file** (`selTops env ts = some ms`: every poryswitch
replaced by its selected case, `step * N` written out, `format()` values formatted): the same statements, the same
parser state, the same located error of an old statement — from EVERY parser state. -/
theorem elab_selected (env : Env) (ts : List STopP) (ms : List STopM) (h : selTops env ts = some ms) (s : PState) :
    elabTopsP env ts s = elabTopsM env ms s :=
  elabTopsP_sel env ts ms h s

/-- **C12 for lists and text statements, whole files**: the file compiles to what its hand-selected plain file
compiles to — the same `Sections`, or the same error. -/
theorem file_selected (env : Env) (o : Opts) (eofT : Tok) (ts : List STopP) (ms : List STopM)
    (h : selTops env ts = some ms) : compileFileP env o eofT ts = compileFileM env o eofT ms :=
  compileFileP_sel env o eofT ts ms h

/-- … through the model's pipeline on the printed tokens of both files (the hand-selected file of a well-formed
file is a well-formed file of the grammar of P2b: `selTops_twf`). -/
theorem file_selected_tokens (env : Env) (o : Opts) (eofT : Tok) (heof : eofT.type = .EOF) (ts : List STopP)
    (ms : List STopM) (h : selTops env ts = some ms) (hwf : TWFP ts) :
    TWFM ms ∧ compileToks env o (printTopsP ts ++ [eofT]) = compileToks env o (printTopsM ms ++ [eofT]) :=
  ⟨selTops_twf env ts ms h hwf, compileToks_sel env o eofT heof ts ms h hwf⟩

/-- With environment errors on (the compiler), a file that elaborates has a hand-selected plain file; a file
without one has a located poryswitch / multiplier / font error in every parser state. -/
theorem selected_defined (env : Env) (henv : env.envErrors = true) (ts : List STopP) (s : PState)
    (r : List Top × PState) (h : elabTopsP env ts s = .ok r) : ∃ ms, selTops env ts = some ms :=
  selTops_defined env henv ts s r h

/-- **C17, independence, completed grammar** (environment errors on). `IndepP env eofT ts1 ts2` (decidable) is
`P2b.IndepM` of the hand-selected files of the two parts: the new forms hoist nothing, consume no ids and read no
constants except in the selected mart items, so the side condition is the one of P2b — (a) no token of (the
hand-selected) `ts2` is spelled like a constant defined in `ts1`; (b) no shared hoisted text / movement, no shared
hoisting name; (c) text names disjoint, movement names disjoint; (d) no label statement of one part is a text name
of the other. In particular only the SELECTED cases of `ts2` matter. -/
theorem tops_independent_ps (env : Env) (henv : env.envErrors = true) (o : Opts) (eofT : Tok)
    (ts1 ts2 : List STopP) (h : IndepP env eofT ts1 ts2) (S : Sections) :
    compileFileP env o eofT (ts1 ++ ts2) = .ok S ↔
      ∃ S1 S2, compileFileP env o eofT ts1 = .ok S1 ∧ compileFileP env o eofT ts2 = .ok S2 ∧
        S = S1.append S2 :=
  indep_mainP env henv o eofT ts1 ts2 h S

/-- … through the model's pipeline on tokens. -/
theorem tops_independent_ps_tokens (env : Env) (henv : env.envErrors = true) (o : Opts) (eofT : Tok)
    (heof : eofT.type = .EOF) (ts1 ts2 : List STopP) (hwf1 : TWFP ts1) (hwf2 : TWFP ts2)
    (hwf : TWFP (ts1 ++ ts2)) (h : IndepP env eofT ts1 ts2) (L : List Line) :
    compileToks env o (printTopsP (ts1 ++ ts2) ++ [eofT]) = .ok L ↔
      ∃ S1 S2, compileToks env o (printTopsP ts1 ++ [eofT]) = .ok S1.lines ∧
        compileToks env o (printTopsP ts2 ++ [eofT]) = .ok S2.lines ∧
        compileFileP env o eofT ts1 = .ok S1 ∧ compileFileP env o eofT ts2 = .ok S2 ∧
        L = (S1.append S2).lines := by
  rw [compile_print_ps env o eofT heof _ hwf, compile_print_ps env o eofT heof _ hwf1,
    compile_print_ps env o eofT heof _ hwf2]
  constructor
  · intro hL
    cases hc : compileFileP env o eofT (ts1 ++ ts2) with
    | error e => rw [hc] at hL; cases hL
    | ok S =>
      rw [hc] at hL
      simp only [Except.ok.injEq] at hL
      obtain ⟨S1, S2, h1, h2, rfl⟩ := (tops_independent_ps env henv o eofT ts1 ts2 h S).1 hc
      exact ⟨S1, S2, by rw [h1], by rw [h2], h1, h2, hL.symm⟩
  · rintro ⟨S1, S2, _, _, h1, h2, rfl⟩
    rw [(tops_independent_ps env henv o eofT ts1 ts2 h _).2 ⟨S1, S2, h1, h2, rfl⟩]

/-- A parse error of the first part is the parse error of the file (no side condition). -/
theorem parse_error_left_ps (env : Env) (s0 : PState) (ts1 ts2 : List STopP) (e : PFail)
    (h : elabTopsP env ts1 s0 = .error e) : elabTopsP env (ts1 ++ ts2) s0 = .error e :=
  parse_error_leftP env s0 ts1 ts2 e h

/-- A parse error of the second part (compiled alone) is the parse error of the file. -/
theorem parse_error_right_ps (env : Env) (eofT : Tok) (ts1 ts2 : List STopP) (a b : List STopM)
    (ha : selTops env ts1 = some a) (hb : selTops env ts2 = some b) (h : IndepM env eofT a b)
    (tops1 : List Top) (s1 : PState) (h1 : elabTopsP env ts1 (initState eofT) = .ok (tops1, s1)) (e : PFail)
    (h2 : elabTopsP env ts2 (initState eofT) = .error e) :
    elabTopsP env (ts1 ++ ts2) (initState eofT) = .error e :=
  parse_error_rightP env eofT ts1 ts2 a b ha hb h tops1 s1 h1 e h2

/-- **C17, one statement, completed grammar** (`UnrelatedP` = `P2b.UnrelatedM` of the hand-selected files; `t`
any statement but a `const` — e.g. a movement with poryswitch elements between scripts). -/
theorem statement_independent_ps (env : Env) (henv : env.envErrors = true) (o : Opts) (eofT : Tok)
    (pre : List STopP) (t : STopP) (post : List STopP) (h : UnrelatedP env eofT pre t post) (S' : Sections)
    (hc : compileFileP env o eofT (pre ++ t :: post) = .ok S') :
    ∃ P T Q : Sections, S' = P.append (T.append Q) ∧ T.tops.length ≤ 1 ∧
      compileFileP env o eofT (pre ++ post) = .ok (P.append Q) :=
  remove_statementP env henv o eofT pre t post h S' hc

/-! ## 5. examples, non-vacuity -/
section Example

private def lp : Tok := tk .LPAREN "("
private def rp : Tok := tk .RPAREN ")"
private def lb : Tok := tk .LBRACE "{"
private def rb : Tok := tk .RBRACE "}"
private def col : Tok := tk .COLON ":"
private def psw : Tok := tk .PORYSWITCH "poryswitch"
private def id (s : String) : Tok := tk .IDENT s
private def step (s : String) : ItemP := .plain (.step (id s))
/-- the final token -/
def eofT : Tok := tk .EOF ""

/-- ```
movement M {
  walk_up
  poryswitch(GAME) {
    RUBY: walk_left
    EMERALD { walk_down * 2  poryswitch(LANG) { EN: face_up  _ { face_down , face_left } } }
    _: walk_right
  }
  step_x
}
``` (a poryswitch NESTED in a case of a poryswitch) -/
def exMoveItems : Items :=
    (.cons (step "walk_up")
    (.cons (.sw psw lp (id "GAME") rp lb
        (.colon (id "RUBY") col (step "walk_left")
        (.brace (id "EMERALD") lb
          (.cons (.plain (.stepMul (id "walk_down") (tk .MUL "*") (tk .INT "2")))
          (.cons (.sw psw lp (id "LANG") rp lb
              (.colon (id "EN") col (step "face_up")
              (.brace (id "_") lb
                (.cons (step "face_down") (.cons (.plain (.comma (tk .COMMA ","))) (.cons (step "face_left") .nil)))
                rb .nil)) rb)
          .nil)) rb
        (.colon (id "_") col (step "walk_right") .nil))) rb)
    (.cons (step "step_x") .nil)))

def exMove : STopP := .movementP (tk .MOVEMENT "movement") .absent (id "M") lb exMoveItems rb

/-- `mart Shop { ITEM_A  poryswitch(GAME) { RUBY { ITEM_R ITEM_S }  _: ITEM_X }  ITEM_B }` -/
def exMart : STopP :=
  .martP (tk .MART "mart") .absent (id "Shop") lb
    (.cons (step "ITEM_A")
    (.cons (.sw psw lp (id "GAME") rp lb
        (.brace (id "RUBY") lb (.cons (step "ITEM_R") (.cons (step "ITEM_S") .nil)) rb
        (.colon (id "_") col (step "ITEM_X") .nil)) rb)
    (.cons (step "ITEM_B") .nil))) rb

/-- `format("a b", "TEST", 100)` -/
def exFmt (lit len : String) : TVal :=
  .format (tk .FORMAT "format") lp none (tk .STRING lit)
    ⟨.fontLen (tk .COMMA ",") (tk .STRING "TEST") (tk .COMMA ",") (tk .INT len), tk .COMMA ",", []⟩ rp

/-- `text T { poryswitch(GAME) { RUBY: "Ruby"  EMERALD { braille "A" }  _: format("a b", "TEST", 100)
EMERALD: ascii "E" } }` (two `EMERALD` cases: the later one wins) -/
def exTextBody : TBody :=
    (.sw psw lp (id "GAME") rp lb
      [.colon (id "RUBY") col (.plain (tk .STRING "Ruby")),
       .brace (id "EMERALD") lb (.typed (tk .STRINGTYPE "braille") (tk .STRING "A")) rb,
       .colon (id "_") col (exFmt "a b" "100"),
       .colon (id "EMERALD") col (.typed (tk .STRINGTYPE "ascii") (tk .STRING "E"))] rb)

def exTextSw : STopP := .textP (tk .TEXT "text") .absent (id "T") lb exTextBody rb

/-- `text F { format("a b c", "TEST", 30) }` -/
def exTextFmt : STopP :=
  .textP (tk .TEXT "text") (.written lp (tk .LOCAL "local") rp) (id "F") lb (.val (exFmt "a b c" "30")) rb

/-- `raw` in front (an old statement, through the embedding) -/
def exRaw : STopP := .base (.base (.raw (tk .RAW "raw") (tk .RAWSTRING "nop")))

/-- the five-statement file of the non-vacuity requirement -/
def exFile : List STopP := [exRaw, exMove, exMart, exTextSw, exTextFmt]

-- sanity check (evaluation, not a proof): the printed tokens are what the model lexer produces
#guard (Lexer.lexAll ("raw `nop` movement M { walk_up poryswitch(GAME) { RUBY: walk_left EMERALD { walk_down * 2 " ++
    "poryswitch(LANG) { EN: face_up _ { face_down , face_left } } } _: walk_right } step_x } " ++
    "mart Shop { ITEM_A poryswitch(GAME) { RUBY { ITEM_R ITEM_S } _: ITEM_X } ITEM_B } " ++
    "text T { poryswitch(GAME) { RUBY: \"Ruby\" EMERALD { braille\"A\" } _: format(\"a b\", \"TEST\", 100) " ++
    "EMERALD: ascii\"E\" } } text (local) F { format(\"a b c\", \"TEST\", 30) }").toList).map
      (fun t => (t.type, t.lit)) ==
  (printTopsP exFile ++ [eofT]).map (fun t => (t.type, t.lit))

theorem exFile_wf : TWFP exFile := by decide

/-- a program as the examples look at it: the steps of the movement statements, the items (tokens, strings) of
the mart statements, the texts (name, value, string type, exported) -/
structure PV where
  n : Nat
  moves : List (String × List String)
  marts : List (String × List String × List String)
  texts : List (String × String × String × Bool)
  deriving DecidableEq, Repr

def progView (p : Program) : PV :=
  ⟨p.tops.length,
   p.tops.filterMap (fun | .movement m => some (m.name, m.cmds.map (·.lit)) | _ => none),
   p.tops.filterMap (fun | .mart _ n toks items _ => some (n, toks.map (·.lit), items) | _ => none),
   p.texts.map (fun t => (t.name, t.value, t.stringType, t.isGlobal))⟩

/-- `-s GAME=EMERALD -s LANG=EN` -/
def env1 : Env := { switches := [("GAME", "EMERALD"), ("LANG", "EN")] }
/-- `-s GAME=SAPPHIRE -s LANG=DE` (no `SAPPHIRE` case anywhere: the `_` cases) -/
def env2 : Env := { switches := [("GAME", "SAPPHIRE"), ("LANG", "DE")] }
/-- `-s GAME=EMERALD -s LANG=DE`: the nested poryswitch falls back to its `_` case -/
def env3 : Env := { switches := [("GAME", "EMERALD"), ("LANG", "DE")] }

/-- under `env1`: the `EMERALD` case with the nested `EN` case spliced in place; the mart falls back to `_`;
the text is the LATER `EMERALD` case (type `ascii`, terminator `\0`); the `format()` text is broken in two lines. -/
def view1 : PV :=
  { n := 5
    moves := [("M", ["walk_up", "walk_down", "walk_down", "face_up", "step_x"])]
    marts := [("Shop", ["ITEM_A", "ITEM_X", "ITEM_B"], ["ITEM_A", "ITEM_X", "ITEM_B"])]
    texts := [("T", "E\\0", "ascii", true), ("F", "a b\\n\nc$", "", false)] }

/-- under `env2`: the `_` cases; the text is the `format()` of the `_` case. -/
def view2 : PV :=
  { n := 5
    moves := [("M", ["walk_up", "walk_right", "step_x"])]
    marts := [("Shop", ["ITEM_A", "ITEM_X", "ITEM_B"], ["ITEM_A", "ITEM_X", "ITEM_B"])]
    texts := [("T", "a b$", "", true), ("F", "a b\\n\nc$", "", false)] }

/-- the first four statements (the movement, the mart, the text with a poryswitch whose `_` case is a `format()`) -/
def exFileA : List STopP := [exRaw, exMove, exMart, exTextSw]

theorem exFile_split : exFile = exFileA ++ [exTextFmt] := rfl

/-- **Non-vacuity, by evaluation of the parser model** (`decide` on `parseTokens`), two `-s` settings: the file
of the first four statements (under `env2` the selected text IS the `format()` of the `_` case) … -/
theorem exFileA_parsed_decide_1 :
    (parseTokens env1 (printTopsP exFileA ++ [eofT])).toOption.map progView =
      some { view1 with n := 4, texts := [("T", "E\\0", "ascii", true)] } := by decide

theorem exFileA_parsed_decide_2 :
    (parseTokens env2 (printTopsP exFileA ++ [eofT])).toOption.map progView =
      some { view2 with n := 4, texts := [("T", "a b$", "", true)] } := by decide

/-- … and the `format()` text statement (evaluating the model on all five statements at once by `decide` exceeds
the heartbeat limit: the elaborator's evaluation of `Fmt.formatText` through the parser monad grows quickly with
the number of tokens in front; the five-statement file is evaluated through the theorem below). -/
theorem exTextFmt_parsed_decide :
    (parseTokens env1 (printTopsP [exTextFmt] ++ [eofT])).toOption.map progView =
      some { n := 1, moves := [], marts := [], texts := [("F", "a b\\n\nc$", "", false)] } := by decide

/-- **Non-vacuity, by the theorem**: the same through `parse_file_elab_ps` (the reference elaboration evaluated). -/
theorem exFile_parsed_theorem_1 :
    ∃ p, parseTokens env1 (printTopsP exFile ++ [eofT]) = .ok p ∧ progView p = view1 := by
  rw [parse_file_elab_ps env1 eofT rfl exFile exFile_wf]
  exact ⟨_, rfl, by decide⟩

theorem exFile_parsed_theorem_2 :
    ∃ p, parseTokens env2 (printTopsP exFile ++ [eofT]) = .ok p ∧ progView p = view2 := by
  rw [parse_file_elab_ps env2 eofT rfl exFile exFile_wf]
  exact ⟨_, rfl, by decide⟩

/-- the nested poryswitch alone falls back to `_` under `env3`: `face_down face_left` (the comma vanishes) -/
example :
    ∃ p, parseTokens env3 (printTopsP [exMove] ++ [eofT]) = .ok p ∧
      (progView p).moves = [("M", ["walk_up", "walk_down", "walk_down", "face_down", "face_left", "step_x"])] := by
  rw [parse_file_elab_ps env3 eofT rfl _ (by decide)]
  exact ⟨_, rfl, by decide⟩

/-- `parse_top_elab_ps` instantiated: the mart statement in a state with the constant `ITEM_X = 7` — the
constant is substituted in the SELECTED item. -/
example :
    (parseTopLevelStatement env1 100).run
        (st { initState eofT with constants := [("ITEM_X", "7")] } (printTopP exMart ++ [eofT])) =
      .ok (some (.mart (tk .MART "mart") "Shop" [id "ITEM_A", id "ITEM_X", id "ITEM_B"] ["ITEM_A", "7", "ITEM_B"]
                   .LOCAL),
           st { initState eofT with constants := [("ITEM_X", "7")] } [rb, eofT]) := by
  rw [parse_top_elab_ps env1 100 exMart _ eofT [] (by decide) (fun h => by cases h) (by decide)]
  rfl

/-- `parse_list_elab_ps` instantiated on a `moves( … )`-style list (closing `)`): the elements of `exMove`
followed by `)`, in any state, with any accumulator (under `env3` the nested poryswitch falls back to `_`). -/
example (s : PState) (acc rest : List Tok) :
    (parseListValue env3 (.movement .RPAREN) true 100 acc).run (st s (exMoveItems.toks ++ rp :: rest)) =
      .ok (acc ++ [id "walk_up", id "walk_down", id "walk_down", id "face_down", id "face_left", id "step_x"],
           st s (rp :: rest)) := by
  rw [parse_list_elab_ps env3 (.movement .RPAREN) good_movement_rparen s _ rp rest (by decide) rfl acc 100 (by decide)]
  rfl

/-- `parse_text_body_ps` instantiated: the body of `exTextSw` under `env2` (the `format()` of the `_` case). -/
example (s : PState) (rest : List Tok) :
    (parsePoryswitchTextStatement env2 100).run (st s (exTextBody.toks ++ rb :: rest)) =
      .ok (("a b$", ""), st s (rb :: rb :: rest)) := by
  have := parse_text_body_ps env2 100 s exTextBody (rb :: rest) (by decide) (by decide)
  rw [if_pos (by rfl)] at this
  rw [this]
  rfl

/-! ### the located errors, through `parseTokens` -/

/-- no `-s` option at all: located on the first `poryswitch` token of the file -/
example :
    parseTokens {} (printTopsP exFile ++ [eofT]) = .error (noSwitchesErr psw) := by
  rw [parse_file_elab_ps {} eofT rfl exFile exFile_wf]
  rfl

/-- `-s LANG=EN` only: `GAME` is not defined — located on the switch name -/
example :
    parseTokens { switches := [("LANG", "EN")] } (printTopsP exFile ++ [eofT]) =
      .error (undefSwitchErr (id "GAME")) := by
  rw [parse_file_elab_ps _ eofT rfl exFile exFile_wf]
  rfl

/-- `-s GAME=RUBY` only: the nested `poryswitch(LANG)` sits in the UNSELECTED case `EMERALD`, and is an error all
the same (all cases are parsed) -/
example :
    parseTokens { switches := [("GAME", "RUBY")] } (printTopsP exFile ++ [eofT]) =
      .error (undefSwitchErr (id "LANG")) := by
  rw [parse_file_elab_ps _ eofT rfl exFile exFile_wf]
  rfl

/-- `text T { poryswitch(GAME) { RUBY: "Ruby" } }` with `-s GAME=EMERALD`: no case, no `_` — located on the
`poryswitch` token; in the lint parser the text is `("", "")`, WITHOUT terminator. -/
def exNoCase : STopP :=
  .textP (tk .TEXT "text") .absent (id "T") lb
    (.sw psw lp (id "GAME") rp lb [.colon (id "RUBY") col (.plain (tk .STRING "Ruby"))] rb) rb

example :
    parseTokens env1 (printTopsP [exNoCase] ++ [eofT]) = .error (noCaseErr env1 psw (id "GAME")) := by
  rw [parse_file_elab_ps _ eofT rfl _ (by decide)]
  rfl

example :
    ∃ p, parseTokens { env1 with envErrors := false } (printTopsP [exNoCase] ++ [eofT]) = .ok p ∧
      (progView p).texts = [("T", "", "", true)] := by
  rw [parse_file_elab_ps _ eofT rfl _ (by decide)]
  exact ⟨_, rfl, by decide⟩

/-- `movement M { poryswitch(GAME) { EMERALD: walk_up  RUBY: walk_up * 10000 } }`: the bad multiplier sits in
the unselected case — located on the multiplier. -/
def exBadMul : STopP :=
  .movementP (tk .MOVEMENT "movement") .absent (id "M") lb
    (.cons (.sw psw lp (id "GAME") rp lb
      (.colon (id "EMERALD") col (step "walk_up")
      (.colon (id "RUBY") col (.plain (.stepMul (id "walk_up") (tk .MUL "*") (tk .INT "10000"))) .nil)) rb) .nil) rb

example :
    parseTokens env1 (printTopsP [exBadMul] ++ [eofT]) =
      .error (newParseError (tk .INT "10000") "movement mulplier '10000' is too large. Maximum is 9999") := by
  rw [parse_file_elab_ps _ eofT rfl _ (by decide)]
  exact congrArg (fun m => Except.error (newParseError (tk .INT "10000") m)) (by decide)

/-! ### compiled output, hand-selected file, independence -/

/-- emitter options of the examples: chunk order not optimised (`optimizeChunkOrder` does not reduce under
`decide`), no line markers -/
def exO : Opts := { optimize := false }

theorem toOption_some {ε α : Type} {x : Except ε α} {a : α} (h : x.toOption = some a) : x = .ok a := by
  cases x with
  | error e => cases h
  | ok b => cases h; rfl

def linesR : List Line := [.raw "nop"]
def linesM1 : List Line :=
  [.labelDef "M" false, .step "walk_up", .step "walk_down", .step "walk_down", .step "face_up", .step "step_x",
   .step "step_end"]
def linesM2 : List Line := [.labelDef "M" false, .step "walk_up", .step "walk_right", .step "step_x", .step "step_end"]
def linesS : List Line :=
  [.align2, .labelDef "Shop" false, .twoByte "ITEM_A", .twoByte "ITEM_X", .twoByte "ITEM_B", .twoByte "ITEM_NONE"]
def linesT1 : List Line := [.labelDef "T" true, .textLine "ascii" "E\\0"]
def linesT2 : List Line := [.labelDef "T" true, .textLine "string" "a b$"]

/-- the four-statement file compiled under the two `-s` settings -/
theorem exFileA_compiled_1 :
    compileFileP env1 exO eofT exFileA = .ok { tops := [linesR, linesM1, linesS], stm := [linesT1] } :=
  toOption_some (by decide)

theorem exFileA_compiled_2 :
    compileFileP env2 exO eofT exFileA = .ok { tops := [linesR, linesM2, linesS], stm := [linesT2] } :=
  toOption_some (by decide)

/-- the rendered lines through the model's pipeline on the printed tokens -/
example :
    compileToks env1 exO (printTopsP exFileA ++ [eofT]) =
      .ok (linesR ++ .blank :: linesM1 ++ .blank :: linesS ++ .blank :: linesT1) := by
  rw [compile_print_ps env1 exO eofT rfl exFileA (by decide), exFileA_compiled_1]
  rfl

/-- the hand-selected plain file under `env1`, as source text:
`raw \`nop\` movement M { walk_up walk_down walk_down face_up step_x } mart Shop { ITEM_A ITEM_X ITEM_B }
text T { ascii"E\0" }` -/
theorem exFileA_selected_1 :
    (selTops env1 exFileA).map (fun ms => (printTopsM ms).map (·.lit)) =
      some ["raw", "nop", "movement", "M", "{", "walk_up", "walk_down", "walk_down", "face_up", "step_x", "}",
            "mart", "Shop", "{", "ITEM_A", "ITEM_X", "ITEM_B", "}", "text", "T", "{", "ascii", "E\\0", "}"] := by
  decide

/-- `file_selected` instantiated: the file and its hand-selected file compile to the same sections. -/
example : ∃ ms, selTops env1 exFileA = some ms ∧ TWFM ms ∧
    compileFileM env1 exO eofT ms = .ok { tops := [linesR, linesM1, linesS], stm := [linesT1] } := by
  obtain ⟨ms, hms⟩ := selected_defined env1 rfl exFileA (initState eofT) _ rfl
  refine ⟨ms, hms, (file_selected_tokens env1 exO eofT rfl exFileA ms hms (by decide)).1, ?_⟩
  rw [← file_selected env1 exO eofT exFileA ms hms, exFileA_compiled_1]

/-- The side condition of `tops_independent_ps` holds for the split `[raw, movement] ++ [mart, text]` … -/
theorem exFileA_indep : IndepP env1 eofT [exRaw, exMove] [exMart, exTextSw] := by decide

/-- … so the theorem gives the compiled file from the compiled parts. -/
example :
    compileFileP env1 exO eofT ([exRaw, exMove] ++ [exMart, exTextSw]) =
      .ok (Sections.append { tops := [linesR, linesM1] } { tops := [linesS], stm := [linesT1] }) := by
  have h1 : compileFileP env1 exO eofT [exRaw, exMove] = .ok { tops := [linesR, linesM1] } :=
    toOption_some (by decide)
  have h2 : compileFileP env1 exO eofT [exMart, exTextSw] = .ok { tops := [linesS], stm := [linesT1] } :=
    toOption_some (by decide)
  exact (tops_independent_ps env1 rfl exO eofT _ _ exFileA_indep _).2 ⟨_, _, h1, h2, rfl⟩

/-- The side condition of `statement_independent_ps` holds for the movement statement between `raw` and the
rest: removing it removes exactly its block. -/
theorem exMove_unrelated : UnrelatedP env1 eofT [exRaw] exMove [exMart, exTextSw] := by decide

example :
    ∃ P T Q : Sections, ({ tops := [linesR, linesM1, linesS], stm := [linesT1] } : Sections) = P.append (T.append Q) ∧
      T.tops.length ≤ 1 ∧ compileFileP env1 exO eofT ([exRaw] ++ [exMart, exTextSw]) = .ok (P.append Q) :=
  statement_independent_ps env1 rfl exO eofT [exRaw] exMove [exMart, exTextSw] exMove_unrelated _ exFileA_compiled_1

/-- A constant of part 1 spelled like an item of an UNSELECTED case of part 2 does not matter, one spelled like
the SELECTED item does: `const ITEM_R = 1` / `const ITEM_X = 1` in front of the mart (selected under `env1`:
`ITEM_A ITEM_X ITEM_B`). -/
def exConst (n : String) : STopP := .base (.base (.const (tk .CONST "const") (id n) (tk .ASSIGN "=") [tk .INT "1"]))

example : IndepP env1 eofT [exConst "ITEM_R", exRaw] [exMart] ∧ ¬ IndepP env1 eofT [exConst "ITEM_X", exRaw] [exMart] := by
  decide

/-- **Why `selTop` is partial in the lint parser**: the text of `exNoCase` is `("", "")` there — no terminator —,
and no plain text statement has that value (`selTop = none` although the statement elaborates). -/
theorem lint_hole :
    selTop { env1 with envErrors := false } exNoCase = none ∧
    (stepTopP { env1 with envErrors := false } exNoCase (initState eofT)).toOption.map
      (fun r => r.2.textStatements.map (fun t => (t.name, t.value))) = some [("T", "")] ∧
    ∀ v : TextVal, v.value ≠ ("", "") := by
  refine ⟨by decide, by decide, ?_⟩
  intro v h
  have h1 : formatTextTerminator v.str.lit v.strType = "" := congrArg Prod.fst h
  have h2 : v.strType = "" := congrArg Prod.snd h
  rw [h2] at h1
  have h3 := (C09.terminator_once v.str.lit "" "$" (by decide)).1
  rw [h1] at h3
  exact absurd h3 (by decide)


end Example

#print axioms parse_list_elab_ps
#print axioms parse_text_body_ps
#print axioms parse_top_elab_ps
#print axioms parse_movementP_elab
#print axioms parse_martP_elab
#print axioms parse_textP_elab
#print axioms parse_tops_elab_ps
#print axioms parse_program_elab_ps
#print axioms parse_file_elab_ps
#print axioms parse_file_embed_ps
#print axioms file_selected
#print axioms file_selected_tokens
#print axioms tops_independent_ps
#print axioms tops_independent_ps_tokens
#print axioms parse_error_right_ps
#print axioms statement_independent_ps
#print axioms lint_hole
#print axioms exFileA_parsed_decide_1
#print axioms exFile_parsed_theorem_2

end Pory.P2d
