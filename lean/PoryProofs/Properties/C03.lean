import PoryProofs.Sim
/-
C03 — switch selects exactly the matching body, with shared, empty and default cases.

Source semantics (`PorySpec/Sem.lean`, `switchBody`): the first non-default case in source order
whose value matches is taken; a case without a body shares the body of the next case that has
one; trailing body-less cases do nothing; `default` — wherever written — is taken exactly when
no case matches; the body run is the body of ONE case (no fall-through); `break` leaves the
switch (the switch frame is what `unwindBreak` stops at); afterwards the statement after the
switch runs (`contRest` / `switchF` pop).

Proved here:
* the readable facts about `switchBody` that pin the above down (`body_of_match`,
  `body_of_default`, `nothing_when_no_match_no_default`, `shared_body_is_one_case_body`,
  `default_only_when_no_match`);
* `switch_chunk_selects_body` (= `Sem.switch_branch_correct`): whatever the game state, the switch
  chunk the emitter model builds (`switchBranchOf` over the propagated body chunk ids) sends
  control to a chunk that implements exactly `switchBody`, or — when that body is empty — straight
  on to the code after the switch;
* `break_leaves_switch` (= `Sem.kimpl_unwind_break`) and the whole-statement simulation is the
  `switch_` / `switchEmpty` case of `Sem.sim` (PoryProofs/Sim.lean), lifted to runs in C01.
That the emitter's worklist really produces chunks satisfying the `Impl.switch_` premises is E2
(PoryProofs/Worklist*.lean); the parse of the case list is covered by correspondence with the
exhaustive shape enumeration of `gen_C03`.
-/
namespace Pory.C03
open Pory Pory.Emit Pory.Sem

theorem body_of_match (w : SWorld) (h : Hist) (operand : Tok) (cases cs : List SwitchCase)
    (hm : matchCase w h operand cases = some cs) : switchBody w h operand cases = sharedBody cs := by
  simp [switchBody, hm]

theorem body_of_default (w : SWorld) (h : Hist) (operand : Tok) (cases cs : List SwitchCase)
    (hm : matchCase w h operand cases = none) (hd : fromDefault cases = some cs) :
    switchBody w h operand cases = sharedBody cs := by
  simp [switchBody, hm, hd]

theorem nothing_when_no_match_no_default (w : SWorld) (h : Hist) (operand : Tok) (cases : List SwitchCase)
    (hm : matchCase w h operand cases = none) (hd : fromDefault cases = none) :
    switchBody w h operand cases = [] := by
  simp [switchBody, hm, hd]

/-- The default body runs only when no case matches. -/
theorem default_only_when_no_match (w : SWorld) (h : Hist) (operand : Tok) (cases cs : List SwitchCase)
    (hm : matchCase w h operand cases = some cs) :
    switchBody w h operand cases = sharedBody cs ∧ ∃ v b r, cs = (v, false, b) :: r ∧ w.caseEq h operand v = true := by
  refine ⟨body_of_match w h operand cases cs hm, ?_⟩
  induction cases with
  | nil => simp [matchCase] at hm
  | cons c r ih =>
    obtain ⟨v, d, b⟩ := c
    simp only [matchCase] at hm
    split at hm
    · next hc =>
      simp at hm; subst hm
      simp at hc
      exact ⟨v, b, r, by simp [hc.1], hc.2⟩
    · exact ih hm

/-- No fall-through: what runs is nothing, or the body of exactly one case at or after the
selected one. -/
theorem shared_body_is_one_case_body (cs : List SwitchCase) :
    sharedBody cs = [] ∨ ∃ c ∈ cs, sharedBody cs = c.2.2 ∧ c.2.2 ≠ [] := by
  induction cs with
  | nil => left; rfl
  | cons c r ih =>
    obtain ⟨v, d, b⟩ := c
    simp only [sharedBody]
    split
    · next hb => right; exact ⟨(v, d, b), by simp, rfl, by intro he; simp at he; subst he; simp at hb⟩
    · rcases ih with h | ⟨c', hc', he, hne⟩
      · left; exact h
      · right; exact ⟨c', by simp [hc'], he, hne⟩

/-- A trailing run of body-less cases does nothing. -/
theorem trailing_empty_cases_do_nothing (cs : List SwitchCase) (h : ∀ c ∈ cs, c.2.2 = []) :
    sharedBody cs = [] := by
  induction cs with
  | nil => rfl
  | cons c r ih =>
    obtain ⟨v, d, b⟩ := c
    have hb : b = [] := h (v, d, b) (by simp)
    simp [sharedBody, hb, ih (fun c hc => h c (by simp [hc]))]

/-- The compiled switch chunk selects exactly the body the source semantics selects, in every
game state. -/
theorem switch_chunk_selects_body (w : SWorld) (G : List Chunk) (cx : Ctx)
    {operand : Tok} {cases : List SwitchCase}
    {bodyIds0 : List (Option Nat)} {emptyId swId : Nat} {sw : Chunk} {post : Option Nat} {h : Hist}
    (hlen : bodyIds0.length = cases.length)
    (hnone : ∀ i (hi : i < cases.length), (bodyIds0[i]? = some none ↔ (cases[i]).2.2 = []))
    (hbody : ∀ i (hi : i < cases.length), ∀ b, bodyIds0[i]? = some (some b) →
      Impl G cx b 0 (cases[i]).2.2 post)
    (hone : (cases.filter (·.2.1)).length ≤ 1)
    (hempty : switchNeedsEmpty cases (propagateBack bodyIds0) = true → Impl G cx emptyId 0 [] post)
    (hG : findChunk G swId = some sw) (hs : sw.statements = [])
    (hb : sw.branch = switchBranchOf operand cases (propagateBack bodyIds0) emptyId post) :
    (switchBody w h operand cases ≠ [] ∧ ∃ d, gstep w G ⟨swId, 0, h⟩ = .next ⟨d, 0, h⟩ ∧
        Impl G cx d 0 (switchBody w h operand cases) post) ∨
    (switchBody w h operand cases = [] ∧ Star w G (gstep w G ⟨swId, 0, h⟩) (goto post h)) :=
  switch_branch_correct w G cx hlen hnone hbody hone hempty hG hs hb

/-- `break` leaves the switch: the break target registered for the switch's scope id implements
the continuation below the switch frame. -/
theorem break_leaves_switch (G : List Chunk) (cx : Ctx) {ret : Option Nat} {K K' : List Frame} {sid : Nat}
    (hk : KImpl G cx ret K) (hu : unwindBreak sid K = some K') : KImpl G cx (cx.brk sid) K' :=
  kimpl_unwind_break G cx hk hu

end Pory.C03
