import PoryProofs.TopParse
import PoryProofs.Properties.C13
import PoryProofs.Properties.C12
/-
C13 (parser half) — "using a constant is the same as writing its value": what `parseConstant`
records.

Reference syntax: `const NAME = v₁ … vₖ` followed by a top-level keyword token (`script`, `raw`,
`text`, `movement`, `mart`, `mapscripts`, `const`); a value token is any token that is not a
top-level keyword and not EOF (`ValTok`). Tokens are arbitrary records.

Proved (every surrounding state, every fuel ≥ k + 1):
* `parse_constant_acc`  : no side condition on literals: the recorded value is the string-builder
  accumulation `constAcc` of the substituted literals;
* `parse_constant`      : `NAME ↦ joinSp (vᵢ.map substC)` — each value token replaced by the value
  of the earlier constant of that name, if any — is put in FRONT of the table, the parser stops on
  `vₖ`, nothing else changes. Side condition: no substituted literal is empty (the literal of the
  string token `""` is; Go's `strings.Builder` loop writes no separator after an empty prefix, so
  `const A = "" B` records `B`, not ` B` — model = Go, see `TopParse.foldl_sbAdd`);
* `const_redefined_rejected` : a name already in the table: error located on the name token, table
  untouched (no result state);
* `const_empty_value_rejected` : `const NAME =` directly followed by a top-level keyword: range
  error from `const` to `=`;
* `const_missing_name_rejected`, `const_missing_equals_rejected` : the other two exits;
* `expanded_fully` : with the table read as word lists (`WTable`, `render`): if every earlier
  constant's stored value mentions no constant name (`Expanded`), the new value is the
  concatenation of the stored word lists / own literals (`newWords`) and again mentions no
  (earlier) constant name; `expanded_preserved`: the invariant `Expanded` of the whole table is
  preserved when, in addition, NAME itself is not mentioned before or in its own definition
  (`const A = A` and use-before-definition `const B = C  const C = 1` are accepted by the
  parser and do break "stored fully expanded": `self_reference_not_expanded`);
* `chain_example` : `A = 1`, `B = A + 1`, `C = B * 2` ↦ `C = "1 + 1 * 2"`.

MODEL = Go, unobservable: a `const` definition that ends at end of input (no top-level keyword
after it) records its value with a trailing space (`const_at_eof_trailing_space`): the loop takes
the EOF token (literal "") as one more value token. No statement can follow, so it is never used.
-/
namespace Pory.C13b
open Pory Pory.Parser Pory.C02P Pory.TopParse

/-! ### the run of `parseConstant` -/

theorem parse_constant_acc (s : PState) (kw name eq : Tok) (vs : List Tok) (nx : Tok) (tl : List Tok)
    (fuel : Nat) (hname : name.type = .IDENT) (heq : eq.type = .ASSIGN) (hvs : ∀ v ∈ vs, ValTok v)
    (hnx : nx.type ∈ Facts.topLevelTokens) (hnew : s.constants.lookup name.lit = none)
    (hval : constAcc s.constants vs "" ≠ "") (hf : vs.length + 1 ≤ fuel) :
    (parseConstant fuel).run (st s (kw :: name :: eq :: (vs ++ nx :: tl))) =
      .ok ((), { st s (vs.getLastD eq :: nx :: tl) with
                 constants := (name.lit, constAcc s.constants vs "") :: s.constants }) := by
  obtain ⟨f, rfl⟩ : ∃ f, fuel = vs.length + (f + 1) := ⟨fuel - vs.length - 1, by omega⟩
  have hloop := constLoop_run s vs eq nx tl "" f (by simp [heq]) hvs hnx
  unfold parseConstant
  simp [hname, heq, hnew, hloop, hval]

/-- **C13, definition.** -/
theorem parse_constant (s : PState) (kw name eq : Tok) (vs : List Tok) (nx : Tok) (tl : List Tok)
    (fuel : Nat) (hname : name.type = .IDENT) (heq : eq.type = .ASSIGN) (hvs : ∀ v ∈ vs, ValTok v)
    (hne : vs ≠ []) (hnx : nx.type ∈ Facts.topLevelTokens)
    (hnew : s.constants.lookup name.lit = none)
    (hlit : ∀ v ∈ vs, substC s.constants v.lit ≠ "") (hf : vs.length + 1 ≤ fuel) :
    (parseConstant fuel).run (st s (kw :: name :: eq :: (vs ++ nx :: tl))) =
      .ok ((), { st s (vs.getLastD eq :: nx :: tl) with
                 constants := (name.lit, joinSp (vs.map fun v => substC s.constants v.lit)) ::
                   s.constants }) := by
  have hacc : constAcc s.constants vs "" = joinSp (vs.map fun v => substC s.constants v.lit) :=
    foldl_sbAdd _ (by simpa using hlit)
  have hval : constAcc s.constants vs "" ≠ "" := by
    rw [hacc]
    exact joinSp_ne_empty _ (by simpa using hne) (by simpa using hlit)
  rw [parse_constant_acc s kw name eq vs nx tl fuel hname heq hvs hnx hnew hval hf, hacc]

/-- A name already in the table is rejected with an error located on the name token. -/
theorem const_redefined_rejected (s : PState) (kw name : Tok) (tl : List Tok) (fuel : Nat)
    (hname : name.type = .IDENT) (hold : (s.constants.lookup name.lit).isSome = true) :
    (parseConstant fuel).run (st s (kw :: name :: tl)) =
      .error (newParseError name s!"duplicate const '{name.lit}'. Must use unique const names") := by
  unfold parseConstant
  simp [hname, hold]

/-- An empty value is rejected: range error from the `const` token to the `=` token. -/
theorem const_empty_value_rejected (s : PState) (kw name eq nx : Tok) (tl : List Tok) (fuel : Nat)
    (hname : name.type = .IDENT) (heq : eq.type = .ASSIGN) (hnx : nx.type ∈ Facts.topLevelTokens)
    (hnew : s.constants.lookup name.lit = none) (hf : 1 ≤ fuel) :
    (parseConstant fuel).run (st s (kw :: name :: eq :: nx :: tl)) =
      .error (newRangeParseError kw eq s!"missing value for const '{name.lit}'") := by
  obtain ⟨f, rfl⟩ : ∃ f, fuel = f + 1 := ⟨fuel - 1, by omega⟩
  have hloop := constLoop_run s [] eq nx tl "" f (by simp [heq]) (by simp) hnx
  simp only [List.length_nil, Nat.zero_add, List.nil_append, List.getLastD_nil] at hloop
  unfold parseConstant
  simp [hname, heq, hnew, hloop, constAcc]

theorem const_missing_name_rejected (s : PState) (kw x : Tok) (tl : List Tok) (fuel : Nat)
    (hx : x.type ≠ .IDENT) :
    (parseConstant fuel).run (st s (kw :: x :: tl)) =
      .error (newParseError x s!"expected identifier after const, but got '{x.lit}' instead") := by
  unfold parseConstant
  simp [hx]

theorem const_missing_equals_rejected (s : PState) (kw name x : Tok) (tl : List Tok) (fuel : Nat)
    (hname : name.type = .IDENT) (hnew : s.constants.lookup name.lit = none) (hx : x.type ≠ .ASSIGN) :
    (parseConstant fuel).run (st s (kw :: name :: x :: tl)) =
      .error (newParseError name s!"missing equals sign after const name '{name.lit}'") := by
  unfold parseConstant
  simp [hname, hnew, hx]

/-- MODEL = Go: a definition that runs into the end of input takes the EOF token (literal "") as
a last value token: trailing space. Unobservable (nothing can follow). -/
theorem const_at_eof_trailing_space :
    ((parseConstant 9).run
        { toks := [tk .CONST "const", tk .IDENT "A", tk .ASSIGN "=", tk .INT "1", tk .EOF ""],
          eof := tk .EOF "" }).map (fun r => r.2.constants) = .ok [("A", "1 ")] := by decide

/-! ### values are stored fully expanded -/

/-- The constant table with each value split into the words it was built from. -/
abbrev WTable := List (String × List String)

def render (wt : WTable) : List (String × String) := wt.map fun e => (e.1, joinSp e.2)

/-- The words a value token contributes: the stored words of the constant it names, else itself. -/
def wordsOf (wt : WTable) (w : String) : List String := (wt.lookup w).getD [w]

/-- The words of the new constant's value. -/
def newWords (wt : WTable) (vs : List Tok) : List String := vs.flatMap fun v => wordsOf wt v.lit

/-- Stored word lists are non-empty lists of non-empty words (true of every table built by
`parseConstant` from non-empty literals). -/
def WordsOK (wt : WTable) : Prop := ∀ e ∈ wt, e.2 ≠ [] ∧ ∀ w ∈ e.2, w ≠ ""

instance (wt : WTable) : Decidable (WordsOK wt) := by unfold WordsOK; exact inferInstance

/-- `ws` mentions no constant name of `wt`. -/
def NoNames (wt : WTable) (ws : List String) : Prop := ∀ w ∈ ws, wt.lookup w = none

/-- Every stored value mentions no constant name. -/
def Expanded (wt : WTable) : Prop := ∀ e ∈ wt, NoNames wt e.2

theorem render_lookup (wt : WTable) (k : String) : (render wt).lookup k = (wt.lookup k).map joinSp := by
  induction wt with
  | nil => rfl
  | cons e r ih =>
    obtain ⟨n, ws⟩ := e
    simp only [render, List.map_cons, List.lookup]
    cases k == n
    · exact ih
    · rfl

theorem substC_render (wt : WTable) (w : String) : substC (render wt) w = joinSp (wordsOf wt w) := by
  unfold substC wordsOf
  rw [render_lookup]
  cases wt.lookup w <;> simp [joinSp_one]

theorem lookup_mem' (wt : WTable) (k : String) (ws : List String) (h : wt.lookup k = some ws) :
    (k, ws) ∈ wt := C12.lookup_mem wt k ws h

theorem wordsOf_ok (wt : WTable) (hok : WordsOK wt) (w : String) (hw : w ≠ "") :
    wordsOf wt w ≠ [] ∧ ∀ x ∈ wordsOf wt w, x ≠ "" := by
  unfold wordsOf
  cases h : wt.lookup w with
  | none => simp [hw]
  | some ws => exact hok _ (lookup_mem' wt w ws h)

theorem wordsOf_noNames (wt : WTable) (hexp : Expanded wt) (w : String) : NoNames wt (wordsOf wt w) := by
  unfold wordsOf
  cases h : wt.lookup w with
  | none => intro x hx; simp at hx; subst hx; exact h
  | some ws => exact hexp _ (lookup_mem' wt w ws h)

/-- The recorded string is the join of the new word list. -/
theorem value_eq_words (wt : WTable) (hok : WordsOK wt) (vs : List Tok) (hlit : ∀ v ∈ vs, v.lit ≠ "") :
    joinSp (vs.map fun v => substC (render wt) v.lit) = joinSp (newWords wt vs) := by
  have : (vs.map fun v => substC (render wt) v.lit) = (vs.map fun v => wordsOf wt v.lit).map joinSp := by
    simp [substC_render]
  rw [this, joinSp_map_joinSp _ (by
    intro ws hws
    simp only [List.mem_map] at hws
    obtain ⟨v, hv, rfl⟩ := hws
    exact (wordsOf_ok wt hok v.lit (hlit v hv)).1)]
  rfl

/-- **C13, values are stored fully expanded.** If the table is the rendering of a word table in
which every stored value mentions no constant name, then `const NAME = v₁ … vₖ` records the join of
`newWords` — own literals and the stored (already expanded) words of the constants used —, which
again mention no constant name of the table; and the new word table is again well formed. -/
theorem expanded_fully (wt : WTable) (s : PState) (hs : s.constants = render wt) (hok : WordsOK wt)
    (hexp : Expanded wt) (kw name eq : Tok) (vs : List Tok) (nx : Tok) (tl : List Tok) (fuel : Nat)
    (hname : name.type = .IDENT) (heq : eq.type = .ASSIGN) (hvs : ∀ v ∈ vs, ValTok v) (hne : vs ≠ [])
    (hnx : nx.type ∈ Facts.topLevelTokens) (hnew : wt.lookup name.lit = none)
    (hlit : ∀ v ∈ vs, v.lit ≠ "") (hf : vs.length + 1 ≤ fuel) :
    (parseConstant fuel).run (st s (kw :: name :: eq :: (vs ++ nx :: tl))) =
      .ok ((), { st s (vs.getLastD eq :: nx :: tl) with
                 constants := render ((name.lit, newWords wt vs) :: wt) }) ∧
    NoNames wt (newWords wt vs) ∧ WordsOK ((name.lit, newWords wt vs) :: wt) := by
  have hw : ∀ v ∈ vs, wordsOf wt v.lit ≠ [] ∧ ∀ x ∈ wordsOf wt v.lit, x ≠ "" :=
    fun v hv => wordsOf_ok wt hok v.lit (hlit v hv)
  refine ⟨?_, ?_, ?_⟩
  · have hnew' : s.constants.lookup name.lit = none := by rw [hs, render_lookup, hnew]; rfl
    have hlit' : ∀ v ∈ vs, substC s.constants v.lit ≠ "" := by
      intro v hv
      rw [hs, substC_render]
      exact joinSp_ne_empty _ (hw v hv).1 (hw v hv).2
    rw [parse_constant s kw name eq vs nx tl fuel hname heq hvs hne hnx hnew' hlit' hf, hs,
      value_eq_words wt hok vs hlit]
    rfl
  · intro w hwm
    simp only [newWords, List.mem_flatMap] at hwm
    obtain ⟨v, _, hv⟩ := hwm
    exact wordsOf_noNames wt hexp v.lit w hv
  · intro e he
    rcases List.mem_cons.mp he with rfl | he
    · constructor
      · obtain ⟨v, l, rfl⟩ := List.exists_cons_of_ne_nil hne
        simp only [newWords, List.flatMap_cons]
        have := (hw v (by simp)).1
        simp [this]
      · intro w hwm
        simp only [newWords, List.mem_flatMap] at hwm
        obtain ⟨v, hv, hx⟩ := hwm
        exact (hw v hv).2 w hx
    · exact hok e he

/-- The whole-table invariant is preserved when NAME is not mentioned by an earlier value nor by
its own definition (no use before definition, no self reference). -/
theorem expanded_preserved (wt : WTable) (hexp : Expanded wt) (n : String) (vs : List Tok)
    (hearlier : ∀ e ∈ wt, n ∉ e.2) (hself : ∀ v ∈ vs, v.lit ≠ n) :
    Expanded ((n, newWords wt vs) :: wt) := by
  have key : ∀ ws, NoNames wt ws → n ∉ ws → NoNames ((n, newWords wt vs) :: wt) ws := by
    intro ws h1 h2 w hw
    have hne : (w == n) = false := by
      simp only [beq_eq_false_iff_ne, ne_eq]
      rintro rfl; exact h2 hw
    simp [List.lookup, hne, h1 w hw]
  intro e he
  rcases List.mem_cons.mp he with rfl | he
  · refine key _ ?_ ?_
    · intro w hwm
      simp only [newWords, List.mem_flatMap] at hwm
      obtain ⟨v, _, hv⟩ := hwm
      exact wordsOf_noNames wt hexp v.lit w hv
    · intro hmem
      simp only [newWords, List.mem_flatMap] at hmem
      obtain ⟨v, hv, hx⟩ := hmem
      unfold wordsOf at hx
      cases h : wt.lookup v.lit with
      | none => simp [h] at hx; exact hself v hv hx.symm
      | some ws => simp [h] at hx; exact hearlier _ (lookup_mem' wt v.lit ws h) hx
  · exact key _ (hexp e he) (hearlier e he)

/-- `const A = A` is accepted and stores `A`: the stored value then mentions a constant name. -/
theorem self_reference_not_expanded :
    ¬ Expanded (("A", newWords [] [tk .IDENT "A"]) :: []) := by
  intro h
  have := h _ (List.mem_cons_self ..) "A" (by decide)
  simp [List.lookup] at this

/-! ### non-vacuity -/

/-- `const B = A + 1` after `const A = 1`, followed by `script`. -/
example (s : PState) (tl : List Tok) (hs : s.constants = [("A", "1")]) :
    ((parseConstant 4).run (st s (tk .CONST "const" :: tk .IDENT "B" :: tk .ASSIGN "=" ::
        tk .IDENT "A" :: tk .IDENT "+" :: tk .INT "1" :: tk .SCRIPT "script" :: tl))) =
      .ok ((), { st s (tk .INT "1" :: tk .SCRIPT "script" :: tl) with
                 constants := [("B", "1 + 1"), ("A", "1")] }) := by
  have h := parse_constant s (tk .CONST "const") (tk .IDENT "B") (tk .ASSIGN "=")
    [tk .IDENT "A", tk .IDENT "+", tk .INT "1"] (tk .SCRIPT "script") tl 4 rfl rfl
    (by decide) (by simp) (by decide) (by rw [hs]; decide) (by rw [hs]; decide) (by decide)
  rw [hs] at h
  have hj : joinSp ([tk .IDENT "A", tk .IDENT "+", tk .INT "1"].map
      fun v => substC [("A", "1")] v.lit) = "1 + 1" := by decide
  rw [hj] at h
  simpa using h

/-- The chain `A = 1`, `B = A + 1`, `C = B * 2`: word tables and rendered tables. -/
def wtA : WTable := [("A", newWords [] [tk .INT "1"])]
def wtB : WTable := ("B", newWords wtA [tk .IDENT "A", tk .IDENT "+", tk .INT "1"]) :: wtA
def wtC : WTable := ("C", newWords wtB [tk .IDENT "B", tk .MUL "*", tk .INT "2"]) :: wtB

theorem chain_example :
    render wtC = [("C", "1 + 1 * 2"), ("B", "1 + 1"), ("A", "1")] ∧
    wtC = [("C", ["1", "+", "1", "*", "2"]), ("B", ["1", "+", "1"]), ("A", ["1"])] := by decide

theorem chain_expanded : Expanded wtA ∧ Expanded wtB ∧ Expanded wtC := by
  have hA : Expanded wtA := by
    have := expanded_preserved [] (by intro e he; cases he) "A" [tk .INT "1"] (by simp) (by decide)
    exact this
  have hB : Expanded wtB :=
    expanded_preserved wtA hA "B" _ (by decide) (by decide)
  exact ⟨hA, hB, expanded_preserved wtB hB "C" _ (by decide) (by decide)⟩

/-- The third definition of the chain through the parser. -/
example (s : PState) (tl : List Tok) (hs : s.constants = render wtB) :
    (parseConstant 4).run (st s (tk .CONST "const" :: tk .IDENT "C" :: tk .ASSIGN "=" ::
        ([tk .IDENT "B", tk .MUL "*", tk .INT "2"] ++ tk .MART "mart" :: tl))) =
      .ok ((), { st s (tk .INT "2" :: tk .MART "mart" :: tl) with constants := render wtC }) :=
  (expanded_fully wtB s hs (by decide) chain_expanded.2.1 (tk .CONST "const") (tk .IDENT "C")
    (tk .ASSIGN "=") [tk .IDENT "B", tk .MUL "*", tk .INT "2"] (tk .MART "mart") tl 4 rfl rfl
    (by decide) (by simp) (by decide) (by decide) (by decide) (by decide)).1

/-- Redefinition: `const A = 2` when `A` is defined. -/
example (s : PState) (tl : List Tok) (hs : s.constants = [("A", "1")]) :
    (parseConstant 4).run (st s (tk .CONST "const" :: tk .IDENT "A" :: tl)) =
      .error (newParseError (tk .IDENT "A") "duplicate const 'A'. Must use unique const names") := by
  have := const_redefined_rejected s (tk .CONST "const") (tk .IDENT "A") tl 4 rfl (by rw [hs]; decide)
  exact this.trans (congrArg (fun m => Except.error (newParseError (tk .IDENT "A") m)) (by decide))

end Pory.C13b
