import PoryProofs.MarkerLemmas
/-
Property C16 — "Line markers are transparent":
  "Removing the marker lines from the -lm output gives exactly the -lm=false output …
   Without an input path no markers are emitted."

Everything here is about the structured output `emitProgram : Opts → Program → Except EFail (List Line)`
of the emitter model (`PoryModel/EmitRender.lean`); `Pory.Emit.render` turns lines into text one
line at a time, so the statements transfer to the text (`markers_transparent_text`).

`isMarker`, `strip` and the bottom-up lemmas (`marker`, `renderStatements`, `renderBranchComparison`,
`renderBranching`, `renderBodies`, `renderChunks`, `emitScript`, `emitText`, `emitRaw`,
`emitMovement`, `emitMart`, `emitScripts`, `emitTables`, `emitMapScripts`, `emitTops`,
`emitProgram`) are in `PoryProofs/MarkerLemmas.lean`.  The core fact is

  `emitProgram_strip : Off o o' → Except.map strip (emitProgram o p) = emitProgram o' p`

where `Off o o'` means `o'.optimize = o.optimize ∧ o'.markers = false`.
Nothing is partial: all statements below are proved in full, for every program and every option set.
-/
namespace Pory.C16
open Pory Pory.Emit

/-- (a) Without `-lm`, or without an input path, no marker line is emitted. -/
theorem no_markers_when_off (o : Opts) (p : Program) (h : o.markers = false)
    (ls : List Line) (hok : emitProgram o p = .ok ls) : ∀ l ∈ ls, isMarker l = false := by
  have hs := emitProgram_strip (Off.refl h) p
  rw [hok] at hs
  simp only [Except.map, Except.ok.injEq] at hs
  exact (strip_eq_self_iff ls).1 hs

/-- `o.markers = false` is exactly "`-lm=false` or no input path". -/
theorem markers_false_iff (o : Opts) :
    o.markers = false ↔ (o.lineMarkers = false ∨ o.inputPath.length = 0) := by
  cases h : o.lineMarkers <;> simp [Opts.markers, h]

/-- (a), spelled with the two command-line conditions. -/
theorem no_markers_when_off' (o : Opts) (p : Program)
    (h : o.lineMarkers = false ∨ o.inputPath.length = 0)
    (ls : List Line) (hok : emitProgram o p = .ok ls) : ∀ l ∈ ls, isMarker l = false :=
  no_markers_when_off o p ((markers_false_iff o).2 h) ls hok

/-- (b) Removing the marker lines from the `-lm` output gives exactly the `-lm=false` output;
both runs fail with the same error or both succeed. -/
theorem markers_transparent (o : Opts) (p : Program) :
    let o' : Opts := { o with lineMarkers := false }
    (∃ e, emitProgram o p = .error e ∧ emitProgram o' p = .error e) ∨
    (∃ ls ls', emitProgram o p = .ok ls ∧ emitProgram o' p = .ok ls' ∧ strip ls = ls') := by
  intro o'
  have hs : Except.map strip (emitProgram o p) = emitProgram o' p :=
    emitProgram_strip (Off.of_lineMarkers_false o) p
  cases h : emitProgram o p with
  | error e => rw [h] at hs; exact .inl ⟨e, rfl, hs.symm⟩
  | ok ls => rw [h] at hs; exact .inr ⟨ls, strip ls, rfl, hs.symm, rfl⟩

/-- (b) in equational form. -/
theorem markers_transparent_eq (o : Opts) (p : Program) :
    Except.map strip (emitProgram o p) = emitProgram { o with lineMarkers := false } p :=
  emitProgram_strip (Off.of_lineMarkers_false o) p

/-- (b) on the text: rendering the stripped `-lm` lines gives the `-lm=false` text. -/
theorem markers_transparent_text (o : Opts) (p : Program) (ls ls' : List Line)
    (h : emitProgram o p = .ok ls) (h' : emitProgram { o with lineMarkers := false } p = .ok ls') :
    render (strip ls) = render ls' := by
  have hs := markers_transparent_eq o p
  rw [h, h'] at hs
  simp only [Except.map, Except.ok.injEq] at hs
  rw [hs]

/-- (c) With the markers off the output does not depend on the input path (nor on `-lm`). -/
theorem path_irrelevant_when_off (o₁ o₂ : Opts) (p : Program) (hopt : o₁.optimize = o₂.optimize)
    (h₁ : o₁.markers = false) (h₂ : o₂.markers = false) : emitProgram o₁ p = emitProgram o₂ p := by
  rw [← emitProgram_strip (Off.refl h₁) p]
  exact emitProgram_strip ⟨hopt.symm, h₂⟩ p

/-- (c) The input path occurs only in marker lines: two runs that differ at most in the input
path and `-lm` agree after the marker lines are removed. -/
theorem path_only_in_markers (o₁ o₂ : Opts) (p : Program) (hopt : o₁.optimize = o₂.optimize) :
    Except.map strip (emitProgram o₁ p) = Except.map strip (emitProgram o₂ p) := by
  rw [markers_transparent_eq, markers_transparent_eq]
  exact path_irrelevant_when_off _ _ p hopt (markers_lineMarkers_false _) (markers_lineMarkers_false _)

/-! ### Non-vacuity: a concrete one-script program -/

/-- `script S { lock; L: ; if (flag(F)) { msg } }`-like: one command, one label, one branch. -/
def demo : Program :=
  { tops := [.script { name := "S", body :=
      [ .cmd { id := 1, tok := { line := 2 }, name := "lock" },
        .label { line := 3 } "L" false,
        .ite { line := 4 }
          (.leaf { operand := { lit := "F", line := 4 }, operator := .EQ, cmpValue := "TRUE", type := .FLAG })
          [ .cmd { id := 2, tok := { line := 5 }, name := "msgbox", args := ["T"] } ] [] none ] }],
    texts := [{ name := "T", value := "hi", tok := { line := 5 } }] }

-- `optimize := false`: `optimizeLoop` is compiled by well-founded recursion and so cannot be
-- evaluated by `decide`; the theorems above cover both settings.
def demoOn : Opts := { optimize := false, inputPath := "a.pory" }
def demoOff : Opts := { optimize := false, inputPath := "a.pory", lineMarkers := false }
def demoNoPath : Opts := { optimize := false }

def okLines (r : Except EFail (List Line)) : List Line :=
  match r with | .ok ls => ls | .error _ => []
def isOk (r : Except EFail (List Line)) : Bool :=
  match r with | .ok _ => true | .error _ => false

theorem eq_ok_of_isOk {r : Except EFail (List Line)} (h : isOk r = true) : r = .ok (okLines r) := by
  cases r <;> simp_all [isOk, okLines]

/-- The `-lm` run of the demo succeeds and does contain markers (so (b) is not vacuous). -/
example : isOk (emitProgram demoOn demo) = true ∧ (okLines (emitProgram demoOn demo)).any isMarker = true := by
  decide

/-- (a) on the demo: `-lm=false`, and `-lm` without an input path. -/
example : isOk (emitProgram demoOff demo) = true ∧
    (okLines (emitProgram demoOff demo)).all (fun l => !isMarker l) = true := by decide
example : demoNoPath.markers = false ∧ isOk (emitProgram demoNoPath demo) = true ∧
    (okLines (emitProgram demoNoPath demo)).all (fun l => !isMarker l) = true := by decide

/-- (b) on the demo. -/
example : strip (okLines (emitProgram demoOn demo)) = okLines (emitProgram demoOff demo) := by decide

/-- The theorems instantiated on the demo. -/
example : ∀ l ∈ okLines (emitProgram demoOff demo), isMarker l = false :=
  no_markers_when_off demoOff demo (by decide) _ (eq_ok_of_isOk (by decide))

example : render (strip (okLines (emitProgram demoOn demo))) = render (okLines (emitProgram demoOff demo)) :=
  markers_transparent_text demoOn demo _ _ (eq_ok_of_isOk (by decide)) (eq_ok_of_isOk (by decide))

end Pory.C16
