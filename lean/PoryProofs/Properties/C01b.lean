import PoryProofs.Properties.C01
import PoryProofs.Worklist
import PoryProofs.WorklistTotal
/-
C01 — end-to-end statement for the emitter model: source program vs the chunk graph the
worklist (`scriptChunks`, the model of `emitScriptStatement`) builds for it.

`lowering_correct`: for every script body whose scope ids are pairwise distinct, whose
switches have at most one default and which is well scoped (all three are guaranteed for parser
output — PoryProofs/ParserScopes.lean when complete, and checked by correspondence), if the
emitter accepts it then for EVERY world (arbitrary outcome of every flag / var / trainer test and
`case` comparison after every history of executed commands):
  * the source machine started on the body finishes with outcome `o` and command history `h`
    iff the chunk-graph machine started at chunk 0 does,
  * one diverges iff the other does,
  * every command history the source reaches is reached by the graph.
It composes E2 (`Pory.Emit.emit_impl`, the worklist establishes the compilation relation) with
E3 (`Pory.C01.C01_equivalence`, the relation is a simulation). The remaining link to the text —
rendered assembly vs chunk graph for either chunk order (E4) — is PoryProofs/RenderSim.lean.
-/
namespace Pory.C01b
open Pory Pory.Emit Pory.Sem

theorem lowering_correct (body : List Stmt) (chunks : List Chunk)
    (hs : ScopeIdsDistinct body) (hd : OneDefaultL body)
    (hw : WellScoped ⟨body, [], []⟩) (h : scriptChunks body = .ok chunks) (w : SWorld) :
    (∀ o hist, (∃ n, siter w n ⟨body, [], []⟩ = .fin o hist) ↔ (∃ m, giter w chunks m ⟨0, 0, []⟩ = .fin o hist)) ∧
    ((∀ n, ∃ s', siter w n ⟨body, [], []⟩ = .next s') ↔ (∀ m, ∃ g', giter w chunks m ⟨0, 0, []⟩ = .next g')) ∧
    (∀ n, ∃ m, C01.histG (giter w chunks m ⟨0, 0, []⟩) = C01.histS (siter w n ⟨body, [], []⟩)) := by
  obtain ⟨cx, himpl⟩ := emit_impl body chunks hs hd h
  have hR : R chunks cx ⟨body, [], []⟩ ⟨0, 0, []⟩ := ⟨rfl, none, himpl, rfl⟩
  exact C01.C01_equivalence w chunks cx _ _ hR hw

/-- The emitter never fails with its "return point is unknown" errors nor runs out of fuel on a
well-scoped body: it either produces the chunk table or (only for a malformed condition tree,
which the parser never builds) reports the nil-dereference the Go code would hit. -/
theorem emitter_total (body : List Stmt) (hw : ScopesWellFormed body) (hb : BoolOpsOK body) :
    ∃ chunks, scriptChunks body = .ok chunks :=
  scriptChunks_total body hw hb

theorem emitter_never_out_of_fuel (body : List Stmt) : scriptChunks body ≠ .error .outOfFuel :=
  scriptChunks_fuel body

end Pory.C01b
