import PoryProofs.C05eBlocks
import PoryProofs.C05eMultiset
/-
Property C05 ("optimize changes layout only") — the DATA half and the SUCCESS half, for whole programs
(`emitProgram`).  Helper module: PoryProofs/C05eBlocks.lean.

Notation: `oT = { o with optimize := true }`, `oF = { o with optimize := false }`, for an arbitrary option set
`o` (line markers on or off); `ps = p.patches`, `tl = p.texts.map (·.name)` are what `emitProgram` passes down.
There is no hypothesis on the program anywhere (no parser guarantee is needed).

1. `emit_nonscript_optimize_irrelevant` — for every top-level statement without script code (`NoCode t`: text,
   movement, mart, raw, a `mapscripts` statement none of whose entries has an inline script) the emitted lines
   (`C17.emitTopLines`, the model has no separate `emitTop`) are the same for `oT` and `oF`.  For `mapscripts`
   statements WITH inline scripts the header lines and the table lines are the same
   (`mapscripts_header_optimize_irrelevant`), and so is the hoisted-text section of `emitProgram`
   (`texts_section_optimize_irrelevant`).  All of this is packaged in `progBlocks_optimize_irrelevant`: the whole
   list of blocks of the program (literal data blocks + "the code of script s" blocks) is the same in both modes.
   (The model has no separate section for hoisted movements: they are `movement` top-level statements.)

2. `emitProgram_success_optimize_irrelevant` — `emitProgram oT p` is `.ok _` iff `emitProgram oF p` is.
   THE ERROR NEED NOT BE THE SAME: `emitProgram_same_error_full` is FALSE of the model
   (`not_emitProgram_same_error_full`).  Witness `clashProg`:
       script s { if (flag(A)) { s_2: } else { s_1: } }
   Both user labels clash with generated chunk labels.  Without `-optimize` the chunks are rendered in id order
   0,1,2,3 and the clash of chunk 1 is reported ("duplicate script label 's_2'", token on line 2); with
   `-optimize` the order is 0,3,2,1 and the clash of chunk 2 is reported ("duplicate script label 's_1'", token
   on line 4).  This is a (minor) behaviour difference between the modes: WHICH of several label clashes of
   one script is reported depends on the chunk order (Go's `renderChunks` returns the first error met while
   iterating over the ordered chunks).
   What IS true (`emitProgram_errors_optimize`): when both fail they fail ON THE SAME SCRIPT (the first script of
   the program, in output order, that fails in either mode), and the two errors are either equal or are both
   label clashes (`.perr tok msg`, `ClashMsg msg`, `tok` the token of a label statement) of two chunks of that
   script's chunk table; precisely (`emitScript_first_error`) each mode reports the clash of the FIRST chunk of
   ITS layout order that has one.  Hence (`emitProgram_same_error_of_unique_clash`) the errors are equal as
   soon as no script has two different chunks with a clash; errors of the worklist (`scriptChunks`) are always
   the same (`emitScript_first_error`, first alternative).

3. `emitProgram_decomposition` — if `emitProgram oT p = .ok lsT` and `emitProgram oF p = .ok lsF` then there is
   one list of segments `(block, linesT, linesF)` whose blocks are `progBlocks o p` (the code blocks are exactly
   the scripts of the program, `mem_progBlocks`), `lsT` / `lsF` are the concatenations of the `linesT` / `linesF`
   in the same order, a data block contributes its literal lines to both, and a code block of script `s`
   contributes `emitScript oT ps tl s` resp. `emitScript oF ps tl s` — to which C05's `emitScript_eq` /
   `script_same_chunks_both_orders` apply (`code_segment_same_chunks`).
   `data_lines_equal`: the lines outside the script blocks form the same list in both modes (and this list is
   `dataLines (progBlocks o p)`).
   `line_multiset_modulo_gotos` (helper: PoryProofs/C05eMultiset.lean): the lines of the two outputs that are
   not generated `goto`s, blank lines, `end` / `return` terminators or label lines with a name in `gen` form the
   same multiset (`List.Perm` of the filtered outputs), for every `gen` that contains the chunk labels of all
   scripts of the program; `line_multiset_modulo_gotos_labels` is the hypothesis-free instance "all label lines
   dropped".  Terminators are filtered because the model's `renderBranching` lets a default-less `switch` chunk
   without return chunk fall off the end when it is the LAST chunk of the order (unreachable for real tables
   by `RenderSim.SwitchNotLast`, which is not used here).

Non-vacuity: `demoProg` (a script with an `if` between two commands, a text, a movement, a mart, a raw block, a
`mapscripts` statement with an inline script and a table with an inline script): both outputs are computed,
they differ as lists, `emitProgram_decomposition` / `data_lines_equal` apply.
Nothing is `sorry`; nothing is partial except that the "same error" clause of 2 is false as stated and replaced
by the strongest true version, and the optional multiset statement is omitted.
-/
namespace Pory.C05e
open Pory Pory.Emit

/-! ### 1. everything that is not script code is the same in both modes -/

/-- a top-level statement that contains no script code -/
def NoCode : Top → Prop
  | .script _ => False
  | .mapscripts m =>
    (∀ ms ∈ m.mapScripts, ms.script = none) ∧ ∀ t ∈ m.tables, ∀ e ∈ t.entries, e.script = none
  | _ => True

theorem noCode_blocks {o : Opts} {t : Top} (h : NoCode t) (s : Script) : Block.code s ∉ topBlocks o t := by
  intro hm
  rcases mem_topBlocks.1 hm with ht | ⟨m, ht, hm'⟩
  · rw [ht] at h; exact h
  · rw [ht] at h
    rcases hm' with ⟨ms, hms, he⟩ | ⟨t', ht', e, he, hes⟩
    · rw [h.1 ms hms] at he; cases he
    · rw [h.2 t' ht' e he] at hes; cases hes

/-- **1.** The lines of a top-level statement without script code do not depend on `optimize`. -/
theorem emit_nonscript_optimize_irrelevant (o : Opts) (ps : List ((Nat × Nat) × String)) (tl : List String)
    (t : Top) (h : NoCode t) :
    C17.emitTopLines { o with optimize := true } ps tl t =
      C17.emitTopLines { o with optimize := false } ps tl t := by
  cases h₁ : C17.emitTopLines { o with optimize := true } ps tl t with
  | none =>
    have := (emitTopLines_isText _ ps tl t).1 h₁
    exact ((emitTopLines_isText _ ps tl t).2 this).symm
  | some e₁ =>
    cases h₂ : C17.emitTopLines { o with optimize := false } ps tl t with
    | none =>
      have := (emitTopLines_isText _ ps tl t).1 h₂
      rw [(emitTopLines_isText _ ps tl t).2 this] at h₁; cases h₁
    | some e₂ =>
      rw [emitTopLines_eq_assemble _ ps tl t e₁ h₁, emitTopLines_eq_assemble _ ps tl t e₂ h₂,
        topBlocks_congr (o₁ := { o with optimize := true }) (o₂ := { o with optimize := false }) rfl rfl]
      congr 1
      exact assemble_congr_f (fun s hs => absurd hs (noCode_blocks h s))

/-- … for the four data statements, spelled out. -/
theorem data_statements_optimize_irrelevant (o : Opts) :
    (∀ t, emitText { o with optimize := true } t = emitText { o with optimize := false } t) ∧
    (∀ m, emitMovement { o with optimize := true } m = emitMovement { o with optimize := false } m) ∧
    (∀ tok name tis items scope, emitMart { o with optimize := true } tok name tis items scope =
      emitMart { o with optimize := false } tok name tis items scope) ∧
    (∀ vtok v, emitRaw { o with optimize := true } vtok v = emitRaw { o with optimize := false } vtok v) :=
  ⟨emitText_congr rfl rfl, emitMovement_congr rfl rfl, emitMart_congr rfl rfl, emitRaw_congr rfl rfl⟩

/-- The header lines of a `mapscripts` statement and of each of its tables (the only lines of the statement
besides its inline scripts: `emitMapScripts_eq_assemble`) do not depend on `optimize`. -/
theorem mapscripts_header_optimize_irrelevant (o : Opts) :
    (∀ m, mapScriptsHead { o with optimize := true } m = mapScriptsHead { o with optimize := false } m) ∧
    (∀ t, tableHead { o with optimize := true } t = tableHead { o with optimize := false } t) :=
  ⟨mapScriptsHead_congr rfl rfl, tableHead_congr rfl rfl⟩

/-- The hoisted-text section of `emitProgram` does not depend on `optimize`. -/
theorem texts_section_optimize_irrelevant (o : Opts) (i : Nat) (texts : List Text) :
    textsSection { o with optimize := true } i texts = textsSection { o with optimize := false } i texts :=
  textsSection_congr rfl rfl i texts

/-- All blocks of the program — every data block literally, every code block as "the code of script `s`" —
are the same in both modes (and the same as for `o` itself). -/
theorem progBlocks_optimize_irrelevant (o : Opts) (b : Bool) (p : Program) :
    progBlocks { o with optimize := b } p = progBlocks o p :=
  progBlocks_congr (o₁ := { o with optimize := b }) (o₂ := o) rfl rfl p

/-! ### 2. success does not depend on `optimize`; the error is the clash of the first clashing chunk of the order -/

section script
variable {o₁ o₂ : Opts} (hl : o₁.lineMarkers = o₂.lineMarkers) (hp : o₁.inputPath = o₂.inputPath)
include hl hp

/-- **What `emitScript` reports, in two modes that differ at most in `optimize`.**  Either the worklist
fails (same error in both modes), or both chunk orders exist, are permutations of each other, and each mode
reports the error of the first chunk OF ITS ORDER whose statements do not render (`chunkErr`; `none` = success). -/
theorem emitScript_first_error (ps : List ((Nat × Nat) × String)) (tl : List String) (s : Script) :
    (∃ e, scriptChunks s.body = .error e ∧ emitScript o₁ ps tl s = .error e ∧
        emitScript o₂ ps tl s = .error e) ∨
    (∃ chunks ord₁ ord₂, scriptChunks s.body = .ok chunks ∧
        C05.chunkOrder o₁ chunks = .ok ord₁ ∧ C05.chunkOrder o₂ chunks = .ok ord₂ ∧ ord₁.Perm ord₂ ∧
        ord₁.Perm (chunks.map (·.id)) ∧
        errOf (emitScript o₁ ps tl s) =
          ord₁.findSome? (chunkErr o₁ ps (chunks.map fun c => chunkLabel s.name c.id) tl chunks) ∧
        errOf (emitScript o₂ ps tl s) =
          ord₂.findSome? (chunkErr o₁ ps (chunks.map fun c => chunkLabel s.name c.id) tl chunks)) := by
  rw [C05.emitScript_eq, C05.emitScript_eq]
  cases hc : scriptChunks s.body with
  | error e => exact .inl ⟨e, rfl, rfl, rfl⟩
  | ok chunks =>
    right
    obtain ⟨ord₁, h₁⟩ := chunkOrder_total o₁ s.body chunks hc
    obtain ⟨ord₂, h₂⟩ := chunkOrder_total o₂ s.body chunks hc
    have h0 := (C05.scriptChunks_ids s.body chunks hc).2
    refine ⟨chunks, ord₁, ord₂, rfl, h₁, h₂, C05.chunkOrder_perm_both o₁ o₂ chunks ord₁ ord₂ h0 h₁ h₂,
      (C05.chunkOrder_perm o₁ chunks ord₁ h0 h₁).1, ?_, ?_⟩
    · simp only [renderChunks_errOf, h₁]
    · simp only [renderChunks_errOf, h₂, chunkErr_congr hl hp]

/-- `emitScript` succeeds in one mode iff it succeeds in the other. -/
theorem emitScript_ok_iff (ps : List ((Nat × Nat) × String)) (tl : List String) (s : Script) :
    (∃ ls, emitScript o₁ ps tl s = .ok ls) ↔ ∃ ls, emitScript o₂ ps tl s = .ok ls := by
  rcases emitScript_first_error hl hp ps tl s with ⟨e, _, h₁, h₂⟩ | ⟨chunks, ord₁, ord₂, _, _, _, hperm, _, h₁, h₂⟩
  · rw [h₁, h₂]
  · rw [← errOf_eq_none, ← errOf_eq_none, h₁, h₂, List.findSome?_eq_none_iff, List.findSome?_eq_none_iff]
    exact ⟨fun h x hx => h x (hperm.mem_iff.2 hx), fun h x hx => h x (hperm.mem_iff.1 hx)⟩

end script

/-- `e` is a label clash of a chunk of the table: the error of rendering the statements of some chunk, a
`.perr` on the token of a label statement of that chunk with one of the two "duplicate label" messages. -/
def ChunkClash (o : Opts) (ps : List ((Nat × Nat) × String)) (tl : List String) (s : Script)
    (chunks : List Chunk) (e : EFail) : Prop :=
  ∃ c ∈ chunks,
    renderStatements o ps (chunks.map fun c => chunkLabel s.name c.id) tl c.statements = .error e ∧
    ∃ tok msg, e = .perr tok msg ∧ ClashMsg msg ∧ ∃ name g, Stmt.label tok name g ∈ c.statements

theorem chunkClash_of_findSome (o : Opts) (ps : List ((Nat × Nat) × String)) (tl : List String) (s : Script)
    (chunks : List Chunk) (hc : scriptChunks s.body = .ok chunks) (order : List Nat)
    (hperm : order.Perm (chunks.map (·.id))) (e : EFail)
    (h : order.findSome? (chunkErr o ps (chunks.map fun c => chunkLabel s.name c.id) tl chunks) = some e) :
    ChunkClash o ps tl s chunks e := by
  obtain ⟨id, hid, he⟩ := List.exists_of_findSome?_eq_some h
  obtain ⟨c, hfc, hcm⟩ := findChunk_of_mem chunks id (hperm.mem_iff.1 hid)
  simp only [chunkErr, hfc, errOf_eq_some] at he
  refine ⟨c, hcm, he, ?_⟩
  rcases renderStatements_simple o ps (chunks.map fun c => chunkLabel s.name c.id) tl c.statements
      ((scriptChunks_simple s.body chunks hc c hcm).1) with ⟨ls, h'⟩ | ⟨tok, msg, h', hl, hm⟩
  · rw [h'] at he; cases he
  · rw [h'] at he
    injection he with he
    exact ⟨tok, msg, he.symm, hm, hl⟩

/-- Two failing modes: the errors are equal, or both are label clashes of chunks of the same table. -/
theorem emitScript_errors {o₁ o₂ : Opts} (hl : o₁.lineMarkers = o₂.lineMarkers)
    (hp : o₁.inputPath = o₂.inputPath) (ps : List ((Nat × Nat) × String)) (tl : List String) (s : Script)
    (e₁ e₂ : EFail) (h₁ : emitScript o₁ ps tl s = .error e₁) (h₂ : emitScript o₂ ps tl s = .error e₂) :
    e₁ = e₂ ∨ ∃ chunks, scriptChunks s.body = .ok chunks ∧
      ChunkClash o₁ ps tl s chunks e₁ ∧ ChunkClash o₁ ps tl s chunks e₂ := by
  rcases emitScript_first_error hl hp ps tl s with
    ⟨e, _, h₁', h₂'⟩ | ⟨chunks, ord₁, ord₂, hc, _, _, hperm, hp₁, h₁', h₂'⟩
  · rw [h₁] at h₁'; rw [h₂] at h₂'
    injection h₁' with h₁'; injection h₂' with h₂'
    exact .inl (h₁'.trans h₂'.symm)
  · rw [h₁] at h₁'; rw [h₂] at h₂'
    exact .inr ⟨chunks, hc,
      chunkClash_of_findSome o₁ ps tl s chunks hc ord₁ hp₁ e₁ h₁'.symm,
      chunkClash_of_findSome o₁ ps tl s chunks hc ord₂ (hperm.symm.trans hp₁) e₂ h₂'.symm⟩

/-- **2a. Success of `emitProgram` does not depend on `optimize`.** -/
theorem emitProgram_success_optimize_irrelevant (o : Opts) (p : Program) :
    (∃ ls, emitProgram { o with optimize := true } p = .ok ls) ↔
      ∃ ls, emitProgram { o with optimize := false } p = .ok ls := by
  rw [emitProgram_eq_assemble, emitProgram_eq_assemble, progBlocks_optimize_irrelevant o true,
    progBlocks_optimize_irrelevant o false, assemble_ok_iff, assemble_ok_iff]
  have h := fun s => emitScript_ok_iff (o₁ := { o with optimize := true }) (o₂ := { o with optimize := false })
    rfl rfl p.patches (p.texts.map (·.name)) s
  exact ⟨fun H s hs => (h s).1 (H s hs), fun H s hs => (h s).2 (H s hs)⟩

/-- the same as one equation: the `optimize` flag never decides between output and error -/
theorem emitProgram_isOk_optimize_irrelevant (o : Opts) (p : Program) :
    (emitProgram { o with optimize := true } p).isOk = (emitProgram { o with optimize := false } p).isOk := by
  have h := emitProgram_success_optimize_irrelevant o p
  cases h₁ : emitProgram { o with optimize := true } p with
  | ok a =>
    obtain ⟨b, hb⟩ := h.1 ⟨a, h₁⟩
    rw [hb]; rfl
  | error e =>
    cases h₂ : emitProgram { o with optimize := false } p with
    | ok b =>
      obtain ⟨a, ha⟩ := h.2 ⟨b, h₂⟩
      rw [h₁] at ha; cases ha
    | error e' => rfl

/-- **2b. When both modes fail, they fail on the same script** — a script of the program
(`C01d.ScriptOf`) on which `emitScript` fails in both modes with exactly the two reported errors — **and the two
errors are equal or are both label clashes of chunks of that script's chunk table.** -/
theorem emitProgram_errors_optimize (o : Opts) (p : Program) (e₁ e₂ : EFail)
    (h₁ : emitProgram { o with optimize := true } p = .error e₁)
    (h₂ : emitProgram { o with optimize := false } p = .error e₂) :
    ∃ s, C01d.ScriptOf p s ∧
      emitScript { o with optimize := true } p.patches (p.texts.map (·.name)) s = .error e₁ ∧
      emitScript { o with optimize := false } p.patches (p.texts.map (·.name)) s = .error e₂ ∧
      (e₁ = e₂ ∨ ∃ chunks, scriptChunks s.body = .ok chunks ∧
        ChunkClash o p.patches (p.texts.map (·.name)) s chunks e₁ ∧
        ChunkClash o p.patches (p.texts.map (·.name)) s chunks e₂) := by
  rw [emitProgram_eq_assemble, progBlocks_optimize_irrelevant o true] at h₁
  rw [emitProgram_eq_assemble, progBlocks_optimize_irrelevant o false] at h₂
  obtain ⟨s, hs, hs₁, hs₂⟩ := assemble_errors
    (fun s => emitScript_ok_iff (o₁ := { o with optimize := true }) (o₂ := { o with optimize := false })
      rfl rfl p.patches (p.texts.map (·.name)) s) h₁ h₂
  refine ⟨s, mem_progBlocks.1 hs, hs₁, hs₂, ?_⟩
  rcases emitScript_errors (o₁ := { o with optimize := true }) (o₂ := { o with optimize := false })
      rfl rfl p.patches (p.texts.map (·.name)) s e₁ e₂ hs₁ hs₂ with h | ⟨chunks, hc, c₁, c₂⟩
  · exact .inl h
  · refine .inr ⟨chunks, hc, ?_, ?_⟩
    · obtain ⟨c, hcm, hr, rest⟩ := c₁
      exact ⟨c, hcm, by
        rw [← hr]
        exact C05.renderStatements_congr (o₁ := o) (o₂ := { o with optimize := true }) rfl rfl _ _ _ _, rest⟩
    · obtain ⟨c, hcm, hr, rest⟩ := c₂
      exact ⟨c, hcm, by
        rw [← hr]
        exact C05.renderStatements_congr (o₁ := o) (o₂ := { o with optimize := true }) rfl rfl _ _ _ _, rest⟩

/-- **2c.** If no script of the program has two different chunks whose statements fail to render (at most one
chunk with a label clash per script), both modes report THE SAME error. -/
theorem emitProgram_same_error_of_unique_clash (o : Opts) (p : Program)
    (huniq : ∀ s, C01d.ScriptOf p s → ∀ chunks, scriptChunks s.body = .ok chunks →
      ∀ c ∈ chunks, ∀ c' ∈ chunks, ∀ e e',
        renderStatements o p.patches (chunks.map fun c => chunkLabel s.name c.id) (p.texts.map (·.name))
          c.statements = .error e →
        renderStatements o p.patches (chunks.map fun c => chunkLabel s.name c.id) (p.texts.map (·.name))
          c'.statements = .error e' → c = c')
    (e₁ e₂ : EFail)
    (h₁ : emitProgram { o with optimize := true } p = .error e₁)
    (h₂ : emitProgram { o with optimize := false } p = .error e₂) : e₁ = e₂ := by
  obtain ⟨s, hs, _, _, h | ⟨chunks, hc, ⟨c, hcm, hr, _⟩, ⟨c', hcm', hr', _⟩⟩⟩ :=
    emitProgram_errors_optimize o p e₁ e₂ h₁ h₂
  · exact h
  · have := huniq s hs chunks hc c hcm c' hcm' e₁ e₂ hr hr'
    subst this
    rw [hr] at hr'
    injection hr'

/-- The full "same error" clause of the task — FALSE of the model, see `not_emitProgram_same_error_full`. -/
def emitProgram_same_error_full : Prop :=
  ∀ (o : Opts) (p : Program) (e : EFail),
    emitProgram { o with optimize := true } p = .error e ↔ emitProgram { o with optimize := false } p = .error e

/-! ### 3. decomposition into blocks -/

/-- the literal lines of the data blocks, in order -/
def dataLines (bs : List Block) : List Line :=
  bs.flatMap fun
    | .data ls => ls
    | .code _ => []

/-- Two outputs segmented along one list of blocks: `(block, its lines in output 1, its lines in output 2)`. -/
structure Decomposition (f g : Script → Except EFail (List Line)) (bs : List Block)
    (ls₁ ls₂ : List Line) (segs : List (Block × List Line × List Line)) : Prop where
  /-- the blocks of the segments are the given blocks, in order -/
  blocks : segs.map (·.1) = bs
  /-- output 1 is the concatenation of the first components -/
  cat₁ : ls₁ = segs.flatMap (·.2.1)
  /-- output 2 is the concatenation of the second components, in the same order -/
  cat₂ : ls₂ = segs.flatMap (·.2.2)
  /-- a data block contributes its literal lines to both outputs -/
  data : ∀ x ∈ segs, ∀ ls, x.1 = .data ls → x.2.1 = ls ∧ x.2.2 = ls
  /-- a code block contributes the rendering of ITS script in the respective mode -/
  code : ∀ x ∈ segs, ∀ s, x.1 = .code s → f s = .ok x.2.1 ∧ g s = .ok x.2.2

theorem assemble_decomposition {f g : Script → Except EFail (List Line)} : ∀ (bs : List Block)
    (ls₁ ls₂ : List Line), assemble f bs = .ok ls₁ → assemble g bs = .ok ls₂ →
    ∃ segs, Decomposition f g bs ls₁ ls₂ segs := by
  intro bs
  induction bs with
  | nil =>
    intro ls₁ ls₂ h₁ h₂
    simp only [assemble, Except.ok.injEq] at h₁ h₂
    exact ⟨[], rfl, by simp [← h₁], by simp [← h₂], by simp, by simp⟩
  | cons b r ih =>
    intro ls₁ ls₂ h₁ h₂
    cases b with
    | data ls =>
      simp only [assemble] at h₁ h₂
      cases hf : assemble f r with
      | error a => rw [hf] at h₁; simp [seq2] at h₁
      | ok a =>
        cases hg : assemble g r with
        | error b => rw [hg] at h₂; simp [seq2] at h₂
        | ok b =>
          rw [hf] at h₁; rw [hg] at h₂
          simp only [seq2, Except.ok.injEq] at h₁ h₂
          obtain ⟨segs, hb, hc₁, hc₂, hd, hcd⟩ := ih a b hf hg
          refine ⟨(.data ls, ls, ls) :: segs, by simp [hb], by simp [← h₁, hc₁], by simp [← h₂, hc₂], ?_, ?_⟩
          · intro x hx ls' hx'
            rcases List.mem_cons.1 hx with rfl | hx
            · simp only [Block.data.injEq] at hx'; subst hx'; exact ⟨rfl, rfl⟩
            · exact hd x hx ls' hx'
          · intro x hx s hx'
            rcases List.mem_cons.1 hx with rfl | hx
            · cases hx'
            · exact hcd x hx s hx'
    | code s =>
      simp only [assemble] at h₁ h₂
      cases hfs : f s with
      | error a => rw [hfs] at h₁; simp [seq2] at h₁
      | ok a₀ =>
        cases hgs : g s with
        | error b => rw [hgs] at h₂; simp [seq2] at h₂
        | ok b₀ =>
          rw [hfs] at h₁; rw [hgs] at h₂
          cases hf : assemble f r with
          | error a => rw [hf] at h₁; simp [seq2] at h₁
          | ok a =>
            cases hg : assemble g r with
            | error b => rw [hg] at h₂; simp [seq2] at h₂
            | ok b =>
              rw [hf] at h₁; rw [hg] at h₂
              simp only [seq2, Except.ok.injEq] at h₁ h₂
              obtain ⟨segs, hb, hc₁, hc₂, hd, hcd⟩ := ih a b hf hg
              refine ⟨(.code s, a₀, b₀) :: segs, by simp [hb], by simp [← h₁, hc₁], by simp [← h₂, hc₂],
                ?_, ?_⟩
              · intro x hx ls' hx'
                rcases List.mem_cons.1 hx with rfl | hx
                · cases hx'
                · exact hd x hx ls' hx'
              · intro x hx s' hx'
                rcases List.mem_cons.1 hx with rfl | hx
                · simp only [Block.code.injEq] at hx'; subst hx'; exact ⟨hfs, hgs⟩
                · exact hcd x hx s' hx'

/-- **3. Decomposition.**  Both outputs are the concatenation, in the same order, of the blocks of the program
(`progBlocks o p`, independent of `optimize`; its code blocks are exactly the scripts of the program,
`mem_progBlocks`): a data block contributes the same literal lines to both, the block of a script `s`
contributes `emitScript … s` in the respective mode. -/
theorem emitProgram_decomposition (o : Opts) (p : Program) (lsT lsF : List Line)
    (hT : emitProgram { o with optimize := true } p = .ok lsT)
    (hF : emitProgram { o with optimize := false } p = .ok lsF) :
    ∃ segs, Decomposition
      (emitScript { o with optimize := true } p.patches (p.texts.map (·.name)))
      (emitScript { o with optimize := false } p.patches (p.texts.map (·.name)))
      (progBlocks o p) lsT lsF segs := by
  rw [emitProgram_eq_assemble, progBlocks_optimize_irrelevant o true] at hT
  rw [emitProgram_eq_assemble, progBlocks_optimize_irrelevant o false] at hF
  exact assemble_decomposition _ lsT lsF hT hF

theorem dataLines_of_segs : ∀ (segs : List (Block × List Line × List Line)),
    (∀ x ∈ segs, ∀ ls, x.1 = .data ls → x.2.1 = ls ∧ x.2.2 = ls) →
    (segs.filter (·.1.isData)).flatMap (·.2.1) = dataLines (segs.map (·.1)) ∧
    (segs.filter (·.1.isData)).flatMap (·.2.2) = dataLines (segs.map (·.1)) := by
  intro segs
  induction segs with
  | nil => intro _; exact ⟨rfl, rfl⟩
  | cons x r ih =>
    intro h
    obtain ⟨ih₁, ih₂⟩ := ih (fun y hy => h y (List.mem_cons_of_mem _ hy))
    obtain ⟨b, l₁, l₂⟩ := x
    cases b with
    | data ls =>
      obtain ⟨h₁, h₂⟩ := h _ List.mem_cons_self ls rfl
      simp only at h₁ h₂
      subst h₁; subst h₂
      simp [dataLines, Block.isData] at ih₁ ih₂ ⊢
      exact ⟨ih₁, ih₂⟩
    | code s =>
      simp [dataLines, Block.isData] at ih₁ ih₂ ⊢
      exact ⟨ih₁, ih₂⟩

/-- **The data lines are the same list in both modes**: the concatenation of the lines of the non-script
segments of the optimised output equals that of the unoptimised output (both are `dataLines (progBlocks o p)`,
which is computed from the program alone). -/
theorem data_lines_equal {f g : Script → Except EFail (List Line)} {bs : List Block} {ls₁ ls₂ : List Line}
    {segs : List (Block × List Line × List Line)} (h : Decomposition f g bs ls₁ ls₂ segs) :
    (segs.filter (·.1.isData)).flatMap (·.2.1) = (segs.filter (·.1.isData)).flatMap (·.2.2) ∧
    (segs.filter (·.1.isData)).flatMap (·.2.1) = dataLines bs := by
  obtain ⟨h₁, h₂⟩ := dataLines_of_segs segs h.data
  rw [h.blocks] at h₁ h₂
  exact ⟨h₁.trans h₂.symm, h₁⟩

/-- For every script segment of a decomposition of `emitProgram`, C05 applies: the two renderings are of the
same chunk table (`C05.emitScript_eq`), laid out in two orders that are permutations of each other and start
with chunk 0, and the statement lines of the chunks form the same multiset. -/
theorem code_segment_same_chunks (o : Opts) (p : Program) {lsT lsF : List Line}
    {segs : List (Block × List Line × List Line)}
    (h : Decomposition
      (emitScript { o with optimize := true } p.patches (p.texts.map (·.name)))
      (emitScript { o with optimize := false } p.patches (p.texts.map (·.name)))
      (progBlocks o p) lsT lsF segs)
    (x : Block × List Line × List Line) (hx : x ∈ segs) (s : Script) (hs : x.1 = .code s) :
    C01d.ScriptOf p s ∧
    ∃ chunks ordT ordF, scriptChunks s.body = .ok chunks ∧
      C05.chunkOrder { o with optimize := true } chunks = .ok ordT ∧
      C05.chunkOrder { o with optimize := false } chunks = .ok ordF ∧
      renderChunks { o with optimize := true } p.patches chunks s.name (s.scope == .GLOBAL)
        (p.texts.map (·.name)) = .ok x.2.1 ∧
      renderChunks { o with optimize := false } p.patches chunks s.name (s.scope == .GLOBAL)
        (p.texts.map (·.name)) = .ok x.2.2 ∧
      ordT.Perm ordF ∧ ordT.head? = some 0 ∧ ordF.head? = some 0 ∧
      ∀ cl, (ordT.flatMap (C05.stmtLinesOf { o with optimize := true } p.patches cl
                (p.texts.map (·.name)) chunks)).Perm
              (ordF.flatMap (C05.stmtLinesOf { o with optimize := false } p.patches cl
                (p.texts.map (·.name)) chunks)) := by
  have hmem : Block.code s ∈ progBlocks o p := by
    rw [← h.blocks, ← hs]; exact List.mem_map_of_mem hx
  refine ⟨mem_progBlocks.1 hmem, ?_⟩
  obtain ⟨hT, hF⟩ := h.code x hx s hs
  rw [C05.emitScript_eq] at hT hF
  cases hc : scriptChunks s.body with
  | error e => rw [hc] at hT; cases hT
  | ok chunks =>
    rw [hc] at hT hF
    simp only at hT hF
    obtain ⟨ordT, hoT⟩ := chunkOrder_total { o with optimize := true } s.body chunks hc
    obtain ⟨ordF, hoF⟩ := chunkOrder_total { o with optimize := false } s.body chunks hc
    have h0 := (C05.scriptChunks_ids s.body chunks hc).2
    exact ⟨chunks, ordT, ordF, rfl, hoT, hoF, hT, hF,
      C05.chunkOrder_perm_both _ _ chunks ordT ordF h0 hoT hoF,
      (C05.chunkOrder_perm _ chunks ordT h0 hoT).2, (C05.chunkOrder_perm _ chunks ordF h0 hoF).2,
      fun cl => C05.script_same_chunks_both_orders o p.patches cl _ s chunks ordT ordF hc hoT hoF⟩

/-! ### the multiset of lines, modulo jumps / blank lines / terminators / generated labels -/

theorem filter_segs_perm (k : Line → Bool) : ∀ (segs : List (Block × List Line × List Line)),
    (∀ x ∈ segs, (x.2.1.filter k).Perm (x.2.2.filter k)) →
    ((segs.flatMap (·.2.1)).filter k).Perm ((segs.flatMap (·.2.2)).filter k) := by
  intro segs
  induction segs with
  | nil => intro _; exact List.Perm.refl _
  | cons x r ih =>
    intro h
    simp only [List.flatMap_cons, List.filter_append]
    exact (h x List.mem_cons_self).append (ih (fun y hy => h y (List.mem_cons_of_mem _ hy)))

/-- **Same multiset of lines modulo layout.**  Drop from both outputs the generated `goto`s, the blank lines, the
`end` / `return` terminators and the label lines named in `gen`; if `gen` contains every generated chunk label
of every script of the program, what remains of the optimised output is a permutation of what remains of the
unoptimised output (all commands, comparisons, conditional jumps, `switch` / `case` lines, line markers, user
labels not in `gen`, and every data line). -/
theorem line_multiset_modulo_gotos (o : Opts) (p : Program) (lsT lsF : List Line)
    (hT : emitProgram { o with optimize := true } p = .ok lsT)
    (hF : emitProgram { o with optimize := false } p = .ok lsF) (gen : String → Bool)
    (hgen : ∀ s, C01d.ScriptOf p s → ∀ chunks, scriptChunks s.body = .ok chunks →
      ∀ c ∈ chunks, gen (chunkLabel s.name c.id) = true) :
    (lsT.filter (keep gen)).Perm (lsF.filter (keep gen)) := by
  obtain ⟨segs, h⟩ := emitProgram_decomposition o p lsT lsF hT hF
  rw [h.cat₁, h.cat₂]
  refine filter_segs_perm _ segs ?_
  intro x hx
  cases hb : x.1 with
  | data ls =>
    obtain ⟨a, b⟩ := h.data x hx ls hb
    rw [a, b]
  | code s =>
    obtain ⟨a, b⟩ := h.code x hx s hb
    have hmem : Block.code s ∈ progBlocks o p := by
      rw [← h.blocks, ← hb]; exact List.mem_map_of_mem hx
    exact emitScript_core_perm (o₁ := { o with optimize := true }) (o₂ := { o with optimize := false })
      rfl rfl p.patches _ s gen (hgen s (mem_progBlocks.1 hmem)) _ _ a b

/-- … without hypothesis: all label lines dropped. -/
theorem line_multiset_modulo_gotos_labels (o : Opts) (p : Program) (lsT lsF : List Line)
    (hT : emitProgram { o with optimize := true } p = .ok lsT)
    (hF : emitProgram { o with optimize := false } p = .ok lsF) :
    (lsT.filter (keep fun _ => true)).Perm (lsF.filter (keep fun _ => true)) :=
  line_multiset_modulo_gotos o p lsT lsF hT hF _ (fun _ _ _ _ _ _ => rfl)

/-! ### the witness against "same error": two label clashes in one script -/

def flagE (n : String) : OpExpr :=
  { type := .FLAG, operator := .EQ, cmpValue := "TRUE", operand := { lit := n } }
def cmdS (id : Nat) (n : String) (args : List String := []) : Stmt :=
  .cmd { id := id, name := n, args := args }

def tokA : Tok := { lit := "s_2", line := 3 }
def tokB : Tok := { lit := "s_1", line := 5 }

/-- `script s { if (flag(A)) { s_2: } else { s_1: } }` (label tokens on lines 3 and 5) -/
def clashScript : Script :=
  { name := "s",
    body := [ .ite {} (.leaf (flagE "A")) [ .label tokA "s_2" false ] []
                (some [ .label tokB "s_1" false ]) ] }

def clashProg : Program := { tops := [.script clashScript] }

def clashTable : List Chunk :=
  [ { id := 3, branch := .leaf 1 (flagE "A") (some 2) },
    { id := 2, statements := [.label tokB "s_1" false] },
    { id := 1, statements := [.label tokA "s_2" false] },
    { id := 0, branch := .jump 3 } ]

theorem clashTable_ok : scriptChunks clashScript.body = .ok clashTable := rfl

theorem clash_order : C05.chunkOrder { optimize := true } clashTable = .ok [0, 3, 2, 1] := by
  simp [C05.chunkOrder, optimizeChunkOrder, clashTable, optimizeLoop, optimizeLoop.pick, scanUnvisited,
    findChunk, tailId]

def msgA : String :=
  "duplicate script label 's_2'. Choose a unique label that won't clash with the auto-generated script labels"
def msgB : String :=
  "duplicate script label 's_1'. Choose a unique label that won't clash with the auto-generated script labels"

set_option maxRecDepth 100000 in
/-- without `-optimize`: the clash of chunk 1 (label `s_2`, line 3) is reported -/
theorem clash_noopt : emitProgram { optimize := false } clashProg = .error (.perr tokA msgA) := by rfl

set_option maxRecDepth 100000 in
theorem clash_script_opt : emitScript { optimize := true } [] [] clashScript = .error (.perr tokB msgB) := by
  rw [C05.emitScript_eq]
  simp only [clashTable_ok]
  rw [C05.renderChunks_eq, clash_order]
  rfl

/-- with `-optimize`: the clash of chunk 2 (label `s_1`, line 5) is reported -/
theorem clash_opt : emitProgram { optimize := true } clashProg = .error (.perr tokB msgB) := by
  rw [emitProgram_eq_assemble]
  show assemble _ [.data [], .code clashScript, .data []] = _
  simp only [assemble, clashProg, List.map_nil, clash_script_opt, seq2]

/-- **The "same error" clause is false of the model** (and of the Go program: `poryscript -optimize=false`
prints "line 3: duplicate script label 's_2' …", `-optimize=true` prints "line 5: duplicate script label
's_1' …" for the source above). -/
theorem not_emitProgram_same_error_full : ¬ emitProgram_same_error_full := by
  intro h
  have := (h {} clashProg (.perr tokB msgB)).1 clash_opt
  rw [show ({ ({} : Opts) with optimize := false } : Opts) = { optimize := false } from rfl, clash_noopt] at this
  injection this with this
  injection this with h1 h2
  exact absurd h1 (by decide)

/-- non-vacuity of 2b on the witness: both modes fail on `clashScript`, with two different clashes -/
example : ∃ s, C01d.ScriptOf clashProg s ∧
    emitScript { optimize := true } [] [] s = .error (.perr tokB msgB) ∧
    emitScript { optimize := false } [] [] s = .error (.perr tokA msgA) ∧
    (EFail.perr tokB msgB = .perr tokA msgA ∨ ∃ chunks, scriptChunks s.body = .ok chunks ∧
      ChunkClash {} [] [] s chunks (.perr tokB msgB) ∧ ChunkClash {} [] [] s chunks (.perr tokA msgA)) :=
  emitProgram_errors_optimize {} clashProg _ _ clash_opt clash_noopt

/-- non-vacuity of 2a on the witness (both sides false) and of 2c: a script with ONE clashing label -/
example : ¬ ∃ ls, emitProgram { optimize := true } clashProg = .ok ls := by
  rw [show ({ optimize := true } : Opts) = { ({} : Opts) with optimize := true } from rfl,
    emitProgram_success_optimize_irrelevant {} clashProg]
  rintro ⟨ls, h⟩
  rw [show ({ ({} : Opts) with optimize := false } : Opts) = { optimize := false } from rfl, clash_noopt] at h
  cases h

def oneClashProg : Program :=
  { tops := [.script { name := "t", body := [cmdS 1 "lock", .label tokA "t" false] }] }

example (e₁ e₂ : EFail) (h₁ : emitProgram { optimize := true } oneClashProg = .error e₁)
    (h₂ : emitProgram { optimize := false } oneClashProg = .error e₂) : e₁ = e₂ := by
  refine emitProgram_same_error_of_unique_clash {} oneClashProg ?_ e₁ e₂ h₁ h₂
  intro s hs chunks hc c hcm c' hcm' _ _ _ _
  have hs' : s = { name := "t", body := [cmdS 1 "lock", .label tokA "t" false] } := by
    simpa [C01d.ScriptOf, oneClashProg] using hs
  subst hs'
  rw [show scriptChunks (Script.body { name := "t", body := [cmdS 1 "lock", .label tokA "t" false] }) =
    .ok [{ id := 0, statements := [cmdS 1 "lock", .label tokA "t" false] }] from rfl] at hc
  injection hc with hc
  subst hc
  simp only [List.mem_singleton] at hcm hcm'
  rw [hcm, hcm']

/-! ### non-vacuity: a program with every kind of statement, both modes computed -/

def demoMain : Script :=
  { name := "Main",
    body := [ cmdS 1 "lock",
              .ite {} (.leaf (flagE "F")) [cmdS 2 "msgbox" ["Main_Text_0"]] [] none,
              cmdS 3 "release" ] }
def demoLoad : Script := { name := "M_OnLoad", scope := .LOCAL, body := [cmdS 4 "setflag" ["F"]] }
def demoFrame : Script := { name := "M_Frame_0", scope := .LOCAL, body := [cmdS 5 "lockall"] }

/-- a script with an `if` between two commands, a text statement, a movement, a mart, a `mapscripts`
statement with an inline script and a table with an inline script, a raw block; two hoisted texts -/
def demoProg : Program :=
  { tops :=
      [ .script demoMain,
        .text { name := "T", value := "Bye$" },
        .movement { name := "Mv", cmds := [{ lit := "walk_up" }, { lit := "face_down" }] },
        .mart {} "Shop" [{}, {}] ["ITEM_A", "ITEM_B"] .LOCAL,
        .mapscripts
          { tok := {}, name := "M", scope := .GLOBAL,
            mapScripts := [ { type := { lit := "MAP_SCRIPT_ON_LOAD" }, name := "M_OnLoad",
                              script := some demoLoad } ],
            tables := [ { type := { lit := "MAP_SCRIPT_ON_FRAME_TABLE" }, name := "M_Frame",
                          entries := [ { condition := { lit := "VAR_X" }, comparison := "1",
                                         name := "M_Frame_0", script := some demoFrame } ] } ] },
        .raw {} {} "\t.byte 1\n\t.byte 2" ],
    texts := [ { name := "Main_Text_0", value := "Hi\nyou$" }, { name := "T", value := "Bye$" } ] }

def demoTl : List String := ["Main_Text_0", "T"]

def demoMainTable : List Chunk :=
  [ { id := 3, branch := .leaf 2 (flagE "F") (some 1) },
    { id := 2, returnID := some 1, statements := [cmdS 2 "msgbox" ["Main_Text_0"]] },
    { id := 1, statements := [cmdS 3 "release"] },
    { id := 0, returnID := some 1, statements := [cmdS 1 "lock"], branch := .jump 3 } ]

theorem demoMainTable_ok : scriptChunks demoMain.body = .ok demoMainTable := rfl

/-- the optimised order differs from the id order 0,1,2,3 -/
theorem demoMain_order : C05.chunkOrder { optimize := true } demoMainTable = .ok [0, 3, 1, 2] := by
  simp [C05.chunkOrder, optimizeChunkOrder, demoMainTable, optimizeLoop, optimizeLoop.pick, scanUnvisited,
    findChunk, tailId]

def demoMainF : List Line :=
  [ .labelDef "Main" true, .command "lock" [], .goto_ "Main_3", .blank,
    .labelDef "Main_1" false, .command "release" [], .terminator false, .blank,
    .labelDef "Main_2" false, .command "msgbox" ["Main_Text_0"], .goto_ "Main_1", .blank,
    .labelDef "Main_3" false, .gotoIfSet "F" "Main_2", .goto_ "Main_1", .blank ]

def demoMainT : List Line :=
  [ .labelDef "Main" true, .command "lock" [], .gotoIfSet "F" "Main_2",
    .labelDef "Main_1" false, .command "release" [], .terminator false, .blank,
    .labelDef "Main_2" false, .command "msgbox" ["Main_Text_0"], .goto_ "Main_1", .blank ]

def demoMainLines (b : Bool) : List Line := if b then demoMainT else demoMainF

set_option maxRecDepth 100000 in
theorem demoMain_emit (b : Bool) :
    emitScript { optimize := b } [] demoTl demoMain = .ok (demoMainLines b) := by
  rw [C05.emitScript_eq]
  simp only [demoMainTable_ok]
  cases b
  · rfl
  · rw [C05.renderChunks_eq, demoMain_order]
    rfl

/-- a table with the single chunk 0 has the order `[0]` in both modes -/
theorem single_order (b : Bool) (c : Chunk) (h : c.id = 0) :
    C05.chunkOrder { optimize := b } [c] = .ok [0] := by
  cases b
  · simp [C05.chunkOrder, sortNat, insertNat, h]
  · simp [C05.chunkOrder, optimizeChunkOrder, optimizeLoop, h]

set_option maxRecDepth 100000 in
theorem demoLoad_emit (b : Bool) : emitScript { optimize := b } [] demoTl demoLoad =
    .ok [ .labelDef "M_OnLoad" false, .command "setflag" ["F"], .terminator false, .blank ] := by
  rw [C05.emitScript_eq]
  rw [show scriptChunks demoLoad.body = .ok [{ id := 0, statements := demoLoad.body }] from rfl]
  simp only
  rw [C05.renderChunks_eq, single_order b _ rfl]
  rfl

set_option maxRecDepth 100000 in
theorem demoFrame_emit (b : Bool) : emitScript { optimize := b } [] demoTl demoFrame =
    .ok [ .labelDef "M_Frame_0" false, .command "lockall" [], .terminator false, .blank ] := by
  rw [C05.emitScript_eq]
  rw [show scriptChunks demoFrame.body = .ok [{ id := 0, statements := demoFrame.body }] from rfl]
  simp only
  rw [C05.renderChunks_eq, single_order b _ rfl]
  rfl

/-- everything after the block of `Main` -/
def demoRest : List Line :=
  [ .blank, .labelDef "Mv" false, .step "walk_up", .step "face_down", .step "step_end",
    .blank, .align2, .labelDef "Shop" false, .twoByte "ITEM_A", .twoByte "ITEM_B", .twoByte "ITEM_NONE",
    .blank, .labelDef "M" true, .mapScript "MAP_SCRIPT_ON_LOAD" "M_OnLoad",
    .mapScript "MAP_SCRIPT_ON_FRAME_TABLE" "M_Frame", .byte0,
    .labelDef "M_OnLoad" false, .command "setflag" ["F"], .terminator false, .blank,
    .labelDef "M_Frame" false, .mapScript2 "VAR_X" "1" "M_Frame_0", .twoByte0,
    .labelDef "M_Frame_0" false, .command "lockall" [], .terminator false, .blank,
    .blank, .raw "\t.byte 1", .raw "\t.byte 2",
    .blank, .labelDef "Main_Text_0" false, .textLine "string" "Hi", .textLine "string" "you$",
    .blank, .labelDef "T" false, .textLine "string" "Bye$" ]

def demoOut (b : Bool) : List Line := demoMainLines b ++ demoRest

set_option maxRecDepth 100000 in
/-- both outputs of the model on `demoProg` -/
theorem demo_emit (b : Bool) : emitProgram { optimize := b } demoProg = .ok (demoOut b) := by
  rw [emitProgram_eq_assemble]
  rw [show progBlocks { optimize := b } demoProg = progBlocks {} demoProg from progBlocks_congr rfl rfl _]
  show assemble (emitScript { optimize := b } [] demoTl)
    [_, .code demoMain, _, _, _, _, _, _, .code demoLoad, _, .code demoFrame, _, _, _] = _
  simp only [assemble, demoMain_emit, demoLoad_emit, demoFrame_emit, seq2]
  rfl

/-- the two outputs differ as lists (16 vs 11 lines for `Main`) … -/
example : demoOut true ≠ demoOut false := by decide

/-- … both are segmented along the same 14 blocks (`emitProgram_decomposition`) … -/
example : ∃ segs, Decomposition (emitScript { optimize := true } [] demoTl)
    (emitScript { optimize := false } [] demoTl) (progBlocks {} demoProg)
    (demoOut true) (demoOut false) segs :=
  emitProgram_decomposition {} demoProg _ _ (demo_emit true) (demo_emit false)

/-- … whose code blocks are the three scripts, in output order … -/
example : (progBlocks {} demoProg).filterMap (fun | .code s => some s.name | .data _ => none) =
    ["Main", "M_OnLoad", "M_Frame_0"] := by decide

/-- … and whose data lines — the same list in both outputs by `data_lines_equal` — are: -/
def demoData : List Line :=
  [ .blank, .labelDef "Mv" false, .step "walk_up", .step "face_down", .step "step_end",
    .blank, .align2, .labelDef "Shop" false, .twoByte "ITEM_A", .twoByte "ITEM_B", .twoByte "ITEM_NONE",
    .blank, .labelDef "M" true, .mapScript "MAP_SCRIPT_ON_LOAD" "M_OnLoad",
    .mapScript "MAP_SCRIPT_ON_FRAME_TABLE" "M_Frame", .byte0,
    .labelDef "M_Frame" false, .mapScript2 "VAR_X" "1" "M_Frame_0", .twoByte0,
    .blank, .raw "\t.byte 1", .raw "\t.byte 2",
    .blank, .labelDef "Main_Text_0" false, .textLine "string" "Hi", .textLine "string" "you$",
    .blank, .labelDef "T" false, .textLine "string" "Bye$" ]

example : dataLines (progBlocks {} demoProg) = demoData := by decide

example (segs : List (Block × List Line × List Line))
    (h : Decomposition (emitScript { optimize := true } [] demoTl)
      (emitScript { optimize := false } [] demoTl) (progBlocks {} demoProg)
      (demoOut true) (demoOut false) segs) :
    (segs.filter (·.1.isData)).flatMap (·.2.1) = demoData ∧
    (segs.filter (·.1.isData)).flatMap (·.2.2) = demoData := by
  obtain ⟨h₁, h₂⟩ := data_lines_equal h
  rw [show dataLines (progBlocks {} demoProg) = demoData from by decide] at h₂
  exact ⟨h₂, h₁ ▸ h₂⟩

/-- non-vacuity of the multiset statement: the kept lines of `Main` come in a different order … -/
example : (demoMainT.filter (keep fun _ => true)) =
      [.command "lock" [], .gotoIfSet "F" "Main_2", .command "release" [], .command "msgbox" ["Main_Text_0"]] ∧
    (demoMainF.filter (keep fun _ => true)) =
      [.command "lock" [], .command "release" [], .command "msgbox" ["Main_Text_0"], .gotoIfSet "F" "Main_2"] := by
  decide

/-- … and the whole outputs are permutations of each other after filtering -/
example : ((demoOut true).filter (keep fun _ => true)).Perm ((demoOut false).filter (keep fun _ => true)) :=
  line_multiset_modulo_gotos_labels {} demoProg _ _ (demo_emit true) (demo_emit false)

/-- non-vacuity of 1: the movement, the mart, the raw block, and a `mapscripts` statement without inline
scripts -/
example : NoCode (.movement { name := "Mv", cmds := [{ lit := "walk_up" }] }) := trivial
def demoPlainMap : MapScripts :=
  { tok := {}, name := "M", scope := .GLOBAL,
    mapScripts := [ { type := { lit := "MAP_SCRIPT_ON_LOAD" }, name := "Other", script := none } ],
    tables := [ { type := { lit := "MAP_SCRIPT_ON_FRAME_TABLE" }, name := "M_Frame",
                  entries := [ { condition := { lit := "VAR_X" }, comparison := "1", name := "Other2",
                                 script := none } ] } ] }
example : NoCode (.mapscripts demoPlainMap) := by simp [NoCode, demoPlainMap]
example := emit_nonscript_optimize_irrelevant { inputPath := "a.pory" } [] [] (.mapscripts demoPlainMap)
  (by simp [NoCode, demoPlainMap])
example := emit_nonscript_optimize_irrelevant { inputPath := "a.pory" } [] []
  (.movement { name := "Mv", cmds := [{ lit := "walk_up" }] }) trivial

/-- non-vacuity of 2a on `demoProg` (both sides true) -/
example : (∃ ls, emitProgram { optimize := true } demoProg = .ok ls) ↔
    ∃ ls, emitProgram { optimize := false } demoProg = .ok ls :=
  emitProgram_success_optimize_irrelevant {} demoProg

#print axioms emit_nonscript_optimize_irrelevant
#print axioms progBlocks_optimize_irrelevant
#print axioms emitScript_first_error
#print axioms emitProgram_success_optimize_irrelevant
#print axioms emitProgram_errors_optimize
#print axioms emitProgram_same_error_of_unique_clash
#print axioms not_emitProgram_same_error_full
#print axioms emitProgram_decomposition
#print axioms data_lines_equal
#print axioms code_segment_same_chunks
#print axioms line_multiset_modulo_gotos
#print axioms demo_emit

end Pory.C05e
