import PoryProofs.ParserFuel6
import PoryProofs.LexEof
/-
C18 (totality), part c — the parser model never runs out of fuel and never panics.

For every environment and every source text the parser, run on the tokens of the lexer, ends with a
program or with a located error:
* `parser_never_out_of_fuel` — on every token list whose last token is an `EOF` token the fuel
  `4 * (number of tokens) + 50` that `parseTokens` hands out suffices (`.outOfFuel` is unreachable).
  Proved in `PoryProofs/ParserFuel2.lean` … `ParserFuel6.lean` by a potential-function argument: for each
  parse function `f`, "fuel ≥ 4 · (remaining tokens) + c_f  ⇒  no `.outOfFuel`", by one simultaneous induction
  on the fuel per mutual block, together with "on success the token window does not grow, and shrinks
  when `f` is known to consume a token" (`Dec` / `SDec`).
  The `EOF` hypothesis is necessary: `Pory.Parser.outOfFuel_reachable_without_eof`.
* `Pory.Lexer.lexAll_ends_with_eof` (`PoryProofs/LexEof.lean`) — the token list of every source ends with
  an `EOF` token (every call of the lexer's `nextToken` that does not report the end of the input consumes
  at least one character, so the lexer's own fuel suffices).
* `compile_never_out_of_fuel_or_panic_in_parser` — hence `parseTokens env (lexAll src)` is `.ok _` or
  `.error (.err _)`, using `no_panic_parseTokens` (`PoryProofs/ParserTotal.lean`) for `.panic`.
Nothing is partial and there is no hypothesis left on the lexer.
-/
namespace Pory.C18c
open Pory Pory.Parser

/-- On a token list that ends with an `EOF` token the parser does not run out of fuel. -/
theorem parser_never_out_of_fuel (env : Env) (toks : List Tok)
    (h : toks ≠ [] → (toks.getLast?).map (·.type) = some .EOF) :
    parseTokens env toks ≠ .error .outOfFuel :=
  Parser.parser_never_out_of_fuel env toks h

/-- The lexer's output is never empty and ends with an `EOF` token. -/
theorem lexAll_ends_with_eof (src : List Char) :
    ((Lexer.lexAll src).getLast?).map (·.type) = some .EOF ∧ Lexer.lexAll src ≠ [] :=
  Lexer.lexAll_ends_with_eof src

/-- **Totality of the front end**: for every environment and every source, parsing the lexer's tokens
ends with a program or with a located parse error — never out of fuel, never a panic. -/
theorem compile_never_out_of_fuel_or_panic_in_parser (env : Env) (src : List Char) :
    (∃ prog, parseTokens env (Lexer.lexAll src) = .ok prog) ∨
    (∃ e, parseTokens env (Lexer.lexAll src) = .error (.err e)) := by
  cases h : parseTokens env (Lexer.lexAll src) with
  | ok prog => exact Or.inl ⟨prog, rfl⟩
  | error f =>
    cases f with
    | err e => exact Or.inr ⟨e, rfl⟩
    | outOfFuel =>
      exact absurd h (parser_never_out_of_fuel env _ (fun _ => (lexAll_ends_with_eof src).1))
    | panic w => exact absurd h (no_panic_parseTokens env _ w)

/-! ### non-vacuity -/
section Example
private def tk (t : TT) (l : String := "") : Tok := { type := t, lit := l }

/-- The hypothesis of `parser_never_out_of_fuel` on a concrete unbalanced input
(`script S { c ( x` + `EOF`): the result is a located error. -/
example : parseTokens {}
    [tk .SCRIPT, tk .IDENT "S", tk .LBRACE, tk .IDENT "c", tk .LPAREN, tk .IDENT "x", tk .EOF] ≠
      .error .outOfFuel :=
  parser_never_out_of_fuel {} _ (fun _ => rfl)

/-- The lexer fact on a concrete source. -/
example : ((Lexer.lexAll "script S { c(x".toList).getLast?).map (·.type) = some .EOF :=
  (lexAll_ends_with_eof _).1

/-! Both outcomes of `compile_never_out_of_fuel_or_panic_in_parser` occur (on token lists as the lexer
produces them for `script S { c(x) }` and `script S { c(x`). -/
set_option maxRecDepth 20000 in
example : ∃ prog, parseTokens {}
    [tk .SCRIPT, tk .IDENT "S", tk .LBRACE, tk .IDENT "c", tk .LPAREN, tk .IDENT "x", tk .RPAREN, tk .RBRACE,
      tk .EOF] = .ok prog := ⟨_, rfl⟩
set_option maxRecDepth 20000 in
example : ∃ e, parseTokens {}
    [tk .SCRIPT, tk .IDENT "S", tk .LBRACE, tk .IDENT "c", tk .LPAREN, tk .IDENT "x", tk .EOF] =
      .error (.err e) := ⟨_, rfl⟩
end Example

end Pory.C18c
