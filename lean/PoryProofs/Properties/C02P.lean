import PoryProofs.BoolParseTokens
/-
C02 (precedence half) — "The branch taken for a condition is the value of the written expression
under the usual reading: '!' binds tightest, then '&&', then '||', parentheses override. Each leaf
means what the manual says."

What is proved (about the model `Pory.Parser.parseBooleanExpression`, the transcription of
`parseBooleanExpression` / `parseRightSideExpression` / `parseLeafBooleanExpression` /
`parseConditionVarOperator` / `parseConditionFlagLikeOperator` of /repo/parser/parser.go):

* Reference grammar with precedence by construction (`PoryProofs/BoolParse.lean`):
    `SOr ::= SAnd | SAnd '||' SOr ; SAnd ::= SUn | SUn '&&' SAnd ; SUn ::= leaf | ['!'] '(' SOr ')'`
  with ALL non-autovar leaf forms (`PoryProofs/BoolParseLeaf.lean`, `Leaf`):
    `[!]flag(X)`, `flag(X) ==|!= TRUE|FALSE`, the same five spellings for `defeated`,
    `[!]var(X)`, `var(X) op N` with op ∈ {==, !=, <, <=, >, >=}, N one INT or IDENT token,
    X one IDENT token.
  Every constructor also carries the position records (`TPos`) of its tokens, so "every `g`"
  includes every assignment of token positions; nothing but the printer looks at them.
  `printOr` writes the token sequence, `evalOr` is the standard truth value
  (leaves: `evalLeaf`, the manual's meaning over an arbitrary `Spec.World` and history),
  `evalTree` the value of the parser's result (`Spec.leafHolds` on leaves, `.AND`/`.OR` nodes =
  conjunction / disjunction).

* `parse_bool_correct`: for every `g : SOr`, every `negated`, every token `pre` before the
  expression, every `)`-typed token `rparen` and tail `rest`, every `env` (NO hypothesis on
  `autoVars`: an auto-var command is an IDENT token, and a printed leaf starts with
  `flag`/`var`/`defeated`/`!`), every state `s` with `s.toks = pre :: printOr g ++ rparen :: rest`
  and no constants, and every `fuel ≥ needOr g`, the parser returns a tree `t`, no implicit data,
  and the state `{ s with toks := rparen :: rest }` (stops exactly at the closing parenthesis,
  nothing else touched), and `evalTree w h t = (evalOr id w h g != negated)` for all `w h`.
  So: `!` > `&&` > `||`, parentheses (also redundant ones) override, and distributing a `!`
  over a parenthesis (De Morgan, `negated`) is sound.
* `parse_bool_correct_consts`: the same with arbitrary `s.constants`; operand and value names are
  then read through the constant substitution `substC s.constants` (what
  `tryReplaceWithConstant` does).
* `parse_bool_tree`: the result is exactly `treeOr … negated g` (explicit shape of the grouping).
* `parse_bool_correct_tokens`: the same for ANY token list `ts` with the token types and literals
  of `printOr g` (`SameText ts (printOr g)`), fuel `≥ 2 * ts.length + 1`
  (helper: `PoryProofs/BoolParseTokens.lean`).
* `condition_value`: the `negated = false` corollary (how `if`/`while`/… call the parser).
* `fuel_linear`: `needOr g ≤ 2 * (number of tokens) + 1`.
* `reading_unambiguous`: expressions printed to the same tokens have the same value.

Nothing is partial: all leaf forms are covered. Not covered (outside the stated grammar):
auto-var leaves, multi-token operands / comparison values, `value(...)` comparison values.
-/
namespace Pory.C02P
open Pory Pory.Parser Pory.Spec

/-- The parser returns exactly the expected tree `treeOr`, stops at the closing parenthesis and
leaves everything else in the state unchanged. -/
theorem parse_bool_tree (env : Env) (scriptName : String) (g : SOr) (negated : Bool)
    (pre rparen : Tok) (rest : List Tok) (hrp : rparen.type = .RPAREN)
    (s : PState) (htoks : s.toks = pre :: (printOr g ++ rparen :: rest))
    (fuel : Nat) (hfuel : needOr g ≤ fuel) :
    (parseBooleanExpression env scriptName false negated fuel).run s =
      .ok ((treeOr (substC s.constants) negated g, {}), { s with toks := rparen :: rest }) := by
  have h := orF env scriptName s g negated pre rparen rest fuel hfuel hrp
  rw [← htoks, st_self] at h
  exact h

/-- **C02, precedence half**, for arbitrary constants (names read through the substitution). -/
theorem parse_bool_correct_consts (env : Env) (scriptName : String) (g : SOr) (negated : Bool)
    (pre rparen : Tok) (rest : List Tok) (hrp : rparen.type = .RPAREN)
    (s : PState) (htoks : s.toks = pre :: (printOr g ++ rparen :: rest))
    (fuel : Nat) (hfuel : needOr g ≤ fuel) :
    ∃ t, (parseBooleanExpression env scriptName false negated fuel).run s =
          .ok ((t, {}), { s with toks := rparen :: rest }) ∧
      ∀ w h, evalTree w h t = (evalOr (substC s.constants) w h g != negated) :=
  ⟨_, parse_bool_tree env scriptName g negated pre rparen rest hrp s htoks fuel hfuel,
    fun w h => evalOr_ok _ w h negated g⟩

/-- **C02, precedence half.** -/
theorem parse_bool_correct (env : Env) (scriptName : String) (g : SOr) (negated : Bool)
    (pre rparen : Tok) (rest : List Tok) (hrp : rparen.type = .RPAREN)
    (s : PState) (htoks : s.toks = pre :: (printOr g ++ rparen :: rest))
    (hconst : s.constants = [])
    (fuel : Nat) (hfuel : needOr g ≤ fuel) :
    ∃ t, (parseBooleanExpression env scriptName false negated fuel).run s =
          .ok ((t, {}), { s with toks := rparen :: rest }) ∧
      ∀ w h, evalTree w h t = (evalOr id w h g != negated) := by
  obtain ⟨t, h1, h2⟩ :=
    parse_bool_correct_consts env scriptName g negated pre rparen rest hrp s htoks fuel hfuel
  refine ⟨t, h1, fun w h => ?_⟩
  rw [h2 w h, hconst]
  rfl

/-- The way statements call the parser (`negated = false`): the tree's value is the value of the
written expression. -/
theorem condition_value (env : Env) (scriptName : String) (g : SOr)
    (pre rparen : Tok) (rest : List Tok) (hrp : rparen.type = .RPAREN)
    (s : PState) (htoks : s.toks = pre :: (printOr g ++ rparen :: rest))
    (hconst : s.constants = [])
    (fuel : Nat) (hfuel : needOr g ≤ fuel) :
    ∃ t, (parseBooleanExpression env scriptName false false fuel).run s =
          .ok ((t, {}), { s with toks := rparen :: rest }) ∧
      ∀ w h, evalTree w h t = evalOr id w h g := by
  obtain ⟨t, h1, h2⟩ :=
    parse_bool_correct env scriptName g false pre rparen rest hrp s htoks hconst fuel hfuel
  exact ⟨t, h1, fun w h => by simpa using h2 w h⟩

/-- **C02, precedence half, on plain token sequences**: `ts` is any token list that reads like
the expression `g` (`SameText`: same token types and literals — positions, which `g` also
carries, are irrelevant); fuel bound in the number of tokens. -/
theorem parse_bool_correct_tokens (env : Env) (scriptName : String) (g : SOr) (negated : Bool)
    (ts : List Tok) (hts : SameText ts (printOr g))
    (pre rparen : Tok) (rest : List Tok) (hrp : rparen.type = .RPAREN)
    (s : PState) (htoks : s.toks = pre :: (ts ++ rparen :: rest))
    (hconst : s.constants = [])
    (fuel : Nat) (hfuel : 2 * ts.length + 1 ≤ fuel) :
    ∃ t, (parseBooleanExpression env scriptName false negated fuel).run s =
          .ok ((t, {}), { s with toks := rparen :: rest }) ∧
      ∀ w h, evalTree w h t = (evalOr id w h g != negated) := by
  obtain ⟨g', hp, hv⟩ := or_retok g ts hts
  subst hp
  obtain ⟨t, h1, h2⟩ := parse_bool_correct env scriptName g' negated pre rparen rest hrp s htoks
    hconst fuel (Nat.le_trans (needOr_le g') hfuel)
  exact ⟨t, h1, fun w h => by rw [h2 w h, hv]⟩

/-- The explicit fuel bound is linear in the number of tokens of the expression (the model's
`ParseProgram` starts with `4 * (number of tokens) + 50`). -/
theorem fuel_linear (g : SOr) : needOr g ≤ 2 * (printOr g).length + 1 := needOr_le g

/-- The reading of a token sequence is unambiguous: two expressions of the reference grammar
that are written with the same tokens have the same value (so "the value of the written
expression" is well defined on token sequences). -/
theorem reading_unambiguous' (g1 g2 : SOr) (hp : printOr g1 = printOr g2) (w : World) (h : Hist) :
    evalOr id w h g1 = evalOr id w h g2 := by
  let s : PState := { toks := tk .LPAREN "(" :: (printOr g1 ++ tk .RPAREN ")" :: []), eof := tk .EOF "" }
  have h1 := parse_bool_tree {} "" g1 false (tk .LPAREN "(") (tk .RPAREN ")") [] rfl s rfl
    (needOr g1 + needOr g2) (by omega)
  have h2 := parse_bool_tree {} "" g2 false (tk .LPAREN "(") (tk .RPAREN ")") [] rfl s
    (by show _ = _ :: (printOr g2 ++ _); rw [← hp]) (needOr g1 + needOr g2) (by omega)
  rw [h1] at h2
  have ht : treeOr (substC s.constants) false g1 = treeOr (substC s.constants) false g2 := by
    injection h2 with h2; injection h2 with h2; injection h2
  have e1 := evalOr_ok (substC s.constants) w h false g1
  have e2 := evalOr_ok (substC s.constants) w h false g2
  rw [ht, e2] at e1
  have e3 : evalOr (substC s.constants) w h g1 = evalOr (substC s.constants) w h g2 := by
    simpa using e1.symm
  exact e3

/-- … also when only token types and literals agree. -/
theorem reading_unambiguous (g1 g2 : SOr) (hp : SameText (printOr g1) (printOr g2))
    (w : World) (h : Hist) : evalOr id w h g1 = evalOr id w h g2 := by
  obtain ⟨g2', h1, h2⟩ := or_retok g2 (printOr g1) hp
  rw [← h2, reading_unambiguous' g1 g2' h1.symm]

/-! ### non-vacuity: `if (flag(A) && flag(B) && flag(C) || flag(D)) {`
(the input a previous version of the parser mis-grouped), with the token positions the model
lexer assigns on that line -/

/-- positions of a token on line 1 from column `a` to column `b` -/
def at1 (a b : Nat) : TPos := ⟨1, a, a, 1, b, b⟩

/-- `flag(x)` starting at column `c` (single-letter `x`) -/
def fl (c : Nat) (x : String) : SUn :=
  .leaf (.flagBare (fun k => [at1 c (c + 4), at1 (c + 4) (c + 5), at1 (c + 5) (c + 6),
    at1 (c + 6) (c + 7)].getD k {}) false x)

/-- `flag(A) && flag(B) && flag(C) || flag(D)` as written from column 4 on -/
def exG : SOr :=
  .more (.more (fl 4 "A") (at1 12 14) (.more (fl 15 "B") (at1 23 25) (.one (fl 26 "C")))) (at1 34 36)
    (.one (.one (fl 37 "D")))

def exToks : List Tok :=
  [tkp (at1 0 2) .IF "if", tkp (at1 3 4) .LPAREN "(",
   tkp (at1 4 8) .FLAG "flag", tkp (at1 8 9) .LPAREN "(", tkp (at1 9 10) .IDENT "A", tkp (at1 10 11) .RPAREN ")",
   tkp (at1 12 14) .AND "&&",
   tkp (at1 15 19) .FLAG "flag", tkp (at1 19 20) .LPAREN "(", tkp (at1 20 21) .IDENT "B", tkp (at1 21 22) .RPAREN ")",
   tkp (at1 23 25) .AND "&&",
   tkp (at1 26 30) .FLAG "flag", tkp (at1 30 31) .LPAREN "(", tkp (at1 31 32) .IDENT "C", tkp (at1 32 33) .RPAREN ")",
   tkp (at1 34 36) .OR "||",
   tkp (at1 37 41) .FLAG "flag", tkp (at1 41 42) .LPAREN "(", tkp (at1 42 43) .IDENT "D", tkp (at1 43 44) .RPAREN ")",
   tkp (at1 44 45) .RPAREN ")", tkp (at1 46 47) .LBRACE "{", tkp (at1 47 47) .EOF ""]

-- sanity check (evaluation, not a proof): these are the tokens of the model lexer
#guard Lexer.lexAll "if (flag(A) && flag(B) && flag(C) || flag(D)) {".toList == exToks

/-- The token list has the shape the theorem asks for: the parser is entered (by the `if`
statement) with `cur = (`, i.e. after dropping the `if` token. -/
theorem exToks_shape : exToks.tail =
    tkp (at1 3 4) .LPAREN "(" :: (printOr exG ++ tkp (at1 44 45) .RPAREN ")" ::
      [tkp (at1 46 47) .LBRACE "{", tkp (at1 47 47) .EOF ""]) := by decide

def flagLeaf (a b : Nat) (x : String) : BoolExpr :=
  .leaf { type := .FLAG, operand := tkp (at1 a b) .IDENT x, operator := .EQ, cmpValue := "TRUE" }

/-- `((A && B) && C) || D` -/
def exTree : BoolExpr :=
  .bin (.bin (.bin (flagLeaf 9 10 "A") .AND (flagLeaf 20 21 "B")) .AND (flagLeaf 31 32 "C")) .OR
    (flagLeaf 42 43 "D")

/-- On `if (flag(A) && flag(B) && flag(C) || flag(D)) {` the parser returns
`((A && B) && C) || D`, stops at the closing `)`, and the tree has the value of the written
text. -/
example (env : Env) (sn : String) :
    let s : PState := { toks := exToks.tail, eof := tkp (at1 47 47) .EOF "" }
    (parseBooleanExpression env sn false false 30).run s =
      .ok ((exTree, {}),
        { s with toks := [tkp (at1 44 45) .RPAREN ")", tkp (at1 46 47) .LBRACE "{",
                          tkp (at1 47 47) .EOF ""] }) ∧
    ∀ w h, evalTree w h exTree =
        ((w.flag h "A" && w.flag h "B" && w.flag h "C") || w.flag h "D") := by
  intro s
  have h1 := parse_bool_tree env sn exG false _ _ _ rfl s exToks_shape 30 (by decide)
  have h2 := fun w h => evalOr_ok (substC s.constants) w h false exG
  have ht : treeOr (substC s.constants) false exG = exTree := rfl
  rw [ht] at h1 h2
  refine ⟨h1, fun w h => ?_⟩
  rw [h2 w h]
  simp [exG, fl, evalOr, evalAnd, evalUn, evalLeaf, atomVal, substC, s, Bool.and_assoc]

/-- `flag(A) && flag(B) && flag(C) || flag(D)` written without any position information -/
def exG0 : SOr :=
  let f : String → SUn := fun x => .leaf (.flagBare (fun _ => {}) false x)
  .more (.more (f "A") {} (.more (f "B") {} (.one (f "C")))) {} (.one (.one (f "D")))

/-- The same through `parse_bool_correct_tokens`: the lexer's tokens read like `exG0`. -/
example (env : Env) (sn : String) :
    let s : PState := { toks := exToks.tail, eof := tkp (at1 47 47) .EOF "" }
    ∃ t, (parseBooleanExpression env sn false false 100).run s =
          .ok ((t, {}), { s with toks := tkp (at1 44 45) .RPAREN ")" :: exToks.drop 22 }) ∧
      ∀ w h, evalTree w h t = ((w.flag h "A" && w.flag h "B" && w.flag h "C") || w.flag h "D") := by
  intro s
  obtain ⟨t, h1, h2⟩ := parse_bool_correct_tokens env sn exG0 false ((exToks.drop 2).take 19)
    (by unfold SameText; decide) (tkp (at1 3 4) .LPAREN "(") (tkp (at1 44 45) .RPAREN ")")
    (exToks.drop 22) rfl s (by show exToks.tail = _; decide) rfl 100 (by decide)
  refine ⟨t, h1, fun w h => ?_⟩
  rw [h2 w h]
  simp [exG0, evalOr, evalAnd, evalUn, evalLeaf, atomVal, Bool.and_assoc]

/-- De Morgan: `!(flag(A) && flag(B) || var(V) < 3)` parses to `(A == FALSE-ish || …) && V >= 3`
and has the negated value. Instance of `parse_bool_correct` with a `!( … )`. -/
example (env : Env) (sn : String) (pre : Tok) (rest : List Tok) (fuel : Nat) (hf : 30 ≤ fuel) :
    let z : Nat → TPos := fun _ => {}
    let inner : SOr :=
      .more (.more (.leaf (.flagBare z false "A")) {} (.one (.leaf (.flagBare z false "B")))) {}
        (.one (.one (.leaf (.varCmp z "V" .lt ⟨true, "3"⟩))))
    let g : SOr := .one (.one (.paren true {} {} {} inner))
    let s : PState := { toks := pre :: (printOr g ++ tk .RPAREN ")" :: rest), eof := tk .EOF "" }
    ∃ t, (parseBooleanExpression env sn false false fuel).run s =
          .ok ((t, {}), { s with toks := tk .RPAREN ")" :: rest }) ∧
      ∀ w h, evalTree w h t =
        !((w.flag h "A" && w.flag h "B") || decide (w.cmp h "V" "3" < 0)) := by
  intro z inner g s
  obtain ⟨t, h1, h2⟩ := condition_value env sn g pre (tk .RPAREN ")") rest rfl s rfl rfl fuel
    (by
      have : needOr g = 22 := by decide
      omega)
  refine ⟨t, h1, fun w h => ?_⟩
  rw [h2 w h]
  simp [g, inner, evalOr, evalAnd, evalUn, evalLeaf, atomVal, cmpHolds, CmpOp.tt]

#print axioms parse_bool_correct
#print axioms parse_bool_correct_consts
#print axioms condition_value
#print axioms parse_bool_correct_tokens
#print axioms reading_unambiguous

end Pory.C02P
