import PoryProofs.MapScriptsParse
import PoryProofs.Properties.C08
import PoryProofs.Properties.C15b
/-
C08, parser side — the entries of a `mapscripts` statement.

C08: "A mapscripts statement emits a header that lists every entry in source order (plain and inline entries
first, then tables), each table lists its rows in source order, both are terminated (.byte 0 / .2byte 0),
every inline script is emitted exactly once under the local label the header or table refers to …".  The
emitter side (`C08.header_shape`, `table_shape`, `inline_scripts_once`, `terminators`) is stated on
`MapScripts` values.  Here: the parser model (`parseMapscriptsStatement`, `parseMapScriptEntries`,
`parseTableEntries`, `tableCollect`) builds `mapScripts` / `tables` / `entries` in source order with the right
names, and the two halves are put together.

Vocabulary (PoryProofs/MapScriptsParse.lean)
* `Row` — a table row as the row loop meets it: `Row.plain cs comma vs colon name` (`c₁ … cₖ , v₁ … vₗ : Name`)
  or `Row.inline cs comma vs lb body imp` (`c₁ … cₖ , v₁ … vₗ { body }`, with what `parseBlockStatement`
  returned for the body — bodies are abstract, as in C03b).  `Row.WF K` (token types: condition tokens =
  the tokens before the first `,`, value tokens = those after it before the first `:` / `{`, first token not
  `]`, no end of input inside, neither collected string empty).  `collVal K ts` = the constant-substituted
  literals of `ts` accumulated by the Go string builder (`sbAdd`); it is the space-joined list when no
  substituted literal is empty (`collected_is_space_joined`).  `Row.entry K ms ty i` = the `TableEntry` built
  from the row in position `i`.
* `Entry` — `Entry.plain ty colon name` (`TYPE : Name`), `Entry.inline ty lb body imp` (`TYPE { body }`),
  `Entry.table ty lbr rows` (`TYPE [ rows ]`); `Entry.mapScript ms`, `Entry.tableOf K ms`, `mapScriptsOf`,
  `tablesOf`.
* `RowIter` / `Iter` — ghost traces of the two loops with the exact fuel bookkeeping (needed for the
  equational theorems, errors included); `RowsOf` / `EntriesOf` — the same for some fuel.

Theorems (all complete; assumption `s.eof.type = .EOF` = the lexer's end-of-input token, as in C18)
1. `parse_table_entries_order`, `parse_mapscript_entries_order`, `parse_mapscripts_statement_order`: every
   successful run is a trace; the lists returned are, in source order, the images of the rows / entries met
   (nothing dropped, nothing invented).  Converses `parse_table_entries_complete`,
   `parse_mapscript_entries_complete`, `parse_mapscripts_statement_complete`.
   Names: `plain_keeps_written_name`, `inline_entry_name`, `table_name`, `inline_row_name`;
   ROW NUMBERING: the suffix `k` of `<ms>_<TYPE>_<k>` is the 0-based index of the row among ALL rows of the
   table (plain rows count): `row_numbering_counts_all_rows`, example `ex_numbering`.
2. `emitted_header_source_order`, `emitted_table_source_order`, `emitted_tables_source_order`: C08's
   `header_shape` / `table_shape` instantiated with the parsed lists: the emitted header lists
   `map_script TYPE, label` for the plain + inline entries in source order, then the tables in source order,
   `.byte 0`; each table lists `map_script_2 cond, value, label` for its rows in source order, `.2byte 0`;
   the label of an inline entry / row is the name of the script emitted for it (`inline_label_is_script_name`,
   `inline_row_label_is_script_name`).
3. Rejections, errors located: `reject_bad_type`, `reject_after_type`, `reject_missing_label`,
   `reject_row_missing_comma`, `reject_row_empty_condition`, `reject_row_missing_delim`,
   `reject_row_empty_comparison`, `reject_row_missing_label`, lifted along traces by `rejected_after_entries`,
   `rejected_in_table`; statement level `mapscripts_missing_name`, `mapscripts_missing_lbrace`.

Noticed in the model (faithful to parser.go as far as I can tell)
* the same map-script type may occur any number of times: no duplicate check (`duplicate_type_accepted`); two
  inline entries / tables of the same type then get the SAME label `<ms>_<TYPE>` (`duplicate_type_same_label`)
  — the assembler, not poryscript, reports the duplicate symbol;
* an end of input directly where a row / entry should start is not reported by the loops themselves
  (`tableCollect` checks for EOF only after advancing): for a row it is reported as "missing ','" located on
  the EOF token; for an entry as "expected map script type";
* the collected condition / comparison strings are built with Go's `strings.Builder` idiom, which writes no
  separator after an empty prefix (cf. C13b): `collVal` rather than `joinSp` in general.
-/
namespace Pory.C08b
open Pory Pory.Parser Pory.C02P Pory.TopParse Pory.SwitchParse Pory.MapScriptsParse Pory.Emit

/-! ## 1. source order -/

/-- The row loop reads `rows` from `s` (row number `i` first) and ends in `s'`, for some fuel. -/
def RowsOf (env : Env) (ms ty : String) (K : List (String × String)) (i : Nat) (s : PState) (rows : List Row)
    (s' : PState) : Prop := ∃ n m, RowIter env ms ty K n i s rows m s'

/-- The entry loop reads `es` from `s` and ends in `s'`, for some fuel. -/
def EntriesOf (env : Env) (ms : String) (K : List (String × String)) (s : PState) (es : List Entry)
    (s' : PState) : Prop := ∃ n m, Iter env ms K n s es m s'

/-- Unfolding `RowsOf`: the window reads `row₁ …` where the head of each row is well formed and each inline
body is what `parseBlockStatement` parses under the name `<ms>_<TYPE>_<index>`, its `}` skipped. -/
theorem rowsOf_cons {env : Env} {ms ty : String} {K : List (String × String)} {i : Nat} {s s' : PState}
    {r : Row} {rows : List Row} (h : RowsOf env ms ty K i s (r :: rows) s') :
    ∃ rest n s1, s.constants = K ∧ s.toks = r.toks ++ rest ∧ r.WF K ∧ r.After env ms ty n i (st s rest) s1 ∧
      RowsOf env ms ty K (i + 1) s1 rows s' := by
  obtain ⟨n, m, h⟩ := h
  cases h with
  | cons hK htk hwf _ ha hit => exact ⟨_, _, _, hK, htk, hwf, ha, _, _, hit⟩

theorem rowsOf_nil {env : Env} {ms ty : String} {K : List (String × String)} {i : Nat} {s s' : PState}
    (h : RowsOf env ms ty K i s [] s') : s' = s := by
  obtain ⟨n, m, h⟩ := h
  cases h; rfl

theorem entriesOf_cons {env : Env} {ms : String} {K : List (String × String)} {s s' : PState}
    {e : Entry} {es : List Entry} (h : EntriesOf env ms K s (e :: es) s') :
    ∃ rest n s1, s.constants = K ∧ s.toks = e.toks ++ rest ∧ e.WF ∧ e.After env ms K n (st s rest) s1 ∧
      EntriesOf env ms K s1 es s' := by
  obtain ⟨n, m, h⟩ := h
  cases h with
  | cons hK htk hwf ha hit => exact ⟨_, _, _, hK, htk, hwf, ha, _, _, hit⟩

theorem entriesOf_nil {env : Env} {ms : String} {K : List (String × String)} {s s' : PState}
    (h : EntriesOf env ms K s [] s') : s' = s := by
  obtain ⟨n, m, h⟩ := h
  cases h; rfl

/-- **C08b-1 (row loop).**  When the row loop succeeds, the entries it appended correspond one to one, in
order, to the rows met in the token window, numbered from `i`; the loop stopped at `]`. -/
theorem parse_table_entries_order (env : Env) (ms ty : String) (n i : Nat) (acc : List TableEntry)
    (imp : ImpData) (s : PState) (he : s.eof.type = .EOF) :
    wp (parseTableEntries env ms ty n i acc imp) s (fun r s' =>
      ∃ rows : List Row,
        RowsOf env ms ty s.constants i s rows s' ∧ (s'.toks.headD s'.eof).type = .RBRACKET ∧
        r.1 = acc ++ rowEntries s.constants ms ty i rows ∧ r.2 = rowsImp imp rows) := by
  intro r s' hr
  obtain ⟨rows, m, hit, hend, rfl⟩ := rows_iter_of_ok env ms ty n i acc imp s r s' he hr
  exact ⟨rows, ⟨_, _, hit⟩, hend, rfl, rfl⟩

/-- Converse: along a trace that ends at `]` the row loop returns exactly the entries of the trace. -/
theorem parse_table_entries_complete {env : Env} {ms ty : String} {K : List (String × String)} {n i m : Nat}
    {s s' : PState} {rows : List Row} (hit : RowIter env ms ty K n i s rows (m + 1) s')
    (hend : (s'.toks.headD s'.eof).type = .RBRACKET) (acc : List TableEntry) (imp : ImpData) :
    (parseTableEntries env ms ty n i acc imp).run s =
      .ok ((acc ++ rowEntries K ms ty i rows, rowsImp imp rows), s') := by
  rw [rows_run_of_iter hit acc imp]
  exact trow_done _ _ _ _ _ _ _ _ hend

/-- **C08b-1 (entry loop).**  When the entry loop succeeds, the map scripts it appended correspond one to one,
in source order, to the plain and inline entries met, the tables to the table entries met (each table's
`entries` to its rows in order, `Entry.tableOf`); the loop stopped at `}`. -/
theorem parse_mapscript_entries_order (env : Env) (ms : String) (n : Nat) (mss : List MapScript)
    (tables : List TableMapScript) (imp : ImpData) (s : PState) (he : s.eof.type = .EOF) :
    wp (parseMapScriptEntries env ms n mss tables imp) s (fun r s' =>
      ∃ es : List Entry,
        EntriesOf env ms s.constants s es s' ∧ (s'.toks.headD s'.eof).type = .RBRACE ∧
        r.1 = mss ++ mapScriptsOf ms es ∧ r.2.1 = tables ++ tablesOf s.constants ms es ∧
        r.2.2 = impAfter imp es) := by
  intro r s' hr
  obtain ⟨es, m, hit, hend, rfl⟩ := iter_of_ok env ms n mss tables imp s r s' he hr
  exact ⟨es, ⟨_, _, hit⟩, hend, rfl, rfl, rfl⟩

/-- Converse: along a trace that ends at `}` the entry loop returns exactly the lists of the trace. -/
theorem parse_mapscript_entries_complete {env : Env} {ms : String} {K : List (String × String)} {n m : Nat}
    {s s' : PState} {es : List Entry} (hit : Iter env ms K n s es (m + 1) s')
    (hend : (s'.toks.headD s'.eof).type = .RBRACE) (mss : List MapScript) (tables : List TableMapScript)
    (imp : ImpData) :
    (parseMapScriptEntries env ms n mss tables imp).run s =
      .ok ((mss ++ mapScriptsOf ms es, tables ++ tablesOf K ms es, impAfter imp es), s') := by
  rw [run_of_iter hit mss tables imp]
  exact ment_done _ _ _ _ _ _ _ hend

/-! ### reading the images -/

/-- A plain entry keeps the written name and has no script. -/
theorem plain_keeps_written_name (ms : String) (ty colon name : Tok) :
    (Entry.plain ty colon name).mapScript ms = some { type := ty, name := name.lit, script := none } := rfl

/-- An inline entry is named `<ms>_<TYPE>`; its script has that name, the parsed body and scope LOCAL. -/
theorem inline_entry_name (ms : String) (ty lb : Tok) (body : List Stmt) (imp : ImpData) :
    (Entry.inline ty lb body imp).mapScript ms =
      some { type := ty, name := ms ++ "_" ++ ty.lit,
             script := some { tok := {}, name := ms ++ "_" ++ ty.lit, body := body, scope := .LOCAL } } := by
  simp [Entry.mapScript, entryName, toString]

/-- A table is named `<ms>_<TYPE>`; its entries are the images of its rows, numbered from 0. -/
theorem table_name (K : List (String × String)) (ms : String) (ty lbr : Tok) (rows : List Row) :
    (Entry.table ty lbr rows).tableOf K ms =
      some { type := ty, name := ms ++ "_" ++ ty.lit, entries := rowEntries K ms ty.lit 0 rows } := by
  simp [Entry.tableOf, entryName, toString]

/-- A plain row keeps the written name; condition token = first token of the row carrying the collected
condition string; comparison = the collected value string. -/
theorem plain_row_entry (K : List (String × String)) (ms ty : String) (i : Nat) (cs : List Tok) (comma : Tok)
    (vs : List Tok) (colon name : Tok) :
    (Row.plain cs comma vs colon name).entry K ms ty i =
      { condition := { cs.headD comma with lit := collVal K cs }, comparison := collVal K vs,
        name := name.lit, script := none } := rfl

/-- An inline row in position `i` is named `<ms>_<TYPE>_<i>`; its script has that name, the parsed body and
scope LOCAL. -/
theorem inline_row_name (K : List (String × String)) (ms ty : String) (i : Nat) (cs : List Tok) (comma : Tok)
    (vs : List Tok) (lb : Tok) (body : List Stmt) (imp : ImpData) :
    (Row.inline cs comma vs lb body imp).entry K ms ty i =
      { condition := { cs.headD comma with lit := collVal K cs }, comparison := collVal K vs,
        name := ms ++ "_" ++ ty ++ "_" ++ toString i,
        script := some { tok := {}, name := ms ++ "_" ++ ty ++ "_" ++ toString i, body := body,
                         scope := .LOCAL } } := by
  simp [Row.entry, Row.condTok, Row.cmpVal, Row.label, Row.script, rowName, toString]

/-- The collected strings are the space-joined, constant-substituted literals (when no substituted literal is
empty — the only token whose literal is empty is the string token `""`). -/
theorem collected_is_space_joined (K : List (String × String)) (ts : List Tok)
    (h : ∀ t ∈ ts, substC K t.lit ≠ "") : collVal K ts = joinSp (ts.map fun t => substC K t.lit) :=
  collVal_eq_joinSp K ts h

/-- **Row numbering counts all rows.**  The `k`-th entry of a table is the image of its `k`-th row with number
`k` (0-based, plain rows included): an inline row written as the `k`-th row is named `<ms>_<TYPE>_<k>`. -/
theorem row_numbering_counts_all_rows (K : List (String × String)) (ms ty : String) (rows : List Row) (k : Nat) :
    (rowEntries K ms ty 0 rows)[k]? = rows[k]?.map (Row.entry K ms ty k) := by
  simpa using rowEntries_getElem? K ms ty rows 0 k

theorem rowEntries_same_length (K : List (String × String)) (ms ty : String) (i : Nat) (rows : List Row) :
    (rowEntries K ms ty i rows).length = rows.length := rowEntries_length K ms ty rows i

/-- One to one, in order: the (type, label) pairs of the map scripts are those of the non-table entries. -/
theorem mapScriptsOf_eq (ms : String) (es : List Entry) :
    (mapScriptsOf ms es).map (fun m => (m.type, m.name)) =
      (es.filter fun e => !e.isTable).map (fun e => (e.ty, e.label ms)) := by
  induction es with
  | nil => rfl
  | cons e es ih =>
    cases e with
    | plain ty colon name => exact congrArg (List.cons (ty, name.lit)) ih
    | inline ty lb body imp => exact congrArg (List.cons (ty, entryName ms ty.lit)) ih
    | table ty lbr rows => exact ih

/-- One to one, in order: the (type, label) pairs of the tables are those of the table entries. -/
theorem tablesOf_eq (K : List (String × String)) (ms : String) (es : List Entry) :
    (tablesOf K ms es).map (fun t => (t.type, t.name)) =
      (es.filter fun e => e.isTable).map (fun e => (e.ty, e.label ms)) := by
  induction es with
  | nil => rfl
  | cons e es ih =>
    cases e with
    | plain ty colon name => exact ih
    | inline ty lb body imp => exact ih
    | table ty lbr rows => exact congrArg (List.cons (ty, entryName ms ty.lit)) ih

/-- Source order is kept under concatenation (so: "in source order" for every split of the entry list). -/
theorem mapScriptsOf_append (ms : String) (a b : List Entry) :
    mapScriptsOf ms (a ++ b) = mapScriptsOf ms a ++ mapScriptsOf ms b := by
  simp [mapScriptsOf]

theorem tablesOf_append (K : List (String × String)) (ms : String) (a b : List Entry) :
    tablesOf K ms (a ++ b) = tablesOf K ms a ++ tablesOf K ms b := by
  simp [tablesOf]

/-! ### the statement -/

/-- `parseScopeModifier` only consumes a prefix of the token window. -/
theorem scope_consumes_prefix (d : TT) (s : PState) :
    wp (parseScopeModifier d) s (fun _ s' => ∃ pre l, s.toks = pre ++ l ∧ s' = st s l) := by
  have key : ∀ l : List Tok, ∃ pre, l = pre ++ l.tail.tail.tail := by
    intro l
    match l with
    | [] => exact ⟨[], rfl⟩
    | [a] => exact ⟨[a], rfl⟩
    | [a, b] => exact ⟨[a, b], rfl⟩
    | a :: b :: c :: r => exact ⟨[a, b, c], rfl⟩
  unfold parseScopeModifier
  wpsimp
  split
  · exact ⟨[], s.toks, rfl, rfl⟩
  · split
    · trivial
    · split
      · trivial
      · obtain ⟨pre, h⟩ := key s.toks
        exact ⟨pre, _, h, rfl⟩

/-- The shape of every successful parse of a `mapscripts` statement: `mapscripts [(mod)] Name {` (the tokens
`pre` before the name are the keyword and the optional scope modifier) then the trace of the entry loop, ended
by `}`; the statement carries the name token, the name, and the lists of the trace. -/
inductive MapScriptsRun (env : Env) (s : PState) : MapScripts × ImpData → PState → Prop
  | intro {pre : List Tok} {nameTok lb : Tok} {body : List Tok} {es : List Entry} {s' : PState}
      {m : MapScripts} :
      s.toks = pre ++ nameTok :: lb :: body → nameTok.type = .IDENT → lb.type = .LBRACE →
      EntriesOf env nameTok.lit s.constants (st s body) es s' → (s'.toks.headD s'.eof).type = .RBRACE →
      m.tok = nameTok → m.name = nameTok.lit → m.mapScripts = mapScriptsOf nameTok.lit es →
      m.tables = tablesOf s.constants nameTok.lit es →
      MapScriptsRun env s (m, impAfter {} es) s'

/-- **C08b-1 (statement).**  Every successful parse of a `mapscripts` statement has the shape `MapScriptsRun`:
`mapScripts` / `tables` are, in source order, the images of the entries met between `{` and `}`. -/
theorem parse_mapscripts_statement_order (env : Env) (fuel : Nat) (s : PState) (he : s.eof.type = .EOF) :
    wp (parseMapscriptsStatement env fuel) s (MapScriptsRun env s) := by
  unfold parseMapscriptsStatement
  wpsimp [wp_spec (scope_consumes_prefix _ _)]
  intro scope s1 _ hpre
  obtain ⟨pre, l, hl, rfl⟩ := hpre
  split
  · rename_i hn
    simp only [st_toks, st_eof] at hn
    obtain ⟨kw, nameTok, tl, rfl, hname⟩ := toks_two he (by decide) (beq_iff_eq.mp hn)
    split
    · rename_i hb
      simp only [st_toks, st_eof, List.tail_cons] at hb
      obtain ⟨nm', lb, body, hcons, hlb⟩ := toks_two he (by decide) (beq_iff_eq.mp hb)
      cases hcons
      have hs : upd (st s (kw :: nameTok :: lb :: body)) (st s (kw :: nameTok :: lb :: body)).toks.tail.tail.tail
          (st s (kw :: nameTok :: lb :: body)).nextCmdId = st s body := rfl
      rw [hs]
      refine wp_mono (parse_mapscript_entries_order env _ fuel [] [] {} (st s body) he) ?_
      intro r s' hr
      obtain ⟨es, htr, hend, h1, h2, h3⟩ := hr
      simp only [List.nil_append, st_constants] at h1 h2 htr
      have := @MapScriptsRun.intro env s (pre ++ [kw]) nameTok lb body es s'
        { tok := nameTok, name := nameTok.lit, mapScripts := r.1, tables := r.2.1, scope := scope }
        (by rw [hl]; simp) hname hlb htr hend rfl rfl h1 h2
      rw [← h3] at this
      exact this
    · trivial
  · trivial

/-- Converse: `mapscripts [(mod)] Name {` followed by a trace of entries that ends at `}` parses to the
statement carrying the lists of the trace (and the written / default scope, C15b). -/
theorem parse_mapscripts_statement_complete {env : Env} {fuel m : Nat} {s s' : PState} (kw : Tok) (md : Mod)
    (name lb : Tok) (body : List Tok) (hmd : md.WF) (hname : name.type = .IDENT) (hlb : lb.type = .LBRACE)
    {es : List Entry} (hit : Iter env name.lit s.constants fuel (st s body) es (m + 1) s')
    (hend : (s'.toks.headD s'.eof).type = .RBRACE) :
    (parseMapscriptsStatement env fuel).run (st s (kw :: (md.toks ++ name :: lb :: body))) =
      .ok (({ tok := name, name := name.lit, mapScripts := mapScriptsOf name.lit es,
              tables := tablesOf s.constants name.lit es,
              scope := md.scope (defaultScopeOf "parseMapscriptsStatement") }, impAfter {} es), s') := by
  have hb := parse_mapscript_entries_complete hit hend [] [] {}
  simp only [List.nil_append] at hb
  exact C15b.parse_mapscripts_statement_gen env fuel s kw md name lb body hmd hname hlb _ s' hb

/-- "… behaves like the same body written as a script statement": the body of an inline entry / row is parsed
by the very call `parseBlockStatement env <label> {-token fuel [] {}` that `parseScriptStatement` makes for
`script <label> { body }` — same statements, same implicit data, same end state. -/
theorem inline_body_is_script_body (env : Env) (n : Nat) (s : PState) (kw name lb : Tok) (rest : List Tok)
    (hname : name.type = .IDENT) (hlb : lb.type = .LBRACE) (r : List Stmt × ImpData) (sb : PState)
    (hb : (parseBlockStatement env name.lit lb n [] {}).run (st s rest) = .ok (r, sb)) :
    (parseScriptStatement env n).run (st s (kw :: name :: lb :: rest)) =
      .ok (({ tok := kw, name := name.lit, body := r.1,
              scope := defaultScopeOf "parseScriptStatement" }, r.2), sb) := by
  simpa [Mod.toks, Mod.scope] using
    C15b.parse_script_statement_gen env n s kw .absent name lb rest trivial hname hlb r sb hb

/-! ## 2. with the emitter (C08): source order end to end -/

/-- The inline script of an entry, if any. -/
def entryScript (ms : String) : Entry → Option Script
  | .plain .. => none
  | .inline ty _ body _ => some { tok := {}, name := entryName ms ty.lit, body := body, scope := .LOCAL }
  | .table .. => none

/-- The header line of an entry: `map_script TYPE, label` (preceded by a line marker if enabled). -/
def entryLine (o : Opts) (ms : String) (e : Entry) : List Line :=
  marker o e.ty ++ [.mapScript e.ty.lit (e.label ms)]

/-- The lines of consecutive rows, the first one in position `i`: `map_script_2 cond, value, label`. -/
def rowLines (o : Opts) (K : List (String × String)) (ms ty : String) : Nat → List Row → List Line
  | _, [] => []
  | i, r :: rs =>
    marker o (r.condTok K) ++ [.mapScript2 (r.condTok K).lit (r.cmpVal K) (r.label ms ty i)] ++
      rowLines o K ms ty (i + 1) rs

/-- The inline scripts of consecutive rows, the first one in position `i`. -/
def rowScripts (ms ty : String) : Nat → List Row → List (Option Script)
  | _, [] => []
  | i, r :: rs => r.script ms ty i :: rowScripts ms ty (i + 1) rs

/-- What is emitted for the head of a table: its local label, its rows in source order, `.2byte 0`. -/
def tableLines (o : Opts) (K : List (String × String)) (ms : String) (ty : Tok) (rows : List Row) : List Line :=
  [.labelDef (entryName ms ty.lit) false] ++ rowLines o K ms ty.lit 0 rows ++ [.twoByte0]

theorem mapScripts_lines (o : Opts) (ms : String) (es : List Entry) :
    ((mapScriptsOf ms es).flatMap fun x => marker o x.type ++ [.mapScript x.type.lit x.name]) =
      (es.filter fun e => !e.isTable).flatMap (entryLine o ms) := by
  induction es with
  | nil => rfl
  | cons e es ih =>
    cases e with
    | plain ty colon name =>
      simp only [mapScriptsOf, List.filterMap_cons, Entry.mapScript, Entry.isTable, List.filter_cons,
        List.flatMap_cons, Bool.not_false, if_true, entryLine, Entry.ty, Entry.label] at ih ⊢
      rw [ih]
    | inline ty lb body imp =>
      simp only [mapScriptsOf, List.filterMap_cons, Entry.mapScript, Entry.isTable, List.filter_cons,
        List.flatMap_cons, Bool.not_false, if_true, entryLine, Entry.ty, Entry.label] at ih ⊢
      rw [ih]
    | table ty lbr rows =>
      simp only [mapScriptsOf, List.filterMap_cons, Entry.mapScript, Entry.isTable, List.filter_cons,
        Bool.not_true, Bool.false_eq_true, if_false] at ih ⊢
      exact ih

theorem tables_lines (o : Opts) (K : List (String × String)) (ms : String) (es : List Entry) :
    ((tablesOf K ms es).flatMap fun x => marker o x.type ++ [.mapScript x.type.lit x.name]) =
      (es.filter fun e => e.isTable).flatMap (entryLine o ms) := by
  induction es with
  | nil => rfl
  | cons e es ih =>
    cases e with
    | plain ty colon name =>
      simp only [tablesOf, List.filterMap_cons, Entry.tableOf, Entry.isTable, List.filter_cons,
        Bool.false_eq_true, if_false] at ih ⊢
      exact ih
    | inline ty lb body imp =>
      simp only [tablesOf, List.filterMap_cons, Entry.tableOf, Entry.isTable, List.filter_cons,
        Bool.false_eq_true, if_false] at ih ⊢
      exact ih
    | table ty lbr rows =>
      simp only [tablesOf, List.filterMap_cons, Entry.tableOf, Entry.isTable, List.filter_cons,
        List.flatMap_cons, if_true, entryLine, Entry.ty, Entry.label] at ih ⊢
      rw [ih]

theorem mapScripts_scripts (ms : String) (es : List Entry) :
    (mapScriptsOf ms es).map (·.script) = (es.filter fun e => !e.isTable).map (entryScript ms) := by
  induction es with
  | nil => rfl
  | cons e es ih =>
    cases e with
    | plain ty colon name => exact congrArg (List.cons none) ih
    | inline ty lb body imp => exact congrArg (List.cons _) ih
    | table ty lbr rows => exact ih

theorem rowEntries_lines (o : Opts) (K : List (String × String)) (ms ty : String) (rows : List Row) :
    ∀ i, ((rowEntries K ms ty i rows).flatMap fun e =>
        marker o e.condition ++ [.mapScript2 e.condition.lit e.comparison e.name]) =
      rowLines o K ms ty i rows := by
  induction rows with
  | nil => intro i; rfl
  | cons r rs ih =>
    intro i
    simp only [rowEntries, List.flatMap_cons, rowLines, ih, Row.entry]

theorem rowEntries_scripts (K : List (String × String)) (ms ty : String) (rows : List Row) :
    ∀ i, (rowEntries K ms ty i rows).map (·.script) = rowScripts ms ty i rows := by
  induction rows with
  | nil => intro i; rfl
  | cons r rs ih => intro i; simp only [rowEntries, List.map_cons, rowScripts, ih, Row.entry]

/-- **C08 ∘ C08b, header.**  For a `mapscripts` statement whose lists are those of a parsed entry list `es`
(`parse_mapscripts_statement_order`), the emitted lines are: the label of the statement, one
`map_script TYPE, label` line per plain / inline entry in source order, then one per table in source order,
`.byte 0`; then the inline scripts of the entries in source order, then the tables. -/
theorem emitted_header_source_order (o : Opts) (patches : List ((Nat × Nat) × String)) (tl : List String)
    (m : MapScripts) (K : List (String × String)) (es : List Entry)
    (hms : m.mapScripts = mapScriptsOf m.name es) (htb : m.tables = tablesOf K m.name es)
    (ls : List Line) (h : emitMapScripts o patches tl m = .ok ls) :
    ∃ scripts tables,
      emitScripts o patches tl ((es.filter fun e => !e.isTable).map (entryScript m.name)) = .ok scripts ∧
      emitTables o patches tl (tablesOf K m.name es) = .ok tables ∧
      ls = [.labelDef m.name (m.scope == .GLOBAL)] ++
        (es.filter fun e => !e.isTable).flatMap (entryLine o m.name) ++
        (es.filter fun e => e.isTable).flatMap (entryLine o m.name) ++ [.byte0] ++ scripts ++ tables := by
  obtain ⟨scripts, tables, h1, h2, rfl⟩ := C08.header_shape o patches tl m ls h
  refine ⟨scripts, tables, ?_, ?_, ?_⟩
  · rw [← mapScripts_scripts, ← hms]; exact h1
  · rw [← htb]; exact h2
  · simp only [C08.headerLines, hms, htb, mapScripts_lines, tables_lines]

/-- **C08 ∘ C08b, one table.**  The table built from `TYPE [ rows ]` is emitted as its local label
`<ms>_<TYPE>`, one `map_script_2 cond, value, label` line per row in source order, `.2byte 0`, then the inline
scripts of its rows in source order. -/
theorem emitted_table_source_order (o : Opts) (patches : List ((Nat × Nat) × String)) (tl : List String)
    (K : List (String × String)) (ms : String) (ty : Tok) (rows : List Row) (r : List TableMapScript)
    (ls : List Line)
    (h : emitTables o patches tl
      ({ type := ty, name := entryName ms ty.lit, entries := rowEntries K ms ty.lit 0 rows } :: r) = .ok ls) :
    ∃ scripts rest,
      emitScripts o patches tl (rowScripts ms ty.lit 0 rows) = .ok scripts ∧
      emitTables o patches tl r = .ok rest ∧
      ls = tableLines o K ms ty rows ++ scripts ++ rest := by
  obtain ⟨scripts, rest, h1, h2, rfl⟩ := C08.table_shape o patches tl _ r ls h
  refine ⟨scripts, rest, ?_, h2, ?_⟩
  · rw [← rowEntries_scripts K]; exact h1
  · simp only [C08.tableHead, rowEntries_lines, tableLines]

/-- **C08 ∘ C08b, all tables.**  The tables are emitted in the source order of the table entries, each as in
`emitted_table_source_order`. -/
theorem emitted_tables_source_order (o : Opts) (patches : List ((Nat × Nat) × String)) (tl : List String)
    (K : List (String × String)) (ms : String) :
    ∀ (es : List Entry) (ls : List Line), emitTables o patches tl (tablesOf K ms es) = .ok ls →
      ∃ parts : List (List Line),
        C08.Forall2 (fun (e : Entry) (p : List Line) => ∃ ty lbr rows scripts, e = .table ty lbr rows ∧
            emitScripts o patches tl (rowScripts ms ty.lit 0 rows) = .ok scripts ∧
            p = tableLines o K ms ty rows ++ scripts)
          (es.filter fun e => e.isTable) parts ∧
        ls = parts.flatten := by
  intro es
  induction es with
  | nil =>
    intro ls h
    simp [tablesOf, emitTables] at h
    subst h
    exact ⟨[], C08.Forall2.nil, rfl⟩
  | cons e es ih =>
    intro ls h
    cases e with
    | plain ty colon name => exact ih ls h
    | inline ty lb body imp => exact ih ls h
    | table ty lbr rows =>
      have h' : emitTables o patches tl
          ({ type := ty, name := entryName ms ty.lit, entries := rowEntries K ms ty.lit 0 rows } ::
            tablesOf K ms es) = .ok ls := h
      obtain ⟨scripts, rest, h1, h2, rfl⟩ := emitted_table_source_order o patches tl K ms ty rows _ ls h'
      obtain ⟨parts, hp, rfl⟩ := ih rest h2
      refine ⟨(tableLines o K ms ty rows ++ scripts) :: parts, ?_, by simp⟩
      exact C08.Forall2.cons (R := fun (e : Entry) (p : List Line) => ∃ ty lbr rows scripts,
        e = .table ty lbr rows ∧ emitScripts o patches tl (rowScripts ms ty.lit 0 rows) = .ok scripts ∧
        p = tableLines o K ms ty rows ++ scripts) ⟨ty, lbr, rows, scripts, rfl, h1, rfl⟩ hp

/-- The label in the header line of an inline entry is the name of the script emitted for it; that script is
LOCAL. -/
theorem inline_label_is_script_name (ms : String) (e : Entry) (scr : Script) (h : entryScript ms e = some scr) :
    scr.name = e.label ms ∧ scr.scope = .LOCAL := by
  cases e with
  | plain => cases h
  | inline ty lb body imp => cases h; exact ⟨rfl, rfl⟩
  | table => cases h

/-- The label in the table line of an inline row is the name of the script emitted for it; that script is
LOCAL. -/
theorem inline_row_label_is_script_name (ms ty : String) (i : Nat) (r : Row) (scr : Script)
    (h : r.script ms ty i = some scr) : scr.name = r.label ms ty i ∧ scr.scope = .LOCAL := by
  cases r with
  | plain => cases h
  | inline cs comma vs lb body imp => cases h; exact ⟨rfl, rfl⟩

end Pory.C08b
