import PoryProofs.MapScriptsParse
import PoryProofs.Properties.C08
import PoryProofs.Properties.C15b
/-
C08, parser side — the entries of a `mapscripts` statement.

C08: "A mapscripts statement emits a header that lists every entry in source order (plain and inline entries
first, then tables), each table lists its rows in source order, both are terminated (.byte 0 / .2byte 0),
every inline script is emitted exactly once under the local label the header or table refers to …".  The
emitter side (`C08.header_shape`, `table_shape`, `inline_scripts_once`, `terminators`) is stated on
`MapScripts` values.  Here: the parser model (`parseMapscriptsStatement`, `parseMapScriptEntries`,
`parseTableEntries`, `tableCollect`) builds `mapScripts` / `tables` / `entries` in source order with the right
names, and the two halves are put together.

Vocabulary (PoryProofs/MapScriptsParse.lean)
* `Row` — a table row as the row loop meets it: `Row.plain cs comma vs colon name` (`c₁ … cₖ , v₁ … vₗ : Name`)
  or `Row.inline cs comma vs lb body imp` (`c₁ … cₖ , v₁ … vₗ { body }`, with what `parseBlockStatement`
  returned for the body — bodies are abstract, as in C03b).  `Row.WF K` (token types: condition tokens =
  the tokens before the first `,`, value tokens = those after it before the first `:` / `{`, first token not
  `]`, no end of input inside, neither collected string empty).  `collVal K ts` = the constant-substituted
  literals of `ts` accumulated by the Go string builder (`sbAdd`); it is the space-joined list when no
  substituted literal is empty (`collected_is_space_joined`).  `Row.entry K ms ty i` = the `TableEntry` built
  from the row in position `i`.
* `Entry` — `Entry.plain ty colon name` (`TYPE : Name`), `Entry.inline ty lb body imp` (`TYPE { body }`),
  `Entry.table ty lbr rows` (`TYPE [ rows ]`); `Entry.mapScript ms`, `Entry.tableOf K ms`, `mapScriptsOf`,
  `tablesOf`.
* `RowIter` / `Iter` — ghost traces of the two loops with the exact fuel bookkeeping (needed for the
  equational theorems, errors included); `RowsOf` / `EntriesOf` — the same for some fuel.

Theorems (all complete; assumption `s.eof.type = .EOF` = the lexer's end-of-input token, as in C18)
1. `parse_table_entries_order`, `parse_mapscript_entries_order`, `parse_mapscripts_statement_order`: every
   successful run is a trace; the lists returned are, in source order, the images of the rows / entries met
   (nothing dropped, nothing invented).  Converses `parse_table_entries_complete`,
   `parse_mapscript_entries_complete`, `parse_mapscripts_statement_complete`.
   Names: `plain_keeps_written_name`, `inline_entry_name`, `table_name`, `inline_row_name`;
   ROW NUMBERING: the suffix `k` of `<ms>_<TYPE>_<k>` is the 0-based index of the row among ALL rows of the
   table (plain rows count): `row_numbering_counts_all_rows`, example `ex_numbering`.
2. `emitted_header_source_order`, `emitted_table_source_order`, `emitted_tables_source_order`: C08's
   `header_shape` / `table_shape` instantiated with the parsed lists: the emitted header lists
   `map_script TYPE, label` for the plain + inline entries in source order, then the tables in source order,
   `.byte 0`; each table lists `map_script_2 cond, value, label` for its rows in source order, `.2byte 0`;
   the label of an inline entry / row is the name of the script emitted for it (`inline_label_is_script_name`,
   `inline_row_label_is_script_name`).
3. Rejections, errors located: `reject_bad_type`, `reject_after_type`, `reject_missing_label`,
   `reject_row_missing_comma`, `reject_row_empty_condition`, `reject_row_missing_delim`,
   `reject_row_empty_comparison`, `reject_row_missing_label`, lifted along traces by `rejected_after_entries`,
   `rejected_in_table`; statement level `mapscripts_missing_name`, `mapscripts_missing_lbrace`.

Noticed in the model (= parser.go, `parseMapscriptsStatement`)
* the same map-script type may occur any number of times: no duplicate check (`duplicate_type_accepted`); two
  inline entries / tables of the same type then get the SAME label `<ms>_<TYPE>` (`duplicate_type_same_label`)
  — the assembler, not poryscript, reports the duplicate symbol;
* ROW NUMBERING counts every row: in `[ A, 1: F1   A, 2 { … } ]` the inline script is `<ms>_<TYPE>_1`;
* an end of input exactly where a row should start is not recognised as such (`tableCollect` checks for EOF
  only after advancing): it is reported as "missing ','" located on the end-of-input token
  (`eof_at_row_start`); where an entry should start it is "expected map script type";
* `mapscriptsToken` is read AFTER the scope modifier: with `mapscripts (local) M L` the "missing opening curly
  brace" range starts at the `)`, not at `mapscripts` (`mapscripts_missing_lbrace`, `Mod.last`);
* the collected condition / comparison strings are built with Go's `strings.Builder` idiom, which writes no
  separator after an empty prefix (cf. C13b): `collVal` rather than `joinSp` in general
  (`collected_is_space_joined` when no substituted literal is empty).
The token types / literals / lines of the example were checked against the lexer model with `#eval`
(`Lexer.lexAll`; `+` lexes as `ILLEGAL "+"`); this is not part of the proofs.
-/
namespace Pory.C08b
open Pory Pory.Parser Pory.C02P Pory.TopParse Pory.MapScriptsParse Pory.Emit
open Pory.SwitchParse (toks_two st_eq_of_toks)

/-! ## 1. source order -/

/-- The row loop reads `rows` from `s` (row number `i` first) and ends in `s'`, for some fuel. -/
def RowsOf (env : Env) (ms ty : String) (K : List (String × String)) (i : Nat) (s : PState) (rows : List Row)
    (s' : PState) : Prop := ∃ n m, RowIter env ms ty K n i s rows m s'

/-- The entry loop reads `es` from `s` and ends in `s'`, for some fuel. -/
def EntriesOf (env : Env) (ms : String) (K : List (String × String)) (s : PState) (es : List Entry)
    (s' : PState) : Prop := ∃ n m, Iter env ms K n s es m s'

/-- Unfolding `RowsOf`: the window reads `row₁ …` where the head of each row is well formed and each inline
body is what `parseBlockStatement` parses under the name `<ms>_<TYPE>_<index>`, its `}` skipped. -/
theorem rowsOf_cons {env : Env} {ms ty : String} {K : List (String × String)} {i : Nat} {s s' : PState}
    {r : Row} {rows : List Row} (h : RowsOf env ms ty K i s (r :: rows) s') :
    ∃ rest n s1, s.constants = K ∧ s.toks = r.toks ++ rest ∧ r.WF K ∧ r.After env ms ty n i (st s rest) s1 ∧
      RowsOf env ms ty K (i + 1) s1 rows s' := by
  obtain ⟨n, m, h⟩ := h
  cases h with
  | cons hK htk hwf _ ha hit => exact ⟨_, _, _, hK, htk, hwf, ha, _, _, hit⟩

theorem rowsOf_nil {env : Env} {ms ty : String} {K : List (String × String)} {i : Nat} {s s' : PState}
    (h : RowsOf env ms ty K i s [] s') : s' = s := by
  obtain ⟨n, m, h⟩ := h
  cases h; rfl

theorem entriesOf_cons {env : Env} {ms : String} {K : List (String × String)} {s s' : PState}
    {e : Entry} {es : List Entry} (h : EntriesOf env ms K s (e :: es) s') :
    ∃ rest n s1, s.constants = K ∧ s.toks = e.toks ++ rest ∧ e.WF ∧ e.After env ms K n (st s rest) s1 ∧
      EntriesOf env ms K s1 es s' := by
  obtain ⟨n, m, h⟩ := h
  cases h with
  | cons hK htk hwf ha hit => exact ⟨_, _, _, hK, htk, hwf, ha, _, _, hit⟩

theorem entriesOf_nil {env : Env} {ms : String} {K : List (String × String)} {s s' : PState}
    (h : EntriesOf env ms K s [] s') : s' = s := by
  obtain ⟨n, m, h⟩ := h
  cases h; rfl

/-- **C08b-1 (row loop).**  When the row loop succeeds, the entries it appended correspond one to one, in
order, to the rows met in the token window, numbered from `i`; the loop stopped at `]`. -/
theorem parse_table_entries_order (env : Env) (ms ty : String) (n i : Nat) (acc : List TableEntry)
    (imp : ImpData) (s : PState) (he : s.eof.type = .EOF) :
    wp (parseTableEntries env ms ty n i acc imp) s (fun r s' =>
      ∃ rows : List Row,
        RowsOf env ms ty s.constants i s rows s' ∧ (s'.toks.headD s'.eof).type = .RBRACKET ∧
        r.1 = acc ++ rowEntries s.constants ms ty i rows ∧ r.2 = rowsImp imp rows) := by
  intro r s' hr
  obtain ⟨rows, m, hit, hend, rfl⟩ := rows_iter_of_ok env ms ty n i acc imp s r s' he hr
  exact ⟨rows, ⟨_, _, hit⟩, hend, rfl, rfl⟩

/-- Converse: along a trace that ends at `]` the row loop returns exactly the entries of the trace. -/
theorem parse_table_entries_complete {env : Env} {ms ty : String} {K : List (String × String)} {n i m : Nat}
    {s s' : PState} {rows : List Row} (hit : RowIter env ms ty K n i s rows (m + 1) s')
    (hend : (s'.toks.headD s'.eof).type = .RBRACKET) (acc : List TableEntry) (imp : ImpData) :
    (parseTableEntries env ms ty n i acc imp).run s =
      .ok ((acc ++ rowEntries K ms ty i rows, rowsImp imp rows), s') := by
  rw [rows_run_of_iter hit acc imp]
  exact trow_done _ _ _ _ _ _ _ _ hend

/-- **C08b-1 (entry loop).**  When the entry loop succeeds, the map scripts it appended correspond one to one,
in source order, to the plain and inline entries met, the tables to the table entries met (each table's
`entries` to its rows in order, `Entry.tableOf`); the loop stopped at `}`. -/
theorem parse_mapscript_entries_order (env : Env) (ms : String) (n : Nat) (mss : List MapScript)
    (tables : List TableMapScript) (imp : ImpData) (s : PState) (he : s.eof.type = .EOF) :
    wp (parseMapScriptEntries env ms n mss tables imp) s (fun r s' =>
      ∃ es : List Entry,
        EntriesOf env ms s.constants s es s' ∧ (s'.toks.headD s'.eof).type = .RBRACE ∧
        r.1 = mss ++ mapScriptsOf ms es ∧ r.2.1 = tables ++ tablesOf s.constants ms es ∧
        r.2.2 = impAfter imp es) := by
  intro r s' hr
  obtain ⟨es, m, hit, hend, rfl⟩ := iter_of_ok env ms n mss tables imp s r s' he hr
  exact ⟨es, ⟨_, _, hit⟩, hend, rfl, rfl, rfl⟩

/-- Converse: along a trace that ends at `}` the entry loop returns exactly the lists of the trace. -/
theorem parse_mapscript_entries_complete {env : Env} {ms : String} {K : List (String × String)} {n m : Nat}
    {s s' : PState} {es : List Entry} (hit : Iter env ms K n s es (m + 1) s')
    (hend : (s'.toks.headD s'.eof).type = .RBRACE) (mss : List MapScript) (tables : List TableMapScript)
    (imp : ImpData) :
    (parseMapScriptEntries env ms n mss tables imp).run s =
      .ok ((mss ++ mapScriptsOf ms es, tables ++ tablesOf K ms es, impAfter imp es), s') := by
  rw [run_of_iter hit mss tables imp]
  exact ment_done _ _ _ _ _ _ _ hend

/-! ### reading the images -/

/-- A plain entry keeps the written name and has no script. -/
theorem plain_keeps_written_name (ms : String) (ty colon name : Tok) :
    (Entry.plain ty colon name).mapScript ms = some { type := ty, name := name.lit, script := none } := rfl

/-- An inline entry is named `<ms>_<TYPE>`; its script has that name, the parsed body and scope LOCAL. -/
theorem inline_entry_name (ms : String) (ty lb : Tok) (body : List Stmt) (imp : ImpData) :
    (Entry.inline ty lb body imp).mapScript ms =
      some { type := ty, name := ms ++ "_" ++ ty.lit,
             script := some { tok := {}, name := ms ++ "_" ++ ty.lit, body := body, scope := .LOCAL } } := by
  simp [Entry.mapScript, entryName, toString]

/-- A table is named `<ms>_<TYPE>`; its entries are the images of its rows, numbered from 0. -/
theorem table_name (K : List (String × String)) (ms : String) (ty lbr : Tok) (rows : List Row) :
    (Entry.table ty lbr rows).tableOf K ms =
      some { type := ty, name := ms ++ "_" ++ ty.lit, entries := rowEntries K ms ty.lit 0 rows } := by
  simp [Entry.tableOf, entryName, toString]

/-- A plain row keeps the written name; condition token = first token of the row carrying the collected
condition string; comparison = the collected value string. -/
theorem plain_row_entry (K : List (String × String)) (ms ty : String) (i : Nat) (cs : List Tok) (comma : Tok)
    (vs : List Tok) (colon name : Tok) :
    (Row.plain cs comma vs colon name).entry K ms ty i =
      { condition := { cs.headD comma with lit := collVal K cs }, comparison := collVal K vs,
        name := name.lit, script := none } := rfl

/-- An inline row in position `i` is named `<ms>_<TYPE>_<i>`; its script has that name, the parsed body and
scope LOCAL. -/
theorem inline_row_name (K : List (String × String)) (ms ty : String) (i : Nat) (cs : List Tok) (comma : Tok)
    (vs : List Tok) (lb : Tok) (body : List Stmt) (imp : ImpData) :
    (Row.inline cs comma vs lb body imp).entry K ms ty i =
      { condition := { cs.headD comma with lit := collVal K cs }, comparison := collVal K vs,
        name := ms ++ "_" ++ ty ++ "_" ++ toString i,
        script := some { tok := {}, name := ms ++ "_" ++ ty ++ "_" ++ toString i, body := body,
                         scope := .LOCAL } } := by
  simp [Row.entry, Row.condTok, Row.cmpVal, Row.label, Row.script, rowName, toString]

/-- The collected strings are the space-joined, constant-substituted literals (when no substituted literal is
empty — the only token whose literal is empty is the string token `""`). -/
theorem collected_is_space_joined (K : List (String × String)) (ts : List Tok)
    (h : ∀ t ∈ ts, substC K t.lit ≠ "") : collVal K ts = joinSp (ts.map fun t => substC K t.lit) :=
  collVal_eq_joinSp K ts h

/-- **Row numbering counts all rows.**  The `k`-th entry of a table is the image of its `k`-th row with number
`k` (0-based, plain rows included): an inline row written as the `k`-th row is named `<ms>_<TYPE>_<k>`. -/
theorem row_numbering_counts_all_rows (K : List (String × String)) (ms ty : String) (rows : List Row) (k : Nat) :
    (rowEntries K ms ty 0 rows)[k]? = rows[k]?.map (Row.entry K ms ty k) := by
  simpa using rowEntries_getElem? K ms ty rows 0 k

theorem rowEntries_same_length (K : List (String × String)) (ms ty : String) (i : Nat) (rows : List Row) :
    (rowEntries K ms ty i rows).length = rows.length := rowEntries_length K ms ty rows i

/-- One to one, in order: the (type, label) pairs of the map scripts are those of the non-table entries. -/
theorem mapScriptsOf_eq (ms : String) (es : List Entry) :
    (mapScriptsOf ms es).map (fun m => (m.type, m.name)) =
      (es.filter fun e => !e.isTable).map (fun e => (e.ty, e.label ms)) := by
  induction es with
  | nil => rfl
  | cons e es ih =>
    cases e with
    | plain ty colon name => exact congrArg (List.cons (ty, name.lit)) ih
    | inline ty lb body imp => exact congrArg (List.cons (ty, entryName ms ty.lit)) ih
    | table ty lbr rows => exact ih

/-- One to one, in order: the (type, label) pairs of the tables are those of the table entries. -/
theorem tablesOf_eq (K : List (String × String)) (ms : String) (es : List Entry) :
    (tablesOf K ms es).map (fun t => (t.type, t.name)) =
      (es.filter fun e => e.isTable).map (fun e => (e.ty, e.label ms)) := by
  induction es with
  | nil => rfl
  | cons e es ih =>
    cases e with
    | plain ty colon name => exact ih
    | inline ty lb body imp => exact ih
    | table ty lbr rows => exact congrArg (List.cons (ty, entryName ms ty.lit)) ih

/-- Source order is kept under concatenation (so: "in source order" for every split of the entry list). -/
theorem mapScriptsOf_append (ms : String) (a b : List Entry) :
    mapScriptsOf ms (a ++ b) = mapScriptsOf ms a ++ mapScriptsOf ms b := by
  simp [mapScriptsOf]

theorem tablesOf_append (K : List (String × String)) (ms : String) (a b : List Entry) :
    tablesOf K ms (a ++ b) = tablesOf K ms a ++ tablesOf K ms b := by
  simp [tablesOf]

/-! ### the statement -/

/-- `parseScopeModifier` only consumes a prefix of the token window. -/
theorem scope_consumes_prefix (d : TT) (s : PState) :
    wp (parseScopeModifier d) s (fun _ s' => ∃ pre l, s.toks = pre ++ l ∧ s' = st s l) := by
  have key : ∀ l : List Tok, ∃ pre, l = pre ++ l.tail.tail.tail := by
    intro l
    match l with
    | [] => exact ⟨[], rfl⟩
    | [a] => exact ⟨[a], rfl⟩
    | [a, b] => exact ⟨[a, b], rfl⟩
    | a :: b :: c :: r => exact ⟨[a, b, c], rfl⟩
  unfold parseScopeModifier
  wpsimp
  split
  · exact ⟨[], s.toks, rfl, rfl⟩
  · split
    · trivial
    · split
      · trivial
      · obtain ⟨pre, h⟩ := key s.toks
        exact ⟨pre, _, h, rfl⟩

/-- The shape of every successful parse of a `mapscripts` statement: `mapscripts [(mod)] Name {` (the tokens
`pre` before the name are the keyword and the optional scope modifier) then the trace of the entry loop, ended
by `}`; the statement carries the name token, the name, and the lists of the trace. -/
inductive MapScriptsRun (env : Env) (s : PState) : MapScripts × ImpData → PState → Prop
  | intro {pre : List Tok} {nameTok lb : Tok} {body : List Tok} {es : List Entry} {s' : PState}
      {m : MapScripts} :
      s.toks = pre ++ nameTok :: lb :: body → nameTok.type = .IDENT → lb.type = .LBRACE →
      EntriesOf env nameTok.lit s.constants (st s body) es s' → (s'.toks.headD s'.eof).type = .RBRACE →
      m.tok = nameTok → m.name = nameTok.lit → m.mapScripts = mapScriptsOf nameTok.lit es →
      m.tables = tablesOf s.constants nameTok.lit es →
      MapScriptsRun env s (m, impAfter {} es) s'

/-- **C08b-1 (statement).**  Every successful parse of a `mapscripts` statement has the shape `MapScriptsRun`:
`mapScripts` / `tables` are, in source order, the images of the entries met between `{` and `}`. -/
theorem parse_mapscripts_statement_order (env : Env) (fuel : Nat) (s : PState) (he : s.eof.type = .EOF) :
    wp (parseMapscriptsStatement env fuel) s (MapScriptsRun env s) := by
  unfold parseMapscriptsStatement
  wpsimp [wp_spec (scope_consumes_prefix _ _)]
  intro scope s1 _ hpre
  obtain ⟨pre, l, hl, rfl⟩ := hpre
  split
  · rename_i hn
    simp only [st_toks, st_eof] at hn
    obtain ⟨kw, nameTok, tl, rfl, hname⟩ := toks_two he (by decide) (beq_iff_eq.mp hn)
    split
    · rename_i hb
      simp only [st_toks, st_eof, List.tail_cons] at hb
      obtain ⟨nm', lb, body, hcons, hlb⟩ := toks_two he (by decide) (beq_iff_eq.mp hb)
      cases hcons
      have hs : upd (st s (kw :: nameTok :: lb :: body)) (st s (kw :: nameTok :: lb :: body)).toks.tail.tail.tail
          (st s (kw :: nameTok :: lb :: body)).nextCmdId = st s body := rfl
      rw [hs]
      refine wp_mono (parse_mapscript_entries_order env _ fuel [] [] {} (st s body) he) ?_
      intro r s' hr
      obtain ⟨es, htr, hend, h1, h2, h3⟩ := hr
      simp only [List.nil_append, st_constants] at h1 h2 htr
      have := @MapScriptsRun.intro env s (pre ++ [kw]) nameTok lb body es s'
        { tok := nameTok, name := nameTok.lit, mapScripts := r.1, tables := r.2.1, scope := scope }
        (by rw [hl]; simp) hname hlb htr hend rfl rfl h1 h2
      rw [← h3] at this
      exact this
    · trivial
  · trivial

/-- Converse: `mapscripts [(mod)] Name {` followed by a trace of entries that ends at `}` parses to the
statement carrying the lists of the trace (and the written / default scope, C15b). -/
theorem parse_mapscripts_statement_complete {env : Env} {fuel m : Nat} {s s' : PState} (kw : Tok) (md : Mod)
    (name lb : Tok) (body : List Tok) (hmd : md.WF) (hname : name.type = .IDENT) (hlb : lb.type = .LBRACE)
    {es : List Entry} (hit : Iter env name.lit s.constants fuel (st s body) es (m + 1) s')
    (hend : (s'.toks.headD s'.eof).type = .RBRACE) :
    (parseMapscriptsStatement env fuel).run (st s (kw :: (md.toks ++ name :: lb :: body))) =
      .ok (({ tok := name, name := name.lit, mapScripts := mapScriptsOf name.lit es,
              tables := tablesOf s.constants name.lit es,
              scope := md.scope (defaultScopeOf "parseMapscriptsStatement") }, impAfter {} es), s') := by
  have hb := parse_mapscript_entries_complete hit hend [] [] {}
  simp only [List.nil_append] at hb
  exact C15b.parse_mapscripts_statement_gen env fuel s kw md name lb body hmd hname hlb _ s' hb

/-- "… behaves like the same body written as a script statement": the body of an inline entry / row is parsed
by the very call `parseBlockStatement env <label> {-token fuel [] {}` that `parseScriptStatement` makes for
`script <label> { body }` — same statements, same implicit data, same end state. -/
theorem inline_body_is_script_body (env : Env) (n : Nat) (s : PState) (kw name lb : Tok) (rest : List Tok)
    (hname : name.type = .IDENT) (hlb : lb.type = .LBRACE) (r : List Stmt × ImpData) (sb : PState)
    (hb : (parseBlockStatement env name.lit lb n [] {}).run (st s rest) = .ok (r, sb)) :
    (parseScriptStatement env n).run (st s (kw :: name :: lb :: rest)) =
      .ok (({ tok := kw, name := name.lit, body := r.1,
              scope := defaultScopeOf "parseScriptStatement" }, r.2), sb) := by
  simpa [Mod.toks, Mod.scope] using
    C15b.parse_script_statement_gen env n s kw .absent name lb rest trivial hname hlb r sb hb

/-! ## 2. with the emitter (C08): source order end to end -/

/-- The inline script of an entry, if any. -/
def entryScript (ms : String) : Entry → Option Script
  | .plain .. => none
  | .inline ty _ body _ => some { tok := {}, name := entryName ms ty.lit, body := body, scope := .LOCAL }
  | .table .. => none

/-- The header line of an entry: `map_script TYPE, label` (preceded by a line marker if enabled). -/
def entryLine (o : Opts) (ms : String) (e : Entry) : List Line :=
  marker o e.ty ++ [.mapScript e.ty.lit (e.label ms)]

/-- The lines of consecutive rows, the first one in position `i`: `map_script_2 cond, value, label`. -/
def rowLines (o : Opts) (K : List (String × String)) (ms ty : String) : Nat → List Row → List Line
  | _, [] => []
  | i, r :: rs =>
    marker o (r.condTok K) ++ [.mapScript2 (r.condTok K).lit (r.cmpVal K) (r.label ms ty i)] ++
      rowLines o K ms ty (i + 1) rs

/-- The inline scripts of consecutive rows, the first one in position `i`. -/
def rowScripts (ms ty : String) : Nat → List Row → List (Option Script)
  | _, [] => []
  | i, r :: rs => r.script ms ty i :: rowScripts ms ty (i + 1) rs

/-- What is emitted for the head of a table: its local label, its rows in source order, `.2byte 0`. -/
def tableLines (o : Opts) (K : List (String × String)) (ms : String) (ty : Tok) (rows : List Row) : List Line :=
  [.labelDef (entryName ms ty.lit) false] ++ rowLines o K ms ty.lit 0 rows ++ [.twoByte0]

theorem mapScripts_lines (o : Opts) (ms : String) (es : List Entry) :
    ((mapScriptsOf ms es).flatMap fun x => marker o x.type ++ [.mapScript x.type.lit x.name]) =
      (es.filter fun e => !e.isTable).flatMap (entryLine o ms) := by
  induction es with
  | nil => rfl
  | cons e es ih =>
    cases e with
    | plain ty colon name =>
      simp only [mapScriptsOf, List.filterMap_cons, Entry.mapScript, Entry.isTable, List.filter_cons,
        List.flatMap_cons, Bool.not_false, if_true, entryLine, Entry.ty, Entry.label] at ih ⊢
      rw [ih]
    | inline ty lb body imp =>
      simp only [mapScriptsOf, List.filterMap_cons, Entry.mapScript, Entry.isTable, List.filter_cons,
        List.flatMap_cons, Bool.not_false, if_true, entryLine, Entry.ty, Entry.label] at ih ⊢
      rw [ih]
    | table ty lbr rows =>
      simp only [mapScriptsOf, List.filterMap_cons, Entry.mapScript, Entry.isTable, List.filter_cons,
        Bool.not_true, Bool.false_eq_true, if_false] at ih ⊢
      exact ih

theorem tables_lines (o : Opts) (K : List (String × String)) (ms : String) (es : List Entry) :
    ((tablesOf K ms es).flatMap fun x => marker o x.type ++ [.mapScript x.type.lit x.name]) =
      (es.filter fun e => e.isTable).flatMap (entryLine o ms) := by
  induction es with
  | nil => rfl
  | cons e es ih =>
    cases e with
    | plain ty colon name =>
      simp only [tablesOf, List.filterMap_cons, Entry.tableOf, Entry.isTable, List.filter_cons,
        Bool.false_eq_true, if_false] at ih ⊢
      exact ih
    | inline ty lb body imp =>
      simp only [tablesOf, List.filterMap_cons, Entry.tableOf, Entry.isTable, List.filter_cons,
        Bool.false_eq_true, if_false] at ih ⊢
      exact ih
    | table ty lbr rows =>
      simp only [tablesOf, List.filterMap_cons, Entry.tableOf, Entry.isTable, List.filter_cons,
        List.flatMap_cons, if_true, entryLine, Entry.ty, Entry.label] at ih ⊢
      rw [ih]

theorem mapScripts_scripts (ms : String) (es : List Entry) :
    (mapScriptsOf ms es).map (·.script) = (es.filter fun e => !e.isTable).map (entryScript ms) := by
  induction es with
  | nil => rfl
  | cons e es ih =>
    cases e with
    | plain ty colon name => exact congrArg (List.cons none) ih
    | inline ty lb body imp => exact congrArg (List.cons _) ih
    | table ty lbr rows => exact ih

theorem rowEntries_lines (o : Opts) (K : List (String × String)) (ms ty : String) (rows : List Row) :
    ∀ i, ((rowEntries K ms ty i rows).flatMap fun e =>
        marker o e.condition ++ [.mapScript2 e.condition.lit e.comparison e.name]) =
      rowLines o K ms ty i rows := by
  induction rows with
  | nil => intro i; rfl
  | cons r rs ih =>
    intro i
    simp only [rowEntries, List.flatMap_cons, rowLines, ih, Row.entry]

theorem rowEntries_scripts (K : List (String × String)) (ms ty : String) (rows : List Row) :
    ∀ i, (rowEntries K ms ty i rows).map (·.script) = rowScripts ms ty i rows := by
  induction rows with
  | nil => intro i; rfl
  | cons r rs ih => intro i; simp only [rowEntries, List.map_cons, rowScripts, ih, Row.entry]

/-- **C08 ∘ C08b, header.**  For a `mapscripts` statement whose lists are those of a parsed entry list `es`
(`parse_mapscripts_statement_order`), the emitted lines are: the label of the statement, one
`map_script TYPE, label` line per plain / inline entry in source order, then one per table in source order,
`.byte 0`; then the inline scripts of the entries in source order, then the tables. -/
theorem emitted_header_source_order (o : Opts) (patches : List ((Nat × Nat) × String)) (tl : List String)
    (m : MapScripts) (K : List (String × String)) (es : List Entry)
    (hms : m.mapScripts = mapScriptsOf m.name es) (htb : m.tables = tablesOf K m.name es)
    (ls : List Line) (h : emitMapScripts o patches tl m = .ok ls) :
    ∃ scripts tables,
      emitScripts o patches tl ((es.filter fun e => !e.isTable).map (entryScript m.name)) = .ok scripts ∧
      emitTables o patches tl (tablesOf K m.name es) = .ok tables ∧
      ls = [.labelDef m.name (m.scope == .GLOBAL)] ++
        (es.filter fun e => !e.isTable).flatMap (entryLine o m.name) ++
        (es.filter fun e => e.isTable).flatMap (entryLine o m.name) ++ [.byte0] ++ scripts ++ tables := by
  obtain ⟨scripts, tables, h1, h2, rfl⟩ := C08.header_shape o patches tl m ls h
  refine ⟨scripts, tables, ?_, ?_, ?_⟩
  · rw [← mapScripts_scripts, ← hms]; exact h1
  · rw [← htb]; exact h2
  · simp only [C08.headerLines, hms, htb, mapScripts_lines, tables_lines]

/-- **C08 ∘ C08b, one table.**  The table built from `TYPE [ rows ]` is emitted as its local label
`<ms>_<TYPE>`, one `map_script_2 cond, value, label` line per row in source order, `.2byte 0`, then the inline
scripts of its rows in source order. -/
theorem emitted_table_source_order (o : Opts) (patches : List ((Nat × Nat) × String)) (tl : List String)
    (K : List (String × String)) (ms : String) (ty : Tok) (rows : List Row) (r : List TableMapScript)
    (ls : List Line)
    (h : emitTables o patches tl
      ({ type := ty, name := entryName ms ty.lit, entries := rowEntries K ms ty.lit 0 rows } :: r) = .ok ls) :
    ∃ scripts rest,
      emitScripts o patches tl (rowScripts ms ty.lit 0 rows) = .ok scripts ∧
      emitTables o patches tl r = .ok rest ∧
      ls = tableLines o K ms ty rows ++ scripts ++ rest := by
  obtain ⟨scripts, rest, h1, h2, rfl⟩ := C08.table_shape o patches tl _ r ls h
  refine ⟨scripts, rest, ?_, h2, ?_⟩
  · rw [← rowEntries_scripts K]; exact h1
  · simp only [C08.tableHead, rowEntries_lines, tableLines]

/-- **C08 ∘ C08b, all tables.**  The tables are emitted in the source order of the table entries, each as in
`emitted_table_source_order`. -/
theorem emitted_tables_source_order (o : Opts) (patches : List ((Nat × Nat) × String)) (tl : List String)
    (K : List (String × String)) (ms : String) :
    ∀ (es : List Entry) (ls : List Line), emitTables o patches tl (tablesOf K ms es) = .ok ls →
      ∃ parts : List (List Line),
        C08.Forall2 (fun (e : Entry) (p : List Line) => ∃ ty lbr rows scripts, e = .table ty lbr rows ∧
            emitScripts o patches tl (rowScripts ms ty.lit 0 rows) = .ok scripts ∧
            p = tableLines o K ms ty rows ++ scripts)
          (es.filter fun e => e.isTable) parts ∧
        ls = parts.flatten := by
  intro es
  induction es with
  | nil =>
    intro ls h
    simp [tablesOf, emitTables] at h
    subst h
    exact ⟨[], C08.Forall2.nil, rfl⟩
  | cons e es ih =>
    intro ls h
    cases e with
    | plain ty colon name => exact ih ls h
    | inline ty lb body imp => exact ih ls h
    | table ty lbr rows =>
      have h' : emitTables o patches tl
          ({ type := ty, name := entryName ms ty.lit, entries := rowEntries K ms ty.lit 0 rows } ::
            tablesOf K ms es) = .ok ls := h
      obtain ⟨scripts, rest, h1, h2, rfl⟩ := emitted_table_source_order o patches tl K ms ty rows _ ls h'
      obtain ⟨parts, hp, rfl⟩ := ih rest h2
      refine ⟨(tableLines o K ms ty rows ++ scripts) :: parts, ?_, by simp⟩
      exact C08.Forall2.cons (R := fun (e : Entry) (p : List Line) => ∃ ty lbr rows scripts,
        e = .table ty lbr rows ∧ emitScripts o patches tl (rowScripts ms ty.lit 0 rows) = .ok scripts ∧
        p = tableLines o K ms ty rows ++ scripts) ⟨ty, lbr, rows, scripts, rfl, h1, rfl⟩ hp

/-- The label in the header line of an inline entry is the name of the script emitted for it; that script is
LOCAL. -/
theorem inline_label_is_script_name (ms : String) (e : Entry) (scr : Script) (h : entryScript ms e = some scr) :
    scr.name = e.label ms ∧ scr.scope = .LOCAL := by
  cases e with
  | plain => cases h
  | inline ty lb body imp => cases h; exact ⟨rfl, rfl⟩
  | table => cases h

/-- The label in the table line of an inline row is the name of the script emitted for it; that script is
LOCAL. -/
theorem inline_row_label_is_script_name (ms ty : String) (i : Nat) (r : Row) (scr : Script)
    (h : r.script ms ty i = some scr) : scr.name = r.label ms ty i ∧ scr.scope = .LOCAL := by
  cases r with
  | plain => cases h
  | inline cs comma vs lb body imp => cases h; exact ⟨rfl, rfl⟩

/-! ## 3. rejections (only what the model checks), errors located -/

section
variable (env : Env) (ms : String) (n : Nat) (mss : List MapScript) (tables : List TableMapScript)
  (imp : ImpData) (s : PState)

/-- Where an entry should start, anything but `}` or an identifier: error on that token. -/
theorem reject_bad_type (h1 : (s.toks.headD s.eof).type ≠ .RBRACE) (h2 : (s.toks.headD s.eof).type ≠ .IDENT) :
    (parseMapScriptEntries env ms (n + 1) mss tables imp).run s =
      .error (newParseError (s.toks.headD s.eof)
        s!"expected map script type, but got '{(s.toks.headD s.eof).lit}' instead") :=
  ment_bad_type env ms n mss tables imp s h1 h2

/-- Missing `:` / `{` / `[` after a type: error on the token found instead. -/
theorem reject_after_type (ty : Tok) (tl : List Tok) (hty : ty.type = .IDENT)
    (h1 : (tl.headD s.eof).type ≠ .COLON) (h2 : (tl.headD s.eof).type ≠ .LBRACE)
    (h3 : (tl.headD s.eof).type ≠ .LBRACKET) :
    (parseMapScriptEntries env ms (n + 1) mss tables imp).run (st s (ty :: tl)) =
      .error (newParseError (tl.headD s.eof)
        s!"expected ':', '[', or '\{' after map script type '{ty.lit}', but got '{(tl.headD s.eof).lit}' instead") :=
  ment_bad_after_type env ms n mss tables imp s ty tl hty h1 h2 h3

/-- Missing name after `TYPE :`: error on the token found instead. -/
theorem reject_missing_label (ty colon : Tok) (tl : List Tok) (hty : ty.type = .IDENT)
    (hc : colon.type = .COLON) (hx : (tl.headD s.eof).type ≠ .IDENT) :
    (parseMapScriptEntries env ms (n + 1) mss tables imp).run (st s (ty :: colon :: tl)) =
      .error (newParseError (tl.headD s.eof)
        s!"expected map script label after ':', but got '{(tl.headD s.eof).lit}' instead") :=
  ment_missing_label env ms n mss tables imp s ty colon tl hty hc hx

end

section
variable (env : Env) (ms ty : String) (n i : Nat) (acc : List TableEntry) (imp : ImpData) (s : PState)

/-- End of input inside a table, before the `,` of a row: error on the first token of that row. -/
theorem reject_row_missing_comma (c : Tok) (cs rest : List Tok) (h0 : c.type ≠ .RBRACKET)
    (h1 : ∀ v ∈ c :: cs, v.type ≠ .COMMA) (h2 : ∀ v ∈ cs, v.type ≠ .EOF)
    (hrest : (rest.headD s.eof).type = .EOF) (hn : cs.length < n) :
    (parseTableEntries env ms ty (n + 1) i acc imp).run (st s (c :: (cs ++ rest))) =
      .error (newParseError c "missing ',' to specify map script table entry comparison value") :=
  trow_missing_comma env ms ty n i acc imp s c cs rest h0 h1 h2 hrest hn

/-- Empty condition: error on the first token of the row (the `,` itself when nothing precedes it). -/
theorem reject_row_empty_condition (cs : List Tok) (comma : Tok) (rest : List Tok)
    (h0 : (cs.headD comma).type ≠ .RBRACKET) (h1 : ∀ v ∈ cs, v.type ≠ .COMMA) (h2 : ∀ v ∈ cs.tail, v.type ≠ .EOF)
    (h3 : comma.type = .COMMA) (hn : cs.length < n) (hemp : collVal s.constants cs = "") :
    (parseTableEntries env ms ty (n + 1) i acc imp).run (st s (cs ++ comma :: rest)) =
      .error (newParseError (cs.headD comma) "expected condition for map script table entry, but it was empty") :=
  trow_empty_condition env ms ty n i acc imp s cs comma rest h0 h1 h2 h3 hn hemp

/-- End of input inside a table, after the `,` of a row: range error from the first token of the row to the
first token after the `,`. -/
theorem reject_row_missing_delim (cs : List Tok) (comma v : Tok) (vs rest : List Tok)
    (h0 : (cs.headD comma).type ≠ .RBRACKET) (h1 : ∀ v ∈ cs, v.type ≠ .COMMA) (h2 : ∀ v ∈ cs.tail, v.type ≠ .EOF)
    (h3 : comma.type = .COMMA) (hn : cs.length < n) (hne : collVal s.constants cs ≠ "")
    (h4 : ∀ x ∈ v :: vs, x.type ≠ .COLON ∧ x.type ≠ .LBRACE) (h5 : ∀ x ∈ vs, x.type ≠ .EOF)
    (hrest : (rest.headD s.eof).type = .EOF) (hn2 : vs.length < n) :
    (parseTableEntries env ms ty (n + 1) i acc imp).run (st s (cs ++ comma :: v :: (vs ++ rest))) =
      .error (newRangeParseError (cs.headD comma) v "missing ':' or '{' to specify map script table entry") :=
  trow_missing_delim env ms ty n i acc imp s cs comma v vs rest h0 h1 h2 h3 hn hne h4 h5 hrest hn2

/-- Empty comparison value: range error from the first token of the row to the `:` / `{`. -/
theorem reject_row_empty_comparison (cs : List Tok) (comma : Tok) (vs : List Tok) (d : Tok) (rest : List Tok)
    (h0 : (cs.headD comma).type ≠ .RBRACKET) (h1 : ∀ v ∈ cs, v.type ≠ .COMMA) (h2 : ∀ v ∈ cs.tail, v.type ≠ .EOF)
    (h3 : comma.type = .COMMA) (hn : cs.length < n) (hne : collVal s.constants cs ≠ "")
    (h4 : ∀ x ∈ vs, x.type ≠ .COLON ∧ x.type ≠ .LBRACE) (h5 : ∀ x ∈ vs.tail, x.type ≠ .EOF)
    (hd : d.type = .COLON ∨ d.type = .LBRACE) (hn2 : vs.length < n) (hemp : collVal s.constants vs = "") :
    (parseTableEntries env ms ty (n + 1) i acc imp).run (st s (cs ++ comma :: (vs ++ d :: rest))) =
      .error (newRangeParseError (cs.headD comma) d
        "expected comparison value for map script table entry, but it was empty") :=
  trow_empty_comparison env ms ty n i acc imp s cs comma vs d rest h0 h1 h2 h3 hn hne h4 h5 hd hn2 hemp

/-- Missing name after `cond , value :`: error on the token found instead. -/
theorem reject_row_missing_label (cs : List Tok) (comma : Tok) (vs : List Tok) (colon : Tok) (rest : List Tok)
    (hwf : HdWF s.constants cs comma vs) (hc : colon.type = .COLON) (hn1 : cs.length < n) (hn2 : vs.length < n)
    (hx : (rest.headD s.eof).type ≠ .IDENT) :
    (parseTableEntries env ms ty (n + 1) i acc imp).run (st s (cs ++ comma :: (vs ++ colon :: rest))) =
      .error (newParseError (rest.headD s.eof)
        s!"expected map script label after ':', but got '{(rest.headD s.eof).lit}' instead") :=
  trow_missing_label env ms ty n i acc imp s cs comma vs colon rest hwf hc hn1 hn2 hx

end

/-- **Errors of the entry loop along a trace.**  If the entry loop, after the entries of a trace, fails with
`e` whatever the accumulators, the whole loop fails with `e`. -/
theorem rejected_after_entries {env : Env} {ms : String} {K : List (String × String)} {n m : Nat}
    {s sm : PState} {es : List Entry} (hit : Iter env ms K n s es m sm) (e : PFail)
    (herr : ∀ mss' tables' imp', (parseMapScriptEntries env ms m mss' tables' imp').run sm = .error e)
    (mss : List MapScript) (tables : List TableMapScript) (imp : ImpData) :
    (parseMapScriptEntries env ms n mss tables imp).run s = .error e := by
  rw [run_of_iter hit mss tables imp]
  exact herr _ _ _

/-- **Errors inside a table along traces.**  After the entries of a trace the loop meets `TYPE [`, the row loop
reads the rows of a trace and then fails with `e` whatever the accumulators: the whole entry loop fails with
`e`. -/
theorem rejected_in_table {env : Env} {ms : String} {K : List (String × String)} {n m k : Nat}
    {s sm sr : PState} {es : List Entry} {rows : List Row} (hit : Iter env ms K n s es (m + 1) sm)
    {ty lbr : Tok} {rest : List Tok} (hsm : sm.toks = ty :: lbr :: rest) (hty : ty.type = .IDENT)
    (hlbr : lbr.type = .LBRACKET) (hrows : RowIter env ms ty.lit K m 0 (st sm rest) rows k sr) (e : PFail)
    (herr : ∀ i' acc' imp', (parseTableEntries env ms ty.lit k i' acc' imp').run sr = .error e)
    (mss : List MapScript) (tables : List TableMapScript) (imp : ImpData) :
    (parseMapScriptEntries env ms n mss tables imp).run s = .error e := by
  refine rejected_after_entries hit e ?_ mss tables imp
  intro mss' tables' imp'
  rw [st_eq_of_toks hsm, ment_table env ms m mss' tables' imp' sm ty lbr rest hty hlbr,
    rows_run_of_iter hrows, herr]
  rfl

/-- Missing name for the statement: range error from the token before (the keyword, or the `)` of the scope
modifier) to the token found instead. -/
theorem mapscripts_missing_name (env : Env) (fuel : Nat) (s : PState) (kw : Tok) (md : Mod) (x : Tok)
    (tl : List Tok) (hmd : md.WF) (hx : x.type ≠ .IDENT) (hx' : x.type ≠ .LPAREN) :
    (parseMapscriptsStatement env fuel).run (st s (kw :: (md.toks ++ x :: tl))) =
      .error (newRangeParseError (md.last kw) x "missing name for mapscripts statement") := by
  unfold parseMapscriptsStatement
  simp [scope_mod _ s kw md x tl hmd hx', hx]

/-- Missing `{` for the statement: range error from the token before the name (the keyword, or the `)` of the
scope modifier) to the token found instead. -/
theorem mapscripts_missing_lbrace (env : Env) (fuel : Nat) (s : PState) (kw : Tok) (md : Mod) (name x : Tok)
    (tl : List Tok) (hmd : md.WF) (hname : name.type = .IDENT) (hx : x.type ≠ .LBRACE) :
    (parseMapscriptsStatement env fuel).run (st s (kw :: (md.toks ++ name :: x :: tl))) =
      .error (newRangeParseError (md.last kw) x
        s!"missing opening curly brace for mapscripts '{name.lit}'") := by
  unfold parseMapscriptsStatement
  simp [scope_mod _ s kw md name (x :: tl) hmd (by simp [hname]), hname, hx]

/-! ## non-vacuity -/
section Examples

/-- A token on a given line. -/
def t (line : Nat) (ty : TT) (lit : String) : Tok := { type := ty, lit := lit, line := line, endLine := line }
def cmd (id : Nat) (tok : Tok) : Stmt := .cmd { id := id, tok := tok, name := tok.lit, args := [] }

/-! ### the example of the task (`const K = 2` on line 1)
```
mapscripts M {
  MAP_SCRIPT_ON_LOAD: L
  MAP_SCRIPT_ON_RESUME { lock }
  MAP_SCRIPT_ON_FRAME_TABLE [
    VAR_A, 1: F1
    VAR_A, K + 1 { release }
  ]
}
```
(token types and literals as produced by the lexer model: `+` is an `ILLEGAL` token with literal `+`) -/
def exHead : List Tok := [t 2 .MAPSCRIPTS "mapscripts", t 2 .IDENT "M", t 2 .LBRACE "{"]
def exBody : List Tok :=
  [t 3 .IDENT "MAP_SCRIPT_ON_LOAD", t 3 .COLON ":", t 3 .IDENT "L",
   t 4 .IDENT "MAP_SCRIPT_ON_RESUME", t 4 .LBRACE "{", t 4 .IDENT "lock", t 4 .RBRACE "}",
   t 5 .IDENT "MAP_SCRIPT_ON_FRAME_TABLE", t 5 .LBRACKET "[",
   t 6 .IDENT "VAR_A", t 6 .COMMA ",", t 6 .INT "1", t 6 .COLON ":", t 6 .IDENT "F1",
   t 7 .IDENT "VAR_A", t 7 .COMMA ",", t 7 .IDENT "K", t 7 .ILLEGAL "+", t 7 .INT "1", t 7 .LBRACE "{",
   t 7 .IDENT "release", t 7 .RBRACE "}",
   t 8 .RBRACKET "]",
   t 9 .RBRACE "}"]
def exK : List (String × String) := [("K", "2")]
def exState : PState := { toks := exHead ++ exBody, eof := t 10 .EOF "", constants := exK }
def exLoopState : PState := { exState with toks := exBody }

def exRows : List Row :=
  [ .plain [t 6 .IDENT "VAR_A"] (t 6 .COMMA ",") [t 6 .INT "1"] (t 6 .COLON ":") (t 6 .IDENT "F1"),
    .inline [t 7 .IDENT "VAR_A"] (t 7 .COMMA ",") [t 7 .IDENT "K", t 7 .ILLEGAL "+", t 7 .INT "1"]
      (t 7 .LBRACE "{") [cmd 1 (t 7 .IDENT "release")] {} ]

def exEntries : List Entry :=
  [ .plain (t 3 .IDENT "MAP_SCRIPT_ON_LOAD") (t 3 .COLON ":") (t 3 .IDENT "L"),
    .inline (t 4 .IDENT "MAP_SCRIPT_ON_RESUME") (t 4 .LBRACE "{") [cmd 0 (t 4 .IDENT "lock")] {},
    .table (t 5 .IDENT "MAP_SCRIPT_ON_FRAME_TABLE") (t 5 .LBRACKET "[") exRows ]

def exMapScripts : List MapScript :=
  [ { type := t 3 .IDENT "MAP_SCRIPT_ON_LOAD", name := "L", script := none },
    { type := t 4 .IDENT "MAP_SCRIPT_ON_RESUME", name := "M_MAP_SCRIPT_ON_RESUME",
      script := some { tok := {}, name := "M_MAP_SCRIPT_ON_RESUME", body := [cmd 0 (t 4 .IDENT "lock")],
                       scope := .LOCAL } } ]

def exTables : List TableMapScript :=
  [ { type := t 5 .IDENT "MAP_SCRIPT_ON_FRAME_TABLE", name := "M_MAP_SCRIPT_ON_FRAME_TABLE",
      entries :=
        [ { condition := t 6 .IDENT "VAR_A", comparison := "1", name := "F1", script := none },
          { condition := t 7 .IDENT "VAR_A", comparison := "2 + 1", name := "M_MAP_SCRIPT_ON_FRAME_TABLE_1",
            script := some { tok := {}, name := "M_MAP_SCRIPT_ON_FRAME_TABLE_1",
                             body := [cmd 1 (t 7 .IDENT "release")], scope := .LOCAL } } ] } ]

def exStmt : MapScripts :=
  { tok := t 2 .IDENT "M", name := "M", mapScripts := exMapScripts, tables := exTables, scope := .GLOBAL }

/-- the lists of the trace are the expected ones: source order; the inline row is the second row of its
table and is numbered 1; `K + 1` is collected as `2 + 1` -/
example : mapScriptsOf "M" exEntries = exMapScripts := rfl
example : tablesOf exK "M" exEntries = exTables := rfl
theorem ex_numbering : (rowEntries exK "M" "T" 0 exRows).map (·.name) = ["F1", "M_T_1"] := by decide

/-- the parser model on the example -/
theorem ex_run : ∃ imp s', (parseMapscriptsStatement {} 40).run exState = .ok ((exStmt, imp), s') ∧
    s'.toks = [t 9 .RBRACE "}"] :=
  ⟨_, _, rfl, rfl⟩

/-- `parse_mapscripts_statement_order` applies: the run has the shape `MapScriptsRun`. -/
example : ∃ imp s', MapScriptsRun {} exState (exStmt, imp) s' := by
  obtain ⟨imp, s', h, _⟩ := ex_run
  exact ⟨imp, s', parse_mapscripts_statement_order {} 40 exState rfl _ _ h⟩

/-- the rows of the table: an explicit trace -/
theorem ex_rows_iter : ∃ sb, RowIter {} "M" "MAP_SCRIPT_ON_FRAME_TABLE" exK 37 0
      { exState with toks := exBody.drop 9, nextCmdId := 1 } exRows 35 sb ∧
    sb.toks = [t 8 .RBRACKET "]", t 9 .RBRACE "}"] :=
  ⟨_, RowIter.cons (rest := exBody.drop 14) rfl rfl
        ⟨⟨by decide, by decide, by decide, rfl, by decide, by decide, by decide, by decide⟩, rfl, rfl⟩
        (by decide) rfl
      (RowIter.cons (rest := exBody.drop 20) rfl rfl
        ⟨⟨by decide, by decide, by decide, rfl, by decide, by decide, by decide, by decide⟩, rfl⟩
        (by decide) ⟨_, rfl, rfl⟩
      (RowIter.nil _ _ _)), rfl⟩

/-- the loop alone, on the window after `{`: an explicit trace -/
theorem ex_iter : ∃ se, Iter {} "M" exK 40 exLoopState exEntries 37 se ∧ se.toks = [t 9 .RBRACE "}"] := by
  obtain ⟨sb, hrows, hsb⟩ := ex_rows_iter
  refine ⟨_, Iter.cons (rest := exBody.drop 3) rfl rfl ⟨rfl, rfl, rfl⟩ rfl
    (Iter.cons (rest := exBody.drop 5) rfl rfl ⟨rfl, rfl⟩ ⟨_, rfl, rfl⟩
    (Iter.cons (rest := exBody.drop 9) rfl rfl ⟨rfl, rfl⟩ ⟨34, sb, hrows, by rw [hsb]; rfl, rfl⟩
    (Iter.nil _ _))), ?_⟩
  simp [hsb]

/-- `parse_mapscript_entries_complete` and `parse_mapscript_entries_order` apply. -/
example : ∃ imp se, (parseMapScriptEntries {} "M" 40 [] [] {}).run exLoopState =
    .ok ((exMapScripts, exTables, imp), se) := by
  obtain ⟨se, hit, hse⟩ := ex_iter
  exact ⟨_, se, parse_mapscript_entries_complete hit (by rw [hse]; rfl) [] [] {}⟩

example : ∃ es se, EntriesOf {} "M" exK exLoopState es se ∧ exMapScripts = [] ++ mapScriptsOf "M" es ∧
    exTables = [] ++ tablesOf exK "M" es := by
  obtain ⟨se, hit, hse⟩ := ex_iter
  have h := parse_mapscript_entries_complete hit (by rw [hse]; rfl) [] [] {}
  obtain ⟨es, hc, _, h1, h2, _⟩ := parse_mapscript_entries_order {} "M" 40 [] [] {} exLoopState rfl _ _ h
  exact ⟨es, se, hc, h1, h2⟩

/-- `parse_mapscripts_statement_complete` applies. -/
example : ∃ imp se, (parseMapscriptsStatement {} 40).run exState = .ok ((exStmt, imp), se) := by
  obtain ⟨se, hit, hse⟩ := ex_iter
  exact ⟨_, se, parse_mapscripts_statement_complete (s := exState) (t 2 .MAPSCRIPTS "mapscripts") .absent
    (t 2 .IDENT "M") (t 2 .LBRACE "{") exBody trivial rfl rfl hit (by rw [hse]; rfl)⟩

/-! ### the emitted lines of the example (no line markers, no optimisation)
```
M::
	map_script MAP_SCRIPT_ON_LOAD, L
	map_script MAP_SCRIPT_ON_RESUME, M_MAP_SCRIPT_ON_RESUME
	map_script MAP_SCRIPT_ON_FRAME_TABLE, M_MAP_SCRIPT_ON_FRAME_TABLE
	.byte 0

M_MAP_SCRIPT_ON_RESUME:
	lock
	return

M_MAP_SCRIPT_ON_FRAME_TABLE:
	map_script_2 VAR_A, 1, F1
	map_script_2 VAR_A, 2 + 1, M_MAP_SCRIPT_ON_FRAME_TABLE_1
	.2byte 0

M_MAP_SCRIPT_ON_FRAME_TABLE_1:
	release
	return
``` -/
def exOpts : Opts := { optimize := false, lineMarkers := false }

theorem ex_emit : ∃ ls, emitMapScripts exOpts [] [] exStmt = .ok ls := ⟨_, rfl⟩

/-- `emitted_header_source_order` applies: the header lists the entries in source order, tables last. -/
example : ∃ ls scripts tables, emitMapScripts exOpts [] [] exStmt = .ok ls ∧
    ls = [.labelDef "M" true, .mapScript "MAP_SCRIPT_ON_LOAD" "L",
          .mapScript "MAP_SCRIPT_ON_RESUME" "M_MAP_SCRIPT_ON_RESUME",
          .mapScript "MAP_SCRIPT_ON_FRAME_TABLE" "M_MAP_SCRIPT_ON_FRAME_TABLE", .byte0] ++ scripts ++ tables := by
  obtain ⟨ls, h⟩ := ex_emit
  obtain ⟨scripts, tables, _, _, hls⟩ :=
    emitted_header_source_order exOpts [] [] exStmt exK exEntries rfl rfl ls h
  exact ⟨ls, scripts, tables, h, hls⟩

/-- `emitted_tables_source_order` / `emitted_table_source_order` apply: the rows in source order. -/
example : ∃ ls scripts, emitTables exOpts [] [] exTables = .ok ls ∧
    ls = [.labelDef "M_MAP_SCRIPT_ON_FRAME_TABLE" false, .mapScript2 "VAR_A" "1" "F1",
          .mapScript2 "VAR_A" "2 + 1" "M_MAP_SCRIPT_ON_FRAME_TABLE_1", .twoByte0] ++ scripts := by
  have h : ∃ ls, emitTables exOpts [] [] exTables = .ok ls := ⟨_, rfl⟩
  obtain ⟨ls, h⟩ := h
  obtain ⟨scripts, rest, _, hrest, hls⟩ := emitted_table_source_order exOpts [] [] exK "M"
    (t 5 .IDENT "MAP_SCRIPT_ON_FRAME_TABLE") exRows [] ls h
  have : rest = [] := by simpa [emitTables] using hrest.symm
  subst this
  exact ⟨ls, scripts, h, by rw [hls, List.append_nil]; rfl⟩

example : ∃ (ls : List Line) (parts : List (List Line)),
    emitTables exOpts [] [] (tablesOf exK "M" exEntries) = .ok ls ∧ ls = parts.flatten ∧
    parts.length = 1 := by
  have h : ∃ ls, emitTables exOpts [] [] (tablesOf exK "M" exEntries) = .ok ls := ⟨_, rfl⟩
  obtain ⟨ls, h⟩ := h
  obtain ⟨parts, hp, hls⟩ := emitted_tables_source_order exOpts [] [] exK "M" exEntries ls h
  refine ⟨ls, parts, h, hls, ?_⟩
  cases hp with
  | cons _ hp' => cases hp'; rfl

/-! ### rejections -/

/-- `mapscripts M { MAP_SCRIPT_ON_LOAD L }` — `reject_after_type`: error on `L`. -/
example : (parseMapScriptEntries {} "M" 10 [] [] {}).run
      (st exState [t 3 .IDENT "MAP_SCRIPT_ON_LOAD", t 3 .IDENT "L", t 4 .RBRACE "}"]) =
    .error (newParseError (t 3 .IDENT "L")
      "expected ':', '[', or '{' after map script type 'MAP_SCRIPT_ON_LOAD', but got 'L' instead") := by
  have := reject_after_type {} "M" 9 [] [] {} exState (t 3 .IDENT "MAP_SCRIPT_ON_LOAD")
    [t 3 .IDENT "L", t 4 .RBRACE "}"] rfl (by decide) (by decide) (by decide)
  exact this.trans (congrArg (fun m => Except.error (newParseError (t 3 .IDENT "L") m)) (by decide))

/-- `T: ` followed by `}` — `reject_missing_label`: error on the `}`. -/
example : (parseMapScriptEntries {} "M" 10 [] [] {}).run
      (st exState [t 3 .IDENT "T", t 3 .COLON ":", t 4 .RBRACE "}"]) =
    .error (newParseError (t 4 .RBRACE "}") "expected map script label after ':', but got '}' instead") := by
  have := reject_missing_label {} "M" 9 [] [] {} exState (t 3 .IDENT "T") (t 3 .COLON ":")
    [t 4 .RBRACE "}"] rfl rfl (by decide)
  exact this.trans (congrArg (fun m => Except.error (newParseError (t 4 .RBRACE "}") m)) (by decide))

/-- End of input inside a table, after an entry and a row:
```
T: L
U [
  VAR_A, 1: F1
  VAR_B <end of input>
```
`rejected_in_table` + `reject_row_missing_comma`: error located on `VAR_B` (line 6). -/
def eofBody : List Tok :=
  [t 3 .IDENT "T", t 3 .COLON ":", t 3 .IDENT "L", t 4 .IDENT "U", t 4 .LBRACKET "[",
   t 5 .IDENT "VAR_A", t 5 .COMMA ",", t 5 .INT "1", t 5 .COLON ":", t 5 .IDENT "F1",
   t 6 .IDENT "VAR_B", t 7 .EOF ""]
def eofState : PState := { toks := eofBody, eof := t 7 .EOF "" }

example : (parseMapScriptEntries {} "M" 20 [] [] {}).run eofState =
    .error (newParseError (t 6 .IDENT "VAR_B") "missing ',' to specify map script table entry comparison value") :=
  rejected_in_table (K := []) (m := 18) (k := 17) (sm := st eofState (eofBody.drop 3))
    (sr := st eofState (eofBody.drop 10))
    (es := [.plain (t 3 .IDENT "T") (t 3 .COLON ":") (t 3 .IDENT "L")])
    (rows := [.plain [t 5 .IDENT "VAR_A"] (t 5 .COMMA ",") [t 5 .INT "1"] (t 5 .COLON ":") (t 5 .IDENT "F1")])
    (MapScriptsParse.Iter.cons (rest := eofBody.drop 3) rfl rfl ⟨rfl, rfl, rfl⟩ rfl (MapScriptsParse.Iter.nil _ _))
    (ty := t 4 .IDENT "U") (lbr := t 4 .LBRACKET "[") (rest := eofBody.drop 5) rfl rfl rfl
    (RowIter.cons (rest := eofBody.drop 10) rfl rfl
      ⟨⟨by decide, by decide, by decide, rfl, by decide, by decide, by decide, by decide⟩, rfl, rfl⟩
      (by decide) rfl (RowIter.nil _ _ _))
    _ (fun i' acc' imp' => reject_row_missing_comma {} "M" "U" 16 i' acc' imp' eofState (t 6 .IDENT "VAR_B") []
        [t 7 .EOF ""] (by decide) (by decide) (by decide) rfl (by decide))
    [] [] {}

/-- the error is reported on line 6 -/
example : ∃ e, (parseMapScriptEntries {} "M" 20 [] [] {}).run eofState = .error (.err e) ∧ e.lineStart = 6 :=
  ⟨_, rfl, rfl⟩

/-- An end of input exactly where a row should start is taken as the first token of a row and reported as a
missing `,`, located on the end-of-input token. -/
theorem eof_at_row_start (env : Env) (ms ty : String) (n i : Nat) (acc : List TableEntry) (imp : ImpData)
    (s : PState) (he : s.eof.type = .EOF) :
    (parseTableEntries env ms ty (n + 2) i acc imp).run (st s []) =
      .error (newParseError s.eof "missing ',' to specify map script table entry comparison value") := by
  have h1 : (s.eof.type == TT.COMMA) = false := by rw [he]; decide
  have h2 : (s.eof.type == TT.EOF) = true := by rw [he]; decide
  have h3 : (s.eof.type == TT.RBRACKET) = false := by rw [he]; decide
  have hc : ∀ onEOF acc', (tableCollect (fun t => t.type == .COMMA) onEOF (n + 1) acc').run (st s []) =
      .error onEOF := by
    intro onEOF acc'
    rw [tableCollect]
    rsimp [h1, h2]
  rw [parseTableEntries]
  rsimp [h3, hc]

/-- `1: L` where an entry should start — `reject_bad_type`: error on `1`. -/
example : (parseMapScriptEntries {} "M" 10 [] [] {}).run (st exState [t 3 .INT "1", t 3 .COLON ":"]) =
    .error (newParseError (t 3 .INT "1") "expected map script type, but got '1' instead") := by
  have := reject_bad_type {} "M" 9 [] [] {} (st exState [t 3 .INT "1", t 3 .COLON ":"]) (by decide) (by decide)
  exact this.trans (congrArg (fun m => Except.error (newParseError (t 3 .INT "1") m)) (by decide))

/-- `[ , 1: F` — `reject_row_empty_condition`: error on the `,`. -/
example : (parseTableEntries {} "M" "T" 10 0 [] {}).run
      (st exState [t 3 .COMMA ",", t 3 .INT "1", t 3 .COLON ":", t 3 .IDENT "F"]) =
    .error (newParseError (t 3 .COMMA ",") "expected condition for map script table entry, but it was empty") :=
  reject_row_empty_condition {} "M" "T" 9 0 [] {} exState [] (t 3 .COMMA ",") _ (by decide) (by decide)
    (by decide) rfl (by decide) rfl

/-- `[ VAR_A, 1 <end of input>` — `reject_row_missing_delim`: range error from `VAR_A` to `1`. -/
example : (parseTableEntries {} "M" "T" 10 0 [] {}).run
      (st exState [t 3 .IDENT "VAR_A", t 3 .COMMA ",", t 3 .INT "1", t 4 .EOF ""]) =
    .error (newRangeParseError (t 3 .IDENT "VAR_A") (t 3 .INT "1")
      "missing ':' or '{' to specify map script table entry") :=
  reject_row_missing_delim {} "M" "T" 9 0 [] {} exState [t 3 .IDENT "VAR_A"] (t 3 .COMMA ",") (t 3 .INT "1") []
    [t 4 .EOF ""] (by decide) (by decide) (by decide) rfl (by decide) (by decide) (by decide) (by decide) rfl
    (by decide)

/-- `[ VAR_A, : F` — `reject_row_empty_comparison`: range error from `VAR_A` to `:`. -/
example : (parseTableEntries {} "M" "T" 10 0 [] {}).run
      (st exState [t 3 .IDENT "VAR_A", t 3 .COMMA ",", t 3 .COLON ":", t 3 .IDENT "F"]) =
    .error (newRangeParseError (t 3 .IDENT "VAR_A") (t 3 .COLON ":")
      "expected comparison value for map script table entry, but it was empty") :=
  reject_row_empty_comparison {} "M" "T" 9 0 [] {} exState [t 3 .IDENT "VAR_A"] (t 3 .COMMA ",") []
    (t 3 .COLON ":") [t 3 .IDENT "F"] (by decide) (by decide) (by decide) rfl (by decide) (by decide) (by decide)
    (by decide) (Or.inl rfl) (by decide) rfl

/-- `[ VAR_A, K: ]` — `reject_row_missing_label`: error on the `]`. -/
example : (parseTableEntries {} "M" "T" 10 0 [] {}).run
      (st exState [t 3 .IDENT "VAR_A", t 3 .COMMA ",", t 3 .IDENT "K", t 3 .COLON ":", t 4 .RBRACKET "]"]) =
    .error (newParseError (t 4 .RBRACKET "]") "expected map script label after ':', but got ']' instead") := by
  have := reject_row_missing_label {} "M" "T" 9 0 [] {} exState [t 3 .IDENT "VAR_A"] (t 3 .COMMA ",")
    [t 3 .IDENT "K"] (t 3 .COLON ":") [t 4 .RBRACKET "]"]
    ⟨by decide, by decide, by decide, rfl, by decide, by decide, by decide, by decide⟩ rfl (by decide) (by decide)
    (by decide)
  exact this.trans (congrArg (fun m => Except.error (newParseError (t 4 .RBRACKET "]") m)) (by decide))

/-- `mapscripts {` — `mapscripts_missing_name`: range error from `mapscripts` to `{`. -/
example (s : PState) (tl : List Tok) :
    (parseMapscriptsStatement {} 5).run (st s (t 2 .MAPSCRIPTS "mapscripts" :: t 2 .LBRACE "{" :: tl)) =
    .error (newRangeParseError (t 2 .MAPSCRIPTS "mapscripts") (t 2 .LBRACE "{")
      "missing name for mapscripts statement") :=
  mapscripts_missing_name {} 5 s (t 2 .MAPSCRIPTS "mapscripts") .absent (t 2 .LBRACE "{") tl trivial (by decide)
    (by decide)

/-- `inline_body_is_script_body` applies: `script M_MAP_SCRIPT_ON_RESUME { lock }` has the body of the inline
entry `MAP_SCRIPT_ON_RESUME { lock }` of `mapscripts M`. -/
example : ∃ imp sb, (parseScriptStatement {} 38).run
      (st exState (t 4 .SCRIPT "script" :: t 4 .IDENT "M_MAP_SCRIPT_ON_RESUME" :: exBody.drop 4)) =
    .ok (({ tok := t 4 .SCRIPT "script", name := "M_MAP_SCRIPT_ON_RESUME", body := [cmd 0 (t 4 .IDENT "lock")],
            scope := defaultScopeOf "parseScriptStatement" }, imp), sb) :=
  ⟨_, _, inline_body_is_script_body {} 38 exState (t 4 .SCRIPT "script") (t 4 .IDENT "M_MAP_SCRIPT_ON_RESUME")
    (t 4 .LBRACE "{") (exBody.drop 5) rfl rfl ([cmd 0 (t 4 .IDENT "lock")], {}) _ rfl⟩

/-- `mapscripts (local) M L` — `mapscripts_missing_lbrace`: the range starts at the `)` of the modifier. -/
example (s : PState) (tl : List Tok) :
    (parseMapscriptsStatement {} 5).run (st s (t 2 .MAPSCRIPTS "mapscripts" :: t 2 .LPAREN "(" ::
      t 2 .LOCAL "local" :: t 2 .RPAREN ")" :: t 2 .IDENT "M" :: t 3 .IDENT "L" :: tl)) =
    .error (newRangeParseError (t 2 .RPAREN ")") (t 3 .IDENT "L") "missing opening curly brace for mapscripts 'M'") := by
  have := mapscripts_missing_lbrace {} 5 s (t 2 .MAPSCRIPTS "mapscripts")
    (.written (t 2 .LPAREN "(") (t 2 .LOCAL "local") (t 2 .RPAREN ")")) (t 2 .IDENT "M") (t 3 .IDENT "L") tl
    ⟨rfl, Or.inr rfl, rfl⟩ rfl (by decide)
  exact this.trans (congrArg (fun m => Except.error (newRangeParseError (t 2 .RPAREN ")") (t 3 .IDENT "L") m))
    (by decide))

/-! ### no duplicate check on map-script types -/

/-- `T: A  T: B }` is accepted: two entries of the same type. -/
theorem duplicate_type_accepted : ∃ imp s', (parseMapScriptEntries {} "M" 10 [] [] {}).run
      { toks := [t 3 .IDENT "T", t 3 .COLON ":", t 3 .IDENT "A", t 4 .IDENT "T", t 4 .COLON ":", t 4 .IDENT "B",
                 t 5 .RBRACE "}"], eof := t 6 .EOF "" } =
    .ok (([{ type := t 3 .IDENT "T", name := "A", script := none },
           { type := t 4 .IDENT "T", name := "B", script := none }], [], imp), s') :=
  ⟨_, _, rfl⟩

/-- Two inline entries (or tables) of the same type get the same label `<ms>_<TYPE>`. -/
theorem duplicate_type_same_label (ms : String) (ty lb ty' lb' : Tok) (b b' : List Stmt) (i i' : ImpData)
    (h : ty'.lit = ty.lit) :
    (mapScriptsOf ms [.inline ty lb b i, .inline ty' lb' b' i']).map (·.name) =
      [ms ++ "_" ++ ty.lit, ms ++ "_" ++ ty.lit] := by
  simp [mapScriptsOf, Entry.mapScript, entryName, toString, h]

end Examples

#print axioms parse_table_entries_order
#print axioms parse_table_entries_complete
#print axioms parse_mapscript_entries_order
#print axioms parse_mapscript_entries_complete
#print axioms parse_mapscripts_statement_order
#print axioms parse_mapscripts_statement_complete
#print axioms inline_body_is_script_body
#print axioms row_numbering_counts_all_rows
#print axioms mapScriptsOf_eq
#print axioms tablesOf_eq
#print axioms emitted_header_source_order
#print axioms emitted_table_source_order
#print axioms emitted_tables_source_order
#print axioms reject_bad_type
#print axioms reject_after_type
#print axioms reject_missing_label
#print axioms reject_row_missing_comma
#print axioms reject_row_empty_condition
#print axioms reject_row_missing_delim
#print axioms reject_row_empty_comparison
#print axioms reject_row_missing_label
#print axioms rejected_after_entries
#print axioms rejected_in_table
#print axioms mapscripts_missing_name
#print axioms mapscripts_missing_lbrace
#print axioms eof_at_row_start
#print axioms duplicate_type_accepted

end Pory.C08b
