import PoryProofs.Properties.C05d
import PoryProofs.AutoVarLeaves
/-
C01e — the last hypothesis of the end-to-end chain, `PreamblesPlain s.body`, discharged from the
CONFIGURATION of the parser.

`PreamblesPlain body` (PoryProofs/TableFacts.lean) says that no condition leaf of `body` carries a preamble
command `p` with `Sem.specialCmd p ≠ none`, i.e. named `end` / `return` / `goto`.  The parser attaches a
preamble to a leaf only for an AutoVar command, whose name is a key of `env.autoVars`
(PoryProofs/AutoVarLeaves.lean, `av_program_leaves`: every condition leaf of every script of a parsed program
satisfies `AVLeaf env` — for all token lists, all environments, all fuel values).  Hence:

1. `AutoVarsPlain env` — no key of `env.autoVars` is `end` / `return` / `goto` (decidable);
   `specialCmd_none_iff`, `specialCmd_none_of_name`, `specialCmd_none_of_autoVar`.
2. `parsed_preamble_names` (no hypothesis): every preamble of a condition leaf of a script of a parsed program
   is named by a key of `env.autoVars`;  `parsed_preambles_plain`: `AutoVarsPlain env → PreamblesPlain s.body`.
3. The end-to-end theorems with NO hypothesis about the AST left (from source text, `Lexer.lexAll` +
   `parseTokens`, every script of the program, either chunk order, any patches / text labels):
   * `pipeline_end_to_end_config` — the world induced by an arbitrary assembly world: finished runs correspond
     in both directions, divergence is preserved both ways, the assembly result is unique, and no assembly
     run ends in `runOff` / `stuck`.  Hypotheses: the parse succeeded, `AutoVarsPlain env`, `emitScript`
     succeeded.  Nothing else.
   * `pipeline_end_to_end_induced_config` — the statement of `C05d.pipeline_end_to_end_induced` verbatim.
   * `pipeline_end_to_end_compat_config`, `pipeline_no_runoff_config` — the statements of
     `C01d.pipeline_end_to_end` / `C01d.pipeline_no_runoff` (arbitrary `Compat`-ible pair of worlds) verbatim;
     `pipeline_end_to_end_prog_config` with the patches / text labels `emitProgram` passes.
4. `autoVarsPlain_necessary`: with `end` configured as an AutoVar command the source text
   `script S { if (end()) { a } }` parses to a program whose script violates `PreamblesPlain` — the
   hypothesis cannot be dropped.  (Evaluated by the kernel through lexer + parser, `decide +kernel`.)
5. `shipped_config_plain` (plain `decide` over the generated table `Facts.shippedAutoVarCommands`, re-checked
   on every run), `shipped_env_plain`: every environment whose AutoVar keys are the shipped ones satisfies
   `AutoVarsPlain`.
Non-vacuity: `exEnv` (the shipped command names, all with `VAR_RESULT`) and
`script S { if (checkitem(ITEM_A)) { a } }` — the leaf of the parsed `if` carries the preamble `checkitem`, all
hypotheses of `pipeline_end_to_end_config` hold (`AutoVarsPlain exEnv` by `shipped_env_plain`).
Nothing is `sorry`; nothing is partial.
-/
namespace Pory.C01e
open Pory Pory.Parser Pory.Emit Pory.Sem Pory.Asm Pory.RenderSim Pory.C01d

/-! ### 1. the configuration hypothesis -/

/-- No AutoVar command of the configuration is named `end` / `return` / `goto`. -/
def AutoVarsPlain (env : Env) : Prop := ∀ n ∈ env.autoVars.map (·.1), n ∉ ["end", "return", "goto"]

instance (env : Env) : Decidable (AutoVarsPlain env) := by
  unfold AutoVarsPlain
  exact inferInstance

/-- `specialCmd` is `some _` exactly for the command names `end`, `return`, `goto`. -/
theorem specialCmd_none_iff (c : Cmd) : specialCmd c = none ↔ c.name ∉ ["end", "return", "goto"] := by
  unfold specialCmd
  by_cases h1 : c.name = "end"
  · simp [h1]
  · by_cases h2 : c.name = "return"
    · simp [h2]
    · by_cases h3 : c.name = "goto"
      · simp [h3]
      · simp [h1, h2, h3]

theorem specialCmd_none_of_name {c : Cmd} (h : c.name ∉ ["end", "return", "goto"]) : specialCmd c = none :=
  (specialCmd_none_iff c).2 h

/-- A command named by a key of a plain configuration is an ordinary command. -/
theorem specialCmd_none_of_autoVar {env : Env} (hc : AutoVarsPlain env) {c : Cmd}
    (h : c.name ∈ env.autoVars.map (·.1)) : specialCmd c = none :=
  specialCmd_none_of_name (hc _ h)

theorem plainLeaf_of_avLeaf {env : Env} (hc : AutoVarsPlain env) (e : OpExpr) (h : AVLeaf env e) :
    PlainLeaf e := fun p hp => specialCmd_none_of_autoVar hc (h p hp)

/-! ### 2. every script of a parsed program -/

/-- **Every preamble of a condition leaf of a script of a parsed program is an AutoVar command of the
configuration** (no hypothesis on the configuration). -/
theorem parsed_preamble_names {env : Env} {toks : List Tok} {prog : Program}
    (h : parseTokens env toks = .ok prog) {s : Script} (hs : ScriptOf prog s) :
    LeavesL (AVLeaf env) s.body := by
  have hall := av_program_leaves h
  rcases hs with hs | ⟨m, hm, hs⟩
  · exact hall _ hs
  · have hm' : AvMS env m.mapScripts m.tables := hall _ hm
    rcases hs with ⟨ms, hms, he⟩ | ⟨t, ht, e, he, hes⟩
    · exact hm'.1 ms hms s he
    · exact hm'.2 t ht e he s hes

/-- **`PreamblesPlain` from the configuration**: for a configuration without AutoVar commands named
`end` / `return` / `goto`, every script of every parsed program satisfies `PreamblesPlain`. -/
theorem parsed_preambles_plain {env : Env} {toks : List Tok} {prog : Program}
    (hc : AutoVarsPlain env) (h : parseTokens env toks = .ok prog)
    {s : Script} (hs : ScriptOf prog s) : PreamblesPlain s.body :=
  C05d.leavesL_mono (plainLeaf_of_avLeaf hc) s.body (parsed_preamble_names h hs)

/-! ### 3. the end-to-end theorems, no hypothesis about the AST left -/

/-- `C01d.pipeline_end_to_end` with `PreamblesPlain` discharged: source ≈ rendered assembly for every pair
of compatible worlds. -/
theorem pipeline_end_to_end_compat_config (env : Env) (src : List Char) (prog : Program)
    (h : parseTokens env (Lexer.lexAll src) = .ok prog) (s : Script) (hs : ScriptOf prog s)
    (o : Opts) (patches : List ((Nat × Nat) × String)) (tl : List String) (ls : List Line)
    (hc : AutoVarsPlain env) (he : emitScript o patches tl s = .ok ls) :
    ∃ chunks, scriptChunks s.body = .ok chunks ∧
      ∀ (w : SWorld) (aw : AWorld), Compat o patches s.name chunks w aw →
        ∀ (regs : Spec.Regs) (sw : String),
          (∀ oc h, (∃ n, siter w n ⟨s.body, [], []⟩ = .fin oc h) →
            ∃ m oc', aiter aw ls m ⟨0, [], regs, sw⟩ = .fin oc' (rh patches h) ∧ ORel patches oc oc') ∧
          (∀ m oc' ah, aiter aw ls m ⟨0, [], regs, sw⟩ = .fin oc' ah →
            ∃ n oc h, siter w n ⟨s.body, [], []⟩ = .fin oc h ∧ ORel patches oc oc' ∧ ah = rh patches h) ∧
          ((∀ m, ∃ a', aiter aw ls m ⟨0, [], regs, sw⟩ = .next a') ↔
            (∀ n, ∃ s', siter w n ⟨s.body, [], []⟩ = .next s')) :=
  pipeline_end_to_end env src prog h s hs o patches tl ls (parsed_preambles_plain hc h hs) he

/-- … with the patches and text labels `emitProgram` really passes to `emitScript`. -/
theorem pipeline_end_to_end_prog_config (env : Env) (src : List Char) (prog : Program)
    (h : parseTokens env (Lexer.lexAll src) = .ok prog) (s : Script) (hs : ScriptOf prog s)
    (o : Opts) (ls : List Line) (hc : AutoVarsPlain env)
    (he : emitScript o prog.patches (prog.texts.map (·.name)) s = .ok ls) :
    ∃ chunks, scriptChunks s.body = .ok chunks ∧
      ∀ (w : SWorld) (aw : AWorld), Compat o prog.patches s.name chunks w aw →
        ∀ (regs : Spec.Regs) (sw : String),
          (∀ oc h, (∃ n, siter w n ⟨s.body, [], []⟩ = .fin oc h) →
            ∃ m oc', aiter aw ls m ⟨0, [], regs, sw⟩ = .fin oc' (rh prog.patches h) ∧
              ORel prog.patches oc oc') ∧
          (∀ m oc' ah, aiter aw ls m ⟨0, [], regs, sw⟩ = .fin oc' ah →
            ∃ n oc h, siter w n ⟨s.body, [], []⟩ = .fin oc h ∧ ORel prog.patches oc oc' ∧
              ah = rh prog.patches h) ∧
          ((∀ m, ∃ a', aiter aw ls m ⟨0, [], regs, sw⟩ = .next a') ↔
            (∀ n, ∃ s', siter w n ⟨s.body, [], []⟩ = .next s')) :=
  pipeline_end_to_end_compat_config env src prog h s hs o prog.patches _ ls hc he

/-- **No run-off, from source text and configuration**: `C01d.pipeline_no_runoff` with `PreamblesPlain`
discharged. -/
theorem pipeline_no_runoff_config (env : Env) (src : List Char) (prog : Program)
    (h : parseTokens env (Lexer.lexAll src) = .ok prog) (s : Script) (hs : ScriptOf prog s)
    (o : Opts) (patches : List ((Nat × Nat) × String)) (tl : List String) (ls : List Line)
    (hc : AutoVarsPlain env) (he : emitScript o patches tl s = .ok ls) :
    ∃ chunks, scriptChunks s.body = .ok chunks ∧
      ∀ (w : SWorld) (aw : AWorld), Compat o patches s.name chunks w aw →
        ∀ (regs : Spec.Regs) (sw : String) (m : Nat) (oc' : AOutcome) (ah : AHist),
          aiter aw ls m ⟨0, [], regs, sw⟩ = .fin oc' ah → oc' ≠ .runOff ∧ ∀ why, oc' ≠ .stuck why :=
  pipeline_no_runoff env src prog h s hs o patches tl ls (parsed_preambles_plain hc h hs) he

/-- `C05d.pipeline_end_to_end_induced` with `PreamblesPlain` discharged (forward + uniqueness, induced
world). -/
theorem pipeline_end_to_end_induced_config (env : Env) (src : List Char) (prog : Program)
    (h : parseTokens env (Lexer.lexAll src) = .ok prog) (s : Script) (hs : ScriptOf prog s)
    (o : Opts) (patches : List ((Nat × Nat) × String)) (tl : List String) (ls : List Line)
    (hc : AutoVarsPlain env) (he : emitScript o patches tl s = .ok ls) (aw : AWorld) :
    ∀ (oc : Outcome) (hh : Hist), (∃ n, siter (inducedWorld patches aw) n ⟨s.body, [], []⟩ = .fin oc hh) →
      ∀ (regs : Spec.Regs) (sw : String),
        (∃ m oc', aiter aw ls m ⟨0, [], regs, sw⟩ = .fin oc' (rh patches hh) ∧ ORel patches oc oc') ∧
        ∀ (m : Nat) (oc' : AOutcome) (ah : AHist),
          aiter aw ls m ⟨0, [], regs, sw⟩ = .fin oc' ah → ORel patches oc oc' ∧ ah = rh patches hh :=
  C05d.pipeline_end_to_end_induced env src prog h s hs o patches tl ls (parsed_preambles_plain hc h hs) he aw

/-- **The end-to-end theorem from source text and configuration — no hypothesis about the AST, no
hypothesis about the worlds.**  For every environment without AutoVar commands named `end` / `return` /
`goto`, every source text that lexes and parses, every script of the program, every successful
`emitScript` (either chunk order, any line-marker setting, any patches / text labels), every assembly
world `aw`, registers and switch variable: with the source world induced by `aw`
* a finished source run is matched by a finished assembly run (outcome up to `ORel`, history rendered),
* every finished assembly run comes from a finished source run,
* the assembly machine diverges iff the source machine does,
* no assembly run ends in `runOff` / `stuck`. -/
theorem pipeline_end_to_end_config (env : Env) (src : List Char) (prog : Program)
    (h : parseTokens env (Lexer.lexAll src) = .ok prog) (s : Script) (hs : ScriptOf prog s)
    (o : Opts) (patches : List ((Nat × Nat) × String)) (tl : List String) (ls : List Line)
    (hc : AutoVarsPlain env) (he : emitScript o patches tl s = .ok ls)
    (aw : AWorld) (regs : Spec.Regs) (sw : String) :
    (∀ oc hh, (∃ n, siter (inducedWorld patches aw) n ⟨s.body, [], []⟩ = .fin oc hh) →
      ∃ m oc', aiter aw ls m ⟨0, [], regs, sw⟩ = .fin oc' (rh patches hh) ∧ ORel patches oc oc') ∧
    (∀ m oc' ah, aiter aw ls m ⟨0, [], regs, sw⟩ = .fin oc' ah →
      ∃ n oc hh, siter (inducedWorld patches aw) n ⟨s.body, [], []⟩ = .fin oc hh ∧
        ORel patches oc oc' ∧ ah = rh patches hh) ∧
    ((∀ m, ∃ a', aiter aw ls m ⟨0, [], regs, sw⟩ = .next a') ↔
      (∀ n, ∃ s', siter (inducedWorld patches aw) n ⟨s.body, [], []⟩ = .next s')) ∧
    (∀ m oc' ah, aiter aw ls m ⟨0, [], regs, sw⟩ = .fin oc' ah →
      oc' ≠ .runOff ∧ ∀ why, oc' ≠ .stuck why) := by
  obtain ⟨chunks, hck, hall⟩ := pipeline_end_to_end_compat_config env src prog h s hs o patches tl ls hc he
  have C : Compat o patches s.name chunks (inducedWorld patches aw) aw :=
    compat_induced o patches s.name chunks aw
      (scriptChunks_leaves s.body chunks (C05d.parsed_leaves_wf env src prog h s hs) hck)
  obtain ⟨h1, h2, h3⟩ := hall _ aw C regs sw
  refine ⟨h1, h2, h3, ?_⟩
  intro m oc' ah hm
  obtain ⟨n, oc, hh, _, hrel, _⟩ := h2 m oc' ah hm
  constructor
  · intro e; subst e; cases oc <;> exact hrel
  · intro why e; subst e; cases oc <;> exact hrel

/-! ### 5. the shipped configuration -/

/-- The AutoVar commands of the shipped `command_config.json` (table regenerated on every check run):
none is named `end` / `return` / `goto`. -/
theorem shipped_config_plain : ∀ n ∈ Facts.shippedAutoVarCommands, n ∉ ["end", "return", "goto"] := by
  decide

/-- Every environment whose AutoVar keys are the shipped ones satisfies the configuration hypothesis. -/
theorem shipped_env_plain (env : Env) (h : env.autoVars.map (·.1) = Facts.shippedAutoVarCommands) :
    AutoVarsPlain env := by
  unfold AutoVarsPlain
  rw [h]
  exact shipped_config_plain

/-! ### 4. necessity -/

def pickScript : Top → Option Script
  | .script s => some s
  | _ => none

/-- a configuration with an AutoVar command named `end` -/
def badEnv : Env := { autoVars := [("end", { varName := "VAR_RESULT" })] }

def badSrc : List Char := "script S { if (end()) { a } }".toList

/-- the body is a single `if` whose condition is a leaf with a preamble command named `end` -/
def badBody : List Stmt → Bool
  | [.ite _ (.leaf e) _ _ _] =>
    match e.preamble with
    | some p => p.name == "end"
    | none => false
  | _ => false

def badCheck (r : Except PFail Program) : Bool :=
  match r with
  | .ok p => p.tops.any fun t =>
    match pickScript t with
    | some s => badBody s.body
    | none => false
  | .error _ => false

theorem badCheck_ok : badCheck (parseTokens badEnv (Lexer.lexAll badSrc)) = true := by decide +kernel

theorem not_plain_of_badBody {body : List Stmt} (h : badBody body = true) : ¬ PreamblesPlain body := by
  intro hp
  unfold badBody at h
  split at h
  · rename_i tok e b es el
    split at h
    · rename_i p hpre
      have hn : p.name = "end" := by simpa using h
      have hl : PlainLeaf e := by
        have h1 : LeavesS PlainLeaf (.ite tok (.leaf e) b es el) := hp.1
        rw [leavesS_ite] at h1
        exact h1.1 e (by simp [leavesOf])
      have := (specialCmd_none_iff p).1 (hl p hpre)
      rw [hn] at this
      exact this (by decide)
    · cases h
  · cases h

/-- `¬ AutoVarsPlain badEnv` — by evaluation. -/
example : ¬ AutoVarsPlain badEnv := by decide

/-- **The configuration hypothesis is necessary**: with an AutoVar command named `end` configured, the
source text `script S { if (end()) { a } }` lexes and parses to a program with a script whose body violates
`PreamblesPlain` (while all other static hypotheses of the chain hold for it, `C01d.parsed_script_hyps`). -/
theorem autoVarsPlain_necessary :
    ¬ AutoVarsPlain badEnv ∧
    ∃ prog s, parseTokens badEnv (Lexer.lexAll badSrc) = .ok prog ∧ ScriptOf prog s ∧
      ¬ PreamblesPlain s.body := by
  refine ⟨by decide, ?_⟩
  have hk := badCheck_ok
  cases hp : parseTokens badEnv (Lexer.lexAll badSrc) with
  | error e => rw [hp] at hk; cases hk
  | ok prog =>
    rw [hp] at hk
    simp only [badCheck] at hk
    obtain ⟨t, ht, hts⟩ := List.any_eq_true.1 hk
    cases t with
    | script s =>
      simp only [pickScript] at hts
      exact ⟨prog, s, rfl, .inl ht, not_plain_of_badBody hts⟩
    | raw _ _ _ => cases hts
    | text _ => cases hts
    | movement _ => cases hts
    | mart _ _ _ _ _ => cases hts
    | mapscripts _ => cases hts

/-! ### non-vacuity -/

/-- the shipped AutoVar command names, all returning their result in `VAR_RESULT` -/
def exEnv : Env := { autoVars := Facts.shippedAutoVarCommands.map fun n => (n, { varName := "VAR_RESULT" }) }

theorem exEnv_plain : AutoVarsPlain exEnv :=
  shipped_env_plain exEnv (by simp [exEnv, List.map_map, Function.comp_def])

def exSrc : List Char := "script S { if (checkitem(ITEM_A)) { a } }".toList

/-- the body is a single `if` whose condition is a leaf with a preamble command named `checkitem` -/
def exBody : List Stmt → Bool
  | [.ite _ (.leaf e) _ _ _] =>
    match e.preamble with
    | some p => p.name == "checkitem" && p.args == ["ITEM_A"]
    | none => false
  | _ => false

/-- the text parses, the script has an AutoVar leaf and is emitted (both chunk orders) -/
def exCheck (r : Except PFail Program) : Bool :=
  match r with
  | .ok p => p.tops.any fun t =>
    match pickScript t with
    | some s => exBody s.body &&
      (match emitScript { optimize := false } p.patches (p.texts.map Text.name) s with
       | .ok ls => ls.length > 3
       | .error _ => false)
    | none => false
  | .error _ => false

theorem exCheck_ok : exCheck (parseTokens exEnv (Lexer.lexAll exSrc)) = true := by decide +kernel

/-- All hypotheses of `pipeline_end_to_end_config` hold for `exEnv` / `exSrc`, a script whose `if` condition
is an AutoVar leaf (preamble `checkitem(ITEM_A)`); its conclusion holds for every assembly world. -/
example : ∃ prog s ls, parseTokens exEnv (Lexer.lexAll exSrc) = .ok prog ∧ ScriptOf prog s ∧
    exBody s.body = true ∧ AutoVarsPlain exEnv ∧
    emitScript { optimize := false } prog.patches (prog.texts.map (·.name)) s = .ok ls ∧
    PreamblesPlain s.body ∧
    ∀ (aw : AWorld) (regs : Spec.Regs) (sw : String) m oc' ah,
      aiter aw ls m ⟨0, [], regs, sw⟩ = .fin oc' ah → oc' ≠ .runOff ∧ ∀ why, oc' ≠ .stuck why := by
  have hk := exCheck_ok
  cases hp : parseTokens exEnv (Lexer.lexAll exSrc) with
  | error e => rw [hp] at hk; cases hk
  | ok prog =>
    rw [hp] at hk
    simp only [exCheck] at hk
    obtain ⟨t, ht, hts⟩ := List.any_eq_true.1 hk
    cases t with
    | script s =>
      simp only [pickScript, Bool.and_eq_true] at hts
      obtain ⟨hb, hem⟩ := hts
      cases he : emitScript { optimize := false } prog.patches (prog.texts.map Text.name) s with
      | error e => rw [he] at hem; cases hem
      | ok ls =>
        have hs : ScriptOf prog s := .inl ht
        refine ⟨prog, s, ls, rfl, hs, hb, exEnv_plain, he, parsed_preambles_plain exEnv_plain hp hs, ?_⟩
        intro aw regs sw
        exact (pipeline_end_to_end_config exEnv exSrc prog hp s hs _ _ _ ls exEnv_plain he aw regs sw).2.2.2
    | raw _ _ _ => cases hts
    | text _ => cases hts
    | movement _ => cases hts
    | mart _ _ _ _ _ => cases hts
    | mapscripts _ => cases hts

/-- non-vacuity of `parsed_preamble_names` / `parsed_preambles_plain` on a token list (no lexer) -/
example : ∀ prog s, parseTokens exEnv (Lexer.lexAll exSrc) = .ok prog → ScriptOf prog s →
    LeavesL (AVLeaf exEnv) s.body ∧ PreamblesPlain s.body :=
  fun _ _ hp hs => ⟨parsed_preamble_names hp hs, parsed_preambles_plain exEnv_plain hp hs⟩

#print axioms specialCmd_none_of_name
#print axioms parsed_preamble_names
#print axioms parsed_preambles_plain
#print axioms pipeline_end_to_end_config
#print axioms pipeline_end_to_end_induced_config
#print axioms pipeline_end_to_end_compat_config
#print axioms pipeline_no_runoff_config
#print axioms shipped_config_plain
#print axioms shipped_env_plain
#print axioms autoVarsPlain_necessary
#print axioms exCheck_ok

end Pory.C01e
