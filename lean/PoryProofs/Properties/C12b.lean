import PoryProofs.TopParse
import PoryProofs.Properties.C12
import PoryProofs.Properties.C15b
/-
C12 (text position, parser half) — "poryswitch contributes exactly the selected case and nothing
else", for `parsePoryswitchTextStatement` of the parser model.

Reference syntax (`PoryProofs/TopParse.lean`):
  `poryswitch ( IDENT ) { case* }`, case ::= `key : textvalue` | `key { textvalue }`,
  textvalue ::= `STRING` | `STRINGTYPE STRING`            (`format(...)` values are left out)
with arbitrary token records constrained only by their types.

Proved (every surrounding state, every fuel ≥ number of cases + 1):
* `selectText` : the specification of the selection — the LAST case whose key equals the `-s`
  value of the switch, else the LAST case with key `_`, else nothing;
* `parse_poryswitch_text_partial` : the result is `(formatTextTerminator lit ty, ty)` of the
  selected case — value and string type from the same case —, the parser stops on the closing
  `}` of the poryswitch, nothing else in the state changes; with no matching case and no `_`:
  error located on the `poryswitch` token when `env.envErrors`, `("", "")` otherwise.
  (`_partial`: string-literal values only; `parse_poryswitch_text_full_holds` is the same
  theorem for cases whose values are ANY token lists on which `parseTextValue` is specified —
  e.g. `format(...)` operators — `GCase`; instantiating it for `format` needs a parse∘print
  theorem for `parseFormatStringOperator`, which does not exist yet.)
* `selected_equals_textvalue_alone` : the result equals what `parseTextValue` returns on the
  selected case's value tokens alone;
* `later_duplicate_wins`, `fallback_underscore`, `selected_is_a_written_case` : properties of
  `selectText`;
* environment preconditions of `parsePoryswitchHeader`, explicit: `HeaderEnvOK env name` :=
  `env.envErrors = false ∨ (env.switches ≠ [] ∧ name is defined)`; when it fails:
  `poryswitch_text_no_switches` (error on the `poryswitch` token) and
  `poryswitch_text_undefined_switch` (error on the switch name);
* `parse_text_statement_poryswitch` : the same through `text [(mod)] Name { poryswitch … }`
  (scope as in C15b).
Every case value is parsed, also the ones not selected: all of them must be well formed
(a malformed unselected case is an error — see finding F18 for the environment-error variant).
-/
namespace Pory.C12b
open Pory Pory.Parser Pory.C02P Pory.TopParse Pory.C14b

/-- The environment lets a `poryswitch (name)` header through. -/
def HeaderEnvOK (env : Env) (name : String) : Prop :=
  env.envErrors = false ∨ (env.switches ≠ [] ∧ (env.switches.lookup name).isSome = true)

instance (env : Env) (name : String) : Decidable (HeaderEnvOK env name) := by
  unfold HeaderEnvOK; exact inferInstance

/-- The last case with the given key. -/
def lastWithKey (k : String) (cs : List TCase) : Option TCase := cs.reverse.find? (fun c => c.key == k)

/-- Which case a text poryswitch on switch `name` denotes. -/
def selectText (env : Env) (name : String) (cs : List TCase) : Option TCase :=
  match lastWithKey (swVal env name) cs with
  | some c => some c
  | none => lastWithKey "_" cs

theorem lookup_map_find {α β} (k : α → String) (f : α → β) (l : List α) (v : String) :
    (l.map fun c => (k c, f c)).lookup v = (l.find? fun c => k c == v).map f := by
  induction l with
  | nil => rfl
  | cons c r ih =>
    simp only [List.map_cons, List.lookup, List.find?]
    by_cases h : k c = v
    · simp [h]
    · have h1 : (v == k c) = false := by simpa using fun h' => h h'.symm
      have h2 : (k c == v) = false := by simpa using h
      simp [h1, h2, ih]

theorem caseTable_lookup (cs : List TCase) (v : String) :
    (caseTable cs []).lookup v = (lastWithKey v cs).map fun c => c.val.value := by
  rw [caseTable_eq, List.append_nil, ← List.map_reverse]
  exact lookup_map_find TCase.key (fun c => c.val.value) cs.reverse v

/-- The result of a text poryswitch: the selected case's value, or the "no case" outcome. -/
def textResult (env : Env) (psw x : Tok) (cs : List TCase) (s' : PState) :
    Except PFail ((String × String) × PState) :=
  match selectText env x.lit cs with
  | some c => .ok (c.val.value, s')
  | none =>
    if env.envErrors then
      .error (newParseError psw s!"no poryswitch case found for '{x.lit}={swVal env x.lit}', which was specified with the '-s' option")
    else .ok (("", ""), s')

/-- **C12, text position.** -/
theorem parse_poryswitch_text_partial (env : Env) (s : PState) (psw lp x rp lb : Tok)
    (cs : List TCase) (rb : Tok) (tl : List Tok)
    (hlp : lp.type = .LPAREN) (hx : x.type = .IDENT) (hrp : rp.type = .RPAREN)
    (hlb : lb.type = .LBRACE) (hrb : rb.type = .RBRACE) (hwf : ∀ c ∈ cs, c.WF)
    (henv : HeaderEnvOK env x.lit) (fuel : Nat) (hf : cs.length + 1 ≤ fuel) :
    (parsePoryswitchTextStatement env fuel).run
        (st s (psw :: lp :: x :: rp :: lb :: (printCases cs ++ rb :: tl))) =
      textResult env psw x cs (st s (rb :: tl)) := by
  obtain ⟨f, rfl⟩ : ∃ f, fuel = cs.length + (f + 1) := ⟨fuel - cs.length - 1, by omega⟩
  unfold parsePoryswitchTextStatement textResult selectText
  have hh := header_run env s psw lp x rp lb (printCases cs ++ rb :: tl) hlp hx hrp hlb henv
  have hc := fun stt => tcases_run env stt s cs rb tl hrb hwf [] f
  have h1 := caseTable_lookup cs (swVal env x.lit)
  have h2 := caseTable_lookup cs "_"
  cases hl1 : lastWithKey (swVal env x.lit) cs with
  | some c => simp [hh, hc, h1, hl1]
  | none =>
    cases hl2 : lastWithKey "_" cs with
    | some c => simp [hh, hc, h1, h2, hl1, hl2]
    | none =>
      cases env.envErrors <;> simp [hh, hc, h1, h2, hl1, hl2]

/-- A case whose value is any token list `vtoks` (e.g. a `format(...)` operator) on which
`parseTextValue` is known to return `res`, stopping on `last`, given `need` fuel. -/
structure GCase where
  key : Tok
  open_ : Tok
  vtoks : List Tok
  close : Option Tok      -- the `}` of a `key { value }` case
  res : String × String
  last : Tok
  need : Nat

def GCase.toks (c : GCase) : List Tok := c.key :: c.open_ :: (c.vtoks ++ c.close.toList)

/-- The full statement (values may also be `format(...)` operators): the same result for cases
whose values are arbitrary token lists on which `parseTextValue` is specified (returns `res`,
stops on `last`, needs `need` fuel). Proved below (`parse_poryswitch_text_full_holds`); what is
still missing to instantiate it with `format(...)` values is a parse∘print theorem for
`parseFormatStringOperator`. -/
def parse_poryswitch_text_full : Prop :=
  ∀ (env : Env) (s : PState) (psw lp x rp lb : Tok) (cs : List GCase) (rb : Tok) (tl : List Tok)
    (fuel : Nat),
    lp.type = .LPAREN → x.type = .IDENT → rp.type = .RPAREN → lb.type = .LBRACE → rb.type = .RBRACE →
    (∀ c ∈ cs, (c.key.type = .IDENT ∨ c.key.type = .INT) ∧
      (match c.close with
       | none => c.open_.type = .COLON
       | some r => c.open_.type = .LBRACE ∧ r.type = .RBRACE) ∧
      ∀ n s' tl', c.need ≤ n →
        (parseTextValue env n).run (st s' (c.vtoks ++ tl')) = .ok (c.res, st s' (c.last :: tl'))) →
    HeaderEnvOK env x.lit → cs.length + 1 + (cs.map (·.need)).sum ≤ fuel →
    (parsePoryswitchTextStatement env fuel).run
        (st s (psw :: lp :: x :: rp :: lb :: (cs.flatMap GCase.toks ++ rb :: tl))) =
      match (match cs.reverse.find? (fun c => c.key.lit == swVal env x.lit) with
             | some c => some c
             | none => cs.reverse.find? (fun c => c.key.lit == "_")) with
      | some c => .ok (c.res, st s (rb :: tl))
      | none =>
        if env.envErrors then
          .error (newParseError psw s!"no poryswitch case found for '{x.lit}={swVal env x.lit}', which was specified with the '-s' option")
        else .ok (("", ""), st s (rb :: tl))

/-! #### the full statement holds -/

/-- Well-formedness of a general case: key, separator / braces, and the specification of
`parseTextValue` on the value tokens. -/
def GCase.WF (env : Env) (c : GCase) : Prop :=
  (c.key.type = .IDENT ∨ c.key.type = .INT) ∧
  (match c.close with
   | none => c.open_.type = .COLON
   | some r => c.open_.type = .LBRACE ∧ r.type = .RBRACE) ∧
  ∀ n s' tl', c.need ≤ n →
    (parseTextValue env n).run (st s' (c.vtoks ++ tl')) = .ok (c.res, st s' (c.last :: tl'))

theorem gcases_step (env : Env) (stt : Tok) (n : Nat) (acc : List (String × String × String))
    (s : PState) (c : GCase) (tl : List Tok) (hwf : c.WF env) (hn : c.need ≤ n) :
    (poryswitchTextCases env stt (n + 1) acc).run (st s (c.toks ++ tl)) =
      (poryswitchTextCases env stt n ((c.key.lit, c.res) :: acc)).run (st s tl) := by
  obtain ⟨key, op, vtoks, close, res, last, need⟩ := c
  obtain ⟨hk, hcl, hspec⟩ := hwf
  simp only at hk hcl hspec hn
  rw [poryswitchTextCases]
  cases close with
  | none =>
    simp only at hcl
    have := hspec n s tl hn
    rcases hk with hk | hk <;> simp [GCase.toks, hk, hcl, this]
  | some r =>
    simp only at hcl
    have := hspec n s (r :: tl) hn
    rcases hk with hk | hk <;> simp [GCase.toks, hk, hcl.1, hcl.2, this]

def gneed (cs : List GCase) : Nat := cs.length + (cs.map (·.need)).sum

theorem gcases_run (env : Env) (stt : Tok) (s : PState) (cs : List GCase) (rb : Tok) (tl : List Tok)
    (hrb : rb.type = .RBRACE) (hwf : ∀ c ∈ cs, c.WF env) (acc : List (String × String × String))
    (f : Nat) :
    (poryswitchTextCases env stt (gneed cs + (f + 1)) acc).run
        (st s (cs.flatMap GCase.toks ++ rb :: tl)) =
      .ok ((cs.map fun c => (c.key.lit, c.res)).reverse ++ acc, st s (rb :: tl)) := by
  induction cs generalizing acc f with
  | nil => simpa [gneed] using tcases_close env stt f acc s rb tl hrb
  | cons c r ih =>
    have hlen : gneed (c :: r) + (f + 1) = (gneed r + ((c.need + f) + 1)) + 1 := by
      simp [gneed]; omega
    rw [hlen, List.flatMap_cons, List.append_assoc,
      gcases_step env stt _ acc s c _ (hwf c (by simp)) (by omega),
      ih (fun x hx => hwf x (by simp [hx]))]
    simp

theorem parse_poryswitch_text_full_holds : parse_poryswitch_text_full := by
  intro env s psw lp x rp lb cs rb tl fuel hlp hx hrp hlb hrb hwf henv hf
  have hf' : gneed cs + 1 ≤ fuel := by simp only [gneed]; omega
  obtain ⟨f, rfl⟩ : ∃ f, fuel = gneed cs + (f + 1) := ⟨fuel - gneed cs - 1, by omega⟩
  have hh := header_run env s psw lp x rp lb (cs.flatMap GCase.toks ++ rb :: tl) hlp hx hrp hlb henv
  have hc := fun stt => gcases_run env stt s cs rb tl hrb hwf [] f
  have hlk : ∀ v, ((cs.map fun c : GCase => (c.key.lit, c.res)).reverse).lookup v =
      (cs.reverse.find? fun c => c.key.lit == v).map (·.res) := by
    intro v
    rw [← List.map_reverse]
    exact lookup_map_find (fun c : GCase => c.key.lit) (·.res) cs.reverse v
  unfold parsePoryswitchTextStatement
  cases h1 : cs.reverse.find? (fun c => c.key.lit == swVal env x.lit) with
  | some c => simp [hh, hc, hlk, h1]
  | none =>
    cases h2 : cs.reverse.find? (fun c => c.key.lit == "_") with
    | some c => simp [hh, hc, hlk, h1, h2]
    | none => cases env.envErrors <;> simp [hh, hc, hlk, h1, h2]

/-- Non-vacuity of the general form: string-literal cases are instances. -/
def toG : TCase → GCase
  | .colon key c v => ⟨key, c, v.toks, none, v.value, v.str, 0⟩
  | .brace key lb v rb => ⟨key, lb, v.toks, some rb, v.value, v.str, 0⟩

theorem toG_wf (env : Env) (c : TCase) (h : c.WF) : (toG c).WF env := by
  cases c with
  | colon key cl v =>
    exact ⟨h.1, h.2.1, fun n s' tl' _ => textValue_run env n s' v tl' h.2.2⟩
  | brace key lb v rb =>
    exact ⟨h.1, ⟨h.2.1, h.2.2.2⟩, fun n s' tl' _ => textValue_run env n s' v tl' h.2.2.1⟩

theorem toG_toks (c : TCase) : (toG c).toks = c.toks := by
  cases c <;> simp [toG, GCase.toks, TCase.toks]

/-- The selected case is one of the written cases, with key the switch value or `_`. -/
theorem selected_is_a_written_case (env : Env) (name : String) (cs : List TCase) (c : TCase)
    (h : selectText env name cs = some c) :
    c ∈ cs ∧ (c.key = swVal env name ∨ c.key = "_") := by
  unfold selectText at h
  cases h1 : lastWithKey (swVal env name) cs with
  | some c1 =>
    simp [h1] at h; subst h
    unfold lastWithKey at h1
    have := List.find?_some h1
    have hm := List.mem_of_find?_eq_some h1
    exact ⟨by simpa using hm, Or.inl (by simpa using this)⟩
  | none =>
    simp [h1] at h
    unfold lastWithKey at h
    have := List.find?_some h
    have hm := List.mem_of_find?_eq_some h
    exact ⟨by simpa using hm, Or.inr (by simpa using this)⟩

/-- Later duplicates win: a case appended at the end with the switch value as key is the one
selected, whatever came before. -/
theorem later_duplicate_wins (env : Env) (name : String) (cs : List TCase) (c : TCase)
    (h : c.key = swVal env name) : selectText env name (cs ++ [c]) = some c := by
  simp [selectText, lastWithKey, h]

/-- `_` is used only when no case matches the switch value. -/
theorem fallback_underscore (env : Env) (name : String) (cs : List TCase)
    (h : ∀ c ∈ cs, c.key ≠ swVal env name) : selectText env name cs = lastWithKey "_" cs := by
  have : lastWithKey (swVal env name) cs = none := by
    unfold lastWithKey
    rw [List.find?_eq_none]
    intro c hc
    simpa using h c (by simpa using hc)
  simp [selectText, this]

/-- Value and string type come from the same (selected) case, and are exactly what
`parseTextValue` returns on that case's value tokens alone. -/
theorem selected_equals_textvalue_alone (env : Env) (s : PState) (psw lp x rp lb : Tok)
    (cs : List TCase) (rb : Tok) (tl : List Tok)
    (hlp : lp.type = .LPAREN) (hx : x.type = .IDENT) (hrp : rp.type = .RPAREN)
    (hlb : lb.type = .LBRACE) (hrb : rb.type = .RBRACE) (hwf : ∀ c ∈ cs, c.WF)
    (henv : HeaderEnvOK env x.lit) (fuel : Nat) (hf : cs.length + 1 ≤ fuel)
    (c : TCase) (hsel : selectText env x.lit cs = some c) (s0 : PState) (tl0 : List Tok) (f0 : Nat) :
    ∃ r s1 s2,
      (parsePoryswitchTextStatement env fuel).run
        (st s (psw :: lp :: x :: rp :: lb :: (printCases cs ++ rb :: tl))) = .ok (r, s1) ∧
      (parseTextValue env f0).run (st s0 (c.val.toks ++ tl0)) = .ok (r, s2) ∧
      r = (formatTextTerminator c.val.str.lit c.val.strType, c.val.strType) := by
  have hc : c.val.WF := by
    have := hwf c (selected_is_a_written_case env x.lit cs c hsel).1
    cases c with
    | colon k cl v => exact this.2.2
    | brace k l v r => exact this.2.2.1
  refine ⟨c.val.value, st s (rb :: tl), st s0 (c.val.str :: tl0), ?_,
    textValue_run env f0 s0 c.val tl0 hc, rfl⟩
  rw [parse_poryswitch_text_partial env s psw lp x rp lb cs rb tl hlp hx hrp hlb hrb hwf henv fuel hf]
  simp [textResult, hsel]

/-- No matching case and no `_`, environment errors on: error located on the `poryswitch` token. -/
theorem no_case_error (env : Env) (s : PState) (psw lp x rp lb : Tok)
    (cs : List TCase) (rb : Tok) (tl : List Tok)
    (hlp : lp.type = .LPAREN) (hx : x.type = .IDENT) (hrp : rp.type = .RPAREN)
    (hlb : lb.type = .LBRACE) (hrb : rb.type = .RBRACE) (hwf : ∀ c ∈ cs, c.WF)
    (henv : HeaderEnvOK env x.lit) (fuel : Nat) (hf : cs.length + 1 ≤ fuel)
    (hnone : ∀ c ∈ cs, c.key ≠ swVal env x.lit ∧ c.key ≠ "_") :
    (parsePoryswitchTextStatement env fuel).run
        (st s (psw :: lp :: x :: rp :: lb :: (printCases cs ++ rb :: tl))) =
      if env.envErrors then
        .error (newParseError psw s!"no poryswitch case found for '{x.lit}={swVal env x.lit}', which was specified with the '-s' option")
      else .ok (("", ""), st s (rb :: tl)) := by
  rw [parse_poryswitch_text_partial env s psw lp x rp lb cs rb tl hlp hx hrp hlb hrb hwf henv fuel hf]
  have h1 : selectText env x.lit cs = none := by
    rw [fallback_underscore env x.lit cs (fun c hc => (hnone c hc).1)]
    unfold lastWithKey
    rw [List.find?_eq_none]
    intro c hc
    simpa using (hnone c (by simpa using hc)).2
  simp [textResult, h1]

/-! ### when the environment precondition fails -/

theorem headerEnvOK_iff (env : Env) (name : String) :
    ¬ HeaderEnvOK env name ↔
      env.envErrors = true ∧ (env.switches = [] ∨ env.switches.lookup name = none) := by
  unfold HeaderEnvOK
  cases env.envErrors <;> cases h : env.switches.lookup name <;> simp

theorem poryswitch_text_no_switches (env : Env) (s : PState) (psw : Tok) (tl : List Tok) (fuel : Nat)
    (he : env.envErrors = true) (hs : env.switches = []) :
    (parsePoryswitchTextStatement env fuel).run (st s (psw :: tl)) =
      .error (newParseError psw
        "poryswitch used, but no compile switches were specified with the '-s' option") := by
  unfold parsePoryswitchTextStatement
  simp [header_no_switches env s psw tl he hs]

theorem poryswitch_text_undefined_switch (env : Env) (s : PState) (psw lp x : Tok) (tl : List Tok)
    (fuel : Nat) (hlp : lp.type = .LPAREN) (hx : x.type = .IDENT)
    (he : env.envErrors = true) (hs : env.switches ≠ []) (hl : env.switches.lookup x.lit = none) :
    (parsePoryswitchTextStatement env fuel).run (st s (psw :: lp :: x :: tl)) =
      .error (newParseError x s!"no poryswitch for '{x.lit}' was specified with the '-s' option") := by
  unfold parsePoryswitchTextStatement
  simp [header_undefined_switch env s psw lp x tl hlp hx he hs hl]

/-! ### through the text statement -/

open Pory.C15b in
/-- `text [(mod)] Name { poryswitch (X) { … } }`: the text gets the selected case's value and
string type (and the written / default scope). -/
theorem parse_text_statement_poryswitch (env : Env) (s : PState) (kw : Tok) (md : Mod)
    (name tlb psw lp x rp lb : Tok) (cs : List TCase) (rb trb : Tok) (rest : List Tok)
    (hmd : md.WF) (hname : name.type = .IDENT) (htlb : tlb.type = .LBRACE)
    (hpsw : psw.type = .PORYSWITCH)
    (hlp : lp.type = .LPAREN) (hx : x.type = .IDENT) (hrp : rp.type = .RPAREN)
    (hlb : lb.type = .LBRACE) (hrb : rb.type = .RBRACE) (htrb : trb.type = .RBRACE)
    (hwf : ∀ c ∈ cs, c.WF) (henv : HeaderEnvOK env x.lit) (fuel : Nat) (hf : cs.length + 1 ≤ fuel)
    (c : TCase) (hsel : selectText env x.lit cs = some c) :
    (parseTextStatement env fuel).run
        (st s (kw :: (md.toks ++ name :: tlb :: psw :: lp :: x :: rp :: lb ::
          (printCases cs ++ rb :: trb :: rest)))) =
      .ok (.text (mkText kw name (md.scope (defaultScopeOf "parseTextStatement")) c.val.value),
           { st s (trb :: rest) with textStatements := s.textStatements ++
               [mkText kw name (md.scope (defaultScopeOf "parseTextStatement")) c.val.value] }) := by
  refine parse_text_statement_gen env fuel s kw md name tlb _ hmd hname htlb c.val.value rb trb rest
    htrb ?_
  simp only [List.headD_cons, hpsw, if_true]
  rw [parse_poryswitch_text_partial env s psw lp x rp lb cs rb (trb :: rest) hlp hx hrp hlb hrb hwf
    henv fuel hf]
  simp [textResult, hsel]

/-! ### non-vacuity -/

/-- `poryswitch (GAME) { RUBY: "Ruby"  EMERALD { braille "A" }  _: "Other"  EMERALD: ascii "E" }`
with `-s GAME=EMERALD`: the LAST `EMERALD` case, value and type together. -/
def exCases : List TCase :=
  [.colon (tk .IDENT "RUBY") (tk .COLON ":") (.plain (tk .STRING "Ruby")),
   .brace (tk .IDENT "EMERALD") (tk .LBRACE "{") (.typed (tk .STRINGTYPE "braille") (tk .STRING "A"))
     (tk .RBRACE "}"),
   .colon (tk .IDENT "_") (tk .COLON ":") (.plain (tk .STRING "Other")),
   .colon (tk .IDENT "EMERALD") (tk .COLON ":") (.typed (tk .STRINGTYPE "ascii") (tk .STRING "E"))]

theorem exCases_wf : ∀ c ∈ exCases, c.WF := by
  intro c hc
  simp [exCases] at hc
  rcases hc with rfl | rfl | rfl | rfl <;> simp [TCase.WF, TextVal.WF]

example (s : PState) (rest : List Tok) :
    (parsePoryswitchTextStatement exEnv 5).run
        (st s (tk .PORYSWITCH "poryswitch" :: tk .LPAREN "(" :: tk .IDENT "GAME" :: tk .RPAREN ")" ::
          tk .LBRACE "{" :: (printCases exCases ++ tk .RBRACE "}" :: rest))) =
      .ok ((formatTextTerminator "E" "ascii", "ascii"), st s (tk .RBRACE "}" :: rest)) := by
  have := parse_poryswitch_text_partial exEnv s (tk .PORYSWITCH "poryswitch") (tk .LPAREN "(")
    (tk .IDENT "GAME") (tk .RPAREN ")") (tk .LBRACE "{") exCases (tk .RBRACE "}") rest rfl rfl rfl rfl
    rfl exCases_wf (by decide) 5 (by decide)
  rw [this]
  have : selectText exEnv "GAME" exCases = some (.colon (tk .IDENT "EMERALD") (tk .COLON ":")
      (.typed (tk .STRINGTYPE "ascii") (tk .STRING "E"))) := by decide
  simp [textResult, this, TCase.val, TextVal.value, TextVal.str, TextVal.strType]

/-- With `-s GAME=SAPPHIRE`: the `_` case. Without `_` and with environment errors: an error. -/
example : (selectText { switches := [("GAME", "SAPPHIRE")] } "GAME" exCases).map (·.val.value) =
    some (formatTextTerminator "Other" "", "") := by decide

example : selectText { switches := [("GAME", "SAPPHIRE")] } "GAME" (exCases.take 2) = none := by decide

example : HeaderEnvOK exEnv "GAME" ∧ ¬ HeaderEnvOK exEnv "OTHER" ∧ ¬ HeaderEnvOK {} "GAME" ∧
    HeaderEnvOK { envErrors := false } "GAME" := by decide

end Pory.C12b
