import PoryProofs.LabelUnique
/-
C04d — C04's uniqueness clause in SOURCE vocabulary, and finding F25 as a theorem.
(C04: "In the output of every accepted program whose user-chosen names do not imitate generated names, every
label is defined exactly once, …, every label the author wrote inside a script is still there exactly once even
when it sits in unreachable code".)  Helper module: PoryProofs/LabelUnique.lean.

How C04c's side conditions treat label statements.  `C04c.NamesDistinct p` is `(declaredNames p ++ textNames
p).Nodup`, where `declaredNames` lists, per script (top-level or inline), `s.name :: userLabelsOf s`, and
`userLabelsOf s` reads the label statements OFF THE CHUNK TABLE of `scriptChunks s.body` (`[]` when the worklist
rejects the body).  So user labels ARE part of `NamesDistinct`, but in chunk-table vocabulary; `NoImitation o p`
mentions the same list.  Here both are restated on `declaredNamesSrc p`: the names of the top-level statements
(scripts, movements, marts, mapscripts statements, their inline scripts and tables) together with
`(labelStmtsOf s.body).map (·.1)` of every script — `labelStmtsOf` (C15d) is a plain recursive function of the AST,
every `Stmt.label` at any depth, dead code included.  The text names are `p.texts.map (·.name)` (the text table of
the program: `text` statements and hoisted texts), as in C04c.

Everything below is proved in full; nothing is `_partial`.

1. `SourceNamesDistinct p` (decidable): `(declaredNamesSrc p ++ textNames p).Nodup`.
   `NoImitationSrc o p` (decidable): no generated sub-label the output defines (`C04c.programSubLabels o p` — this
   list is inherently about the generated labels `<script>_<d>`, it is not a user-vocabulary object) is in
   `declaredNamesSrc p ++ textNames p`.  `NoImitationSynSrc p` (decidable, a function of the source alone): no
   declared / text name reads `<script name>_<digits>`; `noImitationSrc_of_syntactic`.
   `names_distinct_iff`, `noImitation_iff`: for every program all of whose scripts have a chunk table — in
   particular every program the emitter accepts, `…_of_accepted` — the source predicates are EQUIVALENT to C04c's
   (`declaredNames p ~ declaredNamesSrc p`, from C15d's census `label_names_census`).
2. `program_labels_defined_once_source`: accepted + `SourceNamesDistinct` + `NoImitationSrc` ⇒ the names of the label
   lines of the output are `Nodup`, every label line's name has `defCount ls n = 1`, and no name has two.
3. `source_label_defined_once`: under the same conditions every `(n, g) ∈ labelStmtsOf s.body`, `s` any script of
   the program (top-level or inline), has its line `Line.labelDef n g` in the WHOLE output, `defCount ls n = 1`,
   the pair `(n, g)` occurs once among the label lines, and every label line named `n` carries the flag `g`.
   Non-vacuity on `deadProg`: labels after `break`, `continue`, a user `goto`, a mid-block `end` and inside an
   inline map script.
3b. The converse (PoryProofs/LabelUnique.lean §4, from C15d `script_label_lines_perm`): `label_names_perm`: the names
   of the label lines of an accepted program are, as a multiset, `declaredNamesSrc p ++ programSubLabels o p ++
   textNames p`; `defCount_source`: `defCount ls n` = occurrences of `n` among the written names + among the
   registered sub-labels + among the text names; hence `labels_unique_iff`: for an accepted program the label-line
   names are `Nodup` IF AND ONLY IF `SourceNamesDistinct p ∧ NoImitationSrc o p` — the two side conditions are
   exactly what uniqueness needs; `duplicate_of_not_distinct` (necessity of (a) for every accepted program).
4. Necessity, F25: `f25` = `script S { a L: b L: c }` and `f25g` = `script S { a L: if (flag(F)) { L(global): } c }`
   are accepted (AST level and through the parser: `f25_compiled`, `f25g_compiled`), the output defines `L` twice
   (`f25_defCount`; `f25_any_opts`: at least twice under ANY options that accept it), `SourceNamesDistinct` is false, `NoImitationSrc` / `NoImitationSynSrc` hold, and `L` is the
   only repeated name.  The emitter checks a label statement against the chunk labels of its script and the text
   labels (`C15d.label_statement_fresh`), never against the other label statements.

Observation: nothing new beyond F25 (already recorded by C15d `duplicate_label_statement`); the equivalence of item 1
shows that C04c's chunk-table conditions and the source conditions are interchangeable for accepted programs, so
F23 / F25 / the imitation witness of C04c are exactly the three ways the hypotheses can fail.
-/
namespace Pory.C04d
open Pory Pory.Parser Pory.Emit Pory.RenderSim Pory.C04c Pory.C15c Pory.C15d

/-! ## 1. the side conditions in source vocabulary -/

/-- (a) in source vocabulary: the names of the top-level statements (scripts, movements, marts, mapscripts
statements with their tables and inline scripts), the names of ALL label statements written in the script bodies
(`labelStmtsOf`), and the text names are pairwise distinct. -/
def SourceNamesDistinct (p : Program) : Prop := (declaredNamesSrc p ++ textNames p).Nodup

instance (p : Program) : Decidable (SourceNamesDistinct p) := by unfold SourceNamesDistinct; infer_instance

/-- (b) in source vocabulary: no generated sub-label `<script>_<d>` that the output defines is a name the author
wrote or a text name. -/
def NoImitationSrc (o : Opts) (p : Program) : Prop :=
  ∀ x ∈ programSubLabels o p, x ∉ declaredNamesSrc p ++ textNames p

instance (o : Opts) (p : Program) : Decidable (NoImitationSrc o p) := by unfold NoImitationSrc; infer_instance

/-- The syntactic form of (b): no written name and no text name reads `<script name>_<digits>`. -/
def NoImitationSynSrc (p : Program) : Prop :=
  ∀ n ∈ declaredNamesSrc p ++ textNames p, ∀ s ∈ scriptsOf p, isSubLabelOf s.name n = false

instance (p : Program) : Decidable (NoImitationSynSrc p) := by unfold NoImitationSynSrc; infer_instance

theorem noImitationSrc_of_syntactic (o : Opts) (p : Program) (h : NoImitationSynSrc p) : NoImitationSrc o p := by
  intro x hx hmem
  unfold programSubLabels at hx
  obtain ⟨s, hs, hxs⟩ := List.mem_flatMap.1 hx
  obtain ⟨d, _, rfl⟩ := mem_subLabelsOf hxs
  have := h _ hmem s hs
  rw [isSubLabelOf_jumpLabel] at this
  cases this

/-- **names_distinct_iff**: when every script has a chunk table, C04c's (a) is the source-level (a). -/
theorem names_distinct_iff (p : Program) (h : ChunksOk p) : NamesDistinct p ↔ SourceNamesDistinct p :=
  (declaredAll_perm p h).nodup_iff

/-- **noImitation_iff**: … and C04c's (b) is the source-level (b). -/
theorem noImitation_iff (o : Opts) (p : Program) (h : ChunksOk p) : NoImitation o p ↔ NoImitationSrc o p := by
  unfold NoImitation NoImitationSrc
  exact forall_congr' fun x => imp_congr_right fun _ => not_congr (declaredAll_perm p h).mem_iff

theorem noImitationSyn_iff (p : Program) (h : ChunksOk p) : NoImitationSyn p ↔ NoImitationSynSrc p := by
  unfold NoImitationSyn NoImitationSynSrc
  constructor
  · intro H n hn; exact H n ((declaredAll_perm p h).mem_iff.2 hn)
  · intro H n hn; exact H n ((declaredAll_perm p h).mem_iff.1 hn)

/-- For every program the emitter accepts. -/
theorem names_distinct_iff_of_accepted (o : Opts) (p : Program) (ls : List Line)
    (h : emitProgram o p = .ok ls) : NamesDistinct p ↔ SourceNamesDistinct p :=
  names_distinct_iff p (chunksOk_of_accepted o p ls h)

theorem noImitation_iff_of_accepted (o : Opts) (p : Program) (ls : List Line)
    (h : emitProgram o p = .ok ls) : NoImitation o p ↔ NoImitationSrc o p :=
  noImitation_iff o p (chunksOk_of_accepted o p ls h)

/-! ## 2. every label is defined exactly once -/

/-- **program_labels_defined_once_source**: in the output of an accepted program whose written names are
pairwise distinct and are not imitated by a generated sub-label, no two label lines carry the same name: the
list of label-line names is duplicate-free, every label line's name is defined exactly once. -/
theorem program_labels_defined_once_source (o : Opts) (p : Program) (ls : List Line)
    (h : emitProgram o p = .ok ls) (ha : SourceNamesDistinct p) (hb : NoImitationSrc o p) :
    ((labelsOf ls).map (·.1)).Nodup ∧
      (∀ n g, Line.labelDef n g ∈ ls → defCount ls n = 1) ∧ ∀ n, defCount ls n ≤ 1 := by
  have hn : (programLabels o p).Nodup :=
    nodup_of_parts o p ((names_distinct_iff_of_accepted o p ls h).2 ha)
      ((noImitation_iff_of_accepted o p ls h).2 hb)
  obtain ⟨h1, h2⟩ := program_labels_defined_once o p ls h hn
  refine ⟨?_, h1, h2⟩
  rw [label_names_of_program o p ls h]
  exact hn

/-! ## 3. every label the author wrote is there exactly once -/

/-- **source_label_defined_once**: under the same conditions, every label statement `(n, g)` written in the body
of a script of the program (top-level or inline; any depth; dead code after `break` / `continue` / `goto` / `end`
included) has exactly one label line in the WHOLE output, and that line carries the flag `g`. -/
theorem source_label_defined_once (o : Opts) (p : Program) (ls : List Line)
    (h : emitProgram o p = .ok ls) (ha : SourceNamesDistinct p) (hb : NoImitationSrc o p)
    (s : Script) (hs : s ∈ scriptsOf p) (n : String) (g : Bool) (hm : (n, g) ∈ labelStmtsOf s.body) :
    Line.labelDef n g ∈ ls ∧ defCount ls n = 1 ∧ (labelsOf ls).count (n, g) = 1 ∧
      ∀ g', Line.labelDef n g' ∈ ls → g' = g := by
  obtain ⟨hnd, h1, _⟩ := program_labels_defined_once_source o p ls h ha hb
  obtain ⟨l, hl, hsub⟩ := script_accepted o p ls h s hs
  have hin : Line.labelDef n g ∈ ls := hsub _ (label_statement_line o p.patches _ s l hl n g hm)
  have hmem : (n, g) ∈ labelsOf ls := (labelDef_mem_iff ls n g).1 hin
  refine ⟨hin, h1 n g hin, ?_, ?_⟩
  · have hnd' : (labelsOf ls).Nodup := by
      have h2 := hnd
      unfold List.Nodup at h2 ⊢
      rw [List.pairwise_map] at h2
      exact h2.imp (fun hab e => hab (by rw [e]))
    rw [hnd'.count, if_pos hmem]
  · intro g' hg'
    exact nodup_fst_unique (labelsOf ls) hnd n g' g ((labelDef_mem_iff ls n g').1 hg') hmem

/-! ## 3b. the converse: the two side conditions are exactly what uniqueness needs -/

/-- **label_names_perm**: the names of the label lines of the output of an accepted program are, as a multiset,
the names the author wrote, the generated sub-labels that are laid out and registered, and the text names. -/
theorem label_names_perm (o : Opts) (p : Program) (ls : List Line) (h : emitProgram o p = .ok ls) :
    ((labelsOf ls).map (·.1)).Perm (declaredNamesSrc p ++ programSubLabels o p ++ textNames p) := by
  rw [label_names_of_program o p ls h]
  exact programLabels_perm o p ls h

/-- **defCount_source**: how often the output of an accepted program defines `n` — F23, F25 and the imitation
clash of C04c in one formula. -/
theorem defCount_source (o : Opts) (p : Program) (ls : List Line) (h : emitProgram o p = .ok ls) (n : String) :
    defCount ls n =
      (declaredNamesSrc p).count n + (programSubLabels o p).count n + (textNames p).count n := by
  rw [defCount_eq, label_names_of_program o p ls h]
  exact count_programLabels_eq o p ls h n

/-- **labels_unique_iff**: for an accepted program, "no label name is defined twice" holds IF AND ONLY IF the
written names are pairwise distinct and no generated sub-label imitates one of them. -/
theorem labels_unique_iff (o : Opts) (p : Program) (ls : List Line) (h : emitProgram o p = .ok ls) :
    ((labelsOf ls).map (·.1)).Nodup ↔ SourceNamesDistinct p ∧ NoImitationSrc o p := by
  constructor
  · intro hn
    have hc : ∀ a, (declaredNamesSrc p).count a + (programSubLabels o p).count a + (textNames p).count a ≤ 1 := by
      intro a
      have := List.nodup_iff_count.1 hn a
      rw [label_names_of_program o p ls h, count_programLabels_eq o p ls h a] at this
      exact this
    constructor
    · unfold SourceNamesDistinct
      rw [List.nodup_iff_count]
      intro a
      have := hc a
      rw [List.count_append]
      omega
    · intro x hx hm
      have h1 : 0 < (programSubLabels o p).count x := List.count_pos_iff.2 hx
      have h2 : 0 < (declaredNamesSrc p ++ textNames p).count x := List.count_pos_iff.2 hm
      rw [List.count_append] at h2
      have := hc x
      omega
  · intro ⟨ha, hb⟩
    exact (program_labels_defined_once_source o p ls h ha hb).1

/-- Necessity of (a): an accepted program whose written names are not pairwise distinct defines some name
twice. -/
theorem duplicate_of_not_distinct (o : Opts) (p : Program) (ls : List Line) (h : emitProgram o p = .ok ls)
    (hna : ¬ SourceNamesDistinct p) : ¬ ((labelsOf ls).map (·.1)).Nodup :=
  fun hn => hna ((labels_unique_iff o p ls h).1 hn).1

/-! ## 4. examples -/

/-- `emitProgram` on a program known (by evaluation) to be accepted. -/
def linesOf (o : Opts) (p : Program) : List Line := match emitProgram o p with | .ok ls => ls | .error _ => []

theorem linesOf_ok (o : Opts) (p : Program) (hok : (emitProgram o p).isOk = true) :
    emitProgram o p = .ok (linesOf o p) := by
  unfold linesOf
  cases h : emitProgram o p with
  | ok ls => rfl
  | error e => rw [h] at hok; cases hok

/-- ```
script S {
  while (flag(F)) { a break AfterBreak: b }
  while (flag(G)) { continue AfterCont(global): }
  goto(Elsewhere) AfterGoto: c
  end AfterEnd: d
}
mapscripts M { ON_LOAD { if (flag(F)) { InlineLbl(global): } end } }
movement Mv { walk_up }
text T { "hi$" }
``` -/
def deadS : Script :=
  { name := "S", scope := .GLOBAL,
    body := [ .while_ {} 1 (some (.leaf (flagE "F")))
                [cmdS 1 "a", .brk {} 1, .label {} "AfterBreak" false, cmdS 2 "b"],
              .while_ {} 2 (some (.leaf (flagE "G"))) [.cont {} 2, .label {} "AfterCont" true],
              cmdS 3 "goto" ["Elsewhere"], .label {} "AfterGoto" false, cmdS 4 "c",
              cmdS 5 "end", .label {} "AfterEnd" false, cmdS 6 "d" ] }

def deadProg : Program :=
  { tops := [ .script deadS, .movement { name := "Mv", cmds := [{ lit := "walk_up" }] },
              .mapscripts
                { tok := {}, name := "M", scope := .GLOBAL,
                  mapScripts := [ ⟨{ lit := "ON_LOAD" }, "M_OnLoad", some C15d.inl⟩ ], tables := [] },
              .text { name := "T", value := "hi$" } ],
    texts := [ { name := "T", value := "hi$", isGlobal := true } ] }

theorem dead_labelStmts : labelStmtsOf deadS.body =
    [("AfterBreak", false), ("AfterCont", true), ("AfterGoto", false), ("AfterEnd", false)] := by decide

theorem dead_declared : declaredNamesSrc deadProg ++ textNames deadProg =
    ["S", "AfterBreak", "AfterCont", "AfterGoto", "AfterEnd", "Mv", "M", "M_OnLoad", "InlineLbl", "T"] := by
  decide

theorem dead_emit : emitProgram oN deadProg = .ok (linesOf oN deadProg) := linesOf_ok _ _ (by decide)
theorem dead_distinct : SourceNamesDistinct deadProg := by decide
theorem dead_noImitation : NoImitationSrc oN deadProg := by decide
example : NoImitationSynSrc deadProg := by decide
example : NamesDistinct deadProg ∧ NoImitation oN deadProg :=
  ⟨(names_distinct_iff_of_accepted _ _ _ dead_emit).2 dead_distinct,
   (noImitation_iff_of_accepted _ _ _ dead_emit).2 dead_noImitation⟩

/-- the label lines of the output, computed: every label statement once; the dead ones sit in unlabelled chunks -/
theorem dead_labelLines : labelsOf (linesOf oN deadProg) =
    [("S", true), ("S_1", false), ("S_2", false), ("S_3", false), ("S_4", false), ("S_5", false),
     ("AfterGoto", false), ("AfterEnd", false), ("S_6", false), ("S_7", false), ("S_8", false),
     ("AfterBreak", false), ("AfterCont", true), ("Mv", false), ("M", true), ("M_OnLoad", false),
     ("M_OnLoad_1", false), ("M_OnLoad_2", false), ("InlineLbl", true), ("M_OnLoad_3", false), ("T", true)] := by
  decide

example := program_labels_defined_once_source oN deadProg _ dead_emit dead_distinct dead_noImitation

theorem deadS_mem : deadS ∈ scriptsOf deadProg := by simp [scriptsOf, deadProg, topScripts]
theorem inl_mem : C15d.inl ∈ scriptsOf deadProg := by simp [scriptsOf, deadProg, topScripts, optScripts]

/-- the label after `break` -/
example : Line.labelDef "AfterBreak" false ∈ linesOf oN deadProg ∧ defCount (linesOf oN deadProg) "AfterBreak" = 1 ∧
    (labelsOf (linesOf oN deadProg)).count ("AfterBreak", false) = 1 ∧
    ∀ g', Line.labelDef "AfterBreak" g' ∈ linesOf oN deadProg → g' = false :=
  source_label_defined_once oN deadProg _ dead_emit dead_distinct dead_noImitation deadS deadS_mem _ _ (by decide)
/-- the `(global)` label after `continue` -/
example := source_label_defined_once oN deadProg _ dead_emit dead_distinct dead_noImitation deadS deadS_mem
  "AfterCont" true (by decide)
/-- after a user `goto`, after a mid-block `end` -/
example := source_label_defined_once oN deadProg _ dead_emit dead_distinct dead_noImitation deadS deadS_mem
  "AfterGoto" false (by decide)
example := source_label_defined_once oN deadProg _ dead_emit dead_distinct dead_noImitation deadS deadS_mem
  "AfterEnd" false (by decide)
/-- nested in the `if` of an inline map script -/
example := source_label_defined_once oN deadProg _ dead_emit dead_distinct dead_noImitation C15d.inl inl_mem
  "InlineLbl" true (by decide)

/-! ### F25: a label name written twice in one script body is accepted -/

/-- `script S { a L: b L: c }` -/
def f25 : Program :=
  { tops := [ .script { name := "S", body := [cmdS 1 "a", .label {} "L" false, cmdS 2 "b", .label {} "L" false,
                                              cmdS 3 "c"] } ] }

/-- `script S { a L: if (flag(F)) { L(global): } c }` — the second `L` is `(global)`, inside an `if` -/
def f25g : Program :=
  { tops := [ .script { name := "S", body := [cmdS 1 "a", .label {} "L" false,
                                              .ite {} (.leaf (flagE "F")) [.label {} "L" true] [] none,
                                              cmdS 3 "c"] } ] }

theorem f25_accepted : emitProgram oN f25 = .ok (linesOf oN f25) := linesOf_ok _ _ (by decide)
theorem f25g_accepted : emitProgram oN f25g = .ok (linesOf oN f25g) := linesOf_ok _ _ (by decide)

theorem f25_labelLines : labelsOf (linesOf oN f25) = [("S", true), ("L", false), ("L", false)] := by decide
theorem f25g_labelLines : labelsOf (linesOf oN f25g) =
    [("S", true), ("L", false), ("S_1", false), ("S_2", false), ("L", true), ("S_3", false)] := by decide

/-- **f25_duplicate**: the output defines `L` twice. -/
theorem f25_defCount : defCount (linesOf oN f25) "L" = 2 ∧ defCount (linesOf oN f25g) "L" = 2 := by decide
theorem f25_duplicate : ¬ (programLabels oN f25).Nodup ∧ ¬ (programLabels oN f25g).Nodup := by decide
theorem f25_lines_duplicate :
    ¬ ((labelsOf (linesOf oN f25)).map (·.1)).Nodup ∧ ¬ ((labelsOf (linesOf oN f25g)).map (·.1)).Nodup := by
  decide
/-- in the variant, `L` is defined once local and once exported -/
theorem f25g_flags : Line.labelDef "L" false ∈ linesOf oN f25g ∧ Line.labelDef "L" true ∈ linesOf oN f25g := by
  decide

/-- `SourceNamesDistinct` fails (and so does C04c's `NamesDistinct`) … -/
theorem f25_not_distinct : ¬ SourceNamesDistinct f25 ∧ ¬ SourceNamesDistinct f25g := by decide
theorem f25_not_distinct_C04c : ¬ NamesDistinct f25 ∧ ¬ NamesDistinct f25g := by decide
/-- … `L` written twice is the only repetition … -/
theorem f25_written : declaredNamesSrc f25 ++ textNames f25 = ["S", "L", "L"] ∧
    declaredNamesSrc f25g ++ textNames f25g = ["S", "L", "L"] := by decide
/-- … and every other side condition holds. -/
theorem f25_noImitation : NoImitationSrc oN f25 ∧ NoImitationSynSrc f25 ∧ NoImitation oN f25 ∧
    NoImitationSrc oN f25g ∧ NoImitationSynSrc f25g ∧ NoImitation oN f25g := by decide

/-- `f25` through `defCount_source` / `duplicate_of_not_distinct` -/
example : defCount (linesOf oN f25) "L" = 2 + 0 + 0 := by
  rw [defCount_source oN f25 _ f25_accepted "L"]; decide
example : ¬ ((labelsOf (linesOf oN f25g)).map (·.1)).Nodup :=
  duplicate_of_not_distinct oN f25g _ f25g_accepted f25_not_distinct.2
example : ((labelsOf (linesOf oN deadProg)).map (·.1)).Nodup :=
  (labels_unique_iff oN deadProg _ dead_emit).2 ⟨dead_distinct, dead_noImitation⟩
example := label_names_perm oN deadProg _ dead_emit

/-- whatever the options (both chunk orders, line markers): if `f25` / `f25g` is accepted, `L` is defined at least
twice -/
theorem f25_any_opts (o : Opts) (ls : List Line) (h : emitProgram o f25 = .ok ls) : 2 ≤ defCount ls "L" := by
  rw [defCount_source o f25 ls h]
  have : (declaredNamesSrc f25).count "L" = 2 := by decide
  omega
theorem f25g_any_opts (o : Opts) (ls : List Line) (h : emitProgram o f25g = .ok ls) : 2 ≤ defCount ls "L" := by
  rw [defCount_source o f25g ls h]
  have : (declaredNamesSrc f25g).count "L" = 2 := by decide
  omega
example : 2 ≤ defCount (linesOf oN f25g) "L" := f25g_any_opts oN _ f25g_accepted

/-- the conclusion of `source_label_defined_once` fails for `f25` -/
theorem f25_conclusion_fails :
    ("L", false) ∈ labelStmtsOf [cmdS 1 "a", .label {} "L" false, cmdS 2 "b", .label {} "L" false, cmdS 3 "c"] ∧
      defCount (linesOf oN f25) "L" ≠ 1 := by decide

/-- F25 through parser and emitter: the tokens of `script S { a L: b L: c }` compile, `L` is defined twice. -/
theorem f25_compiled :
    compiledLabels [mkTok .SCRIPT "script", mkTok .IDENT "S", mkTok .LBRACE "{", mkTok .IDENT "a",
                    mkTok .IDENT "L", mkTok .COLON ":", mkTok .IDENT "b", mkTok .IDENT "L", mkTok .COLON ":",
                    mkTok .IDENT "c", mkTok .RBRACE "}", mkTok .EOF ""] = some ["S", "L", "L"] := by
  decide +kernel

/-- `script S { a L: if (flag(F)) { L(global): } c }` -/
theorem f25g_compiled :
    compiledLabels [mkTok .SCRIPT "script", mkTok .IDENT "S", mkTok .LBRACE "{", mkTok .IDENT "a",
                    mkTok .IDENT "L", mkTok .COLON ":",
                    mkTok .IF "if", mkTok .LPAREN "(", mkTok .FLAG "flag", mkTok .LPAREN "(", mkTok .IDENT "F",
                    mkTok .RPAREN ")", mkTok .RPAREN ")", mkTok .LBRACE "{",
                    mkTok .IDENT "L", mkTok .LPAREN "(", mkTok .GLOBAL "global", mkTok .RPAREN ")", mkTok .COLON ":",
                    mkTok .RBRACE "}", mkTok .IDENT "c", mkTok .RBRACE "}", mkTok .EOF ""] =
      some ["S", "L", "S_1", "S_2", "L", "S_3"] := by
  decide +kernel

#print axioms names_distinct_iff
#print axioms noImitation_iff
#print axioms noImitationSrc_of_syntactic
#print axioms program_labels_defined_once_source
#print axioms source_label_defined_once
#print axioms label_names_perm
#print axioms defCount_source
#print axioms labels_unique_iff
#print axioms duplicate_of_not_distinct
#print axioms f25_defCount
#print axioms f25_not_distinct
#print axioms f25_noImitation
#print axioms f25_compiled
#print axioms f25g_compiled

end Pory.C04d
