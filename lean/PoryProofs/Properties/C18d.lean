import PoryProofs.ErrLoc5
import PoryProofs.LexEndLine
import PoryProofs.LexEof
import PoryProofs.Properties.C18b
/-
C18 / C20 (parser side) — every error the parser returns is located on tokens of its input, start not
after end.

`C18.single_token_error_in_range` and `C18b.range_error_ordered` say what a located error looks like
(an error built from one input token, or from token `i` to token `j ≥ i` of the lexer's output).  This
module proves that EVERY error value `parseTokens` can return has that form.

* `Located toks e` : `e` is `newRangeParseError t_i t_j msg` for input tokens number `i ≤ j ≤ toks.length`
  (index `toks.length` stands for the end-of-input token `toks.getLastD {type := .EOF}`, which is what
  the parser reads when the window is exhausted; `newParseError t m = newRangeParseError t t m`).  The
  statement is about the error value, i.e. about the six position fields: tokens that the parser
  copies with a changed `lit` / `type` keep their positions.
* `parser_errors_located` : `parseTokens env toks = .error (.err e) → Located toks e`, for EVERY token
  list `toks` and environment `env` (no assumption that `toks` comes from the lexer or ends with `EOF`).
  Proof: `PoryProofs/ErrLoc.lean` … `ErrLoc5.lean` — a two-sided triple `tri` (success: postcondition,
  failure: the error is located) through all parser functions, with the invariant "the window is
  `toks.drop k`; tokens saved earlier are input tokens with index `≤ k`; tokens stored in the state /
  in implicit texts and movements stand at input positions" (`Inv`, `Post`, `ImpOK`); the 13 mutually
  recursive statement functions by one induction on the fuel (`locAll`).
* `parser_error_range_in_input` : for the lexer's output, the reported range lies inside the source and
  its start is not after its end:
    `1 ≤ lineStart ≤ lineEnd ≤ lineOf src` and `(lineStart, charStart) ≤ (lineEnd, charEnd)`
  lexicographically (byte columns).  Uses `C18.token_line_in_range` (start line of a token),
  `C18b.token_start_le_later_end` (an earlier token starts at or before the end of a later one) and the
  new `LexEndLine.lexAll_endLine_le` (end line of a token, all classes incl. multi-line strings).
  Nothing is assumed about the columns of the `EOF` token (C19 documents that its character column is 1
  while its byte column is 0 when the source ends in a newline, and that the `EOF` produced for a NUL
  character stands one column to the right): the statement is about byte columns (`charStart`,
  `charEnd`) only, and `LexMono.lexAll_sorted` covers the `EOF` token's byte columns.

Nothing is partial.  No error site of the model uses a default token `{}` or puts the later token first:
the only default-token candidate, `fontIdToken` of `format()`, is guarded by its type (`FpOk`).
-/
namespace Pory.C18d
open Pory Pory.Parser Pory.ErrLoc Pory.Lexer Pory.LexPos

/-- What the parser reads once its window is exhausted. -/
abbrev eofOf (toks : List Tok) : Tok := toks.getLastD { type := .EOF }

/-- The error value `e` goes from input token `i` to input token `j`, `i ≤ j ≤ toks.length`. -/
def Located (toks : List Tok) (e : PErr) : Prop :=
  ∃ i j msg, i ≤ j ∧ j ≤ toks.length ∧
    PFail.err e = newRangeParseError (toks.getD i (eofOf toks)) (toks.getD j (eofOf toks)) msg

/-- a single-token error is a range error from the token to itself -/
theorem newParseError_eq_range (t : Tok) (msg : String) : newParseError t msg = newRangeParseError t t msg := rfl

theorem getD_min_length (l : List Tok) (d : Tok) (i : Nat) : l.getD (min i l.length) d = l.getD i d := by
  by_cases h : i ≤ l.length
  · rw [Nat.min_eq_left h]
  · have h' : l.length ≤ i := by omega
    rw [Nat.min_eq_right h']
    simp [List.getD, List.getElem?_eq_none h']

theorem located_of_locAt {toks : List Tok} {e : PErr} {i j : Nat} (hij : i ≤ j)
    (h : LocAt toks (eofOf toks) i j e) : Located toks e := by
  refine ⟨min i toks.length, min j toks.length, e.msg, ?_, Nat.min_le_right _ _, ?_⟩
  · exact Nat.le_min.2 ⟨Nat.le_trans (Nat.min_le_left _ _) hij, Nat.min_le_right _ _⟩
  · rw [getD_min_length, getD_min_length]
    obtain ⟨h1, h2, h3, h4, h5, h6⟩ := h
    cases e
    simp only [newRangeParseError, PFail.err.injEq, PErr.mk.injEq]
    simp only at h1 h2 h3 h4 h5 h6
    exact ⟨h1, h4, h2, h3, h5, h6, trivial⟩

/-- **Every error the parser returns is located on tokens of its input**, the first not after the
second. -/
theorem parser_errors_located (env : Env) (toks : List Tok) (e : PErr) :
    parseTokens env toks = .error (.err e) → Located toks e := by
  intro h
  obtain ⟨i, j, hij, hloc⟩ := parseTokens_locAt env toks e h
  exact located_of_locAt hij hloc

/-! ### non-vacuity of `parser_errors_located` -/

/-- `script A` / `B` : the error "missing opening curly brace" ranges from the `script` token (number 0)
to the peek token `B` (number 2) on the next line. -/
def toksA : List Tok :=
  [ { type := .SCRIPT, lit := "script", line := 1, startChar := 0, startUtf8 := 0, endLine := 1, endChar := 6, endUtf8 := 6 },
    { type := .IDENT, lit := "A", line := 1, startChar := 7, startUtf8 := 7, endLine := 1, endChar := 8, endUtf8 := 8 },
    { type := .IDENT, lit := "B", line := 2, startChar := 0, startUtf8 := 0, endLine := 2, endChar := 1, endUtf8 := 1 },
    { type := .EOF, lit := "", line := 2, startChar := 1, startUtf8 := 1, endLine := 2, endChar := 1, endUtf8 := 1 } ]

example : ∃ e, parseTokens {} toksA = .error (.err e) ∧ Located toksA e ∧
    (e.lineStart, e.charStart, e.lineEnd, e.charEnd) = (1, 0, 2, 1) := by
  refine ⟨_, rfl, parser_errors_located {} toksA _ rfl, rfl⟩

/-- A token list that does not even end in `EOF` (`script A {` and nothing else): the error "missing closing
curly brace for block statement" is reported on the brace token (number 2); the parser had read the
end-of-input token, here the last token of the list, as current token. -/
def toksB : List Tok :=
  [ { type := .SCRIPT, lit := "script", line := 1, startChar := 0, startUtf8 := 0, endLine := 1, endChar := 6, endUtf8 := 6 },
    { type := .IDENT, lit := "A", line := 1, startChar := 7, startUtf8 := 7, endLine := 1, endChar := 8, endUtf8 := 8 },
    { type := .LBRACE, lit := "{", line := 1, startChar := 9, startUtf8 := 9, endLine := 1, endChar := 10, endUtf8 := 10 },
    { type := .EOF, lit := "", line := 1, startChar := 10, startUtf8 := 10, endLine := 1, endChar := 10, endUtf8 := 10 } ]

example : ∃ e, parseTokens {} toksB = .error (.err e) ∧ Located toksB e ∧
    (e.lineStart, e.charStart, e.lineEnd, e.charEnd) = (1, 9, 1, 10) := by
  refine ⟨_, rfl, parser_errors_located {} toksB _ rfl, rfl⟩

/-! ### the lexer's output -/

theorem getD_eq_getElem_min (l : List Tok) (hne : l ≠ []) (d : Tok) (i : Nat) :
    ∃ h : min i (l.length - 1) < l.length, l.getD i (l.getLastD d) = l[min i (l.length - 1)] := by
  have hlen : 0 < l.length := List.length_pos_iff.2 hne
  refine ⟨by omega, ?_⟩
  by_cases hi : i < l.length
  · have : min i (l.length - 1) = i := by omega
    simp [List.getD, hi, this]
  · have hm : min i (l.length - 1) = l.length - 1 := by omega
    have hi' : l.length ≤ i := by omega
    simp only [List.getD, List.getElem?_eq_none hi', Option.getD_none, hm]
    cases l with
    | nil => exact absurd rfl hne
    | cons a r => simp [List.getLastD, List.getLast_eq_getElem]

/-- **An error returned for the tokens of a source lies inside the source, start not after end**:
lines between 1 and the number of lines, start line not after end line, and
(start line, start byte column) ≤ (end line, end byte column) lexicographically. -/
theorem parser_error_range_in_input (env : Env) (src : List Char) (e : PErr) :
    parseTokens env (lexAll src) = .error (.err e) →
      1 ≤ e.lineStart ∧ e.lineStart ≤ e.lineEnd ∧ e.lineEnd ≤ lineOf src ∧
      (e.lineStart < e.lineEnd ∨ (e.lineStart = e.lineEnd ∧ e.charStart ≤ e.charEnd)) := by
  intro h
  obtain ⟨i, j, msg, hij, _, he⟩ := parser_errors_located env (lexAll src) e h
  have hne := (lexAll_ends_with_eof src).2
  obtain ⟨hi', ei⟩ := getD_eq_getElem_min (lexAll src) hne { type := .EOF } i
  obtain ⟨hj', ej⟩ := getD_eq_getElem_min (lexAll src) hne { type := .EOF } j
  simp only [eofOf] at he
  rw [ei, ej] at he
  obtain ⟨h1, h2, h3, h4⟩ := C18.range_error_lines _ _ msg e he.symm
  have hij' : min i ((lexAll src).length - 1) ≤ min j ((lexAll src).length - 1) := by omega
  have hord := C18b.token_start_le_later_end src _ _ hij' hj'
  have hstart := C18.token_line_in_range src _ (List.getElem_mem hi')
  have hend := LexEndLine.lexAll_endLine_le src _ (List.getElem_mem hj')
  rw [h1, h2, h3, h4]
  refine ⟨hstart.1, ?_, hend, hord⟩
  rcases hord with h | h <;> omega

/-! ### non-vacuity of `parser_error_range_in_input` -/

/-- the error value of a parse result, if any -/
def errOf (r : Except PFail Program) : Option PErr :=
  match r with
  | .error (.err e) => some e
  | _ => none

theorem eq_of_errOf {r : Except PFail Program} {e : PErr} (h : errOf r = some e) : r = .error (.err e) := by
  unfold errOf at h
  split at h
  · cases h; rfl
  · cases h

/-- A range error over two lines, `script A` / `B`: "missing opening curly brace for script 'A'" goes from the
`script` token (line 1, byte column 0) to the peek token `B` (line 2, end byte column 1).  The hypothesis of
both theorems holds for this source and their conclusions are the concrete facts.
(One example only: evaluating the lexer in the kernel takes about half a minute per source.) -/
example :
    let src := "script A\nB".toList
    let e : PErr := { lineStart := 1, lineEnd := 2, charStart := 0, utf8Start := 0, charEnd := 1, utf8End := 1,
                      msg := "missing opening curly brace for script 'A'" }
    parseTokens {} (lexAll src) = .error (.err e) ∧ Located (lexAll src) e ∧
      (1 ≤ e.lineStart ∧ e.lineStart ≤ e.lineEnd ∧ e.lineEnd ≤ lineOf src ∧
        (e.lineStart < e.lineEnd ∨ (e.lineStart = e.lineEnd ∧ e.charStart ≤ e.charEnd))) := by
  intro src e
  have h : parseTokens {} (lexAll src) = .error (.err e) := eq_of_errOf (by decide +kernel)
  exact ⟨h, parser_errors_located {} _ e h, parser_error_range_in_input {} src e h⟩

end Pory.C18d
