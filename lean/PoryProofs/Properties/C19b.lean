import PoryProofs.LexLayout
import PoryProofs.LexString
/-
C19 (layout half) — "Inserting or removing spaces, tabs, newlines and '#' or '//' comments
between tokens never changes the sequence of token types and literals."

All statements are about the model `PoryModel/Lexer.lean`; `erase t = (t.type, t.lit)`.
Vocabulary: `Skips inp rest` (`PoryProofs/LexTok.lean`) — `rest` is `inp` with leading whitespace
and comments removed; a comment starts at `#` or `//` and runs up to and including the next
newline (or to the end of the input) and may contain ANY character except newline.  From
`PoryProofs/LexLayout.lean`:
* `nextE`, `lexAllE` — the lexer without counters; `nextToken_erased`, `lexAll_erased` say the model
  computes exactly these, whatever the counters;
* `LexemeAt ok lex toks` — the non-empty string `lex` is read by one `nextToken` call as the
  (type, literal) sequence `toks` whenever it is followed by an admissible continuation `tail`
  (`ok tail`, the `needsSep` side condition of the class), and the call stops at `tail` — or, for
  string literals, after leading whitespace of `tail`;
* `Lexeme` — characters, tokens, `ok` and the proof of `LexemeAt`; `Sep s` / `SepLast s` — `s` is a
  run of whitespace and newline-terminated comments (the last separator of a source may end in an
  unterminated comment);
* `render sep0 [(lex₁, sep₁), …, (lexₙ, sepₙ)] = sep0 ++ lex₁ ++ sep₁ ++ … ++ lexₙ ++ sepₙ`;
* `LayoutOK L` — every `sepᵢ` is a separator in its context and what follows `lexᵢ` is admissible
  for it.

Proved: (a) `tokens_pos_indep`, `leading_separators_ignored`; (b) in full generality:
`lexAll_of_layout` (canonical form: the erased tokens of an admissible layout are the tokens of
its lexemes followed by `EOF`) and `lexAll_layout` (two admissible layouts of the same lexemes
give the same types and literals); `LexemeAt` for punctuation, one- and two-character operators,
identifiers / keywords, decimal and hexadecimal numbers and (multi-part) string literals, each
with its explicit `needsSep` condition (`okAny`, `okNoEq`, `okIdent`, `okNum`, `okHex`, `okStr`),
all of which admit every continuation that starts with a separator (`ok_of_sepStart`,
`okStr_of_sep`); also raw strings, negative numbers and the `name"…"` string-type pair.  Not
covered by a `LexemeAt` lemma (they can still be used as `Lexeme`s by proving `LexemeAt` for
them): `ILLEGAL` characters (incl. lone `&`, `|`) and the NUL character.

NUL characters (finding F16 — FIXED in lexer.go and in the model).
`skipToNextLine` used to stop at a NUL, so a NUL inside a comment ended the comment and the rest of
the line was lexed as tokens; `Skips` / `Sep` / `SepLast` therefore had to exclude NUL from comment
text.  After the fix they no longer do: the only constraint on the text of a comment is "no
newline", so `lexAll_layout`, `lexAll_of_layout`, `leading_separators_ignored` and the new
`comment_line_ignored` cover comments containing NUL (example `nul_in_comment`: the sources
`lock # c <NUL> bar⏎foo` and `lock foo` have the same tokens).
Still excluded, deliberately: a NUL OUTSIDE a comment is not a separator.  The lexer returns an
`EOF` token for it (`tokenAt … NUL = nulTok`; the Go parser stops there), so inserting one between
two tokens does change the token sequence — see the example `nul_outside_comment`.  `Sep`
consequently admits only whitespace and comments, and a raw-string body (`rawL`) and a string part
(`Part`) still exclude NUL because the lexer ends those literals at a NUL.
-/
namespace Pory.C19b
open Pory Pory.Lexer Pory.LexPos Pory.LexLayout Pory.LexString

/-- Core lemma: the erased result of `nextToken` (types and literals, remaining text, `done`
flag) does not depend on the five counters. -/
theorem tokens_pos_indep (inp : List Char) (p p' : Pos) :
    (nextToken ⟨inp, p⟩).1.map erase = (nextToken ⟨inp, p'⟩).1.map erase ∧
    (nextToken ⟨inp, p⟩).2.1.inp = (nextToken ⟨inp, p'⟩).2.1.inp ∧
    (nextToken ⟨inp, p⟩).2.2 = (nextToken ⟨inp, p'⟩).2.2 :=
  LexLayout.tokens_pos_indep inp p p'

/-- (a) Whitespace and comments in front of a token are ignored: if `rest` is `inp` without some
leading whitespace / comments, then — for any counters — `nextToken` yields the same token types
and literals, the same `done` flag and the same remaining text from both. -/
theorem leading_separators_ignored (inp rest : List Char) (p p' : Pos) (h : Skips inp rest) :
    (nextToken ⟨inp, p⟩).1.map erase = (nextToken ⟨rest, p'⟩).1.map erase ∧
    (nextToken ⟨inp, p⟩).2.2 = (nextToken ⟨rest, p'⟩).2.2 ∧
    (nextToken ⟨inp, p⟩).2.1.inp = (nextToken ⟨rest, p'⟩).2.1.inp := by
  have e := ((nextToken_erased inp p).trans (nextE_of_skips h)).trans (nextToken_erased rest p').symm
  exact ⟨congrArg (·.1) e, congrArg (·.2.2) e, congrArg (·.2.1) e⟩

/-- Non-vacuity of (a): a comment, blank lines and indentation in front of `<=`. -/
example : Skips "# c\n\n  // d\n\t<= 1".toList "<= 1".toList := by
  refine .comment "# c".toList _ _ (by decide) (by decide) ?_
  refine .ws _ _ _ (by decide) (.ws _ _ _ (by decide) (.ws _ _ _ (by decide) ?_))
  refine .comment "// d".toList _ _ (by decide) (by decide) ?_
  exact .ws _ _ _ (by decide) (.done _)

/-- (a') A whole comment line in front of a token is ignored **whatever it contains** — NUL
characters included (F16 fixed): `body` starts with `#` or `//` and is only required to contain no
newline. -/
theorem comment_line_ignored (body rest : List Char) (p p' : Pos)
    (hs : isCommentStart body = true) (hb : ∀ c ∈ body, c ≠ '\n') :
    (nextToken ⟨body ++ '\n' :: rest, p⟩).1.map erase = (nextToken ⟨rest, p'⟩).1.map erase ∧
    (nextToken ⟨body ++ '\n' :: rest, p⟩).2.2 = (nextToken ⟨rest, p'⟩).2.2 ∧
    (nextToken ⟨body ++ '\n' :: rest, p⟩).2.1.inp = (nextToken ⟨rest, p'⟩).2.1.inp :=
  leading_separators_ignored _ _ p p'
    (.comment body rest rest (isCommentStart_append hs _) hb (.done _))

/-- Non-vacuity of (a'): a `//` comment containing two NUL characters. -/
example (p p' : Pos) :
    (nextToken ⟨"// a\x00b\x00\nfoo".toList, p⟩).1.map erase = (nextToken ⟨"foo".toList, p'⟩).1.map erase :=
  (comment_line_ignored "// a\x00b\x00".toList "foo".toList p p' (by decide) (by decide)).1

/-! ### (b) Layouts -/

/-- (b) **Canonical form.**  The source `sep0 ++ lex₁ ++ sep₁ ++ … ++ lexₙ ++ sepₙ` of an admissible
layout lexes to the tokens of `lex₁ … lexₙ`, in order, followed by `EOF`: no trace of the
separators remains in the types and literals. -/
theorem lexAll_of_layout (sep0 : List Char) (L : List (Lexeme × List Char))
    (h0 : Skips (sep0 ++ body L) (body L)) (hok : LayoutOK L) :
    (lexAll (render sep0 L)).map erase = L.flatMap (·.1.toks) ++ [(.EOF, "")] := by
  rw [lexAll_erased, lexAllE_layout sep0 L h0 hok]

/-- (b) **Layout independence.**  Two admissible layouts of the same lexemes — any separators,
non-empty where the lexemes require one — have the same sequence of token types and literals. -/
theorem lexAll_layout (sep0 sep0' : List Char) (L L' : List (Lexeme × List Char))
    (hsame : L.map (·.1) = L'.map (·.1))
    (h0 : Skips (sep0 ++ body L) (body L)) (hok : LayoutOK L)
    (h0' : Skips (sep0' ++ body L') (body L')) (hok' : LayoutOK L') :
    (lexAll (render sep0 L)).map erase = (lexAll (render sep0' L')).map erase := by
  rw [lexAll_of_layout sep0 L h0 hok, lexAll_of_layout sep0' L' h0' hok']
  have e : ∀ M : List (Lexeme × List Char), M.flatMap (·.1.toks) = (M.map (·.1)).flatMap (·.toks) := by
    intro M; rw [List.flatMap_map]
  rw [e L, e L', hsame]

/-- How `LayoutOK` is established: a (middle) separator. -/
theorem layoutOK_cons (l : Lexeme) (sep : List Char) (r : List (Lexeme × List Char)) (hs : Sep sep)
    (hl : l.ok (sep ++ body r)) (hr : LayoutOK r) : LayoutOK ((l, sep) :: r) :=
  ⟨hs.skips _, hl, hr⟩

/-- How `LayoutOK` is established: the last separator (may end in an unterminated comment). -/
theorem layoutOK_last (l : Lexeme) (sep : List Char) (hs : SepLast sep) (hl : l.ok sep) :
    LayoutOK [(l, sep)] :=
  ⟨by simpa [body] using hs.skips, by simpa [body] using hl, trivial⟩

/-- The leading separator. -/
theorem leading_sep (sep0 : List Char) (L : List (Lexeme × List Char)) (hs : Sep sep0) :
    Skips (sep0 ++ body L) (body L) := hs.skips _

/-- A continuation that is empty or starts with whitespace, `#` or `/` is admissible for a string
literal unless, after the whitespace, a quote follows. -/
theorem okStr_of_sep (tail : List Char) (h : ch (tail.dropWhile isWs) ≠ '"') : okStr tail := h

/-! ### The lexeme classes -/

/-- punctuation and `*`; no separator needed after it -/
def punctL (c : Char) (ty : TT) (h : (c, ty) ∈ punct) : Lexeme :=
  ⟨[c], [(ty, String.singleton c)], okAny, lexemeAt_punct c ty h⟩

/-- `=`, `!`, `<`, `>`; `needsSep`: must not be followed directly by `=` -/
def cmpL (c : Char) (ty : TT) (h : (c, ty) ∈ cmp1) : Lexeme :=
  ⟨[c], [(ty, String.singleton c)], okNoEq, lexemeAt_cmp1 c ty h⟩

/-- `==`, `!=`, `<=`, `>=`, `&&`, `||`; no separator needed after it -/
def opL (c d : Char) (ty : TT) (h : (c, d, ty) ∈ ops2) : Lexeme :=
  ⟨[c, d], [(ty, String.ofList [c, d])], okAny, lexemeAt_ops2 c d ty h⟩

/-- identifier or keyword; `needsSep`: must not be followed directly by a letter, digit or `"` -/
def identL (c : Char) (cs : List Char) (hl : isLetter c = true) (hcs : ∀ x ∈ cs, identP x = true) :
    Lexeme :=
  ⟨c :: cs, [(getIdentType (String.ofList (c :: cs)), String.ofList (c :: cs))], okIdent,
    lexemeAt_ident c cs hl hcs⟩

/-- decimal number (ASCII digits); `needsSep`: must not be followed directly by a digit or `x` -/
def numL (c : Char) (ds : List Char) (hc : c ∈ asciiDigits) (hds : ∀ x ∈ ds, x ∈ asciiDigits) : Lexeme :=
  ⟨c :: ds, [(.INT, String.ofList (c :: ds))], okNum, lexemeAt_asciiNum c ds hc hds⟩

/-- hexadecimal number; `needsSep`: must not be followed directly by a hexadecimal digit -/
def hexL (hs : List Char) (h : ∀ x ∈ hs, isHexDigit x = true) : Lexeme :=
  ⟨'0' :: 'x' :: hs, [(.INT, String.ofList ('0' :: 'x' :: hs))], okHex, lexemeAt_hex hs h⟩

/-- (multi-part) string literal; `needsSep`: the next non-whitespace character must not be `"` -/
def strL (ps : List PartSrc) (hok : PartsOK ps) (src txt : List Char) (hp : Part src txt) : Lexeme :=
  ⟨partsSrc ps ++ '"' :: (src ++ ['"']),
    [(.STRING, String.ofList (joinParts (ps.map (·.txt) ++ [txt])))], okStr,
    lexemeAt_string ps hok src txt hp⟩

/-- raw string; no separator needed after it -/
def rawL (bodyCs : List Char) (h : ∀ x ∈ bodyCs, x ≠ '`' ∧ x ≠ NUL) : Lexeme :=
  ⟨'`' :: (bodyCs ++ ['`']), [(.RAWSTRING, String.ofList (trimRightSpace bodyCs))], okAny,
    lexemeAt_raw bodyCs h⟩

/-- negative number; `needsSep` as for numbers -/
def negL (c : Char) (ds : List Char) (hd : isDigit c = true) (hds : ∀ x ∈ ds, isDigit x = true) : Lexeme :=
  ⟨'-' :: c :: ds, [(.INT, String.ofList ('-' :: c :: ds))], okNum, lexemeAt_neg c ds hd hds⟩

/-- string type directly followed by a literal, e.g. `ascii"…"`: two tokens from one call;
`needsSep` as for strings -/
def strTypeL (c : Char) (cs : List Char) (hl : isLetter c = true) (hcs : ∀ x ∈ cs, identP x = true)
    (ps : List PartSrc) (hok : PartsOK ps) (src txt : List Char) (hp : Part src txt) : Lexeme :=
  ⟨(c :: cs) ++ (partsSrc ps ++ '"' :: (src ++ ['"'])),
    [(.STRINGTYPE, String.ofList (c :: cs)),
      (.STRING, String.ofList (joinParts (ps.map (·.txt) ++ [txt])))], okStr,
    lexemeAt_stringtype c cs hl hcs ps hok src txt hp⟩

/-- The `needsSep` conditions are necessary: without a separator `=` `=` fuses into `==`. -/
example :
    (lexAll "= =".toList).map erase = [(.ASSIGN, "="), (.ASSIGN, "="), (.EOF, "")] ∧
    (lexAll "==".toList).map erase = [(.EQ, "=="), (.EOF, "")] := by
  refine ⟨by decide +kernel, by decide +kernel⟩

/-! ### Non-vacuity: one token sequence, two layouts -/

section Example
theorem letter_i : isLetter 'i' = true := by unfold isLetter; rw [inRanges_list]; decide +kernel
theorem letter_f : identP 'f' = true := by unfold identP isLetter; rw [inRanges_list]; decide +kernel
def kwIf : Lexeme := identL 'i' ['f'] letter_i (by intro x hx; simp at hx; subst hx; exact letter_f)
def lpar : Lexeme := punctL '(' .LPAREN (by decide)
def rpar : Lexeme := punctL ')' .RPAREN (by decide)
def eq1 : Lexeme := cmpL '=' .ASSIGN (by decide)
def le2 : Lexeme := opL '<' '=' .LTE (by decide)
def n12 : Lexeme := numL '1' ['2'] (by decide) (by decide)
def hx : Lexeme := hexL ['1', 'F'] (by decide)
def strAB : Lexeme := strL [⟨"a".toList, "a".toList, "\n  ".toList⟩] (by
    intro q hq
    simp only [List.mem_singleton] at hq
    subst hq
    exact ⟨Part.plain _ (by decide), by decide⟩) "b".toList "b".toList (Part.plain _ (by decide))

/-- compact layout: `if(12<=0x1F = =)"a"\n  "b"` with separators only where required -/
def compact : List (Lexeme × List Char) :=
  [(kwIf, []), (lpar, []), (n12, []), (le2, []), (hx, " ".toList), (eq1, " ".toList), (eq1, []), (rpar, []),
    (strAB, [])]

/-- airy layout: the same lexemes with comments, blank lines and indentation everywhere, and an
unterminated comment at the very end -/
def airy : List (Lexeme × List Char) :=
  [(kwIf, " ".toList), (lpar, "\n\t".toList), (n12, " # twelve\n".toList), (le2, "  ".toList), (hx, "\n\n".toList),
    (eq1, " // x\n ".toList), (eq1, " ".toList), (rpar, "\n".toList), (strAB, " # end".toList)]

theorem compact_src : render [] compact = "if(12<=0x1F = =)\"a\"\n  \"b\"".toList := by decide
theorem airy_src : render "// head\n".toList airy =
    "// head\nif (\n\t12 # twelve\n<=  0x1F\n\n= // x\n = )\n\"a\"\n  \"b\" # end".toList := by decide

theorem sep_ws (s : List Char) (h : ∀ c ∈ s, isWs c = true) : Sep s := by
  induction s with
  | nil => exact .nil
  | cons c r ih => exact .ws c r (h c (List.mem_cons_self ..)) (ih fun x hx => h x (List.mem_cons_of_mem _ hx))

theorem compact_ok : LayoutOK compact := by
  refine layoutOK_cons kwIf [] _ .nil ?_ ?_
  · show okIdent _
    intro d hd
    simp [body, lpar, punctL] at hd
    subst hd
    exact ⟨by simp [identP, special_not_letter' '(' (by decide), special_not_digit '(' (by decide)],
      by decide⟩
  refine layoutOK_cons lpar [] _ .nil trivial ?_
  refine layoutOK_cons n12 [] _ .nil ?_ ?_
  · show okNum _
    intro d hd
    simp [body, le2, opL] at hd
    subst hd
    exact ⟨special_not_digit _ (by decide), by decide⟩
  refine layoutOK_cons le2 [] _ .nil trivial ?_
  refine layoutOK_cons hx _ _ (sep_ws _ (by decide)) ?_ ?_
  · show okHex _
    intro d hd
    simp at hd
    subst hd
    decide
  refine layoutOK_cons eq1 _ _ (sep_ws _ (by decide)) ?_ ?_
  · show okNoEq _
    intro d hd
    simp at hd
    subst hd
    decide
  refine layoutOK_cons eq1 [] _ .nil ?_ ?_
  · show okNoEq _
    intro d hd
    simp [body, rpar, punctL] at hd
    subst hd
    decide
  refine layoutOK_cons rpar [] _ .nil trivial ?_
  exact layoutOK_last strAB [] (.sep _ .nil) (by show ch _ ≠ '"'; decide)

theorem ok_cons (c : Char) (r : List Char) (h : isWs c = true ∨ c = '#' ∨ c = '/') :
    okAny (c :: r) ∧ okNoEq (c :: r) ∧ okIdent (c :: r) ∧ okNum (c :: r) ∧ okHex (c :: r) :=
  ok_of_sepStart _ (by intro d hd; simp at hd; subst hd; exact h)

theorem airy_ok : LayoutOK airy := by
  refine layoutOK_cons kwIf _ _ (sep_ws _ (by decide)) (ok_cons ' ' _ (by decide)).2.2.1 ?_
  refine layoutOK_cons lpar _ _ (sep_ws _ (by decide)) trivial ?_
  refine layoutOK_cons n12 _ _ ?_ ?_ ?_
  · exact .ws ' ' _ (by decide) (.comment "# twelve".toList [] (by decide) (by decide) .nil)
  · exact (ok_cons ' ' _ (by decide)).2.2.2.1
  refine layoutOK_cons le2 _ _ (sep_ws _ (by decide)) trivial ?_
  refine layoutOK_cons hx _ _ (sep_ws _ (by decide)) ?_ ?_
  · exact (ok_cons '\n' _ (by decide)).2.2.2.2
  refine layoutOK_cons eq1 _ _ ?_ ?_ ?_
  · exact .ws ' ' _ (by decide) (.comment "// x".toList _ (by decide) (by decide)
      (.ws ' ' _ (by decide) .nil))
  · exact (ok_cons ' ' _ (by decide)).2.1
  refine layoutOK_cons eq1 _ _ (sep_ws _ (by decide)) ?_ ?_
  · exact (ok_cons ' ' _ (by decide)).2.1
  refine layoutOK_cons rpar _ _ (sep_ws _ (by decide)) trivial ?_
  refine layoutOK_last strAB _ ?_ (by show ch _ ≠ '"'; decide)
  exact .ws ' ' _ (by decide) (.open_ "# end".toList (by decide) (by decide))

/-- The two sources have the same token types and literals — by `lexAll_layout`, not by
evaluation — and these are the tokens of the lexemes (`lexAll_of_layout`). -/
theorem compact_airy :
    (lexAll "if(12<=0x1F = =)\"a\"\n  \"b\"".toList).map erase =
      (lexAll "// head\nif (\n\t12 # twelve\n<=  0x1F\n\n= // x\n = )\n\"a\"\n  \"b\" # end".toList).map erase ∧
    (lexAll "if(12<=0x1F = =)\"a\"\n  \"b\"".toList).map erase =
      [(.IF, "if"), (.LPAREN, "("), (.INT, "12"), (.LTE, "<="), (.INT, "0x1F"), (.ASSIGN, "="), (.ASSIGN, "="),
        (.RPAREN, ")"), (.STRING, "a\nb"), (.EOF, "")] := by
  have hc : Skips ([] ++ body compact) (body compact) := .done _
  have ha : Skips ("// head\n".toList ++ body airy) (body airy) :=
    leading_sep _ _ (.comment "// head".toList [] (by decide) (by decide) .nil)
  constructor
  · rw [← compact_src, ← airy_src]
    exact lexAll_layout _ _ compact airy rfl hc compact_ok ha airy_ok
  · rw [← compact_src, lexAll_of_layout [] compact hc compact_ok]
    decide

/-! ### F16 (fixed): a NUL inside a comment is part of the comment -/

theorem lock_foo_letters : ∀ x ∈ ['l', 'o', 'c', 'k', 'f'], isLetter x = true := by
  simp only [isLetter, inRanges_list]
  decide +kernel

theorem lock_foo_identP (cs : List Char) (h : ∀ x ∈ cs, x ∈ ['l', 'o', 'c', 'k', 'f']) :
    ∀ x ∈ cs, identP x = true := by
  intro x hx
  simp only [identP, lock_foo_letters x (h x hx), Bool.true_or]

def lockL : Lexeme := identL 'l' ['o', 'c', 'k'] (lock_foo_letters _ (by decide))
  (lock_foo_identP _ (by decide))
def fooL : Lexeme := identL 'f' ['o', 'o'] (lock_foo_letters _ (by decide))
  (lock_foo_identP _ (by decide))

/-- `lock # c <NUL> bar⏎foo`: the comment after `lock` contains a NUL character -/
def nulLayout : List (Lexeme × List Char) := [(lockL, " # c \x00 bar\n".toList), (fooL, [])]
/-- `lock foo` -/
def plainLayout : List (Lexeme × List Char) := [(lockL, " ".toList), (fooL, [])]

theorem nulLayout_src : render [] nulLayout = "lock # c \x00 bar\nfoo".toList := by decide
theorem plainLayout_src : render [] plainLayout = "lock foo".toList := by decide
theorem nulLayout_has_nul : NUL ∈ render [] nulLayout := by decide

theorem nulLayout_ok : LayoutOK nulLayout := by
  refine layoutOK_cons lockL _ _ ?_ (ok_cons ' ' _ (by decide)).2.2.1 ?_
  · exact .ws ' ' _ (by decide) (.comment "# c \x00 bar".toList [] (by decide) (by decide) .nil)
  · exact layoutOK_last fooL [] (.sep _ .nil) (by intro d hd; simp at hd)

theorem plainLayout_ok : LayoutOK plainLayout := by
  refine layoutOK_cons lockL _ _ (sep_ws _ (by decide)) (ok_cons ' ' _ (by decide)).2.2.1 ?_
  exact layoutOK_last fooL [] (.sep _ .nil) (by intro d hd; simp at hd)

/-- **F16 fixed**: the two layouts `lock # c <NUL> bar⏎foo` and `lock foo` have the same token
types and literals — by `lexAll_layout`, the NUL (and the `bar` after it) being part of the
comment — namely `lock`, `foo`, `EOF`. -/
theorem nul_in_comment :
    (lexAll "lock # c \x00 bar\nfoo".toList).map erase = (lexAll "lock foo".toList).map erase ∧
    (lexAll "lock # c \x00 bar\nfoo".toList).map erase =
      [(.IDENT, "lock"), (.IDENT, "foo"), (.EOF, "")] := by
  constructor
  · rw [← nulLayout_src, ← plainLayout_src]
    exact lexAll_layout [] [] nulLayout plainLayout rfl (.done _) nulLayout_ok (.done _) plainLayout_ok
  · rw [← nulLayout_src, lexAll_of_layout [] nulLayout (.done _) nulLayout_ok]
    decide

/-- A NUL **outside** a comment is still not a separator: the lexer returns an `EOF` token for it
(and goes on), so `lock <NUL> foo` and `lock foo` do not have the same tokens.  This is why `Sep`
admits whitespace and comments only. -/
theorem nul_outside_comment :
    (lexAll "lock \x00 foo".toList).map erase =
      [(.IDENT, "lock"), (.EOF, ""), (.IDENT, "foo"), (.EOF, "")] ∧
    (lexAll "lock \x00 foo".toList).map erase ≠ (lexAll "lock foo".toList).map erase := by
  have h1 : (lexAll "lock \x00 foo".toList).map erase =
      [(.IDENT, "lock"), (.EOF, ""), (.IDENT, "foo"), (.EOF, "")] := by decide +kernel
  have h2 : (lexAll "lock foo".toList).map erase = [(.IDENT, "lock"), (.IDENT, "foo"), (.EOF, "")] :=
    nul_in_comment.1.symm.trans nul_in_comment.2
  refine ⟨h1, ?_⟩
  rw [h1, h2]
  decide

end Example

end Pory.C19b
