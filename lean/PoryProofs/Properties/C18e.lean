import PoryProofs.EmitTotal
import PoryProofs.ParserBoolOps
import PoryProofs.Properties.C05d
import PoryProofs.Properties.C16c
import PoryProofs.Properties.C18c
import PoryProofs.Properties.C18d
/-
C18 (totality), part e — THE WHOLE PIPELINE: "for every input text compilation terminates and returns either
output or an error value; it never panics, hangs or grows without bound", for the model
`Pory.compile env o src : Result` (`PoryModel/Compile.lean`: lexer → parser → emitter → text).

1. `emitProgram_total` — for every program `p` whose scripts (top-level `script` statements and the inline
   scripts of `mapscripts` statements, table entries included: `C01d.ScriptOf p s`) satisfy the two parser
   guarantees `ScopesWellFormed s.body` (every `break` / `continue` inside a scope with its id) and
   `BoolOpsOK s.body` (every binary condition node is `&&` / `||`) — `ParserGuarantees p` — and every option
   set `o`:  `emitProgram o p = .ok ls`, or `emitProgram o p = .error (.perr tok msg)` where `tok` is a token
   stored in the AST (`C16nd.progToks p`; it is the token of a label statement of a script body) and `msg` is
   one of the two "duplicate script / text label" messages.  Never `.plain`, never `.outOfFuel`, never `.panic`
   (`emitProgram_never_plain`, `emitProgram_never_outOfFuel`, `emitProgram_never_panic`).
   `parsed_guarantees` : `parseTokens env toks = .ok p → ParserGuarantees p` (for every token list), from
   C20b / C05d (`ScopesWellFormed`) and the new `Parser.program_boolOps` (PoryProofs/ParserBoolOps.lean, the
   13-function induction `boolAll`).  `emitProgram_total_parsed` combines them.
   Which `.plain` errors of the emitter remain reachable?  NONE for parsed programs:
   * "could not emit 'break' / 'continue' statement because its return point is unknown" needs an ill-scoped
     body (`Emit.no_unknown_return_point`);
   * "could not render chunk statement because it is not a command or label statement" is unreachable for
     every chunk table built by `scriptChunks`, for ANY body: `no_plain_render_error` (the worklist leaves only
     commands and labels in finalised chunks, `Emit.scriptChunks_simple`); more: `render_total` — rendering a
     table built by `scriptChunks` never runs out of fuel (the optimiser's loop does not spin:
     `Emit.optimizeChunkOrder_total`, the ids are exactly `0 … n-1`) and never meets a nil chunk.
   The `.panic` of `splitBool` ("binary expression with an operator other than && / ||") needs a condition
   tree the parser never builds (`BoolOpsOK`).
2. `compile_total` (three-way, as posed) and the sharper `compile_total_two_way`:
   `compile env o src` is `.ok text` or `.parseError e` — for every environment, option set and source;
   `compile_never_plainError`, `compile_never_outOfFuel`, `compile_never_panic`.
3. `compile_error_located` : if `compile env o src = .parseError e` then
   `1 ≤ e.lineStart ≤ e.lineEnd ≤ lineOf src` and `(lineStart, charStart) ≤ (lineEnd, charEnd)`
   lexicographically — for parser errors by `C18d.parser_error_range_in_input`, for the emitter's label
   clashes because the label token stands at the position of a token of the lexer's output
   (`C16c.parsed_tokens_from_input`), whose lines are lines of the source (`C18.token_line_in_range`,
   `LexEndLine.lexAll_endLine_le`) and whose start is not after its end (`C18b.token_start_le_end`).
Nothing is partial.  (Go stack depth, memory and wall-clock time are outside the model; what is proved is that
the model's structural fuel always suffices and its `panic` sites are unreachable.)
-/
namespace Pory.C18e
open Pory Pory.Parser Pory.Emit Pory.Lexer Pory.LexPos

/-! ### 1. the emitter is total on programs that satisfy the parser's guarantees -/

/-- Every script of the program (top-level or inline map script) is well scoped and only uses `&&` / `||`
in its conditions. -/
def ParserGuarantees (p : Program) : Prop :=
  ∀ s, C01d.ScriptOf p s → ScopesWellFormed s.body ∧ BoolOpsOK s.body

/-- every script of a parsed program only uses `&&` / `||` -/
theorem scriptOf_boolOps {env : Env} {toks : List Tok} {prog : Program}
    (h : parseTokens env toks = .ok prog) {s : Script} (hs : C01d.ScriptOf prog s) : BoolOpsOK s.body := by
  have hall := program_boolOps h
  rcases hs with hs | ⟨m, hm, hs⟩
  · exact hall _ hs
  · have hm' : MSBoolOps m.mapScripts m.tables := hall _ hm
    rcases hs with ⟨ms, hms, he⟩ | ⟨t, ht, e, he, hes⟩
    · exact hm'.1 ms hms s he
    · exact hm'.2 t ht e he s hes

/-- **The parser's guarantees hold for every parsed program** (every token list, every environment). -/
theorem parsed_guarantees (env : Env) (toks : List Tok) (p : Program)
    (h : parseTokens env toks = .ok p) : ParserGuarantees p :=
  fun _ hs => ⟨C05d.wellFormed_of_bodyOK (C01d.scriptOf_bodyOK h hs), scriptOf_boolOps h hs⟩

/-- the tokens of a script body are tokens of the program -/
theorem scriptOf_toks {p : Program} {s : Script} (hs : C01d.ScriptOf p s) :
    ∀ t ∈ C16nd.stmtsToks s.body, t ∈ C16nd.progToks p := by
  intro t ht
  simp only [C16nd.progToks, List.mem_append, List.mem_flatMap]
  left
  rcases hs with hs | ⟨m, hm, hs⟩
  · exact ⟨_, hs, by simp [C16nd.topToks, ht]⟩
  · refine ⟨_, hm, ?_⟩
    simp only [C16nd.topToks, C16nd.mapScriptsToks, List.mem_cons, List.mem_append, List.mem_flatMap]
    right
    rcases hs with ⟨ms, hms, he⟩ | ⟨tb, htb, e, he, hes⟩
    · exact .inl ⟨ms, hms, .inr (by rw [he]; exact ht)⟩
    · refine .inr ⟨tb, htb, ?_⟩
      simp only [C16nd.tableToks, List.mem_cons, List.mem_flatMap]
      exact .inr ⟨e, he, .inr (by rw [hes]; exact ht)⟩

theorem topHyp_of_guarantees {p : Program} (hp : ParserGuarantees p) :
    ∀ t ∈ p.tops, TopHyp (· ∈ C16nd.progToks p) t := by
  intro t ht
  have mk : ∀ s, C01d.ScriptOf p s → ScriptHyp (· ∈ C16nd.progToks p) s :=
    fun s hs => ⟨(hp s hs).1, (hp s hs).2, scriptOf_toks hs⟩
  cases t with
  | script s => exact mk s (.inl ht)
  | mapscripts m =>
    exact ⟨fun ms hms s he => mk s (.inr ⟨m, ht, .inl ⟨ms, hms, he⟩⟩),
      fun tb htb e he s hes => mk s (.inr ⟨m, ht, .inr ⟨tb, htb, e, he, hes⟩⟩)⟩
  | raw _ _ _ => trivial
  | text _ => trivial
  | movement _ => trivial
  | mart _ _ _ _ _ => trivial

/-- **The emitter is total.**  For every program whose scripts satisfy the parser's guarantees and every option
set: output, or a label clash reported on a token of the AST.  Never `.plain`, `.outOfFuel`, `.panic`. -/
theorem emitProgram_total (o : Opts) (p : Program) (hp : ParserGuarantees p) :
    (∃ ls, emitProgram o p = .ok ls) ∨
    (∃ tok msg, emitProgram o p = .error (.perr tok msg) ∧ tok ∈ C16nd.progToks p ∧ ClashMsg msg) :=
  emitProgram_good o p (topHyp_of_guarantees hp)

/-- … in the form of the task: `.ok`, `.perr` or `.plain` (the third case does not occur, see
`emitProgram_never_plain`). -/
theorem emitProgram_total_three_way (o : Opts) (p : Program) (hp : ParserGuarantees p) :
    (∃ ls, emitProgram o p = .ok ls) ∨ (∃ tok msg, emitProgram o p = .error (.perr tok msg)) ∨
    (∃ msg, emitProgram o p = .error (.plain msg)) := by
  rcases emitProgram_total o p hp with h | ⟨tok, msg, h, _⟩
  · exact .inl h
  · exact .inr (.inl ⟨tok, msg, h⟩)

theorem emitProgram_never_plain (o : Opts) (p : Program) (hp : ParserGuarantees p) (m : String) :
    emitProgram o p ≠ .error (.plain m) :=
  (emitProgram_good o p (topHyp_of_guarantees hp)).not_plain m

theorem emitProgram_never_outOfFuel (o : Opts) (p : Program) (hp : ParserGuarantees p) :
    emitProgram o p ≠ .error .outOfFuel :=
  (emitProgram_good o p (topHyp_of_guarantees hp)).not_outOfFuel

theorem emitProgram_never_panic (o : Opts) (p : Program) (hp : ParserGuarantees p) (w : String) :
    emitProgram o p ≠ .error (.panic w) :=
  (emitProgram_good o p (topHyp_of_guarantees hp)).not_panic w

/-- **The emitter is total on every parsed program.** -/
theorem emitProgram_total_parsed (env : Env) (toks : List Tok) (o : Opts) (p : Program)
    (h : parseTokens env toks = .ok p) :
    (∃ ls, emitProgram o p = .ok ls) ∨
    (∃ tok msg, emitProgram o p = .error (.perr tok msg) ∧ tok ∈ C16nd.progToks p ∧ ClashMsg msg) :=
  emitProgram_total o p (parsed_guarantees env toks p h)

/-- **Rendering a chunk table built by `scriptChunks` is total**, for ANY body (no scoping / operator
hypothesis), both chunk orders: output or a label clash on the token of a label statement of a chunk. -/
theorem render_total (body : List Stmt) (chunks : List Chunk) (h : scriptChunks body = .ok chunks)
    (o : Opts) (ps : List ((Nat × Nat) × String)) (n : String) (g : Bool) (tl : List String) :
    (∃ ls, renderChunks o ps chunks n g tl = .ok ls) ∨
    (∃ tok msg, renderChunks o ps chunks n g tl = .error (.perr tok msg) ∧ tok ∈ C16nd.stmtsToks body ∧
      ClashMsg msg) := by
  obtain ⟨hnd, h0⟩ := C05.scriptChunks_ids body chunks h
  have hs := scriptChunks_simple body chunks h
  refine (renderChunks_total o ps chunks n g tl hnd h0 (scriptChunks_ids_lt body chunks h)
    (fun c hc => (hs c hc).1)).mono ?_
  intro t ⟨c, hc, name, g', hm⟩
  exact (hs c hc).2 t (label_mem_stmtsToks hm)

/-- **"could not render chunk statement because it is not a command or label statement" is unreachable**
(as is every other `.plain` error of the rendering phase) for chunk tables built by `scriptChunks`. -/
theorem no_plain_render_error (body : List Stmt) (chunks : List Chunk) (h : scriptChunks body = .ok chunks)
    (o : Opts) (ps : List ((Nat × Nat) × String)) (n : String) (g : Bool) (tl : List String) (m : String) :
    renderChunks o ps chunks n g tl ≠ .error (.plain m) := by
  rcases render_total body chunks h o ps n g tl with ⟨ls, h1⟩ | ⟨tok, msg, h1, _⟩ <;>
    (rw [h1]; intro e; cases e)

/-- … nor does the rendering phase run out of fuel or meet a nil chunk. -/
theorem no_render_outOfFuel_or_panic (body : List Stmt) (chunks : List Chunk)
    (h : scriptChunks body = .ok chunks) (o : Opts) (ps : List ((Nat × Nat) × String)) (n : String) (g : Bool)
    (tl : List String) :
    renderChunks o ps chunks n g tl ≠ .error .outOfFuel ∧ ∀ w, renderChunks o ps chunks n g tl ≠ .error (.panic w) := by
  rcases render_total body chunks h o ps n g tl with ⟨ls, h1⟩ | ⟨tok, msg, h1, _⟩ <;>
    (rw [h1]; exact ⟨fun e => (by cases e), fun w e => (by cases e)⟩)

/-! ### 2. the whole pipeline is total -/

/-- What `compile` returns, in terms of the two phases. -/
theorem compile_cases (env : Env) (o : Opts) (src : List Char) :
    (∃ e, parseTokens env (lexAll src) = .error (.err e) ∧ compile env o src = .parseError e) ∨
    (∃ p ls, parseTokens env (lexAll src) = .ok p ∧ emitProgram o p = .ok ls ∧
      compile env o src = .ok (render ls)) ∨
    (∃ p tok msg, parseTokens env (lexAll src) = .ok p ∧ emitProgram o p = .error (.perr tok msg) ∧
      tok ∈ C16nd.progToks p ∧ ClashMsg msg ∧ compile env o src = .parseError (tokErr tok msg)) := by
  rcases C18c.compile_never_out_of_fuel_or_panic_in_parser env src with ⟨p, hp⟩ | ⟨e, he⟩
  · right
    rcases emitProgram_total_parsed env _ o p hp with ⟨ls, hl⟩ | ⟨tok, msg, hl, ht, hm⟩
    · exact .inl ⟨p, ls, hp, hl, by simp [compile, compileLines, hp, hl]⟩
    · exact .inr ⟨p, tok, msg, hp, hl, ht, hm, by simp [compile, compileLines, hp, hl]⟩
  · exact .inl ⟨e, he, by simp [compile, compileLines, he]⟩

/-- **Compilation is total**: for every environment, option set and source text the result is output or a
located error — the model never runs out of fuel, never panics, and never returns a plain error. -/
theorem compile_total_two_way (env : Env) (o : Opts) (src : List Char) :
    (∃ t, compile env o src = .ok t) ∨ (∃ e, compile env o src = .parseError e) := by
  rcases compile_cases env o src with ⟨e, _, h⟩ | ⟨p, ls, _, _, h⟩ | ⟨p, tok, msg, _, _, _, _, h⟩
  · exact .inr ⟨e, h⟩
  · exact .inl ⟨_, h⟩
  · exact .inr ⟨_, h⟩

/-- … in the three-way form of the task (the third case does not occur: `compile_never_plainError`). -/
theorem compile_total (env : Env) (o : Opts) (src : List Char) :
    (∃ t, compile env o src = .ok t) ∨ (∃ e, compile env o src = .parseError e) ∨
    (∃ m, compile env o src = .plainError m) := by
  rcases compile_total_two_way env o src with h | h
  · exact .inl h
  · exact .inr (.inl h)

theorem compile_never_plainError (env : Env) (o : Opts) (src : List Char) (m : String) :
    compile env o src ≠ .plainError m := by
  rcases compile_total_two_way env o src with ⟨t, h⟩ | ⟨e, h⟩ <;> (rw [h]; intro e; cases e)

theorem compile_never_outOfFuel (env : Env) (o : Opts) (src : List Char) (w : String) :
    compile env o src ≠ .outOfFuel w := by
  rcases compile_total_two_way env o src with ⟨t, h⟩ | ⟨e, h⟩ <;> (rw [h]; intro e; cases e)

theorem compile_never_panic (env : Env) (o : Opts) (src : List Char) (w : String) :
    compile env o src ≠ .panic w := by
  rcases compile_total_two_way env o src with ⟨t, h⟩ | ⟨e, h⟩ <;> (rw [h]; intro e; cases e)

/-! ### 3. every error is located inside the source -/

/-- a token of the AST of a program parsed from `src` stands at the position of a token of `lexAll src` -/
theorem ast_token_pos (env : Env) (src : List Char) (p : Program)
    (h : parseTokens env (lexAll src) = .ok p) (tok : Tok) (ht : tok ∈ C16nd.progToks p) :
    ∃ t0 ∈ lexAll src, C16c.SamePos tok t0 := by
  obtain ⟨t0, hm, hpos⟩ := (C16c.fromInput_iff _ _).1 (C16c.parsed_tokens_from_input env _ p h tok ht)
  refine ⟨t0, ?_, hpos⟩
  rcases hm with hm | hm
  · exact hm
  · have hne := (lexAll_ends_with_eof src).2
    rw [hm, List.getLastD_eq_getLast?, List.getLast?_eq_some_getLast hne]
    exact List.getLast_mem hne

/-- **Every error `compile` returns lies inside the source, start not after end**: lines between 1 and the
number of lines of the source, start line not after end line, and (start line, start byte column) ≤
(end line, end byte column) lexicographically — for the parser's errors and for the emitter's label clashes. -/
theorem compile_error_located (env : Env) (o : Opts) (src : List Char) (e : PErr)
    (h : compile env o src = .parseError e) :
    1 ≤ e.lineStart ∧ e.lineStart ≤ e.lineEnd ∧ e.lineEnd ≤ lineOf src ∧
    (e.lineStart < e.lineEnd ∨ (e.lineStart = e.lineEnd ∧ e.charStart ≤ e.charEnd)) := by
  rcases compile_cases env o src with ⟨e', hp, hc⟩ | ⟨p, ls, _, _, hc⟩ | ⟨p, tok, msg, hp, _, ht, _, hc⟩
  · rw [hc] at h
    injection h with h; subst h
    exact C18d.parser_error_range_in_input env src e' hp
  · rw [hc] at h; cases h
  · rw [hc] at h
    injection h with h; subst h
    obtain ⟨t0, hm, h1, h2, h3, h4, _, _⟩ := ast_token_pos env src p hp tok ht
    have hstart := C18.token_line_in_range src t0 hm
    have hend := LexEndLine.lexAll_endLine_le src t0 hm
    have hord := C18b.token_start_le_end src t0 hm
    simp only [tokErr]
    rw [h1, h2, h3, h4]
    refine ⟨hstart.1, ?_, hend, hord⟩
    rcases hord with h | h <;> omega

/-- the emitter's errors are label clashes: the message of a `parseError` that does not come from the parser
is one of the two "duplicate … label" messages, and the error is built from a token of the AST -/
theorem compile_emitter_error (env : Env) (o : Opts) (src : List Char) (p : Program) (e : PErr)
    (hp : parseTokens env (lexAll src) = .ok p) (h : compile env o src = .parseError e) :
    ∃ tok ∈ C16nd.progToks p, ClashMsg e.msg ∧ e = tokErr tok e.msg := by
  rcases compile_cases env o src with ⟨e', hp', _⟩ | ⟨p', ls, _, _, hc⟩ | ⟨p', tok, msg, hp', _, ht, hm, hc⟩
  · rw [hp] at hp'; cases hp'
  · rw [hc] at h; cases h
  · rw [hp] at hp'
    injection hp' with hp'; subst hp'
    rw [hc] at h
    injection h with h; subst h
    exact ⟨tok, ht, hm, rfl⟩

/-! ### non-vacuity -/

def textOf : Result → Option String
  | .ok t => some t
  | _ => none

def errOf : Result → Option PErr
  | .parseError e => some e
  | _ => none

theorem eq_of_textOf {r : Result} {t : String} (h : textOf r = some t) : r = .ok t := by
  unfold textOf at h
  split at h
  · cases h; rfl
  · cases h

theorem eq_of_errOf {r : Result} {e : PErr} (h : errOf r = some e) : r = .parseError e := by
  unfold errOf at h
  split at h
  · cases h; rfl
  · cases h

/-- A source that compiles (the kernel evaluates lexer, parser, emitter and renderer on it; the unoptimised
chunk order is used because `optimizeChunkOrder` does not reduce in the kernel — the theorems above cover both
orders). -/
example : compile {} { optimize := false } "script S { a }".toList = .ok "S::\n\ta\n\treturn\n\n" :=
  eq_of_textOf (by decide +kernel)

/-- A source with a parser error: the conclusion of `compile_error_located` is the concrete fact
`1 ≤ 1 ≤ 1 ≤ 1`, columns `9 ≤ 10`. -/
example :
    let src := "script S {".toList
    let e : PErr := { lineStart := 1, lineEnd := 1, charStart := 9, utf8Start := 9, charEnd := 10, utf8End := 10,
                      msg := "missing closing curly brace for block statement" }
    compile {} { optimize := false } src = .parseError e ∧
      (1 ≤ e.lineStart ∧ e.lineStart ≤ e.lineEnd ∧ e.lineEnd ≤ lineOf src ∧
        (e.lineStart < e.lineEnd ∨ (e.lineStart = e.lineEnd ∧ e.charStart ≤ e.charEnd))) := by
  intro src e
  have h : compile {} { optimize := false } src = .parseError e := eq_of_errOf (by decide +kernel)
  exact ⟨h, compile_error_located {} _ src e h⟩

/-- A source with an emitter label clash: the user label `S_1` (line 2) clashes with the generated label of
the chunk after the `if`.  The error is a `parseError` located on the label token (line 2, columns 0 – 3), inside
the two-line source. -/
example :
    let src := "script S { if (flag(A)) { a }\nS_1: b }".toList
    let e : PErr := { lineStart := 2, lineEnd := 2, charStart := 0, utf8Start := 0, charEnd := 3, utf8End := 3,
                      msg := "duplicate script label 'S_1'. Choose a unique label that won't clash with the auto-generated script labels" }
    compile {} { optimize := false } src = .parseError e ∧
      (1 ≤ e.lineStart ∧ e.lineStart ≤ e.lineEnd ∧ e.lineEnd ≤ lineOf src ∧
        (e.lineStart < e.lineEnd ∨ (e.lineStart = e.lineEnd ∧ e.charStart ≤ e.charEnd))) := by
  intro src e
  have h : compile {} { optimize := false } src = .parseError e := eq_of_errOf (by decide +kernel)
  exact ⟨h, compile_error_located {} _ src e h⟩

/-! `emitProgram_total` on token lists (as the lexer produces them for
`script S { if (flag(A) && !flag(B)) { a } S_1: b }`): the hypothesis holds (`parsed_guarantees`) and the second
alternative — a label clash — is the one that occurs. -/
section Example
private def tk (t : TT) (l : String := "") : Tok := { type := t, lit := l }
private def exToks : List Tok :=
  [tk .SCRIPT, tk .IDENT "S", tk .LBRACE, tk .IF, tk .LPAREN, tk .FLAG, tk .LPAREN, tk .IDENT "A", tk .RPAREN,
   tk .AND, tk .NOT, tk .FLAG, tk .LPAREN, tk .IDENT "B", tk .RPAREN, tk .RPAREN,
   tk .LBRACE, tk .IDENT "a", tk .RBRACE, tk .IDENT "S_1", tk .COLON, tk .IDENT "b", tk .RBRACE, tk .EOF]

set_option maxRecDepth 20000 in
example : ∃ p, parseTokens {} exToks = .ok p ∧ ParserGuarantees p ∧
    ∃ tok msg, emitProgram { optimize := false } p = .error (.perr tok msg) ∧ tok.lit = "S_1" := by
  refine ⟨_, rfl, parsed_guarantees {} exToks _ rfl, _, _, rfl, rfl⟩

/-- … and a program that is emitted, with the optimised chunk order (`emitProgram_total` covers it although
the kernel cannot evaluate `optimizeChunkOrder`). -/
example (p : Program) (h : parseTokens {} exToks = .ok p) :
    (∃ ls, emitProgram {} p = .ok ls) ∨
    (∃ tok msg, emitProgram {} p = .error (.perr tok msg) ∧ tok ∈ C16nd.progToks p ∧ ClashMsg msg) :=
  emitProgram_total_parsed {} exToks {} p h
end Example

#print axioms parsed_guarantees
#print axioms emitProgram_total
#print axioms emitProgram_never_plain
#print axioms render_total
#print axioms no_plain_render_error
#print axioms compile_total_two_way
#print axioms compile_total
#print axioms compile_never_panic
#print axioms compile_error_located
#print axioms compile_emitter_error

end Pory.C18e
