import PoryProofs.RenderSim
/-
C05 (semantic half) — "optimisation only reorders code": the optimised and the unoptimised
rendering of the same chunk table behave identically.

Both renderings are simulated by the *same* chunk graph (`RenderSim.render_sim`, which holds for
either chunk order), hence:
* `both_orders_same_behaviour`: every graph configuration `(k, off, h)` — the entry `(0, 0, [])`,
  every statement, in particular every user label statement — has a program counter in the
  optimised lines and one in the unoptimised lines, and whenever the graph run from that
  configuration finishes with outcome `oc` and history `h'`, both assembly runs finish, with the
  same history `rh patches h'` and outcomes corresponding to `oc` (`ORel`; for `ret` / `end_`
  this determines the outcome: `orel_det`; for a user `goto` both are the patched arguments of a
  command with the graph's arguments);
* `both_orders_same_behaviour_entry`: the same from the first line of either rendering.
Hypotheses: those of `render_sim` (distinct ids containing 0, `Closed`, `PreambleOK`, both
renderings succeed, `SwitchNotLast` for both orders, `Compat` of the two worlds — which does not
depend on `optimize`: `compat_congr`).  Non-termination is covered at step level only
(`render_sim`'s step clause: every graph step is matched by ≥ 1 assembly steps except a
fall-through, which moves to the next chunk of a duplicate-free order).
-/
namespace Pory.C05b
open Pory Pory.Emit Pory.Sem Pory.Asm Pory.RenderSim

theorem rbc_congr {o₁ o₂ : Opts} (hl : o₁.lineMarkers = o₂.lineMarkers)
    (hp : o₁.inputPath = o₂.inputPath) (name : String) (t : Nat) (e : OpExpr) :
    renderBranchComparison o₁ name t e = renderBranchComparison o₂ name t e := by
  unfold renderBranchComparison
  rw [C05.marker_congr hl hp]

/-- Compatibility of the worlds does not depend on the `optimize` flag. -/
theorem compat_congr {o₁ o₂ : Opts} (hl : o₁.lineMarkers = o₂.lineMarkers)
    (hp : o₁.inputPath = o₂.inputPath) {patches : List ((Nat × Nat) × String)} {name : String}
    {G : List Chunk} {w : SWorld} {aw : AWorld} (C : Compat o₁ patches name G w aw) :
    Compat o₂ patches name G w aw :=
  ⟨fun c hc t e f hb h r => by rw [← rbc_congr hl hp]; exact C.test c hc t e f hb h r, C.case_⟩

/-- For `ret` / `end_` the corresponding assembly outcome is unique. -/
theorem orel_det {patches : List ((Nat × Nat) × String)} {oc : Outcome} {o₁ o₂ : AOutcome}
    (h₁ : ORel patches oc o₁) (h₂ : ORel patches oc o₂) (hj : ∀ a, oc ≠ .jump a) : o₁ = o₂ := by
  cases oc with
  | jump a => exact absurd rfl (hj a)
  | ret => cases o₁ <;> cases o₂ <;> simp_all [ORel]
  | end_ => cases o₁ <;> cases o₂ <;> simp_all [ORel]
  | stuck _ => cases o₁ <;> simp_all [ORel]

/-- The optimised and the unoptimised rendering of one chunk table are simulated by the same
chunk graph: from corresponding configurations both behave as the graph does. -/
theorem both_orders_same_behaviour (o : Opts) (patches : List ((Nat × Nat) × String)) (name : String)
    (G : List Chunk) (isGlobal : Bool) (tl : List String) (ls₁ ls₂ : List Line)
    (hnd : (G.map (·.id)).Nodup) (h0 : 0 ∈ G.map (·.id)) (hcl : Closed G) (hpre : PreambleOK G)
    (h₁ : renderChunks { o with optimize := true } patches G name isGlobal tl = .ok ls₁)
    (h₂ : renderChunks { o with optimize := false } patches G name isGlobal tl = .ok ls₂) :
    ∃ ord₁ ord₂, C05.chunkOrder { o with optimize := true } G = .ok ord₁ ∧
      C05.chunkOrder { o with optimize := false } G = .ok ord₂ ∧ ord₁.Perm ord₂ ∧
      (SwitchNotLast G ord₁ → SwitchNotLast G ord₂ → ∀ (w : SWorld) (aw : AWorld),
        Compat o patches name G w aw →
        ∀ k ∈ G.map (·.id), ∀ (off : Nat) (h : Hist) (regs : Spec.Regs) (sw : String),
          ∃ pc₁ pc₂,
            RA { o with optimize := true } patches name G isGlobal ls₁ ord₁ ⟨k, off, h⟩
              ⟨pc₁, rh patches h, regs, sw⟩ ∧
            RA { o with optimize := false } patches name G isGlobal ls₂ ord₂ ⟨k, off, h⟩
              ⟨pc₂, rh patches h, regs, sw⟩ ∧
            ∀ n oc h', giter w G n ⟨k, off, h⟩ = .fin oc h' →
              ∃ m₁ m₂ oc₁ oc₂,
                aiter aw ls₁ m₁ ⟨pc₁, rh patches h, regs, sw⟩ = .fin oc₁ (rh patches h') ∧
                aiter aw ls₂ m₂ ⟨pc₂, rh patches h, regs, sw⟩ = .fin oc₂ (rh patches h') ∧
                ORel patches oc oc₁ ∧ ORel patches oc oc₂) := by
  obtain ⟨ord₁, ho₁, hpc₁, hsim₁⟩ := render_sim { o with optimize := true } patches name G isGlobal
    tl ls₁ hnd h0 hcl hpre h₁
  obtain ⟨ord₂, ho₂, hpc₂, hsim₂⟩ := render_sim { o with optimize := false } patches name G isGlobal
    tl ls₂ hnd h0 hcl hpre h₂
  refine ⟨ord₁, ord₂, ho₁, ho₂, C05.chunkOrder_perm_both _ _ G ord₁ ord₂ h0 ho₁ ho₂, ?_⟩
  intro SW₁ SW₂ w aw C k hk off h regs sw
  obtain ⟨pc₁, hR₁⟩ := hpc₁ k hk off h regs sw
  obtain ⟨pc₂, hR₂⟩ := hpc₂ k hk off h regs sw
  obtain ⟨_, _, hrun₁⟩ := hsim₁ SW₁ w aw (compat_congr (o₁ := o) (o₂ := { o with optimize := true }) rfl rfl C)
  obtain ⟨_, _, hrun₂⟩ := hsim₂ SW₂ w aw (compat_congr (o₁ := o) (o₂ := { o with optimize := false }) rfl rfl C)
  refine ⟨pc₁, pc₂, hR₁, hR₂, ?_⟩
  intro n oc h' hg
  obtain ⟨m₁, oc₁, hm₁, hr₁⟩ := hrun₁ n _ _ oc h' hR₁ hg
  obtain ⟨m₂, oc₂, hm₂, hr₂⟩ := hrun₂ n _ _ oc h' hR₂ hg
  exact ⟨m₁, m₂, oc₁, oc₂, hm₁, hm₂, hr₁, hr₂⟩

/-- The same from the first line of either rendering (the script's entry label). -/
theorem both_orders_same_behaviour_entry (o : Opts) (patches : List ((Nat × Nat) × String))
    (name : String) (G : List Chunk) (isGlobal : Bool) (tl : List String) (ls₁ ls₂ : List Line)
    (hnd : (G.map (·.id)).Nodup) (h0 : 0 ∈ G.map (·.id)) (hcl : Closed G) (hpre : PreambleOK G)
    (h₁ : renderChunks { o with optimize := true } patches G name isGlobal tl = .ok ls₁)
    (h₂ : renderChunks { o with optimize := false } patches G name isGlobal tl = .ok ls₂) :
    ∃ ord₁ ord₂, C05.chunkOrder { o with optimize := true } G = .ok ord₁ ∧
      C05.chunkOrder { o with optimize := false } G = .ok ord₂ ∧
      (SwitchNotLast G ord₁ → SwitchNotLast G ord₂ → ∀ (w : SWorld) (aw : AWorld),
        Compat o patches name G w aw → ∀ (regs : Spec.Regs) (sw : String) n oc h',
          giter w G n ⟨0, 0, []⟩ = .fin oc h' →
          ∃ m₁ m₂ oc₁ oc₂,
            aiter aw ls₁ m₁ ⟨0, [], regs, sw⟩ = .fin oc₁ (rh patches h') ∧
            aiter aw ls₂ m₂ ⟨0, [], regs, sw⟩ = .fin oc₂ (rh patches h') ∧
            ORel patches oc oc₁ ∧ ORel patches oc oc₂) := by
  obtain ⟨ord₁, ho₁, _, hsim₁⟩ := render_sim { o with optimize := true } patches name G isGlobal
    tl ls₁ hnd h0 hcl hpre h₁
  obtain ⟨ord₂, ho₂, _, hsim₂⟩ := render_sim { o with optimize := false } patches name G isGlobal
    tl ls₂ hnd h0 hcl hpre h₂
  refine ⟨ord₁, ord₂, ho₁, ho₂, ?_⟩
  intro SW₁ SW₂ w aw C regs sw n oc h' hg
  obtain ⟨hent₁, _, hrun₁⟩ := hsim₁ SW₁ w aw (compat_congr (o₁ := o) (o₂ := { o with optimize := true }) rfl rfl C)
  obtain ⟨hent₂, _, hrun₂⟩ := hsim₂ SW₂ w aw (compat_congr (o₁ := o) (o₂ := { o with optimize := false }) rfl rfl C)
  obtain ⟨a₁, hs₁, hR₁⟩ := hent₁ regs sw
  obtain ⟨a₂, hs₂, hR₂⟩ := hent₂ regs sw
  obtain ⟨m₁, oc₁, hm₁, hr₁⟩ := hrun₁ n _ _ oc h' hR₁ hg
  obtain ⟨m₂, oc₂, hm₂, hr₂⟩ := hrun₂ n _ _ oc h' hR₂ hg
  have e₁ := aiter_star aw ls₁ m₁ a₁
  rw [hm₁] at e₁
  have e₂ := aiter_star aw ls₂ m₂ a₂
  rw [hm₂] at e₂
  obtain ⟨m₁', hm₁'⟩ := star_aiter (hs₁.trans e₁) _ rfl _ _ rfl
  obtain ⟨m₂', hm₂'⟩ := star_aiter (hs₂.trans e₂) _ rfl _ _ rfl
  exact ⟨m₁', m₂', oc₁, oc₂, hm₁', hm₂', hr₁, hr₂⟩

/-- Non-vacuity: both theorems apply to `RenderSim.demoG` (leaf test, `switch`, shared
continuations); the two orders differ. -/
example := both_orders_same_behaviour {} [] "S" demoG true [] (demoLs true) (demoLs false)
  (by decide) (by decide) demoG_closed demoG_preamble (demo_render true) (demo_render false)

example := both_orders_same_behaviour_entry {} [] "S" demoG true [] (demoLs true) (demoLs false)
  (by decide) (by decide) demoG_closed demoG_preamble (demo_render true) (demo_render false)

end Pory.C05b
