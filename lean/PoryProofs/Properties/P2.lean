import PoryProofs.ProgramDec
/-
P2 (whole-file grammar; serves C17 "independent of unrelated statements", C12 / C13 whole-program assembly) —
"parse ∘ print = elaborate" for WHOLE FILES, and from it the independence clause of C17 as a theorem about the
parser + emitter models.

Helper modules (all new): PoryProofs/ProgramGrammar.lean (grammar, printer, `TWF`, reference elaboration),
ProgramParse.lean (the parser on printed files), ProgramShift.lean / ProgramIds.lean (the statement elaboration
under a shift of the id counters; ids lie between the counters), ProgramConst.lean (the elaboration reads the
constant table only at the literals of its own tokens), ProgramFrame.lean (frame lemma of the file elaboration), ProgramEmit.lean (emitter: patches / text labels it does not read; output as blocks),
ProgramIndep.lean, ProgramInsert.lean (assembly), ProgramDec.lean (decidability of the side conditions).

COVERED GRAMMAR (`STop`, every constructor carries the tokens it is printed with — arbitrary records, any
positions / literals; `TopWF` fixes the token types, `TWF` a whole file):
    script     `script [(global|local)] Name { body }`, body = the statement grammar of P1 (`StmtG.SStmt`:
               commands incl. string / `moves()` arguments, labels, if / elif / else, while, do-while, break,
               continue, switch, poryswitch, … nested to any depth)
    raw        `raw RAWSTRING`
    const      `const NAME = v₁ … vₖ` (value tokens: anything but a top-level keyword / EOF; k may be 0)
    movement   `movement [(mod)] Name { step | step * N | , … }` (multipliers valid base-0 literals in 1..9999)
    mart       `mart [(mod)] Name { ITEM* }` (plain IDENT items)
    text       `text [(mod)] Name { STRING | STRINGTYPE STRING }`
NOT COVERED (nothing below says anything about them): `mapscripts` statements; poryswitch inside movement / mart
lists and text statements; `format( … )` text values; an invalid multiplier in a movement statement (C14b has
the located errors); a `const` as the LAST statement of a file (model = Go: the value then gets a trailing
space, C13b.const_at_eof_trailing_space; `TWF` excludes it); everything P1 lists as not covered inside script
bodies; token sequences outside the grammar (missing names / braces …: C15b, C13b have those errors); the
lexer (all statements are about token lists; `#guard`s below check the example tokens against the model lexer).

REFERENCE ELABORATION (`elabTops env ts s`, `stepTop`): the statements left to right, threading exactly what the
parser threads between top-level statements, as a `PState` whose token window is ignored: the constants (a
`const` puts `NAME ↦ constAcc (values with earlier constants substituted)` in front; duplicate name / empty
value are the two located errors), `nextSid` / `nextCmdId` (NOT reset between scripts), the hoisting tables of
`addImplicitData` (`C12c.addImp`: dedupe table by (terminated value, string type) resp. by movement key, label
counter per script NAME, hoisted texts / movements in order of creation, the patches `(command id, argument
position) ↦ label`), the text statements. A script body is `StmtG.elabE` (P1). `finish` = the post-passes of
`ParseProgram`: first duplicate text name (hoisted texts before text statements), hoisted movements appended
to the statements, first duplicate movement name (located at the EARLIER statement).

PROVED
1. parse ∘ print = elaborate
* `parse_top_elab`  : `parseTopLevelStatement` on one printed statement = `stepTop` (result, state, located error);
* `parse_tops_elab` : `topLoop` on `printTops ts ++ eof :: tl` = `elabTops env ts` (statements appended to the
                      accumulator, window left on the EOF token, or the located error of the first violation);
* `parse_program_elab` : `parseProgramM` = `elabTops` followed by `finish`;
* `parse_file_elab` : `parseTokens env (printTops ts ++ [eof]) = elabFile env ts (initState eof)` — with the model's
                      own fuel `4 * tokens + 50` (shown sufficient), for every `TWF` file.
  Nothing is partial for the covered grammar.
2. independence (C17)
* `compileFile env o eof ts` : the pipeline on the reference elaboration, the output as `Sections` (blocks of the
  top-level statements / hoisted movements / hoisted texts / text statements; `Sections.lines` joins all
  blocks by single blank lines); `compile_print`: `parseTokens` + `emitProgram` on the printed tokens IS
  `compileFile` (all emitter options: optimised or not, with or without line markers).
* `tops_independent` : for `Indep env eof ts1 ts2` (decidable, see there: no token of `ts2` is spelled like a
  constant defined in `ts1` — both parts may define and use their OWN constants —; `ts2` hoists no text /
  movement `ts1` hoisted and no hoisting script of `ts2` has the name of a hoisting script of `ts1`; text names,
  movement names disjoint; no label statement of one part is a text name of the other):
      `compileFile (ts1 ++ ts2) = .ok S  ↔  ∃ S1 S2, compileFile ts1 = .ok S1 ∧ compileFile ts2 = .ok S2 ∧ S = S1 ++ S2`
  (section-wise concatenation): the file compiles iff both parts compile, and every statement, hoisted text,
  hoisted movement is rendered to exactly the lines it has when its part is compiled alone — although the
  command ids, scope ids, patch lists and the constant table of `ts2` differ in the combined file (shift lemma
  `elabL_shift`; `elabL_congr`: the elaboration reads the constant table only at the literals of its own tokens;
  `emitScript_frame` = C12c.emit_ids_irrelevant generalised to unrelated extra patches / text labels).
  `tops_independent_tokens`: the same through `compileToks` on printed tokens; `parse_error_left/right`: a
  parse error of a part is the parse error of the file.
* `statement_independent` : for `Unrelated env eof pre t post` (decidable; `pre` MAY define constants that `post`
  uses; `t` is not a `const`): if `pre ++ t :: post` compiles to `S'` then `S' = P ++ (T ++ Q)` section-wise, `T`
  the blocks of `t` (at most one top-level block), and `pre ++ post` compiles to `P ++ Q`: removing `t` removes
  exactly its own blocks and leaves the lines of every other statement unchanged; `insert_statement`: read
  backwards when both files compile.
3. what is FALSE of the model (witnesses, all by `decide`)
* `concat_false` : the output of `ts1 ++ ts2` is NOT the concatenation of the two outputs in general: texts
  (and hoisted movements) are rendered after ALL top-level statements. The true statement is section-wise
  (`tops_independent`); `lines_append_of_plain`: literal concatenation (with one blank line) does hold when part 1
  has no texts and no hoisted movements.
* `shared_text_not_independent` : two scripts with the same string literal share ONE hoisted text, labelled after
  the first script: compiled alone the second script's lines differ (its own `B_Text_0`).
* `same_name_not_independent` : hoisted labels are numbered per script NAME across the file: a second script
  with the same name continues the numbering (`A_Text_1`), alone it starts at `A_Text_0`.
* `const_use_not_independent` : a statement that uses a constant of the other part is not independent of it
  (alone the name stays, in the file the value is substituted).

PARTIAL / OPEN (honest list)
* The independence theorems compare SUCCESSFUL compilations (iff on success + the output equation) and the
  parse errors of `elabTops` (`parse_error_left/right`); which error a failing combined file reports in the
  post-passes / emitter is not compared with the parts (it can differ: e.g. which duplicate text is "first").
* The label clause of `Indep` / `Unrelated` is stated on `C04c.userLabelsOf` (label statements as they sit in
  the chunk table of the script), the constant clause on the SPELLING of tokens (any token of `ts2` whose
  literal is a constant name of `ts1` violates it, used or not).
* `statement_independent` is proved in the "remove" direction (and for two compiling files); that
  `pre ++ t :: post` compiles whenever `pre ++ post` and `t` do (with the obvious name-freshness conditions) is
  not proved.
* mapscripts are not in the grammar.
-/
namespace Pory.P2
open Pory Pory.Parser Pory.C02P Pory.StmtG Pory.TopParse Pory.Emit
open Pory.C14b (Item printItems expand)

/-! ## 1. parse ∘ print = elaborate -/

/-- One printed top-level statement (followed by `nx :: rest`; after a `const`, `nx` is a top-level keyword). -/
theorem parse_top_elab (env : Env) (fuel : Nat) (t : STop) (s : PState) (nx : Tok) (rest : List Tok)
    (hwf : TopWF t) (hnx : t.isConst = true → nx.type ∈ Facts.topLevelTokens) (hf : needTop t ≤ fuel) :
    (parseTopLevelStatement env fuel).run (st s (printTop t ++ nx :: rest)) =
      match stepTop env t s with
      | .error e => .error e
      | .ok (o, s') => .ok (o, st s' (t.last :: nx :: rest)) :=
  parse_top_step env fuel t s nx rest hwf hnx hf

/-- **P2, the top-level loop**: on the printed file followed by an EOF token the loop returns the accumulator
extended by the elaborated statements, in the elaborated state, with the window on the EOF token — or the
located error of the first violation. -/
theorem parse_tops_elab (env : Env) (fuel : Nat) (eofT : Tok) (tl : List Tok) (heof : eofT.type = .EOF)
    (ts : List STop) (n : Nat) (acc : List Top) (s : PState) (hwf : TWF ts) (hn : ts.length + 1 ≤ n)
    (hf : ∀ t ∈ ts, needTop t ≤ fuel) :
    (topLoop env fuel n acc).run (st s (printTops ts ++ eofT :: tl)) =
      match elabTops env ts s with
      | .error e => .error e
      | .ok (tops, s') => .ok (acc ++ tops, st s' (eofT :: tl)) :=
  topLoop_elab env fuel eofT tl heof ts n acc s hwf hn hf

/-- … followed by the post-passes of `ParseProgram`. -/
theorem parse_program_elab (env : Env) (fuel : Nat) (eofT : Tok) (tl : List Tok) (heof : eofT.type = .EOF)
    (ts : List STop) (s : PState) (hwf : TWF ts) (hn : ts.length + 1 ≤ fuel)
    (hf : ∀ t ∈ ts, needTop t ≤ fuel) :
    (parseProgramM env fuel).run (st s (printTops ts ++ eofT :: tl)) =
      match elabTops env ts s with
      | .error e => .error e
      | .ok (tops, s') =>
        match finish tops s' with
        | .error e => .error e
        | .ok p => .ok (p, st s' (eofT :: tl)) :=
  parseProgramM_elab env fuel eofT tl heof ts s hwf hn hf

/-- **P2, whole files**: `parseTokens` (with its own fuel `4 * tokens + 50`) on the printed tokens of a
well-formed file is the reference elaboration followed by the post-passes: the documented `Program`, or the
located error of the first violation. -/
theorem parse_file_elab (env : Env) (eofT : Tok) (heof : eofT.type = .EOF) (ts : List STop) (hwf : TWF ts) :
    parseTokens env (printTops ts ++ [eofT]) = elabFile env ts (initState eofT) :=
  parseTokens_elab env eofT heof ts hwf

/-- The documented `Program` of an accepted file. -/
theorem parse_file_program (env : Env) (ts : List STop) (s0 : PState) (p : Program)
    (h : elabFile env ts s0 = .ok p) :
    ∃ tops s, elabTops env ts s0 = .ok (tops, s) ∧
      p = { tops := tops ++ s.inlineMovements.map Top.movement, texts := s.inlineTexts ++ s.textStatements,
            patches := s.patches } ∧
      (textNames s).Nodup ∧ (allMvNames tops s).Nodup := by
  unfold elabFile at h
  cases he : elabTops env ts s0 with
  | error e => rw [he] at h; cases h
  | ok q =>
    obtain ⟨tops, s⟩ := q
    rw [he] at h
    obtain ⟨h1, h2⟩ := (finish_ok_iff tops s).1 ⟨p, h⟩
    exact ⟨tops, s, rfl, finish_eq tops s p h, h1, h2⟩

/-! ## 2. independence -/

/-- The model's pipeline (`parseTokens`, then `emitProgram`) on the printed tokens of a file is `compileFile`. -/
theorem compile_print (env : Env) (o : Opts) (eofT : Tok) (heof : eofT.type = .EOF) (ts : List STop)
    (hwf : TWF ts) :
    compileToks env o (printTops ts ++ [eofT]) =
      match compileFile env o eofT ts with
      | .error e => .error e
      | .ok S => .ok S.lines :=
  compileToks_print env o eofT heof ts hwf

/-- **C17, independence.** -/
theorem tops_independent (env : Env) (o : Opts) (eofT : Tok) (ts1 ts2 : List STop)
    (h : Indep env eofT ts1 ts2) (S : Sections) :
    compileFile env o eofT (ts1 ++ ts2) = .ok S ↔
      ∃ S1 S2, compileFile env o eofT ts1 = .ok S1 ∧ compileFile env o eofT ts2 = .ok S2 ∧
        S = S1.append S2 :=
  indep_main env o eofT ts1 ts2 h S

/-- … through the model's pipeline on tokens. -/
theorem tops_independent_tokens (env : Env) (o : Opts) (eofT : Tok) (heof : eofT.type = .EOF)
    (ts1 ts2 : List STop) (hwf1 : TWF ts1) (hwf2 : TWF ts2) (hwf : TWF (ts1 ++ ts2))
    (h : Indep env eofT ts1 ts2) (L : List Line) :
    compileToks env o (printTops (ts1 ++ ts2) ++ [eofT]) = .ok L ↔
      ∃ S1 S2, compileToks env o (printTops ts1 ++ [eofT]) = .ok S1.lines ∧
        compileToks env o (printTops ts2 ++ [eofT]) = .ok S2.lines ∧
        compileFile env o eofT ts1 = .ok S1 ∧ compileFile env o eofT ts2 = .ok S2 ∧
        L = (S1.append S2).lines := by
  rw [compile_print env o eofT heof _ hwf, compile_print env o eofT heof _ hwf1,
    compile_print env o eofT heof _ hwf2]
  constructor
  · intro hL
    cases hc : compileFile env o eofT (ts1 ++ ts2) with
    | error e => rw [hc] at hL; cases hL
    | ok S =>
      rw [hc] at hL
      simp only [Except.ok.injEq] at hL
      obtain ⟨S1, S2, h1, h2, rfl⟩ := (tops_independent env o eofT ts1 ts2 h S).1 hc
      exact ⟨S1, S2, by rw [h1], by rw [h2], h1, h2, hL.symm⟩
  · rintro ⟨S1, S2, _, _, h1, h2, rfl⟩
    rw [(tops_independent env o eofT ts1 ts2 h _).2 ⟨S1, S2, h1, h2, rfl⟩]

/-- A parse error of the first part is the parse error of the file (no side condition). -/
theorem parse_error_left (env : Env) (s0 : PState) (ts1 ts2 : List STop) (e : PFail)
    (h : elabTops env ts1 s0 = .error e) : elabTops env (ts1 ++ ts2) s0 = .error e := by
  rw [elabTops_append, h]

/-- A parse error of the second part (compiled alone) is the parse error of the file. -/
theorem parse_error_right (env : Env) (eofT : Tok) (ts1 ts2 : List STop) (h : Indep env eofT ts1 ts2)
    (tops1 : List Top) (s1 : PState) (h1 : elabTops env ts1 (initState eofT) = .ok (tops1, s1)) (e : PFail)
    (h2 : elabTops env ts2 (initState eofT) = .error e) :
    elabTops env (ts1 ++ ts2) (initState eofT) = .error e := by
  unfold Indep at h
  rw [h1] at h
  have := indep_parse env eofT ts1 ts2 tops1 s1 h1 h.1
  rw [h2] at this
  exact this

/-- **C17, one statement.** Removing an unrelated statement removes exactly its own blocks. -/
theorem statement_independent (env : Env) (o : Opts) (eofT : Tok) (pre : List STop) (t : STop)
    (post : List STop) (h : Unrelated env eofT pre t post) (S' : Sections)
    (hc : compileFile env o eofT (pre ++ t :: post) = .ok S') :
    ∃ P T Q : Sections, S' = P.append (T.append Q) ∧ T.tops.length ≤ 1 ∧
      compileFile env o eofT (pre ++ post) = .ok (P.append Q) :=
  remove_statement env o eofT pre t post h S' hc

/-- … read as insertion: when both files compile, the bigger output is the smaller one with the blocks of `t`
inserted (in each section, at the position of `t`). -/
theorem insert_statement (env : Env) (o : Opts) (eofT : Tok) (pre : List STop) (t : STop)
    (post : List STop) (h : Unrelated env eofT pre t post) (S S' : Sections)
    (hc : compileFile env o eofT (pre ++ post) = .ok S)
    (hc' : compileFile env o eofT (pre ++ t :: post) = .ok S') :
    ∃ P T Q : Sections, S = P.append Q ∧ S' = P.append (T.append Q) ∧ T.tops.length ≤ 1 := by
  obtain ⟨P, T, Q, h1, h2, h3⟩ := statement_independent env o eofT pre t post h S' hc'
  rw [hc] at h3
  simp only [Except.ok.injEq] at h3
  exact ⟨P, T, Q, h3, h1, h2⟩

/-! ### literal concatenation of the lines -/

theorem joinFrom_pos : ∀ (bs : List (List Line)) (i j : Nat), 0 < i → 0 < j → joinFrom i bs = joinFrom j bs
  | [], _, _, _, _ => rfl
  | b :: r, i, j, hi, hj => by
    simp only [joinFrom, hi, hj, if_true, joinFrom_pos r (i + 1) (j + 1) (by omega) (by omega)]

theorem joinFrom_succ (bs : List (List Line)) (i : Nat) (h : bs ≠ []) :
    joinFrom (i + 1) bs = Line.blank :: joinFrom 0 bs := by
  cases bs with
  | nil => exact absurd rfl h
  | cons b r =>
    simp only [joinFrom, Nat.zero_lt_succ, if_true, Nat.lt_irrefl, if_false, List.nil_append,
      List.cons_append]
    rw [joinFrom_pos r (i + 1 + 1) (0 + 1) (by omega) (by omega)]

/-- When part 1 has no texts and no hoisted movements, the lines of the file are literally the lines of part 1,
one blank line, the lines of part 2. -/
theorem lines_append_of_plain (S1 S2 : Sections) (h1 : S1.moves = []) (h2 : S1.inl = []) (h3 : S1.stm = [])
    (hne1 : S1.tops ≠ []) (hne2 : S2.blocks ≠ []) :
    (S1.append S2).lines = S1.lines ++ Line.blank :: S2.lines := by
  have e1 : (S1.append S2).blocks = S1.tops ++ S2.blocks := by
    simp [Sections.append, Sections.blocks, h1, h2, h3, List.append_assoc]
  have e2 : S1.blocks = S1.tops := by simp [Sections.blocks, h1, h2, h3]
  unfold Sections.lines
  rw [e1, e2, joinFrom_append, Nat.zero_add]
  obtain ⟨n, hn⟩ : ∃ n, S1.tops.length = n + 1 := by
    cases h : S1.tops with
    | nil => exact absurd h hne1
    | cons a r => exact ⟨r.length, rfl⟩
  rw [hn, joinFrom_succ _ _ hne2]

/-! ## 3. examples, non-vacuity, witnesses -/
section Example

private def lp : Tok := tk .LPAREN "("
private def rp : Tok := tk .RPAREN ")"
private def lb : Tok := tk .LBRACE "{"
private def rb : Tok := tk .RBRACE "}"
private def z : Nat → TPos := fun _ => {}
private def cond (lf : Leaf) : SCond := .plain (.one (.one (.leaf lf)))
/-- the final token -/
def eofT : Tok := tk .EOF ""
/-- emitter options of the examples: chunk order not optimised (`optimizeChunkOrder` does not reduce under
`decide`), no line markers -/
def exO : Opts := { optimize := false }

theorem toOption_some {ε α : Type} {x : Except ε α} {a : α} (h : x.toOption = some a) : x = .ok a := by
  cases x with
  | error e => cases h
  | ok b => cases h; rfl

/-- `script A { if (flag(F)) { msgbox("Hi") } }` -/
def exA : STop :=
  .script (tk .SCRIPT "script") .absent (tk .IDENT "A") lb
    [.ite (tk .IF "if") lp (cond (.flagBare z false "F")) rp lb
      [.cmdI (tk .IDENT "msgbox") lp [.str (tk .STRING "Hi")] [] rp] rb [] .none] rb

/-- `movement M { walk_up * 2 face_down }` -/
def exM : STop :=
  .movement (tk .MOVEMENT "movement") .absent (tk .IDENT "M") lb
    [.stepMul (tk .IDENT "walk_up") (tk .MUL "*") (tk .INT "2"), .step (tk .IDENT "face_down")] rb

/-- `script B { while (var(X) < 3) { foo } }` -/
def exB : STop :=
  .script (tk .SCRIPT "script") .absent (tk .IDENT "B") lb
    [.while_ (tk .WHILE "while") lp (cond (.varCmp z "X" .lt ⟨true, "3"⟩)) rp lb [.cmd0 (tk .IDENT "foo")] rb] rb

/-- the three-statement file -/
def exFile : List STop := [exA, exM, exB]

-- sanity check (evaluation, not a proof): the printed tokens are what the model lexer produces
#guard (Lexer.lexAll ("script A { if (flag(F)) { msgbox(\"Hi\") } } movement M { walk_up * 2 face_down } " ++
    "script B { while (var(X) < 3) { foo } }").toList).map (fun t => (t.type, t.lit)) ==
  (printTops exFile ++ [eofT]).map (fun t => (t.type, t.lit))

theorem exFile_wf : TWF exFile := by decide

/-- (scope id of a top-level loop, command id, command name) of the commands directly inside the loop -/
def loopCmds : Top → List (Nat × Nat × String)
  | .script s => s.body.flatMap fun
      | .while_ _ sid _ b => b.flatMap fun
          | .cmd c => [(sid, c.id, c.name)]
          | _ => []
      | _ => []
  | _ => []

/-- The parser on the three-statement file: three statements, one hoisted text `A_Text_0` patched into argument
0 of command 0; the loop of `B` got scope id 0, `foo` the command id 1 (ids are not reset between scripts). -/
example :
    ∃ p, parseTokens {} (printTops exFile ++ [eofT]) = .ok p ∧
      p.tops.length = 3 ∧ p.texts.map (fun t => (t.name, t.value)) = [("A_Text_0", "Hi$")] ∧
      p.patches = [((0, 0), "A_Text_0")] ∧ p.tops.flatMap loopCmds = [(0, 1, "foo")] := by
  rw [parse_file_elab {} eofT rfl exFile exFile_wf]
  exact ⟨_, rfl, by decide, by decide, by decide, by decide⟩

/-- the lines of script `A` / of the movement / of script `B` / of the hoisted text -/
def linesA : List Line :=
  [.labelDef "A" true, .goto_ "A_2", .blank,
   .labelDef "A_1" false, .command "msgbox" ["A_Text_0"], .terminator false, .blank,
   .labelDef "A_2" false, .gotoIfSet "F" "A_1", .terminator false, .blank]
def linesM : List Line :=
  [.labelDef "M" false, .step "walk_up", .step "walk_up", .step "face_down", .step "step_end"]
def linesB : List Line :=
  [.labelDef "B" true, .labelDef "B_1" false, .goto_ "B_3", .blank,
   .labelDef "B_2" false, .command "foo" [], .goto_ "B_1", .blank,
   .labelDef "B_3" false, .compare false "X" "3", .gotoIfCmp .LT "B_2", .terminator false, .blank]
def linesT : List Line := [.labelDef "A_Text_0" false, .textLine "string" "Hi$"]

/-- **Non-vacuity**: the three-statement file compiled … -/
theorem exFile_compiled :
    compileFile {} exO eofT exFile = .ok { tops := [linesA, linesM, linesB], inl := [linesT] } :=
  toOption_some (by decide)

/-- … and the same with the middle statement removed: the blocks of the other statements are the same. -/
theorem exFile_without_M :
    compileFile {} exO eofT [exA, exB] = .ok { tops := [linesA, linesB], inl := [linesT] } :=
  toOption_some (by decide)

/-- the rendered lines of the file: blocks joined by single blank lines -/
example :
    compileToks {} exO (printTops exFile ++ [eofT]) =
      .ok (linesA ++ .blank :: linesM ++ .blank :: linesB ++ .blank :: linesT) := by
  rw [compile_print {} exO eofT rfl exFile exFile_wf, exFile_compiled]
  rfl

/-- The side condition of `tops_independent` holds for the split `[A] ++ [M, B]` … -/
theorem exFile_indep : Indep {} eofT [exA] [exM, exB] := by decide

/-- … so the theorem gives the compiled file from the compiled parts (`B` is elaborated with other ids inside
the file than alone: command id 1 / 0). -/
example :
    compileFile {} exO eofT [exA] = .ok { tops := [linesA], inl := [linesT] } ∧
    compileFile {} exO eofT [exM, exB] = .ok { tops := [linesM, linesB] } ∧
    compileFile {} exO eofT ([exA] ++ [exM, exB]) =
      .ok (Sections.append { tops := [linesA], inl := [linesT] } { tops := [linesM, linesB] }) := by
  have h1 : compileFile {} exO eofT [exA] = .ok { tops := [linesA], inl := [linesT] } := toOption_some (by decide)
  have h2 : compileFile {} exO eofT [exM, exB] = .ok { tops := [linesM, linesB] } := toOption_some (by decide)
  exact ⟨h1, h2, (tops_independent {} exO eofT [exA] [exM, exB] exFile_indep _).2 ⟨_, _, h1, h2, rfl⟩⟩

/-- The side condition of `statement_independent` holds for the movement between the two scripts … -/
theorem exFile_unrelated : Unrelated {} eofT [exA] exM [exB] := by decide

/-- … so removing it removes exactly its block (instance of the theorem, consistent with `exFile_without_M`). -/
example :
    ∃ P T Q : Sections, ({ tops := [linesA, linesM, linesB], inl := [linesT] } : Sections) = P.append (T.append Q) ∧
      T.tops.length ≤ 1 ∧ compileFile {} exO eofT ([exA] ++ [exB]) = .ok (P.append Q) :=
  statement_independent {} exO eofT [exA] exM [exB] exFile_unrelated _ exFile_compiled

/-- the same for the script `A` in front of `[M, B]` (its hoisted text goes with it) -/
example : Unrelated {} eofT [] exA [exM, exB] := by decide

/-- `tops_independent_tokens` on the example: the model's pipeline on the printed tokens of the file and of the
two parts. -/
example (L : List Line) :
    compileToks {} exO (printTops ([exA] ++ [exM, exB]) ++ [eofT]) = .ok L ↔
      ∃ S1 S2, compileToks {} exO (printTops [exA] ++ [eofT]) = .ok S1.lines ∧
        compileToks {} exO (printTops [exM, exB] ++ [eofT]) = .ok S2.lines ∧
        compileFile {} exO eofT [exA] = .ok S1 ∧ compileFile {} exO eofT [exM, exB] = .ok S2 ∧
        L = (S1.append S2).lines :=
  tops_independent_tokens {} exO eofT rfl [exA] [exM, exB] (by decide) (by decide) (by decide) exFile_indep L

/-- `lines_append_of_plain`: a movement and a script, no texts. -/
example : (Sections.append { tops := [linesM] } { tops := [linesB] }).lines = linesM ++ .blank :: linesB :=
  lines_append_of_plain _ _ rfl rfl rfl (by decide) (by decide)

/-- `script X { break }`: rejected alone, hence (`parse_error_right`) behind `A` with the same located error. -/
def exBad : STop :=
  .script (tk .SCRIPT "script") .absent (tk .IDENT "X") lb [.brk (tkp ⟨3, 2, 2, 3, 7, 7⟩ .BREAK "break")] rb

example :
    elabTops {} ([exA] ++ [exBad]) (initState eofT) =
      .error (newParseError (tkp ⟨3, 2, 2, 3, 7, 7⟩ .BREAK "break")
        "'break' statement outside of any break-able scope") :=
  parse_error_right {} eofT [exA] [exBad] (by decide) _ _ rfl _ rfl

/-! ### witnesses: what is false without the side conditions -/

/-- `text T { "x" }` and `raw` -/
def exT : STop := .text (tk .TEXT "text") .absent (tk .IDENT "T") lb (.plain (tk .STRING "x")) rb
def exR : STop := .raw (tk .RAW "raw") (tk .RAWSTRING "nop")

#guard (Lexer.lexAll "text T { \"x\" } raw `nop`".toList).map (fun t => (t.type, t.lit)) ==
  (printTops [exT, exR] ++ [eofT]).map (fun t => (t.type, t.lit))

/-- **The output of `ts1 ++ ts2` is not the concatenation of the outputs** (separated by a blank line): the text
of part 1 is rendered AFTER the statements of part 2. (`[exT]` and `[exR]` are independent, and
`tops_independent` gives the section-wise concatenation.) -/
theorem concat_false :
    Indep {} eofT [exT] [exR] ∧
    (compileFile {} exO eofT [exT]).toOption.map Sections.lines =
      some [.labelDef "T" true, .textLine "string" "x$"] ∧
    (compileFile {} exO eofT [exR]).toOption.map Sections.lines = some [.raw "nop"] ∧
    (compileFile {} exO eofT ([exT] ++ [exR])).toOption.map Sections.lines =
      some [.raw "nop", .blank, .labelDef "T" true, .textLine "string" "x$"] := by
  decide

/-- `script B { msgbox("Hi") }` — the same string literal as in `exA` -/
def exB2 : STop :=
  .script (tk .SCRIPT "script") .absent (tk .IDENT "B") lb
    [.cmdI (tk .IDENT "msgbox") lp [.str (tk .STRING "Hi")] [] rp] rb

/-- **Hoisted texts shared between scripts are not independent**: inside the file `B` refers to `A_Text_0` (the
model dedupes file-wide), alone to its own `B_Text_0`. The side condition fails, as it must. -/
theorem shared_text_not_independent :
    ¬ Indep {} eofT [exA] [exB2] ∧
    (compileFile {} exO eofT [exB2]).toOption.map (·.tops) =
      some [[.labelDef "B" true, .command "msgbox" ["B_Text_0"], .terminator false, .blank]] ∧
    (compileFile {} exO eofT [exA, exB2]).toOption.map (·.tops) =
      some [linesA, [.labelDef "B" true, .command "msgbox" ["A_Text_0"], .terminator false, .blank]] := by
  decide

/-- `script A { msgbox("Yo") }` — a second script with the NAME of `exA` -/
def exA2 : STop :=
  .script (tk .SCRIPT "script") .absent (tk .IDENT "A") lb
    [.cmdI (tk .IDENT "msgbox") lp [.str (tk .STRING "Yo")] [] rp] rb

/-- **Hoisted labels are numbered per script name across the file** (the parser does not reject two scripts of
the same name): inside the file the second `A` gets `A_Text_1`, alone `A_Text_0`. -/
theorem same_name_not_independent :
    ¬ Indep {} eofT [exA] [exA2] ∧
    (compileFile {} exO eofT [exA2]).toOption.map (·.tops) =
      some [[.labelDef "A" true, .command "msgbox" ["A_Text_0"], .terminator false, .blank]] ∧
    (compileFile {} exO eofT [exA, exA2]).toOption.map (·.tops) =
      some [linesA, [.labelDef "A" true, .command "msgbox" ["A_Text_1"], .terminator false, .blank]] := by
  decide

/-- A constant defined in front is used by the statements behind the removed one: `const N = 5`, `raw`, and
`script C { setvar(VAR, N) }` — `pre` may define constants in `statement_independent`. -/
def exC : STop := .const (tk .CONST "const") (tk .IDENT "N") (tk .ASSIGN "=") [tk .INT "5"]
def exS : STop :=
  .script (tk .SCRIPT "script") .absent (tk .IDENT "C") lb
    [.cmd (tk .IDENT "setvar") lp [tk .IDENT "VAR"] [(tk .COMMA ",", [tk .IDENT "N"])] rp] rb

example : TWF [exC, exR, exS] ∧ Unrelated {} eofT [exC] exR [exS] ∧
    (compileFile {} exO eofT [exC, exR, exS]).toOption.map (·.tops) =
      some [[.raw "nop"], [.labelDef "C" true, .command "setvar" ["VAR", "5"], .terminator false, .blank]] ∧
    (compileFile {} exO eofT [exC, exS]).toOption.map (·.tops) =
      some [[.labelDef "C" true, .command "setvar" ["VAR", "5"], .terminator false, .blank]] := by
  decide

/-- Constants in both parts: `[const N = 5, script C { setvar(VAR, N) }] ++ [B]` is independent … -/
example : Indep {} eofT [exC, exS] [exB] := by decide

/-- … while **a statement that uses a constant of the other part is not**: alone `script C` keeps the name `N`,
behind `const N = 5` the value is substituted. -/
theorem const_use_not_independent :
    ¬ Indep {} eofT [exC, exR] [exS] ∧
    (compileFile {} exO eofT [exS]).toOption.map (·.tops) =
      some [[.labelDef "C" true, .command "setvar" ["VAR", "N"], .terminator false, .blank]] ∧
    (compileFile {} exO eofT ([exC, exR] ++ [exS])).toOption.map (·.tops) =
      some [[.raw "nop"], [.labelDef "C" true, .command "setvar" ["VAR", "5"], .terminator false, .blank]] := by
  decide

/-- the two located errors of `const`, through `parseTokens` -/
example :
    parseTokens {} (printTops [exC, exC, exR] ++ [eofT]) =
      .error (newParseError (tk .IDENT "N") "duplicate const 'N'. Must use unique const names") := by
  rw [parse_file_elab {} eofT rfl _ (by decide)]
  rfl

example :
    parseTokens {} (printTops [.const (tk .CONST "const") (tk .IDENT "N") (tk .ASSIGN "=") [], exR] ++ [eofT]) =
      .error (newRangeParseError (tk .CONST "const") (tk .ASSIGN "=") "missing value for const 'N'") := by
  rw [parse_file_elab {} eofT rfl _ (by decide)]
  rfl

/-- a duplicate text name: `text T {"x"}` twice -/
example :
    parseTokens {} (printTops [exT, exT] ++ [eofT]) =
      .error (newParseError (tk .TEXT "text")
        "duplicate text label 'T'. Choose a unique label that won't clash with the auto-generated text labels") := by
  rw [parse_file_elab {} eofT rfl _ (by decide)]
  rfl

end Example

#print axioms parse_top_elab
#print axioms parse_tops_elab
#print axioms parse_program_elab
#print axioms parse_file_elab
#print axioms compile_print
#print axioms tops_independent
#print axioms tops_independent_tokens
#print axioms parse_error_right
#print axioms statement_independent
#print axioms insert_statement
#print axioms lines_append_of_plain
#print axioms concat_false
#print axioms shared_text_not_independent
#print axioms same_name_not_independent
#print axioms const_use_not_independent
#print axioms elabL_congr
#print axioms elabL_shift
#print axioms elabL_ids
#print axioms elabTops_frame
#print axioms emitScript_frame

end Pory.P2
