import PoryProofs.Properties.C01
/-
C11 — an AutoVar condition runs its command once, in order, then compares its var.

Source semantics (`PorySpec/Sem.lean`): `evalCond` walks a condition left to right with
short-circuit; an AutoVar leaf appends its command (the leaf's `preamble`) to the history
immediately before its test; an AutoVar `switch` is parsed into the command statement followed
by the switch statement (parser model `parseSwitchStatement`: `preamble ++ [.switch_ …]`).

Proved (PoryProofs/Sim.lean, PoryProofs/Properties/C01.lean; re-exported here):
* `preamble_once_per_evaluation`: in the chunk graph one evaluation of a condition runs the
  preamble of exactly the leaves that short-circuit evaluation tests, each once, in order, each
  immediately before its test — none for a leaf that an earlier operand already decided;
* `loop_reevaluates`: a loop header re-runs the evaluation on every iteration (`header_sim`);
* `preamble_rendered_as_statement`: the preamble line of a leaf chunk is rendered by the same
  `renderCommand` that renders the command as a statement.
The choice of the compared var (configured name or argument at the configured position) is in
the parser model (`expectPeekVarOrAutoVar`) and is exercised by correspondence (`gen_C11`, both
config forms).
-/
namespace Pory.C11
open Pory Pory.Emit Pory.Sem

theorem preamble_once_per_evaluation (w : SWorld) (G : List Chunk) {c : BoolExpr} {e t : Nat}
    {f : Option Nat} {h : Hist} (hi : ImplCond G e c t f) :
    Star w G (.next ⟨e, 0, h⟩)
      (if (evalCond w h c).2 then .next ⟨t, 0, h ++ (C01.evalLeaves w h c).filterMap (·.preamble)⟩
       else goto f (h ++ (C01.evalLeaves w h c).filterMap (·.preamble))) :=
  C01.C11_preamble_once_per_evaluation w G hi

/-- A short-circuited leaf is not evaluated: `a && b` with `a` false tests only `a`'s leaves. -/
theorem short_circuited_leaf_not_run (w : SWorld) (h : Hist) (l r : BoolExpr) (h1 : Hist)
    (hl : evalCond w h l = (h1, false)) :
    C01.evalLeaves w h (.bin l .AND r) = C01.evalLeaves w h l := by
  simp [C01.evalLeaves, hl]

/-- Every loop iteration re-evaluates the condition through the header chunk. -/
theorem loop_reevaluates (w : SWorld) (G : List Chunk) {hd bId : Nat} {c : Option BoolExpr}
    {post : Option Nat} {h : Hist} (hh : HeaderOK G hd c bId post) :
    Star w G (.next ⟨hd, 0, h⟩)
      (match evalOpt w h c with
        | (h', true) => .next ⟨bId, 0, h'⟩
        | (h', false) => goto post h') :=
  header_sim w G hh

/-- The preamble of a leaf chunk is rendered exactly like the command as a statement. -/
theorem preamble_rendered_as_statement (o : Opts) (patches : List ((Nat × Nat) × String)) (name : String)
    (id truthy : Nat) (e : OpExpr) (f : Option Nat) (p : Cmd) (next : Option Nat) (hp : e.preamble = some p) :
    (renderBranching o patches name { id := id, branch := .leaf truthy e f } next).1.head? =
      some (renderCommand patches p) := by
  simp [renderBranching, hp]
  split <;> (try split) <;> simp

end Pory.C11
